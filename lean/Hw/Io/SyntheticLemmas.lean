/-
  Hw.Io.SyntheticLemmas — memory-safety facts about the model of hwloc_backend_synthetic_init /
  hwloc_synthetic_process_indexes (Hw.Io.Synthetic), used by Hw.Props.C07.
-/
import Hw.Io.Synthetic
import Hw.Base.NumLemmas
namespace Hw.Syn
open Hw Hw.Topo

/-! ### pointers returned by the libc models are suffixes of their argument -/

theorem takeDigits_suffix (b : Nat) : ∀ (s : Bytes) (a n : Nat), (takeDigits b s a n).2.2 <:+ s := by
  intro s
  induction s with
  | nil => intro a n; simp [takeDigits]
  | cons c cs ih =>
    intro a n
    unfold takeDigits
    split
    · split
      · exact (ih _ _).trans (List.suffix_cons c cs)
      · exact List.suffix_refl _
    · exact List.suffix_refl _

/-- the base / start of digits chosen by strtol from the `0x` / `0` prefix -/
def strtoPre (base : Nat) (s1 : Bytes) : Nat × Bytes :=
    match s1 with
    | 48 :: x :: d :: r =>
      if (x == 120 || x == 88) && isDigitIn 16 d && (base == 16 || base == 0) then (16, d :: r)
      else if base == 0 then (8, s1) else (base, s1)
    | 48 :: _ => if base == 0 then (8, s1) else (base, s1)
    | _ => if base == 0 then (10, s1) else (base, s1)

theorem strtoCore_eq (base : Nat) (s : Bytes) : strtoCore base s =
    (let t := takeDigits (strtoPre base s).1 (strtoPre base s).2 0 0
     if t.2.1 = 0 then none else some (t.1, t.2.2)) := by
  unfold strtoCore strtoPre
  rfl

theorem strtoPre_suffix (base : Nat) (s : Bytes) : (strtoPre base s).2 <:+ s := by
  unfold strtoPre
  split
  · split
    · exact ⟨[48, _], rfl⟩
    · split <;> exact List.suffix_refl _
  · split <;> exact List.suffix_refl _
  · split <;> exact List.suffix_refl _

theorem strtoCore_suffix (base : Nat) (s : Bytes) (v : Nat) (r : Bytes) (h : strtoCore base s = some (v, r)) :
    r <:+ s := by
  rw [strtoCore_eq] at h
  simp only at h
  split at h
  · cases h
  · simp only [Option.some.injEq, Prod.mk.injEq] at h
    obtain ⟨_, rfl⟩ := h
    exact (takeDigits_suffix _ _ 0 0).trans (strtoPre_suffix base s)

def signSplit (s1 : Bytes) : Bool × Bytes :=
  match s1 with
  | 45 :: r => (true, r)
  | 43 :: r => (false, r)
  | _ => (false, s1)

theorem signSplit_suffix (s1 : Bytes) : (signSplit s1).2 <:+ s1 := by
  unfold signSplit
  split
  · exact List.suffix_cons _ _
  · exact List.suffix_cons _ _
  · exact List.suffix_refl _

theorem strtolU32_eq (base : Nat) (s : Bytes) : strtolU32 base s =
    (match strtoCore base (signSplit (s.dropWhile isSpace)).2 with
     | none => (0, s)
     | some (v, rest) =>
       if (signSplit (s.dropWhile isSpace)).1 then ((if v ≥ 2^63 then 0 else (u64 - v) % u32), rest)
       else ((min v (2^63 - 1)) % u32, rest)) := by
  unfold strtolU32 signSplit
  rfl

theorem strtolU32_suffix (base : Nat) (s : Bytes) : (strtolU32 base s).2 <:+ s := by
  rw [strtolU32_eq]
  split
  · exact List.suffix_refl _
  · rename_i v rest hc
    have h1 := strtoCore_suffix base _ v rest hc
    have h2 := (signSplit_suffix (s.dropWhile isSpace)).trans (List.dropWhile_suffix _)
    split <;> exact h1.trans h2

theorem strchr_suffix (c : Byte) : ∀ (s r : Bytes), strchr c s = some r → r <:+ s := by
  intro s
  induction s with
  | nil => intro r h; simp [strchr] at h
  | cons x xs ih =>
    intro r h
    unfold strchr at h
    split at h
    · simp only [Option.some.injEq] at h; subst h; exact List.suffix_refl _
    · exact (ih r h).trans (List.suffix_cons x xs)

theorem strchr_head (c : Byte) : ∀ (s r : Bytes), strchr c s = some r → ∃ t, r = c :: t := by
  intro s
  induction s with
  | nil => intro r h; simp [strchr] at h
  | cons x xs ih =>
    intro r h
    unfold strchr at h
    split at h
    · rename_i hx; simp only [Option.some.injEq] at h; subst h; exact ⟨xs, by rw [hx]⟩
    · exact ih r h

/-! ### counting ':' -/

theorem countColons_nil (m : Nat) : countColons [] m = 0 := by simp [countColons]

theorem countColons_append_colon (pre r : Bytes) (m : Nat) (h : pre.length + 1 ≤ m) :
    1 + countColons r (m - (pre.length + 1)) ≤ countColons (pre ++ 58 :: r) m := by
  unfold countColons
  have : (pre ++ 58 :: r).take m = pre ++ 58 :: r.take (m - (pre.length + 1)) := by
    rw [List.take_append]
    have h1 : pre.take m = pre := List.take_of_length_le (by omega)
    rw [h1]
    have h2 : m - pre.length = (m - (pre.length + 1)) + 1 := by omega
    rw [h2, List.take_succ_cons]
  rw [this, List.filter_append, List.length_append]
  simp only [List.filter_cons, beq_self_eq_true, if_true, List.length_cons]
  omega

theorem countColons_mono (s : Bytes) (m : Nat) : countColons s (m + 1) ≤ countColons s m + 1 := by
  unfold countColons
  induction s generalizing m with
  | nil => simp
  | cons c cs ih =>
    cases m with
    | zero =>
      simp only [List.take_succ_cons, List.take_zero, List.filter_cons, List.filter_nil]
      split <;> simp
    | succ m =>
      simp only [List.take_succ_cons, List.filter_cons]
      have := ih m
      split
      · simp only [List.length_cons]; omega
      · omega

/-! ### every write to `loops[]` is inside the allocation of `nr_loops + 1` slots -/

theorem strtolU32_nil : strtolU32 0 [] = (0, []) := by decide

theorem xyLoop_nil (cap total fuel m nbs : Nat) (acc : List ILoop) : xyLoop cap total fuel [] m nbs acc = .fail := by
  cases fuel with
  | zero => simp [xyLoop]
  | succ f => simp [xyLoop, strtolU32_nil]

theorem xyLoop_safe (cap total : Nat) : ∀ (fuel : Nat) (s : Bytes) (m nbs : Nat) (acc : List ILoop),
    acc.length + countColons s m < cap → xyLoop cap total fuel s m nbs acc ≠ .err .loopsOverflow := by
  intro fuel
  induction fuel with
  | zero => intro s m nbs acc _; simp [xyLoop]
  | succ f ih =>
    intro s m nbs acc hinv
    unfold xyLoop
    generalize hst : strtolU32 0 s = p
    obtain ⟨step, t2⟩ := p
    simp only
    split
    · simp
    · split
      · rename_i t2' hne0
        split
        · simp
        · generalize hst2 : strtolU32 0 t2' = q
          obtain ⟨nb, t3⟩ := q
          simp only
          split
          · simp
          · split
            · simp
            · split
              · simp
              · split
                · simp
                · split
                  · -- the write loops[acc.length]
                    rename_i hcap
                    have : countColons s m ≥ 0 := Nat.zero_le _
                    omega
                  · split
                    · simp
                    · split
                      · simp
                      · -- continue after a ':'
                        rename_i hstep hne hc3 hnb hnbs hcap hclose hcons
                        have hsuf3 : t3 <:+ t2' := by have := strtolU32_suffix 0 t2'; rw [hst2] at this; exact this
                        have hsuf2 : (42 :: t2') <:+ s := by have := strtolU32_suffix 0 s; rw [hst] at this; exact this
                        have hsuf : t3 <:+ s := (hsuf3.trans (List.suffix_cons 42 t2')).trans hsuf2
                        cases t3 with
                        | nil => simp only [List.drop_nil]; rw [xyLoop_nil]; simp
                        | cons c r =>
                          have hc : c = 58 := by
                            simp only [List.head?_cons, Option.isSome_some, Bool.true_and] at hc3
                            simp only [List.head?_cons, Option.some.injEq] at hclose
                            by_cases h58 : c = 58
                            · exact h58
                            · exfalso; apply hc3
                              have h41 : c ≠ 41 := fun h => hclose (Or.inl h)
                              have h32 : c ≠ 32 := fun h => hclose (Or.inr h)
                              simp [h58, h41, h32]
                          subst hc
                          obtain ⟨pre, hpre⟩ := hsuf
                          have hlen : s.length = pre.length + (r.length + 1) := by rw [← hpre]; simp
                          simp only [List.length_cons] at hcons
                          simp only [List.drop_succ_cons, List.drop_zero, List.length_cons]
                          apply ih
                          have hcons' : pre.length + 1 < m := by omega
                          have hcc := countColons_append_colon pre r m (by omega)
                          rw [hpre] at hcc
                          have e1 : s.length - (r.length + 1) + 1 = pre.length + 1 := by omega
                          rw [e1]
                          simp only [List.length_append, List.length_cons, List.length_nil]
                          omega
      · simp

theorem tyLoop_safe (levels : List Level) (cap len : Nat) : ∀ (fuel : Nat) (s : Bytes) (off : Nat) (acc : List Nat) (log : Log),
    acc.length + countColons s (len + 1 - off) < cap →
    (tyLoop levels cap len fuel s off acc log).1 ≠ .err .loopsOverflow := by
  intro fuel
  induction fuel with
  | zero => intro s off acc log _; simp [tyLoop]
  | succ f ih =>
    intro s off acc log hinv
    unfold tyLoop
    split
    · simp
    · rename_i t _
      split
      · simp
      · generalize hsc : scanLevels levels t (maxDepth + 1) 0 log = q
        obtain ⟨r, log'⟩ := q
        simp only
        split
        · omega
        · split
          · simp
          · rename_i d
            split
            · simp
            · rename_i c hc
              split
              · simp
              · rename_i ho
                obtain ⟨r', rfl⟩ := strchr_head 58 s c hc
                obtain ⟨pre, hpre⟩ := strchr_suffix 58 s _ hc
                have hlen : s.length = pre.length + (r'.length + 1) := by rw [← hpre]; simp
                simp only [List.drop_succ_cons, List.drop_zero, List.length_cons]
                apply ih
                simp only [List.length_cons] at ho
                have hcc := countColons_append_colon pre r' (len + 1 - off) (by omega)
                rw [hpre] at hcc
                have e1 : len + 1 - (off + (s.length - (r'.length + 1)) + 1) = len + 1 - off - (pre.length + 1) := by omega
                rw [e1]
                simp only [List.length_append, List.length_cons, List.length_nil]
                omega

theorem tyCompute_no_overflow (levels : List Level) (total : Nat) (depths : List Nat) :
    ∀ (rest : List Nat) (k : Nat) (loops : List ILoop) (minstep nbs : Nat) (log : Log),
    (tyCompute levels total depths rest k loops minstep nbs log).1 ≠ .err .loopsOverflow := by
  intro rest
  induction rest with
  | nil => intro k loops minstep nbs log; simp [tyCompute]
  | cons my rest ih =>
    intro k loops minstep nbs log
    unfold tyCompute
    split
    · simp
    · simp only
      split
      · simp
      · split
        · simp
        · split
          · simp
          · exact ih _ _ _ _ _

theorem finishLoops_no_overflow (total : Nat) (loops : List ILoop) (minstep nbs : Nat) :
    piOf (finishLoops total loops minstep nbs) ≠ .err .loopsOverflow := by
  unfold finishLoops
  split
  · simp [piOf]
  · simp only
    split
    · simp [piOf]
    · split <;> simp [piOf]

/-- **loops[] safety**: no run of hwloc_synthetic_process_indexes writes outside the `nr_loops+1` slots it allocated -/
theorem processIndexes_loops_safe (levels : List Level) (ix : Idx) (total : Nat) :
    (processIndexes levels ix total).1 ≠ .err .loopsOverflow := by
  unfold processIndexes
  split
  · simp
  · rename_i s len _
    split
    · simp
    · split
      · split <;> simp
      · simp only
        split
        · -- x*y notation
          have hsafe := xyLoop_safe (1 + countColons s len + 1) total (s.length + 1) s len 1 [] (by simp; omega)
          split
          · simp
          · rename_i e he
            intro h
            simp only [PI.err.injEq] at h
            subst h
            exact hsafe he
          · exact finishLoops_no_overflow _ _ _ _
        · -- type notation
          have hsafe := tyLoop_safe levels (1 + countColons s len + 1) len (s.length + 1) s 0 [] [] (by
            have := countColons_mono s len
            simp only [List.length_nil, Nat.sub_zero, Nat.zero_add]; omega)
          split
          · simp
          · rename_i e log he
            intro h
            simp only [PI.err.injEq] at h
            subst h
            rw [he] at hsafe
            exact hsafe rfl
          · rename_i depths0 log he
            have hc := tyCompute_no_overflow levels total (depths0.take (1 + countColons s len)) (depths0.take (1 + countColons s len)) 0 [] (total % u32) 1 log
            split
            · simp
            · rename_i e log2 he2
              intro h
              simp only [PI.err.injEq] at h
              subst h
              rw [he2] at hc
              exact hc rfl
            · exact finishLoops_no_overflow _ _ _ _

/-! ### every `level[i]` has `i < 128` -/

/-- all logged indexes are below `n` -/
def AllLt (n : Nat) (log : Log) : Prop := ∀ j ∈ log, j < n

theorem AllLt.nil (n : Nat) : AllLt n [] := by intro j h; cases h
theorem AllLt.cons {n i : Nat} {log : Log} (hi : i < n) (h : AllLt n log) : AllLt n (i :: log) := by
  intro j hj
  rcases List.mem_cons.1 hj with rfl | hj
  · exact hi
  · exact h j hj
theorem AllLt.append {n : Nat} {a b : Log} (ha : AllLt n a) (hb : AllLt n b) : AllLt n (a ++ b) := by
  intro j hj
  rcases List.mem_append.1 hj with hj | hj
  · exact ha j hj
  · exact hb j hj
theorem AllLt.mono {n m : Nat} {log : Log} (h : AllLt n log) (hnm : n ≤ m) : AllLt m log :=
  fun j hj => Nat.lt_of_lt_of_le (h j hj) hnm
theorem AllLt.range_drop (n k d : Nat) (h : k ≤ n) : AllLt n ((List.range k).drop d) := by
  intro j hj
  have := List.mem_range.1 (List.mem_of_mem_drop hj)
  omega

/-- the last initialised slot has `arity = 0` (written before any walk over the levels) -/
def LastZero (levels : List Level) : Prop := (lvAt levels (levels.length - 1)).arity = 0

theorem scanLevels_spec (levels : List Level) (t : TypeRes) (hne : 1 ≤ levels.length) (hlast : LastZero levels) :
    ∀ (fuel i : Nat) (log : Log), i ≤ levels.length - 1 → AllLt levels.length log →
    AllLt levels.length (scanLevels levels t fuel i log).2 ∧
    ∀ d, (scanLevels levels t fuel i log).1 = some d → d < levels.length := by
  intro fuel
  induction fuel with
  | zero => intro i log _ hl; simp [scanLevels]; exact hl
  | succ f ih =>
    intro i log hi hl
    unfold scanLevels
    simp only
    have hlog : AllLt levels.length (i :: log) := AllLt.cons (by omega) hl
    split
    · exact ⟨hlog, by simp⟩
    · rename_i har
      split
      · refine ⟨hlog, ?_⟩
        intro d hd
        simp only [Option.some.injEq] at hd
        omega
      · apply ih (i + 1) (i :: log) _ hlog
        have : i ≠ levels.length - 1 := by
          intro h; apply har; rw [h]; exact hlast
        omega

theorem tyLoop_spec (levels : List Level) (cap len : Nat) (hne : 1 ≤ levels.length) (hlast : LastZero levels) :
    ∀ (fuel : Nat) (s : Bytes) (off : Nat) (acc : List Nat) (log : Log),
    AllLt levels.length log → (∀ d ∈ acc, d < levels.length) →
    AllLt levels.length (tyLoop levels cap len fuel s off acc log).2 ∧
    ∀ ds, (tyLoop levels cap len fuel s off acc log).1 = .ok ds → ∀ d ∈ ds, d < levels.length := by
  intro fuel
  induction fuel with
  | zero => intro s off acc log hl _; simp [tyLoop]; exact hl
  | succ f ih =>
    intro s off acc log hl hacc
    unfold tyLoop
    split
    · exact ⟨hl, by simp⟩
    · rename_i t _
      split
      · exact ⟨hl, by simp⟩
      · generalize hsc : scanLevels levels t (maxDepth + 1) 0 log = q
        obtain ⟨r, log'⟩ := q
        have hs := scanLevels_spec levels t hne hlast (maxDepth + 1) 0 log (Nat.zero_le _) hl
        rw [hsc] at hs
        simp only at hs ⊢
        split
        · exact ⟨hs.1, by simp⟩
        · split
          · exact ⟨hs.1, by simp⟩
          · rename_i d
            have hd : d < levels.length := hs.2 d rfl
            have hacc' : ∀ x ∈ acc ++ [d], x < levels.length := by
              intro x hx
              rcases List.mem_append.1 hx with hx | hx
              · exact hacc x hx
              · simp only [List.mem_singleton] at hx; omega
            split
            · refine ⟨hs.1, ?_⟩
              intro ds hds
              simp only [TY.ok.injEq] at hds; subst hds; exact hacc'
            · split
              · refine ⟨hs.1, ?_⟩
                intro ds hds
                simp only [TY.ok.injEq] at hds; subst hds; exact hacc'
              · exact ih _ _ _ _ hs.1 hacc'

theorem prev_lt (n my : Nat) : ∀ (depths : List Nat) (p : Nat), (∀ d ∈ depths, d < n) → p < n →
    depths.foldl (fun p d => if d < my ∧ d > p then d else p) p < n := by
  intro depths
  induction depths with
  | nil => intro p _ hp; simpa using hp
  | cons d ds ih =>
    intro p hd hp
    simp only [List.foldl_cons]
    apply ih
    · intro x hx; exact hd x (List.mem_cons_of_mem _ hx)
    · split
      · exact hd d List.mem_cons_self
      · exact hp

theorem tyCompute_log (levels : List Level) (total : Nat) (depths : List Nat) (hne : 1 ≤ levels.length)
    (hdep : ∀ d ∈ depths, d < levels.length) :
    ∀ (rest : List Nat) (k : Nat) (loops : List ILoop) (minstep nbs : Nat) (log : Log),
    (∀ d ∈ rest, d < levels.length) → AllLt levels.length log →
    AllLt levels.length (tyCompute levels total depths rest k loops minstep nbs log).2 := by
  intro rest
  induction rest with
  | nil => intro k loops minstep nbs log _ hl; simpa [tyCompute] using hl
  | cons my rest ih =>
    intro k loops minstep nbs log hrest hl
    unfold tyCompute
    have hmy : my < levels.length := hrest my List.mem_cons_self
    have hprev := prev_lt levels.length my depths 0 hdep (by omega)
    have hlog := AllLt.cons hprev (AllLt.cons hmy (AllLt.cons hmy (AllLt.cons hmy hl)))
    split
    · exact hl
    · simp only
      split
      · exact hlog
      · split
        · exact hlog
        · split
          · exact hlog
          · exact ih _ _ _ _ _ (fun d hd => hrest d (List.mem_cons_of_mem _ hd)) hlog

/-- the `level[]` reads of hwloc_synthetic_process_indexes stay inside the initialised slots -/
theorem processIndexes_log (levels : List Level) (ix : Idx) (total : Nat) (hne : 1 ≤ levels.length)
    (hlast : LastZero levels) : AllLt levels.length (processIndexes levels ix total).2 := by
  unfold processIndexes
  split
  · exact AllLt.nil _
  · rename_i s len _
    split
    · exact AllLt.nil _
    · split
      · split <;> exact AllLt.nil _
      · simp only
        split
        · split <;> exact AllLt.nil _
        · have hs := tyLoop_spec levels (1 + countColons s len + 1) len hne hlast (s.length + 1) s 0 [] []
            (AllLt.nil _) (by simp)
          split
          · rename_i log he; rw [he] at hs; exact hs.1
          · rename_i e log he; rw [he] at hs; exact hs.1
          · rename_i depths0 log he
            rw [he] at hs
            have hdep : ∀ d ∈ depths0.take (1 + countColons s len), d < levels.length :=
              fun d hd => hs.2 depths0 rfl d (List.mem_of_mem_take hd)
            have hc := tyCompute_log levels total _ hne hdep (depths0.take (1 + countColons s len)) 0 [] (total % u32) 1 log hdep hs.1
            split
            · rename_i log2 he2; rw [he2] at hc; exact hc
            · rename_i e log2 he2; rw [he2] at hc; exact hc
            · rename_i l m n log2 he2; rw [he2] at hc; exact hc

/-! ### list view of the slot array -/

theorem updLevel_length (l : List Level) (i : Nat) (f : Level → Level) : (updLevel l i f).length = l.length := by
  unfold updLevel
  split <;> simp

theorem lvAt_updLevel (l : List Level) (i : Nat) (f : Level → Level) (j : Nat) :
    lvAt (updLevel l i f) j = if j = i ∧ i < l.length then f (lvAt l i) else lvAt l j := by
  unfold updLevel lvAt
  by_cases hi : i < l.length
  · have h1 : l[i]? = some l[i] := List.getElem?_eq_getElem hi
    rw [h1]
    simp only [List.getElem?_set]
    by_cases hj : j = i
    · subst hj; simp [hi]
    · have : ¬ (i = j) := fun h => hj h.symm
      simp [hj, this]
  · have h1 : l[i]? = none := List.getElem?_eq_none (by omega)
    rw [h1]
    simp [hi]

/-- `l'` has the same slots, the same arities and the same widths as `l` -/
def SameArity (l l' : List Level) : Prop :=
  l'.length = l.length ∧ (∀ j, (lvAt l' j).arity = (lvAt l j).arity) ∧ ∀ j, (lvAt l' j).width = (lvAt l j).width

theorem SameArity.refl (l : List Level) : SameArity l l := ⟨rfl, fun _ => rfl, fun _ => rfl⟩
theorem SameArity.trans {a b c : List Level} (h1 : SameArity a b) (h2 : SameArity b c) : SameArity a c :=
  ⟨h2.1.trans h1.1, fun j => (h2.2.1 j).trans (h1.2.1 j), fun j => (h2.2.2 j).trans (h1.2.2 j)⟩
theorem SameArity.upd (l : List Level) (i : Nat) (f : Level → Level) (hf : ∀ x, (f x).arity = x.arity)
    (hw : ∀ x, (f x).width = x.width) : SameArity l (updLevel l i f) := by
  refine ⟨updLevel_length l i f, fun j => ?_, fun j => ?_⟩
  · rw [lvAt_updLevel]
    split
    · rename_i h; rw [hf, h.1]
    · rfl
  · rw [lvAt_updLevel]
    split
    · rename_i h; rw [hw, h.1]
    · rfl
theorem SameArity.lastZero {l l' : List Level} (h : SameArity l l') (hz : LastZero l) : LastZero l' := by
  unfold LastZero at *
  rw [h.1, h.2.1]; exact hz

theorem setType_same (l : List Level) (i t depth : Nat) (ctype : Int) (keep : Bool) :
    SameArity l (setType l i t depth ctype keep) := by
  unfold setType
  exact SameArity.upd l i _ (fun x => rfl) (fun x => rfl)

/-! ### the defaults loop -/

/-- result-or-error, both with a log below `n` -/
def RSafe {α : Type} (n : Nat) (r : R α) (P : α → Prop) : Prop :=
  match r with
  | .ok a => P a
  | .error (_, log) => AllLt n log

theorem defaultsLoop_safe : ∀ (is : List Nat) (st : Fin2) (n m : Nat), st.levels.length = n → 1 ≤ n → n ≤ m →
    LastZero st.levels → (∀ i ∈ is, i < n) → AllLt m st.log →
    RSafe m (defaultsLoop is st) (fun f => f.levels.length = n ∧ LastZero f.levels ∧ AllLt m f.log) := by
  intro is
  induction is with
  | nil => intro st n m hn _ _ hz _ hl; exact ⟨hn, hz, hl⟩
  | cons i rest ih =>
    intro st n m hn h1 hnm hz his hl
    unfold defaultsLoop
    simp only
    generalize hsd : setDefaultAttrs (lvAt st.levels i).attr st.gcount = ag
    obtain ⟨a, g⟩ := ag
    simp only
    have hs1 : SameArity st.levels (updLevel st.levels i (fun l => { l with attr := a, attached := (lvAt st.levels i).attached.map (fun x => (setDefaultAttrs x g).1) })) :=
      SameArity.upd _ _ _ (fun x => rfl) (fun x => rfl)
    generalize hlv : updLevel st.levels i (fun l => { l with attr := a, attached := (lvAt st.levels i).attached.map (fun x => (setDefaultAttrs x g).1) }) = lv1 at hs1
    have hlen1 : lv1.length = n := hs1.1.trans hn
    have hz1 : LastZero lv1 := hs1.lastZero hz
    generalize hpi : processIndexes lv1 (lvAt st.levels i).idx (lvAt st.levels i).width = pr
    obtain ⟨r, rl⟩ := pr
    have hpl : AllLt m rl := by
      have := processIndexes_log lv1 (lvAt st.levels i).idx (lvAt st.levels i).width (by omega) hz1
      rw [hpi, hlen1] at this; exact this.mono hnm
    have hi : i < m := Nat.lt_of_lt_of_le (his i List.mem_cons_self) hnm
    have hlog : AllLt m (rl ++ (i :: st.log)) := hpl.append (AllLt.cons hi hl)
    simp only
    split
    · exact hlog
    · rename_i arr
      have hs2 : SameArity lv1 (updLevel lv1 i (fun l => { l with idx := { l.idx with arr := arr } })) :=
        SameArity.upd _ _ _ (fun x => rfl) (fun x => rfl)
      exact ih _ n m (hs2.1.trans hlen1) h1 hnm (hs2.lastZero hz1) (fun j hj => his j (List.mem_cons_of_mem _ hj)) hlog

/-! ### the parsing loop -/

/-- loop invariant: `1 ≤ count ≤ 127`, every index used so far is below 128 -/
structure LInv (st : Loop) : Prop where
  pos : 1 ≤ st.levels.length
  le : st.levels.length ≤ 127
  log : AllLt maxDepth st.log

theorem attachedStep_safe (p : Bytes) (st : Loop) (h : LInv st) :
    RSafe maxDepth (attachedStep p st) (fun r => LInv r.1) := by
  have hc : st.levels.length - 1 < maxDepth := by have := h.le; unfold maxDepth; omega
  have hlog : AllLt maxDepth ((st.levels.length - 1) :: (st.levels.length - 1) :: st.log) :=
    AllLt.cons hc (AllLt.cons hc h.log)
  unfold attachedStep
  simp only
  split
  · exact h.log
  · split
    · exact h.log
    · split
      · exact hlog
      · split
        · exact hlog
        · refine ⟨?_, ?_, hlog⟩
          · simp only [updLevel_length]; exact h.pos
          · simp only [updLevel_length]; exact h.le

theorem levelStep_safe (c : Byte) (pos : Bytes) (st : Loop) (h : LInv st) :
    RSafe maxDepth (levelStep c pos st) (fun r => LInv r.1) := by
  have hc : st.levels.length - 1 < maxDepth := by have := h.le; unfold maxDepth; omega
  have hc2 : st.levels.length < maxDepth := by have := h.le; unfold maxDepth; omega
  have hlog : AllLt maxDepth ((st.levels.length - 1) :: st.levels.length :: st.log) :=
    AllLt.cons hc (AllLt.cons hc2 h.log)
  unfold levelStep
  simp only
  split
  · exact hlog
  · generalize strtoulS 0 _ = q
    obtain ⟨item, next⟩ := q
    simp only
    split
    · exact hlog
    · split
      · exact hlog
      · split
        · exact hlog
        · split
          · exact hlog
          · split
            · exact hlog
            · split
              · exact hlog
              · rename_i hcount _
                refine ⟨?_, ?_, hlog⟩
                · simp only [List.length_append, updLevel_length, List.length_cons, List.length_nil]; omega
                · simp only [List.length_append, updLevel_length, List.length_cons, List.length_nil]
                  unfold maxDepth at hcount; omega

theorem loopBody_safe (pos : Bytes) (st : Loop) (h : LInv st) :
    RSafe maxDepth (loopBody pos st) (fun r => LInv r.1) := by
  have hc : st.levels.length - 1 < maxDepth := by have := h.le; unfold maxDepth; omega
  have h' : LInv { st with levels := updLevel st.levels (st.levels.length - 1) (fun l => { l with arity := 0 }), log := (st.levels.length - 1) :: st.log } :=
    ⟨by simp only [updLevel_length]; exact h.pos, by simp only [updLevel_length]; exact h.le, AllLt.cons hc h.log⟩
  unfold loopBody
  simp only
  split
  · exact h'
  · rename_i c r _
    split
    · have := attachedStep_safe r _ h'
      split
      · rename_i heq; rw [heq] at this; exact this
      · rename_i e heq; rw [heq] at this; exact this
    · have := levelStep_safe c (c :: r) _ h'
      split
      · rename_i heq; rw [heq] at this; exact this
      · rename_i e heq; rw [heq] at this; exact this

theorem mainLoop_safe : ∀ (fuel : Nat) (pos : Bytes) (st : Loop), LInv st →
    RSafe maxDepth (mainLoop fuel pos st) LInv := by
  intro fuel
  induction fuel with
  | zero => intro pos st h; exact h
  | succ f ih =>
    intro pos st h
    unfold mainLoop
    split
    · exact h
    · have := loopBody_safe pos st h
      split
      · rename_i e heq; rw [heq] at this; exact this
      · rename_i st' heq; rw [heq] at this; exact this
      · rename_i st' next heq; rw [heq] at this; exact ih next st' this

/-! ### after the loop: sanity checks, default types, implicit NUMA level -/

theorem sanity_safe (st : Loop) (h : LInv st) :
    RSafe maxDepth (sanity st) (fun r => r.1.length = st.levels.length ∧ LastZero r.1 ∧ AllLt maxDepth r.2) := by
  have hpos := h.pos
  have hle := h.le
  have hc : st.levels.length - 1 < maxDepth := by unfold maxDepth; omega
  have hlog1 : AllLt maxDepth ((st.levels.length - 1) :: (st.levels.length - 1) :: (st.levels.length - 1) :: (st.levels.length - 1) :: st.log) :=
    AllLt.cons hc (AllLt.cons hc (AllLt.cons hc (AllLt.cons hc h.log)))
  have hlog2 := (AllLt.range_drop maxDepth st.levels.length 1 (by unfold maxDepth; omega)).append hlog1
  have hlog3 := (AllLt.range_drop maxDepth (st.levels.length - 1) 1 (by unfold maxDepth; omega)).append hlog2
  -- the levels after the two assignments
  have hs0 : (updLevel st.levels (st.levels.length - 1) (fun l => { l with arity := 0 })).length = st.levels.length :=
    updLevel_length _ _ _
  have hz0 : LastZero (updLevel st.levels (st.levels.length - 1) (fun l => { l with arity := 0 })) := by
    unfold LastZero
    rw [hs0, lvAt_updLevel]
    have : st.levels.length - 1 < st.levels.length := by omega
    simp [this]
  have hs1 := setType_same (updLevel st.levels (st.levels.length - 1) (fun l => { l with arity := 0 })) (st.levels.length - 1) tPU 4294967295 (-1) true
  unfold sanity
  simp only
  split
  · exact hlog1
  · split
    · exact hlog2
    · split
      · exact hlog2
      · split
        · exact hlog2
        · split
          · exact hlog2
          · split
            · exact hlog2
            · split
              · exact hlog2
              · split
                · exact hlog2
                · split
                  · exact hlog3
                  · exact ⟨hs1.1.trans hs0, hs1.lastZero hz0, hlog3⟩

theorem condSet_spec (c : Bool) (i t depth : Nat) (ctype : Int) (keep : Bool) (p : List Level × Log) (n : Nat)
    (hi : c = true → i < n) (hl : AllLt n p.2) :
    SameArity p.1 (condSet c i t depth ctype keep p).1 ∧ AllLt n (condSet c i t depth ctype keep p).2 := by
  unfold condSet
  split
  · rename_i hc; exact ⟨setType_same _ _ _ _ _ _, AllLt.cons (hi hc) hl⟩
  · exact ⟨SameArity.refl _, hl⟩

theorem groupsFold_spec (n : Nat) : ∀ (is : List Nat) (p : List Level × Log), (∀ i ∈ is, 1 + i < n) → AllLt n p.2 →
    SameArity p.1 (is.foldl (fun p i => condSet true (1 + i) tGROUP 4294967295 (-1) true p) p).1 ∧
    AllLt n (is.foldl (fun p i => condSet true (1 + i) tGROUP 4294967295 (-1) true p) p).2 := by
  intro is
  induction is with
  | nil => intro p _ hl; exact ⟨SameArity.refl _, hl⟩
  | cons i rest ih =>
    intro p his hl
    simp only [List.foldl_cons]
    have h1 := condSet_spec true (1 + i) tGROUP 4294967295 (-1) true p n (fun _ => his i List.mem_cons_self) hl
    have h2 := ih _ (fun j hj => his j (List.mem_cons_of_mem _ hj)) h1.2
    exact ⟨h1.1.trans h2.1, h2.2⟩

theorem needs_sum (count numaNr : Nat) :
    let r := needs count numaNr
    r.1 ≤ 1 ∧ r.2.1 ≤ 1 ∧ r.2.2.1 ≤ 1 ∧ r.2.2.2.1 ≤ 4 ∧
    r.1 + r.2.1 + r.2.2.1 + r.2.2.2.1 + r.2.2.2.2 = count - 2 := by
  unfold needs
  simp only
  repeat' split
  all_goals omega

theorem assignDefaultTypes_spec (levels : List Level) (count numaNr : Nat) :
    SameArity levels (assignDefaultTypes levels count numaNr).1 ∧ AllLt count (assignDefaultTypes levels count numaNr).2.1 := by
  unfold assignDefaultTypes
  have hn := needs_sum count numaNr
  generalize needs count numaNr = nd at hn
  obtain ⟨neednuma, needpack, needcore, needcaches, needgroups⟩ := nd
  simp only at hn ⊢
  obtain ⟨h1, h2, h3, h4, hsum⟩ := hn
  have g0 := groupsFold_spec count (List.range needgroups) (levels, [])
    (fun i hi => by have := List.mem_range.1 hi; omega) (AllLt.nil _)
  generalize (List.range needgroups).foldl (fun p i => condSet true (1 + i) tGROUP 4294967295 (-1) true p) (levels, []) = p0 at g0
  have g1 := condSet_spec (needpack == 1) (1 + needgroups) tPACKAGE 4294967295 (-1) true p0 count
    (fun hc => by simp only [beq_iff_eq] at hc; omega) g0.2
  generalize condSet (needpack == 1) (1 + needgroups) tPACKAGE 4294967295 (-1) true p0 = p1 at g1
  have g2 := condSet_spec (neednuma == 1) (1 + needgroups + needpack) tNUMA 4294967295 (-1) true p1 count
    (fun hc => by simp only [beq_iff_eq] at hc; omega) g1.2
  generalize condSet (neednuma == 1) (1 + needgroups + needpack) tNUMA 4294967295 (-1) true p1 = p2 at g2
  have g3 := condSet_spec (decide (needcaches ≥ 3)) (1 + needgroups + needpack + neednuma) tL3 3 0 false p2 count
    (fun hc => by simp only [decide_eq_true_eq] at hc; omega) g2.2
  generalize condSet (decide (needcaches ≥ 3)) (1 + needgroups + needpack + neednuma) tL3 3 0 false p2 = p3 at g3
  have g4 := condSet_spec (decide (needcaches ≥ 1)) (1 + needgroups + needpack + neednuma + (if needcaches ≥ 3 then 1 else 0)) tL2 2 0 false p3 count
    (fun hc => by simp only [decide_eq_true_eq] at hc; split <;> omega) g3.2
  generalize condSet (decide (needcaches ≥ 1)) (1 + needgroups + needpack + neednuma + (if needcaches ≥ 3 then 1 else 0)) tL2 2 0 false p3 = p4 at g4
  have g5 := condSet_spec (decide (needcaches ≥ 2)) (1 + needgroups + needpack + neednuma + (if needcaches ≥ 3 then 1 else 0) + 1) tL1 1 1 false p4 count
    (fun hc => by simp only [decide_eq_true_eq] at hc; split <;> omega) g4.2
  generalize condSet (decide (needcaches ≥ 2)) (1 + needgroups + needpack + neednuma + (if needcaches ≥ 3 then 1 else 0) + 1) tL1 1 1 false p4 = p5 at g5
  have g6 := condSet_spec (decide (needcaches ≥ 4)) (1 + needgroups + needpack + neednuma + (if needcaches ≥ 3 then 1 else 0) + 1 + 1) tL1I 1 2 false p5 count
    (fun hc => by simp only [decide_eq_true_eq] at hc; split <;> omega) g5.2
  generalize condSet (decide (needcaches ≥ 4)) (1 + needgroups + needpack + neednuma + (if needcaches ≥ 3 then 1 else 0) + 1 + 1) tL1I 1 2 false p5 = p6 at g6
  have g7 := condSet_spec (needcore == 1) (1 + needgroups + needpack + neednuma + needcaches) tCORE 4294967295 (-1) true p6 count
    (fun hc => by simp only [beq_iff_eq] at hc; omega) g6.2
  exact ⟨g0.1.trans (g1.1.trans (g2.1.trans (g3.1.trans (g4.1.trans (g5.1.trans (g6.1.trans g7.1)))))), g7.2⟩

theorem insertNuma_spec (levels : List Level) (count : Nat) (hlen : levels.length = count) (h1 : 1 ≤ count)
    (hz : LastZero levels) :
    (insertNuma levels count).1.length = count + 1 ∧ LastZero (insertNuma levels count).1 ∧
    AllLt (count + 1) (insertNuma levels count).2 := by
  unfold insertNuma
  cases levels with
  | nil => simp at hlen; omega
  | cons l0 rest =>
    simp only [List.length_cons] at hlen
    refine ⟨by simp only [List.length_cons]; omega, ?_, ?_⟩
    · unfold LastZero at *
      simp only [List.length_cons, Nat.add_sub_cancel] at hz ⊢
      cases rest with
      | nil => simpa [lvAt] using hz
      | cons r rs =>
        simp only [List.length_cons] at hz ⊢
        simpa [lvAt] using hz
    · apply AllLt.append
      · intro j hj
        simp only [List.mem_cons, List.not_mem_nil, or_false] at hj
        omega
      · exact AllLt.range_drop _ _ _ (Nat.le_refl _)

theorem typesAndNuma_spec (st : Loop) (levels : List Level) (log : Log) (hpos : 1 ≤ levels.length)
    (hle : levels.length ≤ 127) (hz : LastZero levels) (hl : AllLt maxDepth log) :
    1 ≤ (typesAndNuma st levels log).1.length ∧ (typesAndNuma st levels log).1.length ≤ maxDepth ∧
    LastZero (typesAndNuma st levels log).1 ∧ AllLt maxDepth (typesAndNuma st levels log).2.1 := by
  unfold typesAndNuma
  simp only
  -- the default-type stage
  have hr : ∀ r : List Level × Log × Bool × Nat,
      r = (if (((levels.drop 1).take (levels.length - 2)).filter (fun l => l.attr.type == tNONE)).length ≠ 0
            then assignDefaultTypes levels levels.length st.numaNr
            else (levels, [], typeCount levels tNUMA ≠ 0, 0)) →
      SameArity levels r.1 ∧ AllLt levels.length r.2.1 := by
    intro r hr
    subst hr
    split
    · exact assignDefaultTypes_spec levels levels.length st.numaNr
    · exact ⟨SameArity.refl _, AllLt.nil _⟩
  generalize hrd : (if (((levels.drop 1).take (levels.length - 2)).filter (fun l => l.attr.type == tNONE)).length ≠ 0
            then assignDefaultTypes levels levels.length st.numaNr
            else (levels, [], typeCount levels tNUMA ≠ 0, 0)) = r
  have hsp := hr r hrd.symm
  have hlen : r.1.length = levels.length := hsp.1.1
  have hzr : LastZero r.1 := hsp.1.lastZero hz
  have hlg : AllLt maxDepth (r.2.1 ++ log) := (hsp.2.mono (by unfold maxDepth; omega)).append hl
  split
  · have hi := insertNuma_spec r.1 levels.length hlen hpos hzr
    refine ⟨by simp only; omega, by simp only; unfold maxDepth; omega, hi.2.1, ?_⟩
    exact (hi.2.2.mono (by unfold maxDepth; omega)).append hlg
  · exact ⟨by simp only; omega, by simp only; unfold maxDepth; omega, hzr, hlg⟩

theorem finish_safe (st : Loop) (h : LInv st) : RSafe maxDepth (finish st) (fun p => AllLt maxDepth p.log) := by
  unfold finish
  have hs := sanity_safe st h
  split
  · rename_i e heq; rw [heq] at hs; exact hs
  · rename_i levels log heq
    rw [heq] at hs
    obtain ⟨hlen, hz, hl⟩ := hs
    simp only at hlen hz hl
    have ht := typesAndNuma_spec st levels log (by have := h.pos; omega) (by have := h.le; omega) hz hl
    generalize typesAndNuma st levels log = tn at ht
    obtain ⟨lv, lg, gc⟩ := tn
    simp only at ht ⊢
    obtain ⟨hp, hle, hz2, hl2⟩ := ht
    have hd := defaultsLoop_safe (List.range lv.length) { levels := lv, gcount := gc, log := lg } lv.length maxDepth rfl hp hle hz2
      (fun i hi => List.mem_range.1 hi) hl2
    split
    · rename_i e heq2; rw [heq2] at hd; exact hd
    · rename_i f heq2
      rw [heq2] at hd
      obtain ⟨hfl, hfz, hflog⟩ := hd
      generalize hpi : processIndexes f.levels st.numaIdx st.numaNr = pr
      obtain ⟨r, rl⟩ := pr
      have hpl : AllLt maxDepth rl := by
        have := processIndexes_log f.levels st.numaIdx st.numaNr (by omega) hfz
        rw [hpi, hfl] at this; exact this.mono hle
      simp only
      split
      · exact hpl.append hflog
      · exact hpl.append hflog

/-- **level[] safety**: whatever the description and however hwloc_backend_synthetic_init ends, every index
used in a `data->level[i]` expression is below HWLOC_SYNTHETIC_MAX_DEPTH = 128 -/
theorem parse_log_safe (s : Bytes) : AllLt maxDepth (logOf (parse s)) := by
  have h0 : AllLt maxDepth [0, 0, 0, 0, 0, 0, 0] := by
    intro j hj; simp only [List.mem_cons, List.not_mem_nil, or_false] at hj; unfold maxDepth; omega
  have key : RSafe maxDepth (parse s) (fun p => AllLt maxDepth p.log) := by
    unfold parse
    simp only
    split
    · exact AllLt.cons (by unfold maxDepth; omega) (AllLt.cons (by unfold maxDepth; omega) h0)
    · rename_i pos l0 _
      have hm := mainLoop_safe (pos.length + 1) pos { levels := [l0], log := [0, 0, 0, 0, 0, 0, 0] }
        ⟨by simp, by simp, h0⟩
      split
      · rename_i e heq; rw [heq] at hm; exact hm
      · rename_i st heq; rw [heq] at hm; exact finish_safe st hm
  unfold logOf
  unfold RSafe at key
  split <;> simp_all

/-! ### index arrays: length, no duplicates, permutations -/

theorem genArray_length (total : Nat) (loops : List ILoop) : (genArray total loops).length = total := by
  simp [genArray]

theorem explicitLoop_length : ∀ (rem total : Nat) (s : Bytes) (acc out : List Nat),
    explicitLoop rem total s acc = some out → out.length = acc.length + rem := by
  intro rem
  induction rem with
  | zero => intro total s acc out h; simp [explicitLoop] at h; subst h; simp
  | succ n ih =>
    intro total s acc out h
    unfold explicitLoop at h
    simp only at h
    split at h
    · cases h
    · split at h
      · split at h
        · have := ih total _ _ out h
          simp at this; omega
        · cases h
      · rename_i hn; simp at h; subst h; simp; omega

/-- a duplicate-free list of `n` numbers below `n` is a permutation of `0..n-1` -/
theorem perm_range_of_nodup (n : Nat) (a : List Nat) (hlen : a.length = n) (hnd : a.Nodup) (hlt : ∀ x ∈ a, x < n) :
    a.Perm (List.range n) := by
  rw [List.perm_ext_iff_of_nodup hnd List.nodup_range]
  intro x
  constructor
  · intro hx; exact List.mem_range.2 (hlt x hx)
  · intro hx
    -- pigeonhole: if x were missing, a would fit into range n without x
    refine Classical.byContradiction (fun hxa => ?_)
    have hsub : a ⊆ (List.range n).erase x := by
      intro y hy
      have hyx : y ≠ x := fun h => hxa (h ▸ hy)
      exact (List.mem_erase_of_ne hyx).2 (List.mem_range.2 (hlt y hy))
    have hle := hnd.length_le_of_subset hsub
    rw [List.length_erase_of_mem hx, List.length_range] at hle
    have : 0 < n := by have := List.mem_range.1 hx; omega
    omega

theorem arrayOk_spec (total : Nat) (a : List Nat) (hlen : a.length = total) (h : arrayOk total a = true) :
    a.Nodup ∧ ∀ x ∈ a, x < total := by
  unfold arrayOk haveDuplicates at h
  simp only [Bool.and_eq_true, List.all_eq_true, List.mem_range, Bool.not_eq_true', decide_eq_true_eq] at h
  have hnd : a.Nodup := by
    have := h.2
    simpa using this
  refine ⟨hnd, ?_⟩
  intro x hx
  obtain ⟨j, hj, rfl⟩ := List.getElem_of_mem hx
  have := (h.1 j (by omega)).1
  simpa [List.getElem?_eq_getElem hj] using this

/-- **interleave_perm**: an interleaving accepted by hwloc_synthetic_process_indexes (x*y or type notation)
generates a permutation of `0..total-1` -/
theorem finishLoops_perm (total : Nat) (loops : List ILoop) (minstep nbs : Nat) (a : List Nat)
    (h : finishLoops total loops minstep nbs = .ok (some a)) : a.Perm (List.range total) := by
  unfold finishLoops at h
  split at h
  · cases h
  · simp only at h
    split at h
    · cases h
    · rename_i loops' _
      split at h
      · rename_i hok
        simp only [Except.ok.injEq, Option.some.injEq] at h
        subst h
        have hs := arrayOk_spec total _ (genArray_length total loops') hok
        exact perm_range_of_nodup total _ (genArray_length total loops') hs.1 hs.2
      · cases h

/-- what an accepted `indexes=` attribute yields: one entry per object, no duplicates; for the two interleaving
notations a permutation of `0..total-1` -/
theorem processIndexes_accepts (levels : List Level) (ix : Idx) (s : Bytes) (len total : Nat) (a : List Nat) (log : Log)
    (hs : ix.str = some (s, len))
    (h : processIndexes levels ix total = (.arr (some a), log)) :
    a.length = total ∧ a.Nodup ∧ (spnDigComma s ≠ len → a.Perm (List.range total)) := by
  unfold processIndexes at h
  rw [hs] at h
  simp only at h
  split at h
  · simp at h
  · split at h
    · -- explicit list
      rename_i hsp
      split at h
      · rename_i a' he
        simp only [Prod.mk.injEq, PI.arr.injEq] at h
        split at h
        · simp at h
        · rename_i hd
          simp only [Option.some.injEq] at h
          obtain ⟨rfl, _⟩ := h
          refine ⟨by simpa using explicitLoop_length total total s [] a' he, ?_, fun hne => absurd hsp hne⟩
          unfold haveDuplicates at hd
          simpa using hd
      · simp at h
    · rename_i hsp
      have fin : ∀ (loops : List ILoop) (ms nbs : Nat), piOf (finishLoops total loops ms nbs) = .arr (some a) →
          a.length = total ∧ a.Nodup ∧ (spnDigComma s ≠ len → a.Perm (List.range total)) := by
        intro loops ms nbs hp
        have hf : finishLoops total loops ms nbs = .ok (some a) := by
          unfold piOf at hp
          split at hp
          · simp only [PI.arr.injEq] at hp; subst hp; assumption
          · cases hp
        have hperm := finishLoops_perm total loops ms nbs a hf
        exact ⟨by simpa using hperm.length_eq, (List.Perm.nodup_iff hperm).2 List.nodup_range, fun _ => hperm⟩
      split at h
      · split at h
        · simp at h
        · simp at h
        · simp only [Prod.mk.injEq] at h
          exact fin _ _ _ h.1
      · split at h
        · simp at h
        · simp at h
        · split at h
          · simp at h
          · simp at h
          · simp only [Prod.mk.injEq] at h
            exact fin _ _ _ h.1

/-! ### `loopsOverflow` is not an outcome of hwloc_backend_synthetic_init -/

theorem attrsLoop_err (ic : Bool) : ∀ (fuel : Nat) (s : Bytes) (acc : AttrsAcc) (e : Err),
    attrsLoop ic fuel s acc = .error e → e = .einval := by
  intro fuel
  induction fuel with
  | zero => intro s acc e h; simp [attrsLoop] at h; exact h.symm
  | succ f ih =>
    intro s acc e h
    unfold attrsLoop at h
    split at h
    · cases h
    · simp only at h
      split at h
      · exact ih _ _ _ h
      · cases h
      · simp only [Except.error.injEq] at h; exact h.symm

theorem parseAttrs_err (s : Bytes) (a : Attr) (ix : Idx) (e : Err) (h : parseAttrs s a ix = .error e) : e = .einval := by
  unfold parseAttrs at h
  split at h
  · simp only [Except.error.injEq] at h; exact h.symm
  · split at h
    · rename_i e' he
      simp only [Except.error.injEq] at h; subst h
      exact attrsLoop_err _ _ _ _ _ he
    · cases h

/-- no error of kind `loopsOverflow` -/
def ErrOK {α : Type} (r : R α) : Prop := ∀ e log, r = .error (e, log) → e ≠ .loopsOverflow

theorem attachedStep_errOK (p : Bytes) (st : Loop) : ErrOK (attachedStep p st) := by
  intro e log h
  unfold attachedStep at h
  simp only at h
  split at h
  · simp only [Except.error.injEq, Prod.mk.injEq] at h; rw [← h.1]; simp
  · split at h
    · simp only [Except.error.injEq, Prod.mk.injEq] at h; rw [← h.1]; simp
    · split at h
      · simp only [Except.error.injEq, Prod.mk.injEq] at h; rw [← h.1]; simp
      · split at h
        · rename_i e' he
          simp only [Except.error.injEq, Prod.mk.injEq] at h
          rw [← h.1]
          -- the only source is parseAttrs
          split at he
          · split at he
            · split at he
              · cases he
              · rename_i e'' hp
                simp only [Except.error.injEq] at he; subst he
                rw [parseAttrs_err _ _ _ _ hp]; simp
            · cases he
          · cases he
        · cases h

theorem levelStep_errOK (c : Byte) (pos : Bytes) (st : Loop) : ErrOK (levelStep c pos st) := by
  intro e log h
  unfold levelStep at h
  simp only at h
  split at h
  · rename_i e' he
    simp only [Except.error.injEq, Prod.mk.injEq] at h
    rw [← h.1]
    split at he
    · split at he
      · simp only [Except.error.injEq] at he; rw [← he]; simp
      · split at he
        · simp only [Except.error.injEq] at he; rw [← he]; simp
        · split at he
          · simp only [Except.error.injEq] at he; rw [← he]; simp
          · cases he
    · cases he
  · generalize strtoulS 0 _ = q at h
    obtain ⟨item, next⟩ := q
    simp only at h
    split at h
    · simp only [Except.error.injEq, Prod.mk.injEq] at h; rw [← h.1]; simp
    · split at h
      · simp only [Except.error.injEq, Prod.mk.injEq] at h; rw [← h.1]; simp
      · split at h
        · simp only [Except.error.injEq, Prod.mk.injEq] at h; rw [← h.1]; simp
        · split at h
          · rename_i e' he
            simp only [Except.error.injEq, Prod.mk.injEq] at h
            rw [← h.1]
            split at he
            · rw [parseAttrs_err _ _ _ _ he]; simp
            · cases he
          · split at h
            · simp only [Except.error.injEq, Prod.mk.injEq] at h; rw [← h.1]; simp
            · split at h
              · simp only [Except.error.injEq, Prod.mk.injEq] at h; rw [← h.1]; simp
              · cases h

theorem loopBody_errOK (pos : Bytes) (st : Loop) : ErrOK (loopBody pos st) := by
  intro e log h
  unfold loopBody at h
  simp only at h
  split at h
  · cases h
  · split at h
    · split at h
      · cases h
      · rename_i e' he
        simp only [Except.error.injEq] at h; subst h
        exact attachedStep_errOK _ _ e log he
    · split at h
      · cases h
      · rename_i e' he
        simp only [Except.error.injEq] at h; subst h
        exact levelStep_errOK _ _ _ e log he

theorem mainLoop_errOK : ∀ (fuel : Nat) (pos : Bytes) (st : Loop), ErrOK (mainLoop fuel pos st) := by
  intro fuel
  induction fuel with
  | zero => intro pos st e log h; simp [mainLoop] at h
  | succ f ih =>
    intro pos st e log h
    unfold mainLoop at h
    split at h
    · cases h
    · split at h
      · rename_i e' he
        simp only [Except.error.injEq] at h; subst h
        exact loopBody_errOK pos st e log he
      · cases h
      · exact ih _ _ e log h

theorem sanity_errOK (st : Loop) : ErrOK (sanity st) := by
  intro e log h
  unfold sanity at h
  simp only at h
  repeat' split at h
  all_goals (cases h <;> simp)

theorem defaultsLoop_errOK : ∀ (is : List Nat) (st : Fin2), ErrOK (defaultsLoop is st) := by
  intro is
  induction is with
  | nil => intro st e log h; simp [defaultsLoop] at h
  | cons i rest ih =>
    intro st e log h
    unfold defaultsLoop at h
    simp only at h
    generalize setDefaultAttrs (lvAt st.levels i).attr st.gcount = ag at h
    obtain ⟨a, g⟩ := ag
    simp only at h
    generalize hpi : processIndexes _ (lvAt st.levels i).idx (lvAt st.levels i).width = pr at h
    obtain ⟨r, rl⟩ := pr
    simp only at h
    split at h
    · rename_i e'
      simp only [Except.error.injEq, Prod.mk.injEq] at h
      rw [← h.1]
      intro hov; subst hov
      exact processIndexes_loops_safe _ _ _ (congrArg Prod.fst hpi)
    · exact ih _ e log h

/-- **loops[] safety at the level of the whole parser** -/
theorem parse_errOK (s : Bytes) : ErrOK (parse s) := by
  intro e log h
  unfold parse at h
  simp only at h
  split at h
  · rename_i e' he
    simp only [Except.error.injEq, Prod.mk.injEq] at h
    rw [← h.1]
    split at he
    · split at he
      · cases he
      · rename_i e'' hp
        simp only [Except.error.injEq] at he; subst he
        rw [parseAttrs_err _ _ _ _ hp]; simp
    · cases he
  · split at h
    · rename_i e' he
      simp only [Except.error.injEq] at h; subst h
      exact mainLoop_errOK _ _ _ e log he
    · rename_i st _
      unfold finish at h
      split at h
      · rename_i e' he
        simp only [Except.error.injEq] at h; subst h
        exact sanity_errOK st e log he
      · generalize typesAndNuma st _ _ = tn at h
        obtain ⟨lv, lg, gc⟩ := tn
        simp only at h
        split at h
        · rename_i e' he
          simp only [Except.error.injEq] at h; subst h
          exact defaultsLoop_errOK _ _ e log he
        · rename_i f _
          generalize hpi : processIndexes f.levels st.numaIdx st.numaNr = pr at h
          obtain ⟨r, rl⟩ := pr
          simp only at h
          split at h
          · simp only [Except.error.injEq, Prod.mk.injEq] at h
            rw [← h.1]
            intro hov; subst hov
            have := processIndexes_loops_safe f.levels st.numaIdx st.numaNr
            rw [hpi] at this
            exact this rfl
          · cases h

/-! ### every index array of an accepted description has one entry per object of its level -/

def NoArr (levels : List Level) : Prop := ∀ l ∈ levels, l.idx.arr = none
def ArrOK (levels : List Level) : Prop := ∀ l ∈ levels, ∀ a, l.idx.arr = some a → a.length = l.width

theorem NoArr.arrOK {levels : List Level} (h : NoArr levels) : ArrOK levels := by
  intro l hl a ha; rw [h l hl] at ha; cases ha

theorem mem_updLevel (L : List Level) (i : Nat) (f : Level → Level) (x : Level) (h : x ∈ updLevel L i f) :
    x ∈ L ∨ ∃ y, L[i]? = some y ∧ x = f y := by
  unfold updLevel at h
  split at h
  · rename_i y hy
    rcases List.mem_or_eq_of_mem_set h with h | h
    · exact Or.inl h
    · exact Or.inr ⟨y, hy, h⟩
  · exact Or.inl h

theorem NoArr.upd {L : List Level} (h : NoArr L) (i : Nat) (f : Level → Level) (hf : ∀ x, (f x).idx = x.idx) :
    NoArr (updLevel L i f) := by
  intro x hx
  rcases mem_updLevel L i f x hx with hx | ⟨y, hy, rfl⟩
  · exact h x hx
  · rw [hf]; exact h y (List.mem_of_getElem? hy)

theorem parseAttrs_arr (s : Bytes) (a : Attr) (ix : Idx) (n : Bytes) (a' : Attr) (ix' : Idx)
    (h : parseAttrs s a ix = .ok (n, a', ix')) : ix'.arr = ix.arr := by
  unfold parseAttrs at h
  split at h
  · cases h
  · split at h
    · cases h
    · simp only [Except.ok.injEq, Prod.mk.injEq] at h
      obtain ⟨_, _, rfl⟩ := h
      split <;> rfl

/-- loop invariant for the arrays: none is set while parsing -/
def AInv (st : Loop) : Prop := NoArr st.levels ∧ st.numaIdx.arr = none

theorem attachedStep_ainv (p : Bytes) (st : Loop) (h : AInv st) (st' : Loop) (next : Bytes)
    (he : attachedStep p st = .ok (st', next)) : AInv st' := by
  unfold attachedStep at he
  simp only at he
  split at he
  · cases he
  · split at he
    · cases he
    · split at he
      · cases he
      · split at he
        · cases he
        · rename_i a ix hres
          simp only [Except.ok.injEq, Prod.mk.injEq] at he
          obtain ⟨rfl, _⟩ := he
          refine ⟨h.1.upd _ _ (fun x => rfl), ?_⟩
          simp only
          split at hres
          · split at hres
            · split at hres
              · rename_i n a2 ix2 hp
                simp only [Except.ok.injEq, Prod.mk.injEq] at hres
                obtain ⟨_, rfl⟩ := hres
                rw [parseAttrs_arr _ _ _ _ _ _ hp]; exact h.2
              · cases hres
            · simp only [Except.ok.injEq, Prod.mk.injEq] at hres
              obtain ⟨_, rfl⟩ := hres; exact h.2
          · simp only [Except.ok.injEq, Prod.mk.injEq] at hres
            obtain ⟨_, rfl⟩ := hres; exact h.2

theorem levelStep_ainv (c : Byte) (pos : Bytes) (st : Loop) (h : AInv st) (st' : Loop) (next : Bytes)
    (he : levelStep c pos st = .ok (st', next)) : AInv st' := by
  unfold levelStep at he
  simp only at he
  split at he
  · cases he
  · generalize strtoulS 0 _ = q at he
    obtain ⟨item, nx⟩ := q
    simp only at he
    split at he
    · cases he
    · split at he
      · cases he
      · split at he
        · cases he
        · split at he
          · cases he
          · rename_i nx2 attr2 ix2 hres
            split at he
            · cases he
            · split at he
              · cases he
              · simp only [Except.ok.injEq, Prod.mk.injEq] at he
                obtain ⟨rfl, _⟩ := he
                refine ⟨?_, h.2⟩
                intro x hx
                simp only at hx
                rcases List.mem_append.1 hx with hx | hx
                · exact (h.1.upd (st.levels.length - 1) (fun l => { l with arity := item }) (fun x => rfl)) x hx
                · simp only [List.mem_singleton] at hx
                  subst hx
                  simp only
                  split at hres
                  · rw [parseAttrs_arr _ _ _ _ _ _ hres]
                  · simp only [Except.ok.injEq, Prod.mk.injEq] at hres
                    obtain ⟨_, _, rfl⟩ := hres; rfl

theorem loopBody_ainv (pos : Bytes) (st : Loop) (h : AInv st) (st' : Loop) (next : Option Bytes)
    (he : loopBody pos st = .ok (st', next)) : AInv st' := by
  have h' : AInv { st with levels := updLevel st.levels (st.levels.length - 1) (fun l => { l with arity := 0 }), log := (st.levels.length - 1) :: st.log } :=
    ⟨h.1.upd _ _ (fun x => rfl), h.2⟩
  unfold loopBody at he
  simp only at he
  split at he
  · simp only [Except.ok.injEq, Prod.mk.injEq] at he
    obtain ⟨rfl, _⟩ := he; exact h'
  · split at he
    · split at he
      · rename_i s2 n2 heq
        simp only [Except.ok.injEq, Prod.mk.injEq] at he
        obtain ⟨rfl, _⟩ := he
        exact attachedStep_ainv _ _ h' _ _ heq
      · cases he
    · split at he
      · rename_i s2 n2 heq
        simp only [Except.ok.injEq, Prod.mk.injEq] at he
        obtain ⟨rfl, _⟩ := he
        exact levelStep_ainv _ _ _ h' _ _ heq
      · cases he

theorem mainLoop_ainv : ∀ (fuel : Nat) (pos : Bytes) (st : Loop), AInv st → ∀ st', mainLoop fuel pos st = .ok st' → AInv st' := by
  intro fuel
  induction fuel with
  | zero => intro pos st h st' he; simp [mainLoop] at he; subst he; exact h
  | succ f ih =>
    intro pos st h st' he
    unfold mainLoop at he
    split at he
    · simp only [Except.ok.injEq] at he; subst he; exact h
    · split at he
      · cases he
      · rename_i s2 heq
        simp only [Except.ok.injEq] at he; subst he
        exact loopBody_ainv _ _ h _ _ heq
      · rename_i s2 nx heq
        exact ih _ _ (loopBody_ainv _ _ h _ _ heq) _ he

theorem setType_noArr {L : List Level} (h : NoArr L) (i t depth : Nat) (ctype : Int) (keep : Bool) :
    NoArr (setType L i t depth ctype keep) := by
  unfold setType; exact h.upd _ _ (fun x => rfl)

theorem sanity_noArr (st : Loop) (h : NoArr st.levels) (levels : List Level) (log : Log)
    (he : sanity st = .ok (levels, log)) : NoArr levels := by
  have h1 : NoArr (setType (updLevel st.levels (st.levels.length - 1) (fun l => { l with arity := 0 })) (st.levels.length - 1) tPU) :=
    setType_noArr (h.upd (st.levels.length - 1) (fun l => { l with arity := 0 }) (fun x => rfl)) _ _ _ _ _
  unfold sanity at he
  simp only at he
  repeat' split at he
  all_goals first
    | cases he; done
    | (simp only [Except.ok.injEq, Prod.mk.injEq] at he; obtain ⟨rfl, _⟩ := he; exact h1)

theorem condSet_noArr (c : Bool) (i t depth : Nat) (ctype : Int) (keep : Bool) (p : List Level × Log) (h : NoArr p.1) :
    NoArr (condSet c i t depth ctype keep p).1 := by
  unfold condSet
  split
  · exact setType_noArr h _ _ _ _ _
  · exact h

theorem groupsFold_noArr : ∀ (is : List Nat) (p : List Level × Log), NoArr p.1 →
    NoArr (is.foldl (fun p i => condSet true (1 + i) tGROUP 4294967295 (-1) true p) p).1 := by
  intro is
  induction is with
  | nil => intro p h; exact h
  | cons i rest ih => intro p h; simp only [List.foldl_cons]; exact ih _ (condSet_noArr _ _ _ _ _ _ _ h)

theorem assignDefaultTypes_noArr (levels : List Level) (count numaNr : Nat) (h : NoArr levels) :
    NoArr (assignDefaultTypes levels count numaNr).1 := by
  unfold assignDefaultTypes
  generalize needs count numaNr = nd
  obtain ⟨neednuma, needpack, needcore, needcaches, needgroups⟩ := nd
  simp only
  exact condSet_noArr _ _ _ _ _ _ _ (condSet_noArr _ _ _ _ _ _ _ (condSet_noArr _ _ _ _ _ _ _ (condSet_noArr _ _ _ _ _ _ _
    (condSet_noArr _ _ _ _ _ _ _ (condSet_noArr _ _ _ _ _ _ _ (condSet_noArr _ _ _ _ _ _ _
      (groupsFold_noArr _ (levels, []) h)))))))

theorem insertNuma_noArr (levels : List Level) (count : Nat) (h : NoArr levels) : NoArr (insertNuma levels count).1 := by
  unfold insertNuma
  split
  · rename_i l0 rest
    intro x hx
    simp only [List.mem_cons] at hx
    rcases hx with rfl | rfl | hx
    · exact h l0 List.mem_cons_self
    · rfl
    · exact h x (List.mem_cons_of_mem _ hx)
  · exact h

theorem typesAndNuma_noArr (st : Loop) (levels : List Level) (log : Log) (h : NoArr levels) :
    NoArr (typesAndNuma st levels log).1 := by
  unfold typesAndNuma
  simp only
  have hr : ∀ r : List Level × Log × Bool × Nat,
      r = (if (((levels.drop 1).take (levels.length - 2)).filter (fun l => l.attr.type == tNONE)).length ≠ 0
            then assignDefaultTypes levels levels.length st.numaNr
            else (levels, [], typeCount levels tNUMA ≠ 0, 0)) → NoArr r.1 := by
    intro r hr
    subst hr
    split
    · exact assignDefaultTypes_noArr _ _ _ h
    · exact h
  generalize hrd : (if (((levels.drop 1).take (levels.length - 2)).filter (fun l => l.attr.type == tNONE)).length ≠ 0
            then assignDefaultTypes levels levels.length st.numaNr
            else (levels, [], typeCount levels tNUMA ≠ 0, 0)) = r
  have hsp := hr r hrd.symm
  split
  · exact insertNuma_noArr _ _ hsp
  · exact hsp

theorem processIndexes_length (levels : List Level) (ix : Idx) (total : Nat) (a : List Nat) (log : Log)
    (hix : ∀ b, ix.arr = some b → b.length = total)
    (h : processIndexes levels ix total = (.arr (some a), log)) : a.length = total := by
  cases hs : ix.str with
  | none =>
    unfold processIndexes at h
    rw [hs] at h
    simp only [Prod.mk.injEq, PI.arr.injEq] at h
    exact hix a h.1
  | some sl =>
    obtain ⟨s, len⟩ := sl
    exact (processIndexes_accepts levels ix s len total a log hs h).1

theorem defaultsLoop_arrOK : ∀ (is : List Nat) (st : Fin2), ArrOK st.levels → ∀ f, defaultsLoop is st = .ok f → ArrOK f.levels := by
  intro is
  induction is with
  | nil => intro st h f he; simp [defaultsLoop] at he; subst he; exact h
  | cons i rest ih =>
    intro st h f he
    unfold defaultsLoop at he
    simp only at he
    generalize setDefaultAttrs (lvAt st.levels i).attr st.gcount = ag at he
    obtain ⟨a, g⟩ := ag
    simp only at he
    generalize hlv : updLevel st.levels i (fun l => { l with attr := a, attached := (lvAt st.levels i).attached.map (fun x => (setDefaultAttrs x g).1) }) = lv1 at he
    generalize hpi : processIndexes lv1 (lvAt st.levels i).idx (lvAt st.levels i).width = pr at he
    obtain ⟨r, rl⟩ := pr
    simp only at he
    split at he
    · cases he
    · rename_i arr
      refine ih _ ?_ f he
      -- ArrOK of the twice-updated list
      have h1 : ArrOK lv1 := by
        rw [← hlv]
        intro x hx b hb
        rcases mem_updLevel _ _ _ x hx with hx | ⟨y, hy, rfl⟩
        · exact h x hx b hb
        · exact h y (List.mem_of_getElem? hy) b hb
      intro x hx b hb
      rcases mem_updLevel _ _ _ x hx with hx | ⟨y, hy, rfl⟩
      · exact h1 x hx b hb
      · simp only at hb ⊢
        -- y = lv1[i] has the width and the old idx of st.levels[i]
        have hi : i < st.levels.length := by
          have : i < lv1.length := (List.getElem?_eq_some_iff.1 hy).1
          rw [← hlv, updLevel_length] at this; exact this
        have hy' : y = lvAt lv1 i := by unfold lvAt; rw [hy]; rfl
        have hw : y.width = (lvAt st.levels i).width := by
          rw [hy', ← hlv, lvAt_updLevel]; simp [hi]
        have hl : lvAt st.levels i ∈ st.levels := by
          unfold lvAt
          rw [List.getElem?_eq_getElem hi]; exact List.getElem_mem hi
        rw [hw]
        subst hb
        exact processIndexes_length lv1 _ _ b rl (fun c hc => h _ hl c hc) hpi

/-- **array safety**: in the result of an accepted description every index array has exactly one entry per object
of its level (`array[next++]` of hwloc_synthetic_next_index is in bounds), for the levels and for the attached NUMA nodes -/
theorem parse_arrays_ok (s : Bytes) (p : Parsed) (h : parse s = .ok p) :
    (∀ l ∈ p.levels, ∀ a, l.idx.arr = some a → a.length = l.width) ∧
    (∀ a, p.numaIdx.arr = some a → a.length = p.numaNr) := by
  unfold parse at h
  simp only at h
  split at h
  · cases h
  · rename_i pos l0 hr0
    have hl0 : l0.idx.arr = none := by
      split at hr0
      · split at hr0
        · rename_i n a ix hp
          simp only [Except.ok.injEq, Prod.mk.injEq] at hr0
          obtain ⟨_, rfl⟩ := hr0
          simp only
          rw [parseAttrs_arr _ _ _ _ _ _ hp]
        · cases hr0
      · simp only [Except.ok.injEq, Prod.mk.injEq] at hr0
        obtain ⟨_, rfl⟩ := hr0; rfl
    split at h
    · cases h
    · rename_i st hm
      have hst : AInv st := mainLoop_ainv _ _ _ ⟨by intro l hl; simp only [List.mem_singleton] at hl; subst hl; exact hl0, rfl⟩ _ hm
      unfold finish at h
      split at h
      · cases h
      · rename_i levels log hsan
        have h1 := sanity_noArr st hst.1 levels log hsan
        have h2 := typesAndNuma_noArr st levels log h1
        generalize typesAndNuma st levels log = tn at h h2
        obtain ⟨lv, lg, gc⟩ := tn
        simp only at h h2
        split at h
        · cases h
        · rename_i f hd
          have h3 := defaultsLoop_arrOK _ _ h2.arrOK f hd
          generalize hpi : processIndexes f.levels st.numaIdx st.numaNr = pr at h
          obtain ⟨r, rl⟩ := pr
          simp only at h
          split at h
          · cases h
          · rename_i arr
            simp only [Except.ok.injEq] at h
            subst h
            refine ⟨h3, ?_⟩
            intro a ha
            simp only at ha
            subst ha
            exact processIndexes_length f.levels st.numaIdx st.numaNr a rl (fun b hb => by rw [hst.2] at hb; cases hb) hpi

/-! ### explicit index lists are read back as written -/

theorem strtoul10_plain (c : Nat) (cs : List Byte) (hc : IsDecChar c) :
    strtoul 10 (c :: cs) =
      (if (takeDigits 10 (c :: cs) 0 0).2.1 = 0 then .ok 0 (c :: cs)
       else .ok (min (takeDigits 10 (c :: cs) 0 0).1 ulongMax) (takeDigits 10 (c :: cs) 0 0).2.2) := by
  unfold strtoul
  have hs : (c :: cs).dropWhile isSpace = c :: cs := by
    rw [List.dropWhile_cons, isSpace_hex c (Or.inl hc)]; rfl
  simp only [hs]
  split
  · rename_i heq; cases heq; unfold IsDecChar at hc; omega
  · rename_i heq; cases heq; unfold IsDecChar at hc; omega
  · split <;> simp

theorem strtoul10_decDigits (n : Nat) (rest : List Byte) (hn : n < 2 ^ 64) (h : NoDigitHead rest) :
    strtoul 10 (decDigits n ++ rest) = .ok n rest := by
  obtain ⟨c, tl, e⟩ := List.exists_cons_of_ne_nil (decDigits_ne_nil n)
  have hc : IsDecChar c := decDigits_chars n c (by rw [e]; exact List.mem_cons_self)
  have htd : takeDigits 10 (decDigits n ++ rest) 0 0 = (n, 0 + (digs 10 n).length, rest) := by
    rw [decDigits_eq, takeDigits_digs 10 (by omega) (by omega), takeDigits_stop 10 rest h]
  have hlen := digs_length_pos 10 (by omega) n
  have e' : decDigits n ++ rest = c :: (tl ++ rest) := by rw [e]; rfl
  rw [e', strtoul10_plain _ _ hc, ← e', htd]
  have hne : 0 + (digs 10 n).length ≠ 0 := by omega
  have : min n ulongMax = n := by unfold ulongMax; omega
  show (if 0 + (digs 10 n).length = 0 then _ else StrtoRes.ok (min n ulongMax) rest) = _
  rw [if_neg hne, this]

theorem strtoulS10_decDigits (n : Nat) (rest : List Byte) (hn : n < 2 ^ 64) (h : NoDigitHead rest) :
    strtoulS 10 (decDigits n ++ rest) = (n, rest) := by
  unfold strtoulS
  rw [strtoul10_decDigits n rest hn h]

theorem strtoulS0_decDigits (n : Nat) (rest : List Byte) (hn : n < 2 ^ 64) (h : NoDigitHead rest) :
    strtoulS 0 (decDigits n ++ rest) = (n, rest) := by
  unfold strtoulS
  rw [strtoul0_decDigits n rest hn h]

/-- `v1,v2,...,vk` -/
def printList : List Nat → Bytes
  | [] => []
  | [v] => decDigits v
  | v :: w :: r => decDigits v ++ 44 :: printList (w :: r)

theorem decDigits_append_length_lt (n : Nat) (rest : Bytes) : rest.length < (decDigits n ++ rest).length := by
  have := digs_length_pos 10 (by omega) n
  rw [List.length_append, decDigits_eq]; omega

/-- **explicit lists**: `indexes=v1,...,vk` on a level of `k` objects is read back as exactly `[v1,...,vk]` -/
theorem explicitLoop_printList : ∀ (xs : List Nat) (total : Nat) (rest : Bytes) (acc : List Nat),
    xs ≠ [] → (∀ v ∈ xs, v < u32) → NoDigitHead rest →
    explicitLoop xs.length total (printList xs ++ rest) acc = some (acc.reverse ++ xs) := by
  intro xs
  induction xs with
  | nil => intro _ _ _ h; exact absurd rfl h
  | cons v r ih =>
    intro total rest acc _ hlt hrest
    have hv : v < u32 := hlt v List.mem_cons_self
    have hv64 : v < 2 ^ 64 := by unfold u32 at hv; omega
    cases r with
    | nil =>
      simp only [printList, List.length_cons, List.length_nil]
      unfold explicitLoop
      rw [strtoulS10_decDigits v rest hv64 hrest]
      simp only
      have hne : rest ≠ decDigits v ++ rest := by
        intro he; have := decDigits_append_length_lt v rest; rw [← he] at this; omega
      simp only [hne, if_false, Nat.zero_add, ne_eq, not_true_eq_false]
      simp [Nat.mod_eq_of_lt hv]
    | cons w r' =>
      have hnd : NoDigitHead (44 :: (printList (w :: r') ++ rest)) := noDigitHead_comma _
      have e : printList (v :: w :: r') ++ rest = decDigits v ++ (44 :: (printList (w :: r') ++ rest)) := by
        simp [printList]
      rw [e]
      simp only [List.length_cons]
      unfold explicitLoop
      rw [strtoulS10_decDigits v _ hv64 hnd]
      simp only
      have hne : (44 :: (printList (w :: r') ++ rest)) ≠ decDigits v ++ (44 :: (printList (w :: r') ++ rest)) := by
        intro he; have := decDigits_append_length_lt v (44 :: (printList (w :: r') ++ rest)); rw [← he] at this; omega
      simp only [hne, if_false, ne_eq, Nat.add_eq_zero_iff, Nat.succ_ne_self, and_false, not_false_eq_true, if_true]
      have := ih total rest ((v % u32) :: acc) (by simp) (fun x hx => hlt x (List.mem_cons_of_mem _ hx)) hrest
      simp only [List.length_cons] at this
      rw [this]
      simp [Nat.mod_eq_of_lt hv]
