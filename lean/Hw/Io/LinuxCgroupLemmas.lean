/-
  Hw.Io.LinuxCgroupLemmas — facts about the cgroup / cpuset handling (model: Hw/Io/LinuxCgroup.lean).
-/
import Hw.Io.LinuxCgroup
import Hw.Io.LinuxNumLemmas
namespace Hw.LinuxCgroup
open Hw Hw.LinuxParse Hw.LinuxNum

/-! ### fgets -/

theorem fgetsAux_append : ∀ (k : Nat) (s : List Byte), (fgetsAux k s).1 ++ (fgetsAux k s).2 = s
  | 0, s => by rw [fgetsAux]; rfl
  | _+1, [] => by simp [fgetsAux]
  | k+1, c :: cs => by
    rw [fgetsAux]
    split
    · rfl
    · simp only [List.cons_append, fgetsAux_append k cs]

/-- fgets stores at most `n-1` bytes (and a NUL behind them: inside the `n`-byte buffer) -/
theorem fgetsAux_length : ∀ (k : Nat) (s : List Byte), (fgetsAux k s).1.length ≤ k
  | 0, s => by rw [fgetsAux]; simp
  | _+1, [] => by simp [fgetsAux]
  | k+1, c :: cs => by
    rw [fgetsAux]
    split
    · simp
    · have := fgetsAux_length k cs
      simp only [List.length_cons]; omega

theorem fgetsAux_rest_le (k : Nat) (s : List Byte) : (fgetsAux k s).2.length ≤ s.length := by
  have h := congrArg List.length (fgetsAux_append k s)
  rw [List.length_append] at h; omega

theorem fgetsAux_progress : ∀ (k : Nat) (s : List Byte), 0 < k → s ≠ [] → (fgetsAux k s).2.length < s.length
  | 0, _, h, _ => by omega
  | _+1, [], _, h => absurd rfl h
  | k+1, c :: cs, _, _ => by
    rw [fgetsAux]
    split
    · simp
    · have := fgetsAux_rest_le k cs
      simp only [List.length_cons]; omega

theorem fgets_length (n : Nat) (s : List Byte) : (fgets n s).1.length ≤ n - 1 := fgetsAux_length _ _

theorem fgets_progress (n : Nat) (hn : 2 ≤ n) (s : List Byte) (hs : s ≠ []) : (fgets n s).2.length < s.length :=
  fgetsAux_progress _ _ (by omega) hs

theorem fgets_rest_le (n : Nat) (s : List Byte) : (fgets n s).2.length ≤ s.length := fgetsAux_rest_le _ _

/-- a newline-terminated line that fits the buffer is delivered whole -/
theorem fgetsAux_line : ∀ (l : List Byte) (k : Nat) (r : List Byte), (∀ c ∈ l, c ≠ 10) → l.length + 1 ≤ k →
    fgetsAux k (l ++ 10 :: r) = (l ++ [10], r)
  | [], k, r, _, hk => by
    cases k with
    | zero => simp at hk
    | succ k => rw [List.nil_append, fgetsAux]; simp
  | c :: l, k, r, hnl, hk => by
    cases k with
    | zero => simp at hk
    | succ k =>
      have hc : c ≠ 10 := hnl c (List.mem_cons_self)
      rw [List.cons_append, fgetsAux, if_neg hc,
        fgetsAux_line l k r (fun x hx => hnl x (List.mem_cons_of_mem _ hx)) (by simp only [List.length_cons] at hk; omega)]
      rfl

theorem fgets_line (n : Nat) (l r : List Byte) (hnl : ∀ c ∈ l, c ≠ 10) (hlen : l.length + 1 ≤ n - 1) :
    fgets n (l ++ 10 :: r) = (l ++ [10], r) := fgetsAux_line l _ r hnl hlen

/-! ### small list facts -/

theorem takeWhile_length_le (p : Byte → Bool) (l : List Byte) : (l.takeWhile p).length ≤ l.length :=
  (List.takeWhile_prefix p).length_le

theorem chopNl_length_le (l : List Byte) : (chopNl l).length ≤ l.length := takeWhile_length_le _ l

theorem dropWhile_eq_drop (p : Byte → Bool) : ∀ l : List Byte, l.dropWhile p = l.drop (l.takeWhile p).length
  | [] => rfl
  | c :: cs => by
    rw [List.dropWhile_cons, List.takeWhile_cons]
    split
    · simp only [List.length_cons, List.drop_succ_cons]; exact dropWhile_eq_drop p cs
    · rfl

theorem dropWhile_append_stop (p : Byte → Bool) (pre : List Byte) (c : Byte) (r : List Byte)
    (hpre : ∀ x ∈ pre, p x = true) (hc : p c = false) : (pre ++ c :: r).dropWhile p = c :: r := by
  induction pre with
  | nil => rw [List.nil_append, List.dropWhile_cons, hc]; rfl
  | cons x pre ih =>
    rw [List.cons_append, List.dropWhile_cons, hpre x (List.mem_cons_self)]
    exact ih (fun y hy => hpre y (List.mem_cons_of_mem _ hy))

theorem dropWhile_all (p : Byte → Bool) : ∀ l : List Byte, (∀ x ∈ l, p x = true) → l.dropWhile p = []
  | [], _ => rfl
  | c :: cs, h => by
    rw [List.dropWhile_cons, h c (List.mem_cons_self)]
    exact dropWhile_all p cs (fun x hx => h x (List.mem_cons_of_mem _ hx))

theorem chopNl_line (path r : List Byte) (h : ∀ c ∈ path, c ≠ 10) : chopNl (path ++ 10 :: r) = path := by
  unfold chopNl
  induction path with
  | nil => rw [List.nil_append, List.takeWhile_cons]; simp
  | cons c path ih =>
    have hc := h c (List.mem_cons_self)
    rw [List.cons_append, List.takeWhile_cons]
    simp only [bne_iff_ne, ne_eq, hc, not_false_eq_true, if_true]
    rw [ih (fun x hx => h x (List.mem_cons_of_mem _ hx))]

theorem cstr_nonzero (l : List Byte) (h : ∀ c ∈ l, c ≠ 0) : cstr l = l := by
  have := cstr_append_nonzero l [] h
  simpa [cstr] using this

theorem findSome_first {α β : Type} (f : α → Option β) (pre : List α) (x : α) (post : List α) (r : β)
    (hpre : ∀ y ∈ pre, f y = none) (hx : f x = some r) : (pre ++ x :: post).findSome? f = some r := by
  induction pre with
  | nil => simp [List.findSome?_cons, hx]
  | cons y pre ih =>
    rw [List.cons_append, List.findSome?_cons, hpre y (List.mem_cons_self)]
    exact ih (fun z hz => hpre z (List.mem_cons_of_mem _ hz))

/-! ### hwloc_read_linux_cgroup_name -/

theorem str_cpuset_colons : str ":cpuset:" = [58, 99, 112, 117, 115, 101, 116, 58] := by decide
theorem str_colons : str "::" = [58, 58] := by decide

/-- the lines fgets delivers -/
def chunks (n : Nat) : Nat → List Byte → List (List Byte)
  | 0, _ => []
  | fuel+1, s => if s = [] then [] else (fgets n s).1 :: chunks n fuel (fgets n s).2

/-- the loop returns the path of the FIRST fgets line that is a `N:cpuset:path` or `N::path` line -/
theorem cgLoop_eq_findSome : ∀ (fuel : Nat) (s : List Byte),
    cgLoop fuel s = (chunks cgroupLineLen fuel s).findSome? (fun ch => cgLineMatch (cstr ch))
  | 0, _ => rfl
  | fuel+1, s => by
    rw [cgLoop, chunks]
    by_cases hs : s = []
    · simp [hs]
    · rw [if_neg hs, if_neg hs, List.findSome?_cons]
      cases cgLineMatch (cstr (fgets cgroupLineLen s).1) with
      | some p => rfl
      | none => exact cgLoop_eq_findSome fuel _

/-- the fuel `length + 1` used by `cgroupName` is enough: more fuel changes nothing (the loop terminates) -/
theorem cgLoop_fuel : ∀ (f1 f2 : Nat) (s : List Byte), s.length < f1 → s.length < f2 → cgLoop f1 s = cgLoop f2 s
  | 0, _, _, h, _ => by omega
  | _+1, 0, _, _, h => by omega
  | f1+1, f2+1, s, h1, h2 => by
    rw [cgLoop, cgLoop]
    by_cases hs : s = []
    · simp [hs]
    · rw [if_neg hs, if_neg hs]
      cases cgLineMatch (cstr (fgets cgroupLineLen s).1) with
      | some p => rfl
      | none =>
        have hp := fgets_progress cgroupLineLen (by decide) s hs
        exact cgLoop_fuel f1 f2 _ (by omega) (by omega)

/-- pointer safety of the line matcher: the returned path starts at `line + k` with `k ≤ strlen(line)`
(`colon + 8` / `colon + 2` never passes the NUL) -/
theorem cgLineMatch_inside (line p : List Byte) (h : cgLineMatch line = some p) :
    ∃ k, k ≤ line.length ∧ p = chopNl (line.drop k) := by
  unfold cgLineMatch at h
  simp only [] at h
  rw [dropWhile_eq_drop] at h
  generalize hj : (line.takeWhile (fun c => c != 58)).length = j at h
  split at h
  · cases h
  · split at h
    · rename_i hp
      have hl := (List.isPrefixOf_iff_prefix.mp hp).length_le
      rw [str_cpuset_colons, List.length_drop] at hl
      simp only [List.length_cons, List.length_nil] at hl
      injection h with h
      refine ⟨j + 8, by omega, ?_⟩
      rw [← h, List.drop_drop]
    · split at h
      · rename_i hp
        have hl := (List.isPrefixOf_iff_prefix.mp hp).length_le
        rw [str_colons, List.length_drop] at hl
        simp only [List.length_cons, List.length_nil] at hl
        injection h with h
        refine ⟨j + 2, by omega, ?_⟩
        rw [← h, List.drop_drop]
      · cases h

theorem cgLineMatch_length (line p : List Byte) (h : cgLineMatch line = some p) : p.length ≤ line.length := by
  obtain ⟨k, _, hp⟩ := cgLineMatch_inside line p h
  rw [hp]
  have := chopNl_length_le (line.drop k)
  rw [List.length_drop] at this; omega

theorem cgLoop_length : ∀ (fuel : Nat) (s p : List Byte), cgLoop fuel s = some p → p.length ≤ cgroupLineLen - 1
  | 0, _, _, h => by cases h
  | fuel+1, s, p, h => by
    rw [cgLoop] at h
    split at h
    · cases h
    · split at h
      · rename_i q hq
        injection h with h; subst h
        have h1 := cgLineMatch_length _ _ hq
        have h2 := cstr_length_le (fgets cgroupLineLen s).1
        have h3 := fgets_length cgroupLineLen s
        omega
      · exact cgLoop_length fuel _ p h

/-- a cgroup-v1 cpuset line -/
theorem cgLineMatch_v1 (pre path r : List Byte) (hpre : ∀ c ∈ pre, c ≠ 58) (hpath : ∀ c ∈ path, c ≠ 10) :
    cgLineMatch (pre ++ str ":cpuset:" ++ path ++ 10 :: r) = some path := by
  unfold cgLineMatch
  rw [str_cpuset_colons]
  have hd : (pre ++ [58, 99, 112, 117, 115, 101, 116, 58] ++ path ++ 10 :: r).dropWhile (fun c => c != 58)
      = 58 :: ([99, 112, 117, 115, 101, 116, 58] ++ path ++ 10 :: r) := by
    have : pre ++ [58, 99, 112, 117, 115, 101, 116, 58] ++ path ++ 10 :: r
        = pre ++ 58 :: ([99, 112, 117, 115, 101, 116, 58] ++ path ++ 10 :: r) := by simp
    rw [this]
    exact dropWhile_append_stop _ pre 58 _ (fun x hx => by simpa using hpre x hx) (by simp)
  simp only [hd]
  simp [chopNl_line path r hpath]

/-- a cgroup-v2 unified-hierarchy line -/
theorem cgLineMatch_v2 (pre path r : List Byte) (hpre : ∀ c ∈ pre, c ≠ 58) (hpath : ∀ c ∈ path, c ≠ 10) :
    cgLineMatch (pre ++ str "::" ++ path ++ 10 :: r) = some path := by
  unfold cgLineMatch
  rw [str_colons, str_cpuset_colons]
  have hd : (pre ++ [58, 58] ++ path ++ 10 :: r).dropWhile (fun c => c != 58) = 58 :: ([58] ++ path ++ 10 :: r) := by
    have : pre ++ [58, 58] ++ path ++ 10 :: r = pre ++ 58 :: ([58] ++ path ++ 10 :: r) := by simp
    rw [this]
    exact dropWhile_append_stop _ pre 58 _ (fun x hx => by simpa using hpre x hx) (by simp)
  simp only [hd]
  simp [chopNl_line path r hpath]

/-- a line without any colon never matches -/
theorem cgLineMatch_nocolon (line : List Byte) (h : ∀ c ∈ line, c ≠ 58) : cgLineMatch line = none := by
  unfold cgLineMatch
  have : line.dropWhile (fun c => c != 58) = [] :=
    dropWhile_all _ line (fun x hx => by simpa using h x hx)
  simp [this]

/-- what the kernel writes: newline-terminated lines -/
def joinLines : List (List Byte) → List Byte
  | [] => []
  | l :: ls => l ++ 10 :: joinLines ls

theorem joinLines_length_ge : ∀ ls : List (List Byte), ls.length ≤ (joinLines ls).length
  | [] => by simp [joinLines]
  | l :: ls => by
    have := joinLines_length_ge ls
    simp only [joinLines, List.length_cons, List.length_append]; omega

/-- on a well-formed /proc/self/cgroup (lines shorter than the 256-byte buffer, no NUL bytes) the loop sees
exactly the kernel's lines and returns the path of the first matching one -/
theorem cgLoop_joinLines : ∀ (ls : List (List Byte)) (fuel : Nat), ls.length < fuel →
    (∀ l ∈ ls, (∀ c ∈ l, c ≠ 10 ∧ c ≠ 0) ∧ l.length + 1 ≤ cgroupLineLen - 1) →
    cgLoop fuel (joinLines ls) = ls.findSome? (fun l => cgLineMatch (l ++ [10]))
  | [], fuel, hf, _ => by
    cases fuel with
    | zero => omega
    | succ f => simp [joinLines, cgLoop]
  | l :: ls, fuel, hf, hwf => by
    cases fuel with
    | zero => omega
    | succ f =>
      have hf' : ls.length < f := by simp only [List.length_cons] at hf; omega
      have hl := hwf l (List.mem_cons_self)
      have hne : l ++ 10 :: joinLines ls ≠ [] := by simp
      rw [joinLines, cgLoop, if_neg hne, fgets_line cgroupLineLen l _ (fun c hc => (hl.1 c hc).1) hl.2]
      simp only []
      have hz : ∀ c ∈ l ++ [10], c ≠ 0 := by
        intro c hc
        rcases List.mem_append.mp hc with hc | hc
        · exact (hl.1 c hc).2
        · simp at hc; subst hc; decide
      rw [cstr_nonzero _ hz, List.findSome?_cons]
      cases cgLineMatch (l ++ [10]) with
      | some p => rfl
      | none =>
        exact cgLoop_joinLines ls f hf'
          (fun x hx => hwf x (List.mem_cons_of_mem _ hx))

/-! ### glibc decode_name and the path buffers -/

theorem decodeAux_length : ∀ (s : List Byte) (k : Nat), (decodeAux k s).length ≤ s.length
  | [], k => by rw [decodeAux]; simp
  | c :: r, k+1 => by
    rw [decodeAux]
    have := decodeAux_length r k
    simp only [List.length_cons]; omega
  | c :: r, 0 => by
    rw [decodeAux]
    split
    · rename_i d k _
      have := decodeAux_length r k
      simp only [List.length_cons]; omega
    · have := decodeAux_length r 0
      simp only [List.length_cons]; omega

/-- decode_name works in place: the decoded field is never longer than the raw one -/
theorem decodeName_length (s : List Byte) : (decodeName s).length ≤ s.length := decodeAux_length s 0

theorem snprintfS_length (n : Nat) (s : List Byte) : (snprintfS n s).length ≤ n - 1 := by
  unfold snprintfS; rw [List.length_take]; exact Nat.min_le_left _ _

/-- `snprintf(ctrlpath, 256, …)` stays inside `char ctrlpath[256]` whatever the mount directory -/
theorem ctrlPath_length (dir : List Byte) : (ctrlPath dir).length < ctrlPathLen := by
  have := snprintfS_length ctrlPathLen (dir ++ str "/cgroup.controllers")
  unfold ctrlPath ctrlPathLen at *; omega

theorem cpusetPath_length (t : CgType) (mnt name attr : List Byte) :
    (cpusetPath t mnt name attr).length < cpusetFilenameLen := by
  have := snprintfS_length cpusetFilenameLen (mnt ++ name ++ cpusetSuffix t attr)
  unfold cpusetPath cpusetFilenameLen at *; omega

/-- when it fits, the file name is the plain concatenation -/
theorem cpusetPath_exact (t : CgType) (mnt name attr : List Byte)
    (h : (mnt ++ name ++ cpusetSuffix t attr).length ≤ 255) :
    cpusetPath t mnt name attr = mnt ++ name ++ cpusetSuffix t attr := by
  unfold cpusetPath snprintfS cpusetFilenameLen
  exact List.take_of_length_le h

/-! ### the /proc/mounts scan -/

/-- the entries getmntent_r delivers -/
def entries (bufsiz : Nat) : Nat → List Byte → List MntEnt
  | 0, _ => []
  | fuel+1, s =>
    match nextEnt bufsiz (s.length + 1) s with
    | none => []
    | some (e, rest) => e :: entries bufsiz fuel rest

/-- the scan returns what the rule (`entMatch`) says about the FIRST entry it accepts -/
theorem mntLoop_eq_findSome (fs : FS) (bufsiz : Nat) : ∀ (fuel : Nat) (s : List Byte),
    mntLoop fs bufsiz fuel s = (entries bufsiz fuel s).findSome? (entMatch fs)
  | 0, _ => rfl
  | fuel+1, s => by
    rw [mntLoop, entries]
    cases nextEnt bufsiz (s.length + 1) s with
    | none => rfl
    | some er =>
      obtain ⟨e, rest⟩ := er
      simp only [List.findSome?_cons]
      cases entMatch fs e with
      | some r => rfl
      | none => exact mntLoop_eq_findSome fs bufsiz fuel rest

theorem str_types_ne : str "cgroup2" ≠ str "cpuset" ∧ str "cgroup2" ≠ str "cgroup" ∧ str "cpuset" ≠ str "cgroup" := by decide

theorem entMatch_cpuset (fs : FS) (e : MntEnt) (h : e.type = str "cpuset") : entMatch fs e = some (.cpuset, e.dir) := by
  unfold entMatch
  rw [h, if_neg (fun h' => str_types_ne.1 h'.symm), if_pos rfl]

theorem entMatch_cgroup1 (fs : FS) (e : MntEnt) (h : e.type = str "cgroup") :
    entMatch fs e =
      (if (splitBy 44 e.opts).contains (str "cpuset") then
        (if (splitBy 44 e.opts).contains (str "noprefix") then some (.cpuset, e.dir) else some (.cgroup1, e.dir))
       else none) := by
  unfold entMatch
  rw [h, if_neg (fun h' => str_types_ne.2.1 h'.symm), if_neg (fun h' => str_types_ne.2.2 h'.symm), if_pos rfl]

theorem entMatch_cgroup2 (fs : FS) (e : MntEnt) (h : e.type = str "cgroup2") :
    entMatch fs e =
      (match readPath ctrlsLen (fs (ctrlPath e.dir)) with
       | some b => if ctrlHasCpuset b then some (.cgroup2, e.dir) else none
       | none => none) := by
  unfold entMatch
  simp only [h, ↓reduceIte]
  cases readPath ctrlsLen (fs (ctrlPath e.dir)) <;> rfl

theorem entMatch_other (fs : FS) (e : MntEnt) (h2 : e.type ≠ str "cgroup2") (hc : e.type ≠ str "cpuset")
    (h1 : e.type ≠ str "cgroup") : entMatch fs e = none := by
  unfold entMatch
  rw [if_neg h2, if_neg hc, if_neg h1]

/-- whatever is matched, the mount point returned is the directory field of that entry -/
theorem entMatch_dir (fs : FS) (e : MntEnt) (t : CgType) (d : List Byte) (h : entMatch fs e = some (t, d)) : d = e.dir := by
  unfold entMatch at h
  split at h
  · split at h
    · split at h
      · injection h with h; injection h with _ h; exact h.symm
      · cases h
    · cases h
  · split at h
    · injection h with h; injection h with _ h; exact h.symm
    · split at h
      · simp only [] at h
        split at h
        · split at h <;> (injection h with h; injection h with _ h; exact h.symm)
        · cases h
      · cases h

/-- the three standard mount points win over /proc/mounts, in this order -/
theorem findMntpnt_standard (acc : List Byte → Bool) (fs : FS) (bufsiz : Nat) (mounts : Option (List Byte)) :
    (acc (str "/sys/fs/cgroup/cpuset.cpus.effective") = true →
      findMntpnt acc fs bufsiz mounts = some (.cgroup2, str "/sys/fs/cgroup")) ∧
    (acc (str "/sys/fs/cgroup/cpuset.cpus.effective") = false → acc (str "/sys/fs/cgroup/cpuset/cpuset.cpus") = true →
      findMntpnt acc fs bufsiz mounts = some (.cgroup1, str "/sys/fs/cgroup/cpuset")) ∧
    (acc (str "/sys/fs/cgroup/cpuset.cpus.effective") = false → acc (str "/sys/fs/cgroup/cpuset/cpuset.cpus") = false →
      acc (str "/dev/cpuset/cpus") = true → findMntpnt acc fs bufsiz mounts = some (.cpuset, str "/dev/cpuset")) := by
  unfold findMntpnt
  refine ⟨fun h => by simp [h], fun h1 h2 => by simp [h1, h2], fun h1 h2 h3 => by simp [h1, h2, h3]⟩

theorem findMntpnt_scan (acc : List Byte → Bool) (fs : FS) (bufsiz : Nat) (m : List Byte)
    (h1 : acc (str "/sys/fs/cgroup/cpuset.cpus.effective") = false) (h2 : acc (str "/sys/fs/cgroup/cpuset/cpuset.cpus") = false)
    (h3 : acc (str "/dev/cpuset/cpus") = false) :
    findMntpnt acc fs bufsiz (some m) = (entries bufsiz (m.length + 1) m).findSome? (entMatch fs) := by
  unfold findMntpnt
  simp only [h1, h2, h3, Bool.false_eq_true, if_false]
  exact mntLoop_eq_findSome fs bufsiz _ m

/-! ### well-formed /proc/mounts -/

/-- a field of a well-formed /proc/mounts line as the kernel prints it when nothing needs escaping -/
def PlainField (f : List Byte) : Prop := f ≠ [] ∧ ∀ c ∈ f, c ≠ 32 ∧ c ≠ 9 ∧ c ≠ 92 ∧ c ≠ 0 ∧ c ≠ 10

/-- `fsname dir type opts 0 0` (without the newline) -/
def mountLine (fsname dir type opts : List Byte) : List Byte :=
  fsname ++ 32 :: (dir ++ 32 :: (type ++ 32 :: (opts ++ [32, 48, 32, 48])))

theorem takeWhile_append_stop (p : Byte → Bool) (pre : List Byte) (c : Byte) (r : List Byte)
    (hpre : ∀ x ∈ pre, p x = true) (hc : p c = false) : (pre ++ c :: r).takeWhile p = pre := by
  induction pre with
  | nil => rw [List.nil_append, List.takeWhile_cons, hc]; rfl
  | cons x pre ih =>
    rw [List.cons_append, List.takeWhile_cons, hpre x (List.mem_cons_self)]
    simp only [if_true]
    rw [ih (fun y hy => hpre y (List.mem_cons_of_mem _ hy))]

theorem isBlank_plain (f : List Byte) (hf : PlainField f) : ∀ x ∈ f, (!isBlank x) = true := by
  intro x hx
  have := hf.2 x hx
  unfold isBlank
  simp only [Bool.not_eq_true', Bool.or_eq_false_iff, beq_eq_false_iff_ne, ne_eq]
  exact ⟨this.1, this.2.1⟩

theorem plain_head (f : List Byte) (hf : PlainField f) (R : List Byte) :
    ∃ c t, f ++ R = c :: t ∧ isBlank c = false ∧ c ∈ f := by
  cases f with
  | nil => exact absurd rfl hf.1
  | cons c t =>
    refine ⟨c, t ++ R, rfl, ?_, List.mem_cons_self⟩
    have := isBlank_plain _ hf c (List.mem_cons_self)
    simpa using this

theorem dropWhile_blank_plain (f : List Byte) (hf : PlainField f) (R : List Byte) :
    (f ++ R).dropWhile isBlank = f ++ R := by
  obtain ⟨c, t, e, hc, _⟩ := plain_head f hf R
  rw [e, List.dropWhile_cons, hc]; rfl

/-- one `strsep` + `strspn` step on `field SPACE next-field…` -/
theorem sepTok_field (f : List Byte) (hf : PlainField f) (g : List Byte) (hg : PlainField g) (R : List Byte) :
    sepTok (some (f ++ 32 :: (g ++ R))) = (f, some (g ++ R)) := by
  unfold sepTok
  simp only []
  have hb : (!isBlank 32) = false := by decide
  rw [dropWhile_append_stop _ f 32 _ (isBlank_plain f hf) hb, takeWhile_append_stop _ f 32 _ (isBlank_plain f hf) hb]
  simp only []
  rw [dropWhile_blank_plain g hg R]

theorem decodeAux_plain : ∀ (f : List Byte), (∀ c ∈ f, c ≠ 92) → decodeAux 0 f = f
  | [], _ => by rw [decodeAux]
  | c :: r, h => by
    rw [decodeAux, if_neg (h c (List.mem_cons_self))]
    simp only []
    rw [decodeAux_plain r (fun x hx => h x (List.mem_cons_of_mem _ hx))]

theorem decodeName_plain (f : List Byte) (hf : PlainField f) : decodeName f = f :=
  decodeAux_plain f (fun c hc => (hf.2 c hc).2.2.1)

theorem plain48 : PlainField [48] := ⟨by simp, by intro c hc; simp at hc; subst hc; decide⟩

theorem parseEnt_mountLine (fsname dir type opts : List Byte) (hf : PlainField fsname) (hd : PlainField dir)
    (ht : PlainField type) (ho : PlainField opts) :
    parseEnt (mountLine fsname dir type opts) = { dir := dir, type := type, opts := opts } := by
  unfold parseEnt mountLine
  simp only []
  rw [sepTok_field fsname hf dir hd]
  simp only []
  rw [sepTok_field dir hd type ht]
  simp only []
  rw [sepTok_field type ht opts ho]
  simp only []
  have : opts ++ [32, 48, 32, 48] = opts ++ 32 :: ([48] ++ [32, 48]) := by simp
  rw [this, sepTok_field opts ho [48] plain48]
  simp only []
  rw [decodeName_plain dir hd, decodeName_plain type ht, decodeName_plain opts ho]

theorem mountLine_mem (fsname dir type opts : List Byte) (hf : PlainField fsname) (hd : PlainField dir)
    (ht : PlainField type) (ho : PlainField opts) : ∀ c ∈ mountLine fsname dir type opts, c ≠ 10 ∧ c ≠ 0 := by
  intro c hc
  unfold mountLine at hc
  simp only [List.mem_append, List.mem_cons, List.mem_nil_iff, or_false] at hc
  have p := fun (f : List Byte) (h : PlainField f) (hc : c ∈ f) => And.intro (h.2 c hc).2.2.2.2 (h.2 c hc).2.2.2.1
  rcases hc with hc | hc | hc | hc | hc | hc | hc | hc | hc | hc | hc
  · exact p _ hf hc
  · subst hc; decide
  · exact p _ hd hc
  · subst hc; decide
  · exact p _ ht hc
  · subst hc; decide
  · exact p _ ho hc
  · subst hc; decide
  · subst hc; decide
  · subst hc; decide
  · subst hc; decide

theorem stripTrail_mountLine (fsname dir type opts : List Byte) :
    stripTrail (mountLine fsname dir type opts) = mountLine fsname dir type opts := by
  have e : mountLine fsname dir type opts = (fsname ++ 32 :: (dir ++ 32 :: (type ++ 32 :: (opts ++ [32, 48, 32])))) ++ [48] := by
    unfold mountLine; simp
  unfold stripTrail
  rw [e, List.reverse_append]
  simp only [List.reverse_cons, List.reverse_nil, List.nil_append, List.singleton_append]
  rw [List.dropWhile_cons]
  have : isBlank 48 = false := by decide
  rw [this]
  simp

/-- a well-formed line of /proc/mounts (plain fields, not a comment, fits the buffer) is delivered by getmntent_r
as exactly its directory, type and option fields, and the stream continues behind its newline -/
theorem nextEnt_mountLine (bufsiz fuel : Nat) (fsname dir type opts rest : List Byte) (hf : PlainField fsname)
    (hd : PlainField dir) (ht : PlainField type) (ho : PlainField opts) (hc : ∀ t, fsname ≠ 35 :: t)
    (hlen : (mountLine fsname dir type opts).length + 1 ≤ bufsiz - 1) :
    nextEnt bufsiz (fuel + 1) (mountLine fsname dir type opts ++ 10 :: rest) =
      some ({ dir := dir, type := type, opts := opts }, rest) := by
  have hm := mountLine_mem fsname dir type opts hf hd ht ho
  have hne : mountLine fsname dir type opts ++ 10 :: rest ≠ [] := by simp
  have hz : ∀ c ∈ mountLine fsname dir type opts ++ [10], c ≠ 0 := by
    intro c hc
    rcases List.mem_append.mp hc with hc | hc
    · exact (hm c hc).2
    · simp at hc; subst hc; decide
  have hml : mntLine bufsiz (mountLine fsname dir type opts ++ 10 :: rest) = (mountLine fsname dir type opts, rest) := by
    unfold mntLine
    simp only []
    rw [fgets_line bufsiz _ rest (fun c hc => (hm c hc).1) hlen]
    simp only []
    rw [cstr_nonzero _ hz]
    have hcont : (mountLine fsname dir type opts ++ [10]).contains 10 = true := by simp
    rw [if_pos hcont, chopNl_line _ [] (fun c hc => (hm c hc).1), stripTrail_mountLine]
  rw [nextEnt, if_neg hne, hml]
  simp only []
  have hdw : (mountLine fsname dir type opts).dropWhile isBlank = mountLine fsname dir type opts := by
    unfold mountLine; exact dropWhile_blank_plain fsname hf _
  rw [hdw]
  obtain ⟨c, t, e, _, _⟩ := plain_head fsname hf (32 :: (dir ++ 32 :: (type ++ 32 :: (opts ++ [32, 48, 32, 48]))))
  have e' : mountLine fsname dir type opts = c :: t := e
  have hc35 : c ≠ 35 := by
    intro h
    cases fsname with
    | nil => exact absurd rfl hf.1
    | cons x xs =>
      simp only [List.cons_append, List.cons.injEq] at e
      exact hc xs (by rw [e.1, h])
  rw [e']
  simp only [hc35, if_false]
  rw [← e', parseEnt_mountLine fsname dir type opts hf hd ht ho]

/-- one line of /proc/mounts before rendering -/
structure MntRaw where
  fsname : List Byte
  dir : List Byte
  type : List Byte
  opts : List Byte

def MntRaw.Ok (bufsiz : Nat) (r : MntRaw) : Prop :=
  PlainField r.fsname ∧ PlainField r.dir ∧ PlainField r.type ∧ PlainField r.opts ∧ (∀ t, r.fsname ≠ 35 :: t) ∧
  (mountLine r.fsname r.dir r.type r.opts).length + 1 ≤ bufsiz - 1

def MntRaw.ent (r : MntRaw) : MntEnt := { dir := r.dir, type := r.type, opts := r.opts }

/-- the file the kernel prints for these mounts -/
def renderMounts : List MntRaw → List Byte
  | [] => []
  | r :: rs => mountLine r.fsname r.dir r.type r.opts ++ 10 :: renderMounts rs

/-- on a well-formed /proc/mounts getmntent_r delivers exactly the kernel's entries, in order -/
theorem entries_renderMounts (bufsiz : Nat) : ∀ (rs : List MntRaw) (fuel : Nat), rs.length < fuel →
    (∀ r ∈ rs, r.Ok bufsiz) → entries bufsiz fuel (renderMounts rs) = rs.map MntRaw.ent
  | [], fuel, hf, _ => by
    cases fuel with
    | zero => omega
    | succ f => simp [renderMounts, entries, nextEnt]
  | r :: rs, fuel, hf, hwf => by
    cases fuel with
    | zero => omega
    | succ f =>
      have hf' : rs.length < f := by simp only [List.length_cons] at hf; omega
      obtain ⟨h1, h2, h3, h4, h5, h6⟩ := hwf r (List.mem_cons_self)
      rw [renderMounts, entries, nextEnt_mountLine bufsiz _ r.fsname r.dir r.type r.opts _ h1 h2 h3 h4 h5 h6]
      simp only [List.map_cons]
      rw [entries_renderMounts bufsiz rs f hf' (fun x hx => hwf x (List.mem_cons_of_mem _ hx))]
      rfl

theorem renderMounts_length_ge : ∀ rs : List MntRaw, rs.length ≤ (renderMounts rs).length
  | [] => by simp [renderMounts]
  | r :: rs => by
    have := renderMounts_length_ge rs
    simp only [renderMounts, List.length_cons, List.length_append]; omega

/-! ### the scan terminates -/

theorem discardLine_le : ∀ (fuel : Nat) (s : List Byte), (discardLine fuel s).length ≤ s.length
  | 0, s => by rw [discardLine]; omega
  | fuel+1, s => by
    rw [discardLine]
    split
    · simp
    · split
      · exact fgets_rest_le 1024 s
      · have h1 := discardLine_le fuel (fgets 1024 s).2
        have h2 := fgets_rest_le 1024 s
        omega

theorem mntLine_progress (bufsiz : Nat) (hb : 2 ≤ bufsiz) (s : List Byte) (hs : s ≠ []) :
    (mntLine bufsiz s).2.length < s.length := by
  have hp := fgets_progress bufsiz hb s hs
  unfold mntLine
  simp only []
  split
  · exact hp
  · have := discardLine_le ((fgets bufsiz s).2.length + 1) (fgets bufsiz s).2
    simp only []; omega

theorem nextEnt_rest (bufsiz : Nat) (hb : 2 ≤ bufsiz) : ∀ (fuel : Nat) (s : List Byte) (e : MntEnt) (r : List Byte),
    nextEnt bufsiz fuel s = some (e, r) → r.length < s.length
  | 0, _, _, _, h => by cases h
  | fuel+1, s, e, r, h => by
    rw [nextEnt] at h
    split at h
    · cases h
    · rename_i hs
      have hp := mntLine_progress bufsiz hb s hs
      simp only [] at h
      split at h
      · have := nextEnt_rest bufsiz hb fuel _ e r h; omega
      · split at h
        · have := nextEnt_rest bufsiz hb fuel _ e r h; omega
        · injection h with h; injection h with _ h; rw [← h]; exact hp

theorem nextEnt_fuel (bufsiz : Nat) (hb : 2 ≤ bufsiz) : ∀ (f1 f2 : Nat) (s : List Byte), s.length < f1 → s.length < f2 →
    nextEnt bufsiz f1 s = nextEnt bufsiz f2 s
  | 0, _, _, h, _ => by omega
  | _+1, 0, _, _, h => by omega
  | f1+1, f2+1, s, h1, h2 => by
    rw [nextEnt, nextEnt]
    by_cases hs : s = []
    · simp [hs]
    · rw [if_neg hs, if_neg hs]
      have hp := mntLine_progress bufsiz hb s hs
      have ih := nextEnt_fuel bufsiz hb f1 f2 (mntLine bufsiz s).2 (by omega) (by omega)
      simp only []
      split
      · exact ih
      · split
        · exact ih
        · rfl

/-- the /proc/mounts scan ends: the fuel `length+1` that `findMntpnt` passes is enough, more changes nothing -/
theorem mntLoop_fuel (fs : FS) (bufsiz : Nat) (hb : 2 ≤ bufsiz) : ∀ (f1 f2 : Nat) (s : List Byte), s.length < f1 → s.length < f2 →
    mntLoop fs bufsiz f1 s = mntLoop fs bufsiz f2 s
  | 0, _, _, h, _ => by omega
  | _+1, 0, _, _, h => by omega
  | f1+1, f2+1, s, h1, h2 => by
    rw [mntLoop, mntLoop]
    cases hn : nextEnt bufsiz (s.length + 1) s with
    | none => rfl
    | some er =>
      obtain ⟨e, rest⟩ := er
      simp only []
      have hr := nextEnt_rest bufsiz hb _ s e rest hn
      cases entMatch fs e with
      | some r => rfl
      | none => exact mntLoop_fuel fs bufsiz hb f1 f2 rest (by omega) (by omega)

/-! ### hwloc_admin_disable_set_from_cgroup, hwloc_linux__get_allowed_resources -/

/-- nothing is intersected: the previous content of the set never matters (it is replaced by the list read
from the file, or filled when the file cannot be read) -/
theorem adminDisable_replaces (fs : FS) (t : CgType) (mnt name attr : List Byte) (s s' : Bitmap) :
    adminDisable fs t mnt name attr s = adminDisable fs t mnt name attr s' := by
  unfold adminDisable
  cases fs (cpusetPath t mnt name attr) with
  | none => rfl
  | some c => rfl

theorem adminDisable_missing (fs : FS) (t : CgType) (mnt name attr : List Byte) (s : Bitmap)
    (h : fs (cpusetPath t mnt name attr) = none) : adminDisable fs t mnt name attr s = some s.fill := by
  unfold adminDisable; rw [h]

theorem adminDisable_file (fs : FS) (t : CgType) (mnt name attr c : List Byte) (s : Bitmap)
    (h : fs (cpusetPath t mnt name attr) = some c) : adminDisable fs t mnt name attr s = cpulist s c := by
  unfold adminDisable; rw [h]

/-- without a mount point or without a cgroup name both allowed sets stay as they were -/
theorem getAllowed_untouched (acc : List Byte → Bool) (fs : FS) (bufsiz : Nat) (cpus mems : Bitmap)
    (h : findMntpnt acc fs bufsiz (fs (str "/proc/mounts")) = none ∨
         cgroupName (fs (str "/proc/self/cpuset")) (fs (str "/proc/self/cgroup")) = none) :
    getAllowed acc fs bufsiz cpus mems = { name := none, cpus := some cpus, mems := some mems } := by
  unfold getAllowed
  rcases h with h | h
  · rw [h]
  · cases findMntpnt acc fs bufsiz (fs (str "/proc/mounts")) with
    | none => rfl
    | some tm => obtain ⟨t, m⟩ := tm; simp only []; rw [h]

/-- otherwise both sets are replaced through the SAME (type, mount point, cgroup name) triple -/
theorem getAllowed_found (acc : List Byte → Bool) (fs : FS) (bufsiz : Nat) (cpus mems : Bitmap)
    (t : CgType) (mnt name : List Byte)
    (hm : findMntpnt acc fs bufsiz (fs (str "/proc/mounts")) = some (t, mnt))
    (hn : cgroupName (fs (str "/proc/self/cpuset")) (fs (str "/proc/self/cgroup")) = some name) :
    getAllowed acc fs bufsiz cpus mems =
      { name := some name, cpus := adminDisable fs t mnt name (str "cpus") cpus,
        mems := adminDisable fs t mnt name (str "mems") mems } := by
  unfold getAllowed
  rw [hm]; simp only []; rw [hn]

/-- /proc/self/cpuset wins: when it holds at least one byte the name is its first line (at most 127 bytes, up
to the first NUL), whatever /proc/self/cgroup says -/
theorem cgroupName_cpuset_file (c : List Byte) (hc : c ≠ []) (cg : Option (List Byte)) :
    cgroupName (some c) cg = some (chopNl (cstr (c.take 127))) := by
  unfold cgroupName readPath
  have : readByLength cpusetNameLen c = some (c.take 127) := by
    unfold readByLength readBytes cpusetNameLen
    have : List.take (128 - 1) c ≠ [] := by
      cases c with
      | nil => exact absurd rfl hc
      | cons x xs => simp
    rw [if_neg this]
  simp only [Option.bind_some, this]

theorem cgroupName_length (a b : Option (List Byte)) (p : List Byte) (h : cgroupName a b = some p) : p.length ≤ 255 := by
  unfold cgroupName at h
  split at h
  · rename_i buf hb
    injection h with h; subst h
    obtain ⟨c, _, _, _, hl⟩ := readPath_some _ _ _ hb
    have h1 := chopNl_length_le (cstr buf)
    have h2 := cstr_length_le buf
    unfold cpusetNameLen at hl; omega
  · split at h
    · cases h
    · have := cgLoop_length _ _ _ h
      unfold cgroupLineLen at this; omega

end Hw.LinuxCgroup
