/-
  Hw.Io.BindLinux — the Linux binding hooks of hwloc/topology-linux.c as far as the C10 harness observes
  them: which libc / syscall entry points a hook ends in, with which masks, and how the kernel's answers
  are turned into the hook's result.  The kernel is an INPUT: a script of answers (`ok` or an errno, the last
  entry repeats) plus the data a successful get-call returns (`km` mask, `kp` policy, `ks` page status).

  Scope (stated as assumptions of the correspondence): a single-threaded process (so /proc/<pid>/task holds
  exactly the main thread), thread arguments equal to pthread_self(), page-aligned area addresses, the
  process-wide caches of hwloc_linux_find_kernel_nr_cpus / _max_numnodes already filled (`nrcpus`,
  `maxnodes`).  The two `preferred_many_notsupported` statics are modelled (`pmThread`, `pmArea`).
-/
import Hw.Io.Bind
namespace Hw.Bind.Linux
open Hw.Bind Hw.Gen.BindConsts

/-- a kernel answer -/
inductive K
  | ok | err (e : Errno)
  deriving DecidableEq, Repr, Inhabited

/-- an observed libc / syscall entry (printed by the driver exactly as the harness prints it) -/
inductive Sys
  | sa (tid : Nat) (mask : Nat)                       -- sched_setaffinity
  | ga (tid : Nat) (size : Nat)                       -- sched_getaffinity
  | sm (mode : Int) (mask : Option Nat) (maxnode : Nat)   -- set_mempolicy
  | gm (maxnode : Nat) (addr : Bool) (flags : Nat)    -- get_mempolicy
  | mb (len : Nat) (mode : Int) (mask : Option Nat) (maxnode : Nat) (flags : Nat)   -- mbind
  | mg (maxnode : Nat) (old new : Nat)                -- migrate_pages
  | mp (count : Nat)                                  -- move_pages
  deriving DecidableEq, Repr

/-- thread ids as the harness names them: 0 = "0" (calling thread), 1 = "self" (getpid()), 2 = "bad" -/
abbrev tidZero : Nat := 0
abbrev tidSelf : Nat := 1
abbrev tidBad : Nat := 2

structure World where
  script : List K := [.ok]
  km : Nat := 0
  kp : Int := 0
  ks : Int := 0
  slog : List Sys := []
  pmThread : Int := -1
  pmArea : Int := -1
  nrcpus : Nat := 64
  maxnodes : Nat := 64
  tpid : Bool := false
  deriving Repr

/-- kernel constants (Linux ABI, also #defined in topology-linux.c) -/
def MPOL_DEFAULT : Int := 0
def MPOL_PREFERRED : Int := 1
def MPOL_BIND : Int := 2
def MPOL_INTERLEAVE : Int := 3
def MPOL_LOCAL : Int := 4
def MPOL_PREFERRED_MANY : Int := 5
def MPOL_WEIGHTED_INTERLEAVE : Int := 6
def MPOL_MF_STRICT : Nat := 1
def MPOL_MF_MOVE : Nat := 2
def MPOL_F_ADDR : Nat := 2
def pageSize : Nat := 4096

/-- one interposed call: log it, consume one kernel answer (the last one repeats) -/
def sys (c : Sys) (w : World) : K × World :=
  match w.script with
  | [] => (.ok, { w with slog := w.slog ++ [c] })
  | [k] => (k, { w with slog := w.slog ++ [c] })
  | k :: rest => (k, { w with slog := w.slog ++ [c], script := rest })

def kret (k : K) : Ret :=
  match k with
  | .ok => okRet
  | .err e => failRet e

/-- index of the highest set bit + 1 (0 for the empty set) -/
def bitLen (n : Nat) : Nat := if n = 0 then 0 else Nat.log2 n + 1

def lowMask (n : Nat) : Nat := 2 ^ n - 1

/-- hwloc_linux_set_tid_cpubind -/
def setTid (tid : Nat) (set : Nat) (w : World) : Ret × World :=
  if set = 0 then (failRet .einval, w)
  else let r := sys (.sa tid set) w; (kret r.1, r.2)

/-- hwloc_linux_get_tid_cpubind: the kernel mask cut at the last CPU of the complete cpuset -/
def getTid (t : Topo) (tid : Nat) (w : World) : Ret × World :=
  let r := sys (.ga tid (w.nrcpus / 8)) w
  match r.1 with
  | .err e => (failRet e, r.2)
  | .ok =>
    let n := if t.completeCpuset = 0 then w.nrcpus else bitLen t.completeCpuset
    ({ rc := 0, set := (w.km % 2 ^ w.nrcpus) &&& lowMask n }, r.2)

/-- the pid a *_proc_* hook works on: 0 is replaced by topology->pid -/
def procPid (w : World) (pid : Nat) : Nat := if pid = 0 then (if w.tpid then tidSelf else tidZero) else pid

/-- hwloc_linux_foreach_proc_tid over a single-threaded process: `none` = the task directory does not exist -/
def procTid (pid : Nat) : Option Nat := if pid = tidBad then none else some tidSelf

/-- hwloc_linux_membind_policy_from_hwloc -/
def policyFromHwloc (policy : Int) (flags : Nat) : Option Int :=
  if policy = membindDefault then some MPOL_DEFAULT
  else if policy = membindFirsttouch then some MPOL_LOCAL
  else if policy = membindBind then
    (if flags &&& membindStrict ≠ 0 then some MPOL_BIND else some MPOL_PREFERRED_MANY)
  else if policy = membindInterleave then some MPOL_INTERLEAVE
  else if policy = membindWeightedInterleave then some MPOL_WEIGHTED_INTERLEAVE
  else none

/-- hwloc_linux_membind_policy_to_hwloc -/
def policyToHwloc (lp : Int) : Option Int :=
  if lp = MPOL_DEFAULT ∨ lp = MPOL_LOCAL then some membindFirsttouch
  else if lp = MPOL_PREFERRED ∨ lp = MPOL_PREFERRED_MANY ∨ lp = MPOL_BIND then some membindBind
  else if lp = MPOL_INTERLEAVE then some membindInterleave
  else if lp = MPOL_WEIGHTED_INTERLEAVE then some membindWeightedInterleave
  else none

/-- hwloc_linux_membind_mask_from_nodeset: max_os_index (a multiple of 64) for a finite nodeset -/
def maxOsIndex (nodeset : Nat) : Nat :=
  let last := if nodeset = 0 then 0 else Nat.log2 nodeset
  (last + 1 + 63) / 64 * 64

/-- `memset(fullmask, 0xf, n)`: n bytes 0x0f -/
def fullMask (bytes : Nat) : Nat := (List.range bytes).foldl (fun acc i => acc + 0x0f * 256 ^ i) 0

/-- the common tail of set_thisthread_membind / set_area_membind once the policy needs a mask.
`call mode` issues the policy-setting syscall; `pm` is the preferred_many_notsupported static. -/
def setWithMask (call : Int → World → K × World) (lp : Int) (pm : Int) (w : World) : Ret × Int × World :=
  let r := call lp w
  if lp = MPOL_PREFERRED_MANY ∧ pm = -1 then
    match r.1 with
    | .ok => (okRet, 0, r.2)
    | .err e =>
      if e = .einval then
        let r2 := call MPOL_PREFERRED r.2
        match r2.1 with
        | .ok => (okRet, 1, r2.2)
        | .err e2 => (failRet e2, pm, r2.2)
      else (failRet e, pm, r.2)
  else (kret r.1, pm, r.2)

/-- hwloc_linux_set_thisthread_membind -/
def setThisthreadMembind (t : Topo) (a : Args) (w : World) : Ret × World :=
  match policyFromHwloc a.policy a.flags with
  | none => (failRet .enosys, w)
  | some lp0 =>
    let lp := if w.pmThread = 1 ∧ lp0 = MPOL_PREFERRED_MANY then MPOL_PREFERRED else lp0
    if lp = MPOL_DEFAULT then
      let r := sys (.sm lp none 0) w; (kret r.1, r.2)
    else if lp = MPOL_LOCAL then
      if a.set ≠ t.completeNodeset then (failRet .exdev, w)
      else let r := sys (.sm MPOL_PREFERRED none 0) w; (kret r.1, r.2)
    else
      let mx := maxOsIndex a.set
      let go := fun (w : World) =>
        let r := setWithMask (fun m w => sys (.sm m (some a.set) (mx + 1)) w) lp w.pmThread w
        (r.1, { r.2.2 with pmThread := r.2.1 })
      if a.flags &&& membindMigrate ≠ 0 then
        let r := sys (.mg (mx + 1) (fullMask (mx / 8)) a.set) w
        match r.1 with
        | .err e => if a.flags &&& membindStrict ≠ 0 then (failRet e, r.2) else go r.2
        | .ok => go r.2
      else go w

/-- hwloc_linux_set_area_membind (page-aligned address) -/
def setAreaMembind (t : Topo) (a : Args) (w : World) : Ret × World :=
  match policyFromHwloc a.policy a.flags with
  | none => (failRet .enosys, w)
  | some lp0 =>
    let lp := if w.pmArea = 1 ∧ lp0 = MPOL_PREFERRED_MANY then MPOL_PREFERRED else lp0
    if lp = MPOL_DEFAULT then
      let r := sys (.mb a.len lp none 0 0) w; (kret r.1, r.2)
    else if lp = MPOL_LOCAL then
      if a.set ≠ t.completeNodeset then (failRet .exdev, w)
      else let r := sys (.mb a.len MPOL_PREFERRED none 0 0) w; (kret r.1, r.2)
    else
      let mx := maxOsIndex a.set
      let lf := if a.flags &&& membindMigrate ≠ 0 then
                  MPOL_MF_MOVE ||| (if a.flags &&& membindStrict ≠ 0 then MPOL_MF_STRICT else 0)
                else 0
      let r := setWithMask (fun m w => sys (.mb a.len m (some a.set) (mx + 1) lf) w) lp w.pmArea w
      (r.1, { r.2.2 with pmArea := r.2.1 })

/-- the (policy, mask) a successful get_mempolicy yields, after the "PREFERRED + empty mask = LOCAL" rule -/
def kernelPolicy (w : World) : Int × Nat :=
  let mask := w.km % 2 ^ w.maxnodes
  (if w.kp = MPOL_PREFERRED ∧ mask = 0 then MPOL_LOCAL else w.kp, mask)

/-- hwloc_linux_get_thisthread_membind -/
def getThisthreadMembind (t : Topo) (w : World) : Ret × World :=
  let r := sys (.gm w.maxnodes false 0) w
  match r.1 with
  | .err e => (failRet e, r.2)
  | .ok =>
    let (lp, mask) := kernelPolicy w
    let ns := if lp = MPOL_DEFAULT ∨ lp = MPOL_LOCAL then t.topologyNodeset else mask
    match policyToHwloc lp with
    | none => (failRet .einval, r.2)
    | some p => ({ rc := 0, set := ns, policy := p }, r.2)

/-- the per-page loop of hwloc_linux_get_area_membind; every successful page yields the same answer -/
def areaPages : Nat → World → Option Errno × World
  | 0, w => (none, w)
  | n + 1, w =>
    let r := sys (.gm w.maxnodes true MPOL_F_ADDR) w
    match r.1 with
    | .err e => (some e, r.2)
    | .ok => areaPages n r.2

def getAreaMembind (t : Topo) (a : Args) (w : World) : Ret × World :=
  let pages := (a.len + pageSize - 1) / pageSize
  let r := areaPages pages w
  match r.1 with
  | some e => (failRet e, r.2)
  | none =>
    let (lp, mask) := kernelPolicy w
    match policyToHwloc lp with
    | none => (failRet .einval, r.2)
    | some p =>
      let full := lp = MPOL_DEFAULT ∨ lp = MPOL_LOCAL
      ({ rc := 0, set := if full then t.topologyNodeset else mask, policy := p }, r.2)

/-- hwloc_linux_get_area_memlocation -/
def getAreaMemlocation (a : Args) (w : World) : Ret × World :=
  let count := (a.len + pageSize - 1) / pageSize
  let r := sys (.mp count) w
  match r.1 with
  | .err e => (failRet e, r.2)
  | .ok => ({ rc := 0, set := if w.ks ≥ 0 then 1 <<< w.ks.toNat else 0 }, r.2)

/-- which hooks hwloc_set_linuxfs_hooks installs is an input (`native` line); this is their behaviour -/
def run (t : Topo) (h : Hook) (a : Args) (w : World) : Ret × World :=
  match h with
  | .setThisprocCpubind => setTid tidSelf a.set w
  | .getThisprocCpubind => getTid t tidSelf w
  | .setThisthreadCpubind | .setThreadCpubind => if w.tpid then (failRet .enosys, w) else setTid tidZero a.set w
  | .getThisthreadCpubind | .getThreadCpubind => if w.tpid then (failRet .enosys, w) else getTid t tidZero w
  | .setProcCpubind =>
    let pid := procPid w a.pid
    if a.flags &&& cpubindThread ≠ 0 then setTid pid a.set w
    else match procTid pid with
      | none => (failRet .einval, w)
      | some tid => setTid tid a.set w
  | .getProcCpubind =>
    let pid := procPid w a.pid
    if a.flags &&& cpubindThread ≠ 0 then getTid t pid w
    else match procTid pid with
      | none => (failRet .einval, w)
      | some tid => getTid t tid w
  -- last-CPU locations read /proc or sched_getcpu: the location itself is not predicted (rc only)
  | .getThisprocLastCpu => (okRet, w)
  | .getThisthreadLastCpu => if w.tpid then (failRet .enosys, w) else (okRet, w)
  | .getProcLastCpu =>
    let pid := procPid w a.pid
    if a.flags &&& cpubindThread ≠ 0 then (if pid = tidBad then (failRet .enosys, w) else (okRet, w))
    else (if pid = tidBad then (failRet .einval, w) else (okRet, w))
  | .setThisthreadMembind => setThisthreadMembind t a w
  | .getThisthreadMembind => getThisthreadMembind t w
  | .setAreaMembind => setAreaMembind t a w
  | .getAreaMembind => getAreaMembind t a w
  | .getAreaMemlocation => getAreaMemlocation a w
  | .alloc => if a.len = 0 then (failRet .einval, w) else (okRet, w)            -- mmap
  | .allocMembind =>
    if a.len = 0 then (failRet .einval, w)
    else
      let r := setAreaMembind t a w
      if r.1.rc < 0 ∧ a.flags &&& membindStrict ≠ 0 then (failRet r.1.err, r.2) else (okRet, r.2)
  | .freeMembind => (okRet, w)                                                   -- munmap
  -- not provided by Linux
  | .setThisprocMembind | .getThisprocMembind | .setProcMembind | .getProcMembind => (failRet .enosys, w)

/-! The mask a Linux cpubind hook hands to sched_setaffinity is the set bind.c handed to the hook. -/

theorem setTid_logs_exactly (tid set : Nat) (w : World) (h : set ≠ 0) :
    (setTid tid set w).2.slog = w.slog ++ [Sys.sa tid set] := by
  unfold setTid sys
  simp only [h, if_false]
  cases hs : w.script with
  | nil => rfl
  | cons k rest => cases rest <;> rfl

end Hw.Bind.Linux
