/-
  Hw.Io.Shmem — model of hwloc/shmem.c (shared-memory topologies) and of the `adopted_shmem_addr`
  guards in topology.c / distances.c / diff.c.

  What is modelled (source order is kept inside every decision function):
    * `(length + ALIGN - 1) & ~(ALIGN - 1)`           → `roundUpC` (literal 64-bit form) and `roundUp` (its meaning)
    * tma_get_length_malloc (counting pass)            → `countFrom`
    * tma_shmem_malloc (bump pass)                     → `bump`, `bumpEnd`
    * hwloc_shmem_topology_get_length                  → `getLengthDecision`, `getLength`
    * struct hwloc_shmem_header, header_length padding → `Header`, `mkHeader`, `headerLength` (constants from the translator)
    * hwloc_shmem_topology_write                       → `writeDecision`, `World.write`
    * hwloc_shmem_topology_adopt                       → `adoptDecision`, `World.adopt`, the adopted state `Adopted`
    * hwloc_topology_destroy on an adopted topology    → `World.destroy` (hwloc__topology_disadopt: munmap)
    * the EPERM guards                                 → `Hw.Gen.Shmem.guards` (generated), `guardResult`, `stepAdopted`
    * hwloc_topology_allow                             → `allowDecision`, `allowApply` (on the private copies made by adopt)
  The OS enters through `Mmap` (mmap fails / returns some address) and `Space` (occupied address ranges):
  mmap without MAP_FIXED returns the hint iff the range is free.
-/
import Hw.Gen.ShmemGuards
import Hw.Topo.Types
namespace Hw.Shmem
open Hw.Gen.Shmem (Guard Pre guards)

deriving instance DecidableEq for Hw.Topo.Dump

/-! ### constants (regenerated from hwloc/shmem.c on every check) -/
def ALIGN : Nat := Hw.Gen.Shmem.mallocAlign
def HEADER_VERSION : Nat := Hw.Gen.Shmem.headerVersion
def HEADER_SIZE : Nat := Hw.Gen.Shmem.headerSizeof
def PTR : Nat := Hw.Gen.Shmem.pointerSize

/-- meaning of `(n + a - 1) & ~(a - 1)` for a power of two `a` when nothing wraps -/
def roundUp (a n : Nat) : Nat := (n + a - 1) / a * a

/-- the literal C expression on a 64-bit `size_t`/`unsigned long`: `(n + a - 1) & ~(a - 1)` -/
def roundUpC (a n : Nat) : Nat := ((n + a - 1) % 2 ^ 64) &&& (2 ^ 64 - 1 - (a - 1))

def align8 (n : Nat) : Nat := roundUp ALIGN n
/-- `uint32_t header_length = (sizeof(header) + sizeof(void*) - 1) & ~(sizeof(void*) - 1)` -/
def headerLength : Nat := roundUp PTR HEADER_SIZE

/-! ### the two allocators over a trace of requested sizes -/

/-- tma_get_length_malloc: `*tma_length += align8 length` for every request -/
def countFrom (acc : Nat) (ss : List Nat) : Nat := ss.foldl (fun a s => a + align8 s) acc

structure Block where
  addr : Nat
  size : Nat
deriving Repr, DecidableEq, Inhabited

/-- tma_shmem_malloc: return the cursor, advance it by `align8 length` -/
def bump : Nat → List Nat → List Block
  | _, [] => []
  | cur, s :: ss => ⟨cur, s⟩ :: bump (cur + align8 s) ss

def bumpEnd : Nat → List Nat → Nat
  | cur, [] => cur
  | cur, s :: ss => bumpEnd (cur + align8 s) ss

/-- `*lengthp = (sizeof(struct hwloc_shmem_header) + length + pagesize - 1) & ~(pagesize - 1)` -/
def getLength (ps : Nat) (ss : List Nat) : Nat := roundUp ps (HEADER_SIZE + countFrom 0 ss)

/-- bytes of the segment that `write` may touch: header + everything the bump pass hands out -/
def usedBytes (ss : List Nat) : Nat := bumpEnd headerLength ss

/-! ### errors, header, mmap -/

inductive Err | ok | einval | ebusy | eperm | enosys | sys
deriving Repr, DecidableEq, Inhabited

def Err.toString : Err → String
  | .ok => "ok" | .einval => "EINVAL" | .ebusy => "EBUSY" | .eperm => "EPERM" | .enosys => "ENOSYS" | .sys => "fail"

structure Header where
  version : Nat
  hlen : Nat
  addr : Nat
  len : Nat
deriving Repr, DecidableEq, Inhabited

/-- the header `write` stores at the file offset -/
def mkHeader (addr len : Nat) : Header := ⟨HEADER_VERSION, headerLength, addr, len⟩

/-- the four comparisons of adopt (EINVAL when one differs) -/
def headerOk (h : Header) (addr len : Nat) : Bool :=
  h.version == HEADER_VERSION && h.hlen == headerLength && h.addr == addr && h.len == len

/-- outcome of the `mmap(addr, len, …, MAP_SHARED, fd, off)` call (no MAP_FIXED) -/
inductive Mmap | failed | at (a : Nat)
deriving Repr, DecidableEq, Inhabited

/-- hwloc_shmem_topology_get_length: only the flags can be refused -/
def getLengthDecision (flags : Nat) : Err := if flags ≠ 0 then .einval else .ok

/-- hwloc_shmem_topology_write in source order.  `ioOk` = lseek, write(header), ftruncate all succeeded. -/
def writeDecision (flags : Nat) (ioOk : Bool) (addr : Nat) (mm : Mmap) : Err :=
  if flags ≠ 0 then .einval
  else if !ioOk then .sys
  else match mm with
    | .failed => .sys
    | .at a => if a ≠ addr then .ebusy else .ok

/-- hwloc_shmem_topology_adopt in source order.  `hdr = none`: lseek failed or the read was short
    (the function returns -1 with whatever errno the kernel left). -/
def adoptDecision (flags : Nat) (hdr : Option Header) (addr len : Nat) (mm : Mmap) (abiOk : Bool) : Err :=
  if flags ≠ 0 then .einval
  else match hdr with
    | none => .sys
    | some h =>
      if !headerOk h addr len then .einval
      else match mm with
        | .failed => .sys
        | .at a => if a ≠ addr then .ebusy else if !abiOk then .einval else .ok

/-! ### address space (trusted OS model) -/

abbrev Space := List (Nat × Nat)          -- occupied ranges (start, length)

def rangesDisjoint (a la b lb : Nat) : Bool := a + la ≤ b || b + lb ≤ a

def Space.isFree (sp : Space) (addr len : Nat) : Bool := sp.all (fun r => rangesDisjoint addr len r.1 r.2)

/-- mmap with a hint and no MAP_FIXED: the hint when the range is free, some other address otherwise -/
def Space.mmap (sp : Space) (addr len : Nat) : Mmap := if sp.isFree addr len then .at addr else .at (addr + len + 1)

def Space.unmap (sp : Space) (addr len : Nat) : Space := sp.filter (fun r => !(r.1 == addr && r.2 == len))

/-! ### what is stored, what is adopted -/

/-- observable content of a topology: the canonical dump plus the canonical texts the harness compares
    (XML export, distances, memory attributes, CPU kinds, topology infos) -/
structure Content where
  dump : Hw.Topo.Dump
  aux : List (String × String)
  infos : List (String × String)
deriving DecidableEq, Inhabited

def Content.flags (c : Content) : Nat := c.dump.flags
def Content.miscFilter (c : Content) : Nat := c.dump.filters.getD Hw.Topo.tMISC 0
def Content.rootCpuset (c : Content) : Nat := ((c.dump.obj? c.dump.root).bind (·.cpuset)).getD 0
def Content.rootNodeset (c : Content) : Nat := ((c.dump.obj? c.dump.root).bind (·.nodeset)).getD 0

structure Image where
  hdr : Header
  abi : Nat
  content : Content
  used : Nat                 -- bytes of the segment touched by write
  memattrsCached : Bool      -- HWLOC_IMATTR_FLAG_CACHE_VALID in the duplicate (write refreshes the memattrs of the copy: true)
deriving DecidableEq, Inhabited

/-- an adopted topology: `content` lives in the read-only mapping, the rest in private memory -/
structure Adopted where
  addr : Nat
  len : Nat
  content : Content
  infos : List (String × String)     -- private copy made by adopt (hwloc__tma_dup_infos(NULL, …))
  userdata : Nat                     -- field of the private struct copy
  memattrsCached : Bool
  allowedInMapping : Bool            -- allowed_cpuset/allowed_nodeset still point into the mapping (adopt makes private copies: false)
  allowedCpuset : Nat
  allowedNodeset : Nat
deriving DecidableEq, Inhabited

/-- the ABI number of this build (`HWLOC_TOPOLOGY_ABI`); its value is irrelevant to the model -/
def thisAbi : Nat := 0x30000

structure World where
  file : List (Nat × Image) := []     -- file offset ↦ segment written there (latest first)
  space : Space := []                 -- occupied address ranges of the process
  live : List (Nat × Adopted) := []   -- handles of adopted topologies
  next : Nat := 0
deriving Inhabited

def World.segment (w : World) (off : Nat) : Option Image := (w.file.find? (fun r => r.1 == off)).map (·.2)

/-- header found by `read(fd, &header, sizeof header)` at `off`; outside written segments the file holds zeroes
    (holes / ftruncate padding), beyond its end the read is short -/
def World.fileSize (w : World) : Nat := w.file.foldl (fun m r => max m (r.1 + r.2.hdr.len)) 0
def World.readHeader (w : World) (off : Nat) : Option Header :=
  match w.segment off with
  | some img => some img.hdr
  | none => if off + HEADER_SIZE ≤ w.fileSize then some ⟨0, 0, 0, 0⟩ else none

/-- hwloc_shmem_topology_write.  The temporary mapping is released before returning, so `space` is unchanged;
    `ftruncate(fd, off+len)` cuts everything behind the new segment, earlier segments that end before `off` survive. -/
def World.write (w : World) (t : Content) (ss : List Nat) (off addr len flags : Nat) : Err × World :=
  match writeDecision flags true addr (w.space.mmap addr len) with
  | .ok =>
    let img : Image := { hdr := mkHeader addr len, abi := thisAbi, content := t, used := usedBytes ss, memattrsCached := true }
    (.ok, { w with file := (off, img) :: w.file.filter (fun r => r.1 + r.2.hdr.len ≤ off) })
  | e => (e, w)

def adoptState (img : Image) (addr len : Nat) : Adopted :=
  { addr := addr, len := len, content := img.content, infos := img.content.infos, userdata := 0,
    memattrsCached := img.memattrsCached, allowedInMapping := false,
    allowedCpuset := img.content.dump.allowedCpuset.getD 0, allowedNodeset := img.content.dump.allowedNodeset.getD 0 }

/-- register a freshly adopted topology: its range becomes occupied, it gets the next handle -/
def World.addLive (w : World) (a : Adopted) : World :=
  { w with space := (a.addr, a.len) :: w.space, live := (w.next, a) :: w.live, next := w.next + 1 }

/-- does the segment at `off` carry this build's ABI number (hwloc_topology_abi_check) -/
def World.abiOk (w : World) (off : Nat) : Bool :=
  match w.segment off with
  | some img => img.abi == thisAbi
  | none => false

/-- hwloc_shmem_topology_adopt; returns the new handle on success -/
def World.adopt (w : World) (off addr len flags : Nat) : Err × Option Nat × World :=
  match adoptDecision flags (w.readHeader off) addr len (w.space.mmap addr len) (w.abiOk off), w.segment off with
  | .ok, some img =>
    (.ok, some w.next, w.addLive (adoptState img addr len))
  | .ok, none => (.sys, none, w)          -- unreachable: a zero header never passes headerOk (proved)
  | e, _ => (e, none, w)

def World.get (w : World) (h : Nat) : Option Adopted := (w.live.find? (fun r => r.1 == h)).map (·.2)

/-- hwloc_topology_destroy on an adopted topology: hwloc__topology_disadopt unmaps [addr, addr+len) -/
def World.destroy (w : World) (h : Nat) : World :=
  match w.get h with
  | none => w
  | some a => { w with space := w.space.unmap a.addr a.len, live := w.live.filter (fun r => r.1 != h) }

/-! ### calls on an adopted topology -/

inductive Outcome
  | ret (e : Err)          -- the call returned with this errno class
  | fault                  -- the call stores into / frees memory of the read-only mapping (SIGSEGV, invalid free)
deriving Repr, DecidableEq, Inhabited

def Outcome.toString : Outcome → String
  | .ret e => e.toString
  | .fault => "FAULT"

def errOfName (s : String) : Err :=
  if s = "EPERM" then .eperm else if s = "EINVAL" then .einval else if s = "EBUSY" then .ebusy
  else if s = "ENOSYS" then .enosys else .sys

/-- evaluate a guarded entry point on an adopted (hence loaded) topology: the preceding checks in source
    order, then the guard itself -/
def preFires (a : Adopted) (foreignDist : Bool) : Pre → Bool
  | .isLoaded => false                                  -- adopt asserts IS_LOADED, the copy keeps `state`
  | .miscFilterNone => a.content.miscFilter == 1        -- HWLOC_TYPE_FILTER_KEEP_NONE
  | .distNotFound => foreignDist                        -- the distances structure passed does not belong to this topology

def guardResult (a : Adopted) (foreignDist : Bool) (g : Guard) : Err :=
  match g.pre.find? (fun p => preFires a foreignDist p.1) with
  | some p => errOfName p.2
  | none => errOfName g.errno

def findGuard (fn : String) : Option Guard := guards.find? (fun g => g.fn == fn)

/-- configuration calls that every loaded topology refuses with EBUSY (checked by the harness, not extracted) -/
def refusedBusy : List String :=
  ["hwloc_topology_load", "hwloc_topology_set_flags", "hwloc_topology_set_type_filter", "hwloc_topology_set_all_types_filter",
   "hwloc_topology_set_synthetic", "hwloc_topology_set_xml", "hwloc_topology_set_xmlbuffer", "hwloc_topology_set_pid",
   "hwloc_topology_set_components"]

/-- every public structure-modifying entry point that receives the topology (hwloc.h, distances.h, memattrs.h,
    cpukinds.h, diff.h).  Not in this list, on purpose: `hwloc_distances_transform` (edits the caller's copy of a
    distances structure only), `hwloc_obj_add_info` / `hwloc_modify_infos` on object infos (no topology argument, so
    they cannot be guarded: objects of an adopted topology are documented as read-only), `hwloc_topology_set_userdata`
    and `hwloc_modify_infos` on the topology infos (fields / a copy private to the adopter). -/
def modifyingEntryPoints : List String :=
  ["hwloc_topology_restrict", "hwloc_topology_insert_misc_object", "hwloc_topology_alloc_group_object",
   "hwloc_topology_free_group_object", "hwloc_topology_insert_group_object", "hwloc_distances_add_create",
   "hwloc_distances_remove", "hwloc_distances_remove_by_depth", "hwloc_distances_release_remove",
   "hwloc_topology_diff_apply", "hwloc_memattr_register", "hwloc_memattr_set_value", "hwloc_cpukinds_register",
   "hwloc_topology_refresh", "hwloc_obj_set_subtype", "hwloc_topology_allow"]

/-- hwloc_topology_allow: the checks before anything is written.  `thissystem` is false for every topology that
    can be shared deterministically here (synthetic / XML). -/
def ALLOW_ALL : Nat := 1
def ALLOW_LOCAL : Nat := 2
def ALLOW_CUSTOM : Nat := 4
def FLAG_INCLUDE_DISALLOWED : Nat := 1

def allowDecision (a : Adopted) (flags : Nat) (cpuset nodeset : Option Nat) (thissystem hasHook : Bool) : Err :=
  if a.content.flags &&& FLAG_INCLUDE_DISALLOWED = 0 then .einval
  else if flags = ALLOW_ALL then (if cpuset.isSome || nodeset.isSome then .einval else .ok)
  else if flags = ALLOW_LOCAL then
    (if cpuset.isSome || nodeset.isSome then .einval else if !thissystem then .einval else if !hasHook then .enosys else .ok)
  else if flags = ALLOW_CUSTOM then
    (match cpuset with
     | some c => if a.content.rootCpuset &&& c = 0 then .einval else
        (match nodeset with
         | some n => if a.content.rootNodeset &&& n = 0 then .einval else .ok
         | none => .ok)
     | none =>
        (match nodeset with
         | some n => if a.content.rootNodeset &&& n = 0 then .einval else .ok
         | none => .ok))
  else .einval

/-- the new allowed sets of a successful ALL / CUSTOM call (ALL installs the root's main sets) -/
def allowApply (a : Adopted) (flags : Nat) (cpuset nodeset : Option Nat) : Adopted :=
  if flags = ALLOW_ALL then { a with allowedCpuset := a.content.rootCpuset, allowedNodeset := a.content.rootNodeset }
  else
    { a with allowedCpuset := (match cpuset with | some c => a.content.rootCpuset &&& c | none => a.allowedCpuset),
             allowedNodeset := (match nodeset with | some n => a.content.rootNodeset &&& n | none => a.allowedNodeset) }

inductive Op
  | call (fn : String) (foreignDist : Bool)              -- a modifying entry point; of its arguments only "the distances
                                                         -- structure belongs to another topology" is tested before a guard
  | setUserdata (v : Nat)                                -- hwloc_topology_set_userdata: field of the private struct
  | infosAdd (name value : String)                       -- hwloc_modify_infos(hwloc_topology_get_infos(t), ADD, …): private copy
  | allow (flags : Nat) (cpuset nodeset : Option Nat)    -- hwloc_topology_allow (topology not "thissystem")
  | memattrQuery                                         -- a query of a non-convenience memory attribute
deriving Repr, DecidableEq, Inhabited

/-- one public call on an adopted topology, following the code as it is -/
def stepAdopted (a : Adopted) : Op → Outcome × Adopted
  | .call fn fd =>
    match findGuard fn with
    | some g => (.ret (guardResult a fd g), a)
    | none => if refusedBusy.contains fn then (.ret .ebusy, a) else (.fault, a)
  | .setUserdata v => (.ret .ok, { a with userdata := v })
  | .infosAdd n v => (.ret .ok, { a with infos := a.infos ++ [(n, v)] })
  | .allow fl c n =>
    match allowDecision a fl c n false false with
    | .ok => if a.allowedInMapping then (.fault, a) else (.ret .ok, allowApply a fl c n)
    | e => (.ret e, a)
  | .memattrQuery => if a.memattrsCached then (.ret .ok, a) else (.fault, a)

def runAdopted (a : Adopted) : List Op → List Outcome × Adopted
  | [] => ([], a)
  | op :: ops =>
    let (o, a') := stepAdopted a op
    let (os, a'') := runAdopted a' ops
    (o :: os, a'')

/-- what the PROPERTY demands of a call on an adopted topology: refusal with EPERM for every modifying entry point,
    success for the documented exception `allow` and for memattr queries.  The driver answers with it; it coincides
    with `stepAdopted` whenever that does not fault (`demanded_eq_step`), and on states produced by `adopt` nothing
    faults any more (`C19_adopted_never_faults`). -/
def demanded (a : Adopted) : Op → Outcome
  | .call fn fd =>
    match findGuard fn with
    | some g => .ret (guardResult a fd g)
    | none => if refusedBusy.contains fn then .ret .ebusy else .ret .eperm
  | .setUserdata _ => .ret .ok
  | .infosAdd _ _ => .ret .ok
  | .allow fl c n => .ret (allowDecision a fl c n false false)
  | .memattrQuery => .ret .ok

end Hw.Shmem
