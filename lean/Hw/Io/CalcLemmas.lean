/-
  Hw.Io.CalcLemmas — lemmas about the hwloc-calc model (Hw/Io/Calc.lean): the mask <-> bitmap conversions, the accepted
  ranges, the `--largest` loop, the option loop.
-/
import Hw.Io.Calc
import Hw.Bitmap.Combine
import Hw.Bitmap.Queries
import Hw.Topo.HelpersFirstLargest
import Hw.Topo.DistribLemmas
namespace Hw.Calc
open Hw Hw.Topo

/-! ### masks and bitmaps -/

theorem mem_ofMask (m i : Nat) : (ofMask m).mem i = m.testBit i := by
  unfold ofMask Bitmap.mem
  rw [Bitmap.readWord_build]
  by_cases h : i / 64 < m.log2 / 64 + 1
  · rw [if_pos h, BitVec.getLsbD_ofNat, Nat.testBit_shiftRight]
    have e : 64 * (i / 64) + i % 64 = i := by omega
    rw [e]
    have : i % 64 < 64 := by omega
    simp [this]
  · rw [if_neg h]
    have hlt : m < 2 ^ i := by
      have h1 : m < 2 ^ (m.log2 + 1) := Nat.lt_log2_self
      have h2 : m.log2 + 1 ≤ i := by omega
      exact Nat.lt_of_lt_of_le h1 (Nat.pow_le_pow_right (by omega) h2)
    rw [Nat.testBit_lt_two_pow hlt]
    simp

theorem words_testBit (ws : List Word) : ∀ i : Nat,
    (ws.foldr (fun (w : Word) (acc : Nat) => w.toNat + 2 ^ 64 * acc) 0).testBit i = ((ws[i / 64]?).map (fun (w : Word) => w.getLsbD (i % 64))).getD false := by
  induction ws with
  | nil => intro i; simp
  | cons w r ih =>
    intro i
    simp only [List.foldr_cons]
    rw [Nat.add_comm, Nat.testBit_two_pow_mul_add _ w.isLt]
    by_cases h : i < 64
    · rw [if_pos h, BitVec.testBit_toNat]
      have e1 : i / 64 = 0 := by omega
      have e2 : i % 64 = i := by omega
      simp [e1, e2]
    · rw [if_neg h, ih]
      have e1 : i / 64 = (i - 64) / 64 + 1 := by omega
      have e2 : (i - 64) % 64 = i % 64 := by omega
      rw [e1, e2]
      simp

theorem maskOf_testBit (b : Bitmap) (nw i : Nat) :
    (maskOf b nw).testBit i = (decide (i / 64 < max b.count nw) && b.mem i) := by
  unfold maskOf
  rw [words_testBit]
  by_cases h : i / 64 < max b.count nw
  · rw [List.getElem?_map, List.getElem?_range h]
    simp [h, Bitmap.mem]
  · have : (List.map b.readWord (List.range (max b.count nw)))[i / 64]? = none := by
      apply List.getElem?_eq_none
      simp; omega
    rw [this]
    simp [h]

/-- a member of the mask is a member of the set -/
theorem maskOf_testBit_imp {b : Bitmap} {nw i : Nat} (h : (maskOf b nw).testBit i = true) : b.mem i = true := by
  rw [maskOf_testBit] at h
  exact (Bool.and_eq_true _ _ ▸ h).2

/-- for a finite set the mask has exactly the members of the set -/
theorem maskOf_testBit_fin {b : Bitmap} (hf : b.inf = false) (nw i : Nat) : (maskOf b nw).testBit i = b.mem i := by
  rw [maskOf_testBit]
  by_cases h : i / 64 < max b.count nw
  · simp [h]
  · have hc : b.count ≤ i / 64 := by omega
    unfold Bitmap.mem
    rw [Bitmap.readWord_ge b hc, hf]
    simp [h]

theorem andnot_inf (a b : Bitmap) : (a.andnot b).inf = (a.inf && !b.inf) := rfl
theorem ofMask_inf (m : Nat) : (ofMask m).inf = false := rfl

/-! ### accepted ranges -/

theorem strtolDigits_bound {neg : Bool} {orig : Bytes} {td : Nat × Nat × Bytes} {x : Int × Bool × Bytes}
    (h : strtolDigits neg orig td = some x) : -(2 : Int) ^ 31 < x.1 ∧ x.1 < 2 ^ 31 := by
  unfold strtolDigits at h
  split at h
  · cases h; simp
  · split at h
    · cases h
    · cases h
      simp only
      split <;> omega

theorem strtolSuffix_bound {s : Bytes} {x : Int × Bool × Bytes} (h : strtolSuffix s = some x) :
    -(2 : Int) ^ 31 < x.1 ∧ x.1 < 2 ^ 31 := by
  unfold strtolSuffix at h
  split at h
  · cases h; simp
  · split at h
    · cases h
    · exact strtolDigits_bound h

/-- an accepted range is either open-ended (`amount = -1`, never with wrap-around: the C assertion holds) with step 1 or 2,
    or asks for an explicit positive number of objects below 2^31 -/
theorem rangeTail_amount {first : Nat} {e : Bytes} {r : Range} (hf : first < 2 ^ 31) (h : rangeTail first e = .ok r) :
    r.first = first ∧ r.step = 1 ∧ ((r.amount = -1 ∧ r.wrap = false) ∨ (1 ≤ r.amount ∧ r.amount ≤ 2 ^ 31)) := by
  unfold rangeTail at h
  split at h
  · split at h
    · cases h
    · rename_i x hx
      have hb := strtolSuffix_bound hx
      split at h
      · cases h
      · split at h
        · cases h; simp
        · split at h
          · cases h
          · cases h
            refine ⟨rfl, rfl, Or.inr ?_⟩
            simp only
            omega
  · split at h
    · cases h
    · rename_i x hx
      have hb := strtolSuffix_bound hx
      split at h
      · cases h
      · split at h
        · cases h
        · split at h
          · cases h
          · cases h
            refine ⟨rfl, rfl, Or.inr ?_⟩
            simp only
            omega
  · cases h; simp
  · cases h

theorem parseRange_amount {s : Bytes} {r : Range} (h : parseRange s = .ok r) :
    r.first < 2 ^ 31 ∧ 1 ≤ r.step ∧ r.step ≤ 2 ∧ ((r.amount = -1 ∧ r.wrap = false) ∨ (1 ≤ r.amount ∧ r.amount ≤ 2 ^ 31)) := by
  unfold parseRange at h
  split at h
  · cases h
  · split at h
    · cases h
    · split at h
      · split at h
        · cases h; simp
        · split at h
          · cases h; simp
          · split at h
            · cases h; simp
            · cases h
      · unfold rangeOfDigits at h
        split at h
        · cases h
        · rename_i hlt
          obtain ⟨h1, h2, h3⟩ := rangeTail_amount (by omega) h
          rw [h1, h2]
          exact ⟨by omega, by omega, by omega, h3⟩

/-- TERMINATION BOUND of the loop `for(i=first, j=0; j<(unsigned)amount; …)` of hwloc_calc_append_object_range: for an
    open-ended range (`N-`, all, odd, even) it runs at most `width` times (0 times when `first ≥ width`), otherwise exactly
    the requested number of times, which is below 2^31 — never the 2^32 wrap-around of the pre-fix code -/
theorem rangeIters_bound {s : Bytes} {r : Range} (h : parseRange s = .ok r) (width : Nat) :
    (r.amount = -1 → rangeIters r width ≤ width ∧ (width ≤ r.first → rangeIters r width = 0)) ∧
    (r.amount ≠ -1 → 1 ≤ r.amount ∧ rangeIters r width = r.amount.toNat ∧ rangeIters r width ≤ 2 ^ 31) := by
  obtain ⟨_, hs1, hs2, ha⟩ := parseRange_amount h
  unfold rangeIters
  constructor
  · intro hm
    simp only [hm, beq_self_eq_true, if_true]
    constructor
    · have hst : r.step = 1 ∨ r.step = 2 := by omega
      split
      · omega
      · rcases hst with e | e <;> rw [e] <;> omega
    · intro hw; simp [hw]
  · intro hne
    rcases ha with ⟨h1, _⟩ | ⟨h1, h2⟩
    · exact absurd h1 hne
    · have hb : (r.amount == -1) = false := by simp [hne]
      simp only [hb, Bool.false_eq_true, if_false]
      refine ⟨h1, ?_, ?_⟩
      · congr 1; omega
      · omega

/-! ### the `--largest` loop -/

/-- whenever the loop ends normally, the objects it appended are normal objects of the topology, each inside the set it
    started from, and together they cover that set -/
theorem largestLoop_spec (c : Ctx) (ht : Tree c.d) :
    ∀ (fuel : Nat) (rem : Bitmap) (acc objs : List Obj), largestLoop c fuel rem acc = (objs, true) →
      ∃ new, objs = acc ++ new ∧
        (∀ o ∈ new, o ∈ c.d.objs ∧ isNormal o.type = true ∧ ∀ i, (cs o).testBit i = true → rem.mem i = true) ∧
        (∀ i, rem.mem i = true → ∃ o ∈ new, (cs o).testBit i = true) := by
  intro fuel
  induction fuel with
  | zero => intro rem acc objs h; simp [largestLoop] at h
  | succ f ih =>
    intro rem acc objs h
    unfold largestLoop at h
    by_cases hz : rem.iszero = true
    · rw [if_pos hz] at h
      cases h
      refine ⟨[], by simp, by simp, ?_⟩
      intro i hi
      rw [(Bitmap.iszero_iff rem).mp hz i] at hi; cases hi
    · rw [if_neg hz] at h
      cases hf : firstLargest c.d (c.mask rem) with
      | none => rw [hf] at h; simp at h
      | some o =>
        rw [hf] at h
        simp only at h
        obtain ⟨new', hobjs, hin, hcov⟩ := ih _ _ _ h
        obtain ⟨ho, hn, hsub, _⟩ := ht.firstLargest_inside hf
        refine ⟨o :: new', by rw [hobjs]; simp, ?_, ?_⟩
        · intro x hx
          rcases List.mem_cons.1 hx with rfl | hx
          · refine ⟨ho, hn, ?_⟩
            intro i hi
            exact maskOf_testBit_imp ((subset_iff _ _).1 hsub i hi)
          · obtain ⟨a, b, hmem⟩ := hin x hx
            refine ⟨a, b, ?_⟩
            intro i hi
            have := hmem i hi
            rw [Bitmap.mem_andnot] at this
            exact (Bool.and_eq_true _ _ ▸ this).1
        · intro i hi
          by_cases hoi : (cs o).testBit i = true
          · exact ⟨o, List.mem_cons_self, hoi⟩
          · have : (rem.andnot (ofMask (cs o))).mem i = true := by
              rw [Bitmap.mem_andnot, hi, mem_ofMask]
              cases hb : (cs o).testBit i
              · rfl
              · exact absurd hb hoi
            obtain ⟨x, hx, hxi⟩ := hcov i this
            exact ⟨x, List.mem_cons_of_mem _ hx, hxi⟩

theorem weight_andnot_lt {m x : Nat} (h : intersects x m = true) : weight (andnot m x) < weight m := by
  have hsplit : m = andnot m x ||| (m &&& x) := by
    apply Nat.eq_of_testBit_eq
    intro i
    rw [Nat.testBit_or, testBit_andnot, Nat.testBit_and]
    cases m.testBit i <;> cases x.testBit i <;> rfl
  have hdis : disjoint (andnot m x) (m &&& x) = true := by
    rw [disjoint_iff]
    intro i ⟨h1, h2⟩
    rw [testBit_andnot] at h1
    rw [Nat.testBit_and] at h2
    cases hm : m.testBit i <;> cases hx : x.testBit i <;> simp [hm, hx] at h1 h2
  have hw := weight_or_disjoint hdis
  rw [← hsplit] at hw
  have hne : weight (m &&& x) ≠ 0 := by
    intro h0
    have := (weight_eq_zero _).1 h0
    obtain ⟨i, h1, h2⟩ := (intersects_iff _ _).1 h
    have hb : (m &&& x).testBit i = true := by rw [Nat.testBit_and, h1, h2]; rfl
    rw [this] at hb
    simp at hb
  omega

/-- for a finite set inside the root's cpuset the loop ends normally within `weight + 1` iterations -/
theorem largestLoop_terminates (c : Ctx) (ht : Tree c.d) {r : Obj} (hr : c.d.rootObj? = some r) :
    ∀ (fuel : Nat) (rem : Bitmap) (acc : List Obj), rem.inf = false →
      (∀ i, rem.mem i = true → (cs r).testBit i = true) → weight (c.mask rem) < fuel →
      (largestLoop c fuel rem acc).2 = true := by
  intro fuel
  induction fuel with
  | zero => intro rem acc _ _ h; omega
  | succ f ih =>
    intro rem acc hfin hsub hw
    unfold largestLoop
    by_cases hz : rem.iszero = true
    · rw [if_pos hz]
    · rw [if_neg hz]
      have hex : ∃ i, rem.mem i = true := by
        apply Classical.byContradiction
        intro hno
        apply hz
        rw [Bitmap.iszero_iff]
        intro n
        cases hm : rem.mem n
        · rfl
        · exact absurd ⟨n, hm⟩ hno
      obtain ⟨i, hi⟩ := hex
      have hmi : (c.mask rem).testBit i = true := by
        unfold Ctx.mask; rw [maskOf_testBit_fin hfin]; exact hi
      have hint : intersects (cs r) (c.mask rem) = true := (intersects_iff _ _).2 ⟨i, hsub i hi, hmi⟩
      obtain ⟨o, hf⟩ := firstLargest_some hr hint
      rw [hf]
      simp only
      obtain ⟨_, _, hosub, hoint⟩ := ht.firstLargest_inside hf
      have hfin' : (rem.andnot (ofMask (cs o))).inf = false := by rw [andnot_inf, hfin]; rfl
      have hmask : c.mask (rem.andnot (ofMask (cs o))) = andnot (c.mask rem) (cs o) := by
        apply Nat.eq_of_testBit_eq
        intro j
        unfold Ctx.mask
        rw [maskOf_testBit_fin hfin', testBit_andnot, maskOf_testBit_fin hfin, Bitmap.mem_andnot, mem_ofMask]
      apply ih
      · exact hfin'
      · intro j hj
        rw [Bitmap.mem_andnot] at hj
        exact hsub j (Bool.and_eq_true _ _ ▸ hj).1
      · rw [hmask]
        have := weight_andnot_lt hoint
        omega

/-! ### the option loop of main() -/

/-- the outcome of the option loop as a function of the argument list alone (no topology, no option state):
    `fails` = `exit(EXIT_FAILURE)` (unknown option, option without its value, unknown / unsupported format name),
    `declines` = an option the model does not follow (--help, --version, --local-memory, …),
    `accepts` = the loop runs to the end.  Arguments that do not start with '-' are locations: the loop never fails on them
    (an invalid location is reported as "ignored unrecognized argument" and skipped). -/
inductive Scan | fails | declines | accepts
deriving Repr, DecidableEq

def optScan : List Bytes → Scan
  | [] => .accepts
  | a :: rest =>
    if a.head? == some 45 then
      if isOpt skipOpts a then .declines
      else if startsWith a (str "--no-smt=") then
        match atoiDigits (a.drop 9) with
        | some _ => optScan rest
        | none => .declines
      else if isOpt flagOpts a then optScan rest
      else if isOpt argOpts a then
        match rest with
        | [] => .fails
        | v :: rest' => if (stepArgOpt {} a v).isNone then .fails else optScan rest'
      else .fails
    else optScan rest

theorem stepArgOpt_none_indep (s s' : St) (a v : Bytes) : (stepArgOpt s a v).isNone = (stepArgOpt s' a v).isNone := by
  unfold stepArgOpt
  repeat' split
  all_goals first | rfl | simp_all

theorem stepArgOpt_inv {s s' : St} {a v : Bytes} (h : stepArgOpt s a v = some s') :
    s'.verbose = s.verbose ∧ s'.outKnown = s.outKnown := by
  unfold stepArgOpt at h
  repeat' (split at h)
  all_goals first | (cases h; done) | (cases h; exact ⟨rfl, rfl⟩)

theorem stepFlag_outKnown (s : St) (a : Bytes) : (stepFlag s a).outKnown = s.outKnown := by
  unfold stepFlag
  simp only [apply_ite St.outKnown, ite_self]

theorem stepFlag_inv (s : St) {a : Bytes} (h1 : a ≠ str "-v") (h2 : a ≠ str "--verbose") :
    (stepFlag s a).verbose ≤ s.verbose ∧ (stepFlag s a).outKnown = s.outKnown := by
  refine ⟨?_, stepFlag_outKnown s a⟩
  have e1 : (a == str "-v") = false := by simp [h1]
  have e2 : (a == str "--verbose") = false := by simp [h2]
  unfold stepFlag
  rw [e1, e2]
  simp only [Bool.false_or, Bool.false_eq_true, if_false, apply_ite St.verbose, ite_self]
  split <;> omega

theorem stepLoc_error {c : Ctx} {s : St} {a : Bytes} {e : Res} (h : stepLoc c s a = .error e) : e = .skip "location" := by
  unfold stepLoc at h
  cases hl : locSets c s.logicalI s.nodesetI s.cif (splitMode a).2 <;> simp only [hl] at h <;> cases h <;> rfl

theorem stepLoc_inv {c : Ctx} {s s' : St} {a : Bytes} (h : stepLoc c s a = .ok s') :
    s'.verbose = s.verbose ∧ (s.verbose ≤ 0 → s'.outKnown = s.outKnown) := by
  unfold stepLoc at h
  cases hl : locSets c s.logicalI s.nodesetI s.cif (splitMode a).2 <;> simp only [hl] at h <;> cases h
  · refine ⟨rfl, ?_⟩
    intro hv
    simp [hv]
  · exact ⟨rfl, fun _ => rfl⟩

/-- "no -v": the precondition under which nothing reaches stdout before the loop fails -/
def quietArgs (argv : List Bytes) : Prop := ∀ a ∈ argv, a ≠ str "-v" ∧ a ≠ str "--verbose"

/-- if the argument list makes the option loop fail, the model's loop ends in `exit 1` (or declines earlier because a location
    uses an unmodelled feature); `s'` is the option state at the point of failure -/
theorem argLoop_fails (c : Ctx) : ∀ (n : Nat) (argv : List Bytes) (s : St), argv.length ≤ n → optScan argv = .fails →
    (∃ w, argLoop c s argv = .error (.skip w)) ∨
    (∃ s' : St, argLoop c s argv = .error (.exit 1 (if s'.outKnown then some [] else none)) ∧
      (quietArgs argv → s.verbose ≤ 0 → s.outKnown = true → s'.outKnown = true)) := by
  intro n
  induction n with
  | zero =>
    intro argv s hl hs
    cases argv with
    | nil => simp [optScan] at hs
    | cons a r => simp at hl
  | succ n ih =>
    intro argv s hl hs
    cases argv with
    | nil => simp [optScan] at hs
    | cons a rest =>
      have hlr : rest.length ≤ n := by simp at hl; omega
      have hq : quietArgs (a :: rest) → (a ≠ str "-v" ∧ a ≠ str "--verbose") ∧ quietArgs rest := by
        intro h
        exact ⟨h a List.mem_cons_self, fun x hx => h x (List.mem_cons_of_mem _ hx)⟩
      unfold optScan at hs
      unfold argLoop
      by_cases hd : (a.head? == some 45) = true
      · rw [if_pos hd] at hs ⊢
        by_cases h1 : isOpt skipOpts a = true
        · rw [if_pos h1] at hs; cases hs
        · rw [if_neg h1] at hs ⊢
          by_cases h2 : startsWith a (str "--no-smt=") = true
          · rw [if_pos h2] at hs ⊢
            cases hat : atoiDigits (a.drop 9) with
            | none => rw [hat] at hs; cases hs
            | some k =>
              rw [hat] at hs
              simp only at hs ⊢
              rcases ih rest { s with noSmt := some k } hlr hs with hw | ⟨s', hs', hk⟩
              · exact Or.inl hw
              · exact Or.inr ⟨s', hs', fun q hv ho => hk (hq q).2 hv ho⟩
          · rw [if_neg h2] at hs ⊢
            by_cases h3 : isOpt flagOpts a = true
            · rw [if_pos h3] at hs ⊢
              rcases ih rest (stepFlag s a) hlr hs with hw | ⟨s', hs', hk⟩
              · exact Or.inl hw
              · refine Or.inr ⟨s', hs', ?_⟩
                intro q hv ho
                obtain ⟨⟨q1, q2⟩, q3⟩ := hq q
                obtain ⟨f1, f2⟩ := stepFlag_inv s q1 q2
                exact hk q3 (by omega) (by rw [f2]; exact ho)
            · rw [if_neg h3] at hs ⊢
              by_cases h4 : isOpt argOpts a = true
              · rw [if_pos h4] at hs ⊢
                cases rest with
                | nil => exact Or.inr ⟨s, rfl, fun _ _ ho => ho⟩
                | cons v rest' =>
                  simp only at hs ⊢
                  cases hst : stepArgOpt s a v with
                  | none => exact Or.inr ⟨s, rfl, fun _ _ ho => ho⟩
                  | some s1 =>
                    have hnn : (stepArgOpt {} a v).isNone = false := by
                      rw [stepArgOpt_none_indep {} s, hst]; rfl
                    rw [hnn] at hs
                    simp only [Bool.false_eq_true, if_false] at hs
                    have hlr' : rest'.length ≤ n := by simp at hlr; omega
                    rcases ih rest' s1 hlr' hs with hw | ⟨s', hs', hk⟩
                    · exact Or.inl hw
                    · refine Or.inr ⟨s', hs', ?_⟩
                      intro q hv ho
                      obtain ⟨g1, g2⟩ := stepArgOpt_inv hst
                      have q3 : quietArgs rest' := fun x hx => (hq q).2 x (List.mem_cons_of_mem _ hx)
                      exact hk q3 (by omega) (by rw [g2]; exact ho)
              · rw [if_neg h4]
                exact Or.inr ⟨s, rfl, fun _ _ ho => ho⟩
      · rw [if_neg hd] at hs ⊢
        cases hsl : stepLoc c s a with
        | error e =>
          simp only
          rw [stepLoc_error hsl]
          exact Or.inl ⟨_, rfl⟩
        | ok s1 =>
          simp only
          rcases ih rest s1 hlr hs with hw | ⟨s', hs', hk⟩
          · exact Or.inl hw
          · refine Or.inr ⟨s', hs', ?_⟩
            intro q hv ho
            obtain ⟨l1, l2⟩ := stepLoc_inv hsl
            exact hk (hq q).2 (by omega) (by rw [l2 hv]; exact ho)

end Hw.Calc
