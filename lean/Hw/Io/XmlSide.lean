/-
  Hw.Io.XmlSide — the SIDE structures of a topology document (v3 format) at token level, next to the object tree of Hw.Io.XmlTree:

  * `<cpukind cpuset= [forced_efficiency=]>` with `<info>` children      hwloc__xml_export_cpukinds / hwloc__xml_import_cpukind
  * `<memattr name= flags=>` with `<memattr_value ...>` children         hwloc__xml_export_memattrs (+ _memattr_target) /
                                                                          hwloc__xml_import_memattr (+ _memattr_value)
  * `<distances2 type= nbobjs= kind= [name=] indexing=>` / `<distances2hetero nbobjs= kind= [name=]>` with `<indexes length=>` and
    `<u64values length=>` children of at most 10 numbers each            hwloc___xml_v2export_distances (EXPORT_ARRAY /
                                                                          EXPORT_TYPE_GPINDEX_ARRAY, maxperline = 10) /
                                                                          hwloc__xml_import_distances
  * topology-level `<info>`                                               hwloc__xml_export_infos / the loop of hwloc_look_xml
  * the loop of hwloc_look_xml over the elements after the root object (`importSide`).

  The importers are total functions into `Res` (XmlTree): `.reject` mirrors a `return -1` / `goto out...` of the C (the whole load
  fails), `.outside` marks what the model does not follow (never reached from an export: a sign in front of a number, an infinite set,
  an `<info>` inside a distances element — the C hands the PARENT state to hwloc___xml_import_info there —, text or children inside a
  `<memattr_value>`, which the C never looks at).  What an importer returns is what it hands to the core:
  hwloc_internal_cpukinds_register (one `Kind` per element), hwloc_memattr_register / get_by_name + one
  hwloc_internal_memattr_set_value call per `<memattr_value>` (`Call`), hwloc_internal_distances_add_by_index (`Dist`); `rebuild`
  models the find-or-append of hwloc__internal_memattr_set_value on the target / initiator arrays.
  `<support>` elements are skipped by `importSide` (not modelled: they describe the loader).
-/
import Hw.Io.XmlTree
namespace Hw.XmlSide
open Hw Hw.Topo Hw.XmlObj Hw.XmlTree

def tagCpukind : Bytes := b "cpukind"
def tagMemattr : Bytes := b "memattr"
def tagMemattrValue : Bytes := b "memattr_value"
def tagDist : Bytes := b "distances2"
def tagDistHetero : Bytes := b "distances2hetero"
def tagIndexes : Bytes := b "indexes"
def tagU64 : Bytes := b "u64values"
def tagSupport : Bytes := b "support"

/-- an `<info>` child as hwloc___xml_import_info + close_tag see it: `none` = return -1 -/
def infoChild (e : Elem) : Option (Option (Bytes × Bytes)) :=
  match importInfo e.attrs with
  | .error => none
  | r =>
    if e.content.isSome || !e.kids.isEmpty then none
    else some (match r with | .pair p => some p | _ => Option.none)

/-! ### CPU kinds -/

/-- one entry of topology->cpukinds as the exporter reads it -/
structure Kind where
  cpuset : Nat                       -- mask of the (finite) cpuset
  eff : Int := -1                    -- forced_efficiency, HWLOC_CPUKIND_EFFICIENCY_UNKNOWN = -1
  infos : List (Bytes × Bytes) := []
deriving DecidableEq, Repr, Inhabited

/-- one iteration of hwloc__xml_export_cpukinds -/
def exportKind (k : Kind) : Elem :=
  .mk tagCpukind
    ([(b "cpuset", setText k.cpuset)] ++
      (if k.eff ≠ -1 then [(b "forced_efficiency", (Xml.printInt k.eff).take 10)] else []))     -- char tmp[11]; snprintf(tmp, 11, "%d")
    none (k.infos.map infoElem)

def exportKinds (l : List Kind) : List Elem := l.map exportKind

/-- attribute loop of hwloc__xml_import_cpukind -/
def kindLoop : List (Bytes × Bytes) → Option Nat → Int → Res (Option Nat × Int)
  | [], c, e => .ok (c, e)
  | (a, v) :: l, c, e =>
    if a = b "cpuset" then (match setScan v with | .ok m => kindLoop l (some m) e | _ => .outside)
    else if a = b "forced_efficiency" then kindLoop l c (Xml.atoi v)
    else .reject

/-- child loop of hwloc__xml_import_cpukind: only `<info>`; a pair is added when both name and value are present -/
def kindKids : List Elem → List (Bytes × Bytes) → Res (List (Bytes × Bytes))
  | [], acc => .ok acc
  | e :: es, acc =>
    if e.tag = tagInfo then
      match infoChild e with
      | none => .reject
      | some (some p) => kindKids es (acc ++ [p])
      | some Option.none => kindKids es acc
    else .reject

/-- hwloc__xml_import_cpukind: what is handed to hwloc_internal_cpukinds_register -/
def importKind (e : Elem) : Res Kind :=
  (kindLoop e.attrs none (-1)).bind (fun ce =>
    if e.content.isSome then .reject
    else (kindKids e.kids []).bind (fun infos =>
      match ce.1 with
      | none => .reject                    -- "ignoring cpukind without cpuset": goto error
      | some m => .ok { cpuset := m, eff := ce.2, infos := infos }))

/-- forced_efficiency is an `int` whose `%d` text fits the buffer of the exporter (char tmp[11]: 10 characters; only values below
    -99999999 do not, and hwloc_cpukinds_register stores nothing below -1) -/
def kindValid (k : Kind) : Bool :=
  decide (-(2 : Int) ^ 31 ≤ k.eff) && decide (k.eff < 2 ^ 31) && decide ((Xml.printInt k.eff).length ≤ 10)

def normKind (k : Kind) : Kind := { k with infos := k.infos.map sanPair }

/-! ### memory attributes -/

inductive Init where
  | cpuset (m : Nat)                 -- HWLOC_LOCATION_TYPE_CPUSET
  | obj (type gp : Nat)              -- HWLOC_LOCATION_TYPE_OBJECT (internal location: type + gp_index)
deriving DecidableEq, Repr, Inhabited

structure MTarget where
  type : Nat
  gp : Nat
  value : Nat := 0                   -- noinitiator_value
  inits : List (Init × Nat) := []    -- initiators[] with their values
deriving DecidableEq, Repr, Inhabited

structure MemAttr where
  name : Bytes
  flags : Nat
  targets : List MTarget := []
deriving DecidableEq, Repr, Inhabited

/-- HWLOC_MEMATTR_FLAG_NEED_INITIATOR = 1UL << 2 -/
def needInit (flags : Nat) : Bool := flags.testBit 2

def initAttrs : Init → List (Bytes × Bytes)
  | .obj t g => [(b "initiator_obj_gp_index", decDigits g), (b "initiator_obj_type", TypeStr.typeString t)]
  | .cpuset m => [(b "initiator_cpuset", setText m)]

def valueElem (type gp value : Nat) (i : Option Init) : Elem :=
  .mk tagMemattrValue
    ([(b "target_obj_type", TypeStr.typeString type), (b "target_obj_gp_index", decDigits gp), (b "value", decDigits value)] ++
      (match i with | some i => initAttrs i | none => []))
    none []

/-- hwloc__xml_export_memattr_target -/
def targetElems (flags : Nat) (t : MTarget) : List Elem :=
  if needInit flags then t.inits.map (fun iv => valueElem t.type t.gp iv.2 (some iv.1))
  else [valueElem t.type t.gp t.value none]

def exportMemAttr (a : MemAttr) : Elem :=
  .mk tagMemattr [(b "name", a.name), (b "flags", decDigits a.flags)] none (a.targets.flatMap (targetElems a.flags))

/-- HWLOC_MEMATTR_ID_MAX: ids below are the standard attributes -/
def memattrIdMax : Nat := 8

/-- the two `continue`s of hwloc__xml_export_memattrs: the virtual attributes (Capacity = 0, Locality = 1) and standard attributes
    without any target are not written -/
def exported (ia : Nat × MemAttr) : Bool :=
  !(ia.1 = 0 || ia.1 = 1) && !(decide (ia.1 < memattrIdMax) && ia.2.targets.isEmpty)

/-- hwloc__xml_export_memattrs over topology->memattrs[] (index = id) -/
def exportMemAttrs (l : List MemAttr) : List Elem :=
  (((List.range l.length).zip l).filter exported).map (fun ia => exportMemAttr ia.2)

/-- the six string pointers of hwloc__xml_import_memattr_value -/
structure VSt where
  tgp : Option Bytes := none
  tty : Option Bytes := none
  val : Option Bytes := none
  icpu : Option Bytes := none
  igp : Option Bytes := none
  ity : Option Bytes := none
deriving Repr, Inhabited

def mvLoop : List (Bytes × Bytes) → VSt → Option VSt
  | [], s => some s
  | (a, v) :: l, s =>
    if a = b "target_obj_gp_index" then mvLoop l { s with tgp := some v }
    else if a = b "target_obj_type" then mvLoop l { s with tty := some v }
    else if a = b "value" then mvLoop l { s with val := some v }
    else if a = b "initiator_cpuset" then mvLoop l { s with icpu := some v }
    else if a = b "initiator_obj_gp_index" then mvLoop l { s with igp := some v }
    else if a = b "initiator_obj_type" then mvLoop l { s with ity := some v }
    else none

/-- one call of hwloc_internal_memattr_set_value(topology, id, type, gp_index, -1, initiator, value) -/
structure Call where
  type : Nat
  gp : Nat
  init : Option Init
  value : Nat
deriving DecidableEq, Repr, Inhabited

def num (v : Bytes) (k : Nat → Res α) : Res α := match strtoulV v with | some n => k n | none => .outside

/-- the initiator part of hwloc__xml_import_memattr_value (flags has NEED_INITIATOR) -/
def importInit (s : VSt) : Res Init :=
  match s.icpu with
  | some cs => (match setScan cs with | .ok m => .ok (.cpuset m) | _ => .outside)
  | none =>
    match s.igp, s.ity with
    | some g, some t =>
      num g (fun g => match typeScan t with | some t => .ok (.obj t g) | none => .reject)
    | _, _ => .reject

/-- hwloc__xml_import_memattr_value; `flags` is the parent's flags variable ((unsigned long) -1 when the attribute was missing) -/
def importValue (flags : Nat) (e : Elem) : Res Call :=
  match mvLoop e.attrs {} with
  | none => .reject
  | some s =>
    match s.tty with
    | none => .reject
    | some tt =>
      match typeScan tt with
      | none => .reject
      | some ty =>
        match s.val, s.tgp with
        | some v, some g =>
          num g (fun g => num v (fun v =>
            (if needInit flags then (importInit s).bind (fun i => .ok (some i)) else .ok none).bind (fun i =>
              if e.content.isSome || !e.kids.isEmpty then .outside    -- the C never looks (no close_tag on this element)
              else .ok { type := ty, gp := g, init := i, value := v })))
        | _, _ => .reject

/-- attribute loop of hwloc__xml_import_memattr -/
def maLoop : List (Bytes × Bytes) → Option Bytes → Nat → Res (Option Bytes × Nat)
  | [], n, f => .ok (n, f)
  | (a, v) :: l, n, f =>
    if a = b "name" then maLoop l (some v) f
    else if a = b "flags" then num v (fun x => maLoop l n x)
    else .reject

def maKids (flags : Nat) : List Elem → List Call → Res (List Call)
  | [], acc => .ok acc
  | e :: es, acc =>
    if e.tag = tagMemattrValue then
      match importValue flags e with
      | .ok c => maKids flags es (acc ++ [c])
      | .reject => .reject
      | .outside => .outside
    else if e.tag = tagInfo then
      match infoChild e with
      | none => .reject
      | some _ => maKids flags es acc          -- ignored
    else .reject

/-- what hwloc__xml_import_memattr hands over: the name and flags for register / get_by_name (`name = none` or
    `flags = ULONG_MAX`: id stays -1 and the calls are dropped by the core) and the set_value calls in document order -/
structure MemAttrIn where
  name : Option Bytes
  flags : Nat
  calls : List Call
deriving DecidableEq, Repr, Inhabited

def ulongMax : Nat := 2 ^ 64 - 1

def importMemAttr (e : Elem) : Res MemAttrIn :=
  (maLoop e.attrs none ulongMax).bind (fun nf =>
    if e.content.isSome then .reject
    else (maKids nf.2 e.kids []).bind (fun cs => .ok { name := nf.1, flags := nf.2, calls := cs }))

/-- the calls the export of one attribute turns into -/
def callsOf (a : MemAttr) : List Call :=
  if needInit a.flags then
    a.targets.flatMap (fun t => t.inits.map (fun iv => { type := t.type, gp := t.gp, init := some iv.1, value := iv.2 }))
  else a.targets.map (fun t => { type := t.type, gp := t.gp, init := none, value := t.value })

def initValid : Init → Bool
  | .cpuset _ => true
  | .obj t g => decide (t < 20) && decide (g < 2 ^ 64)

def targetValid (t : MTarget) : Bool :=
  decide (t.type < 20) && decide (t.gp < 2 ^ 64) && decide (t.value < 2 ^ 64) &&
  t.inits.all (fun iv => initValid iv.1 && decide (iv.2 < 2 ^ 64))

def memAttrValid (a : MemAttr) : Bool := decide (a.flags < 2 ^ 64) && a.targets.all targetValid

/-- match_internal_location(new, existing): a cpuset initiator matches an existing one that INCLUDES it (hwloc_bitmap_isincluded),
    an object initiator one with the same type and gp_index -/
def matchInit (i x : Init) : Bool :=
  match i, x with
  | .cpuset m, .cpuset e => (m &&& e) == m
  | .obj t g, .obj t' g' => t == t' && g == g'
  | _, _ => false

/-- hwloc__memattr_target_get_initiator(create = 1) + the store of the value: the FIRST matching initiator, else a new last one -/
def setInit : List (Init × Nat) → Init → Nat → List (Init × Nat)
  | [], i, v => [(i, v)]
  | x :: l, i, v => if matchInit i x.1 then (x.1, v) :: l else x :: setInit l i v

def applyCall (t : MTarget) (c : Call) : MTarget :=
  match c.init with
  | some i => { t with inits := setInit t.inits i c.value }
  | none => { t with value := c.value }

def sameTarget (t : MTarget) (c : Call) : Bool := t.type == c.type && t.gp == c.gp

/-- hwloc__internal_memattr_set_value on the target array of one attribute: hwloc__memattr_get_target(create = 1) finds the FIRST
    target with that (type, gp_index) or appends one -/
def setValue : List MTarget → Call → List MTarget
  | [], c => [applyCall { type := c.type, gp := c.gp } c]
  | t :: l, c => if sameTarget t c then applyCall t c :: l else t :: setValue l c

def rebuild (cs : List Call) : List MTarget := cs.foldl setValue []

/-- the hypotheses under which the calls rebuild the exported array: the targets of an attribute are pairwise different objects
    (hwloc__memattr_get_target never creates a second entry for one object), and with NEED_INITIATOR every target has at least one
    initiator (a target without any is not written at all) and no initiator matches (match_internal_location: equal object, cpuset
    INCLUDED) one that precedes it in the array — otherwise the importer merges the two (known finding F59) -/
def distinctKeys : List MTarget → Bool
  | [] => true
  | t :: l => !(l.any (fun u => u.type == t.type && u.gp == t.gp)) && distinctKeys l

def distinctInits : List (Init × Nat) → Bool
  | [] => true
  | iv :: l => !(l.any (fun x => matchInit x.1 iv.1)) && distinctInits l        -- no later initiator matches an earlier one

def memAttrWF (a : MemAttr) : Bool :=
  distinctKeys a.targets && (!needInit a.flags || a.targets.all (fun t => !t.inits.isEmpty && distinctInits t.inits))

/-- what export + import keeps of one target: the initiator array when the attribute needs initiators, else the single value -/
def normTarget (flags : Nat) (t : MTarget) : MTarget :=
  if needInit flags then { t with value := 0 } else { t with inits := [] }

/-! ### distances -/

/-- one hwloc_internal_distances_s after hwloc_internal_distances_refresh -/
structure Dist where
  utype : Option Nat := none          -- unique_type (none = HWLOC_OBJ_TYPE_NONE)
  types : Option (List Nat) := none   -- different_types[] (some = heterogeneous)
  kind : Nat
  name : Option Bytes := none
  idx : List Nat                      -- indexes[] (os_index for PU / NUMA, gp_index otherwise; objs[]->gp_index when heterogeneous)
  values : List Nat                   -- nbobjs * nbobjs
deriving DecidableEq, Repr, Inhabited

def Dist.nbobjs (d : Dist) : Nat := d.idx.length

/-- maxperline of EXPORT_ARRAY / EXPORT_TYPE_GPINDEX_ARRAY as hwloc___xml_v2export_distances calls them -/
def perLine : Nat := 10

def chunksF {α : Type} (k : Nat) : Nat → List α → List (List α)
  | 0, _ => []
  | _ + 1, [] => []
  | f + 1, x :: l => (x :: l).take k :: chunksF k f ((x :: l).drop k)

/-- the `while (_i < nr)` loop of the macros: groups of `perLine` items, the last one shorter -/
def chunks {α : Type} (l : List α) : List (List α) := chunksF perLine l.length l

/-- one child element: every item is followed by a blank (`format " "`), `length` is the byte count -/
def chunkElem (tag : Bytes) (items : List Bytes) : Elem :=
  let ct := items.flatMap (fun s => s ++ [32])
  .mk tag [(b "length", decDigits ct.length)] (some ct) []

def homItem (i : Nat) : Bytes := decDigits i
def hetItem (ti : Nat × Nat) : Bytes := TypeStr.typeString ti.1 ++ [58] ++ decDigits ti.2

/-- HWLOC_DIST_TYPE_USE_OS_INDEX -/
def useOsIndex (t : Nat) : Bool := t == tPU || t == tNUMA

/-- the `name` attribute: through hwloc__xml_export_safestrdup, only when there is a name -/
def nameAttr : Option Bytes → List (Bytes × Bytes)
  | some s => [(b "name", Xml.sanitize s)]
  | none => []

/-- hwloc___xml_v2export_distances, v3 flags (no HOPS → LATENCY rewriting) -/
def exportDist (d : Dist) : Elem :=
  let n := d.nbobjs
  let nameA := nameAttr d.name
  match d.types with
  | some ts =>
    .mk tagDistHetero ([(b "nbobjs", decDigits n), (b "kind", decDigits d.kind)] ++ nameA) none
      ((chunks ((ts.zip d.idx).map hetItem)).map (chunkElem tagIndexes) ++ (chunks (d.values.map homItem)).map (chunkElem tagU64))
  | none =>
    .mk tagDist ([(b "type", TypeStr.typeString (d.utype.getD 0)), (b "nbobjs", decDigits n), (b "kind", decDigits d.kind)] ++ nameA ++
                 [(b "indexing", if useOsIndex (d.utype.getD 0) then b "os" else b "gp")]) none
      ((chunks (d.idx.map homItem)).map (chunkElem tagIndexes) ++ (chunks (d.values.map homItem)).map (chunkElem tagU64))

/-- hwloc__xml_v2export_distances: the homogeneous matrices first, then the heterogeneous ones -/
def exportDists (l : List Dist) : List Elem :=
  (l.filter (fun d => d.types.isNone)).map exportDist ++ (l.filter (fun d => d.types.isSome)).map exportDist

/-- the local variables of the attribute loop of hwloc__xml_import_distances -/
structure DSt where
  nbobjs : Nat := 0
  utype : Option Nat := none
  indexing : Bool
  os : Bool := false
  gp : Bool
  kind : Nat := 0
  gotkind : Bool := false
  name : Option Bytes := none
deriving Repr, Inhabited

def dLoop : List (Bytes × Bytes) → DSt → Res DSt
  | [], s => .ok s
  | (a, v) :: l, s =>
    if a = b "nbobjs" then num v (fun n => dLoop l { s with nbobjs := n % 2 ^ 32 })
    else if a = b "type" then (match typeScan v with | some t => dLoop l { s with utype := some t } | none => .reject)
    else if a = b "indexing" then
      dLoop l { s with indexing := true, os := s.os || v == b "os", gp := s.gp || v == b "gp" }
    else if a = b "kind" then num v (fun n => dLoop l { s with kind := n, gotkind := true })
    else if a = b "name" then dLoop l { s with name := some v }
    else dLoop l s                          -- unknown attributes are ignored

/-- the `while (1)` over one `<u64values>` / homogeneous `<indexes>` text: strtoull(tmp, &next, 0); stop when nothing was read, after a
    number not followed by a blank, or when `cap` numbers are there.  `none` = a sign (outside the strtoul model). -/
def numLoop : Nat → Bytes → List Nat → Nat → Option (List Nat)
  | 0, _, acc, _ => some acc
  | f + 1, s, acc, cap =>
    match strtoul 0 s with
    | .unsupported => none
    | .ok v rest =>
      if rest.length = s.length then some acc
      else
        let acc' := acc ++ [v]
        match rest with
        | 32 :: r => if acc'.length = cap then some acc' else numLoop f r acc' cap
        | _ => some acc'

/-- the same loop over a heterogeneous `<indexes>` text: `Type:index` items -/
def hetLoop : Nat → Bytes → List (Nat × Nat) → Nat → Res (List (Nat × Nat))
  | 0, _, acc, _ => .ok acc
  | f + 1, s, acc, cap =>
    if s.isEmpty then .ok acc
    else match typeScan s with
      | none => .reject
      | some t =>
        match (s.dropWhile (· ≠ 58)) with
        | [] => .reject                      -- no colon
        | _ :: s1 =>
          match strtoul 0 s1 with
          | .unsupported => .outside
          | .ok v rest =>
            if rest.length = s1.length then .ok acc
            else
              let acc' := acc ++ [(t, v)]
              match rest with
              | 32 :: r => if acc'.length = cap then .ok acc' else hetLoop f r acc' cap
              | _ => .ok acc'

structure DAcc where
  idx : List (Nat × Nat) := []        -- (different_types[i] (0 when homogeneous), indexes[i])
  vals : List Nat := []
deriving Repr, Inhabited

/-- `length` attribute + get_content of one child: the text the loops then walk (`none` = return -1) -/
def chunkText (e : Elem) : Option Bytes :=
  match e.attrs with
  | (a, v) :: _ =>
    if a ≠ b "length" then none
    else
      let len := Xml.atoi v
      if len < 0 then none
      else match e.content with
        | none => if len ≠ 0 then none else some []
        | some ct => if (ct.length : Int) ≠ len then none else some ct
  | [] => none

/-- the child loop of hwloc__xml_import_distances -/
def dKids (hetero : Bool) (n : Nat) : List Elem → DAcc → Res DAcc
  | [], acc => .ok acc
  | e :: es, acc =>
    if e.tag = tagInfo then .outside
    else if e.tag = tagIndexes then
      match chunkText e with
      | none => .reject
      | some ct =>
        if acc.idx.length ≥ n then .reject
        else
          let r : Res (List (Nat × Nat)) :=
            if hetero then hetLoop (ct.length + 1) ct acc.idx n
            else match numLoop (ct.length + 1) ct (acc.idx.map (·.2)) n with
              | some l => .ok (l.map (fun i => (0, i)))
              | none => .outside
          match r with
          | .ok idx => if !e.kids.isEmpty then .reject else dKids hetero n es { acc with idx := idx }
          | .reject => .reject
          | .outside => .outside
    else if e.tag = tagU64 then
      match chunkText e with
      | none => .reject
      | some ct =>
        if acc.vals.length ≥ n * n then .reject
        else match numLoop (ct.length + 1) ct acc.vals (n * n) with
          | some l => if !e.kids.isEmpty then .reject else dKids hetero n es { acc with vals := l }
          | none => .outside
    else .reject

/-- hwloc__xml_import_distances for a v3 document without HWLOC_TOPOLOGY_FLAG_NO_DISTANCES: `.ok none` = the element is valid but
    ignored (`goto out_ignore`), `.ok (some d)` = hwloc_internal_distances_add_by_index(name, unique_type, different_types, nbobjs,
    indexes, values, kind) -/
def importDist (hetero : Bool) (e : Elem) : Res (Option Dist) :=
  (dLoop e.attrs { indexing := hetero, gp := hetero }).bind (fun s =>
    if s.nbobjs = 0 || (!hetero && s.utype.isNone) || !s.indexing || !s.gotkind then .reject
    else if s.nbobjs > 0xffff then .reject
    else if e.content.isSome then .reject
    else (dKids hetero s.nbobjs e.kids {}).bind (fun acc =>
      if acc.idx.length ≠ s.nbobjs then .reject
      else if acc.vals.length ≠ s.nbobjs * s.nbobjs then .reject
      else if s.nbobjs < 2 then .ok none
      else if (match s.utype with | some t => useOsIndex t | none => false) then
        (if !s.os then .ok none else
          .ok (some { utype := s.utype, types := if hetero then some (acc.idx.map (·.1)) else none, kind := s.kind, name := s.name,
                      idx := acc.idx.map (·.2), values := acc.vals }))
      else if !s.gp then .ok none
      else .ok (some { utype := s.utype, types := if hetero then some (acc.idx.map (·.1)) else none, kind := s.kind, name := s.name,
                       idx := acc.idx.map (·.2), values := acc.vals })))

def distValid (d : Dist) : Bool :=
  decide (2 ≤ d.nbobjs) && decide (d.nbobjs ≤ 0xffff) && decide (d.values.length = d.nbobjs * d.nbobjs) &&
  decide (d.kind < 2 ^ 64) && d.idx.all (fun i => decide (i < 2 ^ 64)) && d.values.all (fun i => decide (i < 2 ^ 64)) &&
  (match d.types, d.utype with
   | none, some t => decide (t < 20)
   | some ts, none => decide (ts.length = d.nbobjs) && ts.all (fun t => decide (t < 20))
   | _, _ => false)

def normDist (d : Dist) : Dist := { d with name := d.name.map Xml.sanitize }

/-! ### the elements after the root object: the loop of hwloc_look_xml -/

structure Side where
  dists : List Dist := []
  memattrs : List MemAttrIn := []
  kinds : List Kind := []
  infos : List (Bytes × Bytes) := []
deriving DecidableEq, Repr, Inhabited

def exportSide (dists : List Dist) (memattrs : List MemAttr) (kinds : List Kind) (infos : List (Bytes × Bytes)) : List Elem :=
  exportDists dists ++ exportMemAttrs memattrs ++ exportKinds kinds ++ infos.map infoElem

def importSide : List Elem → Side → Res Side
  | [], s => .ok s
  | e :: es, s =>
    if e.tag = tagDist || e.tag = tagDistHetero then
      match importDist (e.tag = tagDistHetero) e with
      | .ok (some d) => importSide es { s with dists := s.dists ++ [d] }
      | .ok none => importSide es s
      | .reject => .reject
      | .outside => .outside
    else if e.tag = tagSupport then importSide es s           -- hwloc__xml_import_support: not modelled, never fails on an export
    else if e.tag = tagMemattr then
      match importMemAttr e with
      | .ok a => importSide es { s with memattrs := s.memattrs ++ [a] }
      | .reject => .reject
      | .outside => .outside
    else if e.tag = tagCpukind then
      match importKind e with
      | .ok k => importSide es { s with kinds := s.kinds ++ [k] }
      | .reject => .reject
      | .outside => .outside
    else if e.tag = tagInfo then
      match infoChild e with
      | none => .reject
      | some (some p) => importSide es { s with infos := s.infos ++ [p] }
      | some Option.none => importSide es s
    else .ok s                                                -- "ignoring unknown tag after root object": goto done

end Hw.XmlSide
