/- Hw.Io.ShmemLemmas — helper lemmas for the shared-memory model (Hw.Io.Shmem). -/
import Hw.Io.Shmem
namespace Hw.Shmem
open Hw.Gen.Shmem (Guard Pre guards)

/-! ### rounding -/

theorem roundUp_ge {a : Nat} (ha : 0 < a) (n : Nat) : n ≤ roundUp a n := by
  unfold roundUp
  have h1 := Nat.div_add_mod (n + a - 1) a
  have h2 := Nat.mod_lt (n + a - 1) ha
  rw [Nat.mul_comm] at h1
  omega

theorem roundUp_lt {a : Nat} (ha : 0 < a) (n : Nat) : roundUp a n < n + a := by
  unfold roundUp
  have h1 := Nat.div_add_mod (n + a - 1) a
  rw [Nat.mul_comm] at h1
  omega

theorem roundUp_mod (a n : Nat) : roundUp a n % a = 0 := by
  unfold roundUp
  exact Nat.mul_mod_left _ _

theorem roundUp_of_mod {a n : Nat} (ha : 0 < a) (h : n % a = 0) : roundUp a n = n := by
  have h1 := roundUp_ge ha n
  have h2 := roundUp_lt ha n
  have h3 := roundUp_mod a n
  -- two multiples of a within distance < a are equal
  have e1 := Nat.div_add_mod n a
  have e2 := Nat.div_add_mod (roundUp a n) a
  rw [h] at e1; rw [h3] at e2
  have : roundUp a n / a = n / a := by
    apply Nat.le_antisymm
    · apply Nat.le_of_lt_succ
      apply Nat.lt_of_mul_lt_mul_left (a := a)
      rw [Nat.mul_succ]; omega
    · exact Nat.div_le_div_right h1
  rw [this] at e2
  omega

/-- the literal C mask expression equals its arithmetic meaning for every power of two `2^k` (k ≤ 64) as
    long as `n + 2^k - 1` does not wrap in 64 bits -/
theorem roundUpC_eq (k n : Nat) (hk : k ≤ 64) (hn : n + 2 ^ k - 1 < 2 ^ 64) :
    roundUpC (2 ^ k) n = roundUp (2 ^ k) n := by
  unfold roundUpC roundUp
  rw [Nat.mod_eq_of_lt hn]
  have hp : 2 ^ 64 = 2 ^ (64 - k) * 2 ^ k := by rw [← Nat.pow_add]; congr 1; omega
  have hpos : 0 < 2 ^ k := Nat.two_pow_pos k
  have hpos' : 0 < 2 ^ (64 - k) := Nat.two_pow_pos _
  have hmask : 2 ^ 64 - 1 - (2 ^ k - 1) = (2 ^ (64 - k) - 1) * 2 ^ k := by
    rw [Nat.sub_mul, ← hp]; omega
  rw [hmask]
  apply Nat.eq_of_testBit_eq
  intro i
  rw [Nat.testBit_and, Nat.testBit_mul_two_pow, Nat.testBit_mul_two_pow, Nat.testBit_two_pow_sub_one,
    Nat.testBit_div_two_pow]
  by_cases hik : k ≤ i
  · have e : i - k + k = i := by omega
    rw [e]
    by_cases hi : i < 64
    · have : i - k < 64 - k := by omega
      simp [hik, this]
    · have h64 : (n + 2 ^ k - 1) < 2 ^ i :=
        Nat.lt_of_lt_of_le hn (Nat.pow_le_pow_right (by decide) (by omega))
      simp [Nat.testBit_lt_two_pow h64]
  · simp [hik]

theorem ALIGN_eq : ALIGN = 8 := rfl
theorem HEADER_SIZE_eq : HEADER_SIZE = 24 := rfl
theorem HEADER_VERSION_eq : HEADER_VERSION = 1 := rfl
theorem headerLength_eq : headerLength = 24 := by decide

theorem align8_def (n : Nat) : align8 n = (n + 7) / 8 * 8 := rfl
theorem align8_ge (n : Nat) : n ≤ align8 n := by rw [align8_def]; omega
theorem align8_lt (n : Nat) : align8 n < n + 8 := by rw [align8_def]; omega
theorem align8_mod (n : Nat) : align8 n % 8 = 0 := by rw [align8_def]; omega

/-- `tma_shmem_malloc` / `tma_get_length_malloc` as written (64-bit mask form) compute `align8` -/
theorem align8_matches_C (n : Nat) (hn : n + 7 < 2 ^ 64) : roundUpC ALIGN n = align8 n := by
  have := roundUpC_eq 3 n (by decide) (by simpa using hn)
  simpa [ALIGN_eq, align8] using this

/-! ### the two passes -/

theorem countFrom_cons (acc s : Nat) (ss : List Nat) : countFrom acc (s :: ss) = countFrom (acc + align8 s) ss := rfl

theorem countFrom_eq (acc : Nat) (ss : List Nat) : countFrom acc ss = acc + countFrom 0 ss := by
  induction ss generalizing acc with
  | nil => simp [countFrom]
  | cons s ss ih =>
    rw [countFrom_cons, countFrom_cons, ih (acc + align8 s), ih (0 + align8 s)]
    omega

/-- the bump pass ends exactly where the counting pass says -/
theorem bumpEnd_eq (cur : Nat) (ss : List Nat) : bumpEnd cur ss = cur + countFrom 0 ss := by
  induction ss generalizing cur with
  | nil => simp [bumpEnd, countFrom]
  | cons s ss ih =>
    rw [bumpEnd, ih, countFrom_cons, countFrom_eq (0 + align8 s)]
    omega

theorem bumpEnd_ge (cur : Nat) (ss : List Nat) : cur ≤ bumpEnd cur ss := by
  rw [bumpEnd_eq]; omega

theorem bump_sizes (cur : Nat) (ss : List Nat) : (bump cur ss).map (·.size) = ss := by
  induction ss generalizing cur with
  | nil => rfl
  | cons s ss ih => simp [bump, ih]

theorem bump_length (cur : Nat) (ss : List Nat) : (bump cur ss).length = ss.length := by
  rw [← List.length_map (f := (·.size)), bump_sizes]

theorem bump_mem (cur : Nat) (ss : List Nat) (hc : cur % 8 = 0) :
    ∀ b ∈ bump cur ss, b.addr % 8 = 0 ∧ cur ≤ b.addr ∧ b.addr + b.size ≤ bumpEnd cur ss := by
  induction ss generalizing cur with
  | nil => intro b hb; simp [bump] at hb
  | cons s ss ih =>
    intro b hb
    simp only [bump, List.mem_cons] at hb
    have hal := align8_ge s
    have hmod := align8_mod s
    rcases hb with rfl | hb
    · refine ⟨hc, Nat.le_refl _, ?_⟩
      have := bumpEnd_ge (cur + align8 s) ss
      simp only [bumpEnd]
      omega
    · have ⟨h1, h2, h3⟩ := ih (cur + align8 s) (by omega) b hb
      exact ⟨h1, by omega, by simpa [bumpEnd] using h3⟩

theorem bump_pairwise (cur : Nat) (ss : List Nat) :
    (bump cur ss).Pairwise (fun x y => x.addr + x.size ≤ y.addr) := by
  induction ss generalizing cur with
  | nil => simp [bump]
  | cons s ss ih =>
    simp only [bump, List.pairwise_cons]
    refine ⟨?_, ih _⟩
    intro b hb
    -- every later block starts at or after cur + align8 s (no alignment hypothesis needed for this)
    have : ∀ (c : Nat) (l : List Nat), ∀ b ∈ bump c l, c ≤ b.addr := by
      intro c l
      induction l generalizing c with
      | nil => intro b hb; simp [bump] at hb
      | cons t l ih2 =>
        intro b hb
        simp only [bump, List.mem_cons] at hb
        rcases hb with rfl | hb
        · exact Nat.le_refl _
        · have := ih2 (c + align8 t) b hb; omega
    have h := this _ _ b hb
    have := align8_ge s
    show cur + s ≤ b.addr
    omega

/-- page rounding of get_length covers header + arena -/
theorem usedBytes_le_getLength (ps : Nat) (hps : 0 < ps) (ss : List Nat) : usedBytes ss ≤ getLength ps ss := by
  unfold usedBytes getLength
  rw [bumpEnd_eq, headerLength_eq, HEADER_SIZE_eq]
  exact roundUp_ge hps _

theorem usedBytes_eq (ss : List Nat) : usedBytes ss = HEADER_SIZE + countFrom 0 ss := by
  unfold usedBytes; rw [bumpEnd_eq, headerLength_eq, HEADER_SIZE_eq]

/-! ### decisions -/

theorem zeroHeader_not_ok (addr len : Nat) : headerOk ⟨0, 0, 0, 0⟩ addr len = false := by
  simp [headerOk, HEADER_VERSION_eq]

theorem mkHeader_ok (addr len : Nat) : headerOk (mkHeader addr len) addr len = true := by
  simp [headerOk, mkHeader]

theorem headerOk_iff (h : Header) (addr len : Nat) :
    headerOk h addr len = true ↔ h = mkHeader addr len := by
  cases h with
  | mk v hl a l =>
    simp [headerOk, mkHeader]
    constructor
    · rintro ⟨⟨⟨h1, h2⟩, h3⟩, h4⟩; exact ⟨h1, h2, h3, h4⟩
    · rintro ⟨h1, h2, h3, h4⟩; exact ⟨⟨⟨h1, h2⟩, h3⟩, h4⟩

/-! ### address space -/

theorem isFree_unmap_cons (sp : Space) (addr len : Nat) (h : sp.isFree addr len = true) :
    (Space.unmap ((addr, len) :: sp) addr len).isFree addr len = true := by
  unfold Space.isFree Space.unmap at *
  rw [List.all_eq_true] at *
  intro r hr
  rw [List.mem_filter] at hr
  rcases hr with ⟨hr, hne⟩
  simp only [List.mem_cons] at hr
  rcases hr with rfl | hr
  · simp at hne
  · exact h r hr

theorem mmap_free (sp : Space) (addr len : Nat) (h : sp.isFree addr len = true) : sp.mmap addr len = .at addr := by
  simp [Space.mmap, h]

theorem mmap_busy (sp : Space) (addr len : Nat) (h : sp.isFree addr len = false) :
    ∃ a, sp.mmap addr len = .at a ∧ a ≠ addr := by
  refine ⟨addr + len + 1, by simp [Space.mmap, h], by omega⟩

/-- a non-empty range that has just been mapped is no longer free -/
theorem not_free_after_map (sp : Space) (addr len : Nat) (hl : 0 < len) :
    Space.isFree ((addr, len) :: sp) addr len = false := by
  unfold Space.isFree
  rw [List.all_cons]
  have : rangesDisjoint addr len (addr, len).1 (addr, len).2 = false := by
    simp [rangesDisjoint]; omega
  rw [this]; rfl

/-! ### world -/

theorem addLive_get (w : World) (a : Adopted) : (w.addLive a).get w.next = some a := by
  simp [World.get, World.addLive]

theorem addLive_segment (w : World) (a : Adopted) (off : Nat) : (w.addLive a).segment off = w.segment off := rfl
theorem addLive_readHeader (w : World) (a : Adopted) (off : Nat) : (w.addLive a).readHeader off = w.readHeader off := rfl
theorem addLive_abiOk (w : World) (a : Adopted) (off : Nat) : (w.addLive a).abiOk off = w.abiOk off := rfl
theorem addLive_space (w : World) (a : Adopted) : (w.addLive a).space = (a.addr, a.len) :: w.space := rfl

theorem destroy_addLive_space (w : World) (a : Adopted) :
    ((w.addLive a).destroy w.next).space = Space.unmap ((a.addr, a.len) :: w.space) a.addr a.len := by
  unfold World.destroy
  rw [addLive_get]
  rfl

theorem destroy_addLive_get (w : World) (a : Adopted) : ((w.addLive a).destroy w.next).get w.next = none := by
  unfold World.destroy
  rw [addLive_get]
  simp [World.get, World.addLive, List.find?_filter]

/-! ### guards -/

/-- shape of the generated guard table: every guard sets EPERM, every preceding check sets EINVAL -/
theorem guards_shape : ∀ g ∈ guards, g.errno = "EPERM" ∧ ∀ p ∈ g.pre, p.2 = "EINVAL" := by decide

theorem findGuard_mem {fn : String} {g : Guard} (h : findGuard fn = some g) : g ∈ guards ∧ g.fn = fn := by
  unfold findGuard at h
  have h1 := List.mem_of_find?_eq_some h
  have h2 := List.find?_some h
  exact ⟨h1, by simpa using h2⟩

theorem guardResult_cases (a : Adopted) (fd : Bool) (g : Guard) (hg : g ∈ guards) :
    guardResult a fd g = .eperm ∨
    (guardResult a fd g = .einval ∧ a.content.miscFilter = 1 ∧ (Pre.miscFilterNone, "EINVAL") ∈ g.pre) ∨
    (guardResult a fd g = .einval ∧ fd = true ∧ (Pre.distNotFound, "EINVAL") ∈ g.pre) := by
  have ⟨he, hp⟩ := guards_shape g hg
  unfold guardResult
  cases hf : g.pre.find? (fun p => preFires a fd p.1) with
  | none => left; simp [he, errOfName]
  | some p =>
    right
    have hmem := List.mem_of_find?_eq_some hf
    have hfire := List.find?_some hf
    have hp2 := hp p hmem
    obtain ⟨p1, p2⟩ := p
    simp only at hp2 hfire
    subst hp2
    cases p1 with
    | isLoaded => simp [preFires] at hfire
    | miscFilterNone =>
      left
      refine ⟨by simp [errOfName], ?_, hmem⟩
      simpa [preFires] using hfire
    | distNotFound =>
      right
      refine ⟨by simp [errOfName], ?_, hmem⟩
      simpa [preFires] using hfire

theorem stepAdopted_mapping (a : Adopted) (op : Op) :
    (stepAdopted a op).2.content = a.content ∧ (stepAdopted a op).2.addr = a.addr ∧ (stepAdopted a op).2.len = a.len
    ∧ (stepAdopted a op).2.memattrsCached = a.memattrsCached := by
  cases op with
  | call fn fd =>
    simp only [stepAdopted]
    cases findGuard fn with
    | some g => simp
    | none => simp only []; by_cases h : fn ∈ refusedBusy <;> simp [h]
  | setUserdata v => simp [stepAdopted]
  | infosAdd n v => simp [stepAdopted]
  | allow fl c n =>
    simp only [stepAdopted]
    cases hd : allowDecision a fl c n false false <;> simp
    by_cases hm : a.allowedInMapping = true
    · simp [hm]
    · simp [hm, allowApply]; split <;> simp
  | memattrQuery => simp only [stepAdopted]; split <;> simp

theorem runAdopted_mapping (a : Adopted) (ops : List Op) :
    (runAdopted a ops).2.content = a.content ∧ (runAdopted a ops).2.addr = a.addr ∧ (runAdopted a ops).2.len = a.len := by
  induction ops generalizing a with
  | nil => simp [runAdopted]
  | cons op ops ih =>
    simp only [runAdopted]
    have ⟨h1, h2, h3, _⟩ := stepAdopted_mapping a op
    have ⟨i1, i2, i3⟩ := ih (stepAdopted a op).2
    exact ⟨i1.trans h1, i2.trans h2, i3.trans h3⟩

end Hw.Shmem

namespace Hw.Shmem
/-- the two facts adopt/write establish and every call preserves: the allowed sets are private copies and the memattr
    caches of the mapped copy are valid -/
def Adopted.Sound (a : Adopted) : Prop := a.allowedInMapping = false ∧ a.memattrsCached = true

theorem stepAdopted_sound (a : Adopted) (op : Op) (h : a.Sound) : (stepAdopted a op).2.Sound := by
  obtain ⟨h1, h2⟩ := h
  cases op with
  | call fn fd =>
    simp only [stepAdopted]
    cases findGuard fn with
    | some g => exact ⟨h1, h2⟩
    | none => simp only []; by_cases hb : fn ∈ refusedBusy <;> simp [hb, Adopted.Sound, h1, h2]
  | setUserdata v => exact ⟨h1, h2⟩
  | infosAdd n v => exact ⟨h1, h2⟩
  | allow fl c n =>
    simp only [stepAdopted]
    cases hd : allowDecision a fl c n false false <;> simp only [] <;> try exact ⟨h1, h2⟩
    simp only [h1, Bool.false_eq_true, if_false, allowApply]
    split <;> exact ⟨rfl, h2⟩
  | memattrQuery => simp only [stepAdopted, h2, if_true]; exact ⟨h1, h2⟩

/-- a sound adopted topology never faults on an entry point that is guarded or refused, on `allow`, on private-copy
    operations and on memattr queries -/
theorem stepAdopted_no_fault (a : Adopted) (op : Op) (h : a.Sound)
    (hfn : ∀ fn fd, op = .call fn fd → (findGuard fn).isSome = true ∨ fn ∈ refusedBusy) :
    (stepAdopted a op).1 ≠ .fault := by
  obtain ⟨h1, h2⟩ := h
  cases op with
  | call fn fd =>
    simp only [stepAdopted]
    rcases hfn fn fd rfl with hg | hb
    · cases hg' : findGuard fn with
      | some g => simp
      | none => simp [hg'] at hg
    · cases hg' : findGuard fn with
      | some g => simp
      | none => simp [hb]
  | setUserdata v => simp [stepAdopted]
  | infosAdd n v => simp [stepAdopted]
  | allow fl c n =>
    simp only [stepAdopted]
    cases hd : allowDecision a fl c n false false <;> simp [h1]
  | memattrQuery => simp [stepAdopted, h2]

/-- on every call that does not fault, the code-faithful step returns exactly what the property demands
    (the driver answers `demanded` for the input classes that fault on the current tree) -/
theorem demanded_eq_step (a : Adopted) (op : Op) (h : (stepAdopted a op).1 ≠ .fault) :
    (stepAdopted a op).1 = demanded a op := by
  cases op with
  | call fn fd =>
    simp only [stepAdopted, demanded] at h ⊢
    cases hg : findGuard fn with
    | some g => simp
    | none =>
      simp only [hg] at h ⊢
      by_cases hb : fn ∈ refusedBusy
      · simp [hb]
      · simp [hb] at h
  | setUserdata v => rfl
  | infosAdd n v => rfl
  | allow fl c n =>
    simp only [stepAdopted, demanded] at h ⊢
    cases hd : allowDecision a fl c n false false <;> simp only [hd] at h ⊢
    by_cases hm : a.allowedInMapping = true
    · simp [hm] at h
    · simp [hm]
  | memattrQuery =>
    simp only [stepAdopted, demanded] at h ⊢
    by_cases hm : a.memattrsCached = true
    · simp [hm]
    · simp [hm] at h
end Hw.Shmem
