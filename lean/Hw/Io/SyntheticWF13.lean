/-
  Hw.Io.SyntheticWF13 — `level-entries-valid` for `toDump t`: every entry of every level is an object of that depth whose
  logical index is its position in the level — for every `t` with `topoOK t`.
-/
import Hw.Io.SyntheticWF12
namespace Hw.Syn
open Hw Hw.Topo

set_option linter.unusedSectionVars false
set_option linter.unusedSimpArgs false
set_option linter.unnecessarySimpa false

theorem filter_range_inv (p : Nat → Bool) : ∀ n j, j < ((List.range n).filter p).length →
    ∃ s, s < n ∧ p s = true ∧ ((List.range s).filter p).length = j := by
  intro n
  induction n with
  | zero => intro j hj; simp at hj
  | succ n ih =>
    intro j hj
    rw [List.range_succ, List.filter_append, List.length_append] at hj
    by_cases h1 : j < ((List.range n).filter p).length
    · obtain ⟨s, hs, hp, hl⟩ := ih j h1
      exact ⟨s, by omega, hp, hl⟩
    · by_cases hpn : p n = true
      · simp [hpn] at hj
        exact ⟨n, by omega, hpn, by omega⟩
      · simp [hpn] at hj; omega

section
variable (t : Topo) (h : OK t)
include h

/-- every position of the listing of a subtree is the position of one own object of some (d', k') below -/
theorem seg_cover (numa : Bool) : ∀ f d k, d + f = (mkTab t).D + 1 → d ≤ (mkTab t).D → k < nOf (mkTab t) d →
    ∀ i, i < (specialIds (mkTab t) numa f d k).length →
    ∃ d' k' j, d' ≤ (mkTab t).D ∧ k' < nOf (mkTab t) d' ∧ j < wSel (mkTab t) numa d' ∧
      (specialIds (mkTab t) numa f d k)[i]? = (specialIds.own (mkTab t) numa d' k')[j]? ∧
      sOff (mkTab t) numa d' k' + arOf (mkTab t) d' * sumW (mkTab t) (wSel (mkTab t) numa) (d' + 1) + j = sOff (mkTab t) numa d k + i := by
  intro f
  induction f with
  | zero => intro d k h1 h2; omega
  | succ f ih =>
    intro d k h1 hd hk i hi
    have hff : f + 1 = (mkTab t).D + 1 - d := by omega
    have hlenG := specialIds_len t h numa d k hd
    rw [← hff] at hlenG
    have hrec := sumW_rec t h (wSel (mkTab t) numa) d hd
    have hkids : (if d < (mkTab t).D then (List.range ((mkTab t).ar[d]?.getD 0)).flatMap
        (fun r => specialIds (mkTab t) numa f (d + 1) (k * ((mkTab t).ar[d]?.getD 0) + r)) else []).length =
        arOf (mkTab t) d * sumW (mkTab t) (wSel (mkTab t) numa) (d + 1) := by
      by_cases hdd : d < (mkTab t).D
      · rw [if_pos hdd]
        have hf' : f = (mkTab t).D + 1 - (d + 1) := by omega
        rw [hf']
        exact length_flatMap_const _ _ _ (fun r _ => specialIds_len t h numa (d + 1) _ hdd)
      · have : d = (mkTab t).D := by omega
        rw [if_neg hdd, this, mkTab_ar_last]; simp
    have hGeq : specialIds (mkTab t) numa (f + 1) d k = (if d < (mkTab t).D then (List.range ((mkTab t).ar[d]?.getD 0)).flatMap
        (fun r => specialIds (mkTab t) numa f (d + 1) (k * ((mkTab t).ar[d]?.getD 0) + r)) else []) ++ specialIds.own (mkTab t) numa d k := rfl
    rw [hlenG, hrec] at hi
    by_cases hik : i < arOf (mkTab t) d * sumW (mkTab t) (wSel (mkTab t) numa) (d + 1)
    · -- inside the listing of a child
      have hdd : d < (mkTab t).D := by
        rcases Nat.lt_or_ge d (mkTab t).D with h3 | h3
        · exact h3
        · have : d = (mkTab t).D := by omega
          rw [this, mkTab_ar_last] at hik; omega
      have hc : 0 < sumW (mkTab t) (wSel (mkTab t) numa) (d + 1) := by
        rcases Nat.eq_zero_or_pos (sumW (mkTab t) (wSel (mkTab t) numa) (d + 1)) with h0 | h0
        · rw [h0] at hik; omega
        · exact h0
      have hr : i / sumW (mkTab t) (wSel (mkTab t) numa) (d + 1) < arOf (mkTab t) d := by
        rw [Nat.div_lt_iff_lt_mul hc]; exact hik
      have hi' : i % sumW (mkTab t) (wSel (mkTab t) numa) (d + 1) < sumW (mkTab t) (wSel (mkTab t) numa) (d + 1) := Nat.mod_lt _ hc
      have hii : i / sumW (mkTab t) (wSel (mkTab t) numa) (d + 1) * sumW (mkTab t) (wSel (mkTab t) numa) (d + 1) +
          i % sumW (mkTab t) (wSel (mkTab t) numa) (d + 1) = i := by rw [Nat.mul_comm]; exact Nat.div_add_mod i _
      have hkc := child_lt t d k _ hdd hk hr
      have hblk : ∀ r, r < arOf (mkTab t) d →
          (specialIds (mkTab t) numa f (d + 1) (k * arOf (mkTab t) d + r)).length = sumW (mkTab t) (wSel (mkTab t) numa) (d + 1) := by
        intro r _
        have hf' : f = (mkTab t).D + 1 - (d + 1) := by omega
        rw [hf']; exact specialIds_len t h numa (d + 1) _ hdd
      have hlen' : i % sumW (mkTab t) (wSel (mkTab t) numa) (d + 1) <
          (specialIds (mkTab t) numa f (d + 1) (k * arOf (mkTab t) d + i / sumW (mkTab t) (wSel (mkTab t) numa) (d + 1))).length := by
        rw [hblk _ hr]; exact hi'
      obtain ⟨d', k', j, a1, a2, a3, a4, a5⟩ := ih (d + 1) _ (by omega) hdd hkc _ hlen'
      refine ⟨d', k', j, a1, a2, a3, ?_, ?_⟩
      · rw [hGeq, List.getElem?_append_left (by rw [hkids]; exact hik), if_pos hdd, ← a4]
        have := getElem?_flatMap_const (fun r => specialIds (mkTab t) numa f (d + 1) (k * arOf (mkTab t) d + r)) _ _ hblk _ _ hr hi'
        rw [hii] at this
        exact this
      · rw [a5]
        show sOff (mkTab t) numa d ((k * arOf (mkTab t) d + i / sumW (mkTab t) (wSel (mkTab t) numa) (d + 1)) / arOf (mkTab t) d) +
          ((k * arOf (mkTab t) d + i / sumW (mkTab t) (wSel (mkTab t) numa) (d + 1)) % arOf (mkTab t) d) *
            sumW (mkTab t) (wSel (mkTab t) numa) (d + 1) + i % sumW (mkTab t) (wSel (mkTab t) numa) (d + 1) = _
        have hapos : 0 < arOf (mkTab t) d := Nat.lt_of_le_of_lt (Nat.zero_le _) hr
        have e1 : (k * arOf (mkTab t) d + i / sumW (mkTab t) (wSel (mkTab t) numa) (d + 1)) / arOf (mkTab t) d = k := by
          rw [Nat.mul_comm, Nat.mul_add_div hapos, Nat.div_eq_of_lt hr]; rfl
        have e2 : (k * arOf (mkTab t) d + i / sumW (mkTab t) (wSel (mkTab t) numa) (d + 1)) % arOf (mkTab t) d =
            i / sumW (mkTab t) (wSel (mkTab t) numa) (d + 1) := by
          rw [Nat.mul_comm, Nat.mul_add_mod, Nat.mod_eq_of_lt hr]
        rw [e1, e2]; omega
    · -- an own object of (d, k)
      refine ⟨d, k, i - arOf (mkTab t) d * sumW (mkTab t) (wSel (mkTab t) numa) (d + 1), hd, hk, by omega, ?_, by omega⟩
      rw [hGeq, List.getElem?_append_right (by rw [hkids]; omega), hkids]

/-- every position of a special level is `postPos` of one own object -/
theorem level_cover (numa : Bool) (i : Nat) (hi : i < (specialIds (mkTab t) numa ((mkTab t).D + 1) 0 0).length) :
    ∃ d k j, d ≤ (mkTab t).D ∧ k < nOf (mkTab t) d ∧ j < wSel (mkTab t) numa d ∧
      (specialIds (mkTab t) numa ((mkTab t).D + 1) 0 0)[i]? = (specialIds.own (mkTab t) numa d k)[j]? ∧
      postPos (mkTab t) (wSel (mkTab t) numa) d k j = i := by
  obtain ⟨d, k, j, a1, a2, a3, a4, a5⟩ := seg_cover t h numa ((mkTab t).D + 1) 0 0 (by omega) (Nat.zero_le _)
    (by rw [nOf_zero]; exact Nat.one_pos) i hi
  refine ⟨d, k, j, a1, a2, a3, a4, ?_⟩
  rw [postPos_closed t h _ d k j a1, scOf_sOff t h numa d k a1 a2, a5]
  simp [sOff]

theorem tc_level_entries_valid : (fun (d : Dump) (_ : Aux) => d.levels.all (fun l =>
      (List.range l.objs.length).all (fun i => match d.obj? ((l.objs[i]?).getD (-2)) with
        | some o => o.depth == l.depth && o.lidx == i
        | none => false))) (toDump t) (mkAux (toDump t)) = true := by
  simp only [toDump_levels, List.all_append, Bool.and_eq_true]
  constructor
  · simp only [List.all_eq_true, List.mem_map, List.mem_range, forall_exists_index, and_imp, forall_apply_eq_imp_iff₂]
    intro d hd i hi
    have hd' : d ≤ (mkTab t).D := by omega
    simp only [normalLevel, List.length_map, List.length_range, n_getD0 t d hd'] at hi
    have hi0 : i < (mkTab t).n[d]?.getD 0 := by rw [n_getD0 t d hd']; exact hi
    simp only [normalLevel, List.getElem?_map, List.getElem?_range hi0, Option.map_some, Option.getD_some, lookup_normal t d i hd' hi,
      normalObj_depth, beq_self_eq_true, Bool.true_and]
    exact beq_self_eq_true i
  · simp only [specialLevels, List.all_cons, List.all_nil, List.length_nil, List.range_zero, Bool.and_true, Bool.true_and, Bool.and_eq_true]
    constructor
    · -- the NUMA level
      rw [List.all_eq_true]
      intro i hi
      have hi' : i < (specialIds (mkTab t) true ((mkTab t).D + 1) 0 0).length := List.mem_range.1 hi
      obtain ⟨d, k, j, a1, a2, a3, a4, a5⟩ := level_cover t h true i hi'
      have a3' : j < memLen (mkTab t) d := a3
      rw [own_numa_get _ d k j a3'] at a4
      have hget : (envOf t).numaL[i]? = some (numaId (mkTab t) d k j : Int) := a4
      simp only [hget, Option.getD_some, lookup_numa t d k j a1 a2 a3']
      have f0 : (numaObj (envOf t) d k j).depth = -3 := rfl
      have f1 : (numaObj (envOf t) d k j).lidx = postPos (mkTab t) (numaCnt (mkTab t)) d k j := rfl
      have a5' : postPos (mkTab t) (numaCnt (mkTab t)) d k j = i := a5
      simp [f0, f1, a5']
    · -- the memory-side cache level
      rw [List.all_eq_true]
      intro i hi
      have hi' : i < (specialIds (mkTab t) false ((mkTab t).D + 1) 0 0).length := List.mem_range.1 hi
      obtain ⟨d, k, j, a1, a2, a3, a4, a5⟩ := level_cover t h false i hi'
      have a3' : j < mcCnt (mkTab t) d := a3
      -- the j-th kept slot
      have hcnt : mcCnt (mkTab t) d = ((List.range (memLen (mkTab t) d)).filter
          (fun s => (((mkTab t).mem[d]?.getD [])[s]?.getD ⟨0, 0⟩).msc != 0)).length := by
        unfold mcCnt memLen
        rw [take_filter_len _ _ (Nat.le_refl _), List.take_length]
      rw [hcnt] at a3'
      obtain ⟨s, hs, hp, hl⟩ := filter_range_inv _ _ j a3'
      have hm' : (((mkTab t).mem[d]?.getD [])[s]?.getD ⟨0, 0⟩).msc ≠ 0 := by simpa using hp
      have hslot : mcSlot (mkTab t) d s = j := by
        unfold mcSlot
        rw [← take_filter_len _ s (by unfold memLen at hs; omega)]; exact hl
      rw [← hslot, own_mc_get _ d k s hs hm'] at a4
      have hget : (envOf t).mcL[i]? = some (memId (mkTab t) d k s : Int) := a4
      simp only [hget, Option.getD_some, lookup_mc t d k s a1 a2 hs hm']
      have f0 : (mcObj (envOf t) d k s).depth = -8 := rfl
      have f1 : (mcObj (envOf t) d k s).lidx = postPos (mkTab t) (mcCnt (mkTab t)) d k (mcSlot (mkTab t) d s) := rfl
      have a5' : postPos (mkTab t) (mcCnt (mkTab t)) d k j = i := a5
      rw [← hslot] at a5'
      simp [f0, f1, a5']

end

end Hw.Syn
