/-
  Hw.Io.SyntheticWF11 — `in-its-level` for `toDump t`: every object is listed in the level of its depth at its logical
  index, the level has its type, and the cousin links are the neighbours in the level — for every `t` with `topoOK t`.
-/
import Hw.Io.SyntheticWF10
namespace Hw.Syn
open Hw Hw.Topo

set_option linter.unusedSectionVars false
set_option linter.unusedSimpArgs false
set_option linter.unnecessarySimpa false

/-- the element that a kept index contributes to a `filterMap` over `range n` sits at the number of kept indexes before it -/
theorem filterMap_range_at {α : Type} (p : Nat → Bool) (v : Nat → α) : ∀ n s, s < n → p s = true →
    ((List.range n).filterMap (fun i => if p i then some (v i) else none))[((List.range s).filter p).length]? = some (v s) := by
  intro n s hs hp
  have hlen : ∀ m, ((List.range m).filterMap (fun i => if p i then some (v i) else none)).length = ((List.range m).filter p).length := by
    intro m
    induction m with
    | zero => rfl
    | succ m ih =>
      rw [List.range_succ, List.filterMap_append, List.filter_append, List.length_append, List.length_append, ih]
      by_cases hpm : p m = true <;> simp [hpm]
  obtain ⟨m, rfl⟩ : ∃ m, n = s + 1 + m := ⟨n - s - 1, by omega⟩
  rw [List.range_add, List.filterMap_append, List.range_succ, List.filterMap_append]
  rw [List.getElem?_append_left (by
    rw [List.length_append, hlen]
    simp [hp])]
  rw [List.getElem?_append_right (by rw [hlen]; exact Nat.le_refl _), hlen]
  simp [hp]

theorem own_numa_get (T : DTab) (d k s : Nat) (hs : s < memLen T d) :
    (specialIds.own T true d k)[s]? = some (numaId T d k s : Int) := by
  unfold specialIds.own memLen at *
  have := filterMap_range_at (fun _ => true) (fun i => (numaId T d k i : Int)) (T.mem[d]?.getD []).length s hs rfl
  have hl : ((List.range s).filter (fun _ => true)).length = s := by
    rw [List.filter_eq_self.2 (fun _ _ => rfl), List.length_range]
  rw [hl] at this
  simpa using this

theorem take_filter_len (ms : List MemChild) : ∀ s, s ≤ ms.length →
    ((List.range s).filter (fun i => (ms[i]?.getD ⟨0, 0⟩).msc != 0)).length = ((ms.take s).filter (fun m => m.msc != 0)).length := by
  intro s
  induction s with
  | zero => intro _; rfl
  | succ s ih =>
    intro hs
    have hlt : s < ms.length := by omega
    rw [List.range_succ, List.filter_append, List.length_append, ih (by omega), List.take_add_one, List.getElem?_eq_getElem hlt,
      List.filter_append, List.length_append]
    congr 1
    by_cases h0 : ms[s].msc = 0 <;> simp [List.filter_cons, List.getElem?_eq_getElem hlt, h0]

theorem own_mc_get (T : DTab) (d k s : Nat) (hs : s < memLen T d) (hm : ((T.mem[d]?.getD [])[s]?.getD ⟨0, 0⟩).msc ≠ 0) :
    (specialIds.own T false d k)[mcSlot T d s]? = some (memId T d k s : Int) := by
  unfold specialIds.own mcSlot memLen at *
  have hp : (fun i => ((T.mem[d]?.getD [])[i]?.getD ⟨0, 0⟩).msc != 0) s = true := by simpa using hm
  have := filterMap_range_at (fun i => ((T.mem[d]?.getD [])[i]?.getD ⟨0, 0⟩).msc != 0) (fun i => (memId T d k i : Int))
    (T.mem[d]?.getD []).length s hs hp
  rw [take_filter_len _ s (by omega)] at this
  rw [← this]
  have hfun : (fun s => if false = true then some (numaId T d k s : Int)
        else if ((T.mem[d]?.getD [])[s]?.getD ⟨0, 0⟩).msc ≠ 0 then some (memId T d k s : Int) else none) =
      (fun i => if (((T.mem[d]?.getD [])[i]?.getD ⟨0, 0⟩).msc != 0) = true then some (memId T d k i : Int) else none) := by
    funext i
    by_cases h0 : ((T.mem[d]?.getD [])[i]?.getD ⟨0, 0⟩).msc = 0 <;> simp [h0]
  rw [hfun]

theorem mcSlot_lt (T : DTab) (d s : Nat) (hs : s < memLen T d) (hm : ((T.mem[d]?.getD [])[s]?.getD ⟨0, 0⟩).msc ≠ 0) :
    mcSlot T d s < mcCnt T d := by
  unfold mcSlot mcCnt memLen at *
  generalize T.mem[d]?.getD [] = ms at *
  have h1 : ms = ms.take s ++ ms[s] :: ms.drop (s + 1) := by
    rw [← List.drop_eq_getElem_cons hs, List.take_append_drop]
  have hm' : ms[s].msc ≠ 0 := by simpa [List.getElem?_eq_getElem hs] using hm
  conv => rhs; rw [h1]
  rw [List.filter_append, List.length_append, List.filter_cons]
  simp [hm']

theorem neighbour_prev (l : List Int) (i : Nat) (hi : i < l.length) :
    neighbour l i false = if i = 0 then -1 else (l[i - 1]?).getD (-2) := by
  unfold neighbour
  simp only [Bool.false_eq_true, if_false]
  split
  · rfl
  · rw [List.getElem?_eq_getElem (by omega)]; rfl

theorem neighbour_next (l : List Int) (i : Nat) : neighbour l i true = (l[i + 1]?).getD (-1) := by
  unfold neighbour; simp

section
variable (t : Topo) (h : OK t)
include h

theorem cl_in_its_level (o : Obj) (ho : o ∈ (toDump t).objs) :
    (fun (d : Dump) (_ : Aux) (o : Obj) => match levelOf d o.depth with
      | none => false
      | some l => (l.objs[o.lidx]?) == some (o.id : Int) && l.type == (o.type : Int) &&
                  o.prevCousin == (if o.lidx = 0 then -1 else (l.objs[o.lidx - 1]?).getD (-2)) &&
                  o.nextCousin == (l.objs[o.lidx + 1]?).getD (-1)) (toDump t) (mkAux (toDump t)) o = true := by
  cases objs_kind t o ho with
  | normal d k hd hk e =>
    have hk0 : k < (mkTab t).n[d]?.getD 0 := by rw [n_getD0 t d hd]; exact hk
    have hlv := levelOf_normal t d hd
    have f1 : (normalObj (envOf t) d k).lidx = k := rfl
    have f2 : (normalObj (envOf t) d k).prevCousin = if k > 0 then (nid (mkTab t) d (k - 1) : Int) else -1 := rfl
    have f3 : (normalObj (envOf t) d k).nextCousin = if k + 1 < nOf (mkTab t) d then (nid (mkTab t) d (k + 1) : Int) else -1 := rfl
    simp only [e, normalObj_depth, hlv, normalLevel, f1, f2, f3, normalObj_id, normalObj_type, envOf_T, types_get t d hd,
      List.getElem?_map, List.getElem?_range hk0, Option.map_some, beq_self_eq_true, Bool.true_and, Bool.and_eq_true, beq_iff_eq]
    rw [n_getD0 t d hd]
    constructor
    · rcases Nat.eq_zero_or_pos k with h0 | h0
      · subst h0; simp
      · rw [if_pos h0, if_neg (by omega), List.getElem?_range (by omega)]; rfl
    · by_cases hn : k + 1 < nOf (mkTab t) d
      · rw [if_pos hn, List.getElem?_range hn]; rfl
      · rw [if_neg hn, List.getElem?_eq_none (by simpa using hn)]; rfl
  | numa d k s hd hk hs e =>
    have hlv : levelOf (toDump t) (-3) = some ⟨-3, 14, (envOf t).numaL⟩ := by rw [levelOf_special t (-3) (by decide)]; rfl
    have hat : (envOf t).numaL[postPos (mkTab t) (numaCnt (mkTab t)) d k s]? = some (numaId (mkTab t) d k s : Int) := by
      have := level_at_postPos t h true d k s hd hk hs
      rw [own_numa_get _ d k s hs] at this
      exact this
    have hlt : postPos (mkTab t) (numaCnt (mkTab t)) d k s < (envOf t).numaL.length := by
      rcases Nat.lt_or_ge (postPos (mkTab t) (numaCnt (mkTab t)) d k s) (envOf t).numaL.length with h1 | h1
      · exact h1
      · rw [List.getElem?_eq_none h1] at hat; cases hat
    have f0 : (numaObj (envOf t) d k s).depth = -3 := rfl
    have f1 : (numaObj (envOf t) d k s).lidx = postPos (mkTab t) (numaCnt (mkTab t)) d k s := rfl
    have f2 : (numaObj (envOf t) d k s).prevCousin = neighbour (envOf t).numaL (postPos (mkTab t) (numaCnt (mkTab t)) d k s) false := rfl
    have f3 : (numaObj (envOf t) d k s).nextCousin = neighbour (envOf t).numaL (postPos (mkTab t) (numaCnt (mkTab t)) d k s) true := rfl
    have f4 : (numaObj (envOf t) d k s).id = numaId (mkTab t) d k s := rfl
    have f5 : (numaObj (envOf t) d k s).type = tNUMA := rfl
    simp only [e, f0, hlv, f1, f2, f3, f4, f5, hat, neighbour_prev _ _ hlt, neighbour_next, beq_self_eq_true, Bool.true_and, Bool.and_true]
    decide
  | mc d k s hd hk hs hm e =>
    have hlv : levelOf (toDump t) (-8) = some ⟨-8, 15, (envOf t).mcL⟩ := by rw [levelOf_special t (-8) (by decide)]; rfl
    have hm' : (((mkTab t).mem[d]?.getD [])[s]?.getD ⟨0, 0⟩).msc ≠ 0 := hm
    have hat : (envOf t).mcL[postPos (mkTab t) (mcCnt (mkTab t)) d k (mcSlot (mkTab t) d s)]? = some (memId (mkTab t) d k s : Int) := by
      have := level_at_postPos t h false d k (mcSlot (mkTab t) d s) hd hk (mcSlot_lt _ d s hs hm')
      rw [own_mc_get _ d k s hs hm'] at this
      exact this
    have hlt : postPos (mkTab t) (mcCnt (mkTab t)) d k (mcSlot (mkTab t) d s) < (envOf t).mcL.length := by
      rcases Nat.lt_or_ge (postPos (mkTab t) (mcCnt (mkTab t)) d k (mcSlot (mkTab t) d s)) (envOf t).mcL.length with h1 | h1
      · exact h1
      · rw [List.getElem?_eq_none h1] at hat; cases hat
    have f0 : (mcObj (envOf t) d k s).depth = -8 := rfl
    have f1 : (mcObj (envOf t) d k s).lidx = postPos (mkTab t) (mcCnt (mkTab t)) d k (mcSlot (mkTab t) d s) := rfl
    have f2 : (mcObj (envOf t) d k s).prevCousin = neighbour (envOf t).mcL (postPos (mkTab t) (mcCnt (mkTab t)) d k (mcSlot (mkTab t) d s)) false := rfl
    have f3 : (mcObj (envOf t) d k s).nextCousin = neighbour (envOf t).mcL (postPos (mkTab t) (mcCnt (mkTab t)) d k (mcSlot (mkTab t) d s)) true := rfl
    have f4 : (mcObj (envOf t) d k s).id = memId (mkTab t) d k s := rfl
    have f5 : (mcObj (envOf t) d k s).type = tMEMCACHE := rfl
    simp only [e, f0, hlv, f1, f2, f3, f4, f5, hat, neighbour_prev _ _ hlt, neighbour_next, beq_self_eq_true, Bool.true_and, Bool.and_true]
    decide

end

end Hw.Syn
