/-
  Hw.Io.SyntheticWF3 — the children of every object of `toDump t`, as the sub-list of the object list selected by the
  parent link (`childrenOf`), for every `t` with `topoOK t`; used for the aggregate clauses of `Hw.Topo.WF` (`mkAux`).
-/
import Hw.Io.SyntheticWF2
namespace Hw.Syn
open Hw Hw.Topo

set_option linter.unusedSectionVars false
set_option linter.unusedSimpArgs false

/-- objects whose parent link is `i` -/
def hasParent (i : Nat) (o : Obj) : Bool := decide (0 ≤ o.parent) && o.parent.toNat == i

theorem hasParent_iff (i : Nat) (o : Obj) : hasParent i o = true ↔ o.parent = (i : Int) := by
  unfold hasParent
  simp only [Bool.and_eq_true, decide_eq_true_eq, beq_iff_eq]
  omega

/-- normal children, then the first object of every memory slot -/
def kidsOf (E : DEnv) (d k : Nat) : List Obj :=
  (List.range (arOf E.T d)).map (fun r => normalObj E (d + 1) (k * arOf E.T d + r)) ++
  (List.range (memLen E.T d)).map (fun s => firstObj E d k s)

theorem objs_pairwise (t : Topo) : (toDump t).objs.Pairwise (fun a b => a.id < b.id) := by
  have h := toDump_ids t
  have : ((toDump t).objs.map (·.id)).Pairwise (· < ·) := by rw [h]; exact List.pairwise_lt_range
  exact List.pairwise_map.1 this

theorem filter_eq_of_sorted (l l' : List Obj) (p : Obj → Bool) (hl : l.Pairwise (fun a b => a.id < b.id))
    (hl' : l'.Pairwise (fun a b => a.id < b.id)) (hmem : ∀ x, x ∈ l' ↔ (x ∈ l ∧ p x = true)) : l.filter p = l' := by
  have h1 : (l.filter p).Pairwise (fun a b => a.id < b.id) := hl.filter p
  have nd : ∀ m : List Obj, m.Pairwise (fun a b => a.id < b.id) → m.Nodup := by
    intro m hm
    exact hm.imp (fun {a b} hab heq => by rw [heq] at hab; exact Nat.lt_irrefl _ hab)
  have hp : (l.filter p).Perm l' := by
    rw [List.perm_ext_iff_of_nodup (nd _ h1) (nd _ hl')]
    intro a; rw [hmem a, List.mem_filter]
  exact List.Perm.eq_of_pairwise (le := fun a b => a.id < b.id) (fun a b _ _ h1 h2 => absurd h1 (by omega)) h1 hl' hp

theorem nid_inj (t : Topo) (d k d' k' : Nat) (hd : d ≤ (mkTab t).D) (hk : k < nOf (mkTab t) d) (hd' : d' ≤ (mkTab t).D)
    (hk' : k' < nOf (mkTab t) d') (he : nid (mkTab t) d k = nid (mkTab t) d' k') : d = d' ∧ k = k' := by
  have h1 := lookup_normal t d k hd hk
  have h2 := lookup_normal t d' k' hd' hk'
  rw [he, h2] at h1
  have h3 := Option.some.inj h1
  have e1 : (normalObj (envOf t) d' k').depth = (normalObj (envOf t) d k).depth := by rw [h3]
  have e2 : (normalObj (envOf t) d' k').lidx = (normalObj (envOf t) d k).lidx := by rw [h3]
  simp only [normalObj_depth] at e1
  have e2' : k' = k := e2
  omega

theorem kidsOf_pairwise (t : Topo) (d k : Nat) (hd : d ≤ (mkTab t).D) :
    (kidsOf (envOf t) d k).Pairwise (fun a b => a.id < b.id) := by
  unfold kidsOf
  rw [List.pairwise_append]
  refine ⟨?_, ?_, ?_⟩
  · rw [List.pairwise_map]
    refine List.Pairwise.imp_of_mem ?_ List.pairwise_lt_range
    intro r r' hr hr' hlt
    have hr1 : r < arOf (mkTab t) d := List.mem_range.1 hr
    have hr2 : r' < arOf (mkTab t) d := List.mem_range.1 hr'
    simp only [normalObj_id, envOf_T]
    rw [nid_child _ d k r hr1, nid_child _ d k r' hr2]
    have hd' := ar_pos_lt t d hd (by omega)
    have hsz : 1 ≤ szOf (mkTab t) (d + 1) := by rw [mkTab_sz t (d + 1) hd']; omega
    have := Nat.mul_le_mul_right (szOf (mkTab t) (d + 1)) (Nat.succ_le_of_lt hlt)
    rw [Nat.succ_mul] at this
    omega
  · rw [List.pairwise_map]
    refine List.Pairwise.imp_of_mem ?_ List.pairwise_lt_range
    intro s s' hs hs' hlt
    have hs2 : s' < memLen (mkTab t) d := List.mem_range.1 hs'
    rw [(firstObj_fields (envOf t) d k s).1, (firstObj_fields (envOf t) d k s').1]
    have := memId_mono (mkTab t) d k (s' - s) s (by omega)
    have e : s + (s' - s) = s' := by omega
    rw [e] at this
    show memId (mkTab t) d k s < memId (mkTab t) d k s'
    omega
  · intro a ha b hb
    obtain ⟨r, hr, rfl⟩ := List.mem_map.1 ha
    obtain ⟨s, hs, rfl⟩ := List.mem_map.1 hb
    have hr1 : r < arOf (mkTab t) d := List.mem_range.1 hr
    rw [(firstObj_fields (envOf t) d k s).1]
    simp only [normalObj_id, envOf_T]
    rw [nid_child _ d k r hr1]
    have hd' := ar_pos_lt t d hd (by omega)
    have hs1 : s < memLen (mkTab t) d := List.mem_range.1 hs
    have h1 := memId_mono (mkTab t) d k s 0 (by omega)
    simp only [Nat.zero_add] at h1
    have h2 : memId (mkTab t) d k 0 = nid (mkTab t) d k + 1 + arOf (mkTab t) d * szOf (mkTab t) (d + 1) := by
      unfold memId arOf szOf; simp
    have := Nat.mul_le_mul_right (szOf (mkTab t) (d + 1)) (Nat.succ_le_of_lt hr1)
    rw [Nat.succ_mul] at this
    have hsz : 1 ≤ szOf (mkTab t) (d + 1) := by rw [mkTab_sz t (d + 1) hd']; omega
    omega

theorem firstObj_mem (t : Topo) (d k s : Nat) (hd : d ≤ (mkTab t).D) (hk : k < nOf (mkTab t) d) (hs : s < memLen (mkTab t) d) :
    firstObj (envOf t) d k s ∈ (toDump t).objs := by
  unfold firstObj
  split
  · rename_i hm; exact mcObj_mem t d k s hd hk hs hm
  · exact numaObj_mem t d k s hd hk hs

section
variable (t : Topo) (h : OK t)
include h

theorem memId_ne_nid (d k s d' k' : Nat) (hd : d ≤ (mkTab t).D) (hk : k < nOf (mkTab t) d) (hs : s < memLen (mkTab t) d)
    (hm : (slotM (envOf t) d s).msc ≠ 0) (hd' : d' ≤ (mkTab t).D) (hk' : k' < nOf (mkTab t) d') :
    memId (mkTab t) d k s ≠ nid (mkTab t) d' k' := by
  intro he
  have h1 := lookup_mc t d k s hd hk hs hm
  have h2 := lookup_normal t d' k' hd' hk'
  rw [he, h2] at h1
  have h3 := Option.some.inj h1
  have e1 : (normalObj (envOf t) d' k').type = tMEMCACHE := by rw [h3]; rfl
  rw [normalObj_type] at e1
  have := (normal_facts _ (isNormal_lt _ (ntype_normal t h d' hd'))).2.1
  exact this e1

/-- **the children of a normal object**: the objects whose parent link is (d, k) are, in the order of the object list, its
normal children followed by the first object of each of its memory slots -/
theorem kids_filter (d k : Nat) (hd : d ≤ (mkTab t).D) (hk : k < nOf (mkTab t) d) :
    (toDump t).objs.filter (hasParent (nid (mkTab t) d k)) = kidsOf (envOf t) d k := by
  apply filter_eq_of_sorted _ _ _ (objs_pairwise t) (kidsOf_pairwise t d k hd)
  intro x
  rw [hasParent_iff]
  constructor
  · intro hx
    unfold kidsOf at hx
    rcases List.mem_append.1 hx with hx | hx
    · obtain ⟨r, hr, rfl⟩ := List.mem_map.1 hx
      have hr1 : r < arOf (mkTab t) d := List.mem_range.1 hr
      have hd' := ar_pos_lt t d hd (by omega)
      have hkc := child_lt t d k r hd' hk hr1
      refine ⟨normalObj_mem t (d + 1) _ hd' hkc, ?_⟩
      rw [envOf_T, (normalObj_parent t d _ hd').1]
      have e1 : (k * arOf (mkTab t) d + r) / arOf (mkTab t) d = k := by
        rw [Nat.mul_comm, Nat.mul_add_div (by omega), Nat.div_eq_of_lt hr1]; omega
      rw [e1]
    · obtain ⟨s, hs, rfl⟩ := List.mem_map.1 hx
      have hs1 : s < memLen (mkTab t) d := List.mem_range.1 hs
      exact ⟨firstObj_mem t d k s hd hk hs1, (firstObj_fields (envOf t) d k s).2.1⟩
  · intro ⟨hx, hp⟩
    unfold kidsOf
    rcases mem_kind t x hx with ⟨d', k', hd', hk', e⟩ | ⟨d', k', s, hd', hk', hs, e⟩ | ⟨d', k', s, hd', hk', hs, hm, e⟩
    · cases d' with
      | zero =>
        rw [e] at hp
        have : (normalObj (envOf t) 0 k').parent = -1 := rfl
        rw [this] at hp; omega
      | succ d' =>
        have hd'' : d' < (mkTab t).D := hd'
        rw [e, (normalObj_parent t d' k' hd'').1] at hp
        have ⟨ha, hlt⟩ := div_lt_parent t d' k' hd'' hk'
        have hinj := nid_inj t d' (k' / arOf (mkTab t) d') d k (Nat.le_of_lt hd'') hlt hd hk (by omega)
        obtain ⟨rfl, hk2⟩ := hinj
        refine List.mem_append_left _ (List.mem_map.2 ⟨k' % arOf (mkTab t) d', List.mem_range.2 (Nat.mod_lt _ ha), ?_⟩)
        rw [e, envOf_T, ← hk2, Nat.mul_comm, Nat.div_add_mod]
    · rw [e, (firstObj_fields (envOf t) d' k' s).2.1] at hp
      have hinj := nid_inj t d' k' d k hd' hk' hd hk (by rw [envOf_T] at hp; omega)
      obtain ⟨rfl, rfl⟩ := hinj
      exact List.mem_append_right _ (List.mem_map.2 ⟨s, List.mem_range.2 hs, e.symm⟩)
    · rw [e, (numaObj_mc (envOf t) d' k' s hm).2.1] at hp
      exact absurd (by rw [envOf_T] at hp; omega) (memId_ne_nid t h d' k' s d k hd' hk' hs hm hd hk)

/-- the only child of a memory-side cache is its NUMA node -/
theorem mc_kids_filter (d k s : Nat) (hd : d ≤ (mkTab t).D) (hk : k < nOf (mkTab t) d) (hs : s < memLen (mkTab t) d)
    (hm : (slotM (envOf t) d s).msc ≠ 0) :
    (toDump t).objs.filter (hasParent (memId (mkTab t) d k s)) = [numaObj (envOf t) d k s] := by
  apply filter_eq_of_sorted _ _ _ (objs_pairwise t) (List.pairwise_singleton _ _)
  intro x
  rw [hasParent_iff]
  constructor
  · intro hx
    simp only [List.mem_singleton] at hx
    subst hx
    exact ⟨numaObj_mem t d k s hd hk hs, (numaObj_mc (envOf t) d k s hm).2.1⟩
  · intro ⟨hx, hp⟩
    simp only [List.mem_singleton]
    rcases mem_kind t x hx with ⟨d', k', hd', hk', e⟩ | ⟨d', k', s', hd', hk', hs', e⟩ | ⟨d', k', s', hd', hk', hs', hm', e⟩
    · cases d' with
      | zero =>
        rw [e] at hp
        have : (normalObj (envOf t) 0 k').parent = -1 := rfl
        rw [this] at hp; omega
      | succ d' =>
        have hd'' : d' < (mkTab t).D := hd'
        rw [e, (normalObj_parent t d' k' hd'').1] at hp
        have ⟨ha, hlt⟩ := div_lt_parent t d' k' hd'' hk'
        exact absurd (by omega) (memId_ne_nid t h d k s d' _ hd hk hs hm (Nat.le_of_lt hd'') hlt)
    · rw [e, (firstObj_fields (envOf t) d' k' s').2.1] at hp
      exact absurd (by rw [envOf_T] at hp; omega) (memId_ne_nid t h d k s d' k' hd hk hs hm hd' hk')
    · rw [e, (numaObj_mc (envOf t) d' k' s' hm').2.1] at hp
      -- two memory-side caches with the same id are the same object
      have h1 := lookup_mc t d k s hd hk hs hm
      have h2 := lookup_mc t d' k' s' hd' hk' hs' hm'
      have he : memId (mkTab t) d' k' s' = memId (mkTab t) d k s := by rw [envOf_T] at hp; omega
      rw [he, h1] at h2
      have h3 := Option.some.inj h2
      have e1 : (mcObj (envOf t) d k s).parent = (mcObj (envOf t) d' k' s').parent := by rw [h3]
      have e2 : (mcObj (envOf t) d k s).rank = (mcObj (envOf t) d' k' s').rank := by rw [h3]
      have e1' : (nid (mkTab t) d k : Int) = (nid (mkTab t) d' k' : Int) := e1
      have e2' : s = s' := e2
      obtain ⟨rfl, rfl⟩ := nid_inj t d k d' k' hd hk hd' hk' (by omega)
      subst e2'
      exact e

/-- a NUMA node has no children -/
theorem numa_kids_filter (d k s : Nat) (hd : d ≤ (mkTab t).D) (hk : k < nOf (mkTab t) d) (hs : s < memLen (mkTab t) d) :
    (toDump t).objs.filter (hasParent (numaId (mkTab t) d k s)) = [] := by
  rw [List.filter_eq_nil_iff]
  intro x hx
  rw [hasParent_iff]
  intro hp
  have hl := lookup_numa t d k s hd hk hs
  -- the parent of x is a normal object or a memory-side cache, never a NUMA node
  have hpk := cl_parent_kind t h x hx
  simp only [hp, hl] at hpk
  have hty : (numaObj (envOf t) d k s).type = tNUMA := rfl
  rw [hty] at hpk
  have h1 : isNormal tNUMA = false := rfl
  have h2 : (tNUMA == tMEMCACHE) = false := rfl
  have h3 : isIO tNUMA = false := rfl
  rcases mem_kind t x hx with ⟨d', k', hd', hk', e⟩ | ⟨d', k', s', hd', hk', hs', e⟩ | ⟨d', k', s', hd', hk', hs', hm', e⟩
  · rw [e, normalObj_type, ntype_normal t h d' hd'] at hpk
    simp [h1] at hpk
  · have := (firstObj_type (envOf t) d' k' s').1
    have h4 := (firstObj_type (envOf t) d' k' s').2
    rw [e, this, h4] at hpk
    simp [h1, h2] at hpk
  · rw [e] at hpk
    have h5 : (numaObj (envOf t) d' k' s').type = tNUMA := rfl
    rw [h5] at hpk
    have h6 : isMemory tNUMA = true := rfl
    simp [h1, h2, h6] at hpk

end

end Hw.Syn
