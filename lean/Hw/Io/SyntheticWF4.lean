/-
  Hw.Io.SyntheticWF4 — the aggregate clauses of `Hw.Topo.WF` (those that go through `mkAux`) for `toDump t`, for every `t`
  with `topoOK t`: children counts, memory-side-cache nodesets, cpuset = disjoint union of the children's cpusets.
-/
import Hw.Io.SyntheticWF3
import Hw.Io.SyntheticAux
namespace Hw.Syn
open Hw Hw.Topo

set_option linter.unusedSectionVars false
set_option linter.unusedSimpArgs false

theorem parentIs_eq : parentIs = hasParent := rfl

/-- counts after folding `cellStep` -/
theorem fold_counts : ∀ (l : List Obj) (c : Cell),
    (l.foldl cellStep c).nNormal = c.nNormal + l.countP (fun o => isNormal o.type) ∧
    (l.foldl cellStep c).nMemory = c.nMemory + l.countP (fun o => !isNormal o.type && isMemory o.type) ∧
    (l.foldl cellStep c).nIO = c.nIO + l.countP (fun o => !isNormal o.type && !isMemory o.type && isIO o.type) ∧
    (l.foldl cellStep c).nMisc = c.nMisc + l.countP (fun o => !isNormal o.type && !isMemory o.type && !isIO o.type) := by
  intro l
  induction l with
  | nil => intro c; simp
  | cons o l ih =>
    intro c
    rw [List.foldl_cons]
    obtain ⟨h1, h2, h3, h4⟩ := ih (cellStep c o)
    rw [h1, h2, h3, h4]
    simp only [List.countP_cons]
    unfold cellStep
    by_cases hN : isNormal o.type = true
    · simp [hN]; omega
    · by_cases hM : isMemory o.type = true
      · simp [hN, hM]; omega
      · by_cases hI : isIO o.type = true
        · simp [hN, hM, hI]; omega
        · simp [hN, hM, hI]; omega

theorem countP_all {α : Type} (p : α → Bool) (l : List α) (h : ∀ x ∈ l, p x = true) : l.countP p = l.length := by
  rw [List.countP_eq_length]; exact h

theorem countP_none {α : Type} (p : α → Bool) (l : List α) (h : ∀ x ∈ l, p x = false) : l.countP p = 0 := by
  rw [List.countP_eq_zero]; intro x hx; rw [h x hx]; simp

section
variable (t : Topo) (h : OK t)
include h

theorem obj_id_lt (o : Obj) (ho : o ∈ (toDump t).objs) : o.id < (toDump t).objs.length := by
  have := lookup_of_mem t o ho
  have := idOk_of_lookup _ _ _ this
  unfold idOk at this
  simp only [Bool.or_eq_true, beq_iff_eq, Bool.and_eq_true, decide_eq_true_eq, Int.toNat_natCast] at this
  omega

theorem cell_normal (d k : Nat) (hd : d ≤ (mkTab t).D) (hk : k < nOf (mkTab t) d) :
    cellOf (auxFold (toDump t)) (nid (mkTab t) d k) = (kidsOf (envOf t) d k).foldl cellStep cell0 := by
  have hlt : nid (mkTab t) d k < (toDump t).objs.length := obj_id_lt t h _ (normalObj_mem t d k hd hk)
  rw [auxFold_cell _ _ hlt, parentIs_eq, kids_filter t h d k hd hk]

theorem kids_counts (d k : Nat) (hd : d ≤ (mkTab t).D) :
    (kidsOf (envOf t) d k).countP (fun o => isNormal o.type) = arOf (mkTab t) d ∧
    (kidsOf (envOf t) d k).countP (fun o => !isNormal o.type && isMemory o.type) = memLen (mkTab t) d ∧
    (kidsOf (envOf t) d k).countP (fun o => !isNormal o.type && !isMemory o.type && isIO o.type) = 0 ∧
    (kidsOf (envOf t) d k).countP (fun o => !isNormal o.type && !isMemory o.type && !isIO o.type) = 0 := by
  unfold kidsOf
  simp only [List.countP_append]
  have hn : ∀ x ∈ (List.range (arOf (envOf t).T d)).map (fun r => normalObj (envOf t) (d + 1) (k * arOf (envOf t).T d + r)),
      isNormal x.type = true := by
    intro x hx
    obtain ⟨r, hr, rfl⟩ := List.mem_map.1 hx
    have hr1 : r < arOf (mkTab t) d := List.mem_range.1 hr
    rw [normalObj_type]
    exact ntype_normal t h (d + 1) (ar_pos_lt t d hd (by omega))
  have hm : ∀ x ∈ (List.range (memLen (envOf t).T d)).map (fun s => firstObj (envOf t) d k s),
      isNormal x.type = false ∧ isMemory x.type = true := by
    intro x hx
    obtain ⟨s, _, rfl⟩ := List.mem_map.1 hx
    exact firstObj_type (envOf t) d k s
  refine ⟨?_, ?_, ?_, ?_⟩
  · rw [countP_all _ _ hn, countP_none _ _ (fun x hx => (hm x hx).1)]; simp; rfl
  · rw [countP_none _ _ (fun x hx => by rw [hn x hx]; rfl), countP_all _ _ (fun x hx => by rw [(hm x hx).1, (hm x hx).2]; rfl)]; simp; rfl
  · rw [countP_none _ _ (fun x hx => by rw [hn x hx]; rfl), countP_none _ _ (fun x hx => by rw [(hm x hx).1, (hm x hx).2]; rfl)]
  · rw [countP_none _ _ (fun x hx => by rw [hn x hx]; rfl), countP_none _ _ (fun x hx => by rw [(hm x hx).1, (hm x hx).2]; rfl)]

theorem cl_children_counts (o : Obj) (ho : o ∈ (toDump t).objs) :
    (fun (_ : Dump) (a : Aux) (o : Obj) => getN a.nNormal o.id == o.arity && getN a.nMemory o.id == o.marity &&
      getN a.nIO o.id == o.ioarity && getN a.nMisc o.id == o.miscarity) (toDump t) (mkAux (toDump t)) o = true := by
  obtain ⟨_, _, _, _, _, e6, e7, e8, e9⟩ := mkAux_fold (toDump t)
  simp only [e6, e7, e8, e9]
  show ((cellOf (auxFold (toDump t)) o.id).nNormal == o.arity && (cellOf (auxFold (toDump t)) o.id).nMemory == o.marity &&
      (cellOf (auxFold (toDump t)) o.id).nIO == o.ioarity && (cellOf (auxFold (toDump t)) o.id).nMisc == o.miscarity) = true
  cases objs_kind t o ho with
  | normal d k hd hk e =>
    have hc := cell_normal t h d k hd hk
    have hf := fold_counts (kidsOf (envOf t) d k) cell0
    have hk' := kids_counts t h d k hd
    rw [e, normalObj_id, envOf_T, hc, hf.1, hf.2.1, hf.2.2.1, hf.2.2.2, hk'.1, hk'.2.1, hk'.2.2.1, hk'.2.2.2, normalObj_arity,
      normalObj_marity, envOf_T]
    simp [cell0]
    exact ⟨rfl, rfl⟩
  | numa d k s hd hk hs e =>
    have hid : (numaObj (envOf t) d k s).id = numaId (mkTab t) d k s := rfl
    have hlt : numaId (mkTab t) d k s < (toDump t).objs.length := obj_id_lt t h _ (numaObj_mem t d k s hd hk hs)
    rw [e, hid, auxFold_cell _ _ hlt, parentIs_eq,
      numa_kids_filter t h d k s hd hk hs]
    rfl
  | mc d k s hd hk hs hm e =>
    have hid : (mcObj (envOf t) d k s).id = memId (mkTab t) d k s := rfl
    have hlt : memId (mkTab t) d k s < (toDump t).objs.length := obj_id_lt t h _ (mcObj_mem t d k s hd hk hs hm)
    rw [e, hid, auxFold_cell _ _ hlt, parentIs_eq,
      mc_kids_filter t h d k s hd hk hs hm]
    rfl

omit h in
theorem disjoint_zero (x : Nat) : disjoint 0 x = true := by unfold disjoint; simp

theorem cl_memcache_nodeset (o : Obj) (ho : o ∈ (toDump t).objs) :
    (fun (_ : Dump) (a : Aux) (o : Obj) => if o.type == tMEMCACHE then o.nodeset == some (getN a.memOr o.id) && getB a.memDisj o.id else true)
      (toDump t) (mkAux (toDump t)) o = true := by
  obtain ⟨_, _, e3, e4, _⟩ := mkAux_fold (toDump t)
  simp only [e3, e4]
  show (if o.type == tMEMCACHE then o.nodeset == some (cellOf (auxFold (toDump t)) o.id).memOr && (cellOf (auxFold (toDump t)) o.id).memDisj
    else true) = true
  cases objs_kind t o ho with
  | normal d k hd hk e =>
    have := (normal_facts _ (isNormal_lt _ (ntype_normal t h d hd))).2.1
    rw [e, normalObj_type]
    simp [this]
  | numa d k s hd hk hs e => rw [e]; rfl
  | mc d k s hd hk hs hm e =>
    have hid : (mcObj (envOf t) d k s).id = memId (mkTab t) d k s := rfl
    have hlt : memId (mkTab t) d k s < (toDump t).objs.length := obj_id_lt t h _ (mcObj_mem t d k s hd hk hs hm)
    rw [e, hid, auxFold_cell _ _ hlt, parentIs_eq,
      mc_kids_filter t h d k s hd hk hs hm]
    simp [cellStep, cell0, mcObj, numaObj, isNormal, isMemory, tNUMA, tGROUP, tMEMCACHE]
    exact disjoint_zero _

end

end Hw.Syn
