/-
  Hw.Io.SyntheticFilterLemmas — `devirt` (Hw.Io.SyntheticTopo: the levels whose type is filtered out are not built) keeps
  every NUMA node of the chain and leaves no unbuilt level, for every chain.
-/
import Hw.Io.SyntheticTopo
namespace Hw.Syn
open Hw Hw.Topo

def arProd (ls : List NLevel) : Nat := (ls.map (·.arity)).foldl (· * ·) 1

theorem arFoldl_mul_init (xs : List Nat) (a : Nat) : xs.foldl (· * ·) a = a * xs.foldl (· * ·) 1 := by
  induction xs generalizing a with
  | nil => simp
  | cons x xs ih => simp only [List.foldl_cons]; rw [ih (a * x), ih (1 * x)]; simp [Nat.mul_assoc]

theorem arProd_cons (l : NLevel) (ls : List NLevel) : arProd (l :: ls) = l.arity * arProd ls := by
  unfold arProd; simp only [List.map_cons, List.foldl_cons]; rw [arFoldl_mul_init]; simp

theorem arProd_snoc (ls : List NLevel) (l : NLevel) : arProd (ls ++ [l]) = arProd ls * l.arity := by
  unfold arProd; simp [List.foldl_append]

theorem numaCountFrom_app (n : Nat) (xs ys : List NLevel) :
    numaCountFrom n (xs ++ ys) = numaCountFrom n xs + numaCountFrom (n * arProd xs) ys := by
  induction xs generalizing n with
  | nil => simp [numaCountFrom, arProd]
  | cons x xs ih =>
    simp only [List.cons_append, numaCountFrom, ih, arProd_cons]
    rw [Nat.add_assoc, Nat.mul_assoc n x.arity (arProd xs)]

theorem numaCount_snoc (xs : List NLevel) (l : NLevel) :
    numaCountFrom 1 (xs ++ [l]) = numaCountFrom 1 xs + arProd xs * l.arity * l.mem.length := by
  rw [numaCountFrom_app]; simp [numaCountFrom]

theorem devirt_count : ∀ (ls out : List NLevel) (rm : List MemChild) (mult : Nat) (carry : List MemChild)
    (r : List NLevel × List MemChild),
    (carry ≠ [] → ∃ c rest, ls = c :: rest ∧ c.arity = 1) →
    devirt ls out rm mult carry = some r →
    r.2.length + numaCountFrom 1 r.1 =
      rm.length + numaCountFrom 1 out.reverse + numaCountFrom (arProd out.reverse * mult) ls +
        arProd out.reverse * mult * carry.length := by
  intro ls
  induction ls with
  | nil =>
    intro out rm mult carry r hc h
    unfold devirt at h
    split at h
    · rename_i he
      have : carry = [] := by simpa using he
      subst this
      cases h
      simp [numaCountFrom]
    · cases h
  | cons l rest ih =>
    intro out rm mult carry r hc h
    unfold devirt at h
    simp only at h
    have harity : carry ≠ [] → l.arity = 1 := by
      intro hne
      obtain ⟨c, rest', heq, hc1⟩ := hc hne
      cases heq; exact hc1
    split at h
    · cases h
    · rename_i hboth
      -- the memory of this level: one of the two lists is empty
      have hm : (l.mem ++ carry).length * l.arity = l.mem.length * l.arity + carry.length := by
        by_cases hcar : carry = []
        · subst hcar; simp
        · have h1 := harity hcar
          have : l.mem = [] := by
            by_cases hl : l.mem = []
            · exact hl
            · exfalso; apply hboth; simp [hcar, hl]
          simp [this, h1]
      -- arithmetic core: the contribution of this level, whatever it becomes
      have key : ∀ P : Nat, P * (l.arity * mult) * (l.mem ++ carry).length =
          P * mult * l.arity * l.mem.length + P * mult * carry.length := by
        intro P
        have : P * (l.arity * mult) * (l.mem ++ carry).length = P * mult * ((l.mem ++ carry).length * l.arity) := by ac_rfl
        rw [this, hm, Nat.mul_add]; congr 1; ac_rfl
      have e1 : ∀ P : Nat, P * (l.arity * mult) = P * mult * l.arity := by intro P; ac_rfl
      split at h
      · -- the level is built
        have := ih _ _ _ _ _ (by simp) h
        rw [this]
        simp only [List.reverse_cons, numaCount_snoc, arProd_snoc, numaCountFrom, List.length_nil, Nat.mul_zero, Nat.add_zero, Nat.mul_one]
        rw [key, e1]; omega
      · split at h
        · -- not built, no memory
          rename_i hemp
          have hl : l.mem = [] ∧ carry = [] := by simpa using hemp
          have := ih _ _ _ _ _ (by simp) h
          rw [this]
          simp only [numaCountFrom, hl.1, hl.2, List.length_nil, Nat.mul_zero, Nat.add_zero, Nat.zero_add]
          rw [e1]
        · rename_i hne
          split at h
          · cases h
          · rename_i c hc0
            split at h
            · -- handed down to the only child
              rename_i hdown
              have hrest : ∃ c' rest', rest = c' :: rest' ∧ c'.arity = 1 := by
                cases rest with
                | nil => simp at hc0
                | cons c' rest' =>
                  simp only [List.head?_cons, Option.some.injEq] at hc0
                  subst hc0
                  exact ⟨_, _, rfl, hdown.1⟩
              have := ih _ _ _ _ _ (fun _ => hrest) h
              rw [this]
              simp only [numaCountFrom]
              rw [key, e1]; omega
            · split at h
              · -- only child of the level above: handed up
                rename_i ha1
                split at h
                · -- to the root
                  split at h
                  · rename_i hrm
                    have hrm' : rm = [] := by simpa using hrm
                    have := ih _ _ _ _ _ (by simp) h
                    rw [this]
                    have k := key 1
                    simp only [numaCountFrom, List.reverse_nil, arProd, List.map_nil, List.foldl_nil, hrm', List.length_nil,
                      Nat.mul_zero, Nat.add_zero, Nat.mul_one, Nat.one_mul, Nat.zero_add] at k ⊢
                    rw [ha1] at k
                    have e2 := e1 1
                    rw [ha1] at e2
                    simp only [Nat.one_mul, Nat.mul_one] at k e2
                    rw [← e2] at k ⊢; omega
                  · cases h
                · rename_i q out'
                  split at h
                  · rename_i hq
                    have hq' : q.mem = [] := by simpa using hq
                    have := ih _ _ _ _ _ (by simp) h
                    rw [this]
                    simp only [List.reverse_cons, numaCount_snoc, arProd_snoc, numaCountFrom, hq', List.length_nil, Nat.mul_zero,
                      Nat.add_zero, Nat.mul_one]
                    have k := key (arProd out'.reverse * q.arity)
                    have e2 := e1 (arProd out'.reverse * q.arity)
                    rw [ha1] at k e2
                    simp only [Nat.mul_one] at k e2
                    rw [← e2] at k ⊢
                    omega
                  · cases h
              · -- a Group in place of the missing level
                have := ih _ _ _ _ _ (by simp) h
                rw [this]
                simp only [List.reverse_cons, numaCount_snoc, arProd_snoc, numaCountFrom, List.length_nil, Nat.mul_zero, Nat.add_zero, Nat.mul_one]
                rw [key, e1]; omega

/-- `devirt` from the top: the NUMA nodes of the chain are all still there -/
theorem devirt_keeps_numas (ls ls' : List NLevel) (rm rm' : List MemChild) (h : devirt ls [] rm 1 [] = some (ls', rm')) :
    rm'.length + numaCountFrom 1 ls' = rm.length + numaCountFrom 1 ls := by
  have := devirt_count ls [] rm 1 [] (ls', rm') (by simp) h
  simpa [arProd, numaCountFrom] using this

/-- ... and no level that is not built remains -/
theorem devirt_no_virt : ∀ (ls out : List NLevel) (rm : List MemChild) (mult : Nat) (carry : List MemChild)
    (r : List NLevel × List MemChild), (∀ q ∈ out, q.virt = false) → devirt ls out rm mult carry = some r →
    ∀ l ∈ r.1, l.virt = false := by
  intro ls
  induction ls with
  | nil =>
    intro out rm mult carry r ho h
    unfold devirt at h
    split at h
    · cases h; intro l hl; exact ho l (by simpa using hl)
    · cases h
  | cons l rest ih =>
    intro out rm mult carry r ho h
    unfold devirt at h
    simp only at h
    split at h
    · cases h
    · split at h
      · rename_i hv
        refine ih _ _ _ _ _ ?_ h
        intro q hq
        rcases List.mem_cons.1 hq with rfl | hq
        · simpa using hv
        · exact ho q hq
      · split at h
        · exact ih _ _ _ _ _ ho h
        · split at h
          · cases h
          · split at h
            · exact ih _ _ _ _ _ ho h
            · split at h
              · split at h
                · split at h
                  · exact ih _ _ _ _ _ ho h
                  · cases h
                · rename_i q out'
                  split at h
                  · refine ih _ _ _ _ _ ?_ h
                    intro q' hq'
                    rcases List.mem_cons.1 hq' with rfl | hq'
                    · exact ho q (by simp)
                    · exact ho q' (by simp [hq'])
                  · cases h
              · refine ih _ _ _ _ _ ?_ h
                intro q hq
                rcases List.mem_cons.1 hq with rfl | hq
                · rfl
                · exact ho q hq

end Hw.Syn
