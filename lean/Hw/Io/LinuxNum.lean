/-
  Hw.Io.LinuxNum — the small file-content readers of hwloc/topology-linux.c everything else relies on:

    hwloc_read_path_by_length   read at most `length-1` bytes, store a NUL behind them; empty file = -1
    hwloc_read_path_as_int      char string[11];  atoi
    hwloc_read_path_as_uint     char string[11];  (unsigned) strtoul(.., 10)
    hwloc_read_path_as_uint64   char string[22];  strtoull(.., 10)
    hwloc_parse_meminfo_info    char buffer[4096]; strstr "MemTotal: ", strtoull(tmp+10, 10) << 10
    hwloc_parse_hugepages_info  per `hugepages-<size>kB` directory entry: strtoul(name+10, 0) * 1024,
                                snprintf into path[128], char line[64], strtoull(line, 0), page_types[]
                                growth, `*remaining_local_memory -= count * size`

  Files are byte lists (`none` = the file cannot be opened / read).  The buffer after a successful read is
  the list of bytes stored in front of the NUL; C string functions see only `cstr` of it (bytes before the
  first NUL byte of the file, if any).  libc: `strtoulS` (Hw.Io.LinuxParse; strtoul/strtoull with signs),
  `strtolVal` (strtol, saturating) and `findSub` (strstr) below.
-/
import Hw.Io.LinuxParse
namespace Hw.LinuxNum
open Hw Hw.LinuxParse

/-! ### hwloc_read_path_by_length -/

/-- the bytes `read(fd, string, length-1)` stores for a file with this content (one read() call; the
kernel files concerned are delivered in one piece) -/
def readBytes (length : Nat) (content : List Byte) : List Byte := content.take (length - 1)

/-- `none` = -1 (nothing read: `ret <= 0`); `some buf`: `buf` stored at `string[0..]`, NUL at `string[buf.length]` -/
def readByLength (length : Nat) (content : List Byte) : Option (List Byte) :=
  if readBytes length content = [] then none else some (readBytes length content)

/-- on a path: a missing / unreadable file is -1 too -/
def readPath (length : Nat) (file : Option (List Byte)) : Option (List Byte) := file.bind (readByLength length)

/-! ### libc: strtol (saturating), atoi -/

def splitSign (s : List Byte) : Bool × List Byte :=
  match s.dropWhile isSpace with
  | 45 :: r => (true, r)
  | 43 :: r => (false, r)
  | s1 => (false, s1)

/-- `strtol(s, NULL, base)` as a mathematical integer in [-2^63, 2^63) -/
def strtolVal (base : Nat) (s : List Byte) : Int :=
  match numBody base (splitSign s).2 with
  | (v, n, _) =>
    if n = 0 then 0
    else if (splitSign s).1 then (if 2^63 < v then -(2^63 : Int) else -(v : Int))
    else (if 2^63 ≤ v then (2^63 : Int) - 1 else (v : Int))

/-- `(int) x` for a `long` x (gcc: reduction modulo 2^32 into the signed range) -/
def wrapInt32 (x : Int) : Int :=
  let w := x % 2^32
  if w < 2^31 then w else w - 2^32

/-- glibc `atoi(s)` = `(int) strtol(s, NULL, 10)` -/
def atoi (s : List Byte) : Int := wrapInt32 (strtolVal 10 s)

/-! ### the three numeric readers (result `none` = -1, `*value` untouched) -/

def intBuf : Nat := 11
def uintBuf : Nat := 11
def u64Buf : Nat := 22

def readInt (file : Option (List Byte)) : Option Int :=
  (readPath intBuf file).map (fun b => atoi (cstr b))

def readUint (file : Option (List Byte)) : Option Nat :=
  (readPath uintBuf file).map (fun b => (strtoulS 10 (cstr b)).1 % 2^32)

def readUint64 (file : Option (List Byte)) : Option Nat :=
  (readPath u64Buf file).map (fun b => (strtoulS 10 (cstr b)).1)

/-! ### libc: strstr -/

/-- index of the first occurrence of `pat` in `s` -/
def findSub (pat : List Byte) : List Byte → Option Nat
  | [] => if pat.isEmpty then some 0 else none
  | c :: cs => if pat.isPrefixOf (c :: cs) then some 0 else (findSub pat cs).map (· + 1)

/-! ### hwloc_parse_meminfo_info -/

def memKey : List Byte := str "MemTotal: "
def memBuf : Nat := 4096

/-- `none` = `*local_memory` is left as it was -/
def meminfo (file : Option (List Byte)) : Option Nat :=
  match readPath memBuf file with
  | none => none
  | some b =>
    match findSub memKey (cstr b) with
    | none => none
    | some i => some (((strtoulS 10 ((cstr b).drop (i + 10))).1 <<< 10) % 2^64)

/-! ### hwloc_parse_hugepages_info -/

def hpPrefix : List Byte := str "hugepages-"
def hpPathLen : Nat := 128           -- SYSFS_NUMA_NODE_PATH_LEN
def hpLineLen : Nat := 64

structure HPEntry where
  name : List Byte                   -- dirent->d_name
  file : Option (List Byte)          -- content of <dirpath>/<name>/nr_hugepages, if readable
deriving Repr, DecidableEq

structure HPState where
  types : List (Nat × Nat) := []     -- page_types[1 .. index_) as (size, count)
  pending : Option Nat := none       -- a size stored at page_types[index_] whose count could not be read
  alloc : Nat                        -- allocated_page_types
  remaining : Nat                    -- *remaining_local_memory (uint64_t)
  writes : List (Nat × Nat) := []    -- every `page_types[index_]. … = …` as (index_, allocated then)
deriving Repr, DecidableEq

def HPState.index (st : HPState) : Nat := st.types.length + 1

/-- one `readdir` entry (`dirlen` = strlen(dirpath)) -/
def hpStep (dirlen : Nat) (st : HPState) (e : HPEntry) : HPState :=
  if !(hpPrefix.isPrefixOf e.name) then st
  else
    let alloc := if st.index ≥ st.alloc then 2 * st.alloc else st.alloc
    let size := ((strtoulS 0 (e.name.drop 10)).1 * 1024) % 2^64
    let st := { st with alloc := alloc, pending := some size, writes := (st.index, alloc) :: st.writes }
    -- snprintf(path, 128, "%s/%s/nr_hugepages"): the file is only read when the path was not truncated
    if dirlen + 1 + e.name.length + 13 < hpPathLen then
      match readPath hpLineLen e.file with
      | none => st
      | some b =>
        let count := (strtoulS 0 (cstr b)).1
        { st with types := st.types ++ [(size, count)], pending := none,
                  remaining := (st.remaining + 2^64 - (count * size) % 2^64) % 2^64 }
    else st

def hugepages (dirlen alloc0 remaining : Nat) (entries : List HPEntry) : HPState :=
  entries.foldl (hpStep dirlen) { alloc := alloc0, remaining := remaining }

end Hw.LinuxNum
