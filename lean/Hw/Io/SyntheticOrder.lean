/-
  Hw.Io.SyntheticOrder — what `mkNode` builds, as far as the PU order is concerned: the leaves of the subtree are a
  window of the PU index sequence, rearranged so that `Ord` holds.
-/
import Hw.Io.SyntheticOrd
import Hw.Io.SyntheticTopo
namespace Hw.Syn
open Hw Hw.Topo

/-! ### the pieces of `mkNode` -/

def kidStep (pu : List Nat) (rest att' : List Nat) (osf' : List (Nat → Int)) (acc : List Node × (Nat × Nat)) (_ : Nat) :
    List Node × (Nat × Nat) :=
  (acc.1 ++ [(mkNode pu rest att' osf' acc.2).1], (mkNode pu rest att' osf' acc.2).2)

def kidsFold (pu : List Nat) (rest att' : List Nat) (osf' : List (Nat → Int)) (n : Nat) (st : Nat × Nat) :
    List Node × (Nat × Nat) :=
  (List.range n).foldl (kidStep pu rest att' osf') ([], st)

def sortK (kids : List Node) : List Node := kids.foldl (fun l n => insertNode n l) []

theorem mkNode_cons_leaves (pu a rest att osf st) : (mkNode pu (a :: rest) att osf st).1.leaves =
    ((sortK (kidsFold pu rest (att.drop 1) (osf.drop 1) a st).1).map (·.leaves)).flatten := by
  rw [mkNode]; rfl
theorem mkNode_cons_key (pu a rest att osf st) : (mkNode pu (a :: rest) att osf st).1.key =
    ((sortK (kidsFold pu rest (att.drop 1) (osf.drop 1) a st).1).head?.getD {}).key := by
  rw [mkNode]; rfl
theorem mkNode_cons_st (pu a rest att osf st) : (mkNode pu (a :: rest) att osf st).2.1 =
    (kidsFold pu rest (att.drop 1) (osf.drop 1) a st).2.1 := by
  rw [mkNode]; rfl

/-! ### generalities -/

theorem minL_unique (l : List Nat) (m : Nat) (hm : m ∈ l) (hle : ∀ y ∈ l, m ≤ y) : minL l = m := by
  have hne : l ≠ [] := by intro h; subst h; simp at hm
  obtain ⟨h1, h2⟩ := minL_spec l hne
  exact Nat.le_antisymm (h2 m hm) (hle _ h1)

theorem minL_singleton (x : Nat) : minL [x] = x := rfl

theorem nodup_idx (pu : List Nat) (hnd : pu.Nodup) (i j x : Nat) (hi : pu[i]? = some x) (hj : pu[j]? = some x) : i = j := by
  have hlt : i < pu.length := by
    have := List.getElem?_eq_some_iff.mp hi
    exact this.1
  exact (List.getElem?_inj hlt hnd).mp (hi.trans hj.symm)

def DisjL (a b : List Nat) : Prop := ∀ x, x ∈ a → x ∈ b → False

theorem nodup_flatten' : ∀ (LL : List (List Nat)), (∀ l ∈ LL, l.Nodup) → LL.Pairwise DisjL → LL.flatten.Nodup := by
  intro LL
  induction LL with
  | nil => intro _ _; simp
  | cons l LL ih =>
    intro hn hp
    rw [List.pairwise_cons] at hp
    rw [List.flatten_cons, List.nodup_append]
    refine ⟨hn l List.mem_cons_self, ih (fun l' hl' => hn l' (List.mem_cons_of_mem _ hl')) hp.2, ?_⟩
    intro x hx y hy hxy
    subst hxy
    rw [List.mem_flatten] at hy
    obtain ⟨l', hl', hxl'⟩ := hy
    exact hp.1 l' hl' x hx hxl'

theorem getElem?_flatten_const (W : Nat) : ∀ (LL : List (List Nat)), (∀ l ∈ LL, l.length = W) → ∀ r j, j < W →
    LL.flatten[r * W + j]? = (LL[r]?.getD [])[j]? := by
  intro LL
  induction LL with
  | nil => intro _ r j _; simp
  | cons l LL ih =>
    intro hl r j hj
    have hlW : l.length = W := hl l List.mem_cons_self
    rw [List.flatten_cons]
    cases r with
    | zero =>
      rw [List.getElem?_append_left (by omega)]
      simp
    | succ r =>
      have he : (r + 1) * W + j = l.length + (r * W + j) := by rw [Nat.succ_mul, hlW]; omega
      rw [he, List.getElem?_append_right (by omega)]
      have : l.length + (r * W + j) - l.length = r * W + j := by omega
      rw [this, ih (fun l' hl' => hl l' (List.mem_cons_of_mem _ hl')) r j hj]
      simp

theorem blockOf_flatten (W : Nat) (LL : List (List Nat)) (hl : ∀ l ∈ LL, l.length = W) (r : Nat) (hr : r < LL.length) :
    blockOf LL.flatten W r = LL[r] := by
  have hlen : LL[r].length = W := hl _ (List.getElem_mem hr)
  apply List.ext_getElem
  · simp [blockOf, hlen]
  · intro j h1 h2
    have hj : j < W := by simpa [blockOf] using h1
    simp only [blockOf, List.getElem_map, List.getElem_range]
    rw [getElem?_flatten_const W LL hl r j hj]
    simp [hr, hlen, hj]

theorem length_flatten_const (W : Nat) : ∀ (LL : List (List Nat)), (∀ l ∈ LL, l.length = W) → LL.flatten.length = LL.length * W := by
  intro LL
  induction LL with
  | nil => intro _; simp
  | cons l LL ih =>
    intro hl
    rw [List.flatten_cons, List.length_append, ih (fun l' hl' => hl l' (List.mem_cons_of_mem _ hl')), hl l List.mem_cons_self,
      List.length_cons, Nat.succ_mul]
    omega

/-! ### insertion sort -/

theorem insertNode_perm (n : Node) : ∀ l : List Node, (insertNode n l).Perm (n :: l) := by
  intro l
  induction l with
  | nil => exact List.Perm.refl _
  | cons m r ih =>
    unfold insertNode
    by_cases h : n.key < m.key
    · rw [if_pos h]
    · rw [if_neg h]
      exact ((List.Perm.cons m ih).trans (List.Perm.swap n m r))

theorem insertNode_sorted (n : Node) : ∀ l : List Node, l.Pairwise (fun x y => x.key ≤ y.key) →
    (insertNode n l).Pairwise (fun x y => x.key ≤ y.key) := by
  intro l
  induction l with
  | nil => intro _; simp [insertNode]
  | cons m r ih =>
    intro hp
    rw [List.pairwise_cons] at hp
    unfold insertNode
    by_cases h : n.key < m.key
    · rw [if_pos h, List.pairwise_cons]
      refine ⟨?_, List.pairwise_cons.mpr hp⟩
      intro y hy
      rcases List.mem_cons.mp hy with hy | hy
      · subst hy; omega
      · have := hp.1 y hy; omega
    · rw [if_neg h, List.pairwise_cons]
      refine ⟨?_, ih hp.2⟩
      intro y hy
      have hy' := (insertNode_perm n r).mem_iff.mp hy
      rcases List.mem_cons.mp hy' with hy' | hy'
      · subst hy'; omega
      · exact hp.1 y hy'

theorem sortFold_perm : ∀ (kids acc : List Node), (kids.foldl (fun l n => insertNode n l) acc).Perm (kids ++ acc) := by
  intro kids
  induction kids with
  | nil => intro acc; exact List.Perm.refl _
  | cons k kids ih =>
    intro acc
    rw [List.foldl_cons]
    refine (ih _).trans ?_
    refine ((List.Perm.append_left kids (insertNode_perm k acc)).trans ?_)
    exact List.perm_middle

theorem sortFold_sorted : ∀ (kids acc : List Node), acc.Pairwise (fun x y => x.key ≤ y.key) →
    (kids.foldl (fun l n => insertNode n l) acc).Pairwise (fun x y => x.key ≤ y.key) := by
  intro kids
  induction kids with
  | nil => intro acc h; exact h
  | cons k kids ih =>
    intro acc h
    rw [List.foldl_cons]
    exact ih _ (insertNode_sorted k acc h)

theorem sortK_perm (kids : List Node) : (sortK kids).Perm kids := by
  have := sortFold_perm kids []
  rwa [List.append_nil] at this

theorem sortK_sorted (kids : List Node) : (sortK kids).Pairwise (fun x y => x.key ≤ y.key) :=
  sortFold_sorted kids [] List.Pairwise.nil

/-! ### the kids -/

/-- the facts about one subtree whose leaves come from the window `[s, s + prodL rest)` -/
def Good (pu : List Nat) (rest : List Nat) (n : Node) (s : Nat) : Prop :=
  n.leaves.length = prodL rest ∧ n.leaves.Nodup ∧
  (∀ x ∈ n.leaves, ∃ i, s ≤ i ∧ i < s + prodL rest ∧ pu[i]? = some x) ∧
  n.key = minL n.leaves ∧ Ord rest n.leaves

def DisjN (a b : Node) : Prop := DisjL a.leaves b.leaves

theorem DisjN_symm {a b : Node} (h : DisjN a b) : DisjN b a := fun x hb ha => h x ha hb

theorem kidsFold_spec (pu : List Nat) (hnd : pu.Nodup) (rest att' : List Nat) (osf' : List (Nat → Int))
    (ih : ∀ (lp ns : Nat), lp + prodL rest ≤ pu.length →
      (mkNode pu rest att' osf' (lp, ns)).2.1 = lp + prodL rest ∧ Good pu rest (mkNode pu rest att' osf' (lp, ns)).1 lp)
    (lp0 ns0 : Nat) : ∀ n, lp0 + n * prodL rest ≤ pu.length →
    (kidsFold pu rest att' osf' n (lp0, ns0)).2.1 = lp0 + n * prodL rest ∧
    (kidsFold pu rest att' osf' n (lp0, ns0)).1.length = n ∧
    (∀ k ∈ (kidsFold pu rest att' osf' n (lp0, ns0)).1, ∃ r, r < n ∧ Good pu rest k (lp0 + r * prodL rest)) ∧
    (kidsFold pu rest att' osf' n (lp0, ns0)).1.Pairwise DisjN := by
  intro n
  induction n with
  | zero => intro _; simp [kidsFold, List.Pairwise.nil]
  | succ n ihn =>
    intro hle
    have hsm : (n + 1) * prodL rest = n * prodL rest + prodL rest := Nat.succ_mul _ _
    obtain ⟨h1, h2, h3, h4⟩ := ihn (by omega)
    have hunf : kidsFold pu rest att' osf' (n + 1) (lp0, ns0) =
        kidStep pu rest att' osf' (kidsFold pu rest att' osf' n (lp0, ns0)) n := by
      unfold kidsFold
      rw [List.range_succ, List.foldl_append]; rfl
    rw [hunf]
    generalize kidsFold pu rest att' osf' n (lp0, ns0) = res at h1 h2 h3 h4
    obtain ⟨ks, lp1, ns1⟩ := res
    simp only at h1 h2 h3 h4
    subst h1
    obtain ⟨g1, g2⟩ := ih (lp0 + n * prodL rest) ns1 (by omega)
    simp only [kidStep]
    refine ⟨by rw [g1]; omega, by simp [h2], ?_, ?_⟩
    · intro k hk
      rcases List.mem_append.mp hk with hk | hk
      · obtain ⟨r, hr, hg⟩ := h3 k hk
        exact ⟨r, by omega, hg⟩
      · rw [List.mem_singleton] at hk
        subst hk
        exact ⟨n, by omega, g2⟩
    · rw [List.pairwise_append]
      refine ⟨h4, List.pairwise_singleton _ _, ?_⟩
      intro k hk k' hk' x hx hx'
      rw [List.mem_singleton] at hk'
      subst hk'
      obtain ⟨r, hr, hg⟩ := h3 k hk
      obtain ⟨i, _, hi2, hi3⟩ := hg.2.2.1 x hx
      obtain ⟨j, hj1, _, hj3⟩ := g2.2.2.1 x hx'
      have hij := nodup_idx pu hnd i j x hi3 hj3
      have := Nat.mul_le_mul_right (prodL rest) (Nat.succ_le_of_lt hr)
      rw [Nat.succ_mul] at this
      omega

/-! ### assembling a node from its sorted kids -/

theorem assemble (pu : List Nat) (rest : List Nat) (a lp : Nat) (ha : 1 ≤ a) (hW : 1 ≤ prodL rest) (L : List Node)
    (hlen : L.length = a)
    (hgood : ∀ k ∈ L, ∃ r, r < a ∧ Good pu rest k (lp + r * prodL rest))
    (hdis : L.Pairwise DisjN) (hsort : L.Pairwise (fun x y => x.key ≤ y.key)) :
    ((L.map (·.leaves)).flatten).length = prodL (a :: rest) ∧
    ((L.map (·.leaves)).flatten).Nodup ∧
    (∀ x ∈ (L.map (·.leaves)).flatten, ∃ i, lp ≤ i ∧ i < lp + prodL (a :: rest) ∧ pu[i]? = some x) ∧
    (L.head?.getD {}).key = minL ((L.map (·.leaves)).flatten) ∧
    Ord (a :: rest) ((L.map (·.leaves)).flatten) := by
  have hlenW : ∀ l ∈ L.map (·.leaves), l.length = prodL rest := by
    intro l hl
    obtain ⟨k, hk, rfl⟩ := List.mem_map.mp hl
    obtain ⟨r, _, hg⟩ := hgood k hk
    exact hg.1
  have hkeymem : ∀ k ∈ L, k.key ∈ k.leaves ∧ ∀ y ∈ k.leaves, k.key ≤ y := by
    intro k hk
    obtain ⟨r, _, hg⟩ := hgood k hk
    have hne : k.leaves ≠ [] := by
      intro h
      have := hg.1
      rw [h] at this
      simp at this
      omega
    rw [hg.2.2.2.1]
    exact minL_spec _ hne
  -- strictly sorted
  have hstrict : L.Pairwise (fun x y => x.key < y.key) := by
    refine List.Pairwise.imp_of_mem ?_ (hdis.and hsort)
    intro x y hx hy hxy
    have hne : x.key ≠ y.key := by
      intro he
      exact hxy.1 x.key (hkeymem x hx).1 (he ▸ (hkeymem y hy).1)
    have := hxy.2
    omega
  refine ⟨?_, ?_, ?_, ?_, ?_⟩
  · rw [length_flatten_const _ _ hlenW, List.length_map, hlen, prodL_cons]
  · apply nodup_flatten'
    · intro l hl
      obtain ⟨k, hk, rfl⟩ := List.mem_map.mp hl
      obtain ⟨r, _, hg⟩ := hgood k hk
      exact hg.2.1
    · rw [List.pairwise_map]
      exact hdis
  · intro x hx
    rw [List.mem_flatten] at hx
    obtain ⟨l, hl, hxl⟩ := hx
    obtain ⟨k, hk, rfl⟩ := List.mem_map.mp hl
    obtain ⟨r, hr, hg⟩ := hgood k hk
    obtain ⟨i, hi1, hi2, hi3⟩ := hg.2.2.1 x hxl
    have := Nat.mul_le_mul_right (prodL rest) (Nat.succ_le_of_lt hr)
    rw [Nat.succ_mul] at this
    rw [prodL_cons]
    exact ⟨i, by omega, by omega, hi3⟩
  · cases L with
    | nil => simp at hlen; omega
    | cons k0 L' =>
      simp only [List.head?_cons, Option.getD_some]
      rw [List.pairwise_cons] at hstrict
      symm
      apply minL_unique
      · rw [List.mem_flatten]
        exact ⟨k0.leaves, List.mem_map.mpr ⟨k0, List.mem_cons_self, rfl⟩, (hkeymem k0 List.mem_cons_self).1⟩
      · intro y hy
        rw [List.mem_flatten] at hy
        obtain ⟨l, hl, hyl⟩ := hy
        obtain ⟨k, hk, rfl⟩ := List.mem_map.mp hl
        have h2 := (hkeymem k hk).2 y hyl
        rcases List.mem_cons.mp hk with hk' | hk'
        · subst hk'; exact h2
        · have := hstrict.1 k hk'; omega
  · have hblock : ∀ r (hr : r < L.length), blockOf ((L.map (·.leaves)).flatten) (prodL rest) r = L[r].leaves := by
      intro r hr
      rw [blockOf_flatten _ _ hlenW r (by simpa using hr)]
      simp
    unfold Ord
    constructor
    · intro r hr
      rw [hblock r (by omega)]
      obtain ⟨_, _, hg⟩ := hgood L[r] (List.getElem_mem _)
      exact hg.2.2.2.2
    · intro r hr
      rw [hblock r (by omega), hblock (r + 1) (by omega)]
      obtain ⟨_, _, hg⟩ := hgood L[r] (List.getElem_mem (by omega))
      obtain ⟨_, _, hg'⟩ := hgood L[r + 1] (List.getElem_mem (by omega))
      rw [← hg.2.2.2.1, ← hg'.2.2.2.1]
      exact List.pairwise_iff_getElem.mp hstrict r (r + 1) (by omega) (by omega) (by omega)

/-! ### the result -/

/-- what `mkNode` builds, as far as the PU order is concerned -/
theorem mkNode_spec (pu : List Nat) (hnd : pu.Nodup) : ∀ (as : List Nat) (att : List Nat) (osf : List (Nat → Int)) (lp ns : Nat),
    (∀ a ∈ as, 1 ≤ a) → lp + prodL as ≤ pu.length →
    (mkNode pu as att osf (lp, ns)).2.1 = lp + prodL as ∧
    (mkNode pu as att osf (lp, ns)).1.leaves.length = prodL as ∧
    (mkNode pu as att osf (lp, ns)).1.leaves.Nodup ∧
    (∀ x ∈ (mkNode pu as att osf (lp, ns)).1.leaves, ∃ i, lp ≤ i ∧ i < lp + prodL as ∧ pu[i]? = some x) ∧
    (mkNode pu as att osf (lp, ns)).1.key = minL (mkNode pu as att osf (lp, ns)).1.leaves ∧
    Ord as (mkNode pu as att osf (lp, ns)).1.leaves := by
  intro as
  induction as with
  | nil =>
    intro att osf lp ns _ hle
    rw [prodL_nil] at hle ⊢
    have hlt : lp < pu.length := by omega
    have hget : pu[lp]?.getD 0 = pu[lp] := by simp [hlt]
    simp only [mkNode, hget]
    refine ⟨trivial, rfl, by simp, ?_, rfl, ?_⟩
    · intro x hx
      rw [List.mem_singleton] at hx
      subst hx
      exact ⟨lp, Nat.le_refl _, by omega, by simp [hlt]⟩
    · unfold Ord; trivial
  | cons a rest ih =>
    intro att osf lp ns hpos hle
    have ha : 1 ≤ a := hpos a List.mem_cons_self
    have hrest : ∀ x ∈ rest, 1 ≤ x := fun x hx => hpos x (List.mem_cons_of_mem _ hx)
    have hW := prodL_pos rest hrest
    rw [prodL_cons] at hle
    have hk := kidsFold_spec pu hnd rest (att.drop 1) (osf.drop 1)
      (fun lp' ns' hle' => by
        obtain ⟨h1, h2, h3, h4, h5, h6⟩ := ih (att.drop 1) (osf.drop 1) lp' ns' hrest hle'
        exact ⟨h1, h2, h3, h4, h5, h6⟩) lp ns a hle
    obtain ⟨k1, k2, k3, k4⟩ := hk
    have hperm := sortK_perm (kidsFold pu rest (att.drop 1) (osf.drop 1) a (lp, ns)).1
    have hasm := assemble pu rest a lp ha hW (sortK (kidsFold pu rest (att.drop 1) (osf.drop 1) a (lp, ns)).1)
      (by rw [hperm.length_eq, k2])
      (fun k hk => k3 k (hperm.mem_iff.mp hk))
      ((List.Perm.pairwise_iff (fun h => DisjN_symm h) hperm).mpr k4)
      (sortK_sorted _)
    rw [mkNode_cons_leaves, mkNode_cons_key, mkNode_cons_st, k1]
    obtain ⟨a1, a2, a3, a4, a5⟩ := hasm
    exact ⟨by rw [prodL_cons], a1, a2, a3, a4, a5⟩

end Hw.Syn
