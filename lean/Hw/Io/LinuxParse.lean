/-
  Hw.Io.LinuxParse — the pure parsers the Linux backend is built on (hwloc/topology-linux.c):

    hwloc__read_fd               buffer growth arithmetic for every pattern of read() return values
    hwloc__read_path_as_cpulist  "first[-last],…" kernel lists  (fill, then clear the gaps)
    hwloc__read_path_as_cpumask  comma-separated 32-bit hexadecimal groups, `maps[]` with its growth

  Files are byte lists.  The C code works on the NUL-terminated buffer returned by hwloc__read_fd, so
  only the bytes before the first NUL byte matter (`cstr`).  `strchr(current, ',')` + "continue after
  the comma" is rendered as splitting the buffer at commas (`splitComma`): neither `strtoul` nor
  `sscanf("%lx")` ever reads across a comma (a comma is no space, sign or digit).

  libc is modelled (trusted base, differential-tested through the parsers): `scanNum` is the number
  scanner shared by `strtoul(…, base)` and `sscanf("%lx")`, *with* sign characters (the C04 model
  `Hw.strtoul` declares them unsupported; `strtoulS_of_ok` shows the two agree wherever the latter is
  defined).
-/
import Hw.Base.Num
import Hw.Bitmap.Ops
namespace Hw.LinuxParse
open Hw

/-! ### libc: number scanning with signs -/

/-- optional `0x` prefix / octal detection, then the digits: (raw value, number of digits, rest) -/
def numBody (base : Nat) (s1 : List Byte) : Nat × Nat × List Byte :=
  let (b, s2) : Nat × List Byte :=
    match s1 with
    | 48 :: x :: d :: r =>
      if (x == 120 || x == 88) && isDigitIn 16 d && (base == 16 || base == 0) then (16, d :: r)
      else if base == 0 then (8, s1) else (base, s1)
    | 48 :: _ => if base == 0 then (8, s1) else (base, s1)
    | _ => if base == 0 then (10, s1) else (base, s1)
  takeDigits b s2 0 0

/-- value delivered by strtoul for raw digits value `v` and sign `neg`: saturation wins over negation -/
def signedVal (neg : Bool) (v : Nat) : Nat :=
  if ulongMax < v then ulongMax else if neg then (2^64 - v) % 2^64 else v

/-- the scanner: white space, optional sign, number.  `none` = no digits (no conversion) -/
def scanNum (base : Nat) (s : List Byte) : Option (Nat × List Byte) :=
  let s1 := s.dropWhile isSpace
  let (neg, s2) : Bool × List Byte :=
    match s1 with
    | 45 :: r => (true, r)
    | 43 :: r => (false, r)
    | _ => (false, s1)
  match numBody base s2 with
  | (v, n, rest) => if n = 0 then none else some (signedVal neg v, rest)

/-- `strtoul(s, &end, base)` with signs: (value, *end); no conversion = (0, s) -/
def strtoulS (base : Nat) (s : List Byte) : Nat × List Byte :=
  match scanNum base s with
  | some r => r
  | none => (0, s)

/-! ### the buffer -/

/-- the C string in the buffer: bytes before the first NUL -/
def cstr (bytes : List Byte) : List Byte := bytes.takeWhile (fun c => c != 0)

/-- pieces between commas; never empty -/
def splitComma : List Byte → List (List Byte)
  | [] => [[]]
  | c :: cs =>
    if c = 44 then [] :: splitComma cs
    else match splitComma cs with
      | p :: ps => (c :: p) :: ps
      | [] => [[c]]

/-! ### hwloc__read_fd -/

inductive RFRes
  | err                                           -- read() failed: -1, nothing returned
  | hang                                          -- the do/while loop never ends (only when *sizep = 0)
  | ok (filesize total alloc : Nat) (writes : List (Nat × Nat × Nat))
      -- final *sizep, totalread, bytes allocated, every read() as (offset, length stored, allocation then)
deriving Repr, DecidableEq

/-- one `read(fd, buf, count)`: the next scripted return value (clipped to `count`, as the kernel
guarantees); an exhausted script means end of file.  `none` = -1. -/
def nextRead (rets : List Int) (count : Nat) : Option Nat × List Int :=
  match rets with
  | [] => (some 0, [])
  | r :: rs => if r < 0 then (none, rs) else (some (min r.toNat count), rs)

/-- the `do { … } while (ret == toread)` loop; loop invariant on entry: `total = filesize + 1` -/
def rfLoop : Nat → List Int → Nat → Nat → List (Nat × Nat × Nat) → RFRes
  | 0, _, _, _, _ => .hang
  | fuel+1, rets, filesize, total, ws =>
    let toread := filesize
    let filesize := 2 * filesize
    let alloc := filesize + 1
    match nextRead rets toread with
    | (none, _) => .err
    | (some ret, rets) =>
      let ws := (toread + 1, ret, alloc) :: ws
      let total := total + ret
      if ret = toread then rfLoop fuel rets filesize total ws
      else .ok filesize total alloc ws

def readFd (size0 : Nat) (rets : List Int) : RFRes :=
  let alloc := size0 + 1
  match nextRead rets (size0 + 1) with
  | (none, _) => .err
  | (some ret, rets) =>
    let ws := [(0, ret, alloc)]
    if ret < size0 + 1 then .ok size0 ret alloc ws
    else rfLoop (rets.length + 2) rets size0 ret ws

/-! ### hwloc__read_path_as_cpulist -/

def intMax : Int := 2^31 - 1
def intMin : Int := -(2^31)

/-- `int x = (unsigned long) v` (gcc: reduction modulo 2^32 into the signed range) -/
def toInt32 (v : Nat) : Int :=
  let w : Nat := v % 2^32
  if w < 2^31 then (w : Int) else (w : Int) - 2^32

/-- bounds `(nextfirst, nextlast)` of one comma-separated piece -/
def parseSeg (p : List Byte) : Int × Int :=
  let r := strtoulS 0 p
  let first := toInt32 r.1
  match r.2 with
  | 45 :: t => (first, toInt32 (strtoulS 0 t).1)
  | _ => (first, first)

/-- `hwloc_bitmap_clr_range(set, (unsigned) b, (int) e)` for C `int`s b, e -/
def clrRangeC (s : Bitmap) (b e : Int) : Bitmap :=
  s.clrRange (b % 2^32).toNat (if e = -1 then none else some (e % 2^32).toNat)

structure CLState where
  set : Bitmap
  prevlast : Int
  ub : Bool := false          -- signed overflow in `prevlast+1` or `nextfirst-1` (undefined behaviour)
deriving Repr, DecidableEq

def clStep (st : CLState) (seg : Int × Int) : CLState :=
  if st.ub then st
  else if st.prevlast = intMax ∨ seg.1 = intMin then { st with ub := true }
  else
    { set := if st.prevlast + 1 ≤ seg.1 - 1 then clrRangeC st.set (st.prevlast + 1) (seg.1 - 1) else st.set,
      prevlast := seg.2, ub := false }

def clInit (dst : Bitmap) : CLState := { set := dst.fill, prevlast := -1 }

def clSegs (bytes : List Byte) : List (Int × Int) := (splitComma (cstr bytes)).map parseSeg

def clFinal (dst : Bitmap) (bytes : List Byte) : CLState := (clSegs bytes).foldl clStep (clInit dst)

/-- the whole parser on the content of an existing file; `none` = undefined behaviour (signed overflow) -/
def cpulist (dst : Bitmap) (bytes : List Byte) : Option Bitmap :=
  let st := clFinal dst bytes
  if st.ub ∨ st.prevlast = intMax then none
  else some (clrRangeC st.set (st.prevlast + 1) (-1))

/-- the control part of the loop alone (no bitmap): (prevlast, ub, largest unsigned index handed to an
effective `clr_range` call).  The differential domain is `maxIdx < 2^17` (the bitmap layer allocates up
to that index; C03 is stated below 2^31). -/
structure CLScan where
  prevlast : Int := -1
  ub : Bool := false
  maxIdx : Nat := 0
deriving Repr, DecidableEq

def scanStep (st : CLScan) (seg : Int × Int) : CLScan :=
  if st.ub then st
  else if st.prevlast = intMax ∨ seg.1 = intMin then { st with ub := true }
  else
    let b := ((st.prevlast + 1) % 2^32).toNat
    let e := ((seg.1 - 1) % 2^32).toNat
    let m := if st.prevlast + 1 ≤ seg.1 - 1 then
               (if seg.1 - 1 = -1 then max st.maxIdx b else if e < b then st.maxIdx else max st.maxIdx e)
             else st.maxIdx
    { prevlast := seg.2, ub := false, maxIdx := m }

def cpulistScan (bytes : List Byte) : CLScan := (clSegs bytes).foldl scanStep {}

/-- undefined behaviour is reached -/
def cpulistUB (bytes : List Byte) : Bool :=
  let r := cpulistScan bytes
  r.ub || decide (r.prevlast = intMax)

def cpulistMaxIdx (bytes : List Byte) : Nat :=
  let r := cpulistScan bytes
  if r.ub ∨ r.prevlast = intMax then r.maxIdx else max r.maxIdx ((r.prevlast + 1) % 2^32).toNat

/-! ### hwloc__read_path_as_cpumask -/

structure MState where
  maps : List Word := []                 -- maps[0 .. nr_maps)
  alloc : Nat                            -- nr_maps_allocated
  writes : List (Nat × Nat) := []        -- every `maps[i] = …` as (i, nr_maps_allocated at that time)
deriving Repr, DecidableEq

def MState.grow (st : MState) : MState :=
  if st.maps.length = st.alloc then { st with alloc := 2 * st.alloc } else st

def MState.push (st : MState) (m : Word) : MState :=
  { st with maps := st.maps ++ [m], writes := (st.maps.length, st.alloc) :: st.writes }

/-- the `while (sscanf(tmpbuf, "%lx", &map) == 1)` loop over the comma-separated pieces -/
def maskLoop : List (List Byte) → MState → MState
  | [], st => st
  | p :: ps, st =>
    match scanNum 16 p with
    | none => st
    | some (m, _) =>
      let st := st.grow
      match ps with
      | [] => st.push (BitVec.ofNat 64 m)                       -- no comma follows: store and stop
      | q :: qs =>
        if m = 0 ∧ st.maps.length = 0 then maskLoop (q :: qs) st  -- leading empty map: ignored
        else maskLoop (q :: qs) (st.push (BitVec.ofNat 64 m))

/-- `mask = maps[nr_maps-2i-1] | maps[nr_maps-2i-2] << 32` -/
def maskWord (maps : List Word) (i : Nat) : Word :=
  let n := maps.length
  let lo := maps.getD (n - 2*i - 1) 0#64
  if 2*i + 1 < n then lo ||| (maps.getD (n - 2*i - 2) 0#64 <<< 32) else lo

def maskState (alloc0 : Nat) (bytes : List Byte) : MState :=
  maskLoop (splitComma (cstr bytes)) { alloc := alloc0 }

def maskSet (dst : Bitmap) (maps : List Word) : Bitmap :=
  (List.range ((maps.length + 1) / 2)).foldl (fun s i => s.setIthUlong i (maskWord maps i)) dst.zero

/-- the whole parser on the content of an existing file (`alloc0` = the static `_nr_maps_allocated`) -/
def cpumask (dst : Bitmap) (alloc0 : Nat) (bytes : List Byte) : Bitmap :=
  maskSet dst (maskState alloc0 bytes).maps

/-! ### what the kernel writes (used by the specification theorems) -/

def renderItem (it : Nat × Nat) : List Byte :=
  if it.1 = it.2 then decDigits it.1 else decDigits it.1 ++ [45] ++ decDigits it.2

/-- `a` / `a-b` items joined by commas, then a newline -/
def renderList : List (Nat × Nat) → List Byte
  | [] => [10]
  | [it] => renderItem it ++ [10]
  | it :: rest => renderItem it ++ [44] ++ renderList rest

/-- ascending, disjoint, below `bound` -/
def AscFrom : Nat → List (Nat × Nat) → Prop
  | _, [] => True
  | lo, (a, b) :: rest => lo ≤ a ∧ a ≤ b ∧ b + 1 < 2^31 ∧ AscFrom (b + 1) rest

/-- 32-bit groups printed as the kernel does (`%08x`), most significant first, joined by commas, newline -/
def renderMask : List Nat → List Byte
  | [] => [10]
  | [g] => hexPad 8 g ++ [10]
  | g :: rest => hexPad 8 g ++ [44] ++ renderMask rest

end Hw.LinuxParse
