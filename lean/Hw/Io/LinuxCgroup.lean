/-
  Hw.Io.LinuxCgroup — `hwloc_linux__get_allowed_resources` of hwloc/topology-linux.c (cgroup / cpuset handling):

    hwloc_find_linux_cgroup_mntpnt       three standard mount points, then the /proc/mounts scan
                                         (glibc getmntent_r + the cgroup2 / cpuset / cgroup rules)
    hwloc_read_linux_cgroup_name         /proc/self/cpuset (char[128]), else the /proc/self/cgroup lines
                                         (fgets into char line[256], `:cpuset:` / `::`)
    hwloc_admin_disable_set_from_cgroup  snprintf of the cpuset file name into char[256], cpulist read, fill on failure
    hwloc_linux__get_allowed_resources   the composition

  The file system is a function `fs : path → Option content` (`none` = cannot be opened or read) plus
  `acc : path → Bool` for access(R_OK).  Streams are byte lists; `fgets` is modelled literally (at most
  n-1 bytes, stops behind a newline), C string functions see `cstr` (bytes before the first NUL) of what
  fgets / read stored.  glibc's getmntent_r (2.36: misc/mntent_r.c) is modelled, not verified: trusted
  base, differential-tested through hwloc_find_linux_cgroup_mntpnt.
-/
import Hw.Io.LinuxNum
namespace Hw.LinuxCgroup
open Hw Hw.LinuxParse Hw.LinuxNum

/-! ### libc: fgets, strsep, snprintf("%s…") -/

/-- `fgets(buf, k+1, stream)`: (bytes stored, rest of the stream) -/
def fgetsAux : Nat → List Byte → List Byte × List Byte
  | 0, s => ([], s)
  | _, [] => ([], [])
  | k+1, c :: cs =>
    if c = 10 then ([c], cs)
    else ((c :: (fgetsAux k cs).1), (fgetsAux k cs).2)

def fgets (n : Nat) (s : List Byte) : List Byte × List Byte := fgetsAux (n - 1) s

/-- pieces between occurrences of `d` (what repeated `strsep(&p, "d")` returns); never empty -/
def splitBy (d : Byte) : List Byte → List (List Byte)
  | [] => [[]]
  | c :: cs =>
    if c = d then [] :: splitBy d cs
    else match splitBy d cs with
      | p :: ps => (c :: p) :: ps
      | [] => [[c]]

/-- `snprintf(buf, n, "%s%s…", …)`: the bytes stored in front of the NUL -/
def snprintfS (n : Nat) (s : List Byte) : List Byte := s.take (n - 1)

/-- up to the first newline (`tmp = strchr(s, '\n'); if (tmp) *tmp = 0`) -/
def chopNl (s : List Byte) : List Byte := s.takeWhile (fun c => c != 10)

/-! ### hwloc_read_linux_cgroup_name -/

def cpusetNameLen : Nat := 128
def cgroupLineLen : Nat := 256

/-- one line as the C sees it (the C string stored by fgets): the cgroup path if it is a
`N:cpuset:path` (v1 cpuset hierarchy) or `N::path` (v2 unified hierarchy) line -/
def cgLineMatch (line : List Byte) : Option (List Byte) :=
  let suf := line.dropWhile (fun c => c != 58)            -- strchr(line, ':')
  if suf = [] then none
  else if (str ":cpuset:").isPrefixOf suf then some (chopNl (suf.drop 8))
  else if (str "::").isPrefixOf suf then some (chopNl (suf.drop 2))
  else none

/-- the `while (fgets(line, 256, file))` loop -/
def cgLoop : Nat → List Byte → Option (List Byte)
  | 0, _ => none
  | fuel+1, s =>
    if s = [] then none
    else match cgLineMatch (cstr (fgets cgroupLineLen s).1) with
      | some p => some p
      | none => cgLoop fuel (fgets cgroupLineLen s).2

/-- `none` = NULL -/
def cgroupName (cpusetFile cgroupFile : Option (List Byte)) : Option (List Byte) :=
  match readPath cpusetNameLen cpusetFile with
  | some b => some (chopNl (cstr b))
  | none =>
    match cgroupFile with
    | none => none
    | some c => cgLoop (c.length + 1) c

/-! ### glibc getmntent_r -/

def isBlank (c : Byte) : Bool := c == 32 || c == 9

/-- the `char tmp[1024]` loop that forgets the rest of an over-long line -/
def discardLine : Nat → List Byte → List Byte
  | 0, s => s
  | fuel+1, s =>
    if s = [] then []
    else if (cstr (fgets 1024 s).1).contains 10 then (fgets 1024 s).2
    else discardLine fuel (fgets 1024 s).2

def stripTrail (l : List Byte) : List Byte := (l.reverse.dropWhile isBlank).reverse

/-- the escape sequences `decode_name` knows, looked up behind a backslash: (decoded byte, bytes to skip) -/
def escOf (r : List Byte) : Option (Byte × Nat) :=
  match r with
  | 48 :: 52 :: 48 :: _ => some (32, 3)      -- \040
  | 48 :: 49 :: 49 :: _ => some (9, 3)       -- \011
  | 48 :: 49 :: 50 :: _ => some (10, 3)      -- \012
  | 92 :: _ => some (92, 1)                  -- \\
  | 49 :: 51 :: 52 :: _ => some (92, 3)      -- \134
  | _ => none

/-- `decode_name` (first argument: bytes of a recognised escape still to be skipped) -/
def decodeAux : Nat → List Byte → List Byte
  | _, [] => []
  | k+1, _ :: r => decodeAux k r
  | 0, c :: r =>
    match (if c = 92 then escOf r else none) with
    | some (d, k) => d :: decodeAux k r
    | none => c :: decodeAux 0 r

def decodeName (s : List Byte) : List Byte := decodeAux 0 s

/-- `cp = strsep(&head, " \t"); if (head) head += strspn(head, " \t")` -/
def sepTok (h : Option (List Byte)) : List Byte × Option (List Byte) :=
  match h with
  | none => ([], none)
  | some s =>
    match s.dropWhile (fun c => !isBlank c) with
    | [] => (s.takeWhile (fun c => !isBlank c), none)
    | _ :: r => (s.takeWhile (fun c => !isBlank c), some (r.dropWhile isBlank))

structure MntEnt where
  dir : List Byte
  type : List Byte
  opts : List Byte
deriving Repr, DecidableEq

def parseEnt (head : List Byte) : MntEnt :=
  let h1 := (sepTok (some head)).2
  let f2 := sepTok h1
  let f3 := sepTok f2.2
  let f4 := sepTok f3.2
  { dir := decodeName f2.1, type := decodeName f3.1, opts := decodeName f4.1 }

/-- the line glibc works on and the stream behind it, for one `fgets(buffer, bufsiz, stream)` -/
def mntLine (bufsiz : Nat) (s : List Byte) : List Byte × List Byte :=
  let chunk := (fgets bufsiz s).1
  let rest := (fgets bufsiz s).2
  let cs := cstr chunk
  if cs.contains 10 then (stripTrail (chopNl cs), rest)
  else (cs, discardLine (rest.length + 1) rest)

/-- `get_mnt_entry`: the next entry that is neither empty nor a comment -/
def nextEnt (bufsiz : Nat) : Nat → List Byte → Option (MntEnt × List Byte)
  | 0, _ => none
  | fuel+1, s =>
    if s = [] then none
    else
      let head := (mntLine bufsiz s).1.dropWhile isBlank
      match head with
      | [] => nextEnt bufsiz fuel (mntLine bufsiz s).2
      | c :: _ =>
        if c = 35 then nextEnt bufsiz fuel (mntLine bufsiz s).2
        else some (parseEnt head, (mntLine bufsiz s).2)

/-! ### hwloc_find_linux_cgroup_mntpnt -/

inductive CgType
  | cgroup2 | cgroup1 | cpuset
deriving Repr, DecidableEq

abbrev FS := List Byte → Option (List Byte)

def ctrlPathLen : Nat := 256
def ctrlsLen : Nat := 1024

/-- "look for cpuset separated by spaces" in the first line of cgroup.controllers -/
def ctrlHasCpuset (buf : List Byte) : Bool :=
  (splitBy 32 (chopNl (cstr buf))).contains (str "cpuset")

def ctrlPath (dir : List Byte) : List Byte := snprintfS ctrlPathLen (dir ++ str "/cgroup.controllers")

/-- the body of the `while (getmntent_r(…))` loop: `some` = break with a mount point -/
def entMatch (fs : FS) (e : MntEnt) : Option (CgType × List Byte) :=
  if e.type = str "cgroup2" then
    match readPath ctrlsLen (fs (ctrlPath e.dir)) with
    | some b => if ctrlHasCpuset b then some (.cgroup2, e.dir) else none
    | none => none
  else if e.type = str "cpuset" then some (.cpuset, e.dir)
  else if e.type = str "cgroup" then
    let opts := splitBy 44 e.opts
    if opts.contains (str "cpuset") then
      (if opts.contains (str "noprefix") then some (.cpuset, e.dir) else some (.cgroup1, e.dir))
    else none
  else none

def mntLoop (fs : FS) (bufsiz : Nat) : Nat → List Byte → Option (CgType × List Byte)
  | 0, _ => none
  | fuel+1, s =>
    match nextEnt bufsiz (s.length + 1) s with
    | none => none
    | some (e, rest) =>
      match entMatch fs e with
      | some r => some r
      | none => mntLoop fs bufsiz fuel rest

/-- `none` = `*mntpnt == NULL`.  `mounts` = content of <root>/proc/mounts, `bufsiz` = 4 * page size -/
def findMntpnt (acc : List Byte → Bool) (fs : FS) (bufsiz : Nat) (mounts : Option (List Byte)) :
    Option (CgType × List Byte) :=
  if acc (str "/sys/fs/cgroup/cpuset.cpus.effective") then some (.cgroup2, str "/sys/fs/cgroup")
  else if acc (str "/sys/fs/cgroup/cpuset/cpuset.cpus") then some (.cgroup1, str "/sys/fs/cgroup/cpuset")
  else if acc (str "/dev/cpuset/cpus") then some (.cpuset, str "/dev/cpuset")
  else match mounts with
    | none => none
    | some m => mntLoop fs bufsiz (m.length + 1) m

/-! ### hwloc_admin_disable_set_from_cgroup -/

def cpusetFilenameLen : Nat := 256

def cpusetSuffix (t : CgType) (attr : List Byte) : List Byte :=
  match t with
  | .cgroup2 => str "/cpuset." ++ attr ++ str ".effective"
  | .cgroup1 => str "/cpuset." ++ attr
  | .cpuset => str "/" ++ attr

def cpusetPath (t : CgType) (mnt name attr : List Byte) : List Byte :=
  snprintfS cpusetFilenameLen (mnt ++ name ++ cpusetSuffix t attr)

/-- the new content of `admin_enabled_set`; `none` = undefined behaviour inside the cpulist parser (C18-F1) -/
def adminDisable (fs : FS) (t : CgType) (mnt name attr : List Byte) (set : Bitmap) : Option Bitmap :=
  match fs (cpusetPath t mnt name attr) with
  | none => some set.fill
  | some content => cpulist set content

/-! ### hwloc_linux__get_allowed_resources -/

structure Allowed where
  name : Option (List Byte)          -- *cpuset_namep
  cpus : Option Bitmap               -- topology->allowed_cpuset afterwards (`none` = UB in the cpulist parser)
  mems : Option Bitmap
deriving Repr, DecidableEq

def getAllowed (acc : List Byte → Bool) (fs : FS) (bufsiz : Nat) (cpus mems : Bitmap) : Allowed :=
  match findMntpnt acc fs bufsiz (fs (str "/proc/mounts")) with
  | none => { name := none, cpus := some cpus, mems := some mems }
  | some (t, mnt) =>
    match cgroupName (fs (str "/proc/self/cpuset")) (fs (str "/proc/self/cgroup")) with
    | none => { name := none, cpus := some cpus, mems := some mems }
    | some name =>
      { name := some name,
        cpus := adminDisable fs t mnt name (str "cpus") cpus,
        mems := adminDisable fs t mnt name (str "mems") mems }

end Hw.LinuxCgroup
