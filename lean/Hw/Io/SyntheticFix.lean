/-
  Hw.Io.SyntheticFix — export / re-import of a synthetic topology under the flags NO_ATTRS | IGNORE_MEMORY: the exported
  string is the canonical description `printDesc` of the level structure, which `parse` accepts and reads back as exactly
  that structure (`parse_faithful`); the exported string depends on the level structure only.
-/
import Hw.Io.SyntheticTopo
import Hw.Io.SyntheticFaithful
namespace Hw.Syn
open Hw Hw.Topo

/-- HWLOC_TOPOLOGY_EXPORT_SYNTHETIC_FLAG_NO_ATTRS | ..._IGNORE_MEMORY -/
def fixFlags : Nat := 10

def nameMatches (ty cd : Nat) (ct : Int) (nm : TName) : Bool :=
  nm.res.type == ty && (!isCacheT ty || (nm.res.depth == cd && nm.res.ctype == ct))

/-- the canonical name a level is exported with -/
def nameOf (l : NLevel) : Option TName := canonNames.find? (nameMatches l.type l.cdepth l.ctype)

/-- the level structure as a list of `name:arity` items; `none` when a level has no canonical name (e.g. a cache whose depth
does not fit its type) -/
def specsOf : List NLevel → Option (List LSpec)
  | [] => some []
  | l :: rest =>
    match nameOf l, specsOf rest with
    | some nm, some r => some (⟨nm, l.arity⟩ :: r)
    | _, _ => none

theorem name_text : ∀ nm ∈ canonNames, ∀ (ty cd : Nat) (ct : Int), nameMatches ty cd ct nm = true →
    str (objName fixFlags ty cd ct) = nm.text := by
  intro nm hnm ty cd ct hm
  unfold nameMatches at hm
  simp only [canonNames, List.mem_cons, List.not_mem_nil, or_false] at hnm
  rcases hnm with rfl | rfl | rfl | rfl | rfl | rfl | rfl | rfl | rfl | rfl | rfl | rfl | rfl | rfl | rfl | rfl | rfl
  all_goals
    simp only [Bool.and_eq_true, beq_iff_eq] at hm
    obtain ⟨h1, h2⟩ := hm
    subst h1
    first
      | (simp only [Bool.or_eq_true, Bool.and_eq_true, beq_iff_eq] at h2
         rcases h2 with h2 | ⟨h2, h3⟩
         · exact absurd h2 (by decide)
         · subst h2; subst h3; decide)
      | rfl

theorem nameOf_text (l : NLevel) (nm : TName) (h : nameOf l = some nm) :
    nm ∈ canonNames ∧ str (objName fixFlags l.type l.cdepth l.ctype) = nm.text ∧ nm.res.type = l.type := by
  unfold nameOf at h
  have h1 := List.mem_of_find?_eq_some h
  have h2 := List.find?_some h
  refine ⟨h1, name_text nm h1 _ _ _ h2, ?_⟩
  unfold nameMatches at h2
  simp only [Bool.and_eq_true, beq_iff_eq] at h2
  exact h2.1

theorem objChunks_fix (ty cd : Nat) (ct : Int) (a sz : Nat) (idx : Option (List Nat)) :
    objChunks fixFlags ty cd ct (some a) sz none idx = [str (objName fixFlags ty cd ct) ++ (str ":" ++ decDigits a)] := by
  unfold objChunks
  have : hasFlag fixFlags flagNoAttrs = true := by decide
  simp [this]

theorem go_text (t : Topo) (deepest : Option Nat) : ∀ (ls : List NLevel) (specs : List LSpec) (j : Nat) (np : Bool) (acc : List Bytes),
    specsOf ls = some specs →
    (exportChunks.go t fixFlags deepest true ls j np acc).ok = true ∧
    text (exportChunks.go t fixFlags deepest true ls j np acc).chunks =
      text acc ++ (if np then printLevels specs else (printLevels specs).drop 1) := by
  intro ls
  induction ls with
  | nil =>
    intro specs j np acc h
    simp only [specsOf, Option.some.injEq] at h
    subst h
    unfold exportChunks.go
    cases np <;> simp [printLevels]
  | cons l rest ih =>
    intro specs j np acc h
    unfold specsOf at h
    split at h
    · rename_i nm r hn hr
      simp only [Option.some.injEq] at h
      subst h
      obtain ⟨_, htxt, _⟩ := nameOf_text l nm hn
      unfold exportChunks.go
      simp only [objChunks_fix, if_true, Bool.not_true, Bool.false_eq_true, if_false, List.append_nil]
      obtain ⟨i1, i2⟩ := ih r (j + 1) true (acc ++ (if np = true then [str " "] else []) ++
        [str (objName fixFlags l.type l.cdepth l.ctype) ++ (str ":" ++ decDigits l.arity)]) hr
      refine ⟨i1, ?_⟩
      rw [i2]
      simp only [text, List.flatten_append, if_true, printLevels, htxt]
      cases np <;> simp [str]
    · cases h

/-- under NO_ATTRS | IGNORE_MEMORY the export succeeds and is the canonical description of the level structure -/
theorem export_fix_text (t : Topo) (specs : List LSpec) (h : specsOf t.levels = some specs) :
    (exportChunks t fixFlags).ok = true ∧ text (exportChunks t fixFlags).chunks = printDesc specs := by
  unfold exportChunks
  have h1 : ¬ fixFlags ≥ 16 := by decide
  have h2 : hasFlag fixFlags flagV1 = false := by decide
  have h3 : hasFlag fixFlags flagIgnoreMem = true := by decide
  simp only [h1, if_false, h2, Bool.false_eq_true, false_and, h3, if_true, Bool.not_true, List.isEmpty_nil]
  have := go_text t (((List.range t.levels.length).filter (fun j => !(t.levels[j]?.getD { type := 0, arity := 0 }).mem.isEmpty)).getLast?)
    t.levels specs 0 false [] h
  simp only [Bool.false_eq_true, if_false, text, List.flatten_nil, List.nil_append] at this
  exact ⟨this.1, this.2⟩

/-- the exported string depends on (type, cache depth, cache kind, arity) of the levels only -/
def levelKey (l : NLevel) : Nat × Nat × Int × Nat := (l.type, l.cdepth, l.ctype, l.arity)

theorem specsOf_congr : ∀ (ls ls' : List NLevel), ls'.map levelKey = ls.map levelKey → specsOf ls' = specsOf ls := by
  intro ls
  induction ls with
  | nil => intro ls' h; cases ls' with
    | nil => rfl
    | cons a b => simp at h
  | cons l rest ih =>
    intro ls' h
    cases ls' with
    | nil => simp at h
    | cons l' rest' =>
      simp only [List.map_cons, List.cons.injEq] at h
      obtain ⟨hk, hr⟩ := h
      unfold levelKey at hk
      simp only [Prod.mk.injEq] at hk
      obtain ⟨k1, k2, k3, k4⟩ := hk
      unfold specsOf
      rw [ih rest' hr]
      have : nameOf l' = nameOf l := by unfold nameOf; rw [k1, k2, k3]
      rw [this, k4]

/-- executable form of `Accepts` -/
def acceptsB (ls : List LSpec) : Bool :=
  ls.all (fun l => decide (l.name ∈ canonNames) && decide (1 ≤ l.arity) && decide (l.arity < u32)) && !ls.isEmpty &&
  (match ls.getLast? with | some l => l.name.res.type == tPU | none => false) &&
  cnt ls tPU == 1 && decide (cnt ls tPACKAGE ≤ 1) && decide (cnt ls tDIE ≤ 1) && decide (cnt ls tNUMA ≤ 1) &&
  decide (cnt ls tCORE ≤ 1) && decide (ls.length ≤ 125) && decide (prodAr ls ≤ ulongMax)

theorem acceptsB_sound (ls : List LSpec) (h : acceptsB ls = true) : Accepts ls := by
  unfold acceptsB at h
  simp only [Bool.and_eq_true, List.all_eq_true, decide_eq_true_eq, beq_iff_eq, Bool.not_eq_true', List.isEmpty_eq_false_iff] at h
  obtain ⟨⟨⟨⟨⟨⟨⟨⟨⟨h1, h2⟩, h3⟩, h4⟩, h5⟩, h6⟩, h7⟩, h8⟩, h9⟩, h10⟩ := h
  refine ⟨fun l hl => ⟨(h1 l hl).1.1, (h1 l hl).1.2, (h1 l hl).2⟩, h2, ?_, h4, h5, h6, h7, h8, h9, h10⟩
  intro l hl
  rw [hl] at h3
  simpa using h3

end Hw.Syn
