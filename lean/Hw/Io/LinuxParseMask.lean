/-
  Hw.Io.LinuxParseMask — theorems about `hwloc__read_path_as_cpumask` (model in Hw.Io.LinuxParse):

    cpumask_safe   every `maps[i] = …` write is inside the allocation, for arbitrary file contents
    cpumask_inv    the result is always a well-formed finite bitmap
    cpumask_spec   on what the kernel prints (`%08x` groups, most significant first) the result is the
                   set whose bit 32k+j is bit j of group k from the right
-/
import Hw.Io.LinuxParse
import Hw.Base.NumLemmas
import Hw.Bitmap.Lemmas
namespace Hw.LinuxParse
open Hw

/-! ### 1. safety of `maps[]` -/

/-- loop invariant: `nr_maps ≤ nr_maps_allocated`, the allocation is not empty, all writes in range -/
def MState.Safe (st : MState) : Prop :=
  st.maps.length ≤ st.alloc ∧ 1 ≤ st.alloc ∧ ∀ w ∈ st.writes, w.1 < w.2

theorem MState.grow_maps (st : MState) : st.grow.maps = st.maps := by
  unfold MState.grow; split <;> rfl

theorem MState.grow_writes (st : MState) : st.grow.writes = st.writes := by
  unfold MState.grow; split <;> rfl

theorem MState.grow_lt (st : MState) (h : st.Safe) : st.grow.maps.length < st.grow.alloc := by
  obtain ⟨h1, h2, _⟩ := h
  unfold MState.grow
  split
  · simp only; omega
  · omega

theorem MState.grow_safe (st : MState) (h : st.Safe) : st.grow.Safe := by
  have hlt := MState.grow_lt st h
  refine ⟨by omega, by omega, ?_⟩
  rw [MState.grow_writes]; exact h.2.2

theorem MState.push_safe (st : MState) (m : Word) (h : st.Safe) (hlt : st.maps.length < st.alloc) :
    (st.push m).Safe := by
  obtain ⟨_, h2, h3⟩ := h
  unfold MState.push
  refine ⟨?_, h2, ?_⟩
  · simp only [List.length_append, List.length_singleton]; omega
  · intro w hw
    simp only [List.mem_cons] at hw
    rcases hw with hw | hw
    · rw [hw]; exact hlt
    · exact h3 w hw

theorem maskLoop_safe (ps : List (List Byte)) : ∀ st : MState, st.Safe → (maskLoop ps st).Safe := by
  induction ps with
  | nil => intro st h; simpa [maskLoop] using h
  | cons p ps ih =>
    intro st h
    unfold maskLoop
    split
    · exact h
    · have hg := MState.grow_safe st h
      have hlt := MState.grow_lt st h
      cases ps with
      | nil => exact MState.push_safe _ _ hg hlt
      | cons q qs =>
        simp only
        split
        · exact ih _ hg
        · exact ih _ (MState.push_safe _ _ hg hlt)

theorem cpumask_safe (alloc0 : Nat) (h0 : 1 ≤ alloc0) (bytes : List Byte) :
    ∀ w ∈ (maskState alloc0 bytes).writes, w.1 < w.2 := by
  unfold maskState
  refine (maskLoop_safe _ _ ⟨?_, h0, ?_⟩).2.2
  · simp
  · intro w hw; simp at hw

/-! ### the result is a finite well-formed bitmap -/

theorem setIthUlong_inf (b : Bitmap) (i : Nat) (m : Word) : (b.setIthUlong i m).inf = b.inf := by
  unfold Bitmap.setIthUlong; simp

theorem maskSet_fold_inv (maps : List Word) (l : List Nat) : ∀ s : Bitmap, s.Inv ∧ s.inf = false →
    (l.foldl (fun s i => s.setIthUlong i (maskWord maps i)) s).Inv ∧
    (l.foldl (fun s i => s.setIthUlong i (maskWord maps i)) s).inf = false := by
  induction l with
  | nil => intro s h; exact h
  | cons a l ih =>
    intro s h
    rw [List.foldl_cons]
    apply ih
    exact ⟨Bitmap.setIthUlong_inv _ _ _ h.1, by rw [setIthUlong_inf]; exact h.2⟩

theorem cpumask_inv (dst : Bitmap) (alloc0 : Nat) (bytes : List Byte) :
    (cpumask dst alloc0 bytes).Inv ∧ (cpumask dst alloc0 bytes).inf = false := by
  unfold cpumask maskSet
  apply maskSet_fold_inv
  exact ⟨by simp [Bitmap.Inv, Bitmap.zero], rfl⟩

/-! ### 2. the kernel format -/

/-! #### the buffer and its pieces -/

theorem takeWhile_all_m {α : Type} (p : α → Bool) (l : List α) (h : ∀ c ∈ l, p c = true) :
    l.takeWhile p = l := by
  induction l with
  | nil => rfl
  | cons a l ih =>
    rw [List.takeWhile_cons, h a (by simp)]
    simp only [if_true]
    rw [ih (fun c hc => h c (by simp [hc]))]

theorem renderMask_one (g : Nat) : renderMask [g] = hexPad 8 g ++ [10] := rfl
theorem renderMask_more (g g' : Nat) (r : List Nat) :
    renderMask (g :: g' :: r) = hexPad 8 g ++ 44 :: renderMask (g' :: r) := by
  show hexPad 8 g ++ [44] ++ renderMask (g' :: r) = _
  simp

theorem hexChar_ne (c : Nat) (h : IsHexChar c) : c ≠ 0 ∧ c ≠ 44 ∧ c ≠ 45 ∧ c ≠ 43 := by
  unfold IsHexChar at h; omega

theorem renderMask_chars (gs : List Nat) : ∀ c ∈ renderMask gs, c ≠ 0 := by
  induction gs with
  | nil => intro c hc; simp [renderMask] at hc; rw [hc]; decide
  | cons g rest ih =>
    cases rest with
    | nil =>
      intro c hc
      rw [renderMask_one, List.mem_append] at hc
      rcases hc with hc | hc
      · exact (hexChar_ne c (hexPad_chars 8 g c hc)).1
      · simp at hc; rw [hc]; decide
    | cons g' r =>
      intro c hc
      rw [renderMask_more, List.mem_append, List.mem_cons] at hc
      rcases hc with hc | hc | hc
      · exact (hexChar_ne c (hexPad_chars 8 g c hc)).1
      · rw [hc]; decide
      · exact ih c hc

theorem cstr_renderMask (gs : List Nat) : cstr (renderMask gs) = renderMask gs := by
  unfold cstr
  apply takeWhile_all_m
  intro c hc
  have := renderMask_chars gs c hc
  simp [this]

theorem splitComma_ne_nil (s : List Byte) : splitComma s ≠ [] := by
  induction s with
  | nil => simp [splitComma]
  | cons c cs ih =>
    unfold splitComma
    split
    · simp
    · split <;> simp

theorem splitComma_nocomma_m (s : List Byte) (h : ∀ c ∈ s, c ≠ 44) : splitComma s = [s] := by
  induction s with
  | nil => rfl
  | cons c cs ih =>
    unfold splitComma
    rw [if_neg (h c (by simp)), ih (fun c hc => h c (by simp [hc]))]

theorem splitComma_append_comma_m (s t : List Byte) (h : ∀ c ∈ s, c ≠ 44) :
    splitComma (s ++ 44 :: t) = s :: splitComma t := by
  induction s with
  | nil => simp [splitComma]
  | cons c cs ih =>
    rw [List.cons_append]
    simp only [splitComma]
    rw [if_neg (h c (by simp)), ih (fun c hc => h c (by simp [hc]))]

theorem hexPad_nocomma (g : Nat) : ∀ c ∈ hexPad 8 g, c ≠ 44 :=
  fun c hc => (hexChar_ne c (hexPad_chars 8 g c hc)).2.1

theorem split_renderMask_one (g : Nat) : splitComma (renderMask [g]) = [hexPad 8 g ++ [10]] := by
  rw [renderMask_one]
  apply splitComma_nocomma_m
  intro c hc
  rw [List.mem_append] at hc
  rcases hc with hc | hc
  · exact hexPad_nocomma g c hc
  · simp at hc; rw [hc]; decide

theorem split_renderMask_more (g g' : Nat) (r : List Nat) :
    splitComma (renderMask (g :: g' :: r)) = hexPad 8 g :: splitComma (renderMask (g' :: r)) := by
  rw [renderMask_more]
  exact splitComma_append_comma_m _ _ (hexPad_nocomma g)


/-! #### `sscanf("%lx")` on a printed group -/

theorem numBody16_plain (c : Nat) (cs : List Byte)
    (hx : c = 48 → ∀ x tl, cs = x :: tl → x ≠ 120 ∧ x ≠ 88) :
    numBody 16 (c :: cs) = takeDigits 16 (c :: cs) 0 0 := by
  unfold numBody
  split
  rename_i b s2 heq
  have key : (b, s2) = (16, c :: cs) := by
    rw [← heq]
    split
    · rename_i x d r heq'
      cases heq'
      have := hx rfl x (d :: r) rfl
      simp [this.1, this.2]
    · simp
    · simp
  cases key
  rfl

theorem scanNum16_plain (c : Nat) (cs : List Byte) (hc : IsHexChar c)
    (hx : c = 48 → ∀ x tl, cs = x :: tl → x ≠ 120 ∧ x ≠ 88) :
    scanNum 16 (c :: cs) =
      (if (takeDigits 16 (c :: cs) 0 0).2.1 = 0 then none
       else some (signedVal false (takeDigits 16 (c :: cs) 0 0).1, (takeDigits 16 (c :: cs) 0 0).2.2)) := by
  unfold scanNum
  have hs : (c :: cs).dropWhile isSpace = c :: cs := by
    rw [List.dropWhile_cons, isSpace_hex c hc]; rfl
  simp only [hs]
  split
  · rename_i heq; cases heq; unfold IsHexChar at hc; omega
  · rename_i heq; cases heq; unfold IsHexChar at hc; omega
  · rw [numBody16_plain c cs hx]

theorem scanNum16_hexPad (w n : Nat) (rest : List Byte) (hn : n < 2 ^ 64) (h : NoDigitHead rest) :
    scanNum 16 (hexPad w n ++ rest) = some (n, rest) := by
  have hne := hexPad_ne_nil w n
  have hch := hexPad_chars w n
  have htd := takeDigits_hexPad w n rest h
  cases hp : hexPad w n with
  | nil => exact absurd hp hne
  | cons c l' =>
    rw [hp] at htd hch
    rw [List.cons_append] at htd ⊢
    rw [scanNum16_plain c (l' ++ rest) (hch c (by simp)), htd]
    · simp only [List.length_cons]
      rw [if_neg (by omega)]
      unfold signedVal ulongMax
      rw [if_neg (by omega)]
      simp
    · intro _ x tl e
      cases l' with
      | nil =>
        rw [List.nil_append] at e
        exact digitVal_ne_x x (h x tl e)
      | cons x' l'' =>
        rw [List.cons_append] at e
        cases e
        exact hexChar_ne_x x (hch x (by simp))

theorem noDigitHead_nl_m : NoDigitHead [10] := by
  intro c cs h; cases h; decide


/-! #### the loop on the printed groups -/

theorem maskLoop_last (p : List Byte) (st : MState) (m : Nat) (r : List Byte)
    (h : scanNum 16 p = some (m, r)) : maskLoop [p] st = st.grow.push (BitVec.ofNat 64 m) := by
  rw [maskLoop, h]

theorem maskLoop_more (p : List Byte) (ps : List (List Byte)) (st : MState) (m : Nat) (r : List Byte)
    (h : scanNum 16 p = some (m, r)) (hps : ps ≠ []) :
    maskLoop (p :: ps) st =
      if m = 0 ∧ st.grow.maps.length = 0 then maskLoop ps st.grow
      else maskLoop ps (st.grow.push (BitVec.ofNat 64 m)) := by
  cases ps with
  | nil => exact absurd rfl hps
  | cons q qs => rw [maskLoop, h]

/-- the groups without the leading all-zero groups (the last group always stays) -/
def stripZ : List Nat → List Nat
  | [] => []
  | [g] => [g]
  | g :: g' :: rest => if g = 0 then stripZ (g' :: rest) else g :: g' :: rest

theorem push_maps (st : MState) (m : Word) : (st.push m).maps = st.maps ++ [m] := rfl

/-- once a map is stored every further group is stored -/
theorem maskLoop_render_ne (gs : List Nat) (hne : gs ≠ []) (hg : ∀ g ∈ gs, g < 2^64) :
    ∀ st : MState, st.maps ≠ [] →
      (maskLoop (splitComma (renderMask gs)) st).maps = st.maps ++ gs.map (BitVec.ofNat 64) := by
  induction gs with
  | nil => exact absurd rfl hne
  | cons g rest ih =>
    intro st hst
    have hgg : g < 2^64 := hg g (by simp)
    cases rest with
    | nil =>
      rw [split_renderMask_one, maskLoop_last _ _ g [10] (scanNum16_hexPad 8 g [10] hgg noDigitHead_nl_m),
        push_maps, MState.grow_maps]
      rfl
    | cons g' r =>
      have hs : scanNum 16 (hexPad 8 g) = some (g, []) := by
        have := scanNum16_hexPad 8 g [] hgg noDigitHead_nil
        rwa [List.append_nil] at this
      rw [split_renderMask_more, maskLoop_more _ _ _ g [] hs (splitComma_ne_nil _)]
      have hlen : st.grow.maps.length ≠ 0 := by
        rw [MState.grow_maps]; intro e; exact hst (List.eq_nil_of_length_eq_zero e)
      rw [if_neg (fun h => hlen h.2)]
      rw [ih (by simp) (fun x hx => hg x (by simp [hx])) _ (by rw [push_maps]; simp),
        push_maps, MState.grow_maps]
      simp

theorem maskLoop_render (gs : List Nat) (hne : gs ≠ []) (hg : ∀ g ∈ gs, g < 2^64) :
    ∀ st : MState, st.maps = [] →
      (maskLoop (splitComma (renderMask gs)) st).maps = (stripZ gs).map (BitVec.ofNat 64) := by
  induction gs with
  | nil => exact absurd rfl hne
  | cons g rest ih =>
    intro st hst
    have hgg : g < 2^64 := hg g (by simp)
    cases rest with
    | nil =>
      rw [split_renderMask_one, maskLoop_last _ _ g [10] (scanNum16_hexPad 8 g [10] hgg noDigitHead_nl_m),
        push_maps, MState.grow_maps, hst]
      rfl
    | cons g' r =>
      have hs : scanNum 16 (hexPad 8 g) = some (g, []) := by
        have := scanNum16_hexPad 8 g [] hgg noDigitHead_nil
        rwa [List.append_nil] at this
      rw [split_renderMask_more, maskLoop_more _ _ _ g [] hs (splitComma_ne_nil _)]
      have hlen : st.grow.maps.length = 0 := by rw [MState.grow_maps, hst]; rfl
      have hg' : ∀ x ∈ g' :: r, x < 2^64 := fun x hx => hg x (by simp [hx])
      by_cases h0 : g = 0
      · rw [if_pos ⟨h0, hlen⟩, ih (by simp) hg' _ (by rw [MState.grow_maps]; exact hst)]
        simp [stripZ, h0]
      · rw [if_neg (fun h => h0 h.1)]
        rw [maskLoop_render_ne (g' :: r) (by simp) hg' _ (by rw [push_maps]; simp),
          push_maps, MState.grow_maps, hst]
        simp [stripZ, h0]

theorem maskState_render (alloc0 : Nat) (gs : List Nat) (hne : gs ≠ []) (hg : ∀ g ∈ gs, g < 2^64) :
    (maskState alloc0 (renderMask gs)).maps = (stripZ gs).map (BitVec.ofNat 64) := by
  unfold maskState
  rw [cstr_renderMask]
  exact maskLoop_render gs hne hg _ rfl


/-! #### from `maps[]` to the bitmap -/

theorem mem_zero' (b : Bitmap) (n : Nat) : b.zero.mem n = false := by
  unfold Bitmap.mem Bitmap.zero Bitmap.readWord
  by_cases h : n / 64 = 0
  · simp [h]
  · have : ([0#64] : List Word)[n/64]? = none := by
      apply List.getElem?_eq_none; simp; omega
    simp [this]

theorem mem_foldSet (f : Nat → Word) (n : Nat) : ∀ (k : Nat) (s : Bitmap),
    ((List.range k).foldl (fun s i => s.setIthUlong i (f i)) s).mem n =
      if n / 64 < k then (f (n / 64)).getLsbD (n % 64) else s.mem n := by
  intro k
  induction k with
  | zero => intro s; simp
  | succ k ih =>
    intro s
    rw [List.range_succ, List.foldl_append, List.foldl_cons, List.foldl_nil, Bitmap.mem_setIthUlong, ih]
    by_cases h1 : n / 64 = k
    · simp [h1]
    · by_cases h2 : n / 64 < k
      · have : n / 64 < k + 1 := by omega
        simp [h1, h2, this]
      · have : ¬ n / 64 < k + 1 := by omega
        simp [h1, h2, this]

theorem mem_maskSet (dst : Bitmap) (maps : List Word) (n : Nat) :
    (maskSet dst maps).mem n =
      if n / 64 < (maps.length + 1) / 2 then (maskWord maps (n / 64)).getLsbD (n % 64) else false := by
  unfold maskSet
  rw [mem_foldSet, mem_zero']

/-- group `k` counted from the right (0 beyond the list) -/
def grp (gs : List Nat) (k : Nat) : Nat := (gs.reverse[k]?).getD 0

theorem grp_ge (gs : List Nat) (k : Nat) (h : gs.length ≤ k) : grp gs k = 0 := by
  unfold grp
  rw [List.getElem?_eq_none (by simpa using h)]
  rfl

theorem grp_lt (gs : List Nat) (hg : ∀ g ∈ gs, g < 2^32) (k : Nat) : grp gs k < 2^32 := by
  unfold grp
  cases h : gs.reverse[k]? with
  | none => simp
  | some g =>
    have : g ∈ gs.reverse := List.mem_of_getElem? h
    simp only [Option.getD_some]
    exact hg g (by simpa using this)

theorem getD_map_rev (gs : List Nat) (k idx : Nat) (h : idx + k + 1 = gs.length) :
    (gs.map (BitVec.ofNat 64)).getD idx 0#64 = BitVec.ofNat 64 (grp gs k) := by
  unfold grp
  have hk : k < gs.length := by omega
  rw [List.getElem?_reverse hk]
  have : gs.length - 1 - k = idx := by omega
  rw [this, List.getD_eq_getElem?_getD, List.getElem?_map]
  have hidx : idx < gs.length := by omega
  rw [List.getElem?_eq_getElem hidx]; simp

theorem testBit_hi (a j : Nat) (ha : a < 2^32) (hj : 32 ≤ j) : a.testBit j = false := by
  apply Nat.testBit_lt_two_pow
  exact Nat.lt_of_lt_of_le ha (Nat.pow_le_pow_right (by omega) hj)

theorem maskWord_bit (gs : List Nat) (hg : ∀ g ∈ gs, g < 2^32) (i j : Nat) (hi : 2 * i < gs.length)
    (hj : j < 64) :
    (maskWord (gs.map (BitVec.ofNat 64)) i).getLsbD j =
      if j < 32 then (grp gs (2 * i)).testBit j else (grp gs (2 * i + 1)).testBit (j - 32) := by
  unfold maskWord
  simp only [List.length_map]
  rw [getD_map_rev gs (2 * i) (gs.length - 2 * i - 1) (by omega)]
  have hlo := grp_lt gs hg (2 * i)
  split
  · rename_i h2
    rw [getD_map_rev gs (2 * i + 1) (gs.length - 2 * i - 2) (by omega)]
    rw [BitVec.getLsbD_or, BitVec.getLsbD_shiftLeft, BitVec.getLsbD_ofNat, BitVec.getLsbD_ofNat]
    by_cases h32 : j < 32
    · simp [h32, hj]
    · rw [testBit_hi _ j hlo (by omega)]
      have : j - 32 < 64 := by omega
      simp [h32, hj, this]
  · rename_i h2
    rw [BitVec.getLsbD_ofNat]
    by_cases h32 : j < 32
    · simp [h32, hj]
    · rw [testBit_hi _ j hlo (by omega), grp_ge gs (2 * i + 1) (by omega)]
      simp [h32]

theorem mem_maskSet_groups (dst : Bitmap) (gs : List Nat) (hg : ∀ g ∈ gs, g < 2^32) (n : Nat) :
    (maskSet dst (gs.map (BitVec.ofNat 64))).mem n = (grp gs (n / 32)).testBit (n % 32) := by
  rw [mem_maskSet, List.length_map]
  have hj : n % 64 < 64 := Nat.mod_lt _ (by omega)
  by_cases h : n / 64 < (gs.length + 1) / 2
  · rw [if_pos h, maskWord_bit gs hg _ _ (by omega) hj]
    by_cases h32 : n % 64 < 32
    · rw [if_pos h32]
      have e1 : n / 32 = 2 * (n / 64) := by omega
      have e2 : n % 32 = n % 64 := by omega
      rw [e1, e2]
    · rw [if_neg h32]
      have e1 : n / 32 = 2 * (n / 64) + 1 := by omega
      have e2 : n % 32 = n % 64 - 32 := by omega
      rw [e1, e2]
  · rw [if_neg h, grp_ge gs (n / 32) (by omega)]
    simp

/-! #### leading zero groups do not matter -/

theorem grp_zero_cons (l : List Nat) (k : Nat) : grp (0 :: l) k = grp l k := by
  unfold grp
  rw [List.reverse_cons]
  by_cases h : k < l.length
  · rw [List.getElem?_append_left (by simpa using h)]
  · rw [List.getElem?_append_right (by simp; omega), List.getElem?_eq_none (l := l.reverse) (by simp; omega)]
    cases hk : k - l.reverse.length with
    | zero => rfl
    | succ m => rfl

theorem grp_stripZ (gs : List Nat) (k : Nat) : grp (stripZ gs) k = grp gs k := by
  induction gs with
  | nil => rfl
  | cons g rest ih =>
    cases rest with
    | nil => rfl
    | cons g' r =>
      by_cases h0 : g = 0
      · subst h0
        rw [grp_zero_cons, ← ih]
        simp [stripZ]
      · simp [stripZ, h0]

theorem stripZ_mem (gs : List Nat) : ∀ g ∈ stripZ gs, g ∈ gs := by
  induction gs with
  | nil => intro g h; exact h
  | cons a rest ih =>
    cases rest with
    | nil => intro g h; exact h
    | cons g' r =>
      intro g h
      by_cases h0 : a = 0
      · simp only [stripZ, h0, if_true] at h
        exact List.mem_cons_of_mem _ (ih g h)
      · simp only [stripZ, h0, if_false] at h
        exact h

/-! #### the specification -/

theorem cpumask_spec_grp (dst : Bitmap) (alloc0 : Nat) (gs : List Nat) (hne : gs ≠ [])
    (hg : ∀ g ∈ gs, g < 2^32) (n : Nat) :
    (cpumask dst alloc0 (renderMask gs)).mem n = (grp gs (n / 32)).testBit (n % 32) := by
  unfold cpumask
  have hg64 : ∀ g ∈ gs, g < 2^64 := fun g h => Nat.lt_trans (hg g h) (by decide)
  rw [maskState_render alloc0 gs hne hg64,
    mem_maskSet_groups dst (stripZ gs) (fun g h => hg g (stripZ_mem gs g h)), grp_stripZ]

set_option linter.unusedVariables false in
/-- NB `h0` is not needed by the proof: the contents of `maps[]` do not depend on the allocation (only
the safety of the writes does, `cpumask_safe`) -/
theorem cpumask_spec (dst : Bitmap) (alloc0 : Nat) (h0 : 1 ≤ alloc0) (gs : List Nat) (hne : gs ≠ [])
    (hg : ∀ g ∈ gs, g < 2^32) (n : Nat) :
    (cpumask dst alloc0 (renderMask gs)).mem n =
      (match gs.reverse[n / 32]? with | some g => g.testBit (n % 32) | none => false) := by
  rw [cpumask_spec_grp dst alloc0 gs hne hg]
  unfold grp
  cases gs.reverse[n / 32]? with
  | none => simp
  | some g => rfl


end Hw.LinuxParse
