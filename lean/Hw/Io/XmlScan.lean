/-
  Hw.XmlScan — the minimalistic (nolibxml) XML scanner of hwloc AS IT IS
  (hwloc/topology-xml-nolibxml.c, import side), plus two small index-checked models of consumer
  code of hwloc/topology-xml.c (distances array filling, userdata length arithmetic).

  Memory model.  The XML text lives in ONE mutable byte buffer `b : Array Nat` of length n
  (`nbdata->buffer`, a heap block of exactly `xmlbuflen` bytes).  Pointers into it are indexes.
  EVERY read and write of the C code goes through `rd` / `wr`, which are *bounds-checked*: an access
  at an index ≥ n does not return a byte, it makes the whole callback return `.error (.oob i)`
  (C: undefined behaviour / ASan report).  `.error .null` = dereference of a NULL(+1) pointer,
  `.error .under` = write before the block, `.error .fuel` = a loop did not terminate within its
  fuel (fuel is `b.size`, enough for any loop that stops at the final NUL).  "Memory safe and
  terminating" is therefore exactly "the callback returns `.ok _`".

  The model follows the CURRENT source (`fixed`).  The functions keep a `Variant` parameter only so that
  the four defects of the formerly pinned source (F05a look_init dereferenced a failed strchr, F05b
  backend_init wrote buffer[-1] for size 0, F05e next_attr did not test the first value byte for NUL,
  F05f the userdata importer called close_content without get_content) stay provable as NEGATIVE lemmas
  about `pinned`; the driver and every positive theorem use `fixed`.

  libc functions are modelled by their specification on NUL-terminated strings, reading byte by
  byte and stopping at the first byte that decides the result (strspn, strchr, strncmp, strcmp,
  strlen); sscanf("<topology version=\"%u.%u\">") first takes the strlen of its input (as glibc
  does) and then parses.
-/
namespace Hw.XmlScan

inductive Err
  | oob (i : Nat)   -- read or write at index i ≥ n
  | under           -- write before the start of the block (buffer[-1])
  | null            -- dereference of NULL / NULL+1
  | fuel            -- loop ran out of fuel (non-termination)
deriving Repr, DecidableEq

abbrev M := Except Err

abbrev Buf := Array Nat

/-- checked read of one byte -/
def rd (b : Buf) (i : Nat) : M Nat :=
  if h : i < b.size then .ok b[i] else .error (.oob i)

/-- checked write of one byte -/
def wr (b : Buf) (i v : Nat) : M Buf :=
  if h : i < b.size then .ok (b.set i v) else .error (.oob i)

/-- unchecked read (0 outside), only used in statements -/
def gt (b : Buf) (i : Nat) : Nat := b[i]?.getD 0

/-- the buffer is non-empty and its last byte is NUL (established by backend_init) -/
structure HasNul (b : Buf) : Prop where
  pos : 0 < b.size
  last : gt b (b.size - 1) = 0

/-! ### libc -/

/-- scan forward from `i` while `p byte`; index of the first byte with `¬ p`.  (`strspn`, and the
    search loops of `strchr` / `strlen`.)  `p 0` must be false for it to stop at a NUL. -/
def span (p : Nat → Bool) (b : Buf) : Nat → Nat → M Nat
  | 0, _ => .error .fuel
  | fuel+1, i => do
    let c ← rd b i
    if p c then span p b fuel (i+1) else pure i

def isSpace (c : Nat) : Bool := c == 32 || c == 9 || c == 10 || c == 13
/-- "abcdefghijklmnopqrstuvwxyz_" -/
def isAttrChar (c : Nat) : Bool := (97 ≤ c && c ≤ 122) || c == 95
/-- "abcdefghijklmnopqrstuvwxyz1234567890_" -/
def isTagChar (c : Nat) : Bool := (97 ≤ c && c ≤ 122) || (48 ≤ c && c ≤ 57) || c == 95

/-- `buffer + strspn(buffer, " \t\n\r")` -/
def ignoreSpaces (b : Buf) (i : Nat) : M Nat := span isSpace b b.size i

/-- `strchr(b+i, c)` for c ≠ 0: `some j` (first j ≥ i with b[j] = c before any NUL) or `none` (NULL) -/
def strchr (b : Buf) (i c : Nat) : M (Option Nat) := do
  let j ← span (fun x => x != c && x != 0) b b.size i
  let x ← rd b j
  pure (if x == c then some j else none)

/-- `!strncmp(b+i, lit, lit.length)` for a literal without NUL: reads stop at the first mismatch -/
def matchLit (b : Buf) : List Nat → Nat → M Bool
  | [], _ => pure true
  | c :: cs, i => do
    let x ← rd b i
    if x == c then matchLit b cs (i+1) else pure false

/-- `!strcmp(b+i, lit)` for a literal: the prefix as `matchLit`, then the terminating NUL -/
def strEqLit (b : Buf) (i : Nat) (lit : List Nat) : M Bool := do
  let r ← matchLit b lit i
  if r then do
    let x ← rd b (i + lit.length)
    pure (x == 0)
  else pure false

/-- `!strcmp(b+i, b+j)`: both strings live in the buffer -/
def strEqBuf (b : Buf) : Nat → Nat → Nat → M Bool
  | 0, _, _ => .error .fuel
  | fuel+1, i, j => do
    let x ← rd b i
    let y ← rd b j
    if x != y then pure false
    else if x == 0 then pure true
    else strEqBuf b fuel (i+1) (j+1)

def lit (s : String) : List Nat := s.toList.map Char.toNat

/-! ### scanner state -/

inductive TagName
  | lit (s : List Nat)   -- a string constant ("topology", "root")
  | at (i : Nat)         -- points into the buffer
  | null                 -- NULL (root state of the diff importer)
deriving Repr, DecidableEq

/-- `struct hwloc__nolibxml_import_state_data_s` + `state->parent`; `content` is a ghost flag: the
    last successful operation that moved `tagbuf` was a `get_content` that returned 1. -/
structure Frame where
  tagbuf : Nat
  attrbuf : Option Nat := none
  tagname : TagName := .null
  closed : Bool := false
  parent : Option Nat := none
  content : Bool := false
deriving Repr, DecidableEq

structure Variant where
  fixA : Bool   -- look_init: `if (!end) goto failed;` after strchr
  fixE : Bool   -- next_attr: `if (value[len+escaped] == '\0') return -1;` at the top of the loop
deriving Repr, DecidableEq

def pinned : Variant := ⟨false, false⟩
def fixed : Variant := ⟨true, true⟩

/-! ### hwloc__nolibxml_import_next_attr -/

/-- the entities tried by next_attr, in source order: (text after '&', replacement byte) -/
def entities : List (List Nat × Nat) :=
  [(lit "#10;", 10), (lit "#13;", 13), (lit "#9;", 9), (lit "quot;", 34), (lit "lt;", 60),
   (lit "gt;", 62), (lit "amp;", 38)]

/-- the `if (!strncmp(..)) else if ...` chain at position `i` (= just after the '&') -/
def matchEntity (b : Buf) (i : Nat) : List (List Nat × Nat) → M (Option (Nat × Nat))
  | [] => pure none
  | (l, ch) :: rest => do
    let r ← matchLit b l i
    if r then pure (some (l.length, ch)) else matchEntity b i rest

/-- first part of next_attr: skip spaces, the name, `="`.  `some (p, e)`: name starts at p, '=' at e. -/
def attrHeader (b : Buf) (a : Nat) : M (Option (Nat × Nat)) := do
  let p ← ignoreSpaces b a
  let e ← span isAttrChar b b.size p
  let c ← rd b e
  if c != 61 then pure none else do
    let c2 ← rd b (e+1)
    if c2 != 34 then pure none else pure (some (p, e))

/-- the unescaping loop.  `w` = &value[len] (write cursor), `r` = &value[len+escaped] (read cursor).
    Returns the buffer (the in-place copy is observable also when the C code returns -1 half-way) and
    `none` = return -1, `some (w, r)` = left the loop with b[r] = '"'. -/
def unesc (v : Variant) : Nat → Buf → Nat → Nat → M (Buf × Option (Nat × Nat))
  | 0, _, _, _ => .error .fuel
  | fuel+1, b, w, r => do
    let c ← rd b r
    if c == 34 then pure (b, some (w, r)) else
    if v.fixE && c == 0 then pure (b, none) else
    if c == 38 then do
      let m ← matchEntity b (r+1) entities
      match m with
      | none => pure (b, none)
      | some (k, ch) => do
        let b ← wr b w ch
        let c' ← rd b (r + k + 1)
        if c' == 0 then pure (b, none) else unesc v fuel b (w+1) (r + k + 1)
    else do
      let c1 ← rd b r
      let b ← wr b w c1
      let c' ← rd b (r+1)
      if c' == 0 then pure (b, none) else unesc v fuel b (w+1) (r+1)

structure AttrRes where
  ret : Int
  name : Nat := 0    -- *namep  (valid when ret = 0)
  value : Nat := 0   -- *valuep
deriving Repr, DecidableEq

def nextAttr (v : Variant) (b : Buf) (f : Frame) : M (AttrRes × Buf × Frame) :=
  match f.attrbuf with
  | none => pure (⟨-1, 0, 0⟩, b, f)
  | some a => do
    let h ← attrHeader b a
    match h with
    | none => pure (⟨-1, 0, 0⟩, b, f)
    | some (p, e) => do
      let b ← wr b e 0
      let val := e + 2
      let (b, u) ← unesc v b.size b val val
      match u with
      | none => pure (⟨-1, 0, 0⟩, b, f)
      | some (w, r) => do
        let b ← wr b w 0
        let nxt ← ignoreSpaces b (r+1)
        pure (⟨0, p, val⟩, b, { f with attrbuf := some nxt })

/-- where the attribute value would start, if next_attr gets as far as the unescape loop -/
def attrValueStart (b : Buf) (f : Frame) : Option Nat :=
  match f.attrbuf with
  | none => none
  | some a => match attrHeader b a with
    | .ok (some (_, e)) => some (e + 2)
    | _ => none

/-- F05e class: the value starts exactly at the final NUL -/
def f05e (b : Buf) (f : Frame) : Bool := attrValueStart b f == some (b.size - 1)

/-! ### find_child / close_tag / close_child / get_content / close_content -/

structure ChildRes where
  ret : Int
  tag : Nat := 0
deriving Repr, DecidableEq

/-- tail of find_child: the tag name and the start of the attributes -/
def childTail (b : Buf) (q e : Nat) (closed : Bool) (pid : Nat) : M (ChildRes × Buf × Option Frame) := do
  let m ← span isTagChar b b.size q
  let c ← rd b m
  if c == 0 then
    pure (⟨1, q⟩, b, some { tagbuf := e + 1, attrbuf := none, tagname := .at q, closed := closed, parent := some pid })
  else if c != 32 then pure (⟨-1, 0⟩, b, none)
  else do
    let b ← wr b m 0
    pure (⟨1, q⟩, b, some { tagbuf := e + 1, attrbuf := some (m + 1), tagname := .at q, closed := closed, parent := some pid })

/-- returns (ret, tag index, buffer, child frame when ret = 1).  `pid` = index of the parent frame. -/
def findChild (b : Buf) (f : Frame) (pid : Nat) : M (ChildRes × Buf × Option Frame) :=
  if f.closed then pure (⟨0, 0⟩, b, none) else do
  let p ← ignoreSpaces b f.tagbuf
  let c ← rd b p
  if c != 60 then pure (⟨-1, 0⟩, b, none) else do
  let c ← rd b (p + 1)
  if c == 47 then pure (⟨0, 0⟩, b, none) else do
  let eo ← strchr b (p + 1) 62
  match eo with
  | none => pure (⟨-1, 0⟩, b, none)
  | some e => do
    let b ← wr b e 0
    let c ← rd b (e - 1)
    if c == 47 then do
      let b ← wr b (e - 1) 0
      childTail b (p + 1) e true pid
    else childTail b (p + 1) e false pid

def strEqName (b : Buf) (i : Nat) : TagName → M Bool
  | .lit s => strEqLit b i s
  | .at j => strEqBuf b b.size i j
  | .null => .error .null

def closeTag (b : Buf) (f : Frame) : M (Int × Buf × Frame) :=
  if f.closed then pure (0, b, f) else do
  let p ← ignoreSpaces b f.tagbuf
  let c ← rd b p
  if c != 60 then pure (-1, b, f) else do
  let q := p + 1
  let eo ← strchr b q 62
  match eo with
  | none => pure (-1, b, f)
  | some e => do
    let b ← wr b e 0
    let f := { f with tagbuf := e + 1, content := false }
    let c ← rd b q
    if c != 47 then pure (-1, b, f) else do
    let eq ← strEqName b (q + 1) f.tagname
    pure (if eq then 0 else -1, b, f)

structure ContentRes where
  ret : Int
  begin : Option Nat := none   -- *beginp as an index; `none` = the constant "" (or unset)
deriving Repr, DecidableEq

def getContent (b : Buf) (f : Frame) (len : Nat) : M (ContentRes × Buf × Frame) :=
  if f.closed then pure (⟨if len != 0 then -1 else 0, none⟩, b, f) else do
  let eo ← strchr b f.tagbuf 60
  match eo with
  | none => pure (⟨-1, none⟩, b, f)
  | some e =>
    if e - f.tagbuf != len then pure (⟨-1, none⟩, b, f) else do
    let b ← wr b e 0
    pure (⟨1, some f.tagbuf⟩, b, { f with tagbuf := e, content := true })

def closeContent (b : Buf) (f : Frame) : M (Buf × Frame) :=
  if f.closed then pure (b, f) else do
  let b ← wr b f.tagbuf 60
  pure (b, { f with content := false })

/-! ### sscanf(buffer, "<topology version=\"%u.%u\">", &major, &minor) -/

def isCSpace (c : Nat) : Bool := c == 32 || (9 ≤ c && c ≤ 13)
def isDigit (c : Nat) : Bool := 48 ≤ c && c ≤ 57

def dropLit : List Nat → List Nat → Option (List Nat)
  | [], s => some s
  | _ :: _, [] => none
  | c :: cs, x :: xs => if x == c then dropLit cs xs else none

/-- `%u`: skip white space, optional sign, at least one decimal digit; value as glibc computes it
    (strtoul semantics: saturate at ULONG_MAX, negate modulo 2^64, then truncate to 32 bits) -/
def scanU (s : List Nat) : Option (Nat × List Nat) :=
  let s := s.dropWhile isCSpace
  let (neg, s) := match s with
    | 45 :: t => (true, t)
    | 43 :: t => (false, t)
    | _ => (false, s)
  let ds := s.takeWhile isDigit
  if ds.isEmpty then none else
  let d := ds.foldl (fun a c => a * 10 + (c - 48)) 0
  let ul := if d ≥ 2^64 then 2^64 - 1 else if neg then (2^64 - d) % 2^64 else d
  some (ul % 2^32, s.dropWhile isDigit)

/-- number of conversions = 2 → `some (major, minor)` -/
def sscanfVersion (s : List Nat) : Option (Nat × Nat) := do
  let s ← dropLit (lit "<topology") s
  let s := s.dropWhile isCSpace
  let s ← dropLit (lit "version=\"") s
  let (ma, s) ← scanU s
  let s ← dropLit [46] s
  let (mi, _) ← scanU s
  pure (ma, mi)

/-! ### hwloc_nolibxml_look_init -/

/-- the header-skipping loop; `none` = goto failed -/
def skipHeaders (b : Buf) : Nat → Nat → M (Option Nat)
  | 0, _ => .error .fuel
  | fuel+1, p => do
    let x ← matchLit b (lit "<?xml ") p
    let y ← if x then pure true else matchLit b (lit "<!DOCTYPE ") p
    if y then do
      let nl ← strchr b p 10
      match nl with
      | none => pure none
      | some j => skipHeaders b fuel (j + 1)
    else pure (some p)

structure InitRes where
  ret : Int
  major : Nat := 0
  minor : Nat := 0
deriving Repr, DecidableEq

def lookInit (v : Variant) (b : Buf) : M (InitRes × Option Frame) := do
  let po ← skipHeaders b b.size 0
  match po with
  | none => pure (⟨-1, 0, 0⟩, none)
  | some p => do
    let z ← span (fun x => x != 0) b b.size p          -- sscanf: strlen of its input
    match sscanfVersion ((b.extract p z).toList) with
    | some (ma, mi) => do
      let eo ← strchr b p 62
      match eo with
      | none => if v.fixA then pure (⟨-1, 0, 0⟩, none) else .error .null   -- F05a: NULL + 1
      | some e => pure (⟨0, ma, mi⟩, some { tagbuf := e + 1, tagname := .lit (lit "topology") })
    | none => do
      let t ← matchLit b (lit "<topology>") p
      if t then pure (⟨0, 1, 0⟩, some { tagbuf := p + 10, tagname := .lit (lit "topology") }) else do
      let r ← matchLit b (lit "<root>") p
      if r then pure (⟨0, 0, 9⟩, some { tagbuf := p + 6, tagname := .lit (lit "root") }) else
      pure (⟨-1, 0, 0⟩, none)

/-- F05a class, as a predicate on the buffer -/
def f05a (b : Buf) : Bool :=
  match skipHeaders b b.size 0 with
  | .ok (some p) =>
    match span (fun x => x != 0) b b.size p with
    | .ok z => (sscanfVersion ((b.extract p z).toList)).isSome &&
               (match strchr b p 62 with | .ok none => true | _ => false)
    | _ => false
  | _ => false

/-! ### hwloc_nolibxml_backend_init (buffer case) / hwloc_nolibxml_import_diff (buffer case) -/

/-- `malloc(xmlbuflen); memcpy; buffer[xmlbuflen-1] = 0`.  `src` is the caller's buffer (at least
    `len` readable bytes is the API contract).  `none` = -1 (malloc failed: negative length converted
    to a huge size_t).  `fixB` = "reject xmlbuflen ≤ 0" as suggested for F05b. -/
def backendInit (fixB : Bool) (src : Buf) (len : Int) : M (Option Buf) :=
  if len < 0 then pure none
  else if len == 0 then (if fixB then pure none else .error .under)
  else
    let n := len.toNat
    let b : Buf := (Array.range n).map (fun i => src.getD i 0)
    do let b ← wr b (n - 1) 0
       pure (some b)

/-! ### hwloc__xml_import_userdata (topology-xml.c), the part that talks to the scanner after the attributes:
    every branch of the current source calls get_content exactly once (also for length 0), gives up when it
    returns -1, and only then calls close_content and close_tag. -/
def userdataTail (b : Buf) (f : Frame) (len : Nat) : M (Int × Buf × Frame) := do
  let (r, b, f) ← getContent b f len
  if r.ret < 0 then pure (-1, b, f) else do
  let (b, f) ← closeContent b f
  closeTag b f

/-- the formerly pinned source in the `length == 0`, callback-set, not-encoded branch: no get_content -/
def userdataTailPinned0 (b : Buf) (f : Frame) : M (Int × Buf × Frame) := do
  let (b, f) ← closeContent b f
  closeTag b f

/-! ### engine: frames addressed by index, the op language of the consumer -/

inductive Op
  | attr (f : Nat)              -- next_attr(frame f)
  | child (f : Nat)             -- find_child(frame f, new frame)
  | closeTag (f : Nat)
  | closeChild (f : Nat)        -- close_child(frame f): parent.tagbuf := f.tagbuf
  | content (f : Nat) (len : Nat)
  | closeContent (f : Nat)
deriving Repr, DecidableEq

structure St where
  buf : Buf
  frames : Array Frame
deriving Repr

/-- observable result of one op -/
inductive Obs
  | attr (r : AttrRes)
  | child (r : ChildRes) (newFrame : Option Nat)
  | ret (r : Int)
  | content (r : ContentRes)
  | unit
  | badFrame
deriving Repr, DecidableEq

def step (v : Variant) (s : St) : Op → M (Obs × St)
  | .attr i => match s.frames[i]? with
    | none => pure (.badFrame, s)
    | some f => do
      let (r, b, f') ← nextAttr v s.buf f
      pure (.attr r, { buf := b, frames := s.frames.setIfInBounds i f' })
  | .child i => match s.frames[i]? with
    | none => pure (.badFrame, s)
    | some f => do
      let (r, b, c) ← findChild s.buf f i
      match c with
      | none => pure (.child r none, { s with buf := b })
      | some cf => pure (.child r (some s.frames.size), { buf := b, frames := s.frames.push cf })
  | .closeTag i => match s.frames[i]? with
    | none => pure (.badFrame, s)
    | some f => do
      let (r, b, f') ← closeTag s.buf f
      pure (.ret r, { buf := b, frames := s.frames.setIfInBounds i f' })
  | .closeChild i => match s.frames[i]? with
    | none => pure (.badFrame, s)
    | some f => match f.parent with
      | none => .error .null
      | some p => match s.frames[p]? with
        | none => pure (.badFrame, s)
        | some pf => pure (.unit, { s with frames := s.frames.setIfInBounds p { pf with tagbuf := f.tagbuf, content := false } })
  | .content i len => match s.frames[i]? with
    | none => pure (.badFrame, s)
    | some f => do
      let (r, b, f') ← getContent s.buf f len
      pure (.content r, { buf := b, frames := s.frames.setIfInBounds i f' })
  | .closeContent i => match s.frames[i]? with
    | none => pure (.badFrame, s)
    | some f => do
      let (b, f') ← closeContent s.buf f
      pure (.unit, { buf := b, frames := s.frames.setIfInBounds i f' })

/-- run a list of ops; stops at the first memory error -/
def run (v : Variant) : St → List Op → M St
  | s, [] => pure s
  | s, op :: ops => do
    let (_, s') ← step v s op
    run v s' ops

/-- what the consumer state machine of topology-xml.c may issue in state `s`:
    * `close_content(f)` only directly after a `get_content(f)` that returned 1, or on an
      auto-closed tag (F05f is the one consumer path that violates this);
    * for the pinned next_attr, not the F05e class. -/
def legal (v : Variant) (s : St) : Op → Bool
  | .closeContent i => match s.frames[i]? with
    | none => true
    | some f => f.closed || f.content
  | .attr i => match s.frames[i]? with
    | none => true
    | some f => v.fixE || !f05e s.buf f
  | .closeChild i => match s.frames[i]? with
    | none => true
    | some f => f.parent.isSome
  | .closeTag i => match s.frames[i]? with
    | none => true
    | some f => f.tagname != .null
  | _ => true

/-- a whole history is legal when every op is legal in the state it is issued in -/
def legalRun (v : Variant) : St → List Op → Bool
  | _, [] => true
  | s, op :: ops => legal v s op && (match step v s op with
    | .ok (_, s') => legalRun v s' ops
    | .error _ => true)

/-! ### hwloc__xml_import_distances: the array-filling loops (topology-xml.c) -/

/-- one `<indexes>` / `<u64values>` child as the loop sees it: the successive successful `strtoull`
    results, each with "the byte after the number is a space"; the list ends where strtoull fails
    (`next == tmp`) or the string ends. -/
abbrev Toks := List (Nat × Bool)

/-- the inner `while (1)` loop: writes `arr[nr++] = u` — returns the write indexes and the new nr -/
def fillLoop (cap : Nat) : Nat → Toks → List Nat × Nat
  | nr, [] => ([], nr)
  | nr, (_, sp) :: rest =>
    let nr' := nr + 1
    if !sp then ([nr], nr')
    else if nr' == cap then ([nr], nr')
    else let (ws, n) := fillLoop cap nr' rest; (nr :: ws, n)

/-- one child: the guard `if (nr >= cap) goto out_with_arrays;` then the loop.  `none` = error. -/
def fillChild (cap nr : Nat) (t : Toks) : Option (List Nat × Nat) :=
  if nr ≥ cap then none else some (fillLoop cap nr t)

/-- all children of one kind in document order; `none` = import aborted.  Result: every write index, final nr -/
def fillAll (cap : Nat) : Nat → List Toks → Option (List Nat × Nat)
  | nr, [] => some ([], nr)
  | nr, t :: ts => do
    let (w1, n1) ← fillChild cap nr t
    let (w2, n2) ← fillAll cap n1 ts
    pure (w1 ++ w2, n2)

/-- capacities as the C computes them: `nbobjs` is `unsigned` (strtoul truncated), the values array
    has `nbobjs*nbobjs` (32-bit wrapping product) elements -/
def idxCap (nbobjs : Nat) : Nat := nbobjs % 2^32
def valCap (nbobjs : Nat) : Nat := (idxCap nbobjs * idxCap nbobjs) % 2^32
/-- the attribute gate of the current source: `!nbobjs` → error, `nbobjs > 0xffff` → error (added for F05j) -/
def nbobjsAccepted (nbobjs : Nat) : Bool := idxCap nbobjs != 0 && idxCap nbobjs ≤ 0xffff

/-! ### hwloc__xml_import_userdata: length arithmetic -/

/-- BASE64_ENCODED_LENGTH(length) on size_t -/
def base64EncLen (length : Nat) : Nat := (4 * (((length + 2) % 2^64) / 3)) % 2^64


/-- the decoded-buffer side of the `encoded && length` path: `decoded_buffer = malloc(length+1)` and
    `hwloc_decode_from_base64(encoded, decoded_buffer, length+1)`, both on size_t -/
def udAlloc (length : Nat) : Nat := (length + 1) % 2^64

/-- write indexes of hwloc_decode_from_base64 (hwloc/base64.c) for `k` consecutive base64 symbols,
    starting in `state` with `tarindex = ti`: each write is guarded by the comparison with `targsize`
    that the C code makes; `none` = the guard failed (return -1).  Returns the writes made. -/
def decWrites (targsize : Nat) : Nat → Nat → Nat → List Nat × Bool
  | 0, _, _ => ([], true)
  | k+1, state, ti =>
    match state % 4 with
    | 0 => if ti ≥ targsize then ([], false) else
           let (w, ok) := decWrites targsize k 1 ti; (ti :: w, ok)
    | 1 => if ti + 1 ≥ targsize then ([], false) else
           let (w, ok) := decWrites targsize k 2 (ti + 1); (ti :: (ti + 1) :: w, ok)
    | 2 => if ti + 1 ≥ targsize then ([], false) else
           let (w, ok) := decWrites targsize k 3 (ti + 1); (ti :: (ti + 1) :: w, ok)
    | _ => if ti ≥ targsize then ([], false) else
           let (w, ok) := decWrites targsize k 0 (ti + 1); (ti :: w, ok)

end Hw.XmlScan
