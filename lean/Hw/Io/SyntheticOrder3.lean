/-
  Hw.Io.SyntheticOrder3 — what `orderTopo` establishes: the PU index sequence of `orderTopo rm ls pu numa` is the leaf list of
  `mkNode`, which is duplicate-free, has one entry per PU and lists the children of every object in the order of their smallest
  PU os_index.  Hence `puOK` and the normal-children half of `sibOK` (`sibNormalOK`) hold for every topology `orderTopo` returns
  (and `buildTopo` returns only such topologies), given a duplicate-free input sequence with enough entries.
-/
import Hw.Io.SyntheticOrdSlices
import Hw.Io.SyntheticWFFull
import Hw.Io.SyntheticTopo
namespace Hw.Syn
open Hw Hw.Topo

set_option linter.unusedSectionVars false
set_option linter.unusedSimpArgs false
set_option linter.unusedVariables false

/-- the two halves of `sibOK` -/
def sibNormalOK (t : Topo) : Bool :=
  (List.range (mkTab t).D).all (fun d => (List.range (nOf (mkTab t) (d + 1))).all (fun k =>
    !(decide (k % arOf (mkTab t) d + 1 < arOf (mkTab t) d)) ||
      decide (minL (cpuList t (d + 1) k) < minL (cpuList t (d + 1) (k + 1)))))

def sibMemOK (t : Topo) : Bool :=
  (List.range ((mkTab t).D + 1)).all (fun d => (List.range (nOf (mkTab t) d)).all (fun k =>
    (List.range (memLen (mkTab t) d)).all (fun s =>
      !(decide (s + 1 < memLen (mkTab t) d)) ||
        decide (nu t (postPos (mkTab t) (numaCnt (mkTab t)) d k s) < nu t (postPos (mkTab t) (numaCnt (mkTab t)) d k s + 1)))))

theorem sibOK_split (t : Topo) : sibOK t = (sibNormalOK t && sibMemOK t) := rfl

def arities (t : Topo) : List Nat := t.levels.map (·.arity)

theorem cpuList_block (t : Topo) (d k : Nat) : cpuList t d k = blockOf t.puIdx (wOf (mkTab t) d) k := rfl

theorem final_arities (ls : List NLevel) (f : Nat → List Int) :
    ((List.range ls.length).map (fun j => { (ls[j]?.getD { type := 0, arity := 0 }) with os := none, osIdx := f j })).map (·.arity) = ls.map (·.arity) := by
  apply List.ext_getElem?
  intro i
  simp only [List.getElem?_map]
  by_cases hi : i < ls.length
  · simp [List.getElem?_range hi, List.getElem?_eq_getElem hi]
  · simp [List.getElem?_range, hi]

/-- the PU sequence of `orderTopo` is the leaf list of `mkNode` over the final arities -/
theorem orderTopo_shape (rm : List MemChild) (l0 : List NLevel) (pu numa : List Nat) :
    ∃ (ls : List NLevel) (att : List Nat) (osf : List (Nat → Int)),
      (orderTopo rm l0 pu numa).puIdx = (mkNode pu (ls.map (·.arity)) att osf (0, 0)).1.leaves ∧
      arities (orderTopo rm l0 pu numa) = ls.map (·.arity) := by
  unfold arities orderTopo
  simp only []
  refine ⟨_, _, _, rfl, ?_⟩
  exact final_arities _ _

section
variable (t : Topo) (h : OK t)
include h

theorem arities_len : (arities t).length = (mkTab t).D := by unfold arities; rw [List.length_map, mkTab_D]

theorem ar_eq (d : Nat) (hd : d < (mkTab t).D) : arOf (mkTab t) d = (arities t)[d]?.getD 0 := by
  rw [mkTab_D] at hd
  rw [arOf_lt t d hd]
  unfold arities lvl
  rw [List.getElem?_map, List.getElem?_eq_getElem hd]
  rfl

theorem arities_pos : ∀ a ∈ arities t, 1 ≤ a := by
  intro a ha
  unfold arities at ha
  obtain ⟨l, hl, rfl⟩ := List.mem_map.1 ha
  obtain ⟨j, hj, rfl⟩ := List.getElem_of_mem hl
  have := h.ar j hj
  unfold lvl at this
  rw [List.getElem?_eq_getElem hj] at this
  exact this

theorem nOf_cnt : ∀ d, d ≤ (mkTab t).D → nOf (mkTab t) d = cntA (arities t) d := by
  intro d
  induction d with
  | zero => intro _; rw [nOf_zero, cntA_zero]
  | succ d ih =>
    intro hd
    have hd' : d < (mkTab t).D := hd
    rw [nOf_succ t d hd', ih (Nat.le_of_lt hd'), cntA_succ _ d (by rw [arities_len t h]; exact hd'), ar_eq t h d hd']

theorem wOf_wid : ∀ j d, d + j = (mkTab t).D → wOf (mkTab t) d = widA (arities t) d := by
  intro j
  induction j with
  | zero =>
    intro d hd
    have e : d = (mkTab t).D := by omega
    subst e
    have hp := nOf_pos t h (mkTab t).D (Nat.le_refl _)
    have : widA (arities t) (mkTab t).D = 1 := by rw [← arities_len t h]; exact widA_len _
    rw [this]
    unfold wOf
    exact Nat.div_self hp
  | succ j ih =>
    intro d hd
    have hd' : d < (mkTab t).D := by omega
    rw [w_succ t h d hd', ih (d + 1) (by omega), widA_succ _ d (by rw [arities_len t h]; exact hd'), ar_eq t h d hd']

/-- an `Ord` PU sequence gives the normal-children half of `sibOK` -/
theorem sibNormal_of_ord (ho : Ord (arities t) t.puIdx) : sibNormalOK t = true := by
  unfold sibNormalOK
  simp only [List.all_eq_true, List.mem_range, Bool.or_eq_true, Bool.not_eq_true', decide_eq_false_iff_not, decide_eq_true_eq]
  intro d hd k hk
  by_cases hn : k % arOf (mkTab t) d + 1 < arOf (mkTab t) d
  · right
    have hlen := arities_len t h
    have hw := wOf_wid t h ((mkTab t).D - (d + 1)) (d + 1) (by omega)
    rw [cpuList_block, cpuList_block, hw]
    apply ord_slices (arities t) t.puIdx (arities_pos t h) ho d (by omega) k
    · rw [← nOf_cnt t h (d + 1) hd]; exact hk
    · rw [← ar_eq t h d hd]; exact hn
  · left; exact hn

theorem nOf_D_prod : nOf (mkTab t) (mkTab t).D = prodL (arities t) := by
  rw [nOf_cnt t h _ (Nat.le_refl _), ← arities_len t h]
  unfold cntA
  rw [List.take_length]

end

/-- the facts about the leaf list of `mkNode` that the theorems below use (proved as `mkNode_spec`) -/
def LeafSpec (pu : List Nat) (as : List Nat) (l : List Nat) : Prop := l.length = prodL as ∧ l.Nodup ∧ Ord as l

/-- **what `orderTopo` establishes**, from the specification of `mkNode` -/
theorem orderTopo_sib_of_spec (rm : List MemChild) (l0 : List NLevel) (pu numa : List Nat)
    (hspec : ∀ (as : List Nat) (att : List Nat) (osf : List (Nat → Int)), (∀ a ∈ as, 1 ≤ a) → prodL as ≤ pu.length →
      LeafSpec pu as (mkNode pu as att osf (0, 0)).1.leaves)
    (hOK : topoOK (orderTopo rm l0 pu numa) = true) (hlen : prodL (arities (orderTopo rm l0 pu numa)) ≤ pu.length) :
    puOK (orderTopo rm l0 pu numa) = true ∧ sibNormalOK (orderTopo rm l0 pu numa) = true := by
  have h := topoOK_OK _ hOK
  obtain ⟨ls, att, osf, hpu, har⟩ := orderTopo_shape rm l0 pu numa
  have hpos := arities_pos _ h
  rw [har] at hpos hlen
  obtain ⟨s1, s2, s3⟩ := hspec (ls.map (·.arity)) att osf hpos hlen
  rw [← hpu, ← har] at s1 s3
  rw [← hpu] at s2
  refine ⟨?_, sibNormal_of_ord _ h s3⟩
  unfold puOK
  simp only [Bool.and_eq_true, decide_eq_true_eq, beq_iff_eq]
  exact ⟨s2, by rw [s1, nOf_D_prod _ h]⟩

end Hw.Syn
