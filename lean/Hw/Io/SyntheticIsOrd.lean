import Hw.Io.SyntheticTopo
namespace Hw.Syn
open Hw Hw.Topo

def IsOrd (o : Option Topo) : Prop := ∀ t, o = some t → ∃ rm ls pu numa, pu.Nodup ∧ t = orderTopo rm ls pu numa

theorem isOrd_none : IsOrd none := by intro t h; cases h

theorem isOrd_chain (f : List Nat) (rm : List MemChild) (ls : List NLevel) (pu numa : List Nat) (h : pu.Nodup) :
    IsOrd (buildTopo.chainOk f (orderTopo rm ls pu numa)) := by
  intro t ht
  unfold buildTopo.chainOk at ht
  simp only [] at ht
  split at ht
  · exact ⟨rm, ls, pu, numa, h, (Option.some.inj ht).symm⟩
  · cases ht

theorem isOrd_ite (c : Prop) [Decidable c] (a b : Option Topo) (ha : c → IsOrd a) (hb : ¬ c → IsOrd b) : IsOrd (if c then a else b) := by
  split
  · exact ha ‹_›
  · exact hb ‹_›

/-- every topology `buildTopo` returns is an `orderTopo` of a duplicate-free PU index sequence -/
theorem buildTopo_isOrd (f : List Nat) (p : Parsed) : IsOrd (buildTopo f p) := by
  unfold buildTopo
  extract_lets mcf hasMsc L0 L n ar ty pul puIdx grpNone ks
  refine isOrd_ite _ _ _ (fun _ => isOrd_none) (fun _ => ?_)
  refine isOrd_ite _ _ _ (fun _ => isOrd_none) (fun _ => ?_)
  refine isOrd_ite _ _ _ (fun _ => isOrd_none) (fun hc => ?_)
  have hnd : puIdx.Nodup := by simpa using hc
  clear_value ks
  rcases ks with _ | ⟨k, _ | ⟨k2, t⟩⟩
  · refine isOrd_ite _ _ _ (fun _ => isOrd_none) (fun _ => ?_)
    refine isOrd_ite _ _ _ (fun _ => isOrd_none) (fun _ => ?_)
    refine isOrd_ite _ _ _ (fun _ => isOrd_none) (fun _ => ?_)
    exact isOrd_chain f _ _ _ _ hnd
  · refine isOrd_ite _ _ _ (fun _ => isOrd_none) (fun _ => ?_)
    refine isOrd_ite _ _ _ (fun _ => isOrd_none) (fun _ => ?_)
    refine isOrd_ite _ _ _ (fun _ => isOrd_none) (fun _ => ?_)
    refine isOrd_ite _ _ _ (fun _ => ?_) (fun _ => ?_)
    · refine isOrd_ite _ _ _ (fun _ => isOrd_none) (fun _ => ?_)
      exact isOrd_chain f _ _ _ _ hnd
    refine isOrd_ite _ _ _ (fun _ => ?_) (fun _ => ?_)
    · refine isOrd_ite _ _ _ (fun _ => ?_) (fun _ => ?_)
      · exact isOrd_chain f _ _ _ _ hnd
      refine isOrd_ite _ _ _ (fun _ => isOrd_none) (fun _ => ?_)
      exact isOrd_chain f _ _ _ _ hnd
    refine isOrd_ite _ _ _ (fun _ => ?_) (fun _ => ?_)
    · exact isOrd_chain f _ _ _ _ hnd
    refine isOrd_ite _ _ _ (fun _ => ?_) (fun _ => isOrd_none)
    exact isOrd_chain f _ _ _ _ hnd
  · exact isOrd_none
