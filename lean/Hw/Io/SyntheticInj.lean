/-
  Hw.Io.SyntheticInj — injectivity of the NUMA node constructors: a NUMA object, its level position and (under `numaOK`)
  its os_index each determine (depth, object, slot).
-/
import Hw.Io.SyntheticWF12
namespace Hw.Syn
open Hw Hw.Topo
set_option linter.unusedSectionVars false
set_option linter.unusedSimpArgs false

section
variable (t : Topo) (h : OK t)
include h

/-- a NUMA node determines its (depth, object, slot) -/
theorem numaObj_inj (d k s d' k' s' : Nat) (hd : d ≤ (mkTab t).D) (hk : k < nOf (mkTab t) d) (hs : s < memLen (mkTab t) d)
    (hd' : d' ≤ (mkTab t).D) (hk' : k' < nOf (mkTab t) d') (hs' : s' < memLen (mkTab t) d')
    (he : numaObj (envOf t) d k s = numaObj (envOf t) d' k' s') : d = d' ∧ k = k' ∧ s = s' := by
  have hp : (numaObj (envOf t) d k s).parent = (numaObj (envOf t) d' k' s').parent := congrArg Obj.parent he
  have hr : (numaObj (envOf t) d k s).rank = (numaObj (envOf t) d' k' s').rank := congrArg Obj.rank he
  by_cases hm : (slotM (envOf t) d s).msc ≠ 0 <;> by_cases hm' : (slotM (envOf t) d' s').msc ≠ 0
  · -- mc / mc
    have a := numaObj_mc (envOf t) d k s hm
    have b := numaObj_mc (envOf t) d' k' s' hm'
    rw [a.2.1, b.2.1, envOf_T] at hp
    have h1 := lookup_mc t d k s hd hk hs hm
    have h2 := lookup_mc t d' k' s' hd' hk' hs' hm'
    rw [hp, h2] at h1
    have h3 : mcObj (envOf t) d' k' s' = mcObj (envOf t) d k s := Option.some.inj h1
    have e1 : (mcObj (envOf t) d' k' s').parent = (mcObj (envOf t) d k s).parent := congrArg Obj.parent h3
    have e2 : (mcObj (envOf t) d' k' s').rank = (mcObj (envOf t) d k s).rank := congrArg Obj.rank h3
    have p1 : (mcObj (envOf t) d k s).parent = (nid (mkTab t) d k : Int) := rfl
    have p2 : (mcObj (envOf t) d' k' s').parent = (nid (mkTab t) d' k' : Int) := rfl
    have r1 : (mcObj (envOf t) d k s).rank = s := rfl
    have r2 : (mcObj (envOf t) d' k' s').rank = s' := rfl
    rw [p1, p2] at e1
    rw [r1, r2] at e2
    have := nid_inj t d k d' k' hd hk hd' hk' (by omega)
    exact ⟨this.1, this.2, e2.symm⟩
  · -- mc / no mc
    have a := numaObj_mc (envOf t) d k s hm
    have b := numaObj_nomc (envOf t) d' k' s' hm'
    rw [a.2.1, b.2.1, envOf_T] at hp
    exact absurd (by omega) (memId_ne_nid t h d k s d' k' hd hk hs hm hd' hk')
  · -- no mc / mc
    have a := numaObj_nomc (envOf t) d k s hm
    have b := numaObj_mc (envOf t) d' k' s' hm'
    rw [a.2.1, b.2.1, envOf_T] at hp
    exact absurd (by omega) (memId_ne_nid t h d' k' s' d k hd' hk' hs' hm' hd hk)
  · -- no mc / no mc
    have a := numaObj_nomc (envOf t) d k s hm
    have b := numaObj_nomc (envOf t) d' k' s' hm'
    rw [a.2.1, b.2.1, envOf_T] at hp
    rw [a.2.2.1, b.2.2.1] at hr
    have := nid_inj t d k d' k' hd hk hd' hk' (by omega)
    exact ⟨this.1, this.2, hr⟩

/-- positions in the NUMA level are injective in (depth, object, slot) -/
theorem postPos_inj (d k s d' k' s' : Nat) (hd : d ≤ (mkTab t).D) (hk : k < nOf (mkTab t) d) (hs : s < memLen (mkTab t) d)
    (hd' : d' ≤ (mkTab t).D) (hk' : k' < nOf (mkTab t) d') (hs' : s' < memLen (mkTab t) d')
    (he : postPos (mkTab t) (numaCnt (mkTab t)) d k s = postPos (mkTab t) (numaCnt (mkTab t)) d' k' s') : d = d' ∧ k = k' ∧ s = s' := by
  obtain ⟨p1, _⟩ := numa_pos t h d k s hd hk hs
  obtain ⟨p2, _⟩ := numa_pos t h d' k' s' hd' hk' hs'
  rw [he, p2] at p1
  have hid : numaId (mkTab t) d' k' s' = numaId (mkTab t) d k s := by
    have := Option.some.inj p1; omega
  have h1 := lookup_numa t d k s hd hk hs
  have h2 := lookup_numa t d' k' s' hd' hk' hs'
  rw [hid, h1] at h2
  exact numaObj_inj t h d k s d' k' s' hd hk hs hd' hk' hs' (Option.some.inj h2)

/-- under numaOK the os_index determines the NUMA node -/
theorem numaIdx_inj (hn : numaOK t = true) (d k s d' k' s' : Nat) (hd : d ≤ (mkTab t).D) (hk : k < nOf (mkTab t) d) (hs : s < memLen (mkTab t) d)
    (hd' : d' ≤ (mkTab t).D) (hk' : k' < nOf (mkTab t) d') (hs' : s' < memLen (mkTab t) d')
    (he : t.numaIdx[postPos (mkTab t) (numaCnt (mkTab t)) d k s]?.getD 0 = t.numaIdx[postPos (mkTab t) (numaCnt (mkTab t)) d' k' s']?.getD 0) :
    d = d' ∧ k = k' ∧ s = s' := by
  unfold numaOK at hn
  simp only [Bool.and_eq_true, decide_eq_true_eq, beq_iff_eq] at hn
  obtain ⟨hnd, hlen⟩ := hn
  obtain ⟨_, l1⟩ := numa_pos t h d k s hd hk hs
  obtain ⟨_, l2⟩ := numa_pos t h d' k' s' hd' hk' hs'
  have hL : (envOf t).numaL.length = t.numaIdx.length := hlen.symm
  rw [hL] at l1 l2
  rw [List.getElem?_eq_getElem l1, List.getElem?_eq_getElem l2] at he
  simp only [Option.getD_some] at he
  have hpos : postPos (mkTab t) (numaCnt (mkTab t)) d k s = postPos (mkTab t) (numaCnt (mkTab t)) d' k' s' :=
    (List.getElem_inj hnd).1 he
  exact postPos_inj t h d k s d' k' s' hd hk hs hd' hk' hs' hpos

end

end Hw.Syn
