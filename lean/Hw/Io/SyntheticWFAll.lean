/-
  Hw.Io.SyntheticWFAll — the WF clauses proved for every synthetic topology, collected by clause name, and the
  reduction of `WF (toDump t)` to the clauses that are not yet proved in general.
-/
import Hw.Io.SyntheticWF
import Hw.Io.SyntheticWF2
import Hw.Io.SyntheticWF5
import Hw.Io.SyntheticWF6
import Hw.Io.SyntheticWF7
import Hw.Io.SyntheticWF8
import Hw.Io.SyntheticWF9
import Hw.Io.SyntheticWF10
import Hw.Io.SyntheticWF11
import Hw.Io.SyntheticWF12
import Hw.Io.SyntheticWF13
import Hw.Io.SyntheticWF14
namespace Hw.Syn
open Hw Hw.Topo

/-- object-level clauses of `Hw.Topo.objClauses` proved for every `t` with `topoOK t` and `puOK t` -/
def provedObjClauses : List String :=
  ["id-is-position", "type-in-range", "not-filtered-out", "root-or-parent", "parent-kind", "normal-child-slot", "children-array",
   "special-list-heads", "special-list-links", "no-children-where-forbidden", "depth-by-type", "depth-increases",
   "sets-presence", "set-in-complete", "pu-cpuset", "numa-nodeset", "memory-child-shares-cpuset", "cache-attrs", "group-depth",
   "children-counts", "cpuset-is-disjoint-union-of-children", "memcache-nodeset", "pu-allowed", "total-memory",
   "set-in-parent", "numa-allowed", "in-its-level"]

/-- topology-level clauses of `Hw.Topo.topClauses` proved for every `t` with `topoOK t`, `puOK t`, `memOK t`, `numaOK t` -/
def provedTopClauses : List String :=
  ["nobjs", "root-is-machine", "machine-only-at-root", "level0-is-root", "pu-level-deepest", "levels-listed",
   "normal-level-types", "allowed-sets", "gp-index-unique", "normal-levels-nonempty", "depth-le-objects", "pu-osindex-unique",
   "numa-exists", "type-depth-inverse", "levels-cover-objects",
   "numa-osindex-unique", "level-entries-valid", "levels-in-tree-order"]

theorem cl_id_is_position (t : Topo) (o : Obj) (ho : o ∈ (toDump t).objs) :
    (fun (d : Dump) (_ : Aux) (o : Obj) => (d.objs[o.id]?).map (·.id) == some o.id) (toDump t) (mkAux (toDump t)) o = true := by
  simp only [beq_iff_eq]
  exact toDump_id_is_position t o ho

theorem obj_clauses_proved (t : Topo) (h : OK t) (hp : puOK t = true) : ∀ c ∈ objClauses, c.1 ∈ provedObjClauses →
    ∀ o ∈ (toDump t).objs, c.2 (toDump t) (mkAux (toDump t)) o = true := by
  intro c hc hn
  unfold objClauses at hc
  simp only [List.mem_cons, List.not_mem_nil, or_false] at hc
  rcases hc with rfl | rfl | rfl | rfl | rfl | rfl | rfl | rfl | rfl | rfl | rfl | rfl | rfl | rfl | rfl | rfl | rfl | rfl | rfl | rfl |
    rfl | rfl | rfl | rfl | rfl | rfl | rfl | rfl | rfl | rfl
  all_goals first
    | exact cl_id_is_position t
    | exact cl_type_in_range t h
    | exact cl_not_filtered t h
    | exact cl_root_or_parent t h
    | exact cl_parent_kind t h
    | exact cl_normal_child_slot t h
    | exact cl_children_array t h
    | exact cl_special_list_heads t h
    | exact cl_special_list_links t h
    | exact cl_no_children_forbidden t h
    | exact cl_depth_by_type t h
    | exact cl_depth_increases t h
    | exact cl_sets_presence t h
    | exact cl_set_in_complete t h
    | exact cl_pu_cpuset t h
    | exact cl_numa_nodeset t h
    | exact cl_memory_child_cpuset t h
    | exact cl_cache_attrs t h
    | exact cl_group_depth t h
    | exact cl_children_counts t h
    | exact cl_cpuset_union t h hp
    | exact cl_memcache_nodeset t h
    | exact cl_pu_allowed t h
    | exact cl_total_memory t h
    | exact cl_set_in_parent t h
    | exact cl_numa_allowed t h
    | exact cl_in_its_level t h
    | (exfalso; simp [provedObjClauses] at hn)

theorem top_clauses_proved (t : Topo) (h : OK t) (hp : puOK t = true) (hm : memOK t = true) (hn' : numaOK t = true) : ∀ c ∈ topClauses, c.1 ∈ provedTopClauses →
    c.2 (toDump t) (mkAux (toDump t)) = true := by
  intro c hc hn
  unfold topClauses at hc
  simp only [List.mem_cons, List.not_mem_nil, or_false] at hc
  rcases hc with rfl | rfl | rfl | rfl | rfl | rfl | rfl | rfl | rfl | rfl | rfl | rfl | rfl | rfl | rfl | rfl | rfl | rfl
  all_goals first
    | exact tc_nobjs t h
    | exact tc_root_is_machine t h
    | exact tc_machine_only_at_root t h
    | exact tc_level0 t h
    | exact tc_pu_level_deepest t h
    | exact tc_levels_listed t h
    | exact tc_normal_level_types t h
    | exact tc_allowed_sets t h
    | exact tc_gp_unique t h
    | exact tc_normal_levels_nonempty t h
    | exact tc_depth_le_objects t h
    | exact tc_pu_osindex_unique t h hp
    | exact tc_numa_exists t h hm
    | exact tc_type_depth_inverse t h
    | exact tc_levels_cover t h
    | exact tc_numa_osindex_unique t h hn'
    | exact tc_level_entries_valid t h
    | exact tc_levels_in_tree_order t h
    | (exfalso; simp [provedTopClauses] at hn)

/-- the clauses that are NOT proved in general, evaluated on a dump -/
def restOK (d : Dump) : Bool :=
  (topClauses.filter (fun c => !provedTopClauses.contains c.1)).all (fun c => c.2 d (mkAux d)) &&
  (objClauses.filter (fun c => !provedObjClauses.contains c.1)).all (fun c => d.objs.all (fun o => c.2 d (mkAux d) o))

/-- `WF (toDump t)` is reduced to the unproved clauses -/
theorem wf_of_rest (t : Topo) (h : OK t) (hp : puOK t = true) (hm : memOK t = true) (hn' : numaOK t = true) (hr : restOK (toDump t) = true) : WF (toDump t) := by
  unfold restOK at hr
  simp only [Bool.and_eq_true, List.all_eq_true, List.mem_filter, Bool.not_eq_true', and_imp] at hr
  constructor
  · intro c hc
    by_cases hn : c.1 ∈ provedTopClauses
    · exact top_clauses_proved t h hp hm hn' c hc hn
    · exact hr.1 c hc (by simpa using hn)
  · intro c hc o ho
    by_cases hn : c.1 ∈ provedObjClauses
    · exact obj_clauses_proved t h hp c hc hn o ho
    · exact hr.2 c hc (by simpa using hn) o ho

/-- conversely the unproved clauses are implied by well-formedness: the reduction is an equivalence -/
theorem restOK_of_wf (d : Dump) (h : WF d) : restOK d = true := by
  unfold restOK
  simp only [Bool.and_eq_true, List.all_eq_true, List.mem_filter, and_imp]
  exact ⟨fun c hc _ => h.1 c hc, fun c hc _ o ho => h.2 c hc o ho⟩

end Hw.Syn
