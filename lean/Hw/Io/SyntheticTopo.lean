/-
  Hw.Io.SyntheticTopo — what an accepted synthetic description loads into (specification level) and the
  model of hwloc_topology_export_synthetic.

  * `buildTopo`       normal levels, memory children, index sequences, sizes for the `Regular` descriptions
  * `exportChunks`    hwloc_topology_export_synthetic as a chunk list for the cursor machine `Hw.emitAll`
-/
import Hw.Io.Synthetic
import Hw.Io.SyntheticFilter
namespace Hw.Syn
open Hw Hw.Topo

/-! ### the loaded topology (specification level) -/

/-- a memory child as seen by the export: NUMA local memory and the summed memory-side cache size -/
structure MemChild where
  mem : Nat
  msc : Nat
deriving Repr, DecidableEq

/-- one normal level below the root -/
structure NLevel where
  type : Nat
  arity : Nat                 -- objects of this level per parent object
  cdepth : Nat := 0           -- cache depth
  ctype : Int := 0            -- cache type
  size : Nat := 0             -- cache size
  memGroup : Bool := false    -- Group created by the core to hold memory children
  gsub : Nat := 0             -- Group: attr->group.subkind = (unsigned) (depth - 1)
  mem : List MemChild := []   -- memory children of every object of this level
  os : Option (List Nat) := none   -- (input of orderTopo) the level's index array, by creation number
  osIdx : List Int := []      -- os_index of the objects of this level by logical index (-1 = unknown)
  virt : Bool := false        -- (input of orderTopo) the level's type is filtered out (KEEP_NONE): its objects are not built
deriving Repr, DecidableEq

structure Topo where
  rootMem : List MemChild
  levels : List NLevel
  puIdx : List Nat            -- PU os_index by logical index
  numaIdx : List Nat          -- NUMA os_index in NUMA-level order
deriving Repr, DecidableEq

def typeOrder (t : Nat) : Nat := ([0, 4, 5, 14, 18, 12, 10, 8, 7, 6, 13, 11, 9, 1, 3, 2, 15, 16, 17, 19][t]?).getD 99

def memOf (a : Attr) : MemChild := ⟨a.mem, a.msc⟩

def nlevelOf (l : Level) (arity : Nat) : NLevel :=
  if isCacheT l.attr.type then { type := l.attr.type, arity := arity, cdepth := l.attr.depth, ctype := l.attr.ctype, size := l.attr.mem, os := l.idx.arr }
  else if l.attr.type == tGROUP then { type := l.attr.type, arity := arity, os := l.idx.arr, gsub := (l.attr.depth + u32 - 1) % u32 }
  else { type := l.attr.type, arity := arity, os := l.idx.arr }

/-- hwloc_synthetic_next_index: os_index of the object with creation number `c` of a level -/
def osOf (l : NLevel) (c : Nat) : Int :=
  match l.os with
  | some arr => (arr[c]?.getD 0 : Nat)
  | none => if isCacheT l.type || l.type == tGROUP then -1 else (c : Nat)

/-- creation order of the attached NUMA nodes: (level, slot) in the post-order of hwloc__look_synthetic -/
def attachSeq (att : List Nat) : Nat → List Nat → List (Nat × Nat)   -- att[i] = #attached at level i; arities from level i on
  | _, [] => []
  | i, a :: rest =>
    let sub := attachSeq att (i + 1) rest
    (List.replicate a sub).flatten ++ (List.range (att[i]?.getD 0)).map (fun k => (i, k))

/-- os_indexes are ascending inside every block of memory children of one object -/
def blocksAscending : List ((Nat × Nat) × Nat) → Bool
  | (p, x) :: (q, y) :: r => (if p.1 == q.1 && p.2 + 1 == q.2 then decide (x < y) else true) && blocksAscending ((q, y) :: r)
  | _ => true


def idxBound : Nat := 65536

/-- which accepted descriptions the harness loads (mirrored in harness/h_synthetic.c) -/
def loadable (p : Parsed) : Bool :=
  let n := p.levels.length
  let pus := (p.levels[n - 1]?.getD {}).width
  p.levels.all (fun l => l.attr.type != tMEMCACHE && l.attr.type != tNONE) &&
  p.levels.all (fun l => decide (l.attr.mem < 2^62) && decide (l.attr.msc < 2^62) &&
    l.attached.all (fun a => decide (a.mem < 2^62) && decide (a.msc < 2^62))) &&
  decide (pus ≤ 4096) && decide ((p.levels.map (·.width)).sum ≤ 20000) && decide (p.numaNr ≤ 4096) &&
  p.levels.all (fun l => l.arity < 65536 && (l.idx.arr.getD []).all (· < idxBound)) && (p.numaIdx.arr.getD []).all (· < idxBound) &&
  -- the total memory fits the uint64 total_memory fields
  decide (((List.range n).map (fun i =>
    let l := p.levels[i]?.getD {}
    l.width * ((l.attached.map (·.mem)).sum + (if 1 ≤ i ∧ l.attr.type = tNUMA then l.attr.mem else 0)))).sum < 2^62)

/-- a subtree of the regular tree while it is being ordered the way the core orders children (by the
lowest PU os_index of their cpusets) -/
structure Node where
  key : Nat := 0            -- lowest PU os_index below
  leaves : List Nat := []   -- PU os_indexes in final logical order
  numas : List Nat := []    -- creation numbers of the NUMA nodes below, in final NUMA-level order (post-order)
  objs : List (List Int) := []   -- os_index of the objects of every depth below (own depth first), in final order
deriving Repr

def zipAppend : List (List Int) → List (List Int) → List (List Int)
  | [], ys => ys
  | xs, [] => xs
  | x :: xs, y :: ys => (x ++ y) :: zipAppend xs ys

def mergeObjs : List (List (List Int)) → List (List Int)
  | [] => []
  | x :: xs => zipAppend x (mergeObjs xs)

def insertNode (n : Node) : List Node → List Node
  | [] => [n]
  | m :: r => if n.key < m.key then n :: m :: r else m :: insertNode n r

/-- `arities` = children per object for the chain levels from here down ([] = PU); `att` = number of memory
children per object and `osf` = os_index by creation number for the same levels; state = (next PU creation number,
next NUMA creation number) -/
def mkNode (pu : List Nat) : List Nat → List Nat → List (Nat → Int) → Nat × Nat → Node × (Nat × Nat)
  | [], att, osf, (lp, ns) =>
    let m := att.head?.getD 0
    ({ key := pu[lp]?.getD 0, leaves := [pu[lp]?.getD 0], numas := (List.range m).map (· + ns),
       objs := [[(osf.head?.getD (fun _ => 0)) lp]] }, (lp + 1, ns + m))
  | a :: rest, att, osf, st =>
    -- creation number of this object at its level: leaves created so far / leaves per object
    let c := st.1 / (a :: rest).foldl (· * ·) 1
    let (kids, st) := (List.range a).foldl (fun (acc : List Node × (Nat × Nat)) _ =>
      let (n, st') := mkNode pu rest (att.drop 1) (osf.drop 1) acc.2
      (acc.1 ++ [n], st')) ([], st)
    let sorted := kids.foldl (fun l n => insertNode n l) []
    let m := att.head?.getD 0
    ({ key := (sorted.head?.getD {}).key, leaves := (sorted.map (·.leaves)).flatten,
       numas := (sorted.map (·.numas)).flatten ++ (List.range m).map (· + st.2),
       objs := [(osf.head?.getD (fun _ => 0)) c] :: mergeObjs (sorted.map (·.objs)) }, (st.1, st.2 + m))

/-- memory children end up on the topmost object of a run of levels with identical cpusets:
(levels, memory still to be hoisted into the parent); `none` = two levels of one run carry memory -/
def hoist : List NLevel → Option (List NLevel × List MemChild)
  | [] => some ([], [])
  | l :: rest =>
    match hoist rest with
    | none => none
    | some (rest', pending) =>
      if !pending.isEmpty ∧ !l.mem.isEmpty then none
      else
        let m := l.mem ++ pending
        if l.arity = 1 ∧ !m.isEmpty then some ({ l with mem := [] } :: rest', m)
        else some ({ l with mem := m } :: rest', [])

/-- levels whose type is filtered out (KEEP_NONE) are not built: their children go to the level above.  The NUMA nodes
attached to such a level are inserted all the same, with the cpuset the object would have had; the core attaches them to
the topmost built non-PU object with that cpuset (the only child of the missing object, or the object above when the missing
object was its only child), to the root when the cpuset is the root's, and otherwise below a Group (kind MEMORY) that it
creates in place of the missing object.  `out` = built levels so far (deepest first), `mult` = missing objects per
object of the last built level; `none` = two levels with the same cpusets carry memory.
(`l.virt = false` everywhere: `devirt` only multiplies arities by 1.) -/
def devirt : List NLevel → List NLevel → List MemChild → Nat → List MemChild → Option (List NLevel × List MemChild)
  | [], out, rm, _, carry => if carry.isEmpty then some (out.reverse, rm) else none
  | l :: rest, out, rm, mult, carry =>
    -- `carry` = memory handed down by the missing level just above (this level then has one object per missing object)
    let a := l.arity * mult
    if !carry.isEmpty ∧ !l.mem.isEmpty then none else
    let m := l.mem ++ carry
    if !l.virt then devirt rest ({ l with arity := a, mem := m } :: out) rm 1 []
    else if m.isEmpty then devirt rest out rm a []
    else
      match rest.head? with
      | none => none
      | some c =>
        if c.arity = 1 ∧ (c.virt ∨ c.type ≠ tPU) then devirt rest out rm a m
        else if a = 1 then
          match out with
          | [] => if rm.isEmpty then devirt rest out m 1 [] else none
          | q :: out' => if q.mem.isEmpty then devirt rest ({ q with mem := m } :: out') rm 1 [] else none
        else devirt rest ({ type := tGROUP, arity := a, memGroup := true, mem := m } :: out) rm 1 []

/-- final PU and NUMA os_index sequences of a chain (root arity first) -/
def orderTopo (rootMem0 : List MemChild) (levels00 : List NLevel) (pu numa : List Nat) : Topo :=
  let dv := devirt levels00 [] rootMem0 1 []
  let levels0 := match dv with | some r => r.1 | none => [{ type := tGROUP, arity := 1 }]
  let rootMem := match dv with | some r => r.2 | none => []
  -- the topmost object below the root keeps the memory of its run; it also takes the root's memory children
  -- when it is the root's only child (never a PU)
  let bad : List NLevel × List MemChild := ([{ type := tGROUP, arity := 1 }], [])
  let (levels, rootMem) : List NLevel × List MemChild :=
    match levels0 with
    | [] => ([], rootMem)
    | top :: rest =>
      match hoist rest with
      | none => bad
      | some (rest', pending) =>
        if !pending.isEmpty ∧ !top.mem.isEmpty then bad
        else
          let top' := { top with mem := top.mem ++ pending }
          if !rootMem.isEmpty ∧ top.arity = 1 ∧ top.type ≠ tPU then
            (if top'.mem.isEmpty then ({ top' with mem := rootMem } :: rest', []) else bad)
          else (top' :: rest', rootMem)
  let (root, _) := mkNode pu (levels.map (·.arity)) (rootMem.length :: levels.map (·.mem.length))
    ((fun _ => 0) :: levels.map osOf) (0, 0)
  let levels := (List.range levels.length).map (fun j =>
    { (levels[j]?.getD { type := 0, arity := 0 }) with os := none, osIdx := root.objs[j + 1]?.getD [] })
  { rootMem := rootMem, levels := levels, puIdx := root.leaves, numaIdx := root.numas.map (fun i => numa[i]?.getD 0) }

/-- levels whose type is filtered out and which carry no attached NUMA node simply vanish: the level above gets their
children (`level[j-1].arity * level[j].arity`); the root and the PU level are never concerned -/
def dropPlain (f : List Nat) : List Level → List Level
  | [] => []
  | [a] => [a]
  | a :: b :: rest =>
    match dropPlain f (b :: rest) with
    | b' :: rest' =>
      if !keeps f b.attr.type ∧ b.attached = [] ∧ !rest.isEmpty then { a with arity := a.arity * b'.arity } :: rest'
      else a :: b' :: rest'
    | [] => [a]

/-- memory-side caches are not built when the MemCache type is filtered out -/
def dropMsc (L : List Level) : List Level :=
  L.map (fun l => { l with attr := { l.attr with msc := 0 }, attached := l.attached.map (fun a => { a with msc := 0 }) })

/-- the regular tree that accepted levels load into under the type filters `f` (hwloc_topology_get_type_filter values by
type); `none` outside the `Regular` class (levels that the core merges, reorders or splits: see the comment at each test) -/
def buildTopo (f : List Nat) (p : Parsed) : Option Topo :=
  let mcf := f[tMEMCACHE]?.getD 0
  let hasMsc := p.levels.any (fun l => (l.attr.type == tNUMA && l.attr.msc != 0) || l.attached.any (·.msc != 0))
  -- MemCache KEEP_STRUCTURE: not modelled
  if mcf = fKeepStructure ∧ hasMsc then none else
  let L0 := if mcf = fKeepNone then dropMsc p.levels else p.levels
  let L := dropPlain f L0
  let n := L.length
  if n < 2 then none else
  let ar (i : Nat) : Nat := (lvAt L (i)).arity
  let ty (i : Nat) : Nat := (lvAt L (i)).attr.type
  let pul := lvAt L (n - 1)
  let puIdx := pul.idx.arr.getD (List.range pul.width)
  if !puIdx.Nodup then none else
  -- without Groups the core cannot give a NUMA node a parent with its exact cpuset: only memory at the root is modelled
  let grpNone := !keeps f tGROUP
  -- NUMA level
  let ks := (List.range n).filter (fun i => i ≥ 1 && ty i == tNUMA)
  match ks with
  | [] =>
    -- attached NUMA nodes only
    let att := L.map (·.attached.length)
    if (lvAt L (n - 1)).attached ≠ [] then none                     -- attached to PUs: moved to the parent
    else if grpNone ∧ (L.drop 1).any (fun l => l.attached ≠ []) then none
    else
      let seq := attachSeq att 0 ((List.range (n - 1)).map ar ++ [0])
      let numaIdx := p.numaIdx.arr.getD (List.range seq.length)
      if numaIdx.length ≠ seq.length ∨ !numaIdx.Nodup ∨ !blocksAscending (seq.zip numaIdx) then none else
      let levels := (List.range (n - 1)).map (fun j =>
        let l : Level := lvAt L (j + 1)
        -- a level that is still here although its type is filtered out carries attached NUMA nodes: see `devirt`
        { nlevelOf l (ar j) with mem := l.attached.map memOf, virt := !keeps f l.attr.type })
      chainOk (orderTopo ((lvAt L (0)).attached.map memOf) (levels) puIdx numaIdx)
  | [k] =>
    if L.any (fun l => l.attached ≠ []) then none else
    let nl := lvAt L k
    let numaIdx := nl.idx.arr.getD (List.range nl.width)
    if !numaIdx.Nodup ∨ numaIdx.length ≠ nl.width then none else
    let m := [memOf nl.attr]
    let nn := ar (k - 1)        -- NUMA nodes per parent
    let b := ar k               -- children per NUMA node
    if grpNone ∧ ¬ (k = 1 ∧ nn = 1) then none else
    let mk (j : Nat) (arity : Nat) (mem : List MemChild) : NLevel := { nlevelOf (lvAt L j) arity with mem := mem }
    let before := ((List.range k).drop 1).map (fun j => mk j (ar (j - 1)) [])
    let after := ((List.range n).drop (k + 2)).map (fun j => mk j (ar (j - 1)) [])
    let child := k + 1
    if b = 1 ∧ ty child ≠ tPU then
      if ty child = tGROUP then none else
      chainOk (orderTopo ([]) (before ++ [mk child nn m] ++ after) puIdx numaIdx)
    else if nn = 1 ∧ b ≥ 2 then
      if k = 1 then
        chainOk (orderTopo (m) ([mk child b []] ++ after) puIdx numaIdx)
      else if ty (k - 1) = tGROUP then none
      else
        let before' := ((List.range (k - 1)).drop 1).map (fun j => mk j (ar (j - 1)) [])
        chainOk (orderTopo ([]) (before' ++ [mk (k - 1) (ar (k - 2)) m, mk child b []] ++ after) puIdx numaIdx)
    else if nn = 1 ∧ b = 1 ∧ k = 1 ∧ ty child = tPU then
      chainOk (orderTopo m ([mk child 1 []] ++ after) puIdx numaIdx)
    else if nn ≥ 2 then
      -- the core inserts a Group to hold the NUMA node
      let g : NLevel := { type := tGROUP, arity := nn, memGroup := true, mem := m }
      chainOk (orderTopo ([]) (before ++ [g, mk child b []] ++ after) puIdx numaIdx)
    else none
  | _ => none
where
  /-- levels with identical cpusets (arity 1) must already be in the core's type order and contain no
  mergeable level (a Group, or a type whose filter is KEEP_STRUCTURE) -/
  chainOk (t : Topo) : Option Topo :=
    let ls := t.levels
    let mergeable (ty : Nat) : Bool := ty == tGROUP || f[ty]?.getD 0 == fKeepStructure
    let ok := (List.range ls.length).all (fun j =>
      let c := ls[j]?.getD { type := 0, arity := 0 }
      let parentT : Option NLevel := if j = 0 then none else ls[j - 1]?
      if c.arity = 1 then
        match parentT with
        | none => !mergeable c.type && c.type != tDIE        -- single child of the root
        | some q =>
          if q.memGroup && c.type == tPU then true
          else !mergeable c.type && !mergeable q.type && c.type != tDIE && q.type != tDIE &&
               decide (typeOrder q.type < typeOrder c.type)
      else true)
    if ok then some t else none

/-- number of NUMA nodes of an abstract topology: memory children per object times objects per level -/
def numaCountFrom (n : Nat) : List NLevel → Nat
  | [] => 0
  | l :: rest => n * l.arity * l.mem.length + numaCountFrom (n * l.arity) rest

def numaCount (t : Topo) : Nat := t.rootMem.length + numaCountFrom 1 t.levels

/-! ### hwloc_topology_export_synthetic -/

def flagNoExt : Nat := 1
def flagNoAttrs : Nat := 2
def flagV1 : Nat := 4
def flagIgnoreMem : Nat := 8
def hasFlag (flags f : Nat) : Bool := flags &&& f != 0

def typeString (t : Nat) : String :=
  (["Machine", "Package", "Die", "Core", "PU", "L1Cache", "L2Cache", "L3Cache", "L4Cache", "L5Cache",
    "L1iCache", "L2iCache", "L3iCache", "Group", "NUMANode", "MemCache", "Bridge", "PCIDev", "OSDev", "Misc"][t]?).getD "Unknown"

def cacheLetter (ct : Int) : String := if ct = 1 then "d" else if ct = 2 then "i" else if ct = 0 then "" else "unknown"

/-- index-loop recognition of hwloc__export_synthetic_indexes -/
def findLoops (xs : List Nat) (total : Nat) : Nat → Nat → List ILoop → Option (List ILoop)
  | 0, _, _ => none
  | fuel + 1, step, loops =>
    if step = total then some loops
    else if total % step ≠ 0 then none
    else
      match ((List.range total).drop 1).find? (fun i => xs[i]?.getD 0 == step) with
      | none => none
      | some i =>
        let rec jloop : Nat → Nat → Nat
          | 0, j => j
          | f + 1, j => if j < total / i ∧ xs[i * j]?.getD 0 = step * j then jloop f (j + 1) else j
        let j := jloop total 2
        findLoops xs total fuel (step * j) (loops ++ [⟨i, j⟩])

def indexChunks (xs : List Nat) : List Bytes :=
  let total := xs.length
  let all : List Bytes := (List.range total).map (fun i =>
    decDigits (xs[i]?.getD 0) ++ str (if i + 1 < total then "," else ")"))
  if xs.head?.getD 0 ≠ 0 then all else
  match findLoops xs total (total + 1) 1 [] with
  | none => all
  | some loops =>
    let okAll := (List.range total).all (fun i =>
      (loops.foldl (fun (p : Nat × Nat) l => ((p.1 + ((i / l.step) % l.nb) * p.2) % u32, (p.2 * l.nb) % u32)) (0, 1)).1 == xs[i]?.getD 0)
    if !okAll then all else
    (List.range loops.length).map (fun j =>
      let l := loops[j]?.getD ⟨0, 0⟩
      decDigits l.step ++ str "*" ++ decDigits l.nb ++ str (if j + 1 = loops.length then ")" else ":"))

def needIndexes (xs : List Nat) : Bool := (List.range xs.length).any (fun i => xs[i]?.getD 0 != i)

/-- chunks of hwloc__export_synthetic_obj_attr for a cache / NUMA node / PU -/
def attrChunks (flags : Nat) (cacheSize : Nat) (numa : Option MemChild) (idx : Option (List Nat)) : List Bytes :=
  let cs : Bytes := if cacheSize ≠ 0 then str "(size=" ++ decDigits cacheSize else []
  let pre1 := if cs.isEmpty then "(" else " "
  let ms : Bytes := match numa with
    | some m => if m.mem ≠ 0 then str pre1 ++ str "memory=" ++ decDigits m.mem else []
    | none => []
  let pre2 := if ms.isEmpty then pre1 else " "
  let mc : Bytes := match numa with
    | some m => if !hasFlag flags flagV1 ∧ m.msc ≠ 0 then str pre2 ++ str "memorysidecachesize=" ++ decDigits m.msc else []
    | none => []
  let pre3 := if mc.isEmpty then pre2 else " "
  let need := match idx with
    | some xs => needIndexes xs
    | none => false
  if cs.isEmpty ∧ ms.isEmpty ∧ mc.isEmpty ∧ !need then []
  else
    [cs ++ ms ++ mc ++ (if need then [] else str ")")] ++
    (if need then [str pre3 ++ str "indexes="] ++ indexChunks (idx.getD []) else [])

def objName (flags : Nat) (type cdepth : Nat) (ctype : Int) : String :=
  if isCacheT type && hasFlag flags flagNoExt then "Cache"
  else if type == tPACKAGE && (hasFlag flags flagNoExt || hasFlag flags flagV1) then "Socket"
  else if type == tDIE && (hasFlag flags flagNoExt || hasFlag flags flagV1) then "Group"
  else if type == tGROUP || hasFlag flags flagNoExt then typeString type
  else if isCacheT type then "L" ++ toString cdepth ++ cacheLetter ctype ++ "Cache"
  else typeString type

/-- hwloc__export_synthetic_obj -/
def objChunks (flags : Nat) (type cdepth : Nat) (ctype : Int) (arity : Option Nat) (cacheSize : Nat)
    (numa : Option MemChild) (idx : Option (List Nat)) : List Bytes :=
  let ar : Bytes := match arity with
    | some a => str ":" ++ decDigits a
    | none => []
  [str (objName flags type cdepth ctype) ++ ar] ++
  (if hasFlag flags flagNoAttrs then [] else attrChunks flags (if isCacheT type then cacheSize else 0) numa idx)

/-- hwloc__export_synthetic_memory_children: chunks and success; `first` = this object carries the NUMA
node of logical index 0 (the only one that prints `indexes=`) -/
def memChunks (flags : Nat) (mem : List MemChild) (needprefix : Bool) (numaIdx : List Nat) (first : Bool) : List Bytes × Bool :=
  match mem with
  | [] => ([], true)
  | m0 :: _ =>
    if hasFlag flags flagV1 then
      if mem.length > 1 then ([], false)
      else ((if needprefix then [str " "] else []) ++
            objChunks flags tNUMA 0 0 (some 1) 0 (some m0) (if first then some numaIdx else none), true)
    else
      ((List.range mem.length).map (fun i =>
        let m := mem[i]?.getD m0
        (if needprefix || i > 0 then [str " "] else []) ++ [str "["] ++
        objChunks flags tNUMA 0 0 none 0 (some m) (if first && i == 0 then some numaIdx else none) ++ [str "]"]) |>.flatten, true)

structure ExportRes where
  chunks : List Bytes
  ok : Bool               -- false: return -1 / EINVAL (after having emitted `chunks`)
deriving Repr

def exportChunks (t : Topo) (flags : Nat) : ExportRes :=
  if flags ≥ 16 then ⟨[], false⟩ else
  -- v1: all NUMA nodes must hang from one depth
  let memLevels := (if t.rootMem.isEmpty then 0 else 1) + (t.levels.filter (fun l => !l.mem.isEmpty)).length
  if hasFlag flags flagV1 ∧ memLevels > 1 then ⟨[], false⟩ else
  -- the NUMA node of logical index 0 hangs from the deepest level that has memory children
  let deepest : Option Nat := ((List.range t.levels.length).filter (fun j => !(t.levels[j]?.getD { type := 0, arity := 0 }).mem.isEmpty)).getLast?
  let igm := hasFlag flags flagIgnoreMem
  let (c0, ok0) := if igm then ([], true) else memChunks flags t.rootMem false t.numaIdx deepest.isNone
  if !ok0 then ⟨c0, false⟩ else
  let rec go : List NLevel → Nat → Bool → List Bytes → ExportRes
    | [], _, _, acc => ⟨acc, true⟩
    | l :: rest, j, needprefix, acc =>
      let acc := acc ++ (if needprefix then [str " "] else []) ++
        objChunks flags l.type l.cdepth l.ctype (some l.arity) l.size none (if l.type == tPU then some t.puIdx else none)
      let (mc, ok) := if igm then ([], true) else memChunks flags l.mem true t.numaIdx (deepest == some j)
      if !ok then ⟨acc ++ mc, false⟩ else go rest (j + 1) true (acc ++ mc)
  go t.levels 0 (!c0.isEmpty) c0

end Hw.Syn
