/-
  Hw.Io.SyntheticDump — the complete observable topology (`Hw.Topo.Dump`, the format of harness/dump.h) that a
  `Regular` synthetic description loads into, computed from the abstract `Topo` of Hw.Io.SyntheticTopo:
  DFS numbering, parent/sibling/cousin links, levels, cpusets/nodesets, memory totals, attributes, type depths.
  Compared field by field with the public-API dump of the real topology and checked by the WF oracle on every case.
-/
import Hw.Io.SyntheticTopo
import Hw.Topo.WF
namespace Hw.Syn
open Hw Hw.Topo

def lget {α : Type} [Inhabited α] (l : List α) (i : Nat) : α := l[i]?.getD default
def orBits (l : List Nat) : Nat := l.foldl (fun s i => s ||| (1 <<< i)) 0

/-- per-depth tables (depth 0 = root, depth D = PU) -/
structure DTab where
  D : Nat
  ar : List Nat                   -- children per object
  n : List Nat                    -- objects per depth
  mem : List (List MemChild)      -- memory children of each object
  sz : List Nat                   -- objects in the subtree of one object (memory objects included)
  types : List Nat

def msz (m : MemChild) : Nat := if m.msc ≠ 0 then 2 else 1

def mkTab (t : Topo) : DTab :=
  let D := t.levels.length
  let ar := t.levels.map (·.arity) ++ [0]
  let n := (List.range D).foldl (fun (acc : List Nat) d => acc ++ [(acc.getLast?.getD 1) * (ar[d]?.getD 0)]) [1]
  let mem := t.rootMem :: t.levels.map (·.mem)
  let sz := (List.range (D + 1)).foldr (fun d (acc : List Nat) =>
    (1 + (ar[d]?.getD 0) * (acc.head?.getD 0) + ((mem[d]?.getD []).map msz).sum) :: acc) []
  { D := D, ar := ar, n := n, mem := mem, sz := sz, types := tMACHINE :: t.levels.map (·.type) }

/-- DFS id of the normal object (d, k) -/
def nid (T : DTab) : Nat → Nat → Nat
  | 0, _ => 0
  | d + 1, k =>
    let a := T.ar[d]?.getD 1
    nid T d (k / a) + 1 + (k % a) * (T.sz[d + 1]?.getD 0)

/-- id of the first object of memory child `s` of (d, k) -/
def memId (T : DTab) (d k s : Nat) : Nat :=
  nid T d k + 1 + (T.ar[d]?.getD 0) * (T.sz[d + 1]?.getD 0) + (((T.mem[d]?.getD []).take s).map msz).sum

def numaId (T : DTab) (d k s : Nat) : Nat :=
  memId T d k s + (if ((T.mem[d]?.getD [])[s]?.getD ⟨0, 0⟩).msc ≠ 0 then 1 else 0)

/-- position in a special level (post-order: children, then own) of slot `s` of (d, k), counting `cnt e` objects
per normal object of depth e -/
def postPos (T : DTab) (cnt : Nat → Nat) (d k s : Nat) : Nat :=
  let nd := T.n[d]?.getD 1
  ((List.range (T.D + 1)).map (fun e =>
    let ne := T.n[e]?.getD 1
    if e > d then (k + 1) * (ne / nd) * cnt e
    else if e = d then k * cnt e
    else (k / (nd / ne)) * cnt e)).sum + s

def numaCnt (T : DTab) (e : Nat) : Nat := (T.mem[e]?.getD []).length
def mcCnt (T : DTab) (e : Nat) : Nat := ((T.mem[e]?.getD []).filter (fun m => m.msc != 0)).length
/-- rank of slot `s` among the memory children of its object that have a memory-side cache -/
def mcSlot (T : DTab) (d s : Nat) : Nat := (((T.mem[d]?.getD []).take s).filter (fun m => m.msc != 0)).length

/-- ids of the objects of a special level, in level order -/
def specialIds (T : DTab) (numa : Bool) : Nat → Nat → Nat → List Int
  | 0, d, k => own d k
  | f + 1, d, k =>
    (if d < T.D then (List.range (T.ar[d]?.getD 0)).flatMap (fun r => specialIds T numa f (d + 1) (k * (T.ar[d]?.getD 0) + r)) else []) ++ own d k
where
  own (d k : Nat) : List Int :=
    (List.range (T.mem[d]?.getD []).length).filterMap (fun s =>
      let m := (T.mem[d]?.getD [])[s]?.getD ⟨0, 0⟩
      if numa then some (numaId T d k s : Int) else if m.msc ≠ 0 then some (memId T d k s : Int) else none)

def neighbour (l : List Int) (i : Nat) (next : Bool) : Int :=
  if next then l[i + 1]?.getD (-1) else if i = 0 then -1 else l[i - 1]?.getD (-1)

structure DEnv where
  t : Topo
  T : DTab
  numaL : List Int
  mcL : List Int
  groupNo : List Nat     -- per depth: number of Group levels above

/-- os_indexes of the NUMA nodes at or below (d, k) and inherited from its ancestors -/
def numaPositions (E : DEnv) (d k : Nat) : List Nat :=
  let T := E.T
  let nd := T.n[d]?.getD 1
  (List.range (T.D + 1)).flatMap (fun e =>
    let ne := T.n[e]?.getD 1
    let ks := if e > d then (List.range (ne / nd)).map (· + k * (ne / nd)) else if e = d then [k] else [k / (nd / ne)]
    ks.flatMap (fun k' => (List.range (numaCnt T e)).map (fun s => postPos T (numaCnt T) e k' s)))

def memBelow (E : DEnv) (d k : Nat) : Nat :=
  let T := E.T
  let nd := T.n[d]?.getD 1
  ((List.range (T.D + 1)).map (fun e =>
    if e ≥ d then ((T.n[e]?.getD 1) / nd) * ((T.mem[e]?.getD []).map (·.mem)).sum else 0)).sum

def cpusetOf (E : DEnv) (d k : Nat) : Nat :=
  let w := (E.T.n[E.T.D]?.getD 1) / (E.T.n[d]?.getD 1)
  orBits ((List.range w).map (fun j => E.t.puIdx[k * w + j]?.getD 0))

def nodesetOf (E : DEnv) (d k : Nat) : Nat := orBits ((numaPositions E d k).map (fun p => E.t.numaIdx[p]?.getD 0))

def blankObj : Obj :=
  { id := 0, type := 0, depth := 0, lidx := 0, osidx := 0, gp := 0, parent := -1, rank := 0, arity := 0, marity := 0,
    ioarity := 0, miscarity := 0, nextSib := -1, prevSib := -1, nextCousin := -1, prevCousin := -1, firstChild := -1,
    lastChild := -1, memFirst := -1, ioFirst := -1, miscFirst := -1, symm := 0, cpuset := none, ccpuset := none,
    nodeset := none, cnodeset := none, totalMem := 0, attrs := [0, 0, 0, 0, 0, 0], children := [], subtype := none,
    name := none, infos := [] }

def normalObj (E : DEnv) (d k : Nat) : Obj :=
  let T := E.T
  let a := T.ar[d]?.getD 0
  let pa := if d = 0 then 1 else T.ar[d - 1]?.getD 1
  let nd := T.n[d]?.getD 1
  let lv : NLevel := if d = 0 then { type := tMACHINE, arity := 1 } else E.t.levels[d - 1]?.getD { type := 0, arity := 0 }
  let m := (T.mem[d]?.getD []).length
  let cs := cpusetOf E d k
  let ns := nodesetOf E d k
  let id := nid T d k
  { blankObj with
    id := id, type := lv.type, depth := d, lidx := k,
    osidx := if d = 0 then 0 else lv.osIdx[k]?.getD 0, gp := id,
    parent := if d = 0 then -1 else (nid T (d - 1) (k / pa) : Int), rank := if d = 0 then 0 else k % pa,
    arity := a, marity := m,
    nextSib := if d ≠ 0 ∧ k % pa + 1 < pa then (nid T d (k + 1) : Int) else -1,
    prevSib := if d ≠ 0 ∧ k % pa > 0 then (nid T d (k - 1) : Int) else -1,
    nextCousin := if k + 1 < nd then (nid T d (k + 1) : Int) else -1,
    prevCousin := if k > 0 then (nid T d (k - 1) : Int) else -1,
    firstChild := if a > 0 then (nid T (d + 1) (k * a) : Int) else -1,
    lastChild := if a > 0 then (nid T (d + 1) (k * a + a - 1) : Int) else -1,
    memFirst := if m > 0 then (memId T d k 0 : Int) else -1,
    symm := 1, cpuset := some cs, ccpuset := some cs, nodeset := some ns, cnodeset := some ns,
    totalMem := memBelow E d k,
    attrs := if isCacheT lv.type then [(lv.size : Int), (lv.cdepth : Int), 64, 0, lv.ctype, 0]
             else if lv.type = tGROUP then [((E.groupNo[d]?.getD 0 : Nat) : Int), (if lv.memGroup then 1001 else 10), (if lv.memGroup then 0 else (lv.gsub : Int)), 0, 0, 0]
             else [0, 0, 0, 0, 0, 0],
    children := (List.range a).map (fun r => (nid T (d + 1) (k * a + r) : Int)) }

/-- memory child `s` of (d, k): an optional MemCache followed by the NUMA node -/
def memSlot (E : DEnv) (d k s : Nat) : List Obj :=
  let T := E.T
  let ms := T.mem[d]?.getD []
  let cs := cpusetOf E d k
  let m := ms[s]?.getD ⟨0, 0⟩
  let pos := postPos T (numaCnt T) d k s
  let os := E.t.numaIdx[pos]?.getD 0
  let ns := 1 <<< os
  let mid := memId T d k s
  let nidd := numaId T d k s
  let hasmc := m.msc ≠ 0
  let sibNext : Int := if s + 1 < ms.length then (memId T d k (s + 1) : Int) else -1
  let sibPrev : Int := if s > 0 then (memId T d k (s - 1) : Int) else -1
  let numa : Obj := { blankObj with
    id := nidd, type := tNUMA, depth := -3, lidx := pos, osidx := os, gp := nidd,
    parent := if hasmc then (mid : Int) else (nid T d k : Int), rank := if hasmc then 0 else s,
    nextSib := if hasmc then -1 else sibNext, prevSib := if hasmc then -1 else sibPrev,
    nextCousin := neighbour E.numaL pos true, prevCousin := neighbour E.numaL pos false,
    cpuset := some cs, ccpuset := some cs, nodeset := some ns, cnodeset := some ns, totalMem := m.mem,
    attrs := [(m.mem : Int), 1, 0, 0, 0, 0] }
  if hasmc then
    let mpos := postPos T (mcCnt T) d k (mcSlot T d s)
    let mc : Obj := { blankObj with
      id := mid, type := tMEMCACHE, depth := -8, lidx := mpos, osidx := -1, gp := mid,
      parent := (nid T d k : Int), rank := s, marity := 1, nextSib := sibNext, prevSib := sibPrev,
      nextCousin := neighbour E.mcL mpos true, prevCousin := neighbour E.mcL mpos false,
      memFirst := (nidd : Int),
      cpuset := some cs, ccpuset := some cs, nodeset := some ns, cnodeset := some ns, totalMem := m.mem,
      attrs := [(m.msc : Int), 1, 64, 0, 0, 0] }
    [mc, numa]
  else [numa]

/-- the memory objects hanging from (d, k) -/
def memObjs (E : DEnv) (d k : Nat) : List Obj :=
  (List.range (E.T.mem[d]?.getD []).length).flatMap (memSlot E d k)

/-- objects of the subtree of (d, k) in the DFS order of harness/dump.h: the object, its normal children, its memory children -/
def genObjs (E : DEnv) : Nat → Nat → Nat → List Obj
  | 0, d, k => normalObj E d k :: memObjs E d k
  | f + 1, d, k =>
    normalObj E d k ::
      ((if d < E.T.D then (List.range (E.T.ar[d]?.getD 0)).flatMap (fun r => genObjs E f (d + 1) (k * (E.T.ar[d]?.getD 0) + r)) else [])
        ++ memObjs E d k)

def defaultFilters : List Nat := [0, 0, 0, 0, 0, 0, 0, 0, 0, 0, 0, 0, 0, 2, 0, 0, 1, 1, 1, 1]

/-- the complete dump of the topology a Regular description loads into (I-cache and MemCache filters KEEP_ALL) -/
def toDump (t : Topo) : Dump :=
  let T := mkTab t
  let numaL := specialIds T true (T.D + 1) 0 0
  let mcL := specialIds T false (T.D + 1) 0 0
  let groupNo := (List.range (T.D + 1)).map (fun d => ((T.types.take d).filter (· == tGROUP)).length)
  let E : DEnv := { t := t, T := T, numaL := numaL, mcL := mcL, groupNo := groupNo }
  let objs := genObjs E (T.D + 1) 0 0
  let root := normalObj E 0 0
  let levels : List Topo.Level :=
    (List.range (T.D + 1)).map (fun d => ⟨(d : Int), ((T.types[d]?.getD 0 : Nat) : Int), (List.range (T.n[d]?.getD 0)).map (fun k => (nid T d k : Int))⟩) ++
    [⟨-3, 14, numaL⟩, ⟨-4, 16, []⟩, ⟨-5, 17, []⟩, ⟨-6, 18, []⟩, ⟨-7, 19, []⟩, ⟨-8, 15, mcL⟩]
  let typeDepths : List Int := (List.range tMAX).map (fun ty =>
    match specialDepth ty with
    | some sd => sd
    | none =>
      match (List.range (T.D + 1)).filter (fun d => T.types[d]?.getD 99 == ty) with
      | [] => -1
      | [d] => (d : Int)
      | _ => -2)
  { flags := 0, depth := T.D + 1, root := 0, nobjs := objs.length, allowedCpuset := root.cpuset, allowedNodeset := root.nodeset,
    filters := defaultFilters, objs := objs, levels := levels, typeDepths := typeDepths }

/-- the first field in which two objects differ (ignoring gp_index, infos, name, subtype) -/
def objDiff (a b : Obj) : Option String :=
  if a.id ≠ b.id then some "id" else if a.type ≠ b.type then some "type" else if a.depth ≠ b.depth then some "depth"
  else if a.lidx ≠ b.lidx then some "lidx" else if a.osidx ≠ b.osidx then some "osidx" else if a.parent ≠ b.parent then some "parent"
  else if a.rank ≠ b.rank then some "rank" else if a.arity ≠ b.arity then some "arity" else if a.marity ≠ b.marity then some "marity"
  else if a.ioarity ≠ b.ioarity ∨ a.miscarity ≠ b.miscarity then some "ioarity"
  else if a.nextSib ≠ b.nextSib ∨ a.prevSib ≠ b.prevSib then some "sibling"
  else if a.nextCousin ≠ b.nextCousin ∨ a.prevCousin ≠ b.prevCousin then some "cousin"
  else if a.firstChild ≠ b.firstChild ∨ a.lastChild ≠ b.lastChild then some "child"
  else if a.memFirst ≠ b.memFirst ∨ a.ioFirst ≠ b.ioFirst ∨ a.miscFirst ≠ b.miscFirst then some "memfirst"
  else if a.symm ≠ b.symm then some "symm"
  else if a.cpuset ≠ b.cpuset ∨ a.ccpuset ≠ b.ccpuset then some "cpuset"
  else if a.nodeset ≠ b.nodeset ∨ a.cnodeset ≠ b.cnodeset then some "nodeset"
  else if a.totalMem ≠ b.totalMem then some "totalmem" else if a.attrs ≠ b.attrs then some "attrs"
  else if a.children ≠ b.children then some "children" else none

/-- the first difference between the model's dump and an observed one -/
def dumpDiff (m c : Dump) : Option String :=
  if m.depth ≠ c.depth then some "depth" else if m.nobjs ≠ c.nobjs then some "nobjs"
  else if m.flags ≠ c.flags ∨ m.root ≠ c.root then some "flags"
  else if m.allowedCpuset ≠ c.allowedCpuset ∨ m.allowedNodeset ≠ c.allowedNodeset then some "allowed"
  else if m.filters ≠ c.filters then some "filters"
  else if m.objs.length ≠ c.objs.length then some "objs.length"
  else
    match (List.range m.objs.length).findSome? (fun i =>
      match m.objs[i]?, c.objs[i]? with
      | some a, some b => (objDiff a b).map (fun f => f ++ "@" ++ toString i)
      | _, _ => some ("missing@" ++ toString i)) with
    | some d => some d
    | none => if m.levels ≠ c.levels then some "levels" else if m.typeDepths ≠ c.typeDepths then some "typedepths" else none

end Hw.Syn
