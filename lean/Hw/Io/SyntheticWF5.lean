/-
  Hw.Io.SyntheticWF5 — `cpuset-is-disjoint-union-of-children` for `toDump t`: the cpuset of every normal non-PU object is the
  OR of its children's cpusets, which are pairwise disjoint — for every `t` with `topoOK t` whose PU index sequence has one
  distinct entry per PU (`puOK`).
-/
import Hw.Io.SyntheticWF4
import Hw.Io.SyntheticBits
namespace Hw.Syn
open Hw Hw.Topo

set_option linter.unusedSectionVars false
set_option linter.unusedSimpArgs false

/-- PUs below one object of depth `d` -/
def wOf (T : DTab) (d : Nat) : Nat := nOf T T.D / nOf T d

/-- the second side condition: one distinct os_index per PU -/
def puOK (t : Topo) : Bool := decide t.puIdx.Nodup && t.puIdx.length == nOf (mkTab t) (mkTab t).D

def pu (t : Topo) (i : Nat) : Nat := t.puIdx[i]?.getD 0

theorem cpusetOf_eq (t : Topo) (d k : Nat) :
    cpusetOf (envOf t) d k = orBits ((List.range (wOf (mkTab t) d)).map (fun j => pu t (k * wOf (mkTab t) d + j))) := rfl

section
variable (t : Topo) (h : OK t)
include h

theorem w_spec : ∀ j d, d + j = (mkTab t).D →
    nOf (mkTab t) (mkTab t).D = nOf (mkTab t) d * wOf (mkTab t) d ∧
    (1 ≤ j → wOf (mkTab t) d = arOf (mkTab t) d * wOf (mkTab t) (d + 1)) := by
  intro j
  induction j with
  | zero =>
    intro d hd
    have : d = (mkTab t).D := by omega
    subst this
    have hp := nOf_pos t h (mkTab t).D (Nat.le_refl _)
    refine ⟨?_, fun h0 => by omega⟩
    unfold wOf; rw [Nat.div_self hp, Nat.mul_one]
  | succ j ih =>
    intro d hd
    have hd' : d < (mkTab t).D := by omega
    obtain ⟨h1, _⟩ := ih (d + 1) (by omega)
    have hp := nOf_pos t h d (Nat.le_of_lt hd')
    have hs := nOf_succ t d hd'
    have e : nOf (mkTab t) (mkTab t).D = nOf (mkTab t) d * (arOf (mkTab t) d * wOf (mkTab t) (d + 1)) := by
      rw [h1, hs, Nat.mul_assoc]
    have hw : wOf (mkTab t) d = arOf (mkTab t) d * wOf (mkTab t) (d + 1) := by
      show nOf (mkTab t) (mkTab t).D / nOf (mkTab t) d = _
      rw [e, Nat.mul_div_cancel_left _ hp]
    exact ⟨by rw [hw]; exact e, fun _ => hw⟩

theorem w_succ (d : Nat) (hd : d < (mkTab t).D) : wOf (mkTab t) d = arOf (mkTab t) d * wOf (mkTab t) (d + 1) :=
  (w_spec t h ((mkTab t).D - d) d (by omega)).2 (by omega)

theorem w_total (d : Nat) (hd : d ≤ (mkTab t).D) : nOf (mkTab t) (mkTab t).D = nOf (mkTab t) d * wOf (mkTab t) d :=
  (w_spec t h ((mkTab t).D - d) d (by omega)).1

/-- bit `b` is in the cpuset of (d, k) iff it is the os_index of one of the PUs `k*w .. k*w + w-1` -/
theorem testBit_cpusetOf (d k b : Nat) :
    (cpusetOf (envOf t) d k).testBit b = true ↔ ∃ j, j < wOf (mkTab t) d ∧ pu t (k * wOf (mkTab t) d + j) = b := by
  rw [cpusetOf_eq, testBit_orBits]
  simp only [List.contains_eq_mem, List.mem_map, List.mem_range, decide_eq_true_eq]

theorem block_index (d k r j : Nat) (hd : d < (mkTab t).D) :
    (k * arOf (mkTab t) d + r) * wOf (mkTab t) (d + 1) + j = k * wOf (mkTab t) d + (r * wOf (mkTab t) (d + 1) + j) := by
  rw [w_succ t h d hd, Nat.add_mul, Nat.mul_assoc, Nat.add_assoc]

/-- **union**: the cpuset of (d, k) has exactly the bits of its children's cpusets -/
theorem cpuset_union (d k b : Nat) (hd : d < (mkTab t).D) :
    (cpusetOf (envOf t) d k).testBit b = true ↔
      ∃ r, r < arOf (mkTab t) d ∧ (cpusetOf (envOf t) (d + 1) (k * arOf (mkTab t) d + r)).testBit b = true := by
  rw [testBit_cpusetOf t h]
  constructor
  · intro ⟨j, hj, hb⟩
    rw [w_succ t h d hd] at hj
    have hw : 0 < wOf (mkTab t) (d + 1) := by
      rcases Nat.eq_zero_or_pos (wOf (mkTab t) (d + 1)) with h0 | h0
      · rw [h0] at hj; simp at hj
      · exact h0
    refine ⟨j / wOf (mkTab t) (d + 1), ?_, ?_⟩
    · rw [Nat.div_lt_iff_lt_mul hw]; exact hj
    · rw [testBit_cpusetOf t h]
      refine ⟨j % wOf (mkTab t) (d + 1), Nat.mod_lt _ hw, ?_⟩
      rw [block_index t h d k _ _ hd, Nat.mul_comm (j / _), Nat.div_add_mod]; exact hb
  · intro ⟨r, hr, hb⟩
    rw [testBit_cpusetOf t h] at hb
    obtain ⟨j, hj, hb⟩ := hb
    refine ⟨r * wOf (mkTab t) (d + 1) + j, ?_, ?_⟩
    · rw [w_succ t h d hd]
      have := Nat.mul_le_mul_right (wOf (mkTab t) (d + 1)) (Nat.succ_le_of_lt hr)
      rw [Nat.succ_mul] at this
      omega
    · rw [← block_index t h d k r j hd]; exact hb

theorem pu_inj (hp : puOK t = true) (i j : Nat) (hi : i < nOf (mkTab t) (mkTab t).D) (hj : j < nOf (mkTab t) (mkTab t).D)
    (he : pu t i = pu t j) : i = j := by
  unfold puOK at hp
  simp only [Bool.and_eq_true, decide_eq_true_eq, beq_iff_eq] at hp
  obtain ⟨hnd, hlen⟩ := hp
  unfold pu at he
  rw [← hlen] at hi hj
  rw [List.getElem?_eq_getElem hi, List.getElem?_eq_getElem hj] at he
  simp only [Option.getD_some] at he
  exact (List.getElem_inj hnd).1 he

/-- **disjoint**: two different objects of one depth have disjoint cpusets -/
theorem cpuset_disjoint (hp : puOK t = true) (d k k' : Nat) (hd : d ≤ (mkTab t).D) (hk : k < nOf (mkTab t) d)
    (hk' : k' < nOf (mkTab t) d) (hne : k < k') : disjoint (cpusetOf (envOf t) d k) (cpusetOf (envOf t) d k') = true := by
  rw [disjoint_iff]
  intro b ⟨h1, h2⟩
  rw [testBit_cpusetOf t h] at h1 h2
  obtain ⟨j, hj, hb⟩ := h1
  obtain ⟨j', hj', hb'⟩ := h2
  have htot := w_total t h d hd
  have b1 : k * wOf (mkTab t) d + j < nOf (mkTab t) (mkTab t).D := by
    rw [htot]
    have := Nat.mul_le_mul_right (wOf (mkTab t) d) (Nat.succ_le_of_lt hk)
    rw [Nat.succ_mul] at this; omega
  have b2 : k' * wOf (mkTab t) d + j' < nOf (mkTab t) (mkTab t).D := by
    rw [htot]
    have := Nat.mul_le_mul_right (wOf (mkTab t) d) (Nat.succ_le_of_lt hk')
    rw [Nat.succ_mul] at this; omega
  have := pu_inj t h hp _ _ b1 b2 (by rw [hb, hb'])
  have h3 := Nat.mul_le_mul_right (wOf (mkTab t) d) (Nat.succ_le_of_lt hne)
  rw [Nat.succ_mul] at h3
  omega

end

def csOf (o : Obj) : Nat := o.cpuset.getD 0

theorem fold_cpu_normals : ∀ (l : List Obj) (c : Cell), (∀ o ∈ l, isNormal o.type = true) →
    (l.foldl cellStep c).cpuOr = (l.map csOf).foldl (· ||| ·) c.cpuOr ∧
    (l.foldl cellStep c).cpuDisj = (c.cpuDisj && seqDisj c.cpuOr (l.map csOf)) := by
  intro l
  induction l with
  | nil => intro c _; simp [seqDisj]
  | cons o l ih =>
    intro c hn
    have ho := hn o List.mem_cons_self
    obtain ⟨h1, h2⟩ := ih (cellStep c o) (fun x hx => hn x (List.mem_cons_of_mem _ hx))
    rw [List.foldl_cons, h1, h2]
    have e1 : (cellStep c o).cpuOr = c.cpuOr ||| csOf o := by unfold cellStep csOf; simp [ho]
    have e2 : (cellStep c o).cpuDisj = (c.cpuDisj && disjoint c.cpuOr (csOf o)) := by unfold cellStep csOf; simp [ho]
    rw [e1, e2]
    simp [seqDisj, Bool.and_assoc]

theorem fold_cpu_mem : ∀ (l : List Obj) (c : Cell), (∀ o ∈ l, isNormal o.type = false) →
    (l.foldl cellStep c).cpuOr = c.cpuOr ∧ (l.foldl cellStep c).cpuDisj = c.cpuDisj := by
  intro l
  induction l with
  | nil => intro c _; exact ⟨rfl, rfl⟩
  | cons o l ih =>
    intro c hn
    have ho := hn o List.mem_cons_self
    obtain ⟨h1, h2⟩ := ih (cellStep c o) (fun x hx => hn x (List.mem_cons_of_mem _ hx))
    rw [List.foldl_cons, h1, h2]
    unfold cellStep
    simp only [ho, Bool.false_eq_true, if_false]
    split
    · exact ⟨rfl, rfl⟩
    · split <;> exact ⟨rfl, rfl⟩

section
variable (t : Topo) (h : OK t)
include h

theorem cl_cpuset_union (hp : puOK t = true) (o : Obj) (ho : o ∈ (toDump t).objs) :
    (fun (_ : Dump) (a : Aux) (o : Obj) =>
      if isNormal o.type && o.type != tPU then o.cpuset == some (getN a.cpuOr o.id) && getB a.cpuDisj o.id else true)
      (toDump t) (mkAux (toDump t)) o = true := by
  obtain ⟨e1, e2, _⟩ := mkAux_fold (toDump t)
  simp only [e1, e2]
  show (if isNormal o.type && o.type != tPU then o.cpuset == some (cellOf (auxFold (toDump t)) o.id).cpuOr &&
    (cellOf (auxFold (toDump t)) o.id).cpuDisj else true) = true
  cases objs_kind t o ho with
  | normal d k hd hk e =>
    rw [e, normalObj_type, ntype_normal t h d hd, Bool.true_and]
    by_cases hpu : ntype t d = tPU
    · simp [hpu]
    · have hne : (ntype t d != tPU) = true := by simp [hpu]
      rw [hne, if_pos rfl, normalObj_id, envOf_T, cell_normal t h d k hd hk, normalObj_cpuset]
      have hd' : d < (mkTab t).D := by
        rcases Nat.lt_or_ge d (mkTab t).D with h1 | h1
        · exact h1
        · exact absurd ((ntype_pu t h d hd).2 (by omega)) hpu
      unfold kidsOf
      rw [List.foldl_append]
      have hn : ∀ x ∈ (List.range (arOf (envOf t).T d)).map (fun r => normalObj (envOf t) (d + 1) (k * arOf (envOf t).T d + r)),
          isNormal x.type = true := by
        intro x hx
        obtain ⟨r, hr, rfl⟩ := List.mem_map.1 hx
        rw [normalObj_type]
        exact ntype_normal t h (d + 1) hd'
      have hm : ∀ x ∈ (List.range (memLen (envOf t).T d)).map (fun s => firstObj (envOf t) d k s), isNormal x.type = false := by
        intro x hx
        obtain ⟨s, _, rfl⟩ := List.mem_map.1 hx
        exact (firstObj_type (envOf t) d k s).1
      obtain ⟨m1, m2⟩ := fold_cpu_mem _ (((List.range (arOf (envOf t).T d)).map
        (fun r => normalObj (envOf t) (d + 1) (k * arOf (envOf t).T d + r))).foldl cellStep cell0) hm
      obtain ⟨n1, n2⟩ := fold_cpu_normals _ cell0 hn
      rw [m1, m2, n1, n2]
      simp only [List.map_map, Bool.and_eq_true, beq_iff_eq, Option.some.injEq]
      have hcs : (csOf ∘ fun r => normalObj (envOf t) (d + 1) (k * arOf (envOf t).T d + r)) =
          fun r => cpusetOf (envOf t) (d + 1) (k * arOf (mkTab t) d + r) := rfl
      rw [hcs]
      constructor
      · apply Nat.eq_of_testBit_eq
        intro b
        rw [testBit_foldl_or]
        have hz : cell0.cpuOr.testBit b = false := by simp [cell0]
        rw [hz, Bool.false_or]
        rw [Bool.eq_iff_iff, cpuset_union t h d k b hd']
        simp only [List.any_eq_true, List.mem_map, List.mem_range, envOf_T]
        constructor
        · intro ⟨r, hr, hb⟩; exact ⟨_, ⟨r, hr, rfl⟩, hb⟩
        · intro ⟨x, ⟨r, hr, hx⟩, hb⟩; exact ⟨r, hr, by rw [hx]; exact hb⟩
      · refine ⟨rfl, ?_⟩
        apply seqDisj_of_pairwise
        rw [List.pairwise_cons]
        refine ⟨fun y _ => disjoint_zero y, ?_⟩
        rw [List.pairwise_map]
        refine List.Pairwise.imp_of_mem ?_ List.pairwise_lt_range
        intro r r' hr hr' hlt
        have hr1 : r < arOf (mkTab t) d := List.mem_range.1 hr
        have hr2 : r' < arOf (mkTab t) d := List.mem_range.1 hr'
        exact cpuset_disjoint t h hp (d + 1) _ _ hd' (child_lt t d k r hd' hk hr1) (child_lt t d k r' hd' hk hr2) (by omega)
  | numa d k s hd hk hs e => rw [e]; rfl
  | mc d k s hd hk hs hm e => rw [e]; rfl

end

theorem subset_iff (a b : Nat) : subset a b = true ↔ ∀ i, a.testBit i = true → b.testBit i = true := by
  unfold subset
  rw [beq_iff_eq]
  constructor
  · intro hh i hi
    have := congrArg (·.testBit i) hh
    simp only [Nat.testBit_and, hi, Bool.true_and] at this
    exact this
  · intro hh
    apply Nat.eq_of_testBit_eq
    intro i
    rw [Nat.testBit_and]
    cases h1 : a.testBit i
    · rfl
    · rw [hh i h1]; rfl

section
variable (t : Topo) (h : OK t)
include h

/-- every cpuset is part of the root's -/
theorem cpuset_in_root (d k : Nat) (hd : d ≤ (mkTab t).D) (hk : k < nOf (mkTab t) d) :
    subset (cpusetOf (envOf t) d k) (cpusetOf (envOf t) 0 0) = true := by
  rw [subset_iff]
  intro b hb
  rw [testBit_cpusetOf t h] at hb ⊢
  obtain ⟨j, hj, hb⟩ := hb
  have h0 := w_total t h 0 (Nat.zero_le _)
  have hd0 := w_total t h d hd
  rw [nOf_zero, Nat.one_mul] at h0
  refine ⟨k * wOf (mkTab t) d + j, ?_, by rw [Nat.zero_mul, Nat.zero_add]; exact hb⟩
  rw [← h0, hd0]
  have := Nat.mul_le_mul_right (wOf (mkTab t) d) (Nat.succ_le_of_lt hk)
  rw [Nat.succ_mul] at this; omega

theorem cl_pu_allowed (o : Obj) (ho : o ∈ (toDump t).objs) :
    (fun (d : Dump) (_ : Aux) (o : Obj) => if o.type == tPU && !flagIncludeDisallowed d then
      subset (o.cpuset.getD 0) (d.allowedCpuset.getD 0) else true) (toDump t) (mkAux (toDump t)) o = true := by
  have hal : (toDump t).allowedCpuset = some (cpusetOf (envOf t) 0 0) := rfl
  simp only [hal, Option.getD_some]
  split
  · cases objs_kind t o ho with
    | normal d k hd hk e => rw [e, normalObj_cpuset, Option.getD_some]; exact cpuset_in_root t h d k hd hk
    | numa d k s hd hk hs e =>
      rename_i hc; rw [e] at hc
      have : ((numaObj (envOf t) d k s).type == tPU) = false := rfl
      rw [this] at hc; simp at hc
    | mc d k s hd hk hs hm e =>
      rename_i hc; rw [e] at hc
      have : ((mcObj (envOf t) d k s).type == tPU) = false := rfl
      rw [this] at hc; simp at hc
  · rfl

end

end Hw.Syn
