import Hw.Io.Conc

/- Hw.Io.ConcEntry — the PUBLIC entry points that reach the process-wide component registry (C17 (b)).

   `Hw.Conc.Reg` models hwloc_components_init / hwloc_components_fini themselves (the two critical sections, any number
   of threads).  This file models who calls them: every public function of topology.c, topology-xml.c and shmem.c that
   contains a call of hwloc_components_init or hwloc_components_fini (directly or through hwloc__topology_init /
   hwloc__topology_dup / hwloc_topology_destroy), WITH the path taken through it, as the sequence of registry calls
   the path performs:

     hwloc_topology_init                     init                       (hwloc__topology_init)
     hwloc_topology_destroy                  fini                       (plain, or hwloc__topology_disadopt)
     hwloc_topology_dup                      init on success; nothing when the source is not loaded (EINVAL first)
     hwloc_topology_diff_load_xml[buffer]    init .. fini               whatever the parser answers
     hwloc_topology_diff_export_xml[buffer]  init .. fini               nothing when the list holds a TOO_COMPLEX entry
                                                                        (rejected with EINVAL before the init)
     hwloc_shmem_topology_get_length         init .. fini               (dup into a counting allocator + destroy); nothing on flags
     hwloc_shmem_topology_write              init .. fini               (dup into the mapping + the explicit fini); nothing when
                                                                        rejected before the dup (flags, fd, mmap)
     hwloc_shmem_topology_adopt              init on success; init .. fini when it fails after the init; nothing when
                                                                        rejected before it (flags, fd, header, mmap, abi)
     everything else (set_synthetic / set_xml / set_xmlbuffer / set_components / load / export_xml / export_xmlbuffer /
     free_xmlbuffer / diff_build / diff_apply / diff_destroy) USES the registry without taking a reference.

   The table is tied to the real code by engine `readonly` (ops `reg ...`): the harness calls the entry point on the path
   named by the op line, reads hwloc_components_users / hwloc_disc_components afterwards, and the driver answers the same
   line by running `calls` through the GENERATED init / fini programs (`runHist`).

   `runProg` is the sequential execution of one critical section by one thread while nobody else is inside one: the
   instruction semantics is `Reg.exec`, the same one the interleaving theorems are about. -/
namespace Hw.Conc.Reg

inductive RCall | init | fini
  deriving DecidableEq, Repr

inductive AdoptPath | early | failedAfterInit | ok
  deriving DecidableEq, Repr

inductive Entry
  | topologyInit
  | topologyDestroy
  | topologyDup (ok : Bool)
  | setSource                       -- set_synthetic / set_xml / set_xmlbuffer / set_components, any outcome
  | load                            -- any outcome
  | exportXml                       -- export_xml / export_xmlbuffer / free_xmlbuffer
  | diffBuild | diffApply | diffDestroy
  | diffLoadXml | diffLoadXmlbuffer -- any outcome (no such file, malformed, not a diff, ok)
  | diffExportXml (tooComplex : Bool)
  | diffExportXmlbuffer (tooComplex : Bool)
  | shmemGetLength (reachedDup : Bool)
  | shmemWrite (reachedDup : Bool)
  | shmemAdopt (p : AdoptPath)
  deriving DecidableEq, Repr

def calls : Entry → List RCall
  | .topologyInit => [.init]
  | .topologyDestroy => [.fini]
  | .topologyDup ok => if ok then [.init] else []
  | .setSource | .load | .exportXml | .diffBuild | .diffApply | .diffDestroy => []
  | .diffLoadXml | .diffLoadXmlbuffer => [.init, .fini]
  | .diffExportXml tc | .diffExportXmlbuffer tc => if tc then [] else [.init, .fini]
  | .shmemGetLength r | .shmemWrite r => if r then [.init, .fini] else []
  | .shmemAdopt .early => []
  | .shmemAdopt .failedAfterInit => [.init, .fini]
  | .shmemAdopt .ok => [.init]

/-- the entry point hands a new topology (one registry reference) to the caller -/
def creates : Entry → Nat
  | .topologyInit | .topologyDup true | .shmemAdopt .ok => 1
  | _ => 0

/-- the entry point consumes a topology of the caller -/
def releases : Entry → Nat
  | .topologyDestroy => 1
  | _ => 0

/-- what is observable of the registry between calls -/
structure RS where
  users : Nat
  reg : Bool
  bad : Bool := false
  deriving DecidableEq, Repr

/-- the registry holds exactly `n` references and is in the state the invariant demands -/
def good (n : Nat) : RS := { users := n, reg := decide (0 < n) }

/-- one instruction of the only running thread (thread 0, phase `.init` = inside the call, `.idle` = returned) -/
def stepProg (p : Prog) (c : Cfg) : Cfg :=
  match c.thr[0]? with
  | some th =>
    if th.phase = .init then
      match p[th.pc]? with
      | some i => exec c 0 th .idle i
      | none => { c with bad := true }
    else c
  | none => c

def iterProg (p : Prog) : Nat → Cfg → Cfg
  | 0, c => c
  | k + 1, c => iterProg p k (stepProg p c)

/-- run one critical-section program from call to return; anything but a clean return (lock released, no failed
    assert, returned within the fuel) is `bad` -/
def runProg (p : Prog) (s : RS) : RS :=
  let c := iterProg p 12 { users := s.users, reg := s.reg, thr := [{ phase := .init }], bad := s.bad }
  { users := c.users, reg := c.reg, bad := c.bad || c.lock.isSome || c.thr != [{ phase := .idle }] }

def runCall (ip fp : Prog) (s : RS) : RCall → RS
  | .init => runProg ip s
  | .fini => runProg fp s

def runEntry (ip fp : Prog) (s : RS) (e : Entry) : RS := (calls e).foldl (runCall ip fp) s

def runHist (ip fp : Prog) (s : RS) (h : List Entry) : RS := h.foldl (runEntry ip fp) s

/-- bookkeeping of the CALLER: the number of topologies it owns after a history, `none` when it destroys a topology it
    does not have -/
def liveAfter : Nat → List Entry → Option Nat
  | k, [] => some k
  | k, e :: es => if releases e ≤ k then liveAfter (k + creates e - releases e) es else none

/-! ### the two critical sections, run sequentially -/

theorem runProg_init (n : Nat) : runProg Model.initProg (good n) = good (n + 1) := by
  cases n with
  | zero => decide
  | succ m =>
    simp [runProg, iterProg, stepProg, exec, setThr, Model.initProg, good]

theorem runProg_fini (n : Nat) : runProg Model.finiProg (good (n + 1)) = good n := by
  cases n with
  | zero => decide
  | succ m =>
    simp [runProg, iterProg, stepProg, exec, setThr, Model.finiProg, good]

/-- a fini that nobody's init paid for, on an empty registry: the assert of hwloc_components_fini fails -/
theorem runProg_fini_zero : (runProg Model.finiProg (good 0)).bad = true := by decide

/-! ### entry points and histories -/

theorem runEntry_good (e : Entry) (n : Nat) (h : releases e ≤ n) :
    runEntry Model.initProg Model.finiProg (good n) e = good (n + creates e - releases e) := by
  cases e with
  | topologyDestroy =>
    obtain ⟨m, rfl⟩ : ∃ m, n = m + 1 := ⟨n - 1, by simp [releases] at h; omega⟩
    simp [runEntry, calls, runCall, runProg_fini, creates, releases]
  | topologyDup ok => cases ok <;> simp [runEntry, calls, runCall, runProg_init, creates, releases]
  | diffExportXml tc => cases tc <;> simp [runEntry, calls, runCall, runProg_init, runProg_fini, creates, releases]
  | diffExportXmlbuffer tc => cases tc <;> simp [runEntry, calls, runCall, runProg_init, runProg_fini, creates, releases]
  | shmemGetLength r => cases r <;> simp [runEntry, calls, runCall, runProg_init, runProg_fini, creates, releases]
  | shmemWrite r => cases r <;> simp [runEntry, calls, runCall, runProg_init, runProg_fini, creates, releases]
  | shmemAdopt p => cases p <;> simp [runEntry, calls, runCall, runProg_init, runProg_fini, creates, releases]
  | _ => simp [runEntry, calls, runCall, runProg_init, runProg_fini, creates, releases]

theorem runHist_good (h : List Entry) (k k' : Nat) (hl : liveAfter k h = some k') :
    runHist Model.initProg Model.finiProg (good k) h = good k' := by
  induction h generalizing k with
  | nil => simp [liveAfter] at hl; simp [runHist, hl]
  | cons e es ih =>
    simp only [liveAfter] at hl
    split at hl
    · rename_i hle
      simp only [runHist, List.foldl_cons]
      rw [runEntry_good e k hle]
      exact ih _ hl
    · cases hl

/-- every prefix of an admissible history is admissible -/
theorem liveAfter_take (h : List Entry) (k k' : Nat) (hl : liveAfter k h = some k') (i : Nat) :
    ∃ j, liveAfter k (h.take i) = some j := by
  induction h generalizing k i with
  | nil => exact ⟨k, by simp [liveAfter]⟩
  | cons e es ih =>
    cases i with
    | zero => exact ⟨k, by simp [liveAfter]⟩
    | succ i =>
      simp only [liveAfter] at hl
      split at hl
      · rename_i hle
        obtain ⟨j, hj⟩ := ih _ hl i
        exact ⟨j, by simp [liveAfter, hle, hj]⟩
      · cases hl

end Hw.Conc.Reg
