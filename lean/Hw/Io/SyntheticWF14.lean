/-
  Hw.Io.SyntheticWF14 — `levels-in-tree-order` for `toDump t`: every level lists its objects by increasing DFS id, for every
  `t` with `topoOK t`.
-/
import Hw.Io.SyntheticWF13
namespace Hw.Syn
open Hw Hw.Topo

set_option linter.unusedSectionVars false
set_option linter.unusedSimpArgs false
set_option linter.unnecessarySimpa false

theorem increasing_of_pairwise : ∀ (l : List Int), l.Pairwise (· < ·) → increasing l = true := by
  intro l
  induction l with
  | nil => intro _; rfl
  | cons a l ih =>
    intro hp
    cases l with
    | nil => rfl
    | cons b r =>
      rw [List.pairwise_cons] at hp
      unfold increasing
      simp only [Bool.and_eq_true, decide_eq_true_eq]
      exact ⟨hp.1 b List.mem_cons_self, ih hp.2⟩

theorem divmod_unique (a q r q' r' : Nat) (hr : r < a) (hr' : r' < a) (he : a * q + r = a * q' + r') : q = q' ∧ r = r' := by
  have ha : 0 < a := by omega
  have h1 : (a * q + r) / a = q := by rw [Nat.mul_add_div ha, Nat.div_eq_of_lt hr]; rfl
  have h2 : (a * q' + r') / a = q' := by rw [Nat.mul_add_div ha, Nat.div_eq_of_lt hr']; rfl
  have hq : q = q' := by rw [← h1, ← h2, he]
  subst hq
  exact ⟨rfl, by omega⟩

section
variable (t : Topo) (h : OK t)
include h

/-- consecutive objects of one depth: the subtree of the first ends before the second -/
theorem nid_step : ∀ d k, d ≤ (mkTab t).D → k + 1 < nOf (mkTab t) d →
    nid (mkTab t) d k + szOf (mkTab t) d ≤ nid (mkTab t) d (k + 1) := by
  intro d
  induction d with
  | zero => intro k _ hk; rw [nOf_zero] at hk; omega
  | succ d ih =>
    intro k hd hk
    have hd' : d < (mkTab t).D := hd
    have ⟨ha, hlt⟩ := div_lt_parent t d (k + 1) hd' hk
    have hsz := mkTab_sz t d (Nat.le_of_lt hd')
    rw [nid_succ, nid_succ, ar_getD1 t d hd']
    show nid (mkTab t) d (k / arOf (mkTab t) d) + 1 + k % arOf (mkTab t) d * szOf (mkTab t) (d + 1) + szOf (mkTab t) (d + 1) ≤
      nid (mkTab t) d ((k + 1) / arOf (mkTab t) d) + 1 + (k + 1) % arOf (mkTab t) d * szOf (mkTab t) (d + 1)
    by_cases hc : (k + 1) % arOf (mkTab t) d = 0
    · -- next parent
      have h1 : (k + 1) / arOf (mkTab t) d = k / arOf (mkTab t) d + 1 ∧ k % arOf (mkTab t) d + 1 = arOf (mkTab t) d := by
        have e1 := Nat.div_add_mod (k + 1) (arOf (mkTab t) d)
        have e2 := Nat.div_add_mod k (arOf (mkTab t) d)
        have e3 := Nat.mod_lt k ha
        rw [hc] at e1
        generalize (k + 1) / arOf (mkTab t) d = q1 at *
        generalize k / arOf (mkTab t) d = q at *
        generalize k % arOf (mkTab t) d = r at *
        generalize arOf (mkTab t) d = a at *
        by_cases hra : r + 1 < a
        · have := divmod_unique a q1 0 q (r + 1) ha hra (by omega)
          omega
        · have hra' : r + 1 = a := by omega
          have : a * q1 = a * (q + 1) := by rw [Nat.mul_succ]; omega
          exact ⟨Nat.eq_of_mul_eq_mul_left ha this, hra'⟩
      have hk1 : k / arOf (mkTab t) d + 1 < nOf (mkTab t) d := by rw [← h1.1]; exact hlt
      have := ih (k / arOf (mkTab t) d) (Nat.le_of_lt hd') hk1
      rw [h1.1, hc, hsz] at *
      have e : arOf (mkTab t) d * szOf (mkTab t) (d + 1) = (k % arOf (mkTab t) d + 1) * szOf (mkTab t) (d + 1) := by rw [h1.2]
      rw [Nat.add_mul] at e
      omega
    · -- same parent
      have h1 : (k + 1) / arOf (mkTab t) d = k / arOf (mkTab t) d ∧ (k + 1) % arOf (mkTab t) d = k % arOf (mkTab t) d + 1 := by
        have e1 := Nat.div_add_mod (k + 1) (arOf (mkTab t) d)
        have e2 := Nat.div_add_mod k (arOf (mkTab t) d)
        have e3 := Nat.mod_lt k ha
        have e4 := Nat.mod_lt (k + 1) ha
        generalize (k + 1) / arOf (mkTab t) d = q1 at *
        generalize k / arOf (mkTab t) d = q at *
        generalize (k + 1) % arOf (mkTab t) d = r1 at *
        generalize k % arOf (mkTab t) d = r at *
        generalize arOf (mkTab t) d = a at *
        by_cases hra : r + 1 < a
        · have := divmod_unique a q1 r1 q (r + 1) e4 hra (by omega)
          exact ⟨this.1, this.2⟩
        · have hra' : r + 1 = a := by omega
          have h5 : a * q1 + r1 = a * (q + 1) + 0 := by rw [Nat.mul_succ]; omega
          have := divmod_unique a q1 r1 (q + 1) 0 e4 ha h5
          exact absurd this.2 hc
      rw [h1.1, h1.2, Nat.add_mul]; omega

theorem nid_lt (d k k' : Nat) (hd : d ≤ (mkTab t).D) (hk' : k' < nOf (mkTab t) d) (hlt : k < k') :
    nid (mkTab t) d k < nid (mkTab t) d k' := by
  obtain ⟨j, rfl⟩ : ∃ j, k' = k + 1 + j := ⟨k' - k - 1, by omega⟩
  induction j with
  | zero =>
    have := nid_step t h d k hd hk'
    have hsz := sz_ge t h d ((mkTab t).D - d) (by omega)
    show nid (mkTab t) d k < nid (mkTab t) d (k + 1)
    omega
  | succ j ih =>
    have := ih (by omega) (by omega)
    have h2 := nid_step t h d (k + 1 + j) hd hk'
    have hsz := sz_ge t h d ((mkTab t).D - d) (by omega)
    have e : k + 1 + (j + 1) = k + 1 + j + 1 := by omega
    rw [e]; omega

end

theorem sum_take_le (l : List Nat) : ∀ n, (l.take n).sum ≤ l.sum := by
  induction l with
  | nil => intro n; simp
  | cons x l ih =>
    intro n
    cases n with
    | zero => simp
    | succ n => simp only [List.take_succ_cons, List.sum_cons]; have := ih n; omega

/-- a slot object and the next slot stay inside the memory-children id range of (d, k) -/
theorem memId_bounds (T : DTab) (d k s : Nat) (hs : s < memLen T d) :
    nid T d k + 1 + arOf T d * szOf T (d + 1) ≤ memId T d k s ∧
    memId T d k s + msz ((T.mem[d]?.getD [])[s]?.getD ⟨0, 0⟩) ≤ nid T d k + 1 + arOf T d * szOf T (d + 1) + memSz T d := by
  have h1 := memId_succ T d k s hs
  constructor
  · unfold memId arOf szOf; omega
  · rw [← h1]
    unfold memId arOf szOf memSz
    have := sum_take_le ((T.mem[d]?.getD []).map msz) (s + 1)
    rw [List.map_take]
    omega

theorem numaId_bounds (T : DTab) (d k s : Nat) :
    memId T d k s ≤ numaId T d k s ∧ numaId T d k s < memId T d k s + msz ((T.mem[d]?.getD [])[s]?.getD ⟨0, 0⟩) := by
  unfold numaId msz
  split <;> constructor <;> omega

/-- the id of own object number `s` of (d, k) in a special level (when it is listed) -/
def ownId (T : DTab) (numa : Bool) (d k s : Nat) : Int := if numa then (numaId T d k s : Int) else (memId T d k s : Int)

theorem own_mem (T : DTab) (numa : Bool) (d k : Nat) (x : Int) (hx : x ∈ specialIds.own T numa d k) :
    ∃ s, s < memLen T d ∧ x = ownId T numa d k s := by
  unfold specialIds.own at hx
  obtain ⟨s, hs, hx⟩ := List.mem_filterMap.1 hx
  refine ⟨s, List.mem_range.1 hs, ?_⟩
  unfold ownId
  cases numa
  · simp only [Bool.false_eq_true, if_false] at hx ⊢
    split at hx
    · exact (Option.some.inj hx).symm
    · cases hx
  · simp only [if_true] at hx ⊢
    exact (Option.some.inj hx).symm

theorem ownId_lt (T : DTab) (numa : Bool) (d k s s' : Nat) (hs' : s' < memLen T d) (hlt : s < s') :
    ownId T numa d k s < ownId T numa d k s' := by
  have h1 := memId_succ T d k s (by omega)
  have h2 := memId_mono T d k (s' - (s + 1)) (s + 1) (by omega)
  have e : s + 1 + (s' - (s + 1)) = s' := by omega
  rw [e] at h2
  have h3 := numaId_bounds T d k s
  have h4 := numaId_bounds T d k s'
  have h5 := msz_pos ((T.mem[d]?.getD [])[s]?.getD ⟨0, 0⟩)
  unfold ownId
  cases numa
  · simp only [Bool.false_eq_true, if_false]; omega
  · simp only [if_true]; omega

theorem own_sorted (T : DTab) (numa : Bool) (d k : Nat) : (specialIds.own T numa d k).Pairwise (· < ·) := by
  unfold specialIds.own
  rw [List.pairwise_filterMap]
  refine List.Pairwise.imp_of_mem ?_ List.pairwise_lt_range
  intro s s' _ hs' hlt b hb b' hb'
  have hs2 : s' < memLen T d := List.mem_range.1 hs'
  have key := ownId_lt T numa d k s s' hs2 hlt
  unfold ownId at key
  cases numa
  · simp only [Bool.false_eq_true, if_false] at hb hb' key
    split at hb
    · split at hb'
      · rw [← Option.some.inj hb, ← Option.some.inj hb']; exact key
      · cases hb'
    · cases hb
  · simp only [if_true] at hb hb' key
    rw [← Option.some.inj hb, ← Option.some.inj hb']; exact key

section
variable (t : Topo) (h : OK t)
include h

theorem special_sorted (numa : Bool) : ∀ f d k, d + f = (mkTab t).D + 1 → d ≤ (mkTab t).D →
    (specialIds (mkTab t) numa f d k).Pairwise (· < ·) ∧
    ∀ x ∈ specialIds (mkTab t) numa f d k, (nid (mkTab t) d k : Int) < x ∧ x < ((nid (mkTab t) d k + szOf (mkTab t) d : Nat) : Int) := by
  intro f
  induction f with
  | zero => intro d k h1 h2; omega
  | succ f ih =>
    intro d k h1 hd
    have hsz := mkTab_sz t d hd
    have hown : ∀ x ∈ specialIds.own (mkTab t) numa d k,
        ((nid (mkTab t) d k + 1 + arOf (mkTab t) d * szOf (mkTab t) (d + 1) : Nat) : Int) ≤ x ∧
        x < ((nid (mkTab t) d k + szOf (mkTab t) d : Nat) : Int) := by
      intro x hx
      obtain ⟨s, hs, rfl⟩ := own_mem _ numa d k x hx
      have b1 := memId_bounds (mkTab t) d k s hs
      have b2 := numaId_bounds (mkTab t) d k s
      have b3 := msz_pos (((mkTab t).mem[d]?.getD [])[s]?.getD ⟨0, 0⟩)
      unfold ownId
      cases numa
      · simp only [Bool.false_eq_true, if_false]; omega
      · simp only [if_true]; omega
    have hkid : ∀ r, r < arOf (mkTab t) d → d < (mkTab t).D →
        ∀ x ∈ specialIds (mkTab t) numa f (d + 1) (k * arOf (mkTab t) d + r),
          ((nid (mkTab t) d k + 1 + r * szOf (mkTab t) (d + 1) : Nat) : Int) < x ∧
          x < ((nid (mkTab t) d k + 1 + r * szOf (mkTab t) (d + 1) + szOf (mkTab t) (d + 1) : Nat) : Int) := by
      intro r hr hdd x hx
      have := (ih (d + 1) (k * arOf (mkTab t) d + r) (by omega) hdd).2 x hx
      rw [nid_child _ d k r hr] at this
      exact this
    have hG : specialIds (mkTab t) numa (f + 1) d k = (if d < (mkTab t).D then (List.range (arOf (mkTab t) d)).flatMap
        (fun r => specialIds (mkTab t) numa f (d + 1) (k * arOf (mkTab t) d + r)) else []) ++ specialIds.own (mkTab t) numa d k := rfl
    rw [hG]
    by_cases hdd : d < (mkTab t).D
    · rw [if_pos hdd]
      constructor
      · rw [List.pairwise_append]
        refine ⟨?_, own_sorted _ numa d k, ?_⟩
        · rw [List.pairwise_flatMap]
          refine ⟨fun r _ => (ih (d + 1) _ (by omega) hdd).1, ?_⟩
          refine List.Pairwise.imp_of_mem ?_ List.pairwise_lt_range
          intro r r' hr hr' hlt x hx y hy
          have b1 := (hkid r (List.mem_range.1 hr) hdd x hx).2
          have b2 := (hkid r' (List.mem_range.1 hr') hdd y hy).1
          have := Nat.mul_le_mul_right (szOf (mkTab t) (d + 1)) (Nat.succ_le_of_lt hlt)
          rw [Nat.succ_mul] at this
          omega
        · intro x hx y hy
          obtain ⟨r, hr, hx⟩ := List.mem_flatMap.1 hx
          have hr1 : r < arOf (mkTab t) d := List.mem_range.1 hr
          have b1 := (hkid r hr1 hdd x hx).2
          have b2 := (hown y hy).1
          have := Nat.mul_le_mul_right (szOf (mkTab t) (d + 1)) (Nat.succ_le_of_lt hr1)
          rw [Nat.succ_mul] at this
          omega
      · intro x hx
        rcases List.mem_append.1 hx with hx | hx
        · obtain ⟨r, hr, hx⟩ := List.mem_flatMap.1 hx
          have hr1 : r < arOf (mkTab t) d := List.mem_range.1 hr
          have b := hkid r hr1 hdd x hx
          have := Nat.mul_le_mul_right (szOf (mkTab t) (d + 1)) (Nat.succ_le_of_lt hr1)
          rw [Nat.succ_mul] at this
          omega
        · have b := hown x hx
          omega
    · rw [if_neg hdd, List.nil_append]
      refine ⟨own_sorted _ numa d k, ?_⟩
      intro x hx
      have b := hown x hx
      omega

theorem tc_levels_in_tree_order : (fun (d : Dump) (_ : Aux) => d.levels.all (fun l => increasing l.objs))
    (toDump t) (mkAux (toDump t)) = true := by
  simp only [toDump_levels, List.all_append, Bool.and_eq_true]
  constructor
  · simp only [List.all_eq_true, List.mem_map, List.mem_range, forall_exists_index, and_imp, forall_apply_eq_imp_iff₂]
    intro d hd
    have hd' : d ≤ (mkTab t).D := by omega
    apply increasing_of_pairwise
    simp only [normalLevel, n_getD0 t d hd']
    rw [List.pairwise_map]
    refine List.Pairwise.imp_of_mem ?_ List.pairwise_lt_range
    intro k k' _ hk' hlt
    have := nid_lt t h d k k' hd' (List.mem_range.1 hk') hlt
    omega
  · have h1 := (special_sorted t h true ((mkTab t).D + 1) 0 0 (by omega) (Nat.zero_le _)).1
    have h2 := (special_sorted t h false ((mkTab t).D + 1) 0 0 (by omega) (Nat.zero_le _)).1
    have e1 : increasing (envOf t).numaL = true := increasing_of_pairwise _ h1
    have e2 : increasing (envOf t).mcL = true := increasing_of_pairwise _ h2
    simp [specialLevels, e1, e2, increasing]

end

end Hw.Syn
