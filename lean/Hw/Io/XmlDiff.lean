/-
  Hw.Io.XmlDiff — the diff part of hwloc/topology-xml.c at the token level (attribute name/value lists), with the
  number conversions and the nolibxml text layout down to bytes.

  * `exportEntry` / `exportEls` / `exportDoc` = hwloc__xml_export_diff below hwloc_topology_diff_export_xml[buffer]
    (the TOO_COMPLEX pre-check of the public entry points, one `<diff>` element per entry, the attributes the C writes, in
    the order it writes them: type, obj_depth, obj_index, obj_attr_type, then obj_attr_index/oldvalue/newvalue for SIZE and
    [obj_attr_name]/oldvalue/newvalue for NAME and INFO);
  * `renderDoc` = the text hwloc___nolibxml_prepare_export_diff produces for such a document (header, `<topologydiff`,
    new_child / new_prop / end_object with their indentation), on top of `Hw.Xml.renderAttrs` (escaping);
  * `slotStep` / `slotsLoop` / `buildEntry` / `importOne` = hwloc__xml_import_diff_one: the attribute loop with its strcmp chain
    (a repeated attribute overwrites the pointer: the last one wins; `obj_attr_index` is accepted and ignored; any other
    name makes the function return -1), `switch (atoi(type_s))` (anything but OBJ_ATTR = 0 is silently ignored, so is a
    missing `type`), the mandatory-attribute checks (each failure `break`s: the element is accepted and nothing is
    appended), the conversions (atoi for depth / index / obj_attr_type, strtoull base 0 for SIZE values, strdup otherwise);
  * `importEls` = the loop of hwloc__xml_import_diff (appending through lastdiff; first error: destroy everything, -1);
  * `importDoc` = hwloc_{nolibxml,libxml}_import_diff below hwloc_topology_diff_load_xml[buffer]: the root attribute loop
    (only `refname`, last one wins), then the elements.  `parse` is what the back end delivers of a token-level
    document: nolibxml everything; libxml2 rejects a document with a repeated attribute name (not well formed) and
    delivers everything else (an empty value arrives as an empty text node, so hwloc__libxml_import_next_attr returns "").

  Strings are byte lists (`List Nat`), entries are `Hw.Diff.Entry Bytes`.  The C fields that `Entry` does not carry are
  fixed to what diff.c and the header prescribe: `uint64.index` = 0 (documented "unused", always 0 in diff.c) and
  `string.name` = NULL for NAME entries.  Entries the exporter cannot write: TOO_COMPLEX (EINVAL for the whole list), unknown
  entry types (assert), NULL strings (strlen(NULL)); an unknown obj_attr type is written by the C code but its number is not
  in `Entry`, so the model leaves it outside its domain (`undef`).

  libc: `atoi` is modelled as glibc implements it, `(int) strtol(s, NULL, 10)` (saturation at LONG_MIN/LONG_MAX, then
  truncation to 32 bits); `strtoull(s, NULL, 0)` with sign, 0x/0 prefixes and saturation at ULLONG_MAX.
-/
import Hw.Attr.Diff
import Hw.Io.Xml
namespace Hw.XmlDiff
open Hw Hw.Xml Hw.Diff

abbrev Bytes := List Nat
abbrev AttrL := List (Bytes × Bytes)
abbrev E := Entry Bytes

/-! ### names -/
def nmType : Bytes := str "type"
def nmDepth : Bytes := str "obj_depth"
def nmIndex : Bytes := str "obj_index"
def nmAType : Bytes := str "obj_attr_type"
def nmAIndex : Bytes := str "obj_attr_index"
def nmAName : Bytes := str "obj_attr_name"
def nmOld : Bytes := str "obj_attr_oldvalue"
def nmNew : Bytes := str "obj_attr_newvalue"
def nmDiff : Bytes := str "diff"
def nmRefname : Bytes := str "refname"

/-! ### numbers -/

def longMax : Int := 9223372036854775807

/-- glibc `strtol(s, NULL, 10)` -/
def strtolDec (s : Bytes) : Int :=
  let v := Xml.atoi s
  if v > longMax then longMax else if v < -longMax - 1 then -longMax - 1 else v

/-- conversion `long -> int` (gcc: modulo 2^32) -/
def toInt32 (v : Int) : Int := (v + 2147483648) % 4294967296 - 2147483648

/-- glibc `atoi` -/
def atoiC (s : Bytes) : Int := toInt32 (strtolDec s)

/-- `unsigned = atoi(s)` -/
def atouC (s : Bytes) : Nat := (atoiC s % 4294967296).toNat

/-- base detection of `strtoull(.., 0)`: `0x`/`0X` followed by a hex digit, a leading `0` (octal), decimal otherwise -/
def basePrefix0 (s : Bytes) : Nat × Bytes :=
  match s with
  | 48 :: x :: d :: r => if (x == 120 || x == 88) && isDigitIn 16 d then (16, d :: r) else (8, s)
  | 48 :: _ => (8, s)
  | _ => (10, s)

/-- the magnitude part of `strtoull(s, NULL, 0)` after blanks and sign: (unbounded value, digits consumed) -/
def magnitude0 (s : Bytes) : Nat × Nat :=
  let p := basePrefix0 s
  let t := takeDigits p.1 p.2 0 0
  (t.1, t.2.1)

/-- an optional sign: (negative?, rest) -/
def splitSign (s : Bytes) : Bool × Bytes :=
  match s with
  | 45 :: r => (true, r)
  | 43 :: r => (false, r)
  | _ => (false, s)

/-- glibc `strtoull(s, NULL, 0)` -/
def strtoull0 (s : Bytes) : Nat :=
  let p := splitSign (s.dropWhile isSpace)
  let m := magnitude0 p.2
  if m.2 = 0 then 0
  else if m.1 > ulongMax then ulongMax
  else if p.1 then (18446744073709551616 - m.1) % 18446744073709551616
  else m.1

/-! ### export -/

/-- `(int) diff->obj_attr.diff.generic.type` for the three known sub-types -/
def attrTypeNum : Attr Bytes → Option Int
  | .size _ _ => some 0
  | .name _ _ => some 1
  | .info _ _ _ => some 2
  | .unknown => none

/-- the inner `switch` of hwloc__xml_export_diff -/
def exportAttr : Attr Bytes → Option AttrL
  | .size o n => some [(nmAIndex, decDigits 0), (nmOld, decDigits o.toNat), (nmNew, decDigits n.toNat)]
  | .name (some o) (some n) => some [(nmOld, o), (nmNew, n)]
  | .name _ _ => none
  | .info nm o n => some [(nmAName, nm), (nmOld, o), (nmNew, n)]
  | .unknown => none

/-- one `<diff>` element: its attribute list; `none` = the C code cannot write this entry -/
def exportEntry : E → Option AttrL
  | .objAttr k a =>
    match attrTypeNum a, exportAttr a with
    | some t, some tail =>
      some ((nmType, printInt 0) :: (nmDepth, printInt k.1) :: (nmIndex, decDigits k.2) :: (nmAType, printInt t) :: tail)
    | _, _ => none
  | _ => none

/-- a document at the token level: attributes of the root element, then (tag, attributes) of its children -/
structure Doc where
  root : AttrL
  els : List (Bytes × AttrL)
deriving DecidableEq, Repr

/-- the `while (diff)` loop of hwloc__xml_export_diff -/
def exportEls : List E → Option (List (Bytes × AttrL))
  | [] => some []
  | e :: r =>
    match exportEntry e, exportEls r with
    | some a, some l => some ((nmDiff, a) :: l)
    | _, _ => none

inductive Exported
  | ok (d : Doc)
  | einval          -- a TOO_COMPLEX entry anywhere in the list: -1 / EINVAL, nothing written
  | undef           -- outside the domain (NULL string, unknown types)
deriving DecidableEq, Repr

def rootAttrs : Option Bytes → AttrL
  | some r => [(nmRefname, r)]
  | none => []

/-- hwloc_topology_diff_export_xmlbuffer / _export_xml down to the token level -/
def exportDoc (ref : Option Bytes) (l : List E) : Exported :=
  if l.any Entry.isTC then .einval
  else
    match exportEls l with
    | some els => .ok { root := rootAttrs ref, els := els }
    | none => .undef

/-! ### the text of the nolibxml exporter -/

def header : Bytes :=
  str "<?xml version=\"1.0\" encoding=\"UTF-8\"?>\n<!DOCTYPE topologydiff SYSTEM \"hwloc2-diff.dtd\">\n"

/-- new_child at indentation 2, the new_prop calls, end_object of an element without children or content -/
def renderEl (e : Bytes × AttrL) : Bytes := 32 :: 32 :: 60 :: e.1 ++ renderAttrs e.2 ++ [47, 62, 10]

def renderEls : List (Bytes × AttrL) → Bytes
  | [] => []
  | e :: l => renderEl e ++ renderEls l

/-- hwloc___nolibxml_prepare_export_diff (without the final NUL) -/
def renderDoc (d : Doc) : Bytes :=
  header ++ str "<topologydiff" ++ renderAttrs d.root ++
    (match d.els with
     | [] => [47, 62, 10]
     | _ :: _ => [62, 10] ++ renderEls d.els ++ str "</topologydiff>\n")

/-! ### import -/

inductive AK | type | depth | index | atype | aindex | aname | old | new
deriving DecidableEq, Repr

/-- the strcmp chain of the attribute loop -/
def attrKind (n : Bytes) : Option AK :=
  if n = nmType then some .type
  else if n = nmDepth then some .depth
  else if n = nmIndex then some .index
  else if n = nmAType then some .atype
  else if n = nmAIndex then some .aindex
  else if n = nmAName then some .aname
  else if n = nmOld then some .old
  else if n = nmNew then some .new
  else none

/-- the seven `char *..._s` locals -/
structure Slots where
  type : Option Bytes
  depth : Option Bytes
  index : Option Bytes
  atype : Option Bytes
  aname : Option Bytes
  old : Option Bytes
  new : Option Bytes
deriving DecidableEq, Repr

def Slots.empty : Slots := ⟨none, none, none, none, none, none, none⟩

/-- one iteration of the attribute loop; `none` = `return -1` (unknown attribute) -/
def slotStep (s : Slots) (a : Bytes × Bytes) : Option Slots :=
  match attrKind a.1 with
  | some .type => some { s with type := some a.2 }
  | some .depth => some { s with depth := some a.2 }
  | some .index => some { s with index := some a.2 }
  | some .atype => some { s with atype := some a.2 }
  | some .aindex => some s
  | some .aname => some { s with aname := some a.2 }
  | some .old => some { s with old := some a.2 }
  | some .new => some { s with new := some a.2 }
  | none => none

def slotsLoop : Slots → AttrL → Option Slots
  | s, [] => some s
  | s, a :: r =>
    match slotStep s a with
    | some s' => slotsLoop s' r
    | none => none

/-- the inner `switch (obj_attr_type)` after the memset -/
def buildAttr (ty : Int) (nm : Option Bytes) (o n : Bytes) : Attr Bytes :=
  if ty = 0 then .size (BitVec.ofNat 64 (strtoull0 o)) (BitVec.ofNat 64 (strtoull0 n))
  else if ty = 2 then .info (nm.getD []) o n
  else if ty = 1 then .name (some o) (some n)
  else .unknown

/-- what follows the attribute loop: `none` = nothing appended (the element is still accepted) -/
def buildEntry (s : Slots) : Option E :=
  match s.type with
  | none => none
  | some t =>
    if atoiC t ≠ 0 then none
    else
      match s.depth, s.index, s.atype, s.old, s.new with
      | some d, some i, some aty, some o, some n =>
        if atoiC aty = 2 ∧ s.aname = none then none
        else some (.objAttr (atoiC d, atouC i) (buildAttr (atoiC aty) s.aname o n))
      | _, _, _, _, _ => none

/-- hwloc__xml_import_diff_one on the attribute list of one element (close_tag of an empty element returns 0):
    `none` = -1, `some none` = 0 and nothing appended, `some (some e)` = 0 and `e` appended -/
def importOne (attrs : AttrL) : Option (Option E) := (slotsLoop Slots.empty attrs).map buildEntry

/-- the loop of hwloc__xml_import_diff; `acc` = the list hanging off firstdiff (appended at lastdiff).
    Result: (no error?, the list hanging off firstdiff when the loop is left) -/
def importEls : List E → List (Bytes × AttrL) → Bool × List E
  | acc, [] => (true, acc)
  | acc, el :: r =>
    if el.1 ≠ nmDiff then (false, acc)
    else
      match importOne el.2 with
      | none => (false, acc)
      | some none => importEls acc r
      | some (some e) => importEls (acc ++ [e]) r

/-- the root attribute loop of hwloc_nolibxml_import_diff / hwloc_libxml_import_diff -/
def rootLoop : Option Bytes → AttrL → Option (Option Bytes)
  | r, [] => some r
  | _, a :: l => if a.1 = nmRefname then rootLoop (some a.2) l else none

inductive Backend | nolibxml | libxml
deriving DecidableEq, Repr

def attrsWellFormed (a : AttrL) : Bool := decide (a.map (·.1)).Nodup

/-- the token-level document as the back end's next_attr / find_child present it; `none` = the parser rejects the text -/
def parse : Backend → Doc → Option Doc
  | .nolibxml, d => some d
  | .libxml, d =>
    if attrsWellFormed d.root && d.els.all (fun e => attrsWellFormed e.2) then some d else none

/-- what the caller of hwloc_topology_diff_load_xml[buffer] sees, plus the entries freed on the error path -/
structure Loaded where
  ret : Int
  diff : List E            -- *firstdiffp (set to NULL on entry)
  ref : Option Bytes       -- *refnamep (written on success only; `none` = NULL / untouched)
  freed : List E           -- handed to hwloc_topology_diff_destroy by the error path
deriving DecidableEq, Repr

def Loaded.fail (freed : List E) : Loaded := ⟨-1, [], none, freed⟩

def importDoc (be : Backend) (d : Doc) : Loaded :=
  match parse be d with
  | none => .fail []
  | some d =>
    match rootLoop none d.root with
    | none => .fail []
    | some ref =>
      match importEls [] d.els with
      | (true, l) => ⟨0, l, ref, []⟩
      | (false, l) => .fail l

/-! ### the entries the round trip is stated for -/

/-- the C types of `obj_depth` (int) and `obj_index` (unsigned) -/
def KeyInRange (k : Key) : Prop := -2147483648 ≤ k.1 ∧ k.1 < 2147483648 ∧ k.2 < 4294967296

/-- what hwloc_topology_diff_export_xml[buffer] can write and the importer reads back: OBJ_ATTR entries of the three
    known sub-types without NULL strings (TOO_COMPLEX is refused with EINVAL, the rest is undefined behaviour) -/
def Exportable : E → Prop
  | .objAttr k (.size _ _) => KeyInRange k
  | .objAttr k (.name (some _) (some _)) => KeyInRange k
  | .objAttr k (.info _ _ _) => KeyInRange k
  | _ => False

/-- no NUL byte inside a string (C strings) -/
def NulFree (b : Bytes) : Prop := ∀ c ∈ b, c ≠ 0

def EntryNulFree : E → Prop
  | .objAttr _ (.name (some o) (some n)) => NulFree o ∧ NulFree n
  | .objAttr _ (.info nm o n) => NulFree nm ∧ NulFree o ∧ NulFree n
  | _ => True

/-! ### what the statements about arbitrary documents are phrased with -/

/-- the entry one element contributes (`none`: rejected or silently ignored) -/
def elEntry (el : Bytes × AttrL) : Option E := (importOne el.2).bind id

/-- every entry the element loop has linked when hwloc__xml_import_diff is left (whatever the outcome) -/
def linked (be : Backend) (d : Doc) : List E :=
  match parse be d with
  | none => []
  | some d' =>
    match rootLoop none d'.root with
    | none => []
    | some _ => (importEls [] d'.els).2

/-- names over `[a-z_]`, NUL-free values: what the nolibxml scanner reads back byte for byte (Hw.Xml.scanAttrs_renderAttrs) -/
def GoodAttrs (a : AttrL) : Prop := ∀ x ∈ a, (∀ c ∈ x.1, isAttrNameChar c = true) ∧ (∀ c ∈ x.2, c ≠ 0)

/-! ### through the bytes of the start tags -/

/-- the attribute list the nolibxml importer's next_attr loop reads from the text new_prop wrote for `a` -/
def rescanAttrs (a : AttrL) : AttrL := scanAttrs (a.length + 1) (renderAttrs a)

def rescan (d : Doc) : Doc := { root := rescanAttrs d.root, els := d.els.map (fun e => (e.1, rescanAttrs e.2)) }

end Hw.XmlDiff
