/-
  Hw.Io.CalcAttr — hwloc-calc with the options that read CPU kinds and memory attributes
  (utils/hwloc/hwloc-calc.c: `--cpukind <n>` / `--cpukind <name>=<value>` in the first option loop and the code after
  `hwloc_topology_restrict`; `--default-nodes`, `--local-memory`, `--local-memory-flags <f>`, `--best-memattr <a>[,default][,strict]`
  in the second loop; the `cpukind` / `memorytier` pseudo levels of `-N` / `-I`; `hwloc_calc_output`;
  utils/hwloc/misc.h: `hwloc_utils_parse_flags`, `hwloc_utils_parse_local_numanode_flags`, `hwloc_utils_parse_best_node_flags`,
  `hwloc_utils_parse_memattr_name`, `hwloc_utils__update_best_node`, `hwloc_utils_get_best_node_in_array_by_memattr`).

  `Extra` is what the harness reads through the public API on the topology the tool loads (`hwloc_cpukinds_get_nr/get_info`,
  `hwloc_memattr_get_name/get_flags/get_value/get_initiators`); the NUMA level, the local-node selection and the default nodeset
  come from the C14 model (`Hw.MemAttrs.localNodes`, `Hw.MemAttrs.defaultNodeset`) over the `Dump`.

  The order inside `hwloc_calc_output` is: (1) cpuset &= cpukind cpuset, (2) --no-smt, (3) nodeset &= default nodeset, (4) --single,
  then the first of: --largest, -N cpukind, -I cpukind, -N memorytier, -I memorytier, -N level, -I level, -H, --local-memory, plain set.
  (1) and (3) touch different accumulators than what lies between them, so `outputX` applies both first and hands the rest to
  `Hw.Calc.output` (the pseudo levels need the cpuset after (2) and (4): `finalCpuset`).
-/
import Hw.Io.Calc
import Hw.Attr.MemAttrs
namespace Hw.Calc
open Hw Hw.Topo

/-! ### what the harness reads through the public API -/

structure XKind where
  cpuset : Nat
  eff : Int
  infos : List (Bytes × Bytes)
deriving Repr, DecidableEq, Inhabited

inductive XInit
  | cpuset (m : Nat)
  | obj (type gp : Nat)
deriving Repr, DecidableEq, Inhabited

/-- one memory attribute: `values` = (NUMA node gp_index, `hwloc_memattr_get_value(id, node, NULL)`) where that call succeeds,
    `inits` = (NUMA node gp_index, `hwloc_memattr_get_initiators(id, node)`; `none` = the call fails) -/
structure XAttr where
  name : Bytes
  flags : Nat
  values : List (Nat × Nat) := []
  inits : List (Nat × Option (List (XInit × Nat))) := []
deriving Repr, DecidableEq, Inhabited

structure Extra where
  kinds : List XKind := []
  attrs : List XAttr := []
deriving Repr, DecidableEq, Inhabited

/-! ### `--cpukind` (first option loop of main) -/

structure KSel where
  index : Option Nat := none                 -- cpukind_index (-1 = none)
  info : Option (Bytes × Bytes) := none      -- cpukind_infoname / cpukind_infovalue
deriving Repr, DecidableEq, Inhabited

/-- the argument of one `--cpukind`: `none` = "Failed to recognize" (exit), `some none` = outside the modelled `atoi` domain -/
def cpukindArg (k : KSel) (v : Bytes) : Option (Option KSel) :=
  if v.any (· == 61) then
    some (some { k with info := some (v.takeWhile (· != 61), (v.dropWhile (· != 61)).drop 1) })
  else match v.head? with
    | none => none
    | some c0 =>
      if isDigitB c0 then
        let ds := v.takeWhile isDigitB
        if ds.length ≤ 9 then some (some { k with index := some (takeDigits 10 ds 0 0).1 }) else some none
      else none

/-- the leading `--cpukind <arg>` pairs; the other topology options (`-i …`, `--restrict` are given to the harness) end the model -/
def topoLoop : KSel → List Bytes → Except Res (KSel × List Bytes)
  | k, [] => .ok (k, [])
  | k, a :: rest =>
    if a == str "--cpukind" then
      match rest with
      | [] => .error (.exit 1 (some []))
      | v :: rest' =>
        match cpukindArg k v with
        | none => .error (.exit 1 (some []))
        | some none => .error (.skip "cpukind-value")
        | some (some k') => topoLoop k' rest'
    else if isOpt topoOpts a then .error (.skip "topology-option")
    else .ok (k, a :: rest)

def kindMatches (nm vl : Bytes) (kd : XKind) : Bool := kd.infos.any (fun i => i.1 == nm && i.2 == vl)

/-- `cpukind_cpuset` after the topology is loaded (`none` = NULL: no filter) -/
def kindSet (x : Extra) (k : KSel) : Option Nat :=
  match k.index with
  | some n => some (match x.kinds[n]? with | some kd => kd.cpuset | none => 0)
  | none =>
    match k.info with
    | some (nm, vl) => some ((x.kinds.filter (kindMatches nm vl)).foldl (fun acc kd => acc ||| kd.cpuset) 0)
    | none => none

/-! ### the second option loop with the memory options -/

structure XSt where
  defaultNodes : Bool := false
  localMem : Bool := false
  localFlags : Option Bytes := none      -- last `--local-memory-flags` argument
  best : Option Bytes := none            -- last `--best-memattr` argument
deriving Repr, DecidableEq, Inhabited

def failRes (s : St) : Res := .exit 1 (if s.outKnown then some [] else none)

/-- what one argument starting with `-` does in the second option loop (non-recursive part of the loop body) -/
inductive OptK
  | stop (r : St → Res)                                  -- the run ends here
  | flag (f : St → XSt → St × XSt)                       -- option without argument
  | arg (f : St → XSt → Bytes → Option (St × XSt))       -- option with one argument (`none` = exit(EXIT_FAILURE))

def optKind (a : Bytes) : OptK :=
  if a == str "--default-nodes" then .flag (fun s xs => (s, { xs with defaultNodes := true }))
  else if a == str "--local-memory" then .flag (fun s xs => (s, { xs with localMem := true }))
  else if a == str "--local-memory-flags" then .arg (fun s xs v => some (s, { xs with localMem := true, localFlags := some v }))
  else if a == str "--best-memattr" then .arg (fun s xs v => some (s, { xs with localMem := true, best := some v }))
  else if isOpt skipOpts a then .stop (fun _ => .skip "option")
  else if startsWith a (str "--no-smt=") then
    match atoiDigits (a.drop 9) with
    | some n => .flag (fun s xs => ({ s with noSmt := some n }, xs))
    | none => .stop (fun _ => .skip "no-smt-value")
  else if isOpt flagOpts a then .flag (fun s xs => (stepFlag s a, xs))
  else if isOpt argOpts a then .arg (fun s xs v => (stepArgOpt s a v).map (fun s' => (s', xs)))
  else .stop failRes

/-- `argLoop` of Hw.Io.Calc with `--default-nodes`, `--local-memory`, `--local-memory-flags`, `--best-memattr` followed
    (`argLoopX_of_argLoop` in Hw/Io/CalcAttrRefine.lean: it agrees with `argLoop` wherever that one goes through) -/
def argLoopX (c : Ctx) : St → XSt → List Bytes → Except Res (St × XSt)
  | s, xs, [] => .ok (s, xs)
  | s, xs, a :: rest =>
    if a.head? == some 45 then
      match optKind a with
      | .stop r => .error (r s)
      | .flag f => argLoopX c (f s xs).1 (f s xs).2 rest
      | .arg f =>
        match rest with
        | [] => .error (failRes s)
        | v :: rest' =>
          match f s xs v with
          | none => .error (failRes s)
          | some p => argLoopX c p.1 p.2 rest'
    else
      match stepLoc c s a with
      | .error e => .error e
      | .ok s' => argLoopX c s' xs rest

/-! ### hwloc_utils_parse_flags -/

def upperB (c : Byte) : Byte := if 97 ≤ c ∧ c ≤ 122 then c - 32 else c

def isInfix (p s : Bytes) : Bool := (List.range (s.length + 1)).any (fun i => startsWith (s.drop i) p && decide (i + p.length ≤ s.length))

def isSepA (c : Byte) : Bool := c == 44 || c == 124 || c == 43            -- ",|+"
def isSepB (c : Byte) : Bool := c == 32 || isSepA c                        -- " ,|+"

/-- one token against the table: `none` = duplicate match (return -1), `some flags'` -/
def matchFlags (table : List (Bytes × Nat)) (tok : Bytes) (nosuffix : Bool) (flags : Nat) : Option Nat :=
  let hits := table.filter (fun e => if nosuffix then e.1.drop (e.1.length - tok.length) == tok else isInfix tok e.1)
  match hits with
  | [] => some flags
  | [e] => some (flags ||| e.2)
  | _ => none

/-- the token loop; result `none` = `(unsigned long) -1`; `Except` error = outside the model (`$` token longer than a flag name) -/
def parseFlagsLoop (table : List (Bytes × Nat)) : Nat → Bytes → Nat → Except Unit (Option Nat)
  | 0, _, flags => .ok (some flags)
  | f+1, ptr, flags =>
    let ptr := ptr.dropWhile isSepA
    let tok := ptr.takeWhile (fun c => !isSepB c)
    if tok.isEmpty then .ok (some flags) else
    let next : Option Bytes := if tok.length < ptr.length then some (ptr.drop (tok.length + 1)) else none
    let nosuffix := tok.any (· == 36)
    let tok := tok.takeWhile (· != 36)
    if nosuffix && table.any (fun e => e.1.length < tok.length) then .error () else
    match matchFlags table tok nosuffix flags with
    | none => .ok none
    | some fl =>
      if fl == flags then .ok none else
      match next with
      | none => .ok (some fl)
      | some n => parseFlagsLoop table f n fl

/-- `hwloc_utils_parse_flags`: `.ok none` = `(unsigned long)-1`, error = outside the modelled domain (`strtoul` base 0 on anything but
    a plain decimal number of at most 9 digits) -/
def parseFlags (table : List (Bytes × Nat)) (s : Bytes) : Except Unit (Option Nat) :=
  match s.head? with
  | none => .ok (some 0)                       -- "": strtoul consumes nothing, the loop ends at once
  | some c0 =>
    if isDigitB c0 then
      if s.all isDigitB && s.length ≤ 9 && (c0 != 48 || s.length == 1) then .ok (some (takeDigits 10 s 0 0).1) else .error ()
    else if c0 == 32 || c0 == 43 || c0 == 45 || (9 ≤ c0 ∧ c0 ≤ 13) || c0 ≥ 128 then .error ()
    else
      let u := s.map upperB
      if u.any (· ≥ 128) then .error () else
      if u == str "NONE" then .ok (some 0) else parseFlagsLoop table (u.length + 1) u 0

def localFlagTable : List (Bytes × Nat) :=
  [(str "HWLOC_LOCAL_NUMANODE_FLAG_LARGER_LOCALITY", 1), (str "HWLOC_LOCAL_NUMANODE_FLAG_SMALLER_LOCALITY", 2),
   (str "HWLOC_LOCAL_NUMANODE_FLAG_ALL", 4)]

/-- `local_numanode_flags` at output time (default SMALLER | LARGER); `.ok none` = ULONG_MAX -/
def localFlagsOf (xs : XSt) : Except Unit (Option Nat) :=
  match xs.localFlags with
  | none => .ok (some 3)
  | some v => parseFlags localFlagTable v

/-! ### `--best-memattr` -/

/-- remove the first occurrence of `p` from `s` (`strstr` + `memmove`) -/
def removeFirst (p : Bytes) : Nat → Bytes → Bytes × Bool
  | 0, s => (s, false)
  | f+1, s =>
    if startsWith s p && decide (p.length ≤ s.length) then (s.drop p.length, true) else
    match s with
    | [] => ([], false)
    | c :: r => let (r', b) := removeFirst p f r; (c :: r', b)

/-- `hwloc_utils_parse_best_node_flags`: (string left, DEFAULT, STRICT) -/
def parseBestFlags (s : Bytes) : Bytes × Bool × Bool :=
  let (s1, d) := removeFirst (str ",default") (s.length + 1) s
  let (s2, t) := removeFirst (str ",strict") (s1.length + 1) s1
  (s2, d, t)

/-- `hwloc_utils_parse_memattr_name`: `some none` = -1; `none` = outside the `atoi` domain -/
def parseMemattrName (x : Extra) (s : Bytes) : Option (Option Nat) :=
  match x.attrs.findIdx? (fun a => ciEq a.name s) with
  | some id => some (some id)
  | none =>
    match s.head? with
    | none => some none
    | some c0 =>
      if !isDigitB c0 then some none else
      let ds := s.takeWhile isDigitB
      if ds.length > 9 then none else
      let id := (takeDigits 10 ds 0 0).1
      some (if id < x.attrs.length then some id else none)

/-- `hwloc_utils__update_best_node` on (bestvalue, best nodeset) -/
def updBest (higher : Bool) (st : Nat × Nat) (os v : Nat) : Nat × Nat :=
  if st.2 == 0 then (v, 1 <<< os)
  else if higher then (if v > st.1 then (v, 1 <<< os) else if v == st.1 then (st.1, st.2 ||| (1 <<< os)) else st)
  else (if v < st.1 then (v, 1 <<< os) else if v == st.1 then (st.1, st.2 ||| (1 <<< os)) else st)

/-- does a stored initiator match the CPUSET location hwloc-calc passes (`cs` = its members, `inf` = it is infinite) -/
def initMatches (strict : Bool) (cs : Nat) (inf : Bool) (i : XInit) : Bool :=
  match i with
  | .obj _ _ => false
  | .cpuset m => if strict then (!inf && (cs &&& m == cs)) else (cs &&& m != 0)

/-- the need-initiator loop over the local nodes: `none` = a `hwloc_memattr_get_initiators` call failed (`goto none`) -/
def bestInitLoop (a : XAttr) (strict : Bool) (cs : Nat) (inf : Bool) : List Obj → Nat × Nat → Option (Nat × Nat)
  | [], st => some st
  | n :: rest, st =>
    match a.inits.find? (fun e => e.1 == n.gp) with
    | none => none
    | some (_, none) => none
    | some (_, some is) =>
      match is.find? (fun iv => initMatches strict cs inf iv.1) with
      | none => bestInitLoop a strict cs inf rest st
      | some iv => bestInitLoop a strict cs inf rest (updBest (a.flags.testBit 0) st n.osidx.toNat iv.2)

def bestValueLoop (a : XAttr) (nodes : List Obj) : Nat × Nat :=
  nodes.foldl (fun st n => match a.values.find? (fun e => e.1 == n.gp) with
    | none => st
    | some e => updBest (a.flags.testBit 0) st n.osidx.toNat e.2) (0, 0)

def osMask (nodes : List Obj) : Nat := nodes.foldl (fun acc n => acc ||| (1 <<< n.osidx.toNat)) 0

/-- `hwloc_utils_get_best_node_in_array_by_memattr`: the nodeset filter (`dns` = the default nodeset, flags 0) -/
def bestNodeFilter (a : XAttr) (dflt strict : Bool) (cs : Nat) (inf : Bool) (dns : Nat) (nodes : List Obj) : Nat :=
  let best : Nat := if a.flags.testBit 2 then
      match bestInitLoop a strict cs inf nodes (0, 0) with
      | none => 0
      | some st => st.2
    else (bestValueLoop a nodes).2
  if best != 0 then best
  else if dflt then
    let m := osMask (nodes.filter (fun n => dns.testBit n.osidx.toNat))
    if m != 0 then m else osMask nodes
  else 0

/-! ### the C14 environment of a dump -/

def maObj (o : Obj) : MemAttrs.Obj :=
  { type := o.type, gp := o.gp, os := if o.osidx < 0 then none else some o.osidx.toNat, cpuset := o.cpuset, effCpuset := cs o,
    mem := 0, subtype := o.subtype }

/-- the NUMA level in logical order (`hwloc_get_obj_by_type(NUMANODE, 0)` and `next_cousin`) -/
def numaObjs (d : Dump) : List Obj := cousinsFrom d (objByDepth d (-3) 0)

def envOf (d : Dump) : MemAttrs.Env :=
  { numaType := tNUMA, root := match d.rootObj? with | some r => cs r | none => 0, objs := d.objs.map maObj,
    nodes := (numaObjs d).map maObj }

/-- `hwloc_topology_get_default_nodeset(topology, set, 0)` -/
def defaultNodes (d : Dump) : Nat :=
  match MemAttrs.defaultNodeset (envOf d) 0 with
  | .ok m => m
  | .error _ => 0

/-- the location hwloc-calc hands to `hwloc_get_local_numanode_objs`: the members of the cpuset, plus one bit above every set of
    the topology when the cpuset is infinite (an infinite set is included in no node cpuset, equals none, and includes exactly the
    node cpusets its finite part includes) -/
def locMask (nw : Nat) (b : Bitmap) : Nat :=
  if b.inf then maskOf b nw ||| (1 <<< (64 * max b.count nw)) else maskOf b nw

/-- `hwloc_get_local_numanode_objs(topology, {CPUSET, cpuset}, &nrnodes, nodes, flags)` with room for every node -/
def localNumaObjs (d : Dump) (cs flags : Nat) : Option (List Obj) :=
  match MemAttrs.localNodes (envOf d) (.cpuset cs) flags (numaObjs d).length false with
  | .error _ => none
  | .ok _ => some ((numaObjs d).filter (fun o => MemAttrs.matchLocal flags cs (maObj o)))

/-! ### output -/

inductive Pseudo | cpukind | memtier
deriving Repr, DecidableEq

def pseudoOf (s : Option Bytes) : Option Pseudo :=
  match s with
  | none => none
  | some t => if ciEq (t.take 10) (str "memorytier") then some .memtier else if ciEq (t.take 7) (str "cpukind") then some .cpukind else none

structure XCfg where
  numP : Option Pseudo := none
  intP : Option Pseudo := none
  best : Option (Nat × Bool × Bool) := none       -- attribute id, DEFAULT, STRICT
deriving Repr, DecidableEq

/-- number of words that cover every set of the topology and of the extras -/
def xnw (c : Ctx) (x : Extra) : Nat :=
  let m := x.kinds.foldl (fun acc k => acc ||| k.cpuset) 0
  let m := x.attrs.foldl (fun acc a => a.inits.foldl (fun acc e => match e.2 with
    | none => acc
    | some is => is.foldl (fun acc iv => match iv.1 with | .cpuset m => acc ||| m | _ => acc) acc) acc) m
  max c.nw (m.log2 / 64 + 1)

/-- the cpuset after `--cpukind` … `--single` (steps 1, 2, 4 of hwloc_calc_output) -/
def finalCpuset (c : Ctx) (s : St) (cpuset : Bitmap) : Bitmap :=
  let cpuset := match s.noSmt with
    | none => cpuset
    | some w => if typeDepth c.d tCORE == depthUnknown then cpuset
                else if cpuset.inf then cpuset
                else ofMask (singlifyPerCore c.d (c.mask cpuset) w)
  if s.single then cpuset.singlify else cpuset

/-- the first info named `MemoryTier` of a node, through `atoi` (`none` = outside the modelled domain) -/
def memTier (o : Obj) : Option (Option Nat) :=
  match o.infos.find? (fun i => i.1 == "MemoryTier") with
  | none => some none
  | some i => let b := str i.2
              if b.all isDigitB && !b.isEmpty && b.length ≤ 4 then some (some (takeDigits 10 b 0 0).1) else none

/-- hwloc_calc_get_memtier_bitmap -/
def memTierSet (c : Ctx) (nm : Nat) : Option Nat :=
  ((numaObjs c.d).filter (fun o => intersects nm (nsOf o))).foldl (fun acc o => match acc, memTier o with
    | some m, some (some t) => some (m ||| (1 <<< t))
    | some m, some none => some m
    | _, _ => none) (some 0)

def cpusetAfterKind (k : Option Nat) (cpuset : Bitmap) : Bitmap :=
  match k with
  | none => cpuset
  | some m => cpuset.and (ofMask m)

def nodesetAfterDefault (d : Dump) (xs : XSt) (nodeset : Bitmap) : Bitmap :=
  if xs.defaultNodes then nodeset.and (ofMask (defaultNodes d)) else nodeset

/-- the `--local-memory` branch: the nodes printed (`none` = `hwloc_get_local_numanode_objs` failed: only the newline is printed) -/
def localMemNodes (c : Ctx) (x : Extra) (xcfg : XCfg) (flags : Option Nat) (cpuset : Bitmap) : Option (List Obj) :=
  let nw := xnw c x
  let csm := locMask nw cpuset
  match flags with
  | none => none                                   -- ULONG_MAX: EINVAL
  | some fl =>
    match localNumaObjs c.d csm fl with
    | none => none
    | some nodes =>
      match xcfg.best with
      | none => some nodes
      | some (id, dflt, strict) =>
        match x.attrs[id]? with
        | none => some []
        | some a =>
          let filter := bestNodeFilter a dflt strict (maskOf cpuset nw) cpuset.inf (defaultNodes c.d) nodes
          some (nodes.filter (fun n => filter.testBit n.osidx.toNat))

def idxList (s : St) (sep : Bytes) (prefix_ : Bytes) (l : List Nat) : Bytes :=
  joinSep sep (l.map (fun i => (if s.objectO then prefix_ else []) ++ decDigits i))

/-- `hwloc_calc_output` with the cpukind filter `k`, the memory options `xs` and the pseudo levels / best attribute `xcfg` -/
def outputX (c : Ctx) (x : Extra) (k : Option Nat) (s : St) (xs : XSt) (cfg : OutCfg) (xcfg : XCfg) (cpuset nodeset : Bitmap) :
    Nat × Option Bytes :=
  let cpuset1 := cpusetAfterKind k cpuset
  let nodeset1 := nodesetAfterDefault c.d xs nodeset
  let nl := str "\n"
  if s.largest then output c s cfg cpuset1 nodeset1
  else
    let fc := finalCpuset c s cpuset1
    let cm := maskOf fc (xnw c x)
    let hitKinds := (List.range x.kinds.length).filter (fun i => match x.kinds[i]? with
      | some kd => intersects cm kd.cpuset | none => false)
    if xcfg.numP == some .cpukind then (0, some (decDigits hitKinds.length ++ nl))
    else if xcfg.intP == some .cpukind then (0, some (idxList s (s.sep.getD (str ",")) (str "cpukind:") hitKinds ++ nl))
    else if xcfg.numP == some .memtier then
      match memTierSet c (c.mask nodeset1) with
      | none => (0, none)
      | some m => (0, some (decDigits (weight m) ++ nl))
    else if xcfg.intP == some .memtier then
      match memTierSet c (c.mask nodeset1) with
      | none => (0, none)
      | some m => (0, some (idxList s (s.sep.getD (str ",")) (str "MemoryTier:") (bits m) ++ nl))
    else
      let numOn := match cfg.numberOf with | some l => l.depth != depthUnknown | none => false
      let intOn := match cfg.intersect with | some l => l.depth != depthUnknown | none => false
      if numOn || intOn || !cfg.hier.isEmpty || !xs.localMem then output c s cfg cpuset1 nodeset1
      else
        match localFlagsOf xs with
        | .error _ => (0, none)
        | .ok flags =>
          if xcfg.best.isSome && decide (s.verbose > 0) then (0, none) else
          match localMemNodes c x xcfg flags fc with
          | none => (0, some nl)
          | some nodes =>
            let sep := s.sep.getD (str ",")
            let items := nodes.mapM (fun o =>
              let idx := if s.logicalO then decDigits o.lidx else decDigits o.osidx.toNat
              if s.objectO then (typeName o 0).map (fun ty => ty ++ str ":" ++ idx) else some idx)
            (0, items.map (fun it => joinSep sep it ++ nl))

/-! ### stdin mode and main -/

def lineOutX (c : Ctx) (x : Extra) (k : Option Nat) (s : St) (xs : XSt) (cfg : OutCfg) (xcfg : XCfg) (line : Bytes) : LineRes :=
  match lineFold c s line with
  | .error e => .stop e
  | .ok s1 =>
    if s1.noSmt.isSome && (cpusetAfterKind k s1.cpuset).inf then .stop (.skip "no-smt-infinite") else
    match outputX c x k s1 xs cfg xcfg s1.cpuset s1.nodeset with
    | (rc, none) => .stop (if rc == 2 then .exit 1 none else .exit 0 none)
    | (rc, some o) => if rc != 0 then .stop (.exit rc none) else .out o

def stdinLoopX (c : Ctx) (x : Extra) (k : Option Nat) (s : St) (xs : XSt) (cfg : OutCfg) (xcfg : XCfg) : List Bytes → Bytes → Res
  | [], acc => .exit 0 (some acc)
  | line :: rest, acc =>
    match lineOutX c x k s xs cfg xcfg line with
    | .stop r => r
    | .out o => stdinLoopX c x k s xs cfg xcfg rest (acc ++ o)

/-- the `--best-memattr` argument, parsed after the output levels: `none` = outside the model, `some none` = exit(EXIT_FAILURE) -/
def bestCfg (x : Extra) (xs : XSt) : Option (Option (Option (Nat × Bool × Bool))) :=
  match xs.best with
  | none => some (some none)
  | some v =>
    let (name, d, t) := parseBestFlags v
    match parseMemattrName x name with
    | none => none
    | some none => some none
    | some (some id) => some (some (some (id, d, t)))

/-- "ignoring --nodeset-output when output conversion is enabled" -/
def adjustNodesetO (s : St) (convert : Bool) : St :=
  if convert && s.nodesetO && !s.nodesetI then { s with nodesetO := false } else s

/-- the -N / -I arguments the level parser sees: the pseudo levels are recognised before it -/
def dropPseudo (s : St) : St :=
  { s with numberOf := if (pseudoOf s.numberOf).isSome then none else s.numberOf,
           intersect := if (pseudoOf s.intersect).isSome then none else s.intersect }

/-- main() after the second option loop -/
def calcTailX (c : Ctx) (x : Extra) (k : Option Nat) (s0 : St) (xs : XSt) (stdin : Bytes) : Res :=
  let s := adjustNodesetO s0 (s0.largest || s0.numberOf.isSome || s0.intersect.isSome || s0.hier.isSome || xs.localMem)
  match outCfg c.d (dropPseudo s) with
  | .unmodelled => .skip "output-level"
  | .out => failRes s
  | .ok cfg =>
    match bestCfg x xs with
    | none => .skip "memattr-name"
    | some none => failRes s
    | some (some best) =>
      let xcfg : XCfg := { numP := pseudoOf s.numberOf, intP := pseudoOf s.intersect, best := best }
      let r : Res :=
        if s.nlocs != 0 then
          if s.noSmt.isSome && (cpusetAfterKind k s.cpuset).inf then .skip "no-smt-infinite" else
          let (rc, out) := outputX c x k s xs cfg xcfg s.cpuset s.nodeset
          .exit rc (if rc == 0 then out else none)
        else
          let banner := if s.verbose ≥ 0 then str "Waiting for locations to process on stdin...\n" else []
          stdinLoopX c x k s xs cfg xcfg (linesOf stdin) banner
      if s.outKnown && (s.nlocs != 0 || decide (s.verbose ≤ 0)) then r else match r with
        | .exit rc _ => .exit rc none
        | x => x

/-- hwloc-calc's main() after `-i <input> [--if <fmt>] [--restrict <set>]` -/
def calcMainX (d : Dump) (x : Extra) (argv : List Bytes) (stdin : Bytes) : Res :=
  let c := mkCtx d
  match topoLoop {} argv with
  | .error e => e
  | .ok (ks, argv) =>
    match argLoopX c {} {} argv with
    | .error e => e
    | .ok (s, xs) => calcTailX c x (kindSet x ks) s xs stdin

end Hw.Calc
