/-
  Hw.Io.SyntheticOrder5 — the variant of `mkNode_spec` whose only hypothesis is that the resulting leaf list is
  duplicate-free (nothing is assumed about `pu`).
-/
import Hw.Io.SyntheticOrder
namespace Hw.Syn
open Hw Hw.Topo

/-- converse of `nodup_flatten'` -/
theorem nodup_flatten_conv : ∀ (LL : List (List Nat)), LL.flatten.Nodup → (∀ l ∈ LL, l.Nodup) ∧ LL.Pairwise DisjL := by
  intro LL
  induction LL with
  | nil => intro _; exact ⟨fun l hl => by simp at hl, List.Pairwise.nil⟩
  | cons l LL ih =>
    intro h
    rw [List.flatten_cons, List.nodup_append] at h
    obtain ⟨h1, h2, h3⟩ := h
    obtain ⟨i1, i2⟩ := ih h2
    refine ⟨?_, ?_⟩
    · intro l' hl'
      rcases List.mem_cons.mp hl' with hl' | hl'
      · subst hl'; exact h1
      · exact i1 l' hl'
    · rw [List.pairwise_cons]
      refine ⟨?_, i2⟩
      intro l' hl' x hx hx'
      exact h3 x hx x (List.mem_flatten.mpr ⟨l', hl', hx'⟩) rfl

/-- every kid is a `mkNode` of the rest for some state -/
theorem kidsFold_form (pu : List Nat) (rest att' : List Nat) (osf' : List (Nat → Int)) (st : Nat × Nat) : ∀ n,
    (kidsFold pu rest att' osf' n st).1.length = n ∧
    ∀ k ∈ (kidsFold pu rest att' osf' n st).1, ∃ lp' ns', k = (mkNode pu rest att' osf' (lp', ns')).1 := by
  intro n
  induction n with
  | zero => simp [kidsFold]
  | succ n ihn =>
    have hunf : kidsFold pu rest att' osf' (n + 1) st =
        kidStep pu rest att' osf' (kidsFold pu rest att' osf' n st) n := by
      unfold kidsFold
      rw [List.range_succ, List.foldl_append]; rfl
    rw [hunf]
    obtain ⟨h1, h2⟩ := ihn
    generalize kidsFold pu rest att' osf' n st = res at h1 h2
    simp only [kidStep]
    refine ⟨by simp [h1], ?_⟩
    intro k hk
    rcases List.mem_append.mp hk with hk | hk
    · exact h2 k hk
    · rw [List.mem_singleton] at hk
      exact ⟨res.2.1, res.2.2, hk⟩

/-- `assemble` without the window facts -/
theorem assemble' (rest : List Nat) (a : Nat) (ha : 1 ≤ a) (hW : 1 ≤ prodL rest) (L : List Node)
    (hlen : L.length = a)
    (hgood : ∀ k ∈ L, k.leaves.length = prodL rest ∧ k.key = minL k.leaves ∧ Ord rest k.leaves)
    (hdis : L.Pairwise DisjN) (hsort : L.Pairwise (fun x y => x.key ≤ y.key)) :
    ((L.map (·.leaves)).flatten).length = prodL (a :: rest) ∧
    (L.head?.getD {}).key = minL ((L.map (·.leaves)).flatten) ∧
    Ord (a :: rest) ((L.map (·.leaves)).flatten) := by
  have hlenW : ∀ l ∈ L.map (·.leaves), l.length = prodL rest := by
    intro l hl
    obtain ⟨k, hk, rfl⟩ := List.mem_map.mp hl
    exact (hgood k hk).1
  have hkeymem : ∀ k ∈ L, k.key ∈ k.leaves ∧ ∀ y ∈ k.leaves, k.key ≤ y := by
    intro k hk
    have hg := hgood k hk
    have hne : k.leaves ≠ [] := by
      intro h
      have := hg.1
      rw [h] at this
      simp at this
      omega
    rw [hg.2.1]
    exact minL_spec _ hne
  have hstrict : L.Pairwise (fun x y => x.key < y.key) := by
    refine List.Pairwise.imp_of_mem ?_ (hdis.and hsort)
    intro x y hx hy hxy
    have hne : x.key ≠ y.key := by
      intro he
      exact hxy.1 x.key (hkeymem x hx).1 (he ▸ (hkeymem y hy).1)
    have := hxy.2
    omega
  refine ⟨?_, ?_, ?_⟩
  · rw [length_flatten_const _ _ hlenW, List.length_map, hlen, prodL_cons]
  · cases L with
    | nil => simp at hlen; omega
    | cons k0 L' =>
      simp only [List.head?_cons, Option.getD_some]
      rw [List.pairwise_cons] at hstrict
      symm
      apply minL_unique
      · rw [List.mem_flatten]
        exact ⟨k0.leaves, List.mem_map.mpr ⟨k0, List.mem_cons_self, rfl⟩, (hkeymem k0 List.mem_cons_self).1⟩
      · intro y hy
        rw [List.mem_flatten] at hy
        obtain ⟨l, hl, hyl⟩ := hy
        obtain ⟨k, hk, rfl⟩ := List.mem_map.mp hl
        have h2 := (hkeymem k hk).2 y hyl
        rcases List.mem_cons.mp hk with hk' | hk'
        · subst hk'; exact h2
        · have := hstrict.1 k hk'; omega
  · have hblock : ∀ r (hr : r < L.length), blockOf ((L.map (·.leaves)).flatten) (prodL rest) r = L[r].leaves := by
      intro r hr
      rw [blockOf_flatten _ _ hlenW r (by simpa using hr)]
      simp
    unfold Ord
    constructor
    · intro r hr
      rw [hblock r (by omega)]
      exact (hgood L[r] (List.getElem_mem _)).2.2
    · intro r hr
      rw [hblock r (by omega), hblock (r + 1) (by omega)]
      have hg := hgood L[r] (List.getElem_mem (by omega))
      have hg' := hgood L[r + 1] (List.getElem_mem (by omega))
      rw [← hg.2.1, ← hg'.2.1]
      exact List.pairwise_iff_getElem.mp hstrict r (r + 1) (by omega) (by omega) (by omega)

/-- the order of the leaves that `mkNode` builds, from the duplicate-freeness of the result alone -/
theorem mkNode_ord_of_nodup (pu : List Nat) : ∀ (as : List Nat) (att : List Nat) (osf : List (Nat → Int)) (lp ns : Nat),
    (∀ a ∈ as, 1 ≤ a) → (mkNode pu as att osf (lp, ns)).1.leaves.Nodup →
    (mkNode pu as att osf (lp, ns)).1.leaves.length = prodL as ∧
    (mkNode pu as att osf (lp, ns)).1.key = minL (mkNode pu as att osf (lp, ns)).1.leaves ∧
    Ord as (mkNode pu as att osf (lp, ns)).1.leaves := by
  intro as
  induction as with
  | nil =>
    intro att osf lp ns _ _
    simp only [mkNode]
    refine ⟨rfl, rfl, ?_⟩
    unfold Ord; trivial
  | cons a rest ih =>
    intro att osf lp ns hpos hnd
    have ha : 1 ≤ a := hpos a List.mem_cons_self
    have hrest : ∀ x ∈ rest, 1 ≤ x := fun x hx => hpos x (List.mem_cons_of_mem _ hx)
    have hW := prodL_pos rest hrest
    rw [mkNode_cons_leaves] at hnd
    obtain ⟨n1, n2⟩ := nodup_flatten_conv _ hnd
    rw [List.pairwise_map] at n2
    obtain ⟨f1, f2⟩ := kidsFold_form pu rest (att.drop 1) (osf.drop 1) (lp, ns) a
    have hperm := sortK_perm (kidsFold pu rest (att.drop 1) (osf.drop 1) a (lp, ns)).1
    have hasm := assemble' rest a ha hW (sortK (kidsFold pu rest (att.drop 1) (osf.drop 1) a (lp, ns)).1)
      (by rw [hperm.length_eq, f1])
      (fun k hk => by
        obtain ⟨lp', ns', he⟩ := f2 k (hperm.mem_iff.mp hk)
        have hkn : k.leaves.Nodup := n1 k.leaves (List.mem_map.mpr ⟨k, hk, rfl⟩)
        subst he
        exact ih (att.drop 1) (osf.drop 1) lp' ns' hrest hkn)
      n2
      (sortK_sorted _)
    rw [mkNode_cons_leaves, mkNode_cons_key]
    exact hasm

end Hw.Syn
