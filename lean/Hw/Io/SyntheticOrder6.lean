/-
  Hw.Io.SyntheticOrder6 — the normal-children half of `sibOK` for every topology `buildTopo` returns, from `puOK` alone:
  `buildTopo f p = some t` gives `t = orderTopo ..` (`buildTopo_isOrd`), whose PU sequence is the leaf list of `mkNode`; a
  duplicate-free leaf list of `mkNode` is `Ord` (`mkNode_ord_of_nodup`).
-/
import Hw.Io.SyntheticOrder4
import Hw.Io.SyntheticOrder5
import Hw.Io.SyntheticIsOrd
namespace Hw.Syn
open Hw Hw.Topo

theorem orderTopo_sibNormal_of_puOK (rm : List MemChild) (l0 : List NLevel) (pu numa : List Nat)
    (hOK : topoOK (orderTopo rm l0 pu numa) = true) (hp : puOK (orderTopo rm l0 pu numa) = true) :
    sibNormalOK (orderTopo rm l0 pu numa) = true := by
  have h := topoOK_OK _ hOK
  obtain ⟨ls, att, osf, hpu, har⟩ := orderTopo_shape rm l0 pu numa
  have hpos := arities_pos _ h
  rw [har] at hpos
  unfold puOK at hp
  simp only [Bool.and_eq_true, decide_eq_true_eq, beq_iff_eq] at hp
  have hnd := hp.1
  rw [hpu] at hnd
  obtain ⟨_, _, s3⟩ := mkNode_ord_of_nodup pu (ls.map (·.arity)) att osf 0 0 hpos hnd
  rw [← hpu, ← har] at s3
  exact sibNormal_of_ord _ h s3

/-- every topology `buildTopo` returns lists the normal children of every object by their smallest PU os_index, as soon as
its PU os_indexes are one per PU and distinct -/
theorem buildTopo_sibNormal (f : List Nat) (p : Parsed) (t : Topo) (hb : buildTopo f p = some t)
    (hOK : topoOK t = true) (hp : puOK t = true) : sibNormalOK t = true := by
  obtain ⟨rm, ls, pu, numa, _, rfl⟩ := buildTopo_isOrd f p t hb
  exact orderTopo_sibNormal_of_puOK rm ls pu numa hOK hp

theorem build_wf_of_buildTopo (f : List Nat) (p : Parsed) (t : Topo) (hb : buildTopo f p = some t)
    (hOK : topoOK t = true) (hp : puOK t = true) (hm : memOK t = true) (hn : numaOK t = true) (hs : sibMemOK t = true) :
    WF (toDump t) :=
  build_wf t hOK hp hm hn (by rw [sibOK_split, buildTopo_sibNormal f p t hb hOK hp, hs]; rfl)

end Hw.Syn
