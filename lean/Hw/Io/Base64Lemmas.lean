/-
  Hw.Io.Base64Lemmas — facts about the base64 model: alphabet inversion, the bit arithmetic of one group, the length of
  the encoded text, and write safety of the decoder.
-/
import Hw.Io.Base64
namespace Hw.B64
open Hw

/-- the arithmetic `b64char` is the literal alphabet string of base64.c -/
theorem b64char_alphabet : ∀ i, i < 64 → b64char i = alphabet.getD i 0 := by decide

/-- `strchr(Base64, Base64[i]) - Base64 = i` -/
theorem b64index_b64char : ∀ i, i < 64 → b64index (b64char i) = some i := by decide

theorem b64char_not_space_pad : ∀ i, i < 64 → isspaceC (b64char i) = false ∧ b64char i ≠ pad64 ∧ b64char i ≠ 0 := by decide

theorem or_low2 : ∀ x, x < 64 → ∀ q, q < 4 → (x * 4) ||| q = x * 4 + q := by decide
theorem or_low4 : ∀ x, x < 16 → ∀ q, q < 16 → (x * 16) ||| q = x * 16 + q := by decide
theorem or_low6 : ∀ x, x < 4 → ∀ q, q < 64 → (x * 64) ||| q = x * 64 + q := by decide

/-- the three bytes the decoder's four states assemble from the four 6-bit values the encoder derived from `a b c` are `a b c` -/
theorem group_inverts (a b c : Nat) (ha : a < 256) (hb : b < 256) (hc : c < 256) :
    let x0 := a / 4; let x1 := (a % 4) * 16 + b / 16; let x2 := (b % 16) * 4 + c / 64; let x3 := c % 64
    x0 < 64 ∧ x1 < 64 ∧ x2 < 64 ∧ x3 < 64 ∧
    ((x0 * 4) ||| (x1 / 16)) = a ∧ (((x1 % 16) * 16) ||| (x2 / 4)) = b ∧ (((x2 % 4) * 64) ||| x3) = c := by
  intro x0 x1 x2 x3
  have h0 : x0 < 64 := by omega
  have h1 : x1 < 64 := by omega
  have h2 : x2 < 64 := by omega
  have h3 : x3 < 64 := by omega
  refine ⟨h0, h1, h2, h3, ?_, ?_, ?_⟩
  · rw [or_low2 x0 h0 (x1 / 16) (by omega)]; omega
  · rw [or_low4 (x1 % 16) (by omega) (x2 / 4) (by omega)]; omega
  · rw [or_low6 (x2 % 4) (by omega) x3 h3]; omega

/-- length of the encoded text = `BASE64_ENCODED_LENGTH(n)` -/
theorem encText_length : ∀ bs : List Nat, (encText bs).length = encodedLength bs.length
  | a :: b :: c :: rest => by
    have ih := encText_length rest
    simp only [encText, List.length_cons, ih, encodedLength]
    omega
  | [a, b] => by simp [encText, encodedLength]
  | [a] => by simp [encText, encodedLength]
  | [] => by simp [encText, encodedLength]

/-! ### the decoder never writes at or beyond `targsize` -/

/-- the target still has its `n` cells and every logged store is below `n` -/
def Tgt.Safe (n : Nat) (t : Tgt) : Prop := t.size = n ∧ ∀ w ∈ t.writes, w < n

theorem Tgt.Safe.wr {n : Nat} {t : Tgt} (h : t.Safe n) (i : Nat) (c : Nat) (hi : i < t.size) : (t.wr i c).Safe n := by
  refine ⟨by simp [Tgt.wr, Tgt.size]; exact h.1, ?_⟩
  intro w hw
  simp only [Tgt.wr, List.mem_cons] at hw
  rcases hw with e | hw
  · rw [e, ← h.1]; exact hi
  · exact h.2 w hw

theorem Tgt.size_wr (t : Tgt) (i c : Nat) : (t.wr i c).size = t.size := by simp [Tgt.wr, Tgt.size]

def DecOut.tgt : DecOut → Option Tgt
  | .err t => t
  | .eos _ _ t => t
  | .pad _ _ _ t => t

theorem decGo_safe (n : Nat) : ∀ (src : List Nat) (st ti : Nat) (t : Option Tgt),
    (∀ tg, t = some tg → tg.Safe n) → ∀ tg', (decGo src st ti t).tgt = some tg' → tg'.Safe n
  | [], st, ti, t, h, tg', e => by simp [decGo, DecOut.tgt] at e; exact h tg' e
  | ch :: r, st, ti, t, h, tg', e => by
    unfold decGo at e
    split at e
    · exact decGo_safe n r st ti t h tg' e
    · split at e
      · simp [DecOut.tgt] at e; exact h tg' e
      · split at e
        · simp [DecOut.tgt] at e; exact h tg' e
        · rename_i p _
          split at e
          · cases t with
            | none => exact decGo_safe n r 1 ti none (by intro _ e'; cases e') tg' e
            | some tg =>
              simp only at e
              split at e
              · simp [DecOut.tgt] at e; exact h tg' (congrArg some e)
              · rename_i hlt
                exact decGo_safe n r 1 ti _ (by
                  intro tg2 e2; cases e2
                  exact (h tg rfl).wr _ _ (by omega)) tg' e
          · split at e
            · cases t with
              | none => exact decGo_safe n r 2 (ti + 1) none (by intro _ e'; cases e') tg' e
              | some tg =>
                simp only at e
                split at e
                · simp [DecOut.tgt] at e; exact h tg' (congrArg some e)
                · rename_i hlt
                  exact decGo_safe n r 2 (ti + 1) _ (by
                    intro tg2 e2; cases e2
                    exact ((h tg rfl).wr _ _ (by omega)).wr _ _ (by rw [Tgt.size_wr]; omega)) tg' e
            · split at e
              · cases t with
                | none => exact decGo_safe n r 3 (ti + 1) none (by intro _ e'; cases e') tg' e
                | some tg =>
                  simp only at e
                  split at e
                  · simp [DecOut.tgt] at e; exact h tg' (congrArg some e)
                  · rename_i hlt
                    exact decGo_safe n r 3 (ti + 1) _ (by
                      intro tg2 e2; cases e2
                      exact ((h tg rfl).wr _ _ (by omega)).wr _ _ (by rw [Tgt.size_wr]; omega)) tg' e
              · cases t with
                | none => exact decGo_safe n r 0 (ti + 1) none (by intro _ e'; cases e') tg' e
                | some tg =>
                  simp only at e
                  split at e
                  · simp [DecOut.tgt] at e; exact h tg' (congrArg some e)
                  · rename_i hlt
                    exact decGo_safe n r 0 (ti + 1) _ (by
                      intro tg2 e2; cases e2
                      exact (h tg rfl).wr _ _ (by omega)) tg' e

theorem decode_tgt (src : List Nat) (t : Option Tgt) : (decode src t).2 = (decGo src 0 0 t).tgt := by
  unfold decode
  cases decGo src 0 0 t <;> rfl

/-- whatever the input and the target size, every store of the decoder is below `targsize` -/
theorem decode_writes_in_bounds (src : List Nat) (tg : Tgt) (h0 : tg.writes = []) :
    ∀ tg', (decode src (some tg)).2 = some tg' → tg'.size = tg.size ∧ ∀ w ∈ tg'.writes, w < tg.size := by
  intro tg' e
  rw [decode_tgt] at e
  exact decGo_safe tg.size src 0 0 (some tg) (by
    intro t e'; cases e'
    exact ⟨rfl, by intro w hw; rw [h0] at hw; cases hw⟩) tg' e

/-! ### decoding the encoder's output -/

set_option linter.unusedSimpArgs false

theorem rd_wr (t : Tgt) (i j c : Nat) : (t.wr i c).rd j = if j = i ∧ i < t.size then c else t.rd j := by
  unfold Tgt.rd Tgt.wr Tgt.size
  simp only [List.getD_eq_getElem?_getD, List.getElem?_set]
  by_cases h : i = j
  · subst h
    by_cases h2 : i < t.cells.length
    · simp [h2]
    · simp [h2]
  · have : ¬ j = i := fun e => h e.symm
    simp [h, this]

theorem step0 (x : Nat) (hx : x < 64) (r : List Nat) (ti : Nat) (tg : Tgt) (h : ti < tg.size) :
    decGo (b64char x :: r) 0 ti (some tg) = decGo r 1 ti (some (tg.wr ti (x * 4))) := by
  have h1 := b64char_not_space_pad x hx
  have h2 := b64index_b64char x hx
  rw [decGo]
  simp [h1.1, h1.2.1, h2, Nat.not_le.mpr h]

theorem step1 (x : Nat) (hx : x < 64) (r : List Nat) (ti : Nat) (tg : Tgt) (h : ti + 1 < tg.size) :
    decGo (b64char x :: r) 1 ti (some tg) =
      decGo r 2 (ti + 1) (some ((tg.wr ti (tg.rd ti ||| x / 16)).wr (ti + 1) ((x % 16) * 16))) := by
  have h1 := b64char_not_space_pad x hx
  have h2 := b64index_b64char x hx
  rw [decGo]
  simp [h1.1, h1.2.1, h2, Nat.not_le.mpr h]

theorem step2 (x : Nat) (hx : x < 64) (r : List Nat) (ti : Nat) (tg : Tgt) (h : ti + 1 < tg.size) :
    decGo (b64char x :: r) 2 ti (some tg) =
      decGo r 3 (ti + 1) (some ((tg.wr ti (tg.rd ti ||| x / 4)).wr (ti + 1) ((x % 4) * 64))) := by
  have h1 := b64char_not_space_pad x hx
  have h2 := b64index_b64char x hx
  rw [decGo]
  simp [h1.1, h1.2.1, h2, Nat.not_le.mpr h]

theorem step3 (x : Nat) (hx : x < 64) (r : List Nat) (ti : Nat) (tg : Tgt) (h : ti < tg.size) :
    decGo (b64char x :: r) 3 ti (some tg) = decGo r 0 (ti + 1) (some (tg.wr ti (tg.rd ti ||| x))) := by
  have h1 := b64char_not_space_pad x hx
  have h2 := b64index_b64char x hx
  rw [decGo]
  simp [h1.1, h1.2.1, h2, Nat.not_le.mpr h]

theorem stepPad (r : List Nat) (st ti : Nat) (t : Option Tgt) : decGo (pad64 :: r) st ti t = .pad r st ti t := by
  rw [decGo]
  simp [pad64, isspaceC]

/-- the post-processing of `decode` after the main loop -/
def finish : DecOut → Int × Option Tgt
  | .err t' => (-1, t')
  | .eos st ti t' => (if st ≠ 0 then -1 else (ti : Int), t')
  | .pad r st ti t' => (decTail r st ti t', t')

theorem decode_eq_finish (src : List Nat) (t : Option Tgt) : decode src t = finish (decGo src 0 0 t) := by
  unfold decode finish
  cases decGo src 0 0 t <;> rfl

theorem size_wr (t : Tgt) (i c : Nat) : (t.wr i c).size = t.size := Tgt.size_wr t i c

def t1 (tg : Tgt) (ti x : Nat) : Tgt := tg.wr ti (x * 4)
def t2 (tg : Tgt) (ti x : Nat) : Tgt := (tg.wr ti (tg.rd ti ||| x / 16)).wr (ti + 1) ((x % 16) * 16)
def t3 (tg : Tgt) (ti x : Nat) : Tgt := (tg.wr ti (tg.rd ti ||| x / 4)).wr (ti + 1) ((x % 4) * 64)
def t4 (tg : Tgt) (ti x : Nat) : Tgt := tg.wr ti (tg.rd ti ||| x)

/-- the state of the target after the decoder consumed the encoding of `bs` starting in state 0 at `tarindex = ti` -/
theorem decGo_encText : ∀ (bs : List Nat) (ti : Nat) (tg : Tgt), (∀ b ∈ bs, b < 256) → ti + bs.length + 1 ≤ tg.size →
    ∃ tg', finish (decGo (encText bs) 0 ti (some tg)) = (((ti + bs.length : Nat) : Int), some tg') ∧ tg'.size = tg.size ∧
      (∀ j, j < ti → tg'.rd j = tg.rd j) ∧ (∀ j, j < bs.length → tg'.rd (ti + j) = bs.getD j 0)
  | [], ti, tg, _, _ => by
    refine ⟨tg, ?_, rfl, fun _ _ => rfl, ?_⟩
    · simp [encText, decGo, finish]
    · intro j hj; simp at hj
  | [a], ti, tg, hb, hs => by
    have ha : a < 256 := hb a (by simp)
    simp only [List.length_singleton] at hs
    have h0 : ti < tg.size := by omega
    have h1 : ti + 1 < tg.size := by omega
    have n1 : ¬ ti = ti + 1 := by omega
    have n3 : ¬ ti + 1 = ti := by omega
    obtain ⟨hx0, hx1, _, _, ea, _, _⟩ := group_inverts a 0 0 ha (by omega) (by omega)
    have e1 : a % 4 * 16 + 0 / 16 = a % 4 * 16 := by omega
    rw [e1] at hx1 ea
    have hz : (a % 4 * 16) % 16 * 16 = 0 := by omega
    simp only [encText]
    generalize a / 4 = x0 at *
    generalize a % 4 * 16 = x1 at *
    refine ⟨t2 (t1 tg ti x0) ti x1, ?_, ?_, ?_, ?_⟩
    · rw [step0 _ hx0 _ _ _ h0, step1 _ hx1 _ _ _ (by simpa [size_wr] using h1), stepPad]
      simp [finish, decTail, pad64, isspaceC, tail3, rd_wr, size_wr, h0, h1, n1, n3, hz, t1, t2]
    · simp [size_wr, t1, t2]
    · intro j hj
      have : ¬ j = ti := by omega
      have : ¬ j = ti + 1 := by omega
      simp [rd_wr, t1, t2, *]
    · intro j hj
      have : j = 0 := by simp at hj; omega
      subst this
      simp [rd_wr, size_wr, h0, h1, n1, n3, ea, t1, t2]
  | [a, b], ti, tg, hb, hs => by
    have ha : a < 256 := hb a (by simp)
    have hb' : b < 256 := hb b (by simp)
    simp only [List.length_cons, List.length_nil] at hs
    have h0 : ti < tg.size := by omega
    have h1 : ti + 1 < tg.size := by omega
    have h2 : ti + 1 + 1 < tg.size := by omega
    have n1 : ¬ ti = ti + 1 := by omega
    have n2 : ¬ ti = ti + 1 + 1 := by omega
    have n3 : ¬ ti + 1 = ti := by omega
    have n4 : ¬ ti + 1 = ti + 1 + 1 := by omega
    have n5 : ¬ ti + 1 + 1 = ti := by omega
    have n6 : ¬ ti + 1 + 1 = ti + 1 := by omega
    obtain ⟨hx0, hx1, hx2, _, ea, eb, _⟩ := group_inverts a b 0 ha hb' (by omega)
    have e2 : b % 16 * 4 + 0 / 64 = b % 16 * 4 := by omega
    rw [e2] at hx2 eb
    have hz : (b % 16 * 4) % 4 * 64 = 0 := by omega
    simp only [encText]
    generalize a / 4 = x0 at *
    generalize a % 4 * 16 + b / 16 = x1 at *
    generalize b % 16 * 4 = x2 at *
    refine ⟨t3 (t2 (t1 tg ti x0) ti x1) (ti + 1) x2, ?_, ?_, ?_, ?_⟩
    · rw [step0 _ hx0 _ _ _ h0, step1 _ hx1 _ _ _ (by simpa [size_wr] using h1),
        step2 _ hx2 _ _ _ (by simpa [size_wr] using h2), stepPad]
      simp [finish, decTail, tail3, rd_wr, size_wr, h0, h1, h2, n1, n2, n3, n4, n5, n6, hz, t1, t2, t3]
      try omega
    · simp [size_wr, t1, t2, t3]
    · intro j hj
      have : ¬ j = ti := by omega
      have : ¬ j = ti + 1 := by omega
      have : ¬ j = ti + 1 + 1 := by omega
      simp [rd_wr, t1, t2, t3, *]
    · intro j hj
      have : j = 0 ∨ j = 1 := by simp at hj; omega
      rcases this with e | e <;> subst e
      · simp [rd_wr, size_wr, h0, h1, h2, n1, n2, n3, n4, n5, n6, ea, t1, t2, t3]
      · simp [rd_wr, size_wr, h0, h1, h2, n1, n2, n3, n4, n5, n6, eb, t1, t2, t3]
  | a :: b :: c :: rest, ti, tg, hb, hs => by
    have ha : a < 256 := hb a (by simp)
    have hb' : b < 256 := hb b (by simp)
    have hc : c < 256 := hb c (by simp)
    have hrest : ∀ x ∈ rest, x < 256 := fun x hx => hb x (by simp [hx])
    simp only [List.length_cons] at hs
    have h0 : ti < tg.size := by omega
    have h1 : ti + 1 < tg.size := by omega
    have h2 : ti + 1 + 1 < tg.size := by omega
    have n1 : ¬ ti = ti + 1 := by omega
    have n2 : ¬ ti = ti + 1 + 1 := by omega
    have n3 : ¬ ti + 1 = ti := by omega
    have n4 : ¬ ti + 1 = ti + 1 + 1 := by omega
    have n5 : ¬ ti + 1 + 1 = ti := by omega
    have n6 : ¬ ti + 1 + 1 = ti + 1 := by omega
    obtain ⟨hx0, hx1, hx2, hx3, ea, eb, ec⟩ := group_inverts a b c ha hb' hc
    have hget : ∀ j, (a :: b :: c :: rest).getD (j + 3) 0 = rest.getD j 0 := by intro j; simp
    have hg0 : (a :: b :: c :: rest).getD 0 0 = a := by simp
    have hg1 : (a :: b :: c :: rest).getD 1 0 = b := by simp
    have hg2 : (a :: b :: c :: rest).getD 2 0 = c := by simp
    simp only [encText, List.length_cons]
    generalize a / 4 = x0 at *
    generalize a % 4 * 16 + b / 16 = x1 at *
    generalize b % 16 * 4 + c / 64 = x2 at *
    generalize c % 64 = x3 at *
    obtain ⟨tg', hfin, hsz, hlow, hval⟩ := decGo_encText rest (ti + 3)
      (t4 (t3 (t2 (t1 tg ti x0) ti x1) (ti + 1) x2) (ti + 1 + 1) x3)
      hrest (by simp [size_wr, t1, t2, t3, t4]; omega)
    refine ⟨tg', ?_, ?_, ?_, ?_⟩
    · rw [step0 _ hx0 _ _ _ h0, step1 _ hx1 _ _ _ (by simpa [size_wr] using h1),
        step2 _ hx2 _ _ _ (by simpa [size_wr] using h2), step3 _ hx3 _ _ _ (by simpa [size_wr] using h2)]
      show finish (decGo (encText rest) 0 (ti + 1 + 1 + 1) (some (t4 (t3 (t2 (t1 tg ti x0) ti x1) (ti + 1) x2) (ti + 1 + 1) x3))) = _
      rw [show ti + 1 + 1 + 1 = ti + 3 from rfl, hfin]
      congr 2
      omega
    · rw [hsz]; simp [size_wr, t1, t2, t3, t4]
    · intro j hj
      rw [hlow j (by omega)]
      have : ¬ j = ti := by omega
      have : ¬ j = ti + 1 := by omega
      have : ¬ j = ti + 1 + 1 := by omega
      simp [rd_wr, t1, t2, t3, t4, *]
    · intro j hj
      by_cases hj3 : j < 3
      · have hjj : j = 0 ∨ j = 1 ∨ j = 2 := by omega
        rw [hlow (ti + j) (by omega)]
        rcases hjj with e | e | e <;> subst e
        · rw [hg0]; simp [rd_wr, size_wr, t1, t2, t3, t4, h0, h1, h2, n1, n2, n3, n4, n5, n6, ea]
        · rw [hg1]; simp [rd_wr, size_wr, t1, t2, t3, t4, h0, h1, h2, n1, n2, n3, n4, n5, n6, eb]
        · rw [hg2]; simp [rd_wr, size_wr, t1, t2, t3, t4, h0, h1, h2, n1, n2, n3, n4, n5, n6, ec]
      · have := hval (j - 3) (by omega)
        have e : ti + 3 + (j - 3) = ti + j := by omega
        rw [e] at this
        rw [this, ← hget (j - 3)]
        congr 1
        omega

theorem take_eq_of_rd (cells bs : List Nat) (h : bs.length ≤ cells.length)
    (hv : ∀ j, j < bs.length → cells.getD j 0 = bs.getD j 0) : cells.take bs.length = bs := by
  apply List.ext_getElem
  · simp; omega
  · intro i h1 h2
    have hi : i < bs.length := by simpa using h2
    have := hv i hi
    simp only [List.getD_eq_getElem?_getD] at this
    rw [List.getElem?_eq_getElem (by omega), List.getElem?_eq_getElem hi] at this
    simpa using this

/-- P0 `base64_roundtrip`: decoding the encoder's text into any target of at least `n + 1` bytes (what the XML importer passes)
    returns `n`, leaves the `n` original bytes at the start of the target, and keeps the target's size -/
theorem decode_encText (bs : List Nat) (tg : Tgt) (hb : ∀ b ∈ bs, b < 256) (hs : bs.length + 1 ≤ tg.size) :
    ∃ tg', decode (encText bs) (some tg) = ((bs.length : Int), some tg') ∧ tg'.size = tg.size ∧
      tg'.cells.take bs.length = bs := by
  obtain ⟨tg', h1, h2, _, h4⟩ := decGo_encText bs 0 tg hb (by omega)
  refine ⟨tg', ?_, h2, ?_⟩
  · rw [decode_eq_finish, h1]; simp
  · apply take_eq_of_rd
    · have : tg'.cells.length = tg.cells.length := h2
      have : tg.cells.length = tg.size := rfl
      omega
    · intro j hj
      have := h4 j hj
      simpa [Tgt.rd] using this

/-! ### the encoder on a large enough target -/

theorem writes_wr (t : Tgt) (i c : Nat) : (t.wr i c).writes = i :: t.writes := rfl

/-- the encoder loops on a large enough target: `datalength` advances by the encoded length, the text is stored at
    `dl ..`, nothing below `dl` is touched, and exactly one store is made per character -/
theorem encGo_spec : ∀ (bs : List Nat) (dl : Nat) (t : Tgt), dl + encodedLength bs.length ≤ t.size →
    ∃ t', encGo bs dl t = (true, dl + encodedLength bs.length, t') ∧ t'.size = t.size ∧
      (∀ j, j < dl → t'.rd j = t.rd j) ∧ (∀ j, j < encodedLength bs.length → t'.rd (dl + j) = (encText bs).getD j 0) ∧
      t'.writes.length = t.writes.length + encodedLength bs.length
  | [], dl, t, _ => ⟨t, by simp [encGo, encodedLength], rfl, fun _ _ => rfl, by simp [encodedLength], by simp [encodedLength]⟩
  | [a], dl, t, h => by
    have e : encodedLength [a].length = 4 := by simp [encodedLength]
    rw [e] at h ⊢
    have h0 : dl < t.size := by omega
    have h1 : dl + 1 < t.size := by omega
    have h2 : dl + 2 < t.size := by omega
    have h3 : dl + 3 < t.size := by omega
    refine ⟨_, by simp [encGo, Nat.not_lt.mpr h]; rfl, by simp [size_wr], ?_, ?_, by simp [writes_wr]⟩
    · intro j hj
      have : ¬ j = dl := by omega
      have : ¬ j = dl + 1 := by omega
      have : ¬ j = dl + 2 := by omega
      have : ¬ j = dl + 3 := by omega
      simp [rd_wr, *]
    · intro j hj
      have : j = 0 ∨ j = 1 ∨ j = 2 ∨ j = 3 := by omega
      rcases this with e | e | e | e <;> subst e <;> simp [rd_wr, size_wr, encText, h0, h1, h2, h3]
  | [a, b], dl, t, h => by
    have e : encodedLength [a, b].length = 4 := by simp [encodedLength]
    rw [e] at h ⊢
    have h0 : dl < t.size := by omega
    have h1 : dl + 1 < t.size := by omega
    have h2 : dl + 2 < t.size := by omega
    have h3 : dl + 3 < t.size := by omega
    refine ⟨_, by simp [encGo, Nat.not_lt.mpr h]; rfl, by simp [size_wr], ?_, ?_, by simp [writes_wr]⟩
    · intro j hj
      have : ¬ j = dl := by omega
      have : ¬ j = dl + 1 := by omega
      have : ¬ j = dl + 2 := by omega
      have : ¬ j = dl + 3 := by omega
      simp [rd_wr, *]
    · intro j hj
      have : j = 0 ∨ j = 1 ∨ j = 2 ∨ j = 3 := by omega
      rcases this with e | e | e | e <;> subst e <;> simp [rd_wr, size_wr, encText, h0, h1, h2, h3]
  | a :: b :: c :: rest, dl, t, h => by
    have e : encodedLength (a :: b :: c :: rest).length = 4 + encodedLength rest.length := by
      simp [encodedLength]; omega
    rw [e] at h ⊢
    have h0 : dl < t.size := by omega
    have h1 : dl + 1 < t.size := by omega
    have h2 : dl + 2 < t.size := by omega
    have h3 : dl + 3 < t.size := by omega
    obtain ⟨t', hgo, hsz, hlow, hval, hw⟩ := encGo_spec rest (dl + 4)
      ((((t.wr dl (b64char (a / 4))).wr (dl + 1) (b64char ((a % 4) * 16 + b / 16))).wr (dl + 2)
        (b64char ((b % 16) * 4 + c / 64))).wr (dl + 3) (b64char (c % 64))) (by simp [size_wr]; omega)
    refine ⟨t', ?_, by rw [hsz]; simp [size_wr], ?_, ?_, ?_⟩
    · rw [encGo]
      simp only [Nat.not_lt.mpr (show dl + 4 ≤ t.size by omega), if_false]
      rw [hgo]
      congr 2
      omega
    · intro j hj
      rw [hlow j (by omega)]
      have : ¬ j = dl := by omega
      have : ¬ j = dl + 1 := by omega
      have : ¬ j = dl + 2 := by omega
      have : ¬ j = dl + 3 := by omega
      simp [rd_wr, *]
    · intro j hj
      by_cases hj4 : j < 4
      · rw [hlow (dl + j) (by omega)]
        have : j = 0 ∨ j = 1 ∨ j = 2 ∨ j = 3 := by omega
        rcases this with e | e | e | e <;> subst e <;> simp [rd_wr, size_wr, encText, h0, h1, h2, h3]
      · have := hval (j - 4) (by omega)
        have e2 : dl + 4 + (j - 4) = dl + j := by omega
        rw [e2] at this
        rw [this]
        have : j = (j - 4) + 4 := by omega
        rw [this]
        simp [encText]
    · rw [hw]; simp [writes_wr]; omega

/-- P0: on a target of `4*((n+2)/3) + 1` bytes or more the encoder succeeds, returns `4*((n+2)/3)`, stores the text followed by a
    NUL, and performs exactly `4*((n+2)/3) + 1` stores; on a smaller target it returns −1 -/
theorem encode_spec (bs : List Nat) (t : Tgt) (h0 : t.writes = []) (h : encodedLength bs.length + 1 ≤ t.size) :
    ∃ t', encode bs t = ((encodedLength bs.length : Int), t') ∧ t'.size = t.size ∧
      t'.cells.take (encodedLength bs.length + 1) = encText bs ++ [0] ∧ t'.writes.length = encodedLength bs.length + 1 := by
  obtain ⟨t1, hgo, hsz, _, hval, hw⟩ := encGo_spec bs 0 t (by omega)
  refine ⟨t1.wr (encodedLength bs.length) 0, ?_, by simp [size_wr, hsz], ?_, by simp [writes_wr, hw, h0]⟩
  · unfold encode
    rw [hgo]
    simp only [Nat.zero_add]
    rw [if_neg (by omega)]
  · have hlen : (encText bs ++ [0]).length = encodedLength bs.length + 1 := by simp [encText_length]
    rw [← hlen]
    apply take_eq_of_rd
    · rw [hlen]
      have : (t1.wr (encodedLength bs.length) 0).cells.length = t.size := by
        have := size_wr t1 (encodedLength bs.length) 0
        unfold Tgt.size at this hsz ⊢; omega
      omega
    · intro j hj
      rw [hlen] at hj
      have hsz1 : encodedLength bs.length < t1.size := by omega
      by_cases hjl : j < encodedLength bs.length
      · have := hval j hjl
        rw [Nat.zero_add] at this
        have hne : ¬ j = encodedLength bs.length := by omega
        have h2 : (t1.wr (encodedLength bs.length) 0).rd j = t1.rd j := by simp [rd_wr, hne]
        have h3 : (encText bs ++ [0]).getD j 0 = (encText bs).getD j 0 := by
          simp only [List.getD_eq_getElem?_getD]
          rw [List.getElem?_append_left (by rw [encText_length]; exact hjl)]
        show (t1.wr (encodedLength bs.length) 0).rd j = _
        rw [h2, this, h3]
      · have : j = encodedLength bs.length := by omega
        subst this
        show (t1.wr (encodedLength bs.length) 0).rd _ = _
        have h3 : (encText bs ++ [0]).getD (encodedLength bs.length) 0 = 0 := by
          simp only [List.getD_eq_getElem?_getD]
          rw [List.getElem?_append_right (by rw [encText_length]; omega)]
          simp [encText_length]
        rw [h3]
        simp [rd_wr, hsz1]

/-- encode then decode: the text stored by the encoder (without its NUL), fed to the decoder with a target of `n + 1` bytes or
    more, gives the original bytes back -/
theorem decode_encode (bs : List Nat) (hb : ∀ b ∈ bs, b < 256) (t tg : Tgt) (h0 : t.writes = [])
    (ht : encodedLength bs.length + 1 ≤ t.size) (hs : bs.length + 1 ≤ tg.size) :
    ∃ t' tg', encode bs t = ((encodedLength bs.length : Int), t') ∧
      decode (t'.cells.take (encodedLength bs.length)) (some tg) = ((bs.length : Int), some tg') ∧
      tg'.cells.take bs.length = bs := by
  obtain ⟨t', he, _, htake, _⟩ := encode_spec bs t h0 ht
  obtain ⟨tg', hd, _, hbs⟩ := decode_encText bs tg hb hs
  refine ⟨t', tg', he, ?_, hbs⟩
  have : t'.cells.take (encodedLength bs.length) = encText bs := by
    have := congrArg (List.take (encodedLength bs.length)) htake
    rw [List.take_take, Nat.min_eq_left (by omega)] at this
    rw [this, List.take_append_of_le_length (by rw [encText_length]; omega)]
    rw [List.take_of_length_le (by rw [encText_length]; omega)]
  rw [this, hd]

end Hw.B64
