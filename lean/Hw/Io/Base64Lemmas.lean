/-
  Hw.Io.Base64Lemmas — facts about the base64 model: alphabet inversion, the bit arithmetic of one group, the length of
  the encoded text, and write safety of the decoder.
-/
import Hw.Io.Base64
namespace Hw.B64
open Hw

/-- the arithmetic `b64char` is the literal alphabet string of base64.c -/
theorem b64char_alphabet : ∀ i, i < 64 → b64char i = alphabet.getD i 0 := by decide

/-- `strchr(Base64, Base64[i]) - Base64 = i` -/
theorem b64index_b64char : ∀ i, i < 64 → b64index (b64char i) = some i := by decide

theorem b64char_not_space_pad : ∀ i, i < 64 → isspaceC (b64char i) = false ∧ b64char i ≠ pad64 ∧ b64char i ≠ 0 := by decide

theorem or_low2 : ∀ x, x < 64 → ∀ q, q < 4 → (x * 4) ||| q = x * 4 + q := by decide
theorem or_low4 : ∀ x, x < 16 → ∀ q, q < 16 → (x * 16) ||| q = x * 16 + q := by decide
theorem or_low6 : ∀ x, x < 4 → ∀ q, q < 64 → (x * 64) ||| q = x * 64 + q := by decide

/-- the three bytes the decoder's four states assemble from the four 6-bit values the encoder derived from `a b c` are `a b c` -/
theorem group_inverts (a b c : Nat) (ha : a < 256) (hb : b < 256) (hc : c < 256) :
    let x0 := a / 4; let x1 := (a % 4) * 16 + b / 16; let x2 := (b % 16) * 4 + c / 64; let x3 := c % 64
    x0 < 64 ∧ x1 < 64 ∧ x2 < 64 ∧ x3 < 64 ∧
    ((x0 * 4) ||| (x1 / 16)) = a ∧ (((x1 % 16) * 16) ||| (x2 / 4)) = b ∧ (((x2 % 4) * 64) ||| x3) = c := by
  intro x0 x1 x2 x3
  have h0 : x0 < 64 := by omega
  have h1 : x1 < 64 := by omega
  have h2 : x2 < 64 := by omega
  have h3 : x3 < 64 := by omega
  refine ⟨h0, h1, h2, h3, ?_, ?_, ?_⟩
  · rw [or_low2 x0 h0 (x1 / 16) (by omega)]; omega
  · rw [or_low4 (x1 % 16) (by omega) (x2 / 4) (by omega)]; omega
  · rw [or_low6 (x2 % 4) (by omega) x3 h3]; omega

/-- length of the encoded text = `BASE64_ENCODED_LENGTH(n)` -/
theorem encText_length : ∀ bs : List Nat, (encText bs).length = encodedLength bs.length
  | a :: b :: c :: rest => by
    have ih := encText_length rest
    simp only [encText, List.length_cons, ih, encodedLength]
    omega
  | [a, b] => by simp [encText, encodedLength]
  | [a] => by simp [encText, encodedLength]
  | [] => by simp [encText, encodedLength]

/-! ### the decoder never writes at or beyond `targsize` -/

/-- the target still has its `n` cells and every logged store is below `n` -/
def Tgt.Safe (n : Nat) (t : Tgt) : Prop := t.size = n ∧ ∀ w ∈ t.writes, w < n

theorem Tgt.Safe.wr {n : Nat} {t : Tgt} (h : t.Safe n) (i : Nat) (c : Nat) (hi : i < t.size) : (t.wr i c).Safe n := by
  refine ⟨by simp [Tgt.wr, Tgt.size]; exact h.1, ?_⟩
  intro w hw
  simp only [Tgt.wr, List.mem_cons] at hw
  rcases hw with e | hw
  · rw [e, ← h.1]; exact hi
  · exact h.2 w hw

theorem Tgt.size_wr (t : Tgt) (i c : Nat) : (t.wr i c).size = t.size := by simp [Tgt.wr, Tgt.size]

def DecOut.tgt : DecOut → Option Tgt
  | .err t => t
  | .eos _ _ t => t
  | .pad _ _ _ t => t

theorem decGo_safe (n : Nat) : ∀ (src : List Nat) (st ti : Nat) (t : Option Tgt),
    (∀ tg, t = some tg → tg.Safe n) → ∀ tg', (decGo src st ti t).tgt = some tg' → tg'.Safe n
  | [], st, ti, t, h, tg', e => by simp [decGo, DecOut.tgt] at e; exact h tg' e
  | ch :: r, st, ti, t, h, tg', e => by
    unfold decGo at e
    split at e
    · exact decGo_safe n r st ti t h tg' e
    · split at e
      · simp [DecOut.tgt] at e; exact h tg' e
      · split at e
        · simp [DecOut.tgt] at e; exact h tg' e
        · rename_i p _
          split at e
          · cases t with
            | none => exact decGo_safe n r 1 ti none (by intro _ e'; cases e') tg' e
            | some tg =>
              simp only at e
              split at e
              · simp [DecOut.tgt] at e; exact h tg' (congrArg some e)
              · rename_i hlt
                exact decGo_safe n r 1 ti _ (by
                  intro tg2 e2; cases e2
                  exact (h tg rfl).wr _ _ (by omega)) tg' e
          · split at e
            · cases t with
              | none => exact decGo_safe n r 2 (ti + 1) none (by intro _ e'; cases e') tg' e
              | some tg =>
                simp only at e
                split at e
                · simp [DecOut.tgt] at e; exact h tg' (congrArg some e)
                · rename_i hlt
                  exact decGo_safe n r 2 (ti + 1) _ (by
                    intro tg2 e2; cases e2
                    exact ((h tg rfl).wr _ _ (by omega)).wr _ _ (by rw [Tgt.size_wr]; omega)) tg' e
            · split at e
              · cases t with
                | none => exact decGo_safe n r 3 (ti + 1) none (by intro _ e'; cases e') tg' e
                | some tg =>
                  simp only at e
                  split at e
                  · simp [DecOut.tgt] at e; exact h tg' (congrArg some e)
                  · rename_i hlt
                    exact decGo_safe n r 3 (ti + 1) _ (by
                      intro tg2 e2; cases e2
                      exact ((h tg rfl).wr _ _ (by omega)).wr _ _ (by rw [Tgt.size_wr]; omega)) tg' e
              · cases t with
                | none => exact decGo_safe n r 0 (ti + 1) none (by intro _ e'; cases e') tg' e
                | some tg =>
                  simp only at e
                  split at e
                  · simp [DecOut.tgt] at e; exact h tg' (congrArg some e)
                  · rename_i hlt
                    exact decGo_safe n r 0 (ti + 1) _ (by
                      intro tg2 e2; cases e2
                      exact (h tg rfl).wr _ _ (by omega)) tg' e

theorem decode_tgt (src : List Nat) (t : Option Tgt) : (decode src t).2 = (decGo src 0 0 t).tgt := by
  unfold decode
  cases decGo src 0 0 t <;> rfl

/-- whatever the input and the target size, every store of the decoder is below `targsize` -/
theorem decode_writes_in_bounds (src : List Nat) (tg : Tgt) (h0 : tg.writes = []) :
    ∀ tg', (decode src (some tg)).2 = some tg' → tg'.size = tg.size ∧ ∀ w ∈ tg'.writes, w < tg.size := by
  intro tg' e
  rw [decode_tgt] at e
  exact decGo_safe tg.size src 0 0 (some tg) (by
    intro t e'; cases e'
    exact ⟨rfl, by intro w hw; rw [h0] at hw; cases hw⟩) tg' e

end Hw.B64
