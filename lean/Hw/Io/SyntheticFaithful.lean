/-
  Hw.Io.SyntheticFaithful — parse_faithful: a description printed from an abstract level list in the canonical
  syntax of hwloc_topology_export_synthetic (type names as exported, decimal arities, single spaces) is parsed
  back into exactly the types and arities written (plus the implicit NUMA level when none is written).
-/
import Hw.Io.SyntheticLemmas
namespace Hw.Syn
open Hw Hw.Topo

/-- a type name in its exported spelling and what hwloc_type_sscanf makes of it -/
structure TName where
  text : Bytes
  res : TypeRes
deriving DecidableEq

def canonNames : List TName := [
  ⟨str "Package", { type := tPACKAGE }⟩, ⟨str "Die", { type := tDIE }⟩, ⟨str "Core", { type := tCORE }⟩,
  ⟨str "PU", { type := tPU }⟩, ⟨str "Group", { type := tGROUP }⟩, ⟨str "NUMANode", { type := tNUMA }⟩,
  ⟨str "L1dCache", { type := tL1, depth := 1, ctype := 1 }⟩, ⟨str "L1Cache", { type := tL1, depth := 1, ctype := 0 }⟩,
  ⟨str "L2Cache", { type := tL2, depth := 2, ctype := 0 }⟩, ⟨str "L2dCache", { type := tL2, depth := 2, ctype := 1 }⟩,
  ⟨str "L3Cache", { type := tL3, depth := 3, ctype := 0 }⟩, ⟨str "L3dCache", { type := tL3, depth := 3, ctype := 1 }⟩,
  ⟨str "L4Cache", { type := 8, depth := 4, ctype := 0 }⟩, ⟨str "L5Cache", { type := 9, depth := 5, ctype := 0 }⟩,
  ⟨str "L1iCache", { type := tL1I, depth := 1, ctype := 2 }⟩, ⟨str "L2iCache", { type := 11, depth := 2, ctype := 2 }⟩,
  ⟨str "L3iCache", { type := tL3I, depth := 3, ctype := 2 }⟩]

/-- the types a level may have -/
def levelTypeOk (t : Nat) : Bool := t == tPACKAGE || t == tDIE || t == tCORE || t == tPU || t == tGROUP || t == tNUMA || isCacheT t

/-- everything the parser asks about a canonical name followed by ':' -/
theorem canon_facts : ∀ nm ∈ canonNames, ∀ rest : Bytes,
    typeSscanf (nm.text ++ 58 :: rest) = some nm.res ∧
    strchr 58 (nm.text ++ 58 :: rest) = some (58 :: rest) ∧
    (∃ (c : Nat) (t : List Nat), nm.text = c :: t ∧ isAlpha c = true) ∧
    levelTypeOk nm.res.type = true ∧ disallowedLevelType nm.res.type = false := by
  intro nm hnm
  simp only [canonNames, List.mem_cons, List.not_mem_nil, or_false] at hnm
  rcases hnm with rfl | rfl | rfl | rfl | rfl | rfl | rfl | rfl | rfl | rfl | rfl | rfl | rfl | rfl | rfl | rfl | rfl
  all_goals (intro rest; exact ⟨rfl, rfl, ⟨_, _, rfl, rfl⟩, rfl, rfl⟩)

structure LSpec where
  name : TName
  arity : Nat

/-- every level preceded by one space: ` Package:2 Core:2 PU:2` -/
def printLevels : List LSpec → Bytes
  | [] => []
  | l :: rest => 32 :: (l.name.text ++ 58 :: (decDigits l.arity ++ printLevels rest))

/-- the canonical description (no leading space) -/
def printDesc (ls : List LSpec) : Bytes := (printLevels ls).drop 1

def attrOf (t : TypeRes) : Attr :=
  if isCacheT t.type then { type := t.type, depth := t.depth, ctype := t.ctype }
  else if t.type = tGROUP then { type := t.type, depth := t.depth }
  else { type := t.type }

theorem attrOf_type (t : TypeRes) : (attrOf t).type = t.type := by
  unfold attrOf; split
  · rfl
  · split <;> rfl

def mkLevel (total : Nat) (l : LSpec) : Level :=
  { arity := 0, width := total, attr := attrOf l.name.res, idx := {}, attached := [] }

def SpecOk (l : LSpec) : Prop := l.name ∈ canonNames ∧ 1 ≤ l.arity ∧ l.arity < u32

theorem printLevels_noDigitHead (ls : List LSpec) : NoDigitHead (printLevels ls) := by
  cases ls with
  | nil => exact noDigitHead_nil
  | cons l rest =>
    intro c cs h
    simp only [printLevels, List.cons.injEq] at h
    obtain ⟨rfl, _⟩ := h
    decide

theorem updLevel_last (init : List Level) (lst : Level) (f : Level → Level) :
    updLevel (init ++ [lst]) ((init ++ [lst]).length - 1) f = init ++ [f lst] := by
  unfold updLevel
  have h1 : (init ++ [lst]).length - 1 = init.length := by simp
  rw [h1]
  have h2 : (init ++ [lst])[init.length]? = some lst := by simp
  rw [h2]
  simp

theorem updLevel_last' (init : List Level) (lst : Level) (f : Level → Level) :
    updLevel (init ++ [lst]) init.length f = init ++ [f lst] := by
  have := updLevel_last init lst f
  have h1 : (init ++ [lst]).length - 1 = init.length := by simp
  rw [h1] at this; exact this

theorem lvAt_last (init : List Level) (lst : Level) : lvAt (init ++ [lst]) ((init ++ [lst]).length - 1) = lst := by
  unfold lvAt
  have h1 : (init ++ [lst]).length - 1 = init.length := by simp
  rw [h1]; simp

theorem isAlpha_range (c : Nat) (h : isAlpha c = true) : (97 ≤ c ∧ c ≤ 122) ∨ (65 ≤ c ∧ c ≤ 90) := by
  simpa [isAlpha] using h

/-- one iteration of the parsing loop on ` Name:arity` -/
theorem loopBody_level (l : LSpec) (rest : List LSpec) (init : List Level) (lst : Level) (st : Loop)
    (hl : SpecOk l) (hst : st.levels = init ++ [lst]) (hcount : st.levels.length + 1 < maxDepth)
    (hfit : l.arity ≤ ulongMax / st.total) :
    ∃ log, loopBody (printLevels (l :: rest)) st =
      .ok ({ st with levels := init ++ [{ lst with arity := l.arity }] ++ [mkLevel ((st.total * l.arity) % u64) l],
                     total := (st.total * l.arity) % u64, log := log }, some (printLevels rest)) := by
  obtain ⟨hcanon, ha1, ha2⟩ := hl
  obtain ⟨hts, hsc, ⟨c, t, htext, halpha⟩, htyok, hdis⟩ := canon_facts l.name hcanon (decDigits l.arity ++ printLevels rest)
  have hdrop : (printLevels (l :: rest)).dropWhile (fun c => c == 32 || c == 10) =
      c :: (t ++ 58 :: (decDigits l.arity ++ printLevels rest)) := by
    simp only [printLevels, htext, List.cons_append]
    rw [List.dropWhile_cons]
    simp only [beq_self_eq_true, Bool.true_or, if_true]
    rw [List.dropWhile_cons]
    have : (c == 32 || c == 10) = false := by
      have := isAlpha_range c halpha
      simp only [Bool.or_eq_false_iff, beq_eq_false_iff_ne]
      omega
    rw [this]; rfl
  have hc91 : c ≠ 91 := by
    have := isAlpha_range c halpha; omega
  have hdig : isDig c = false := by
    have := isAlpha_range c halpha
    cases hd : isDig c with
    | false => rfl
    | true =>
      have hd' : (48 : Nat) ≤ c ∧ c ≤ (57 : Nat) := by simpa [isDig] using hd
      omega
  have hpos : c :: (t ++ 58 :: (decDigits l.arity ++ printLevels rest)) = l.name.text ++ 58 :: (decDigits l.arity ++ printLevels rest) := by
    rw [htext]; rfl
  have hnum : strtoulS 0 (decDigits l.arity ++ printLevels rest) = (l.arity, printLevels rest) :=
    strtoulS0_decDigits l.arity _ (by unfold u32 at ha2; omega) (printLevels_noDigitHead rest)
  have hne : printLevels rest ≠ decDigits l.arity ++ printLevels rest := by
    intro he; have := decDigits_append_length_lt l.arity (printLevels rest); rw [← he] at this; omega
  have hnext : ∀ r, printLevels rest ≠ 40 :: r := by
    intro r h
    cases rest with
    | nil => simp [printLevels] at h
    | cons x xs => simp [printLevels] at h
  refine ⟨?_, ?_⟩
  rotate_left
  unfold loopBody
  simp only [hdrop, hc91, if_false]
  unfold levelStep
  simp only [hdig, Bool.not_false, if_true, hpos, hts, hdis, Bool.false_eq_true, if_false, hsc, List.drop_succ_cons, List.drop_zero, hnum]
  simp only [hne, if_false, show ¬ (l.arity = 0) by omega, show ¬ (l.arity > ulongMax / st.total) by omega]
  have hcnt : ¬ ((updLevel st.levels (st.levels.length - 1) (fun l => { l with arity := 0 })).length + 1 ≥ maxDepth) := by
    rw [updLevel_length]; omega
  have hbig : ¬ (l.arity > u32 - 1) := by omega
  simp only [hcnt, hbig, if_false]
  have hl : (init ++ [lst]).length - 1 = init.length := by simp
  rw [hst, updLevel_length, hl, updLevel_last', updLevel_last']
  rfl

/-- the level list after the parsing loop -/
def chain : List Level → Level → Nat → List LSpec → List Level
  | init, lst, _, [] => init ++ [lst]
  | init, lst, T, l :: rest =>
    chain (init ++ [{ lst with arity := l.arity }]) (mkLevel ((T * l.arity) % u64) l) ((T * l.arity) % u64) rest

def totalAfter : Nat → List LSpec → Nat
  | T, [] => T
  | T, l :: rest => totalAfter ((T * l.arity) % u64) rest

/-- the number of PUs written -/
def prodAr : List LSpec → Nat
  | [] => 1
  | l :: rest => l.arity * prodAr rest

theorem prodAr_pos (ls : List LSpec) (h : ∀ l ∈ ls, SpecOk l) : 1 ≤ prodAr ls := by
  induction ls with
  | nil => simp [prodAr]
  | cons l rest ih =>
    have h1 := (h l List.mem_cons_self).2.1
    have h2 := ih (fun x hx => h x (List.mem_cons_of_mem _ hx))
    simp only [prodAr]
    exact Nat.mul_le_mul h1 h2

theorem mainLoop_levels : ∀ (ls : List LSpec) (fuel : Nat) (init : List Level) (lst : Level) (st : Loop),
    ls.length < fuel → st.levels = init ++ [lst] → st.levels.length + ls.length < maxDepth → (∀ l ∈ ls, SpecOk l) →
    1 ≤ st.total → st.total * prodAr ls ≤ ulongMax →
    ∃ log, mainLoop fuel (printLevels ls) st =
      .ok { st with levels := chain init lst st.total ls, total := totalAfter st.total ls, log := log } := by
  intro ls
  induction ls with
  | nil =>
    intro fuel init lst st hf hst _ _ _ _
    refine ⟨st.log, ?_⟩
    cases fuel with
    | zero => simp at hf
    | succ f =>
      simp only [printLevels, mainLoop, chain, totalAfter]
      rw [← hst]
  | cons l rest ih =>
    intro fuel init lst st hf hst hcount hok ht1 hfit
    cases fuel with
    | zero => simp at hf
    | succ f =>
      have hrp := prodAr_pos rest (fun x hx => hok x (List.mem_cons_of_mem _ hx))
      have hla := (hok l List.mem_cons_self).2.1
      have hmul : st.total * l.arity ≤ ulongMax := by
        simp only [prodAr] at hfit
        calc st.total * l.arity = st.total * l.arity * 1 := by omega
          _ ≤ st.total * l.arity * prodAr rest := Nat.mul_le_mul_left _ hrp
          _ = st.total * (l.arity * prodAr rest) := by rw [Nat.mul_assoc]
          _ ≤ ulongMax := hfit
      have hfit1 : l.arity ≤ ulongMax / st.total := by
        rw [Nat.le_div_iff_mul_le (by omega)]; rw [Nat.mul_comm]; exact hmul
      have hmod : (st.total * l.arity) % u64 = st.total * l.arity := Nat.mod_eq_of_lt (by unfold ulongMax at hmul; unfold u64; omega)
      obtain ⟨log1, h1⟩ := loopBody_level l rest init lst st (hok l List.mem_cons_self) hst
        (by simp only [List.length_cons] at hcount; omega) hfit1
      have hrec := ih f (init ++ [{ lst with arity := l.arity }]) (mkLevel ((st.total * l.arity) % u64) l)
        { st with levels := init ++ [{ lst with arity := l.arity }] ++ [mkLevel ((st.total * l.arity) % u64) l],
                  total := (st.total * l.arity) % u64, log := log1 }
        (by simp only [List.length_cons] at hf; omega) rfl
        (by
          simp only [List.length_cons] at hcount
          rw [hst] at hcount
          simp only [List.length_append, List.length_cons, List.length_nil] at hcount ⊢
          omega)
        (fun x hx => hok x (List.mem_cons_of_mem _ hx))
        (by simp only; rw [hmod]; have := Nat.mul_le_mul ht1 hla; omega)
        (by simp only; rw [hmod]; simp only [prodAr] at hfit; rw [Nat.mul_assoc]; exact hfit)
      obtain ⟨log2, h2⟩ := hrec
      refine ⟨log2, ?_⟩
      unfold mainLoop
      have hne : printLevels (l :: rest) = 32 :: (l.name.text ++ 58 :: (decDigits l.arity ++ printLevels rest)) := rfl
      rw [hne]
      simp only
      rw [← hne, h1]
      simp only
      rw [h2]
      rfl

/-! ### after the loop: only the implicit NUMA level changes types and arities -/

/-- (type, arity) of every level -/
def sig (L : List Level) : List (Nat × Nat) := L.map (fun l => (l.attr.type, l.arity))

theorem map_updLevel {β : Type} (g : Level → β) (L : List Level) (i : Nat) (f : Level → Level)
    (h : ∀ y, L[i]? = some y → g (f y) = g y) : (updLevel L i f).map g = L.map g := by
  unfold updLevel
  split
  · rename_i y hy
    apply List.ext_getElem?
    intro j
    simp only [List.getElem?_map, List.getElem?_set]
    split
    · rename_i hij
      subst hij
      split
      · simp only [hy, Option.map_some, h y hy]
      · rename_i hlt
        have : i < L.length := (List.getElem?_eq_some_iff.1 hy).1
        exact absurd this hlt
    · rfl
  · rfl

theorem typeCount_congr (L L' : List Level) (t : Nat) (h : L'.map (·.attr.type) = L.map (·.attr.type)) :
    typeCount L' t = typeCount L t := by
  unfold typeCount
  have e : ∀ M : List Level, ((M.drop 1).filter (fun l => l.attr.type == t)).length =
      (((M.map (·.attr.type)).drop 1).filter (· == t)).length := by
    intro M
    rw [← List.map_drop, List.filter_map, List.length_map]
    rfl
  rw [e L', e L, h]

/-- number of levels of type `t` written -/
def cnt (ls : List LSpec) (t : Nat) : Nat := ((ls.map (·.name.res.type)).filter (· == t)).length

/-- what the sanity checks need -/
structure Accepts (ls : List LSpec) : Prop where
  ok : ∀ l ∈ ls, SpecOk l
  nonempty : ls ≠ []
  lastPU : ∀ l, ls.getLast? = some l → l.name.res.type = tPU
  onePU : cnt ls tPU = 1
  pack : cnt ls tPACKAGE ≤ 1
  die : cnt ls tDIE ≤ 1
  numa : cnt ls tNUMA ≤ 1
  core : cnt ls tCORE ≤ 1
  depth : ls.length ≤ 125
  fits : prodAr ls ≤ ulongMax

theorem chain_types : ∀ (ls : List LSpec) (init : List Level) (lst : Level) (T : Nat),
    (chain init lst T ls).map (·.attr.type) = init.map (·.attr.type) ++ lst.attr.type :: ls.map (·.name.res.type) := by
  intro ls
  induction ls with
  | nil => intro init lst T; simp [chain]
  | cons l rest ih =>
    intro init lst T
    simp only [chain]
    rw [ih]
    simp [mkLevel, attrOf_type]

/-- arities are those of the following level, the last one 0 -/
def nextArities : List LSpec → List Nat
  | [] => [0]
  | l :: rest => l.arity :: nextArities rest

theorem chain_arities : ∀ (ls : List LSpec) (init : List Level) (lst : Level) (T : Nat), lst.arity = 0 →
    (chain init lst T ls).map (·.arity) = init.map (·.arity) ++ nextArities ls := by
  intro ls
  induction ls with
  | nil => intro init lst T h; simp [chain, nextArities, h]
  | cons l rest ih =>
    intro init lst T _
    simp only [chain]
    rw [ih _ _ _ rfl]
    simp [nextArities]

theorem chain_length : ∀ (ls : List LSpec) (init : List Level) (lst : Level) (T : Nat),
    (chain init lst T ls).length = init.length + 1 + ls.length := by
  intro ls
  induction ls with
  | nil => intro init lst T; simp [chain]
  | cons l rest ih => intro init lst T; simp only [chain]; rw [ih]; simp; omega

/-- no `indexes=` text, nothing attached -/
def Plain (L : List Level) : Prop := ∀ x ∈ L, x.idx = {} ∧ x.attached = []

theorem chain_plain : ∀ (ls : List LSpec) (init : List Level) (lst : Level) (T : Nat),
    Plain init → lst.idx = {} ∧ lst.attached = [] → Plain (chain init lst T ls) := by
  intro ls
  induction ls with
  | nil =>
    intro init lst T hi hl x hx
    simp only [chain, List.mem_append, List.mem_singleton] at hx
    rcases hx with hx | rfl
    · exact hi x hx
    · exact hl
  | cons l rest ih =>
    intro init lst T hi hl
    simp only [chain]
    apply ih
    · intro x hx
      simp only [List.mem_append, List.mem_singleton] at hx
      rcases hx with hx | rfl
      · exact hi x hx
      · exact hl
    · exact ⟨rfl, rfl⟩

theorem typeCount_of_types (L : List Level) (tys : List Nat) (t : Nat)
    (h : L.map (·.attr.type) = tMACHINE :: tys) : typeCount L t = (tys.filter (· == t)).length := by
  unfold typeCount
  have e : ((L.drop 1).filter (fun l => l.attr.type == t)).length =
      (((L.map (·.attr.type)).drop 1).filter (· == t)).length := by
    rw [← List.map_drop, List.filter_map, List.length_map]
    rfl
  rw [e, h]
  rfl

theorem levelTypeOk_ne_none (t : Nat) (h : levelTypeOk t = true) : (t == tNONE) = false := by
  cases hb : (t == tNONE) with
  | false => rfl
  | true =>
    have : t = tNONE := by simpa using hb
    subst this
    revert h; decide

/-- the last level after the post-loop assignments -/
def puLast (z : Level) : Level := { z with arity := 0, attr := { z.attr with type := tPU } }

/-- the sanity checks pass on a level list whose types are those of an accepted description -/
theorem sanity_accepts (ls : List LSpec) (h : Accepts ls) (st : Loop) (pre : List Level) (z : Level)
    (hst : st.levels = pre ++ [z]) (hz : z.attr.type = tPU)
    (htypes : st.levels.map (·.attr.type) = tMACHINE :: ls.map (·.name.res.type)) (hnuma : st.numaNr = 0) :
    ∃ log, sanity st = .ok (pre ++ [puLast z], log) := by
  have hl : (pre ++ [z]).length - 1 = pre.length := by simp
  -- the final level list has the same types
  have htypes' : (pre ++ [puLast z]).map (·.attr.type) = tMACHINE :: ls.map (·.name.res.type) := by
    rw [← htypes, hst]
    simp [hz, puLast]
  have hcount : ∀ t, typeCount (pre ++ [puLast z]) t = cnt ls t :=
    fun t => typeCount_of_types _ _ t htypes'
  have hunset : ((((pre ++ [puLast z]).drop 1).take ((pre ++ [z]).length - 2)).filter (fun l => l.attr.type == tNONE)) = [] := by
    rw [List.filter_eq_nil_iff]
    intro x hx
    have hx1 : x ∈ (pre ++ [puLast z]).drop 1 := List.mem_of_mem_take hx
    have hx2 : x.attr.type ∈ ((pre ++ [puLast z]).drop 1).map (·.attr.type) := List.mem_map_of_mem hx1
    rw [List.map_drop, htypes'] at hx2
    simp only [List.drop_succ_cons, List.drop_zero, List.mem_map] at hx2
    obtain ⟨l, hl1, hl2⟩ := hx2
    have hok := (canon_facts l.name (h.ok l hl1).1 []).2.2.2.1
    rw [hl2] at hok
    simp [levelTypeOk_ne_none _ hok]
  have hc1 := hcount tPU; have hc2 := hcount tPACKAGE; have hc3 := hcount tDIE; have hc4 := hcount tNUMA; have hc5 := hcount tCORE
  have p1 := h.onePU; have p2 := h.pack; have p3 := h.die; have p4 := h.numa; have p5 := h.core
  have e1 : (pre ++ [({ z with arity := 0 } : Level)])[pre.length]? = some { z with arity := 0 } := by simp
  have e2 : ({ ({ z with arity := 0 } : Level) with attr := { z.attr with type := tPU } } : Level) = puLast z := rfl
  refine ⟨?_, ?_⟩
  rotate_left
  unfold sanity
  simp only [hst, hl, updLevel_last', lvAt]
  simp only [setType, updLevel_last', if_true, e2]
  simp only [e1, Option.getD_some, hz]
  simp only [show ¬ (tPU ≠ tNONE ∧ tPU ≠ tPU) by simp, if_false]
  simp only [hc1, hc2, hc3, hc4, hc5, p1, hnuma]
  simp only [show ¬ (1 = 0) by omega, show ¬ (1 > 1) by omega, show ¬ (cnt ls tPACKAGE > 1) by omega,
    show ¬ (cnt ls tDIE > 1) by omega, show ¬ (cnt ls tNUMA > 1) by omega, show ¬ (cnt ls tCORE > 1) by omega,
    ne_eq, not_true_eq_false, and_false, if_false]
  simp only [hunset, List.length_nil, not_true_eq_false, false_and, if_false]
  rfl

theorem setDefaultAttrs_type (a : Attr) (g : Int) : (setDefaultAttrs a g).1.type = a.type := by
  unfold setDefaultAttrs
  repeat' split
  all_goals rfl

theorem lvAt_plain (L : List Level) (h : Plain L) (i : Nat) : (lvAt L i).idx = {} ∧ (lvAt L i).attached = [] := by
  unfold lvAt
  cases hi : L[i]? with
  | none => exact ⟨rfl, rfl⟩
  | some y => exact h y (List.mem_of_getElem? hi)

theorem processIndexes_plain (levels : List Level) (total : Nat) : processIndexes levels {} total = (.arr none, []) := by
  unfold processIndexes
  rfl

/-- on levels without `indexes=` the defaults loop succeeds and keeps every type and arity -/
theorem defaultsLoop_plain : ∀ (is : List Nat) (st : Fin2), Plain st.levels →
    ∃ f, defaultsLoop is st = .ok f ∧ sig f.levels = sig st.levels ∧ Plain f.levels := by
  intro is
  induction is with
  | nil => intro st h; exact ⟨st, rfl, rfl, h⟩
  | cons i rest ih =>
    intro st h
    obtain ⟨hidx, hatt⟩ := lvAt_plain st.levels h i
    unfold defaultsLoop
    simp only [hidx, hatt, List.map_nil, processIndexes_plain]
    generalize hsd : setDefaultAttrs (lvAt st.levels i).attr st.gcount = ag
    obtain ⟨a, g⟩ := ag
    simp only
    have hat : a.type = (lvAt st.levels i).attr.type := by
      have := setDefaultAttrs_type (lvAt st.levels i).attr st.gcount
      rw [hsd] at this; exact this
    -- the two updates keep (type, arity) and plainness
    have hy : ∀ y, st.levels[i]? = some y → y = lvAt st.levels i := by
      intro y hy; unfold lvAt; rw [hy]; rfl
    have hsig1 : sig (updLevel st.levels i (fun l => { l with attr := a, attached := [] })) = sig st.levels := by
      unfold sig
      apply map_updLevel
      intro y hyy
      simp only [Prod.mk.injEq, and_true]
      rw [hat, ← hy y hyy]
    have hpl1 : Plain (updLevel st.levels i (fun l => { l with attr := a, attached := [] })) := by
      intro x hx
      rcases mem_updLevel _ _ _ x hx with hx | ⟨y, hyy, rfl⟩
      · exact h x hx
      · exact ⟨(h y (List.mem_of_getElem? hyy)).1, rfl⟩
    generalize updLevel st.levels i (fun l => { l with attr := a, attached := [] }) = lv1 at hsig1 hpl1
    have hsig2 : sig (updLevel lv1 i (fun l => { l with idx := { l.idx with arr := none } })) = sig lv1 := by
      unfold sig
      apply map_updLevel
      intro y _; rfl
    have hpl2 : Plain (updLevel lv1 i (fun l => { l with idx := { l.idx with arr := none } })) := by
      intro x hx
      rcases mem_updLevel _ _ _ x hx with hx | ⟨y, hyy, rfl⟩
      · exact hpl1 x hx
      · have := hpl1 y (List.mem_of_getElem? hyy)
        refine ⟨?_, this.2⟩
        simp only [this.1]
    obtain ⟨f, hf1, hf2, hf3⟩ := ih { levels := updLevel lv1 i (fun l => { l with idx := { l.idx with arr := none } }), gcount := g, log := [] ++ (i :: st.log) } hpl2
    exact ⟨f, hf1, by rw [hf2]; simp only; rw [hsig2, hsig1], hf3⟩

theorem typesAndNuma_accepts (st : Loop) (L1 : List Level) (log : Log)
    (hun : (((L1.drop 1).take (L1.length - 2)).filter (fun l => l.attr.type == tNONE)) = []) (hnuma : st.numaNr = 0) :
    (typesAndNuma st L1 log).1 = (if typeCount L1 tNUMA ≠ 0 then L1 else (insertNuma L1 L1.length).1) := by
  unfold typesAndNuma
  simp only [hun, List.length_nil, ne_eq, not_true_eq_false, if_false, hnuma, and_true]
  by_cases hc : typeCount L1 tNUMA = 0
  · simp [hc]
  · simp [hc]

theorem chain_snoc : ∀ (a : List LSpec) (l : LSpec) (init : List Level) (lst : Level) (T : Nat),
    ∃ init' T', chain init lst T (a ++ [l]) = init' ++ [mkLevel T' l] := by
  intro a
  induction a with
  | nil => intro l init lst T; exact ⟨init ++ [{ lst with arity := l.arity }], (T * l.arity) % u64, rfl⟩
  | cons x xs ih =>
    intro l init lst T
    simp only [List.cons_append, chain]
    exact ih l _ _ _

theorem printLevels_length (ls : List LSpec) : 2 * ls.length ≤ (printLevels ls).length := by
  induction ls with
  | nil => simp [printLevels]
  | cons l rest ih => simp only [printLevels, List.length_cons, List.length_append]; omega

theorem mainLoop_skip_space (f : Nat) (X : Bytes) (st : Loop) (hX : X ≠ []) :
    mainLoop (f + 1) (32 :: X) st = mainLoop (f + 1) X st := by
  have hb : loopBody (32 :: X) st = loopBody X st := by
    unfold loopBody
    simp only [List.dropWhile_cons, beq_self_eq_true, Bool.true_or, if_true]
  unfold mainLoop
  cases X with
  | nil => exact absurd rfl hX
  | cons c r => simp only [hb]

/-- the parsed levels, from the root down: types and arities (`arity` = number of children = the number written at
the next level; the last level has none) -/
def expectedTypes (ls : List LSpec) : List Nat :=
  if cnt ls tNUMA ≠ 0 then tMACHINE :: ls.map (·.name.res.type) else tMACHINE :: tNUMA :: ls.map (·.name.res.type)
def expectedArities (ls : List LSpec) : List Nat :=
  if cnt ls tNUMA ≠ 0 then nextArities ls else 1 :: nextArities ls

theorem insertNuma_sig (L : List Level) (n : Nat) (l0 : Level) (rest : List Level) (h : L = l0 :: rest) :
    (insertNuma L n).1.map (·.attr.type) = l0.attr.type :: tNUMA :: rest.map (·.attr.type) ∧
    (insertNuma L n).1.map (·.arity) = 1 :: l0.arity :: rest.map (·.arity) := by
  subst h
  simp [insertNuma]

theorem insertNuma_plain (L : List Level) (n : Nat) (h : Plain L) : Plain (insertNuma L n).1 := by
  unfold insertNuma
  split
  · rename_i l0 rest
    intro x hx
    simp only [List.mem_cons] at hx
    rcases hx with rfl | rfl | hx
    · exact h l0 List.mem_cons_self
    · exact ⟨rfl, rfl⟩
    · exact h x (List.mem_cons_of_mem _ hx)
  · exact h

/-- **parse_faithful**: a description printed in the exported syntax from a level list that passes the documented
rules (canonical type names, arities in 1..2^32-1, PU last and only there, at most one Package/Die/Core/NUMANode
level, at most 125 levels) is accepted, and the parsed levels carry exactly the types and arities written — below a
Machine root, and below an implicit NUMANode level (one node holding everything) when none is written -/
theorem parse_faithful (ls : List LSpec) (h : Accepts ls) :
    ∃ p, parse (printDesc ls) = .ok p ∧
      p.levels.map (·.attr.type) = expectedTypes ls ∧ p.levels.map (·.arity) = expectedArities ls := by
  -- shape of the text
  obtain ⟨a, lastl, hsplit⟩ : ∃ a l, ls = a ++ [l] := by
    rcases List.eq_nil_or_concat ls with hnil | ⟨a, l, hl⟩
    · exact absurd hnil h.nonempty
    · exact ⟨a, l, by rw [hl]; simp⟩
  cases hls : ls with
  | nil => exact absurd hls h.nonempty
  | cons l1 rest1 =>
  obtain ⟨_, _, ⟨c, t, htext, halpha⟩, _, _⟩ := canon_facts l1.name (h.ok l1 (by rw [hls]; exact List.mem_cons_self)).1 (decDigits l1.arity ++ printLevels rest1)
  have hX : printDesc ls = c :: (t ++ 58 :: (decDigits l1.arity ++ printLevels rest1)) := by
    rw [hls]; simp only [printDesc, printLevels, List.drop_succ_cons, List.drop_zero, htext]; rfl
  have hPL : printLevels ls = 32 :: printDesc ls := by
    rw [hX, hls]; simp only [printLevels, htext]; rfl
  have hc40 : c ≠ 40 := by have := isAlpha_range c halpha; omega
  let l0 : Level := { arity := 0, width := 1, attr := { type := tMACHINE, mem := 0, msc := 0 }, idx := {}, attached := [] }
  -- the loop
  have hlen : ls.length < (printDesc ls).length + 1 := by
    have := printLevels_length ls
    rw [hPL] at this
    simp only [List.length_cons] at this
    have : 1 ≤ ls.length := by rw [hls]; simp
    omega
  obtain ⟨log1, hm⟩ := mainLoop_levels ls ((printDesc ls).length + 1) [] l0 { levels := [l0], log := [0, 0, 0, 0, 0, 0, 0] }
    hlen rfl (by have := h.depth; simp only [List.length_cons, List.length_nil]; unfold maxDepth; omega) h.ok
    (by simp) (by simp only; rw [Nat.one_mul]; exact h.fits)
  rw [hPL, mainLoop_skip_space _ _ _ (by rw [hX]; simp)] at hm
  -- shape of the result of the loop
  have hplainL : Plain (chain [] l0 1 ls) := chain_plain ls [] l0 1 (by intro x hx; cases hx) ⟨rfl, rfl⟩
  have htypesL := chain_types ls [] l0 1
  have harL := chain_arities ls [] l0 1 rfl
  simp only [List.map_nil, List.nil_append] at htypesL harL
  obtain ⟨pre, T', hsnoc⟩ := chain_snoc a lastl [] l0 1
  rw [← hsplit] at hsnoc
  have hzPU : (mkLevel T' lastl).attr.type = tPU := by
    simp only [mkLevel, attrOf_type]
    exact h.lastPU lastl (by rw [hsplit]; simp)
  -- sanity
  obtain ⟨log2, hsan⟩ := sanity_accepts ls h
    { levels := chain [] l0 1 ls, numaNr := 0, numaIdx := {}, total := totalAfter 1 ls, log := log1 } pre (mkLevel T' lastl)
    hsnoc hzPU htypesL rfl
  -- the levels after sanity: same types, same arities, still plain
  have hL1types : (pre ++ [puLast (mkLevel T' lastl)]).map (·.attr.type) = tMACHINE :: ls.map (·.name.res.type) := by
    rw [← htypesL, hsnoc]; simp [puLast, hzPU]
  have hL1ar : (pre ++ [puLast (mkLevel T' lastl)]).map (·.arity) = nextArities ls := by
    rw [← harL, hsnoc]; simp [puLast, mkLevel]
  have hL1plain : Plain (pre ++ [puLast (mkLevel T' lastl)]) := by
    intro x hx
    simp only [List.mem_append, List.mem_singleton] at hx
    rcases hx with hx | rfl
    · exact hplainL x (by rw [hsnoc]; exact List.mem_append_left _ hx)
    · exact ⟨rfl, rfl⟩
  have hL1len : (pre ++ [puLast (mkLevel T' lastl)]).length = (chain [] l0 1 ls).length := by rw [hsnoc]; simp
  have hun : ((((pre ++ [puLast (mkLevel T' lastl)]).drop 1).take ((pre ++ [puLast (mkLevel T' lastl)]).length - 2)).filter (fun l => l.attr.type == tNONE)) = [] := by
    rw [List.filter_eq_nil_iff]
    intro x hx
    have hx1 : x ∈ (pre ++ [puLast (mkLevel T' lastl)]).drop 1 := List.mem_of_mem_take hx
    have hx2 : x.attr.type ∈ ((pre ++ [puLast (mkLevel T' lastl)]).drop 1).map (·.attr.type) := List.mem_map_of_mem hx1
    rw [List.map_drop, hL1types] at hx2
    simp only [List.drop_succ_cons, List.drop_zero, List.mem_map] at hx2
    obtain ⟨l, hl1, hl2⟩ := hx2
    have hok := (canon_facts l.name (h.ok l hl1).1 []).2.2.2.1
    rw [hl2] at hok
    simp [levelTypeOk_ne_none _ hok]
  have hcntN : typeCount (pre ++ [puLast (mkLevel T' lastl)]) tNUMA = cnt ls tNUMA := typeCount_of_types _ _ _ hL1types
  -- assemble
  rw [← hls]
  unfold parse
  simp only
  rw [hX]
  simp only [List.head?_cons, Option.some.injEq, hc40, if_false]
  rw [← hX, hm]
  simp only
  unfold finish
  rw [hsan]
  simp only
  generalize htn : typesAndNuma { levels := chain [] l0 1 ls, numaNr := 0, numaIdx := {}, total := totalAfter 1 ls, log := log1 }
    (pre ++ [puLast (mkLevel T' lastl)]) log2 = tn
  obtain ⟨lv, lg, gc⟩ := tn
  have hlv : lv = (if typeCount (pre ++ [puLast (mkLevel T' lastl)]) tNUMA ≠ 0 then (pre ++ [puLast (mkLevel T' lastl)])
      else (insertNuma (pre ++ [puLast (mkLevel T' lastl)]) (pre ++ [puLast (mkLevel T' lastl)]).length).1) := by
    have := typesAndNuma_accepts { levels := chain [] l0 1 ls, numaNr := 0, numaIdx := {}, total := totalAfter 1 ls, log := log1 }
      (pre ++ [puLast (mkLevel T' lastl)]) log2 hun rfl
    rw [htn] at this; exact this
  simp only
  -- types/arities/plainness of lv
  have hlvspec : lv.map (·.attr.type) = expectedTypes ls ∧ lv.map (·.arity) = expectedArities ls ∧ Plain lv := by
    rw [hlv, hcntN]
    unfold expectedTypes expectedArities
    by_cases hn : cnt ls tNUMA = 0
    · simp only [hn, ne_eq, not_true_eq_false, if_false]
      -- the list starts with the machine level
      cases hpre : (pre ++ [puLast (mkLevel T' lastl)]) with
      | nil => simp at hpre
      | cons m0 mrest =>
        have hs := insertNuma_sig (m0 :: mrest) (m0 :: mrest).length m0 mrest rfl
        rw [hpre] at hL1types hL1ar hL1plain
        simp only [List.map_cons, List.cons.injEq] at hL1types
        have hna : nextArities ls = m0.arity :: mrest.map (·.arity) := by rw [← hL1ar]; rfl
        refine ⟨?_, ?_, insertNuma_plain _ _ hL1plain⟩
        · rw [hs.1, hL1types.1, hL1types.2]
        · rw [hs.2, hna]
    · simp only [hn, ne_eq, not_false_eq_true, if_true]
      exact ⟨hL1types, hL1ar, hL1plain⟩
  obtain ⟨f, hf1, hf2, hf3⟩ := defaultsLoop_plain (List.range lv.length) { levels := lv, gcount := gc, log := lg } hlvspec.2.2
  rw [hf1]
  simp only [processIndexes_plain]
  refine ⟨_, rfl, ?_, ?_⟩
  · have : f.levels.map (·.attr.type) = (sig f.levels).map Prod.fst := by simp [sig]
    rw [this, hf2]; simp only [sig, List.map_map]; exact hlvspec.1
  · have : f.levels.map (·.arity) = (sig f.levels).map Prod.snd := by simp [sig]
    rw [this, hf2]; simp only [sig, List.map_map]; exact hlvspec.2.1
