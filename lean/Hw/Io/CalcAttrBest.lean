/-
  Hw.Io.CalcAttrBest — what `hwloc_utils__update_best_node` folded over the local nodes computes (`--best-memattr`, attribute
  without initiator): the best value among the nodes that have a value, and exactly the nodes that reach it (ties are kept, unlike
  `hwloc_memattr_get_best_target` of C14 which keeps the first).
-/
import Hw.Io.CalcAttr
namespace Hw.Calc
open Hw Hw.Topo

/-- `v` is at least as good as `w` -/
def asGood (higher : Bool) (v w : Nat) : Prop := if higher then w ≤ v else v ≤ w

def bestFold (higher : Bool) (st : Nat × Nat) (l : List (Nat × Nat)) : Nat × Nat :=
  l.foldl (fun st p => updBest higher st p.1 p.2) st

/-- the state after the (os_index, value) pairs `L`: best value attained, nothing better, the set = the nodes that reach it -/
structure BestInv (higher : Bool) (L : List (Nat × Nat)) (st : Nat × Nat) : Prop where
  nz : st.2 ≠ 0
  attained : ∃ p ∈ L, p.2 = st.1
  best : ∀ p ∈ L, asGood higher st.1 p.2
  set : ∀ j, st.2.testBit j = true ↔ ∃ p ∈ L, p.1 = j ∧ p.2 = st.1

theorem testBit_one_shl (os j : Nat) : (1 <<< os).testBit j = true ↔ os = j := by
  rw [Nat.one_shiftLeft, Nat.testBit_two_pow]; simp

theorem one_shl_ne_zero (os : Nat) : 1 <<< os ≠ 0 := by
  rw [Nat.one_shiftLeft]; exact Nat.ne_of_gt (Nat.two_pow_pos os)

theorem bestInv_first (higher : Bool) (os v : Nat) : BestInv higher [(os, v)] (updBest higher (0, 0) os v) := by
  have h : updBest higher (0, 0) os v = (v, 1 <<< os) := by simp [updBest]
  rw [h]
  refine ⟨one_shl_ne_zero os, ⟨(os, v), List.mem_singleton.mpr rfl, rfl⟩, ?_, ?_⟩
  · intro p hp; rw [List.mem_singleton.mp hp]; unfold asGood; split <;> exact Nat.le_refl _
  · intro j
    rw [testBit_one_shl]
    constructor
    · intro h; exact ⟨(os, v), List.mem_singleton.mpr rfl, h, rfl⟩
    · rintro ⟨p, hp, h1, _⟩; rw [List.mem_singleton.mp hp] at h1; exact h1

theorem bestInv_step (higher : Bool) (L : List (Nat × Nat)) (st : Nat × Nat) (os v : Nat) (h : BestInv higher L st) :
    BestInv higher (L ++ [(os, v)]) (updBest higher st os v) := by
  obtain ⟨hnz, ⟨q, hq, hqv⟩, hbest, hset⟩ := h
  have hz : (st.2 == 0) = false := by simpa using hnz
  have memL : ∀ p, p ∈ L ++ [(os, v)] ↔ p ∈ L ∨ p = (os, v) := by intro p; simp
  -- three outcomes: strictly better, equal, worse
  by_cases hlt : (if higher then st.1 < v else v < st.1)
  · -- new best alone
    have hu : updBest higher st os v = (v, 1 <<< os) := by
      unfold updBest; rw [hz]; cases higher <;> simp_all
    rw [hu]
    refine ⟨one_shl_ne_zero os, ⟨(os, v), (memL _).mpr (Or.inr rfl), rfl⟩, ?_, ?_⟩
    · intro p hp
      rcases (memL p).mp hp with hp | hp
      · have := hbest p hp; unfold asGood at this ⊢; cases higher <;> simp_all <;> omega
      · rw [hp]; unfold asGood; split <;> exact Nat.le_refl _
    · intro j
      rw [testBit_one_shl]
      constructor
      · intro h; exact ⟨(os, v), (memL _).mpr (Or.inr rfl), h, rfl⟩
      · rintro ⟨p, hp, h1, h2⟩
        rcases (memL p).mp hp with hp | hp
        · exfalso; have := hbest p hp; unfold asGood at this; simp only at h2; cases higher <;> simp_all <;> omega
        · rw [hp] at h1; exact h1
  · by_cases heq : v = st.1
    · -- tie: the node joins the set
      have hu : updBest higher st os v = (st.1, st.2 ||| (1 <<< os)) := by
        unfold updBest; rw [hz]; cases higher <;> simp_all
      rw [hu]
      refine ⟨?_, ⟨q, (memL _).mpr (Or.inl hq), hqv⟩, ?_, ?_⟩
      · intro h0; exact hnz (Nat.or_eq_zero_iff.mp h0).1
      · intro p hp
        rcases (memL p).mp hp with hp | hp
        · exact hbest p hp
        · rw [hp]; unfold asGood; simp only [heq]; split <;> exact Nat.le_refl _
      · intro j
        rw [Nat.testBit_or, Bool.or_eq_true, hset j, testBit_one_shl]
        constructor
        · rintro (⟨p, hp, h1, h2⟩ | h)
          · exact ⟨p, (memL _).mpr (Or.inl hp), h1, h2⟩
          · exact ⟨(os, v), (memL _).mpr (Or.inr rfl), h, heq⟩
        · rintro ⟨p, hp, h1, h2⟩
          rcases (memL p).mp hp with hp | hp
          · exact Or.inl ⟨p, hp, h1, h2⟩
          · rw [hp] at h1; exact Or.inr h1
    · -- worse: nothing changes
      have hu : updBest higher st os v = st := by
        unfold updBest; rw [hz]; cases higher <;> simp_all <;> omega
      rw [hu]
      refine ⟨hnz, ⟨q, (memL _).mpr (Or.inl hq), hqv⟩, ?_, ?_⟩
      · intro p hp
        rcases (memL p).mp hp with hp | hp
        · exact hbest p hp
        · rw [hp]; unfold asGood; cases higher <;> simp_all <;> omega
      · intro j
        rw [hset j]
        constructor
        · rintro ⟨p, hp, h1, h2⟩; exact ⟨p, (memL _).mpr (Or.inl hp), h1, h2⟩
        · rintro ⟨p, hp, h1, h2⟩
          rcases (memL p).mp hp with hp | hp
          · exact ⟨p, hp, h1, h2⟩
          · exfalso; rw [hp] at h2; exact heq h2

theorem bestFold_inv (higher : Bool) : ∀ (l L : List (Nat × Nat)) (st : Nat × Nat), BestInv higher L st →
    BestInv higher (L ++ l) (bestFold higher st l) := by
  intro l
  induction l with
  | nil => intro L st h; simpa [bestFold] using h
  | cons p r ih =>
    intro L st h
    have h1 := bestInv_step higher L st p.1 p.2 h
    have h2 := ih (L ++ [p]) _ h1
    simpa [bestFold, List.append_assoc] using h2

/-- the fold from the empty state over a non-empty list of (os_index, value) pairs -/
theorem bestFold_spec (higher : Bool) (p : Nat × Nat) (r : List (Nat × Nat)) :
    BestInv higher (p :: r) (bestFold higher (0, 0) (p :: r)) := by
  have h := bestFold_inv higher r [p] _ (bestInv_first higher p.1 p.2)
  simpa [bestFold] using h

/-- the (os_index, value) pairs `bestValueLoop` feeds to `hwloc_utils__update_best_node`: the local nodes that have a value -/
def valuePairs (a : XAttr) (nodes : List Obj) : List (Nat × Nat) :=
  nodes.filterMap (fun n => (a.values.find? (fun e => e.1 == n.gp)).map (fun e => (n.osidx.toNat, e.2)))

theorem bestValueLoop_eq (a : XAttr) (nodes : List Obj) :
    bestValueLoop a nodes = bestFold (a.flags.testBit 0) (0, 0) (valuePairs a nodes) := by
  unfold bestValueLoop bestFold valuePairs
  generalize ((0, 0) : Nat × Nat) = st
  induction nodes generalizing st with
  | nil => rfl
  | cons n r ih =>
    simp only [List.foldl_cons, List.filterMap_cons]
    cases hf : a.values.find? (fun e => e.1 == n.gp) with
    | none => simpa using ih st
    | some e => simpa using ih _

end Hw.Calc
