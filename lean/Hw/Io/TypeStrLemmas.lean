/- Hw.Io.TypeStrLemmas — lemmas about the model in Hw.Io.TypeStr (C11). -/
import Hw.Io.TypeStr
namespace Hw.TypeStr
open Hw.Gen.TypeTables

/-! ## the cursor machine: contract of `emit` -/

/-- what the callers of a printing function may rely on, for a buffer of `size` cells and the
    untruncated text `total` -/
structure Contract (size : Nat) (total : Bytes) (c : Cur) : Prop where
  /-- no write at an index ≥ size was attempted -/
  no_oob : c.oob = false
  /-- cells at or beyond `size` are untouched (in particular nothing at all is written when size = 0) -/
  outside : ∀ i, size ≤ i → c.buf i = none
  /-- the return value is the untruncated length -/
  ret_eq : c.ret = total.length
  /-- the buffer holds the longest prefix that fits ... -/
  content : ∀ i, i < min total.length (size - 1) → c.buf i = some (total.getD i 0)
  /-- ... followed by a NUL when size > 0 -/
  nul : 0 < size → c.buf (min total.length (size - 1)) = some 0

/-- loop invariant of the cursor triple after the chunks `done` -/
structure Inv (size : Nat) (done : Bytes) (started : Bool) (c : Cur) : Prop where
  hsize : c.size = size
  no_oob : c.oob = false
  ret_eq : c.ret = done.length
  pos_eq : c.pos = min done.length (size - 1)
  len_eq : c.pos + c.len = size
  outside : ∀ i, size ≤ i → c.buf i = none
  content : ∀ i, i < c.pos → c.buf i = some (done.getD i 0)
  nul : started = true → 0 < size → c.buf c.pos = some 0

theorem inv_init (size : Nat) : Inv size [] false (Cur.init size) := by
  constructor <;> simp [Cur.init]

theorem getD_append_lt (a b : Bytes) (i : Nat) (h : i < a.length) : (a ++ b).getD i 0 = a.getD i 0 := by
  simp [List.getD_eq_getElem?_getD, List.getElem?_append_left h]

theorem getD_append_ge (a b : Bytes) (i : Nat) (h : a.length ≤ i) : (a ++ b).getD i 0 = b.getD (i - a.length) 0 := by
  simp [List.getD_eq_getElem?_getD, List.getElem?_append_right h]

theorem advOf_eq (len res : Nat) : advOf len res = min res (len - 1) := by
  unfold advOf; split <;> (try split) <;> omega

theorem emit1_cur (c : Cur) (b : Bytes) : emit1 c (.cur b) =
    { c with buf := (snprintfAt c.size c.buf c.pos c.len b).1, pos := c.pos + min b.length (c.len - 1),
             len := c.len - min b.length (c.len - 1), ret := c.ret + b.length,
             oob := c.oob || (snprintfAt c.size c.buf c.pos c.len b).2 } := by
  simp only [emit1, Chunk.bytes, advOf_eq]

theorem inv_step_cur {size : Nat} {done : Bytes} {started : Bool} {c : Cur} (h : Inv size done started c) (b : Bytes) :
    Inv size (done ++ b) true (emit1 c (.cur b)) := by
  obtain ⟨hsize, hoob, hret, hpos, hlen, hout, hcont, hnul⟩ := h
  rw [emit1_cur]
  by_cases hn : c.len = 0
  · -- snprintf with n = 0 writes nothing (size = 0)
    have hsize0 : size = 0 := by omega
    have hs : snprintfAt c.size c.buf c.pos c.len b = (c.buf, false) := by simp [snprintfAt, hn]
    rw [hs]
    refine ⟨hsize, by simp [hoob], by simp [hret], ?_, ?_, hout, ?_, ?_⟩
    · simp only [List.length_append]; omega
    · simp only; omega
    · intro i hi; simp only at hi; omega
    · intro _ h0; omega
  · have hs : snprintfAt c.size c.buf c.pos c.len b =
        (fun i => if c.pos ≤ i ∧ i < c.pos + min b.length (c.len - 1) then some (b.getD (i - c.pos) 0)
                  else if i = c.pos + min b.length (c.len - 1) then some 0 else c.buf i,
         decide (c.size ≤ c.pos + min b.length (c.len - 1))) := by
      simp [snprintfAt, hn]
    rw [hs]
    refine ⟨hsize, ?_, by simp [hret], ?_, ?_, ?_, ?_, ?_⟩
    · simp only [hoob, Bool.false_or, decide_eq_false_iff_not]; omega
    · simp only [List.length_append]; omega
    · simp only; omega
    · intro i hi
      have h1 : ¬ (c.pos ≤ i ∧ i < c.pos + min b.length (c.len - 1)) := by omega
      have h2 : ¬ (i = c.pos + min b.length (c.len - 1)) := by omega
      simp only [h1, h2, if_false]
      exact hout i hi
    · intro i hi
      simp only at hi
      by_cases hlt : i < c.pos
      · have h1 : ¬ (c.pos ≤ i ∧ i < c.pos + min b.length (c.len - 1)) := by omega
        have h2 : ¬ (i = c.pos + min b.length (c.len - 1)) := by omega
        simp only [h1, h2, if_false]
        rw [hcont i hlt, getD_append_lt]
        omega
      · have h1 : c.pos ≤ i ∧ i < c.pos + min b.length (c.len - 1) := by omega
        simp only [h1, and_self, if_true]
        have hp : c.pos = done.length := by omega
        rw [getD_append_ge _ _ _ (by omega), hp]
    · intro _ _
      have h1 : ¬ (c.pos ≤ c.pos + min b.length (c.len - 1) ∧ c.pos + min b.length (c.len - 1) < c.pos + min b.length (c.len - 1)) := by omega
      simp only [h1, if_false, if_true]

/-- the Bridge/PCI branch of attr_snprintf prints at (string, size): the same as printing at the cursor
    as long as nothing has been printed before -/
theorem emit1_start_eq_cur (c : Cur) (b : Bytes) (hp : c.pos = 0) (hl : c.len = c.size) :
    emit1 c (.start b) = emit1 c (.cur b) := by
  simp only [emit1, Chunk.bytes, hp, hl]

def Chunk.isCur : Chunk → Bool
  | .cur _ => true
  | .start _ => false

def flat (cs : List Chunk) : Bytes := (cs.map Chunk.bytes).flatten

theorem inv_foldl {size : Nat} (cs : List Chunk) (hall : ∀ ch ∈ cs, ch.isCur = true) :
    ∀ {done : Bytes} {started : Bool} {c : Cur}, Inv size done started c →
      Inv size (done ++ flat cs) (started || !cs.isEmpty) (cs.foldl emit1 c) := by
  induction cs with
  | nil => intro done started c h; simpa [flat] using h
  | cons ch r ih =>
    intro done started c h
    have hc : ch.isCur = true := hall ch (by simp)
    cases ch with
    | start b => simp [Chunk.isCur] at hc
    | cur b =>
      have h1 := inv_step_cur h b
      have h2 := ih (fun x hx => hall x (by simp [hx])) h1
      simpa [flat, List.append_assoc, Chunk.bytes] using h2

theorem contract_of_inv {size : Nat} {done : Bytes} {c : Cur} (h : Inv size done true c) : Contract size done c := by
  obtain ⟨_, hoob, hret, hpos, _, hout, hcont, hnul⟩ := h
  exact ⟨hoob, hout, hret, fun i hi => hcont i (by omega), fun h0 => by rw [← hpos]; exact hnul rfl h0⟩

/-- **emit contract**: at least one snprintf call, all through the cursor -/
theorem emit_contract (size : Nat) (cs : List Chunk) (hne : cs ≠ []) (hall : ∀ ch ∈ cs, ch.isCur = true) :
    Contract size (flat cs) (emit size cs) := by
  have h := inv_foldl (size := size) cs hall (inv_init size)
  have hs : (false || !cs.isEmpty) = true := by
    cases cs with
    | nil => exact absurd rfl hne
    | cons _ _ => rfl
  rw [hs] at h
  simpa [emit] using contract_of_inv h


/-! ## termination of hwloc_obj_type_snprintf -/

/-- since fix 56af888 (single pass over names[]) the OS-device printer returns for EVERY type word; on the
    pinned tree `while (ostype)` diverged for every word with a bit >= 7 (F06) -/
theorem osdevNormal_isSome (w : Nat) (long : Bool) : (osdevNormal w long).isSome = true := by
  simp [osdevNormal]

theorem typeChunksK_isSome (t d ct up w : Nat) (long short : Bool) :
    (typeChunksK t d ct up w long short).isSome = true := by
  unfold typeChunksK
  split
  · rfl
  · split
    · rfl
    · split
      · split <;> rfl
      · split
        · rfl
        · split
          · rfl
          · split
            · cases short with
              | true => rfl
              | false => exact osdevNormal_isSome w long
            · rfl

/-! ## OS-device words: only the bits of names[] matter -/

/-- every names[] entry lies inside the 7 known bits -/
theorem osdevNames_mask : ∀ e ∈ osdevNames, e.1 &&& 127 = e.1 := by decide

theorem osdevPass_mask (long : Bool) : ∀ (names : List (Nat × Bytes × Bytes)), (∀ e ∈ names, e.1 &&& 127 = e.1) →
    ∀ (w : Nat) (comma : Bool) (acc : List Bytes),
      (osdevPass names long (w &&& 127, comma, acc)).2 = (osdevPass names long (w, comma, acc)).2 := by
  intro names
  induction names with
  | nil => intro _ w comma acc; rfl
  | cons e r ih =>
    intro hall w comma acc
    obtain ⟨bit, sn, ln⟩ := e
    have hb : bit &&& 127 = bit := hall (bit, sn, ln) (by simp)
    have h1 : (w &&& 127) &&& bit = w &&& bit := by
      rw [Nat.and_assoc, Nat.and_comm 127 bit, hb]
    have h2 : (w &&& 127) ^^^ (w &&& bit) = (w ^^^ (w &&& bit)) &&& 127 := by
      rw [Nat.and_xor_distrib_right, Nat.and_assoc, hb]
    simp only [osdevPass, h1]
    split
    · rw [h2]
      exact ih (fun x hx => hall x (by simp [hx])) _ _ _
    · exact ih (fun x hx => hall x (by simp [hx])) _ _ _

/-- unknown bits are simply not printed -/
theorem osdevNormal_mask (w : Nat) (long : Bool) : osdevNormal w long = osdevNormal (w &&& 127) long := by
  simp only [osdevNormal, osdevPass_mask long osdevNames osdevNames_mask w false []]

/-! ## the chunk lists of the two printers -/

theorem osdevNormal_ne (w : Nat) (long : Bool) (cs : List Bytes) (h : osdevNormal w long = some cs) : cs ≠ [] := by
  unfold osdevNormal at h
  injection h with h; subst h; simp

theorem typeChunksK_ne (t d ct up w : Nat) (long short : Bool) (cs : List Bytes)
    (h : typeChunksK t d ct up w long short = some cs) : cs ≠ [] := by
  unfold typeChunksK at h
  repeat' split at h
  all_goals first
    | (injection h with h; subst h; simp)
    | exact osdevNormal_ne _ _ _ h

theorem flat_map_cur (cs : List Bytes) : flat (cs.map Chunk.cur) = cs.flatten := by
  simp [flat, Chunk.bytes, Function.comp_def]

def Chunk.toCur : Chunk → Chunk
  | .cur b => .cur b
  | .start b => .cur b

theorem flat_toCur (cs : List Chunk) : flat (cs.map Chunk.toCur) = flat cs := by
  simp only [flat, List.map_map]
  congr 1
  apply List.map_congr_left
  intro c _; cases c <;> rfl

theorem toCur_isCur (cs : List Chunk) : ∀ ch ∈ cs.map Chunk.toCur, ch.isCur = true := by
  intro ch h
  simp only [List.mem_map] at h
  obtain ⟨c, _, rfl⟩ := h
  cases c <;> rfl

theorem map_cur_toCur (l : List Bytes) : (l.map Chunk.cur).map Chunk.toCur = l.map Chunk.cur := by
  simp [List.map_map, Function.comp_def, Chunk.toCur]

/-- I/O objects carry no memory (true for every object reachable through load: total_memory is only
    accumulated over normal and memory children) -/
def IoNoMemory (o : Obj) : Prop := (o.type = T_BRIDGE ∨ o.type = T_PCI_DEVICE) → o.total = 0

theorem attrC2_shape (o : Obj) (sep : Bytes) (flags : Nat) (pre : Bytes) :
    (∀ ch ∈ attrC2 o sep flags pre, ch.isCur = true) ∨
    ((o.type = T_BRIDGE ∨ o.type = T_PCI_DEVICE) ∧ ∃ b, attrC2 o sep flags pre = [.start b]) := by
  unfold attrC2
  split
  · left; simp [Chunk.isCur]
  · split
    · rename_i hb
      split
      · right; exact ⟨Or.inl hb, _, rfl⟩
      · left; simp
    · split
      · rename_i hp
        split
        · right; exact ⟨Or.inr hp, _, rfl⟩
        · left; simp
      · left; simp

theorem attrC1_io (o : Obj) (sep : Bytes) (flags : Nat) (hio : o.type = T_BRIDGE ∨ o.type = T_PCI_DEVICE)
    (hm : o.total = 0) : attrC1 o sep flags = [] := by
  have hn : ¬ (o.type = T_NUMANODE) := by
    rcases hio with h | h <;> rw [h] <;> decide
  simp [attrC1, hn, hm]

/-- under `IoNoMemory` the (string,size) calls of the Bridge/PCI branch coincide with cursor calls -/
theorem attr_emit_toCur (o : Obj) (sep : Bytes) (flags size : Nat) (h : IoNoMemory o) :
    emit size (attrChunks o sep flags) = emit size ((attrChunks o sep flags).map Chunk.toCur) := by
  unfold attrChunks
  simp only
  rcases attrC2_shape o sep flags (if lens (attrC1 o sep flags) > 0 then sep else []) with hc | ⟨hio, b, hb⟩
  · -- nothing to convert
    congr 1
    simp only [List.map_append, map_cur_toCur, List.map_cons, List.map_nil, Chunk.toCur]
    congr 2
    symm
    have hid : ∀ (l : List Chunk), (∀ ch ∈ l, ch.isCur = true) → l.map Chunk.toCur = l := by
      intro l
      induction l with
      | nil => intro _; rfl
      | cons c r ih =>
        intro hl
        have hc0 := hl c (by simp)
        cases c with
        | start _ => simp [Chunk.isCur] at hc0
        | cur x => simp [Chunk.toCur, ih (fun y hy => hl y (by simp [hy]))]
    exact hid _ hc
  · have h1 : attrC1 o sep flags = [] := attrC1_io o sep flags hio (h hio)
    rw [hb]
    simp only [h1, List.map_nil, List.append_nil, List.map_append, map_cur_toCur, List.map_cons, Chunk.toCur]
    simp only [emit, List.cons_append, List.nil_append, List.foldl_cons]
    congr 1
    apply emit1_start_eq_cur
    · simp [emit1_cur, Cur.init]
    · simp [emit1_cur, Cur.init]

theorem attrChunks_ne (o : Obj) (sep : Bytes) (flags : Nat) : (attrChunks o sep flags).map Chunk.toCur ≠ [] := by
  simp [attrChunks]

/-! ## memory safety of hwloc_type_sscanf -/

/-- since fix 2710d74 (`!*t ||` first) the pattern pointer is never dereferenced beyond the literal's NUL, for EVERY
    input (before it, the byte 0xE0 = '\\0' + 'A' - 'a' as a signed char matched the NUL and `t` ran on: F23) -/
theorem typeMatchGo_noT : ∀ (s pat : Bytes) (i min : Nat), typeMatchGo s (.at pat) i min ≠ .oobT := by
  intro s
  induction s with
  | nil => intro pat i min; simp only [typeMatchGo]; split <;> simp
  | cons c r ih =>
    intro pat i min
    cases pat with
    | nil =>
      simp only [typeMatchGo, TPos.read, true_or, if_true]
      split
      · simp
      · split <;> simp
    | cons x pr =>
      simp only [typeMatchGo, TPos.read, TPos.next]
      split
      · split
        · simp
        · split <;> simp
      · exact ih pr (i + 1) min

theorem typeMatch_noT (s pat : Bytes) (min : Nat) : typeMatch s pat min ≠ .oobT :=
  typeMatchGo_noT s pat 0 min

/-- never reads past the NUL of the input nor of a pattern literal -/
def Safe {α : Type} (r : R α) : Prop := r ≠ .oobS ∧ r ≠ .oobT

theorem anyMatch_safe (alts : List (Bytes × Nat)) (s : Bytes) : Safe (anyMatch alts s) := by
  induction alts with
  | nil => exact ⟨by simp [anyMatch], by simp [anyMatch]⟩
  | cons a r ih =>
    obtain ⟨p, m⟩ := a
    simp only [anyMatch]
    cases hm : typeMatch s p m with
    | fail => simpa [hm] using ih
    | stop e => exact ⟨by simp, by simp⟩
    | oobT => exact absurd hm (typeMatch_noT s p m)

theorem osdevTypeSscanfIn_safe (ch : List (List (Bytes × Nat) × Nat)) (s : Bytes) : Safe (osdevTypeSscanfIn ch s) := by
  induction ch with
  | nil => exact ⟨by simp [osdevTypeSscanfIn], by simp [osdevTypeSscanfIn]⟩
  | cons a r ih =>
    obtain ⟨alts, bit⟩ := a
    have ha := anyMatch_safe alts s
    simp only [osdevTypeSscanfIn]
    cases hm : anyMatch alts s with
    | ok b => cases b <;> simp [ih] <;> exact ⟨by simp, by simp⟩
    | oobS => exact absurd hm ha.1
    | oobT => exact absurd hm ha.2

theorem osdevTypesFold_safe (l : List Bytes) (acc : Nat) : Safe (osdevTypesFold l acc) := by
  induction l generalizing acc with
  | nil => exact ⟨by simp [osdevTypesFold], by simp [osdevTypesFold]⟩
  | cons e r ih =>
    have he := osdevTypeSscanfIn_safe osdevSscanfChain e
    simp only [osdevTypesFold, osdevTypeSscanf]
    cases hm : osdevTypeSscanfIn osdevSscanfChain e with
    | ok b => cases b <;> simp [ih]
    | oobS => exact absurd hm he.1
    | oobT => exact absurd hm he.2

theorem osdevTypesSscanf_safe (p : Bytes) : Safe (osdevTypesSscanf p) := osdevTypesFold_safe _ 0

theorem lower_ne_zero (c : Nat) (h : c ≠ 0) : lower c ≠ 0 := by
  unfold lower; split <;> omega

theorem ciPrefix_len : ∀ (n : Nat) (s pat : Bytes), ciPrefix s pat n = true → n ≤ pat.length → (∀ c ∈ pat, c ≠ 0) → n ≤ s.length := by
  intro n
  induction n with
  | zero => intros; omega
  | succ n ih =>
    intro s pat h hl hp
    cases pat with
    | nil => simp at hl
    | cons p pr =>
      have hp0 : p ≠ 0 := hp p (by simp)
      cases s with
      | nil =>
        exfalso
        simp only [ciPrefix, hd, List.headD_nil, List.headD_cons] at h
        have h0 : lower 0 = 0 := by decide
        have hne := lower_ne_zero p hp0
        by_cases hh : lower 0 = lower p
        · omega
        · simp [hh] at h
      | cons c sr =>
        simp only [ciPrefix, hd, List.headD_cons, List.tail_cons] at h
        by_cases hh : lower c = lower p
        · by_cases h0 : c = 0
          · exfalso
            have hne := lower_ne_zero p hp0
            have hz : lower 0 = 0 := by decide
            rw [h0, hz] at hh
            omega
          · simp only [hh, ne_eq, not_true_eq_false, if_false, h0] at h
            have := ih sr pr h (by simpa using hl) (fun x hx => hp x (by simp [hx]))
            simp only [List.length_cons]; omega
        · simp [hh] at h

/-- what the safety proof needs from the generated chain -/
def stepOK : Step → Bool
  | .bracket pat n skip _ => decide (skip ≤ n) && decide (n ≤ pat.length) && pat.all (· != 0)
  | _ => true

theorem chain_ok : sscanfChain.all stepOK = true := by decide

theorem ptrAdd_one_safe (e : Bytes) (h : hd e ≠ 0) : ∃ e', ptrAdd e 1 = .ok e' := by
  cases e with
  | nil => simp [hd] at h
  | cons c r => exact ⟨r, by simp [ptrAdd]⟩

theorem Safe.pure' {α : Type} (a : α) : Safe (pure a : R α) :=
  ⟨by simp [pure], by simp [pure]⟩

theorem Safe.ok {α : Type} (a : α) : Safe (R.ok a) :=
  ⟨by simp, by simp⟩

theorem Safe.bind' {α β : Type} {r : R α} {f : α → R β} (hr : Safe r)
    (hf : ∀ a, r = .ok a → Safe (f a)) : Safe (r >>= f) := by
  cases h : r with
  | ok a => simpa [bind, R.bind, h] using hf a h
  | oobS => exact absurd h hr.1
  | oobT => exact absurd h hr.2

theorem evalStep_safe (s : Bytes) (st : Step) (hok : stepOK st = true) : Safe (evalStep s st) := by
  cases st with
  | bracket pat n skip ty =>
    simp only [stepOK, Bool.and_eq_true, decide_eq_true_eq, List.all_eq_true, bne_iff_ne] at hok
    obtain ⟨⟨h1, h2⟩, h3⟩ := hok
    simp only [evalStep]
    split
    · rename_i hci
      have hlen := ciPrefix_len n s pat hci h2 (fun c hc => h3 c hc)
      have hp : ptrAdd s skip = .ok (s.drop skip) := by simp [ptrAdd]; omega
      rw [hp]
      apply Safe.bind' (Safe.ok _)
      intro p _
      apply Safe.bind' (osdevTypesSscanf_safe _)
      intro w _
      exact Safe.pure' _
    · exact Safe.pure' _
  | osdevBare ty =>
    simp only [evalStep]
    apply Safe.bind' (osdevTypeSscanfIn_safe osdevSscanfChain s)
    intro r _
    cases r <;> exact Safe.pure' _
  | plain alts ty ub =>
    simp only [evalStep]
    apply Safe.bind' (anyMatch_safe alts s)
    intro r _
    cases r <;> simp <;> exact Safe.pure' _
  | cache iLo iHi iBase iType dLo dHi dBase dType uType nType sufPat sufMin =>
    simp only [evalStep]
    split
    · rename_i c0 c1 rest
      split
      · -- the strtol branch
        generalize hsd : scanDigits (c0 :: c1 :: rest).tail 0 = sd
        obtain ⟨v, e⟩ := sd
        simp only
        have key : ∀ (ty ct : Nat) (suf : R Bytes), suf ≠ .oobS → suf ≠ .oobT →
            Safe (do
              let sf ← suf
              match typeMatch sf sufPat sufMin with
              | .oobT => .oobT
              | .fail => pure .err
              | .stop _ => pure (StepRes.done { type := ty, depth := strtolU32 v, ctype := ct })) := by
          intro ty ct suf h1 h2
          apply Safe.bind' ⟨h1, h2⟩
          intro sf _
          cases hm : typeMatch sf sufPat sufMin with
          | oobT => exact absurd hm (typeMatch_noT sf sufPat sufMin)
          | fail => exact Safe.pure' _
          | stop e' => exact Safe.pure' _
        have hadd : hd e ≠ 0 → ptrAdd e 1 ≠ .oobS ∧ ptrAdd e 1 ≠ .oobT := by
          intro hne
          obtain ⟨e', he'⟩ := ptrAdd_one_safe e hne
          rw [he']
          exact ⟨by simp, by simp⟩
        have hsame : (R.ok e : R Bytes) ≠ .oobS ∧ (R.ok e : R Bytes) ≠ .oobT := ⟨by simp, by simp⟩
        split
        · -- pick = none
          exact Safe.pure' _
        · rename_i ty ct suf hpick
          -- every `some` alternative of `pick` carries a pointer that is still inside the string
          have hsufOK : suf ≠ .oobS ∧ suf ≠ .oobT := by
            split at hpick
            · rename_i hi
              have hne : hd e ≠ 0 := by rcases hi with h | h <;> omega
              split at hpick
              · injection hpick with hpick; injection hpick with _ hpick; injection hpick with _ hpick
                subst hpick; exact hadd hne
              · cases hpick
            · split at hpick
              · split at hpick
                · rename_i hi
                  have hne : hd e ≠ 0 := by rcases hi with h | h <;> omega
                  injection hpick with hpick; injection hpick with _ hpick; injection hpick with _ hpick
                  subst hpick; exact hadd hne
                · split at hpick
                  · rename_i hi
                    have hne : hd e ≠ 0 := by rcases hi with h | h <;> omega
                    injection hpick with hpick; injection hpick with _ hpick; injection hpick with _ hpick
                    subst hpick; exact hadd hne
                  · injection hpick with hpick; injection hpick with _ hpick; injection hpick with _ hpick
                    subst hpick; exact hsame
              · cases hpick
          exact key ty ct suf hsufOK.1 hsufOK.2
      · exact Safe.pure' _
    · exact Safe.pure' _
  | group pat min ty =>
    simp only [evalStep]
    cases hm : typeMatch s pat min with
    | oobT => exact absurd hm (typeMatch_noT s pat min)
    | fail => exact Safe.pure' _
    | stop e => simp only; split <;> exact Safe.pure' _

theorem runChain_safe (s : Bytes) (ch : List Step) (hok : ch.all stepOK = true) : Safe (runChain s ch) := by
  induction ch with
  | nil => exact Safe.ok _
  | cons st r ih =>
    simp only [List.all_cons, Bool.and_eq_true] at hok
    have h1 := evalStep_safe s st hok.1
    simp only [runChain]
    cases hm : evalStep s st with
    | ok x => cases x <;> simp only <;> first | exact ih hok.2 | exact Safe.ok _
    | oobS => exact absurd hm h1.1
    | oobT => exact absurd hm h1.2

/-- hwloc_type_sscanf never reads beyond the NUL of its input nor beyond the NUL of a pattern literal,
    for EVERY byte string -/
theorem typeSscanf_safe (s : Bytes) : typeSscanf s ≠ .oobS ∧ typeSscanf s ≠ .oobT :=
  runChain_safe s sscanfChain chain_ok

/-! ## decimal print / parse -/

theorem isDigit_48 (n : Nat) (h : n < 10) : isDigit (48 + n) = true := by
  simp [isDigit]; omega

theorem scanDigits_decF : ∀ (f n : Nat), n ≤ f → ∀ (acc : Nat) (r : Bytes),
    scanDigits (decF f n ++ r) acc = scanDigits r (acc * 10 ^ (decF f n).length + n) := by
  intro f
  induction f with
  | zero =>
    intro n hn acc r
    have : n = 0 := by omega
    subst this
    simp [decF, scanDigits, isDigit]
  | succ f ih =>
    intro n hn acc r
    simp only [decF]
    split
    · rename_i h10
      simp only [List.cons_append, List.nil_append, scanDigits, isDigit_48 n h10, if_true, List.length_cons, List.length_nil]
      congr 1
      omega
    · rename_i h10
      have hd : n / 10 ≤ f := by omega
      rw [List.append_assoc, ih (n / 10) hd]
      have hdig : isDigit (48 + n % 10) = true := isDigit_48 _ (by omega)
      simp only [List.cons_append, List.nil_append, scanDigits, hdig, if_true, List.length_append, List.length_cons, List.length_nil]
      congr 1
      rw [Nat.pow_succ, ← Nat.mul_assoc]
      generalize acc * 10 ^ (decF f (n / 10)).length = X
      omega

/-- `strtol` of the `%u` rendering gives the number back -/
theorem scanDigits_dec (d : Nat) (r : Bytes) : scanDigits (dec d ++ r) 0 = scanDigits r d := by
  rw [dec, scanDigits_decF d d (Nat.le_refl d)]
  simp

theorem decF_ne_nil (f n : Nat) : decF f n ≠ [] := by
  cases f with
  | zero => simp [decF]
  | succ f => simp only [decF]; split <;> simp

theorem decF_head_digit : ∀ (f n : Nat), n ≤ f → isDigit (hd (decF f n)) = true := by
  intro f
  induction f with
  | zero => intro n hn; simp [decF, hd, isDigit]; omega
  | succ f ih =>
    intro n hn
    simp only [decF]
    split
    · rename_i h; simpa [hd] using isDigit_48 n h
    · have := ih (n / 10) (by omega)
      have hne := decF_ne_nil f (n / 10)
      cases hx : decF f (n / 10) with
      | nil => exact absurd hx hne
      | cons a b => rw [hx] at this; simpa [hd] using this

/-! ## evaluating the chain on a string of which only a prefix is known -/

/-- the match is decided as a failure inside the known prefix (a letter or '-' that differs, or too short) -/
def failsPre : Bytes → TPos → Nat → Nat → Bool
  | [], _, _, _ => false
  | c :: s', t, i, min =>
    match t.read with
    | none => false
    | some tc =>
      if tc = 0 ∨ (c ≠ tc ∧ sval c ≠ sval tc + 65 - 97) then isAlphaDash c || decide (i < min)
      else failsPre s' t.next (i + 1) min

theorem failsPre_sound : ∀ (p : Bytes) (t : TPos) (i min : Nat), failsPre p t i min = true →
    ∀ rest, typeMatchGo (p ++ rest) t i min = .fail := by
  intro p
  induction p with
  | nil => intro t i min h; simp [failsPre] at h
  | cons c r ih =>
    intro t i min h rest
    simp only [failsPre] at h
    simp only [List.cons_append, typeMatchGo]
    cases hr : t.read with
    | none => simp [hr] at h
    | some tc =>
      simp only [hr] at h ⊢
      split
      · rename_i hm
        rw [if_pos hm] at h
        simp only [Bool.or_eq_true, decide_eq_true_eq] at h
        rcases h with h | h
        · simp [h]
        · split
          · rfl
          · simp
      · rename_i hm
        rw [if_neg hm] at h
        exact ih _ _ _ h rest

def altsFailPre (p : Bytes) (alts : List (Bytes × Nat)) : Bool :=
  alts.all fun a => failsPre p (.at a.1) 0 a.2

theorem anyMatch_pre (p : Bytes) (alts : List (Bytes × Nat)) (h : altsFailPre p alts = true) (rest : Bytes) :
    anyMatch alts (p ++ rest) = .ok false := by
  induction alts with
  | nil => rfl
  | cons a r ih =>
    obtain ⟨pat, m⟩ := a
    simp only [altsFailPre, List.all_cons, Bool.and_eq_true] at h
    simp only [anyMatch, typeMatch, failsPre_sound p _ 0 m h.1 rest]
    exact ih h.2

theorem osdevIn_pre (p : Bytes) (ch : List (List (Bytes × Nat) × Nat)) (h : (ch.all fun e => altsFailPre p e.1) = true)
    (rest : Bytes) : osdevTypeSscanfIn ch (p ++ rest) = .ok none := by
  induction ch with
  | nil => rfl
  | cons e r ih =>
    obtain ⟨alts, bit⟩ := e
    simp only [List.all_cons, Bool.and_eq_true] at h
    simp only [osdevTypeSscanfIn, anyMatch_pre p alts h.1 rest]
    exact ih h.2

/-- strncasecmp decided as "different" inside the known prefix -/
def ciFailsPre : Bytes → Bytes → Nat → Bool
  | _, _, 0 => false
  | [], _, _ => false
  | c :: r, pat, n + 1 => if lower c ≠ lower (hd pat) then true else if c = 0 then false else ciFailsPre r pat.tail n

theorem ciFailsPre_sound : ∀ (p pat : Bytes) (n : Nat), ciFailsPre p pat n = true → ∀ rest, ciPrefix (p ++ rest) pat n = false := by
  intro p
  induction p with
  | nil => intro pat n h; cases n <;> simp [ciFailsPre] at h
  | cons c r ih =>
    intro pat n h rest
    cases n with
    | zero => simp [ciFailsPre] at h
    | succ n =>
      simp only [ciFailsPre] at h
      have hhd : hd (c :: (r ++ rest)) = c := rfl
      simp only [List.cons_append, ciPrefix, hhd, List.tail_cons]
      by_cases hl : lower c = lower (hd pat)
      · rw [if_neg (fun hne => hne hl)] at h
        rw [if_neg (fun hne => hne hl)]
        by_cases h0 : c = 0
        · simp [h0] at h
        · rw [if_neg h0] at h
          rw [if_neg h0]
          exact ih _ _ h rest
      · rw [if_pos hl]

/-- the step is skipped (its condition is false) whatever follows the prefix -/
def stepSkipsPre (p : Bytes) : Step → Bool
  | .bracket pat n _ _ => ciFailsPre p pat n
  | .osdevBare _ => osdevSscanfChain.all fun e => altsFailPre p e.1
  | .plain alts _ _ => altsFailPre p alts
  | .cache .. => match p with
    | c0 :: _ :: _ => !(c0 == 108 || c0 == 76)
    | _ => false
  | .group pat min _ => failsPre p (.at pat) 0 min

theorem stepSkipsPre_sound (p : Bytes) (st : Step) (h : stepSkipsPre p st = true) (rest : Bytes) :
    evalStep (p ++ rest) st = .ok .next := by
  cases st with
  | bracket pat n skip ty =>
    simp only [stepSkipsPre] at h
    simp [evalStep, ciFailsPre_sound p pat n h rest, pure]
  | osdevBare ty =>
    simp only [stepSkipsPre] at h
    simp [evalStep, osdevTypeSscanf, osdevIn_pre p _ h rest, bind, R.bind, pure]
  | plain alts ty ub =>
    simp only [stepSkipsPre] at h
    simp [evalStep, anyMatch_pre p alts h rest, bind, R.bind, pure]
  | cache iLo iHi iBase iType dLo dHi dBase dType uType nType sufPat sufMin =>
    simp only [stepSkipsPre] at h
    split at h
    · rename_i c0 c1 r
      simp only [Bool.not_eq_true', Bool.or_eq_false_iff, beq_eq_false_iff_ne] at h
      simp [evalStep, h.1, h.2, pure]
    · cases h
  | group pat min ty =>
    simp only [stepSkipsPre] at h
    simp [evalStep, typeMatch, failsPre_sound p _ 0 min h rest, pure]

theorem runChain_skip (p rest : Bytes) : ∀ (ch : List Step),
    runChain (p ++ rest) ch = runChain (p ++ rest) (ch.dropWhile (stepSkipsPre p)) := by
  intro ch
  induction ch with
  | nil => rfl
  | cons st r ih =>
    simp only [List.dropWhile_cons]
    split
    · rename_i h
      simp only [runChain, stepSkipsPre_sound p st h rest]
      exact ih
    · rfl

/-- the known prefix matches the whole pattern (case-insensitively) -/
def matchesAll : Bytes → Bytes → Bool
  | [], [] => true
  | c :: r, tc :: tr => tc != 0 && (c == tc || sval c == sval tc + 65 - 97) && matchesAll r tr
  | _, _ => false

theorem typeMatchGo_full : ∀ (p pat : Bytes) (i min : Nat), matchesAll p pat = true → ∀ (c : Nat) (r : Bytes),
    isDigit c = true → i + p.length ≥ min → typeMatchGo (p ++ c :: r) (.at pat) i min = .stop (c :: r) := by
  intro p
  induction p with
  | nil =>
    intro pat i min h c r hc hm
    cases pat with
    | cons _ _ => simp [matchesAll] at h
    | nil =>
      have hc' : 48 ≤ c ∧ c ≤ 57 := by simpa [isDigit] using hc
      have h3 : isAlphaDash c = false := by
        simp [isAlphaDash]; omega
      simp only [List.nil_append, typeMatchGo, TPos.read, true_or, if_true, h3]
      simp at hm
      have : ¬ i < min := by omega
      simp [this]
  | cons x xs ih =>
    intro pat i min h c r hc hm
    cases pat with
    | nil => simp [matchesAll] at h
    | cons tc tr =>
      simp only [matchesAll, Bool.and_eq_true, Bool.or_eq_true, beq_iff_eq, bne_iff_ne] at h
      simp only [List.cons_append, typeMatchGo, TPos.read, TPos.next]
      have hno : ¬ (tc = 0 ∨ (x ≠ tc ∧ sval x ≠ sval tc + 65 - 97)) := by
        intro hh
        rcases hh with h0 | hh
        · exact h.1.1 h0
        · rcases h.1.2 with h1 | h1
          · exact hh.1 h1
          · exact hh.2 h1
      simp only [hno, if_false]
      apply ih tr (i + 1) min h.2 c r hc
      simp only [List.length_cons] at hm
      omega

/-! ## Group<d> for every depth -/

def sGroup : Bytes := typeString T_GROUP

/-- on "Group..." every branch of the generated chain before `group<d>` is skipped, and the group pattern
    matches the whole of "Group" (re-decided against the generated chain on every run) -/
def groupReady : Bool :=
  match sscanfChain.dropWhile (stepSkipsPre sGroup) with
  | .group pat min ty :: _ => matchesAll sGroup pat && decide (min ≤ sGroup.length) && ty == T_GROUP
  | _ => false

theorem groupReady_holds : groupReady = true := by decide +kernel

theorem dec_cons (d : Nat) : ∃ c r, dec d = c :: r ∧ isDigit c = true := by
  have hne := decF_ne_nil d d
  have hdg := decF_head_digit d d (Nat.le_refl d)
  unfold dec
  cases hx : decF d d with
  | nil => exact absurd hx hne
  | cons c r => rw [hx] at hdg; exact ⟨c, r, rfl, by simpa [hd] using hdg⟩

theorem strtolU32_small (d : Nat) (h : d < U32) : strtolU32 d = d := by
  unfold strtolU32
  have : d ≤ longMax := by unfold longMax; unfold U32 at h; omega
  rw [Nat.min_eq_left this, Nat.mod_eq_of_lt h]

theorem typeSscanf_group (d : Nat) (h : d < U32) :
    typeSscanf (sGroup ++ dec d) = .ok (some { type := T_GROUP, depth := d }) := by
  have hg := groupReady_holds
  unfold groupReady at hg
  unfold typeSscanf
  rw [runChain_skip]
  split at hg
  · rename_i pat min ty rest hch
    simp only [Bool.and_eq_true, decide_eq_true_eq, beq_iff_eq] at hg
    obtain ⟨⟨hm, hmin⟩, hty⟩ := hg
    rw [hch]
    obtain ⟨c, r, hdec, hc⟩ := dec_cons d
    have hfull := typeMatchGo_full sGroup pat 0 min hm c r hc (by omega)
    have hsd : (scanDigits (c :: r) 0).1 = d := by
      have := scanDigits_dec d []
      rw [List.append_nil, hdec] at this
      rw [this]; simp [scanDigits]
    simp only [runChain, evalStep, typeMatch, hdec, hfull, hd, List.headD_cons, hc, if_true, pure, hsd,
      strtolU32_small d h, hty]
  · cases hg

theorem typeSscanf_group_nodepth : typeSscanf sGroup = .ok (some { type := T_GROUP }) := by decide +kernel

/-! ## the type returned by hwloc_type_sscanf is a valid hwloc_obj_type_t -/

theorem bind_eq_ok {α β : Type} {r : R α} {f : α → R β} {b : β} (h : (r >>= f) = .ok b) : ∃ a, r = .ok a ∧ f a = .ok b := by
  cases r with
  | ok a => exact ⟨a, rfl, by simpa [bind, R.bind] using h⟩
  | oobS => simp [bind, R.bind] at h
  | oobT => simp [bind, R.bind] at h

theorem pure_eq_ok {α : Type} {a b : α} (h : (pure a : R α) = .ok b) : a = b := by
  simpa [pure] using h

def stepTypeBound : Step → Nat
  | .bracket _ _ _ ty => ty
  | .osdevBare ty => ty
  | .plain _ ty _ => ty
  | .cache iLo iHi iBase _ dLo dHi dBase _ _ _ _ _ => max (iBase + iHi - iLo) (dBase + dHi - dLo)
  | .group _ _ ty => ty

theorem evalStep_type (s : Bytes) (st : Step) (p : Parsed) (h : evalStep s st = .ok (.done p)) :
    p.type ≤ stepTypeBound st := by
  cases st with
  | bracket pat n skip ty =>
    simp only [evalStep] at h
    split at h
    · obtain ⟨a, _, h⟩ := bind_eq_ok h
      obtain ⟨w, _, h⟩ := bind_eq_ok h
      have := pure_eq_ok h
      injection this with this; subst this
      simp [stepTypeBound]
    · have := pure_eq_ok h; cases this
  | osdevBare ty =>
    simp only [evalStep] at h
    obtain ⟨a, _, h⟩ := bind_eq_ok h
    cases a with
    | none => have := pure_eq_ok h; cases this
    | some b =>
      have := pure_eq_ok h
      injection this with this; subst this
      simp [stepTypeBound]
  | plain alts ty ub =>
    simp only [evalStep] at h
    obtain ⟨a, _, h⟩ := bind_eq_ok h
    cases a with
    | false => have := pure_eq_ok h; cases this
    | true =>
      have := pure_eq_ok h
      injection this with this; subst this
      simp [stepTypeBound]
  | cache iLo iHi iBase iType dLo dHi dBase dType uType nType sufPat sufMin =>
    simp only [evalStep] at h
    split at h
    · split at h
      · generalize hsd : scanDigits _ 0 = sd at h
        obtain ⟨v, e⟩ := sd
        simp only at h
        split at h
        · have := pure_eq_ok h; cases this
        · rename_i ty ct suf hpick
          have hty : ty ≤ stepTypeBound (.cache iLo iHi iBase iType dLo dHi dBase dType uType nType sufPat sufMin) := by
            simp only [stepTypeBound]
            split at hpick
            · split at hpick
              · rename_i hr
                simp only [inRange, Bool.and_eq_true, decide_eq_true_eq] at hr
                injection hpick with hpick; injection hpick with hpick _; omega
              · cases hpick
            · split at hpick
              · rename_i hr
                simp only [inRange, Bool.and_eq_true, decide_eq_true_eq] at hr
                split at hpick
                · injection hpick with hpick; injection hpick with hpick _; omega
                · split at hpick
                  · injection hpick with hpick; injection hpick with hpick _; omega
                  · injection hpick with hpick; injection hpick with hpick _; omega
              · cases hpick
          obtain ⟨sf, _, h⟩ := bind_eq_ok h
          split at h
          · cases h
          · have := pure_eq_ok h; cases this
          · have := pure_eq_ok h
            injection this with this; subst this
            exact hty
      · have := pure_eq_ok h; cases this
    · have := pure_eq_ok h; cases this
  | group pat min ty =>
    simp only [evalStep] at h
    split at h
    · cases h
    · have := pure_eq_ok h; cases this
    · split at h <;> (have := pure_eq_ok h; injection this with this; subst this; simp [stepTypeBound])

theorem chain_types_ok : sscanfChain.all (fun st => decide (stepTypeBound st < typeMax)) = true := by decide

theorem runChain_type (s : Bytes) (ch : List Step) (hb : ch.all (fun st => decide (stepTypeBound st < typeMax)) = true)
    (p : Parsed) (h : runChain s ch = .ok (some p)) : p.type < typeMax := by
  induction ch with
  | nil => simp [runChain] at h
  | cons st r ih =>
    simp only [List.all_cons, Bool.and_eq_true, decide_eq_true_eq] at hb
    simp only [runChain] at h
    split at h
    · exact ih hb.2 h
    · rename_i q hq
      injection h with h; injection h with h; subst h
      have := evalStep_type s st q hq
      omega
    · cases h
    · cases h
    · cases h

/-- on success the returned type is one of the enumerators of hwloc_obj_type_t -/
theorem typeSscanf_type (s : Bytes) (p : Parsed) (h : typeSscanf s = .ok (some p)) : p.type < typeMax :=
  runChain_type s sscanfChain chain_types_ok p h

end Hw.TypeStr
