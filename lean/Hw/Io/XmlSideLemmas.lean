/-
  Hw.Io.XmlSideLemmas — round trips of the side-structure elements of Hw.Io.XmlSide: what the importer hands to the core for the
  element the exporter writes is the exported structure (strings through safestrdup), for every list of CPU kinds / memory
  attributes / distances matrix.
-/
import Hw.Io.XmlSide
import Hw.Io.XmlTreeLemmas
namespace Hw.XmlSide
open Hw Hw.Topo Hw.XmlObj Hw.XmlTree

/-! ### `<info>` children -/

theorem infoChild_infoElem (p : Bytes × Bytes) : infoChild (infoElem p) = some (some (sanPair p)) := by
  simp only [infoChild, infoElem, Elem.attrs, Elem.content, Elem.kids, importInfo_exportInfo p.1 p.2]
  simp [sanPair]

/-! ### CPU kinds -/

theorem kindLoop_export (k : Kind) (hv : kindValid k = true) : kindLoop (exportKind k).attrs none (-1) = .ok (some k.cpuset, k.eff) := by
  have e1 : (b "forced_efficiency" = b "cpuset") = False := by decide
  simp only [kindValid, Bool.and_eq_true, decide_eq_true_eq] at hv
  have htk : (Xml.printInt k.eff).take 10 = Xml.printInt k.eff := List.take_of_length_le hv.2
  by_cases h : k.eff = -1
  · simp only [exportKind, Elem.attrs, h, ne_eq, not_true_eq_false, if_false, List.append_nil, kindLoop, if_true, setScan_setText]
  · simp only [exportKind, Elem.attrs, h, ne_eq, not_false_eq_true, if_true, List.cons_append, List.nil_append, kindLoop,
      setScan_setText, e1, if_false, htk, Xml.atoi_printInt]

theorem kindKids_infos : ∀ (infos acc : List (Bytes × Bytes)), kindKids (infos.map infoElem) acc = .ok (acc ++ infos.map sanPair)
  | [], acc => by simp [kindKids]
  | p :: l, acc => by
    have ht : (infoElem p).tag = tagInfo := rfl
    rw [List.map_cons, kindKids, if_pos ht, infoChild_infoElem]
    simp only []
    rw [kindKids_infos l (acc ++ [sanPair p])]
    simp

/-- hwloc__xml_import_cpukind ∘ (one iteration of hwloc__xml_export_cpukinds) -/
theorem importKind_exportKind (k : Kind) (hv : kindValid k = true) : importKind (exportKind k) = .ok (normKind k) := by
  have h1 := kindLoop_export k hv
  unfold importKind
  rw [h1]
  simp only [Res.bind, exportKind, Elem.content, Elem.kids, Option.isSome_none, Bool.false_eq_true, if_false, kindKids_infos,
    List.nil_append, normKind]

/-- a list of results, in order (`Res` has no Monad instance) -/
def mapRes {α β : Type} (f : α → Res β) : List α → Res (List β)
  | [] => .ok []
  | a :: l => (f a).bind (fun x => (mapRes f l).bind (fun xs => .ok (x :: xs)))

theorem mapRes_ok {α β γ : Type} (f : α → Res β) (g : γ → α) (h : γ → β) :
    ∀ l : List γ, (∀ x ∈ l, f (g x) = .ok (h x)) → mapRes f (l.map g) = .ok (l.map h)
  | [], _ => rfl
  | a :: l, hf => by
    simp only [List.map_cons, mapRes, hf a (by simp), Res.bind, mapRes_ok f g h l (fun x hx => hf x (by simp [hx]))]

/-! ### memory attributes -/

theorem mvLoop_noinit (ty gp v : Bytes) :
    mvLoop [(b "target_obj_type", ty), (b "target_obj_gp_index", gp), (b "value", v)] {} =
      some { tty := some ty, tgp := some gp, val := some v } := by
  have e1 : (b "target_obj_type" = b "target_obj_gp_index") = False := by decide
  have e2 : (b "value" = b "target_obj_gp_index") = False := by decide
  have e3 : (b "value" = b "target_obj_type") = False := by decide
  simp only [mvLoop, e1, e2, e3, if_false, if_true]

theorem mvLoop_obj (ty gp v ig it : Bytes) :
    mvLoop [(b "target_obj_type", ty), (b "target_obj_gp_index", gp), (b "value", v), (b "initiator_obj_gp_index", ig),
            (b "initiator_obj_type", it)] {} =
      some { tty := some ty, tgp := some gp, val := some v, igp := some ig, ity := some it } := by
  have e1 : (b "target_obj_type" = b "target_obj_gp_index") = False := by decide
  have e2 : (b "value" = b "target_obj_gp_index") = False := by decide
  have e3 : (b "value" = b "target_obj_type") = False := by decide
  have e4 : (b "initiator_obj_gp_index" = b "target_obj_gp_index") = False := by decide
  have e5 : (b "initiator_obj_gp_index" = b "target_obj_type") = False := by decide
  have e6 : (b "initiator_obj_gp_index" = b "value") = False := by decide
  have e7 : (b "initiator_obj_gp_index" = b "initiator_cpuset") = False := by decide
  have f4 : (b "initiator_obj_type" = b "target_obj_gp_index") = False := by decide
  have f5 : (b "initiator_obj_type" = b "target_obj_type") = False := by decide
  have f6 : (b "initiator_obj_type" = b "value") = False := by decide
  have f7 : (b "initiator_obj_type" = b "initiator_cpuset") = False := by decide
  have f8 : (b "initiator_obj_type" = b "initiator_obj_gp_index") = False := by decide
  simp only [mvLoop, e1, e2, e3, e4, e5, e6, e7, f4, f5, f6, f7, f8, if_false, if_true]

theorem mvLoop_cpuset (ty gp v cs : Bytes) :
    mvLoop [(b "target_obj_type", ty), (b "target_obj_gp_index", gp), (b "value", v), (b "initiator_cpuset", cs)] {} =
      some { tty := some ty, tgp := some gp, val := some v, icpu := some cs } := by
  have e1 : (b "target_obj_type" = b "target_obj_gp_index") = False := by decide
  have e2 : (b "value" = b "target_obj_gp_index") = False := by decide
  have e3 : (b "value" = b "target_obj_type") = False := by decide
  have e4 : (b "initiator_cpuset" = b "target_obj_gp_index") = False := by decide
  have e5 : (b "initiator_cpuset" = b "target_obj_type") = False := by decide
  have e6 : (b "initiator_cpuset" = b "value") = False := by decide
  simp only [mvLoop, e1, e2, e3, e4, e5, e6, if_false, if_true]

theorem num_dec {α : Type} (n : Nat) (h : n < 2 ^ 64) (k : Nat → Res α) : num (decDigits n) k = k n := by
  unfold num; rw [strtoulV_decDigits n h]

/-- hwloc__xml_import_memattr_value on a value written without initiator -/
theorem importValue_noinit (flags ty gp v : Nat) (hf : needInit flags = false) (ht : ty < 20) (hg : gp < 2 ^ 64) (hv : v < 2 ^ 64) :
    importValue flags (valueElem ty gp v none) = .ok { type := ty, gp := gp, init := none, value := v } := by
  simp only [importValue, valueElem, Elem.attrs, Elem.content, Elem.kids, List.append_nil, mvLoop_noinit, typeScan_typeString ty ht,
    num_dec gp hg, num_dec v hv, hf, Bool.false_eq_true, if_false, Res.bind, Option.isSome_none, List.isEmpty_nil, Bool.not_true,
    Bool.or_self]

/-- ... and on a value written with its initiator -/
theorem importValue_init (flags ty gp v : Nat) (i : Init) (hf : needInit flags = true) (ht : ty < 20) (hg : gp < 2 ^ 64)
    (hv : v < 2 ^ 64) (hi : initValid i = true) :
    importValue flags (valueElem ty gp v (some i)) = .ok { type := ty, gp := gp, init := some i, value := v } := by
  cases i with
  | cpuset m =>
    simp only [importValue, valueElem, Elem.attrs, Elem.content, Elem.kids, initAttrs, List.cons_append, List.nil_append, mvLoop_cpuset,
      typeScan_typeString ty ht, num_dec gp hg, num_dec v hv, hf, if_true, importInit, setScan_setText, Res.bind, Option.isSome_none,
      List.isEmpty_nil, Bool.not_true, Bool.or_self, Bool.false_eq_true, if_false]
  | obj t g =>
    simp only [initValid, Bool.and_eq_true, decide_eq_true_eq] at hi
    simp only [importValue, valueElem, Elem.attrs, Elem.content, Elem.kids, initAttrs, List.cons_append, List.nil_append, mvLoop_obj,
      typeScan_typeString ty ht, typeScan_typeString t hi.1, num_dec gp hg, num_dec v hv, num_dec g hi.2, hf, if_true, importInit,
      Res.bind, Option.isSome_none, List.isEmpty_nil, Bool.not_true, Bool.or_self, Bool.false_eq_true, if_false]

theorem maKids_value (flags : Nat) (e : Elem) (es : List Elem) (acc : List Call) (c : Call) (ht : e.tag = tagMemattrValue)
    (h : importValue flags e = .ok c) : maKids flags (e :: es) acc = maKids flags es (acc ++ [c]) := by
  rw [maKids, if_pos ht, h]

theorem valueElem_tag (ty gp v : Nat) (i : Option Init) : (valueElem ty gp v i).tag = tagMemattrValue := rfl

theorem maKids_inits (flags ty gp : Nat) (hf : needInit flags = true) (ht : ty < 20) (hg : gp < 2 ^ 64) (rest : List Elem) :
    ∀ (inits : List (Init × Nat)) (acc : List Call), inits.all (fun iv => initValid iv.1 && decide (iv.2 < 2 ^ 64)) = true →
      maKids flags (inits.map (fun iv => valueElem ty gp iv.2 (some iv.1)) ++ rest) acc =
        maKids flags rest (acc ++ inits.map (fun iv => { type := ty, gp := gp, init := some iv.1, value := iv.2 }))
  | [], acc, _ => by simp
  | iv :: l, acc, h => by
    simp only [List.all_cons, Bool.and_eq_true, decide_eq_true_eq] at h
    rw [List.map_cons, List.cons_append,
      maKids_value flags _ _ acc _ (valueElem_tag _ _ _ _) (importValue_init flags ty gp iv.2 iv.1 hf ht hg h.1.2 h.1.1),
      maKids_inits flags ty gp hf ht hg rest l _ h.2]
    simp

theorem maKids_targets_init (flags : Nat) (hf : needInit flags = true) :
    ∀ (ts : List MTarget) (acc : List Call), ts.all targetValid = true →
      maKids flags (ts.flatMap (targetElems flags)) acc =
        .ok (acc ++ ts.flatMap (fun t => t.inits.map (fun iv => { type := t.type, gp := t.gp, init := some iv.1, value := iv.2 })))
  | [], acc, _ => by simp [maKids]
  | t :: l, acc, h => by
    simp only [List.all_cons, Bool.and_eq_true] at h
    have ht := h.1
    simp only [targetValid, Bool.and_eq_true, decide_eq_true_eq] at ht
    rw [List.flatMap_cons, targetElems, if_pos hf, maKids_inits flags t.type t.gp hf ht.1.1.1 ht.1.1.2 _ t.inits acc ht.2,
      maKids_targets_init flags hf l _ h.2]
    simp

theorem maKids_targets_noinit (flags : Nat) (hf : needInit flags = false) :
    ∀ (ts : List MTarget) (acc : List Call), ts.all targetValid = true →
      maKids flags (ts.flatMap (targetElems flags)) acc =
        .ok (acc ++ ts.map (fun t => { type := t.type, gp := t.gp, init := none, value := t.value }))
  | [], acc, _ => by simp [maKids]
  | t :: l, acc, h => by
    simp only [List.all_cons, Bool.and_eq_true] at h
    have ht := h.1
    simp only [targetValid, Bool.and_eq_true, decide_eq_true_eq] at ht
    have hf' : ¬ (needInit flags = true) := by rw [hf]; simp
    rw [List.flatMap_cons, targetElems, if_neg hf', List.cons_append, List.nil_append,
      maKids_value flags _ _ acc _ (valueElem_tag _ _ _ _) (importValue_noinit flags t.type t.gp t.value hf ht.1.1.1 ht.1.1.2 ht.1.2),
      maKids_targets_noinit flags hf l _ h.2]
    simp

theorem maLoop_export (a : MemAttr) (h : a.flags < 2 ^ 64) :
    maLoop (exportMemAttr a).attrs none ulongMax = .ok (some a.name, a.flags) := by
  have e1 : (b "flags" = b "name") = False := by decide
  simp only [exportMemAttr, Elem.attrs, maLoop, if_true, e1, if_false, num_dec a.flags h]

/-- hwloc__xml_import_memattr ∘ (one iteration of hwloc__xml_export_memattrs) -/
theorem importMemAttr_exportMemAttr (a : MemAttr) (hv : memAttrValid a = true) :
    importMemAttr (exportMemAttr a) = .ok { name := some a.name, flags := a.flags, calls := callsOf a } := by
  simp only [memAttrValid, Bool.and_eq_true, decide_eq_true_eq] at hv
  unfold importMemAttr
  rw [maLoop_export a hv.1]
  simp only [Res.bind, exportMemAttr, Elem.content, Elem.kids, Option.isSome_none, Bool.false_eq_true, if_false]
  cases hf : needInit a.flags
  · rw [maKids_targets_noinit a.flags hf a.targets [] hv.2]
    simp [callsOf, hf]
  · rw [maKids_targets_init a.flags hf a.targets [] hv.2]
    simp [callsOf, hf]

/-! ### memory attributes: hwloc_internal_memattr_set_value rebuilds the target array from the calls -/

def noKey (acc : List MTarget) (ty gp : Nat) : Prop := ∀ u ∈ acc, ¬ (u.type = ty ∧ u.gp = gp)

theorem sameTarget_false (u : MTarget) (c : Call) (h : ¬ (u.type = c.type ∧ u.gp = c.gp)) : sameTarget u c = false := by
  simp only [sameTarget, Bool.and_eq_false_iff, beq_eq_false_iff_ne, ne_eq]
  by_cases e : u.type = c.type
  · exact Or.inr (fun g => h ⟨e, g⟩)
  · exact Or.inl e

theorem setValue_new : ∀ (acc : List MTarget) (c : Call), noKey acc c.type c.gp →
    setValue acc c = acc ++ [applyCall { type := c.type, gp := c.gp } c]
  | [], c, _ => rfl
  | u :: acc, c, h => by
    have hu : sameTarget u c = false := sameTarget_false u c (h u (by simp))
    rw [setValue, hu, setValue_new acc c (fun w hw => h w (by simp [hw]))]
    simp

theorem setValue_last : ∀ (acc : List MTarget) (t : MTarget) (c : Call), noKey acc c.type c.gp → (t.type = c.type ∧ t.gp = c.gp) →
    setValue (acc ++ [t]) c = acc ++ [applyCall t c]
  | [], t, c, _, ht => by
    have hs : sameTarget t c = true := by simp [sameTarget, ht.1, ht.2]
    simp [setValue, hs]
  | u :: acc, t, c, h, ht => by
    have hu : sameTarget u c = false := sameTarget_false u c (h u (by simp))
    rw [List.cons_append, setValue, hu, setValue_last acc t c (fun w hw => h w (by simp [hw])) ht]
    simp

theorem setInit_new : ∀ (l : List (Init × Nat)) (i : Init) (v : Nat), (∀ x ∈ l, matchInit i x.1 = false) → setInit l i v = l ++ [(i, v)]
  | [], _, _, _ => rfl
  | x :: l, i, v, h => by
    rw [setInit, h x (by simp), setInit_new l i v (fun y hy => h y (by simp [hy]))]
    simp

/-- the calls of one target with initiators, after its first one created the entry -/
theorem rebuild_block (acc : List MTarget) (ty gp : Nat) (hk : noKey acc ty gp) :
    ∀ (inits pre : List (Init × Nat)), (∀ iv ∈ inits, ∀ x ∈ pre, matchInit iv.1 x.1 = false) → distinctInits inits = true →
      (inits.map (fun iv => ({ type := ty, gp := gp, init := some iv.1, value := iv.2 } : Call))).foldl setValue
          (acc ++ [{ type := ty, gp := gp, value := 0, inits := pre }]) =
        acc ++ [{ type := ty, gp := gp, value := 0, inits := pre ++ inits }]
  | [], pre, _, _ => by simp
  | iv :: l, pre, hp, hd => by
    simp only [distinctInits, Bool.and_eq_true, Bool.not_eq_true', List.any_eq_false, Bool.not_eq_true] at hd
    rw [List.map_cons, List.foldl_cons, setValue_last acc _ _ hk ⟨rfl, rfl⟩]
    simp only [applyCall]
    rw [setInit_new pre iv.1 iv.2 (fun x hx => hp iv (by simp) x hx)]
    have := rebuild_block acc ty gp hk l (pre ++ [iv])
      (fun jv hj x hx => by
        rcases List.mem_append.mp hx with hx | hx
        · exact hp jv (by simp [hj]) x hx
        · simp only [List.mem_singleton] at hx; subst hx; exact hd.1 jv hj)
      hd.2
    rw [this]; simp

theorem rebuild_init : ∀ (ts acc : List MTarget), (∀ t ∈ ts, noKey acc t.type t.gp) → distinctKeys ts = true →
    ts.all (fun t => !t.inits.isEmpty && distinctInits t.inits) = true →
    (ts.flatMap (fun t => t.inits.map (fun iv => ({ type := t.type, gp := t.gp, init := some iv.1, value := iv.2 } : Call)))).foldl
        setValue acc = acc ++ ts.map (fun t => { t with value := 0 })
  | [], acc, _, _, _ => by simp
  | t :: l, acc, hk, hd, hi => by
    simp only [distinctKeys, Bool.and_eq_true, Bool.not_eq_true', List.any_eq_false, beq_iff_eq, not_and] at hd
    simp only [List.all_cons, Bool.and_eq_true, Bool.not_eq_true', List.isEmpty_eq_false_iff] at hi
    obtain ⟨⟨hne, hdi⟩, hrest⟩ := hi
    have hkt := hk t (by simp)
    cases hin : t.inits with
    | nil => exact absurd hin hne
    | cons iv ivs =>
      rw [hin] at hdi
      simp only [distinctInits, Bool.and_eq_true, Bool.not_eq_true', List.any_eq_false, Bool.not_eq_true] at hdi
      rw [List.flatMap_cons, List.foldl_append, hin, List.map_cons, List.foldl_cons, setValue_new acc _ hkt]
      simp only [applyCall]
      rw [setInit_new [] iv.1 iv.2 (by simp), List.nil_append,
        rebuild_block acc t.type t.gp hkt ivs [iv]
          (fun jv hj x hx => by simp only [List.mem_singleton] at hx; subst hx; exact hdi.1 jv hj) hdi.2]
      have hk' : ∀ u ∈ l, noKey (acc ++ [{ type := t.type, gp := t.gp, value := 0, inits := [iv] ++ ivs }]) u.type u.gp := by
        intro u hu w hw
        rcases List.mem_append.mp hw with hw | hw
        · exact hk u (by simp [hu]) w hw
        · simp only [List.mem_singleton] at hw; subst hw
          intro e; exact hd.1 u hu e.1.symm e.2.symm
      rw [rebuild_init l _ hk' hd.2 hrest]
      obtain ⟨ty, gp, v, ins⟩ := t
      simp only at hin; subst hin
      simp

theorem rebuild_noinit : ∀ (ts acc : List MTarget), (∀ t ∈ ts, noKey acc t.type t.gp) → distinctKeys ts = true →
    (ts.map (fun t => ({ type := t.type, gp := t.gp, init := none, value := t.value } : Call))).foldl setValue acc =
      acc ++ ts.map (fun t => { t with inits := [] })
  | [], acc, _, _ => by simp
  | t :: l, acc, hk, hd => by
    simp only [distinctKeys, Bool.and_eq_true, Bool.not_eq_true', List.any_eq_false, beq_iff_eq, not_and] at hd
    have hkt := hk t (by simp)
    rw [List.map_cons, List.foldl_cons, setValue_new acc _ hkt]
    simp only [applyCall]
    have hk' : ∀ u ∈ l, noKey (acc ++ [{ type := t.type, gp := t.gp, value := t.value, inits := [] }]) u.type u.gp := by
      intro u hu w hw
      rcases List.mem_append.mp hw with hw | hw
      · exact hk u (by simp [hu]) w hw
      · simp only [List.mem_singleton] at hw; subst hw
        intro e; exact hd.1 u hu e.1.symm e.2.symm
    rw [rebuild_noinit l _ hk' hd.2]
    simp

/-- the find-or-append of hwloc__internal_memattr_set_value, run over the calls the importer makes for an exported attribute,
    rebuilds its target array: same targets in the same order, each with its initiators and values in the same order -/
theorem rebuild_callsOf (a : MemAttr) (h : memAttrWF a = true) : rebuild (callsOf a) = a.targets.map (normTarget a.flags) := by
  simp only [memAttrWF, Bool.and_eq_true, Bool.or_eq_true, Bool.not_eq_true'] at h
  unfold rebuild callsOf normTarget
  cases hf : needInit a.flags
  · simp only [Bool.false_eq_true, if_false]
    rw [rebuild_noinit a.targets [] (fun t _ u hu => by cases hu) h.1]; simp
  · simp only [if_true]
    have h2 := h.2
    rw [hf] at h2
    simp only [Bool.true_eq_false, false_or] at h2
    rw [rebuild_init a.targets [] (fun t _ u hu => by cases hu) h.1 h2]; simp

/-! ### distances: the chunked number lists -/

theorem strtoul0_nil : strtoul 0 [] = .ok 0 [] := by decide

theorem noDigitHead_blank (s : Bytes) : NoDigitHead (32 :: s) := by
  intro c cs h; cases h; decide

def numText (items : List Nat) : Bytes := items.flatMap (fun i => homItem i ++ [32])

theorem numText_cons (i : Nat) (l : List Nat) : numText (i :: l) = decDigits i ++ 32 :: numText l := by
  simp [numText, homItem]

/-- the strtoull loop of hwloc__xml_import_distances reads back the numbers EXPORT_ARRAY wrote into one child -/
theorem numLoop_items (cap : Nat) : ∀ (items : List Nat) (f : Nat) (acc : List Nat),
    (∀ i ∈ items, i < 2 ^ 64) → (numText items).length < f → (acc ++ items).length ≤ cap →
    numLoop f (numText items) acc cap = some (acc ++ items)
  | [], f, acc, _, hf, _ => by
    cases f with
    | zero => simp at hf
    | succ f => simp [numLoop, numText, strtoul0_nil]
  | i :: l, f, acc, hb, hf, hc => by
    cases f with
    | zero => simp at hf
    | succ f =>
      have hs : strtoul 0 (decDigits i ++ 32 :: numText l) = .ok i (32 :: numText l) :=
        strtoul0_decDigits i _ (hb i (by simp)) (noDigitHead_blank _)
      have hne : (decDigits i).length ≠ 0 := fun e => decDigits_ne_nil i (List.eq_nil_of_length_eq_zero e)
      have hlen : ¬ ((32 :: numText l).length = (decDigits i ++ 32 :: numText l).length) := by
        simp only [List.length_append, List.length_cons]; omega
      rw [numText_cons, numLoop]
      simp only [hs, hlen, if_false]
      by_cases hcap : (acc ++ [i]).length = cap
      · rw [if_pos hcap]
        have : l = [] := by
          cases l with
          | nil => rfl
          | cons x l' => simp only [List.length_append, List.length_cons, List.length_nil] at hc hcap; omega
        subst this; simp
      · rw [if_neg hcap]
        rw [numText_cons, List.length_append, List.length_cons] at hf
        rw [numLoop_items cap l f (acc ++ [i]) (fun x hx => hb x (by simp [hx])) (by omega) (by simpa using hc)]
        simp

theorem atoi_decDigits (n : Nat) : Xml.atoi (decDigits n) = (n : Int) := by
  have := Xml.atoi_printInt (n : Int)
  unfold Xml.printInt at this
  rw [if_neg (by omega)] at this
  simpa using this

theorem chunkText_chunkElem (tag : Bytes) (items : List Bytes) :
    chunkText (chunkElem tag items) = some (items.flatMap (fun s => s ++ [32])) := by
  simp only [chunkText, chunkElem, Elem.attrs, Elem.content, ne_eq, not_true_eq_false, if_false, atoi_decDigits]
  rw [if_neg (by omega)]

theorem numText_map (l : List Nat) : (l.map homItem).flatMap (fun s => s ++ [32]) = numText l := by
  simp [numText, List.flatMap_map]

/-- the `<indexes>` children of a homogeneous matrix, chunk by chunk -/
theorem dKids_indexes (n : Nat) (rest : List Elem) : ∀ (f : Nat) (l : List Nat) (is : List Nat) (vals : List Nat),
    l.length ≤ f → (∀ i ∈ l, i < 2 ^ 64) → (is ++ l).length ≤ n →
    dKids false n ((chunksF perLine f (l.map homItem)).map (chunkElem tagIndexes) ++ rest) { idx := is.map (fun i => (0, i)), vals := vals } =
      dKids false n rest { idx := (is ++ l).map (fun i => (0, i)), vals := vals }
  | 0, l, is, vals, hl, _, _ => by
    have : l = [] := List.eq_nil_of_length_eq_zero (by omega)
    subst this; simp [chunksF]
  | f + 1, [], is, vals, _, _, _ => by simp [chunksF]
  | f + 1, x :: l, is, vals, hl, hb, hn => by
    have e1 : (tagIndexes = tagInfo) = False := by decide
    have htag : (chunkElem tagIndexes ((x :: l).take perLine |>.map homItem)).tag = tagIndexes := rfl
    have hchunks : chunksF perLine (f + 1) ((x :: l).map homItem) =
        ((x :: l).take perLine).map homItem :: chunksF perLine f (((x :: l).drop perLine).map homItem) := by
      rw [List.map_cons, chunksF, ← List.map_cons, List.map_take, List.map_drop]
    have htk : ((x :: l).take perLine).length ≤ (x :: l).length := by simp [List.length_take]; omega
    have hsplit : (x :: l).take perLine ++ (x :: l).drop perLine = x :: l := List.take_append_drop _ _
    have hlt : is.length < n := by simp only [List.length_append, List.length_cons] at hn; omega
    have hnl := numLoop_items n ((x :: l).take perLine) ((numText ((x :: l).take perLine)).length + 1) is
      (fun i hi => hb i (List.mem_of_mem_take hi)) (by omega)
      (by rw [← hsplit] at hn; simp only [List.length_append] at hn ⊢; omega)
    rw [hchunks, List.map_cons, List.cons_append, dKids]
    simp only [htag, e1, if_false, if_true, chunkText_chunkElem, numText_map, List.length_map, ge_iff_le, Nat.not_le.mpr hlt,
      Bool.false_eq_true, List.map_map]
    have hid : (is.map (fun i => ((0 : Nat), i))).map (·.2) = is := by simp [List.map_map, Function.comp_def]
    have hid' : (List.map ((fun x => x.2) ∘ fun i => ((0 : Nat), i)) is) = is := by simp [Function.comp_def]
    simp only [hid', hnl, chunkElem, Elem.kids, List.isEmpty_nil, Bool.not_true, Bool.false_eq_true, if_false]
    have hdrop : ((x :: l).drop perLine).length ≤ f := by
      simp only [List.length_drop, List.length_cons, perLine] at hl ⊢; omega
    have := dKids_indexes n rest f ((x :: l).drop perLine) (is ++ (x :: l).take perLine) vals hdrop
      (fun i hi => hb i (List.mem_of_mem_drop hi)) (by rw [List.append_assoc, hsplit]; exact hn)
    rw [this, List.append_assoc, hsplit]

/-- the `<u64values>` children, chunk by chunk -/
theorem dKids_values (het : Bool) (n : Nat) (rest : List Elem) (idx : List (Nat × Nat)) : ∀ (f : Nat) (l : List Nat) (vs : List Nat),
    l.length ≤ f → (∀ i ∈ l, i < 2 ^ 64) → (vs ++ l).length ≤ n * n →
    dKids het n ((chunksF perLine f (l.map homItem)).map (chunkElem tagU64) ++ rest) { idx := idx, vals := vs } =
      dKids het n rest { idx := idx, vals := vs ++ l }
  | 0, l, vs, hl, _, _ => by
    have : l = [] := List.eq_nil_of_length_eq_zero (by omega)
    subst this; simp [chunksF]
  | f + 1, [], vs, _, _, _ => by simp [chunksF]
  | f + 1, x :: l, vs, hl, hb, hn => by
    have e1 : (tagU64 = tagInfo) = False := by decide
    have e2 : (tagU64 = tagIndexes) = False := by decide
    have htag : (chunkElem tagU64 ((x :: l).take perLine |>.map homItem)).tag = tagU64 := rfl
    have hchunks : chunksF perLine (f + 1) ((x :: l).map homItem) =
        ((x :: l).take perLine).map homItem :: chunksF perLine f (((x :: l).drop perLine).map homItem) := by
      rw [List.map_cons, chunksF, ← List.map_cons, List.map_take, List.map_drop]
    have hsplit : (x :: l).take perLine ++ (x :: l).drop perLine = x :: l := List.take_append_drop _ _
    have hlt : vs.length < n * n := by simp only [List.length_append, List.length_cons] at hn; omega
    have hnl := numLoop_items (n * n) ((x :: l).take perLine) ((numText ((x :: l).take perLine)).length + 1) vs
      (fun i hi => hb i (List.mem_of_mem_take hi)) (by omega)
      (by rw [← hsplit] at hn; simp only [List.length_append] at hn ⊢; omega)
    rw [hchunks, List.map_cons, List.cons_append, dKids]
    simp only [htag, e1, e2, if_false, if_true, chunkText_chunkElem, numText_map, ge_iff_le, Nat.not_le.mpr hlt,
      Bool.false_eq_true, hnl]
    simp only [chunkElem, Elem.kids, List.isEmpty_nil, Bool.not_true, Bool.false_eq_true, if_false]
    have hdrop : ((x :: l).drop perLine).length ≤ f := by
      simp only [List.length_drop, List.length_cons, perLine] at hl ⊢; omega
    have := dKids_values het n rest idx f ((x :: l).drop perLine) (vs ++ (x :: l).take perLine) hdrop
      (fun i hi => hb i (List.mem_of_mem_drop hi)) (by rw [List.append_assoc, hsplit]; exact hn)
    rw [this, List.append_assoc, hsplit]

theorem dLoop_export_tail (os : Bool) (st : DSt) (hi : st.indexing = false) (ho : st.os = false) (hg : st.gp = false) :
    dLoop [(b "indexing", if os then b "os" else b "gp")] st = .ok { st with indexing := true, os := os, gp := !os } := by
  have a9 : (b "indexing" = b "nbobjs") = False := by decide
  have a10 : (b "indexing" = b "type") = False := by decide
  have v1 : (b "os" == b "os") = true := by decide
  have v2 : (b "os" == b "gp") = false := by decide
  have v3 : (b "gp" == b "os") = false := by decide
  have v4 : (b "gp" == b "gp") = true := by decide
  cases os <;>
    simp only [dLoop, a9, a10, v1, v2, v3, v4, if_false, if_true, ho, hg, Bool.false_eq_true, Bool.or_false, Bool.or_true,
      Bool.false_or, Bool.not_false, Bool.not_true]

theorem dLoop_name (name : Option Bytes) (rest : List (Bytes × Bytes)) (st : DSt) (hn : st.name = none) :
    dLoop (nameAttr name ++ rest) st = dLoop rest { st with name := name.map Xml.sanitize } := by
  have a5 : (b "name" = b "nbobjs") = False := by decide
  have a6 : (b "name" = b "type") = False := by decide
  have a7 : (b "name" = b "indexing") = False := by decide
  have a8 : (b "name" = b "kind") = False := by decide
  cases name with
  | none => obtain ⟨a, b1, c, d, e, f, g, h⟩ := st; simp only at hn; subst hn; rfl
  | some s => simp only [nameAttr, List.cons_append, List.nil_append, dLoop, a5, a6, a7, a8, if_false, if_true, Option.map_some]

theorem dLoop_head_hom (t kind n : Nat) (rest : List (Bytes × Bytes)) (ht : t < 20) (hk : kind < 2 ^ 64) (hn : n < 2 ^ 32) :
    dLoop ([(b "type", TypeStr.typeString t), (b "nbobjs", decDigits n), (b "kind", decDigits kind)] ++ rest)
        { indexing := false, gp := false } =
      dLoop rest { nbobjs := n, utype := some t, indexing := false, gp := false, kind := kind, gotkind := true } := by
  have a1 : (b "type" = b "nbobjs") = False := by decide
  have a2 : (b "kind" = b "nbobjs") = False := by decide
  have a3 : (b "kind" = b "type") = False := by decide
  have a4 : (b "kind" = b "indexing") = False := by decide
  have hn64 : n < 2 ^ 64 := by omega
  have hmod : n % 2 ^ 32 = n := Nat.mod_eq_of_lt hn
  simp only [List.cons_append, List.nil_append, dLoop, a1, a2, a3, a4, if_false, if_true, num_dec n hn64, num_dec kind hk,
    typeScan_typeString t ht, hmod]

theorem dLoop_export_hom (t kind n : Nat) (name : Option Bytes) (ht : t < 20) (hk : kind < 2 ^ 64) (hn : n < 2 ^ 32) :
    dLoop ([(b "type", TypeStr.typeString t), (b "nbobjs", decDigits n), (b "kind", decDigits kind)] ++ nameAttr name ++
           [(b "indexing", if useOsIndex t then b "os" else b "gp")]) { indexing := false, gp := false } =
      .ok { nbobjs := n, utype := some t, indexing := true, os := useOsIndex t, gp := !useOsIndex t, kind := kind, gotkind := true,
            name := name.map Xml.sanitize } := by
  rw [List.append_assoc, dLoop_head_hom t kind n _ ht hk hn, dLoop_name name _ _ rfl, dLoop_export_tail (useOsIndex t) _ rfl rfl rfl]

theorem dKids_nil (het : Bool) (n : Nat) (acc : DAcc) : dKids het n [] acc = .ok acc := by rw [dKids]

/-- hwloc__xml_import_distances ∘ hwloc___xml_v2export_distances for a homogeneous matrix -/
theorem importDist_exportDist_hom (d : Dist) (hv : distValid d = true) (hh : d.types = none) :
    importDist false (exportDist d) = .ok (some (normDist d)) := by
  obtain ⟨utype, types, kind, name, idx, values⟩ := d
  simp only at hh
  subst hh
  cases utype with
  | none => simp [distValid] at hv
  | some t =>
    simp only [distValid, Dist.nbobjs, Bool.and_eq_true, List.all_eq_true] at hv
    obtain ⟨⟨⟨⟨⟨⟨h2, hmax⟩, hvl⟩, hk⟩, hib⟩, hvb⟩, ht⟩ := hv
    have h2 := of_decide_eq_true h2
    have hmax := of_decide_eq_true hmax
    have hvl := of_decide_eq_true hvl
    have hk := of_decide_eq_true hk
    have ht := of_decide_eq_true ht
    have hn32 : idx.length < 2 ^ 32 := by omega
    have hattrs := dLoop_export_hom t kind idx.length name ht hk hn32
    have hk1 := dKids_indexes idx.length ((chunks (values.map homItem)).map (chunkElem tagU64)) idx.length idx [] []
      (Nat.le_refl _) (fun i hi => of_decide_eq_true (hib i hi)) (by simp)
    have hk2 := dKids_values false idx.length [] (idx.map (fun i => (0, i))) values.length values []
      (Nat.le_refl _) (fun i hi => of_decide_eq_true (hvb i hi)) (by simp [hvl])
    simp only [List.map_nil, List.nil_append, List.append_nil] at hk1 hk2
    have hexp : exportDist { utype := some t, types := none, kind := kind, name := name, idx := idx, values := values } =
        .mk tagDist ([(b "type", TypeStr.typeString t), (b "nbobjs", decDigits idx.length), (b "kind", decDigits kind)] ++
           nameAttr name ++
           [(b "indexing", if useOsIndex t then b "os" else b "gp")]) none
          ((chunksF perLine idx.length (idx.map homItem)).map (chunkElem tagIndexes) ++
           (chunks (values.map homItem)).map (chunkElem tagU64)) := by
      simp [exportDist, Dist.nbobjs, chunks]
    rw [hexp]
    unfold importDist
    simp only [Elem.attrs, Elem.content, Elem.kids]
    rw [hattrs]
    simp only [Res.bind]
    rw [hk1]
    simp only [chunks, List.length_map]
    rw [hk2, dKids_nil]
    have hz : ¬ (idx.length = 0) := by omega
    have hbig : ¬ (idx.length > 0xffff) := by omega
    have hsm : ¬ (idx.length < 2) := by omega
    simp only [hz, hbig, hsm, hvl, decide_false, Bool.false_or, Bool.or_false, Bool.not_true, Bool.not_false,
      Option.isNone_some, Option.isSome_none, Bool.and_false, Bool.false_eq_true, if_false, List.length_map, ne_eq, not_true_eq_false,
      List.map_map, normDist]
    cases hu : useOsIndex t <;> simp [Function.comp_def]

/-! ### heterogeneous matrices: `Type:gp_index` items.  The prefix behaviour of hwloc_type_sscanf (it is handed the REST of the text,
    not one item) is a hypothesis here: `TypePrefixOk` — the C11 model of hwloc_type_sscanf is proved on whole strings only. -/

def TypePrefixOk (t : Nat) : Prop := ∀ rest : Bytes, typeScan (TypeStr.typeString t ++ 58 :: rest) = some t

def hetText (items : List (Nat × Nat)) : Bytes := items.flatMap (fun ti => hetItem ti ++ [32])

theorem hetText_cons (ti : Nat × Nat) (l : List (Nat × Nat)) :
    hetText (ti :: l) = TypeStr.typeString ti.1 ++ 58 :: (decDigits ti.2 ++ 32 :: hetText l) := by
  simp [hetText, hetItem]

theorem typeString_no_colon : ∀ t, t < 20 → (TypeStr.typeString t).all (fun x => decide (x ≠ 58)) = true := by decide

theorem dropWhile_all (p : Nat → Bool) : ∀ (a b : List Nat), a.all p = true → (a ++ b).dropWhile p = b.dropWhile p
  | [], _, _ => rfl
  | x :: a, b2, h => by
    simp only [List.all_cons, Bool.and_eq_true] at h
    rw [List.cons_append, List.dropWhile_cons, if_pos h.1, dropWhile_all p a b2 h.2]

theorem hetLoop_items (cap : Nat) : ∀ (items : List (Nat × Nat)) (f : Nat) (acc : List (Nat × Nat)),
    (∀ ti ∈ items, ti.1 < 20 ∧ TypePrefixOk ti.1 ∧ ti.2 < 2 ^ 64) → (hetText items).length < f → (acc ++ items).length ≤ cap →
    hetLoop f (hetText items) acc cap = .ok (acc ++ items)
  | [], f, acc, _, hf, _ => by
    cases f with
    | zero => simp at hf
    | succ f => simp [hetLoop, hetText]
  | ti :: l, f, acc, hb, hf, hc => by
    cases f with
    | zero => simp at hf
    | succ f =>
      obtain ⟨ht, hp, hi⟩ := hb ti (by simp)
      have hs : strtoul 0 (decDigits ti.2 ++ 32 :: hetText l) = .ok ti.2 (32 :: hetText l) :=
        strtoul0_decDigits ti.2 _ hi (noDigitHead_blank _)
      have hne : (decDigits ti.2).length ≠ 0 := fun e => decDigits_ne_nil ti.2 (List.eq_nil_of_length_eq_zero e)
      have hlen : ¬ ((32 :: hetText l).length = (decDigits ti.2 ++ 32 :: hetText l).length) := by
        simp only [List.length_append, List.length_cons]; omega
      have hemp : (TypeStr.typeString ti.1 ++ 58 :: (decDigits ti.2 ++ 32 :: hetText l)).isEmpty = false := by
        cases TypeStr.typeString ti.1 <;> rfl
      have hdw : (TypeStr.typeString ti.1 ++ 58 :: (decDigits ti.2 ++ 32 :: hetText l)).dropWhile (fun x => decide (x ≠ 58)) =
          58 :: (decDigits ti.2 ++ 32 :: hetText l) := by
        rw [dropWhile_all _ _ _ (typeString_no_colon ti.1 ht)]; simp
      rw [hetText_cons, hetLoop]
      simp only [hemp, Bool.false_eq_true, if_false, hp _, hdw, hs, hlen]
      by_cases hcap : (acc ++ [(ti.1, ti.2)]).length = cap
      · rw [if_pos hcap]
        have : l = [] := by
          cases l with
          | nil => rfl
          | cons x l' => simp only [List.length_append, List.length_cons, List.length_nil] at hc hcap; omega
        subst this; simp
      · rw [if_neg hcap]
        rw [hetText_cons, List.length_append, List.length_cons, List.length_append, List.length_cons] at hf
        rw [hetLoop_items cap l f (acc ++ [(ti.1, ti.2)]) (fun x hx => hb x (by simp [hx])) (by omega) (by simpa using hc)]
        simp

theorem hetText_map (l : List (Nat × Nat)) : (l.map hetItem).flatMap (fun s => s ++ [32]) = hetText l := by
  simp [hetText, List.flatMap_map]

/-- the `<indexes>` children of a heterogeneous matrix, chunk by chunk -/
theorem dKids_indexes_het (n : Nat) (rest : List Elem) : ∀ (f : Nat) (l : List (Nat × Nat)) (is : List (Nat × Nat)) (vals : List Nat),
    l.length ≤ f → (∀ ti ∈ l, ti.1 < 20 ∧ TypePrefixOk ti.1 ∧ ti.2 < 2 ^ 64) → (is ++ l).length ≤ n →
    dKids true n ((chunksF perLine f (l.map hetItem)).map (chunkElem tagIndexes) ++ rest) { idx := is, vals := vals } =
      dKids true n rest { idx := is ++ l, vals := vals }
  | 0, l, is, vals, hl, _, _ => by
    have : l = [] := List.eq_nil_of_length_eq_zero (by omega)
    subst this; simp [chunksF]
  | f + 1, [], is, vals, _, _, _ => by simp [chunksF]
  | f + 1, x :: l, is, vals, hl, hb, hn => by
    have e1 : (tagIndexes = tagInfo) = False := by decide
    have htag : (chunkElem tagIndexes ((x :: l).take perLine |>.map hetItem)).tag = tagIndexes := rfl
    have hchunks : chunksF perLine (f + 1) ((x :: l).map hetItem) =
        ((x :: l).take perLine).map hetItem :: chunksF perLine f (((x :: l).drop perLine).map hetItem) := by
      rw [List.map_cons, chunksF, ← List.map_cons, List.map_take, List.map_drop]
    have hsplit : (x :: l).take perLine ++ (x :: l).drop perLine = x :: l := List.take_append_drop _ _
    have hlt : is.length < n := by simp only [List.length_append, List.length_cons] at hn; omega
    have hnl := hetLoop_items n ((x :: l).take perLine) ((hetText ((x :: l).take perLine)).length + 1) is
      (fun i hi => hb i (List.mem_of_mem_take hi)) (by omega)
      (by rw [← hsplit] at hn; simp only [List.length_append] at hn ⊢; omega)
    rw [hchunks, List.map_cons, List.cons_append, dKids]
    simp only [htag, e1, if_false, if_true, chunkText_chunkElem, hetText_map, ge_iff_le, Nat.not_le.mpr hlt,
      Bool.false_eq_true, hnl]
    simp only [chunkElem, Elem.kids, List.isEmpty_nil, Bool.not_true, Bool.false_eq_true, if_false]
    have hdrop : ((x :: l).drop perLine).length ≤ f := by
      simp only [List.length_drop, List.length_cons, perLine] at hl ⊢; omega
    have := dKids_indexes_het n rest f ((x :: l).drop perLine) (is ++ (x :: l).take perLine) vals hdrop
      (fun i hi => hb i (List.mem_of_mem_drop hi)) (by rw [List.append_assoc, hsplit]; exact hn)
    rw [this, List.append_assoc, hsplit]

theorem dLoop_head_het (kind n : Nat) (rest : List (Bytes × Bytes)) (hk : kind < 2 ^ 64) (hn : n < 2 ^ 32) :
    dLoop ([(b "nbobjs", decDigits n), (b "kind", decDigits kind)] ++ rest) { indexing := true, gp := true } =
      dLoop rest { nbobjs := n, indexing := true, gp := true, kind := kind, gotkind := true } := by
  have a2 : (b "kind" = b "nbobjs") = False := by decide
  have a3 : (b "kind" = b "type") = False := by decide
  have a4 : (b "kind" = b "indexing") = False := by decide
  have hn64 : n < 2 ^ 64 := by omega
  have hmod : n % 2 ^ 32 = n := Nat.mod_eq_of_lt hn
  simp only [List.cons_append, List.nil_append, dLoop, a2, a3, a4, if_false, if_true, num_dec n hn64, num_dec kind hk, hmod]

theorem dLoop_nil (st : DSt) : dLoop [] st = .ok st := by rw [dLoop]

/-- hwloc__xml_import_distances ∘ hwloc___xml_v2export_distances for a heterogeneous matrix (PARTIAL: under `TypePrefixOk`) -/
theorem importDist_exportDist_het (d : Dist) (hv : distValid d = true) (ts : List Nat) (hh : d.types = some ts)
    (hp : ∀ t ∈ ts, TypePrefixOk t) :
    importDist true (exportDist d) = .ok (some (normDist d)) := by
  obtain ⟨utype, types, kind, name, idx, values⟩ := d
  simp only at hh
  subst hh
  cases utype with
  | some t => simp [distValid] at hv
  | none =>
    simp only [distValid, Dist.nbobjs, Bool.and_eq_true, List.all_eq_true] at hv
    obtain ⟨⟨⟨⟨⟨⟨h2, hmax⟩, hvl⟩, hk⟩, hib⟩, hvb⟩, htl, htb⟩ := hv
    have h2 := of_decide_eq_true h2
    have hmax := of_decide_eq_true hmax
    have hvl := of_decide_eq_true hvl
    have hk := of_decide_eq_true hk
    have htl := of_decide_eq_true htl
    have hn32 : idx.length < 2 ^ 32 := by omega
    have hzl : (ts.zip idx).length = idx.length := by simp [List.length_zip, htl]
    have hk1 := dKids_indexes_het idx.length ((chunks (values.map homItem)).map (chunkElem tagU64)) idx.length (ts.zip idx) [] []
      (by omega)
      (fun ti hi => ⟨of_decide_eq_true (htb ti.1 (List.of_mem_zip hi).1), hp ti.1 (List.of_mem_zip hi).1,
                     of_decide_eq_true (hib ti.2 (List.of_mem_zip hi).2)⟩) (by simp [hzl])
    have hk2 := dKids_values true idx.length [] (ts.zip idx) values.length values []
      (Nat.le_refl _) (fun i hi => of_decide_eq_true (hvb i hi)) (by simp [hvl])
    simp only [List.nil_append, List.append_nil] at hk1 hk2
    have hexp : exportDist { utype := none, types := some ts, kind := kind, name := name, idx := idx, values := values } =
        .mk tagDistHetero ([(b "nbobjs", decDigits idx.length), (b "kind", decDigits kind)] ++ nameAttr name) none
          ((chunksF perLine idx.length ((ts.zip idx).map hetItem)).map (chunkElem tagIndexes) ++
           (chunks (values.map homItem)).map (chunkElem tagU64)) := by
      simp [exportDist, Dist.nbobjs, chunks, hzl]
    have hattrs : dLoop ([(b "nbobjs", decDigits idx.length), (b "kind", decDigits kind)] ++ nameAttr name)
        { indexing := true, gp := true } =
        .ok { nbobjs := idx.length, indexing := true, gp := true, kind := kind, gotkind := true, name := name.map Xml.sanitize } := by
      have := dLoop_name name [] { nbobjs := idx.length, indexing := true, gp := true, kind := kind, gotkind := true } rfl
      rw [List.append_nil] at this
      rw [dLoop_head_het kind idx.length _ hk hn32, this, dLoop_nil]
    rw [hexp]
    unfold importDist
    simp only [Elem.attrs, Elem.content, Elem.kids]
    rw [hattrs]
    simp only [Res.bind]
    rw [hk1]
    simp only [chunks, List.length_map]
    rw [hk2, dKids_nil]
    have hz : ¬ (idx.length = 0) := by omega
    have hbig : ¬ (idx.length > 0xffff) := by omega
    have hsm : ¬ (idx.length < 2) := by omega
    have hf1 : (ts.zip idx).map (·.1) = ts := List.map_fst_zip (by omega)
    have hf2 : (ts.zip idx).map (·.2) = idx := List.map_snd_zip (by omega)
    simp only [hz, hbig, hsm, hvl, hzl, decide_false, Bool.false_or, Bool.or_false, Bool.not_true, Bool.not_false,
      Option.isSome_none, Bool.and_false, Bool.false_and, Bool.false_eq_true, if_false, if_true, ne_eq, not_true_eq_false,
      normDist, hf1, hf2]

/-- hwloc_type_sscanf stops at the colon: for each of the 20 type names, whatever follows (kernel evaluation of the C11 model with a
    symbolic rest: it never looks past the colon) -/
theorem typePrefixOk_all : ∀ t, t < 20 → TypePrefixOk t := by
  intro t ht rest
  match t, ht with
  | 0, _ => rfl | 1, _ => rfl | 2, _ => rfl | 3, _ => rfl | 4, _ => rfl | 5, _ => rfl | 6, _ => rfl | 7, _ => rfl | 8, _ => rfl
  | 9, _ => rfl | 10, _ => rfl | 11, _ => rfl | 12, _ => rfl | 13, _ => rfl | 14, _ => rfl | 15, _ => rfl | 16, _ => rfl
  | 17, _ => rfl | 18, _ => rfl | 19, _ => rfl
  | n + 20, h => exact absurd h (by omega)

/-- hwloc__xml_import_distances ∘ hwloc___xml_v2export_distances, both element kinds -/
theorem importDist_exportDist (d : Dist) (hv : distValid d = true) :
    importDist d.types.isSome (exportDist d) = .ok (some (normDist d)) := by
  cases hh : d.types with
  | none => exact importDist_exportDist_hom d hv hh
  | some ts =>
    have htb : ∀ t ∈ ts, t < 20 := by
      obtain ⟨utype, types, kind, name, idx, values⟩ := d
      simp only at hh; subst hh
      cases utype with
      | some t => simp [distValid] at hv
      | none =>
        simp only [distValid, Bool.and_eq_true, List.all_eq_true] at hv
        exact fun t ht => of_decide_eq_true (hv.2.2 t ht)
    exact importDist_exportDist_het d hv ts hh (fun t ht => typePrefixOk_all t (htb t ht))

/-! ### the whole list of elements after the root object -/

theorem exportDist_tag (d : Dist) : (exportDist d).tag = if d.types.isSome then tagDistHetero else tagDist := by
  unfold exportDist
  cases d.types <;> rfl

theorem importSide_nil (s : Side) : importSide [] s = .ok s := by rw [importSide]

theorem importSide_dists (rest : List Elem) : ∀ (ds : List Dist) (s : Side), (∀ d ∈ ds, distValid d = true) →
    importSide (ds.map exportDist ++ rest) s = importSide rest { s with dists := s.dists ++ ds.map normDist }
  | [], s, _ => by simp
  | d :: l, s, h => by
    have e1 : (tagDist = tagDistHetero) = False := by decide
    have hi := importDist_exportDist d (h d (by simp))
    rw [List.map_cons, List.cons_append, importSide, exportDist_tag]
    cases ht : d.types.isSome
    · rw [ht] at hi
      simp only [Bool.false_eq_true, if_false, e1, decide_true, decide_false, Bool.true_or, if_true, hi]
      rw [importSide_dists rest l _ (fun x hx => h x (by simp [hx]))]
      simp
    · rw [ht] at hi
      simp only [if_true, decide_true, Bool.or_true, hi]
      rw [importSide_dists rest l _ (fun x hx => h x (by simp [hx]))]
      simp

def toIn (a : MemAttr) : MemAttrIn := { name := some a.name, flags := a.flags, calls := callsOf a }

theorem importSide_memattrs (rest : List Elem) : ∀ (as : List MemAttr) (s : Side), (∀ a ∈ as, memAttrValid a = true) →
    importSide (as.map exportMemAttr ++ rest) s = importSide rest { s with memattrs := s.memattrs ++ as.map toIn }
  | [], s, _ => by simp
  | a :: l, s, h => by
    have e1 : (tagMemattr = tagDist) = False := by decide
    have e2 : (tagMemattr = tagDistHetero) = False := by decide
    have e3 : (tagMemattr = tagSupport) = False := by decide
    have ht : (exportMemAttr a).tag = tagMemattr := rfl
    rw [List.map_cons, List.cons_append, importSide]
    simp only [ht, e1, e2, e3, decide_false, Bool.or_self, Bool.false_eq_true, if_false, if_true,
      importMemAttr_exportMemAttr a (h a (by simp))]
    rw [importSide_memattrs rest l _ (fun x hx => h x (by simp [hx]))]
    simp [toIn]

theorem importSide_kinds (rest : List Elem) : ∀ (ks : List Kind) (s : Side), (∀ k ∈ ks, kindValid k = true) →
    importSide (ks.map exportKind ++ rest) s = importSide rest { s with kinds := s.kinds ++ ks.map normKind }
  | [], s, _ => by simp
  | k :: l, s, h => by
    have e1 : (tagCpukind = tagDist) = False := by decide
    have e2 : (tagCpukind = tagDistHetero) = False := by decide
    have e3 : (tagCpukind = tagSupport) = False := by decide
    have e4 : (tagCpukind = tagMemattr) = False := by decide
    have ht : (exportKind k).tag = tagCpukind := rfl
    rw [List.map_cons, List.cons_append, importSide]
    simp only [ht, e1, e2, e3, e4, decide_false, Bool.or_self, Bool.false_eq_true, if_false, if_true, importKind_exportKind k (h k (by simp))]
    rw [importSide_kinds rest l _ (fun x hx => h x (by simp [hx]))]
    simp

theorem importSide_infos : ∀ (is : List (Bytes × Bytes)) (s : Side),
    importSide (is.map infoElem) s = .ok { s with infos := s.infos ++ is.map sanPair }
  | [], s => by simp [importSide_nil]
  | p :: l, s => by
    have e1 : (tagInfo = tagDist) = False := by decide
    have e2 : (tagInfo = tagDistHetero) = False := by decide
    have e3 : (tagInfo = tagSupport) = False := by decide
    have e4 : (tagInfo = tagMemattr) = False := by decide
    have e5 : (tagInfo = tagCpukind) = False := by decide
    have ht : (infoElem p).tag = tagInfo := rfl
    rw [List.map_cons, importSide]
    simp only [ht, e1, e2, e3, e4, e5, decide_false, Bool.or_self, Bool.false_eq_true, if_false, if_true, infoChild_infoElem]
    rw [importSide_infos l _]
    simp

/-- what the loop of hwloc_look_xml collects from the side elements the exporter writes -/
def sideOf (dists : List Dist) (memattrs : List MemAttr) (kinds : List Kind) (infos : List (Bytes × Bytes)) : Side :=
  { dists := ((dists.filter (fun d => d.types.isNone)) ++ (dists.filter (fun d => d.types.isSome))).map normDist,
    memattrs := ((((List.range memattrs.length).zip memattrs).filter exported).map (fun ia => toIn ia.2)),
    kinds := kinds.map normKind,
    infos := infos.map sanPair }

theorem importSide_exportSide (dists : List Dist) (memattrs : List MemAttr) (kinds : List Kind) (infos : List (Bytes × Bytes))
    (hd : ∀ d ∈ dists, distValid d = true) (hm : ∀ a ∈ memattrs, memAttrValid a = true) (hk : ∀ k ∈ kinds, kindValid k = true) :
    importSide (exportSide dists memattrs kinds infos) {} = .ok (sideOf dists memattrs kinds infos) := by
  unfold exportSide exportDists exportMemAttrs exportKinds
  have hm' : ∀ a ∈ (((List.range memattrs.length).zip memattrs).filter exported).map (·.2), memAttrValid a = true := by
    intro a ha
    obtain ⟨ia, hia, rfl⟩ := List.mem_map.mp ha
    exact hm ia.2 (List.of_mem_zip (List.mem_filter.mp hia).1).2
  have hmap : (((List.range memattrs.length).zip memattrs).filter exported).map (fun ia => exportMemAttr ia.2) =
      ((((List.range memattrs.length).zip memattrs).filter exported).map (·.2)).map exportMemAttr := by simp
  rw [List.append_assoc, List.append_assoc, List.append_assoc,
    importSide_dists _ _ _ (fun d h => hd d (List.mem_filter.mp h).1),
    importSide_dists _ _ _ (fun d h => hd d (List.mem_filter.mp h).1),
    hmap, importSide_memattrs _ _ _ hm', importSide_kinds _ _ _ hk, importSide_infos]
  simp [sideOf]

end Hw.XmlSide
