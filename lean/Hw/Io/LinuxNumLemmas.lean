/-
  Hw.Io.LinuxNumLemmas — facts about the small file readers (model: Hw/Io/LinuxNum.lean).
-/
import Hw.Io.LinuxNum
import Hw.Base.NumLemmas
import Hw.Io.LinuxParseList
namespace Hw.LinuxNum
open Hw Hw.LinuxParse

/-! ### hwloc_read_path_by_length -/

theorem readBytes_length (n : Nat) (c : List Byte) : (readBytes n c).length ≤ n - 1 := by
  unfold readBytes; rw [List.length_take]; exact Nat.min_le_left _ _

/-- a successful read: the bytes stored are the first `n-1` bytes of the file, there is at least one, and the
NUL behind them (`string[ret] = 0`) lands inside the `n`-byte buffer -/
theorem readByLength_some (n : Nat) (c b : List Byte) (h : readByLength n c = some b) :
    b = c.take (n - 1) ∧ 0 < b.length ∧ b.length < n := by
  unfold readByLength at h
  split at h
  · cases h
  · rename_i hne
    have hb : b = readBytes n c := by injection h with h; exact h.symm
    subst hb
    have hl := readBytes_length n c
    have hp : 0 < (readBytes n c).length := List.length_pos_iff.mpr hne
    exact ⟨rfl, hp, by omega⟩

theorem readByLength_none_iff (n : Nat) (c : List Byte) : readByLength n c = none ↔ (c = [] ∨ n ≤ 1) := by
  unfold readByLength readBytes
  constructor
  · intro h
    split at h
    · rename_i he
      rw [List.take_eq_nil_iff] at he
      rcases he with he | he
      · right; omega
      · left; exact he
    · cases h
  · intro h
    have : List.take (n - 1) c = [] := by
      rw [List.take_eq_nil_iff]
      rcases h with h | h
      · right; exact h
      · left; omega
    simp [this]

/-- the result depends only on the first `n-1` bytes of the file -/
theorem readByLength_prefix (n : Nat) (c c' : List Byte) (h : c.take (n - 1) = c'.take (n - 1)) :
    readByLength n c = readByLength n c' := by
  unfold readByLength readBytes; rw [h]

theorem readPath_prefix (n : Nat) (c c' : List Byte) (h : c.take (n - 1) = c'.take (n - 1)) :
    readPath n (some c) = readPath n (some c') := by
  unfold readPath; exact readByLength_prefix n c c' h

theorem readPath_some (n : Nat) (f : Option (List Byte)) (b : List Byte) (h : readPath n f = some b) :
    ∃ c, f = some c ∧ b = c.take (n - 1) ∧ 0 < b.length ∧ b.length < n := by
  cases f with
  | none => cases h
  | some c => exact ⟨c, rfl, readByLength_some n c b h⟩

/-- C string functions on the buffer stop at the first NUL, which is at or before `string[ret]` -/
theorem cstr_length_le (b : List Byte) : (cstr b).length ≤ b.length := by
  unfold cstr; exact (List.takeWhile_prefix _).length_le

/-! ### decimal digits -/

/-- value of a digit string (most significant first) -/
def decVal (ds : List Byte) : Nat := ds.foldl (fun a c => a * 10 + (c - 48)) 0

/-- the next byte, if any, is no decimal digit -/
def NoDecHead (s : List Byte) : Prop := ∀ c cs, s = c :: cs → ¬ IsDecChar c

theorem noDecHead_nil : NoDecHead [] := by intro c cs h; cases h

theorem noDecHead_cons (c : Byte) (cs : List Byte) (h : ¬ IsDecChar c) : NoDecHead (c :: cs) := by
  intro c' cs' e; injection e with e1 _; subst e1; exact h

theorem digitVal_nodec (c : Byte) (h : ¬ IsDecChar c) (d : Nat) (hd : digitVal c = some d) : 10 ≤ d := by
  unfold IsDecChar at h
  unfold digitVal at hd
  split at hd
  · rename_i h'; exact absurd h' h
  · split at hd
    · injection hd with hd; unfold Byte at *; omega
    · split at hd
      · injection hd with hd; unfold Byte at *; omega
      · cases hd

theorem takeDigits10_stop (rest : List Byte) (h : NoDecHead rest) (a k : Nat) :
    takeDigits 10 rest a k = (a, k, rest) := by
  cases rest with
  | nil => rfl
  | cons c cs =>
    have hc := h c cs rfl
    rw [takeDigits]
    split
    · rename_i d hd
      have := digitVal_nodec c hc d hd
      rw [if_neg (by omega)]
    · rfl

theorem takeDigits10_decs (ds : List Byte) (hds : ∀ c ∈ ds, IsDecChar c) (rest : List Byte) (hr : NoDecHead rest) :
    ∀ a k, takeDigits 10 (ds ++ rest) a k = (ds.foldl (fun a c => a * 10 + (c - 48)) a, k + ds.length, rest) := by
  induction ds with
  | nil => intro a k; rw [List.nil_append, takeDigits10_stop rest hr]; rfl
  | cons d ds ih =>
    intro a k
    have hd := hds d (List.mem_cons_self)
    unfold IsDecChar at hd
    have hv : digitVal d = some (d - 48) := by unfold digitVal; rw [if_pos hd]
    have hlt : d - 48 < 10 := by unfold Byte at *; omega
    rw [List.cons_append, takeDigits]
    simp only [hv, hlt, ↓reduceIte]
    rw [ih (fun c hc => hds c (List.mem_cons_of_mem _ hc))]
    rw [List.foldl_cons, List.length_cons, Nat.add_assoc, Nat.add_comm 1]

theorem numBody10 (s : List Byte) : numBody 10 s = takeDigits 10 s 0 0 := by
  unfold numBody
  split
  rename_i heq
  split at heq <;> simp at heq <;> rw [← heq.1, ← heq.2]

theorem isSpace_dec (c : Nat) (h : IsDecChar c) : isSpace c = false := by
  unfold IsDecChar at h
  unfold isSpace
  have h1 : (c == 32) = false := by simp; omega
  have h2 : (decide (9 ≤ c) && decide (c ≤ 13)) = false := by simp; omega
  rw [h1, h2]; rfl

theorem decHead_nosign (d : Nat) (l : List Byte) (hd : IsDecChar d) :
    (∀ t, (d :: l : List Byte) ≠ 43 :: t) ∧ (∀ t, (d :: l : List Byte) ≠ 45 :: t) := by
  unfold IsDecChar at hd
  constructor <;> (intro t e; injection e with e1 _; omega)

theorem strtoulS10_decs (ds : List Byte) (hne : ds ≠ []) (hds : ∀ c ∈ ds, IsDecChar c) (rest : List Byte)
    (hr : NoDecHead rest) : strtoulS 10 (ds ++ rest) = (min (decVal ds) ulongMax, rest) := by
  cases ds with
  | nil => exact absurd rfl hne
  | cons d ds' =>
    have hd := hds d (List.mem_cons_self)
    have hsp := isSpace_dec d hd
    have hdw : (d :: ds' ++ rest).dropWhile isSpace = d :: (ds' ++ rest) := by
      rw [List.cons_append, List.dropWhile_cons, hsp]; rfl
    have hns := decHead_nosign d (ds' ++ rest) hd
    unfold strtoulS
    rw [scanNum_nosign 10 _ _ hdw hns.1 hns.2, numBody10, ← List.cons_append,
      takeDigits10_decs (d :: ds') hds rest hr]
    simp only [List.length_cons, Nat.zero_add]
    rw [if_neg (by omega)]
    simp only [signedVal, decVal, Bool.false_eq_true, if_false]
    congr 1
    unfold Byte at *
    split <;> omega

theorem splitSign_nosign (s s1 : List Byte) (hs : s.dropWhile isSpace = s1)
    (h43 : ∀ t, s1 ≠ 43 :: t) (h45 : ∀ t, s1 ≠ 45 :: t) : splitSign s = (false, s1) := by
  unfold splitSign
  simp only [hs]

theorem strtolVal10_decs (ds : List Byte) (hne : ds ≠ []) (hds : ∀ c ∈ ds, IsDecChar c) (rest : List Byte)
    (hr : NoDecHead rest) : strtolVal 10 (ds ++ rest) = ((min (decVal ds) (2^63 - 1) : Nat) : Int) := by
  cases ds with
  | nil => exact absurd rfl hne
  | cons d ds' =>
    have hd := hds d (List.mem_cons_self)
    have hsp := isSpace_dec d hd
    have hdw : (d :: ds' ++ rest).dropWhile isSpace = d :: (ds' ++ rest) := by
      rw [List.cons_append, List.dropWhile_cons, hsp]; rfl
    have hns := decHead_nosign d (ds' ++ rest) hd
    unfold strtolVal
    rw [splitSign_nosign _ _ hdw hns.1 hns.2]
    simp only []
    rw [numBody10, ← List.cons_append, takeDigits10_decs (d :: ds') hds rest hr]
    simp only [List.length_cons, Nat.zero_add]
    rw [if_neg (by omega)]
    simp only [Bool.false_eq_true, if_false]
    show (if 2 ^ 63 ≤ decVal (d :: ds') then (2 ^ 63 : Int) - 1 else ((decVal (d :: ds') : Nat) : Int)) = _
    split
    · rename_i h; rw [Nat.min_eq_right (by omega)]; omega
    · rename_i h; rw [Nat.min_eq_left (by omega)]

/-! ### what is left of a `digits ++ rest` file in an `n`-byte buffer -/

theorem cstr_append_nonzero (ds rest : List Byte) (h : ∀ c ∈ ds, c ≠ 0) : cstr (ds ++ rest) = ds ++ cstr rest := by
  unfold cstr
  induction ds with
  | nil => rfl
  | cons d ds ih =>
    have hd := h d (List.mem_cons_self)
    rw [List.cons_append, List.takeWhile_cons]
    simp only [bne_iff_ne, ne_eq, hd, not_false_eq_true, if_true, List.cons_append]
    rw [ih (fun c hc => h c (List.mem_cons_of_mem _ hc))]

theorem noDecHead_cstr_take (rest : List Byte) (h : NoDecHead rest) (k : Nat) : NoDecHead (cstr (rest.take k)) := by
  cases rest with
  | nil => simp [cstr, noDecHead_nil]
  | cons c cs =>
    cases k with
    | zero => simp [cstr, noDecHead_nil]
    | succ k =>
      rw [List.take_succ_cons]
      unfold cstr
      rw [List.takeWhile_cons]
      split
      · exact noDecHead_cons _ _ (h c cs rfl)
      · exact noDecHead_nil

theorem dec_ne_zero (ds : List Byte) (hds : ∀ c ∈ ds, IsDecChar c) : ∀ c ∈ ds, c ≠ 0 := by
  intro c hc; have := hds c hc; unfold IsDecChar at this; unfold Byte at *; omega

/-- the C string left in an `n`-byte buffer by a file that starts with the digits `ds`: the first `n-1` digits,
then something that does not start with a digit -/
theorem buffer_of_digits (n : Nat) (ds rest : List Byte) (hds : ∀ c ∈ ds, IsDecChar c) (hr : NoDecHead rest) :
    ∃ rest', cstr ((ds ++ rest).take (n - 1)) = ds.take (n - 1) ++ rest' ∧ NoDecHead rest' := by
  refine ⟨cstr (rest.take (n - 1 - ds.length)), ?_, noDecHead_cstr_take rest hr _⟩
  rw [List.take_append, cstr_append_nonzero]
  exact dec_ne_zero _ (fun c hc => hds c (List.mem_of_mem_take hc))

theorem take_ne_nil (ds : List Byte) (hne : ds ≠ []) (k : Nat) (hk : 0 < k) : ds.take k ≠ [] := by
  cases ds with
  | nil => exact absurd rfl hne
  | cons d ds => cases k with
    | zero => omega
    | succ k => simp

/-- `hwloc_read_path_as_uint` on a file starting with decimal digits: the value of the (at most 10) digits that
fit the `char string[11]`, reduced modulo 2^32 by the `(unsigned)` cast -/
theorem readUint_decs (ds rest : List Byte) (hne : ds ≠ []) (hds : ∀ c ∈ ds, IsDecChar c) (hr : NoDecHead rest) :
    readUint (some (ds ++ rest)) = some (min (decVal (ds.take 10)) ulongMax % 2^32) := by
  obtain ⟨rest', hb, hr'⟩ := buffer_of_digits uintBuf ds rest hds hr
  have hne' : (ds ++ rest).take (uintBuf - 1) ≠ [] := by
    cases ds with
    | nil => exact absurd rfl hne
    | cons d ds => simp [uintBuf]
  unfold readUint readPath
  simp only [Option.bind_some, readByLength, readBytes, hne', if_false, Option.map_some]
  rw [hb, strtoulS10_decs _ (take_ne_nil ds hne _ (by decide)) (fun c hc => hds c (List.mem_of_mem_take hc)) rest' hr']
  rfl

/-- `hwloc_read_path_as_uint64`: at most 21 digits fit, the value saturates at 2^64-1 (strtoull) -/
theorem readUint64_decs (ds rest : List Byte) (hne : ds ≠ []) (hds : ∀ c ∈ ds, IsDecChar c) (hr : NoDecHead rest) :
    readUint64 (some (ds ++ rest)) = some (min (decVal (ds.take 21)) ulongMax) := by
  obtain ⟨rest', hb, hr'⟩ := buffer_of_digits u64Buf ds rest hds hr
  have hne' : (ds ++ rest).take (u64Buf - 1) ≠ [] := by
    cases ds with
    | nil => exact absurd rfl hne
    | cons d ds => simp [u64Buf]
  unfold readUint64 readPath
  simp only [Option.bind_some, readByLength, readBytes, hne', if_false, Option.map_some]
  rw [hb, strtoulS10_decs _ (take_ne_nil ds hne _ (by decide)) (fun c hc => hds c (List.mem_of_mem_take hc)) rest' hr']
  rfl

/-- `hwloc_read_path_as_int` (atoi = `(int) strtol`): at most 10 digits fit, reduced into the `int` range -/
theorem readInt_decs (ds rest : List Byte) (hne : ds ≠ []) (hds : ∀ c ∈ ds, IsDecChar c) (hr : NoDecHead rest) :
    readInt (some (ds ++ rest)) = some (wrapInt32 ((min (decVal (ds.take 10)) (2^63 - 1) : Nat) : Int)) := by
  obtain ⟨rest', hb, hr'⟩ := buffer_of_digits intBuf ds rest hds hr
  have hne' : (ds ++ rest).take (intBuf - 1) ≠ [] := by
    cases ds with
    | nil => exact absurd rfl hne
    | cons d ds => simp [intBuf]
  unfold readInt readPath
  simp only [Option.bind_some, readByLength, readBytes, hne', if_false, Option.map_some]
  unfold atoi
  rw [hb, strtolVal10_decs _ (take_ne_nil ds hne _ (by decide)) (fun c hc => hds c (List.mem_of_mem_take hc)) rest' hr']
  rfl

/-- the results always fit their C types -/
theorem wrapInt32_range (x : Int) : -(2^31 : Int) ≤ wrapInt32 x ∧ wrapInt32 x < 2^31 := by
  unfold wrapInt32
  simp only []
  have h1 : 0 ≤ x % 2^32 := Int.emod_nonneg _ (by decide)
  have h2 : x % 2^32 < 2^32 := Int.emod_lt_of_pos _ (by decide)
  split <;> omega

theorem readInt_range (f : Option (List Byte)) (v : Int) (h : readInt f = some v) : -(2^31 : Int) ≤ v ∧ v < 2^31 := by
  unfold readInt at h
  cases hp : readPath intBuf f with
  | none => rw [hp] at h; cases h
  | some b => rw [hp] at h; injection h with h; subst h; exact wrapInt32_range _

theorem readUint_range (f : Option (List Byte)) (v : Nat) (h : readUint f = some v) : v < 2^32 := by
  unfold readUint at h
  cases hp : readPath uintBuf f with
  | none => rw [hp] at h; cases h
  | some b => rw [hp] at h; injection h with h; subst h; exact Nat.mod_lt _ (by decide)

/-! ### strstr -/

/-- `i` is the first position at which `pat` occurs in `s` -/
def FirstOcc (pat s : List Byte) (i : Nat) : Prop :=
  pat <+: s.drop i ∧ i + pat.length ≤ s.length ∧ ∀ j, j < i → ¬ pat <+: s.drop j

theorem findSub_some (pat : List Byte) : ∀ (s : List Byte) (i : Nat), findSub pat s = some i → FirstOcc pat s i := by
  intro s
  induction s with
  | nil =>
    intro i h
    unfold findSub at h
    split at h
    · rename_i he
      injection h with h; subst h
      have : pat = [] := by simpa using he
      subst this
      exact ⟨by simp, by simp, fun j hj => by omega⟩
    · cases h
  | cons c cs ih =>
    intro i h
    unfold findSub at h
    split at h
    · rename_i hp
      injection h with h; subst h
      have hp' : pat <+: c :: cs := List.isPrefixOf_iff_prefix.mp hp
      refine ⟨by simpa using hp', ?_, fun j hj => by omega⟩
      have := hp'.length_le
      simpa using this
    · rename_i hp
      cases hf : findSub pat cs with
      | none => rw [hf] at h; cases h
      | some k =>
        rw [hf] at h
        simp only [Option.map_some, Option.some.injEq] at h
        subst h
        obtain ⟨h1, h2, h3⟩ := ih k hf
        refine ⟨by simpa using h1, by simp only [List.length_cons]; omega, ?_⟩
        intro j hj
        cases j with
        | zero =>
          intro hpre
          apply hp
          exact List.isPrefixOf_iff_prefix.mpr (by simpa using hpre)
        | succ j =>
          have := h3 j (by omega)
          simpa using this

theorem findSub_none (pat : List Byte) : ∀ (s : List Byte), findSub pat s = none → ∀ j, j ≤ s.length → ¬ pat <+: s.drop j := by
  intro s
  induction s with
  | nil =>
    intro h j hj
    unfold findSub at h
    split at h
    · cases h
    · rename_i he
      intro hp
      apply he
      have : j = 0 := by simpa using hj
      subst this
      have : pat = [] := by simpa using hp
      simp [this]
  | cons c cs ih =>
    intro h j hj
    unfold findSub at h
    split at h
    · cases h
    · rename_i hp
      cases hf : findSub pat cs with
      | some k => rw [hf] at h; cases h
      | none =>
        cases j with
        | zero =>
          intro hpre; apply hp
          exact List.isPrefixOf_iff_prefix.mpr (by simpa using hpre)
        | succ j =>
          have := ih hf j (by simpa using hj)
          simpa using this

theorem firstOcc_unique (pat s : List Byte) (i j : Nat) (hi : FirstOcc pat s i) (hj : FirstOcc pat s j) : i = j := by
  rcases Nat.lt_trichotomy i j with h | h | h
  · exact absurd hi.1 (hj.2.2 i h)
  · exact h
  · exact absurd hj.1 (hi.2.2 j h)

theorem findSub_iff (pat s : List Byte) (i : Nat) : findSub pat s = some i ↔ FirstOcc pat s i := by
  constructor
  · exact findSub_some pat s i
  · intro h
    cases hf : findSub pat s with
    | none => exact absurd h.1 (findSub_none pat s hf i (by have := h.2.1; omega))
    | some k => rw [firstOcc_unique pat s k i (findSub_some pat s k hf) h]

/-! ### hwloc_parse_meminfo_info -/

theorem memKey_length : memKey.length = 10 := by decide

/-- the value stored is that of the number behind the FIRST `MemTotal: ` of the C string in the 4096-byte buffer,
times 1024 modulo 2^64; `tmp+10` points inside the string (at most at its NUL) -/
theorem meminfo_some_iff (f : Option (List Byte)) (v : Nat) :
    meminfo f = some v ↔
      ∃ b i, readPath memBuf f = some b ∧ FirstOcc memKey (cstr b) i ∧ i + 10 ≤ (cstr b).length ∧
        v = ((strtoulS 10 ((cstr b).drop (i + 10))).1 <<< 10) % 2^64 := by
  unfold meminfo
  cases hp : readPath memBuf f with
  | none => simp
  | some b =>
    simp only []
    cases hf : findSub memKey (cstr b) with
    | none =>
      simp only [Option.some.injEq, false_iff, reduceCtorEq]
      intro ⟨b', i, hb, ho, _, _⟩
      cases hb
      rw [(findSub_iff _ _ _).mpr ho] at hf
      cases hf
    | some i =>
      have ho := findSub_some _ _ _ hf
      have hlen := ho.2.1
      rw [memKey_length] at hlen
      simp only [Option.some.injEq]
      constructor
      · intro h
        exact ⟨b, i, rfl, ho, hlen, h.symm⟩
      · intro ⟨b', i', hb, ho', _, hv⟩
        cases hb
        rw [firstOcc_unique _ _ _ _ ho' ho] at hv
        exact hv.symm

/-- `*local_memory` is left alone exactly when the file cannot be read, is empty, or holds no `MemTotal: ` in
front of its first NUL / within its first 4095 bytes -/
theorem meminfo_none_iff (f : Option (List Byte)) :
    meminfo f = none ↔ (readPath memBuf f = none ∨
      ∃ b, readPath memBuf f = some b ∧ ∀ j, j ≤ (cstr b).length → ¬ memKey <+: (cstr b).drop j) := by
  unfold meminfo
  cases hp : readPath memBuf f with
  | none => simp
  | some b =>
    simp only []
    cases hf : findSub memKey (cstr b) with
    | none =>
      simp only [true_iff, reduceCtorEq, false_or]
      exact ⟨b, rfl, findSub_none _ _ hf⟩
    | some i =>
      simp only [reduceCtorEq, false_iff, false_or]
      intro ⟨b', hb, hn⟩
      cases hb
      have ho := findSub_some _ _ _ hf
      exact hn i (by have := ho.2.1; omega) ho.1

/-- the result depends only on the first 4095 bytes of the file -/
theorem meminfo_prefix (c c' : List Byte) (h : c.take 4095 = c'.take 4095) : meminfo (some c) = meminfo (some c') := by
  unfold meminfo
  rw [readPath_prefix memBuf c c' h]

theorem dropWhile_spaces (k : Nat) (l : List Byte) :
    (List.replicate k 32 ++ l).dropWhile isSpace = l.dropWhile isSpace := by
  induction k with
  | zero => rfl
  | succ k ih =>
    rw [List.replicate_succ, List.cons_append, List.dropWhile_cons]
    have : isSpace 32 = true := by decide
    rw [this]; exact ih

/-- leading blanks are skipped by the number scanner -/
theorem scanNum_spaces (base k : Nat) (l : List Byte) : scanNum base (List.replicate k 32 ++ l) = scanNum base l := by
  unfold scanNum
  rw [dropWhile_spaces]

theorem scanNum10_decs (ds : List Byte) (hne : ds ≠ []) (hds : ∀ c ∈ ds, IsDecChar c) (rest : List Byte)
    (hr : NoDecHead rest) : scanNum 10 (ds ++ rest) = some (min (decVal ds) ulongMax, rest) := by
  have h := strtoulS10_decs ds hne hds rest hr
  unfold strtoulS at h
  cases hs : scanNum 10 (ds ++ rest) with
  | some r => rw [hs] at h; simp only [] at h; rw [h]
  | none =>
    rw [hs] at h
    simp only [] at h
    -- (0, ds ++ rest) = (min …, rest) is impossible: the lengths differ
    have := congrArg (fun p => p.2.length) h
    simp only [List.length_append] at this
    have : 0 < ds.length := List.length_pos_iff.mpr hne
    omega

theorem strtoulS10_spaces_decs (k : Nat) (ds : List Byte) (hne : ds ≠ []) (hds : ∀ c ∈ ds, IsDecChar c) (rest : List Byte)
    (hr : NoDecHead rest) : (strtoulS 10 (List.replicate k 32 ++ (ds ++ rest))).1 = min (decVal ds) ulongMax := by
  unfold strtoulS
  rw [scanNum_spaces, scanNum10_decs ds hne hds rest hr]

/-- the kernel's format: `…MemTotal:` + blanks + decimal digits + anything else, the key not occurring earlier, the
whole file NUL-free and shorter than the buffer: the value stored is the number of kB times 1024 (modulo 2^64) -/
theorem meminfo_kernel (pre ds rest : List Byte) (k : Nat) (hne : ds ≠ []) (hds : ∀ c ∈ ds, IsDecChar c) (hr : NoDecHead rest)
    (hfit : (pre ++ (memKey ++ (List.replicate k 32 ++ (ds ++ rest)))).length ≤ 4095)
    (hnz : ∀ c ∈ pre ++ (memKey ++ (List.replicate k 32 ++ (ds ++ rest))), c ≠ 0)
    (hfirst : ∀ j, j < pre.length → ¬ memKey <+: (pre ++ (memKey ++ (List.replicate k 32 ++ (ds ++ rest)))).drop j) :
    meminfo (some (pre ++ (memKey ++ (List.replicate k 32 ++ (ds ++ rest))))) = some ((min (decVal ds) ulongMax * 1024) % 2^64) := by
  generalize hs : pre ++ (memKey ++ (List.replicate k 32 ++ (ds ++ rest))) = s at *
  have hsne : s ≠ [] := by
    rw [← hs]; intro h
    have := congrArg List.length h
    simp only [List.length_append, memKey_length, List.length_nil] at this
    omega
  have hrp : readPath memBuf (some s) = some s := by
    unfold readPath readByLength readBytes memBuf
    have ht : List.take (4096 - 1) s = s := List.take_of_length_le (by omega)
    simp only [Option.bind_some, ht, hsne, if_false]
  have hc : cstr s = s := by
    have := cstr_append_nonzero s [] hnz
    simpa [cstr] using this
  have hdrop : s.drop pre.length = memKey ++ (List.replicate k 32 ++ (ds ++ rest)) := by
    rw [← hs, List.drop_left]
  have hocc : FirstOcc memKey s pre.length := by
    refine ⟨?_, ?_, hfirst⟩
    · rw [hdrop]; exact List.prefix_append _ _
    · rw [← hs]; simp only [List.length_append]; omega
  rw [meminfo_some_iff]
  refine ⟨s, pre.length, hrp, by rw [hc]; exact hocc, by rw [hc]; have := hocc.2.1; rw [memKey_length] at this; exact this, ?_⟩
  rw [hc]
  have hd2 : s.drop (pre.length + 10) = List.replicate k 32 ++ (ds ++ rest) := by
    rw [← List.drop_drop, hdrop]
    have : memKey.length = 10 := memKey_length
    rw [← this, List.drop_left]
  rw [hd2, strtoulS10_spaces_decs k ds hne hds rest hr, Nat.shiftLeft_eq]

/-! ### hwloc_parse_hugepages_info -/

structure HPState.Ok (st : HPState) : Prop where
  alloc_pos : 1 ≤ st.alloc
  index_le : st.index ≤ st.alloc
  writes_ok : ∀ w ∈ st.writes, w.1 < w.2

theorem hpStep_ok (dirlen : Nat) (st : HPState) (e : HPEntry) (h : st.Ok) : (hpStep dirlen st e).Ok := by
  obtain ⟨h1, h2, h3⟩ := h
  unfold hpStep
  split
  · exact ⟨h1, h2, h3⟩
  · simp only []
    have halloc : st.index < (if st.index ≥ st.alloc then 2 * st.alloc else st.alloc) := by
      split <;> omega
    have hw : ∀ w ∈ (st.index, if st.index ≥ st.alloc then 2 * st.alloc else st.alloc) :: st.writes, w.1 < w.2 := by
      intro w hw
      rcases List.mem_cons.mp hw with hw | hw
      · subst hw; exact halloc
      · exact h3 w hw
    split
    · split
      · exact ⟨by simp only []; split <;> omega, by simp only [HPState.index] at *; omega, hw⟩
      · refine ⟨by simp only []; split <;> omega, ?_, hw⟩
        simp only [HPState.index, List.length_append, List.length_singleton] at *
        omega
    · exact ⟨by simp only []; split <;> omega, by simp only [HPState.index] at *; omega, hw⟩

theorem hugepages_ok (dirlen alloc0 remaining : Nat) (h0 : 1 ≤ alloc0) (entries : List HPEntry) :
    (hugepages dirlen alloc0 remaining entries).Ok := by
  unfold hugepages
  have : ∀ (es : List HPEntry) (st : HPState), st.Ok → (es.foldl (hpStep dirlen) st).Ok := by
    intro es
    induction es with
    | nil => intro st h; exact h
    | cons e es ih => intro st h; exact ih _ (hpStep_ok dirlen st e h)
  exact this entries _ ⟨h0, by simp [HPState.index]; omega, by simp⟩

end Hw.LinuxNum
