/-
  Hw.Io.CalcAttrLemmas — lemmas about the attribute options of hwloc-calc (model: Hw/Io/CalcAttr.lean):
  the cpukind filter as an intersection that commutes with the operator fold, the order of the filters inside
  `hwloc_calc_output`, `--default-nodes` against the C14 default nodeset, `--local-memory` against the C14 local-node selection.
-/
import Hw.Io.CalcAttr
import Hw.Io.CalcLemmas
import Hw.Attr.MemAttrsApi
namespace Hw.Calc
open Hw Hw.Topo

/-- `hwloc_calc_append_set` folded over (operator, set) pairs -/
def foldModes (acc : Bitmap) (l : List (Mode × Bitmap)) : Bitmap := l.foldl (fun a p => applyMode p.1 a p.2) acc

theorem mem_applyMode_and (m : Mode) (a b K : Bitmap) (i : Nat) :
    ((applyMode m a b).and K).mem i = (applyMode m (a.and K) (b.and K)).mem i := by
  cases m <;> simp only [applyMode, Bitmap.mem_or, Bitmap.mem_andnot, Bitmap.mem_and, Bitmap.mem_xor] <;>
    cases a.mem i <;> cases b.mem i <;> cases K.mem i <;> rfl

theorem mem_applyMode_congr (m : Mode) (a a' b : Bitmap) (i : Nat) (h : a.mem i = a'.mem i) :
    (applyMode m a b).mem i = (applyMode m a' b).mem i := by
  cases m <;> simp only [applyMode, Bitmap.mem_or, Bitmap.mem_andnot, Bitmap.mem_and, Bitmap.mem_xor, h]

theorem foldModes_congr (i : Nat) : ∀ (l : List (Mode × Bitmap)) (a a' : Bitmap), a.mem i = a'.mem i →
    (foldModes a l).mem i = (foldModes a' l).mem i := by
  intro l
  induction l with
  | nil => intro a a' h; exact h
  | cons p r ih =>
    intro a a' h
    simp only [foldModes, List.foldl_cons]
    exact ih _ _ (mem_applyMode_congr p.1 a a' p.2 i h)

/-- the filter `∩ K`, applied once after the fold (as hwloc_calc_output does), gives the set obtained by filtering the start
    accumulator and every location set before the fold: all four operators distribute over the intersection -/
theorem foldModes_and (K : Bitmap) (i : Nat) : ∀ (l : List (Mode × Bitmap)) (acc : Bitmap),
    ((foldModes acc l).and K).mem i = (foldModes (acc.and K) (l.map (fun p => (p.1, p.2.and K)))).mem i := by
  intro l
  induction l with
  | nil => intro acc; rfl
  | cons p r ih =>
    intro acc
    simp only [foldModes, List.foldl_cons, List.map_cons]
    have h1 := ih (applyMode p.1 acc p.2)
    simp only [foldModes] at h1
    rw [h1]
    exact foldModes_congr i _ _ _ (mem_applyMode_and p.1 acc p.2 K i)

theorem mem_cpusetAfterKind (k : Option Nat) (S : Bitmap) (i : Nat) :
    (cpusetAfterKind k S).mem i = (S.mem i && (match k with | none => true | some m => m.testBit i)) := by
  cases k with
  | none => simp [cpusetAfterKind]
  | some m => simp [cpusetAfterKind, Bitmap.mem_and, mem_ofMask]

theorem mem_nodesetAfterDefault (d : Dump) (xs : XSt) (N : Bitmap) (i : Nat) :
    (nodesetAfterDefault d xs N).mem i = (N.mem i && (!xs.defaultNodes || (defaultNodes d).testBit i)) := by
  unfold nodesetAfterDefault
  cases xs.defaultNodes <;> simp [Bitmap.mem_and, mem_ofMask]

theorem defaultNodes_eq (d : Dump) : MemAttrs.defaultNodeset (envOf d) 0 = .ok (defaultNodes d) := by
  simp [defaultNodes, MemAttrs.defaultNodeset]

/-- without pseudo level and without `--local-memory*` / `--best-memattr`, `hwloc_calc_output` is the C09/C03 output stage on the
    cpuset filtered by the CPU kind and the nodeset filtered by the default nodes: the two filters come before --no-smt, --single
    and every output mode -/
theorem outputX_eq_output (c : Ctx) (x : Extra) (k : Option Nat) (s : St) (xs : XSt) (cfg : OutCfg) (cpuset nodeset : Bitmap)
    (hl : xs.localMem = false) :
    outputX c x k s xs cfg {} cpuset nodeset = output c s cfg (cpusetAfterKind k cpuset) (nodesetAfterDefault c.d xs nodeset) := by
  unfold outputX
  cases hlg : s.largest
  · simp [hl]
  · simp

/-- the nodes `--local-memory` starts from are the C14 answer of `hwloc_get_local_numanode_objs` for the CPUSET location -/
theorem localNumaObjs_spec (d : Dump) (cs flags : Nat) (h8 : flags < 8) :
    localNumaObjs d cs flags = some ((numaObjs d).filter (fun o => MemAttrs.matchLocal flags cs (maObj o))) ∧
    MemAttrs.localNodes (envOf d) (.cpuset cs) flags (numaObjs d).length false =
      .ok (((numaObjs d).filter (fun o => MemAttrs.matchLocal flags cs (maObj o))).length,
           ((numaObjs d).filter (fun o => MemAttrs.matchLocal flags cs (maObj o))).map maObj) := by
  have hs := MemAttrs.localNodes_cpuset_spec (envOf d) cs flags (numaObjs d).length h8
  have hf : (envOf d).nodes.filter (MemAttrs.matchLocal flags cs) =
      ((numaObjs d).filter (fun o => MemAttrs.matchLocal flags cs (maObj o))).map maObj := by
    simp only [envOf, List.filter_map]
    rfl
  have hlen : ((envOf d).nodes.filter (MemAttrs.matchLocal flags cs)).length ≤ (numaObjs d).length := by
    have := List.length_filter_le (MemAttrs.matchLocal flags cs) (envOf d).nodes
    simpa [envOf] using this
  constructor
  · unfold localNumaObjs; rw [hs]
  · rw [hs, List.take_of_length_le hlen, hf, List.length_map]

theorem localNumaObjs_badflags (d : Dump) (cs flags : Nat) (h8 : 8 ≤ flags) : localNumaObjs d cs flags = none := by
  unfold localNumaObjs
  rw [MemAttrs.localNodes_badflags _ _ _ _ _ h8]

end Hw.Calc
