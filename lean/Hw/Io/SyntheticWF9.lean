/-
  Hw.Io.SyntheticWF9 — `levels-cover-objects` for `toDump t`: the level tables list exactly as many objects as the dump
  contains (normal objects per depth + NUMA nodes + memory-side caches), for every `t` with `topoOK t`.
-/
import Hw.Io.SyntheticWF8
namespace Hw.Syn
open Hw Hw.Topo

set_option linter.unusedSectionVars false
set_option linter.unusedSimpArgs false

/-- weighted number of objects below one object of depth `d`: Σ_{e ≥ d} (objects of depth e per object of depth d) * w e -/
def sumW (T : DTab) (w : Nat → Nat) (d : Nat) : Nat :=
  ((List.range (T.D + 1)).map (fun e => if e ≥ d then (nOf T e / nOf T d) * w e else 0)).sum

theorem sum_map_add (l : List Nat) (f g : Nat → Nat) : (l.map (fun e => f e + g e)).sum = (l.map f).sum + (l.map g).sum := by
  induction l with
  | nil => rfl
  | cons x l ih => simp only [List.map_cons, List.sum_cons, ih]; omega

theorem sumW_add (T : DTab) (w1 w2 : Nat → Nat) (d : Nat) : sumW T (fun e => w1 e + w2 e) d = sumW T w1 d + sumW T w2 d := by
  unfold sumW
  rw [← sum_map_add]
  congr 1
  apply List.map_congr_left
  intro e _
  split
  · rw [Nat.mul_add]
  · rfl

theorem mcCnt_le (T : DTab) (e : Nat) : memSz T e = numaCnt T e + mcCnt T e := by
  unfold memSz numaCnt mcCnt
  generalize T.mem[e]?.getD [] = ms
  induction ms with
  | nil => rfl
  | cons m ms ih =>
    simp only [List.map_cons, List.sum_cons, List.length_cons, List.filter_cons, ih]
    unfold msz
    by_cases hm : m.msc = 0
    · simp [hm]; omega
    · simp [hm]; omega

theorem own_mc_length (T : DTab) (d k : Nat) : (specialIds.own T false d k).length = mcCnt T d := by
  unfold specialIds.own mcCnt
  generalize T.mem[d]?.getD [] = ms
  have key : ∀ n, n ≤ ms.length → ((List.range n).filterMap (fun s =>
      if false = true then some (numaId T d k s : Int) else if (ms[s]?.getD ⟨0, 0⟩).msc ≠ 0 then some (memId T d k s : Int) else none)).length =
      ((ms.take n).filter (fun m => m.msc != 0)).length := by
    intro n
    induction n with
    | zero => intro _; rfl
    | succ n ih =>
      intro hn
      have hlt : n < ms.length := by omega
      rw [List.range_succ, List.filterMap_append, List.length_append, ih (by omega), List.take_add_one,
        List.getElem?_eq_getElem hlt, List.filter_append, List.length_append]
      congr 1
      simp only [List.filterMap_cons, List.filterMap_nil, List.getElem?_eq_getElem hlt, Option.getD_some, Bool.false_eq_true, if_false,
        Option.toList_some, List.filter_cons, List.filter_nil]
      by_cases hm : ms[n].msc = 0
      · simp [hm]
      · simp [hm]
  have := key ms.length (Nat.le_refl _)
  rw [List.take_length] at this
  exact this

section
variable (t : Topo) (h : OK t)
include h

theorem sumW_rec (w : Nat → Nat) (d : Nat) (hd : d ≤ (mkTab t).D) :
    sumW (mkTab t) w d = arOf (mkTab t) d * sumW (mkTab t) w (d + 1) + w d := by
  unfold sumW
  have hpt : ∀ e ∈ List.range ((mkTab t).D + 1),
      (if e ≥ d then (nOf (mkTab t) e / nOf (mkTab t) d) * w e else 0) =
      arOf (mkTab t) d * (if e ≥ d + 1 then (nOf (mkTab t) e / nOf (mkTab t) (d + 1)) * w e else 0) +
        (if e = d then w d else 0) := by
    intro e he
    have he' : e ≤ (mkTab t).D := by have := List.mem_range.1 he; omega
    by_cases h1 : e < d
    · rw [if_neg (by omega), if_neg (by omega), if_neg (by omega)]; simp
    · by_cases h2 : e = d
      · subst h2
        rw [if_pos (by omega), if_neg (by omega), if_pos rfl, Nat.div_self (nOf_pos t h e he')]; simp
      · rw [if_pos (by omega), if_pos (by omega), if_neg h2, (q_spec t h e he' (e - d) d (by omega)).2 (by omega), Nat.mul_assoc]
        simp
  rw [List.map_congr_left hpt, sum_map_lin, sum_indicator, if_pos (by omega)]

/-- a special level lists `sumW cnt` objects below (d, k) -/
theorem specialIds_length (numa : Bool) : ∀ f d k, d + f = (mkTab t).D + 1 → d ≤ (mkTab t).D →
    (specialIds (mkTab t) numa f d k).length = sumW (mkTab t) (if numa then numaCnt (mkTab t) else mcCnt (mkTab t)) d := by
  intro f
  induction f with
  | zero => intro d k h1 h2; omega
  | succ f ih =>
    intro d k h1 h2
    unfold specialIds
    rw [List.length_append, sumW_rec t h _ d h2]
    have hown : (specialIds.own (mkTab t) numa d k).length = (if numa then numaCnt (mkTab t) else mcCnt (mkTab t)) d := by
      cases numa
      · exact own_mc_length _ d k
      · exact own_numa_length _ d k
    rw [hown]
    congr 1
    by_cases hd : d < (mkTab t).D
    · rw [if_pos hd, List.length_flatMap]
      have : ∀ r ∈ List.range ((mkTab t).ar[d]?.getD 0),
          (specialIds (mkTab t) numa f (d + 1) (k * ((mkTab t).ar[d]?.getD 0) + r)).length =
          sumW (mkTab t) (if numa then numaCnt (mkTab t) else mcCnt (mkTab t)) (d + 1) := by
        intro r _; exact ih (d + 1) _ (by omega) (by omega)
      rw [List.map_congr_left this]
      have := sum_const_range ((mkTab t).ar[d]?.getD 0) (sumW (mkTab t) (if numa then numaCnt (mkTab t) else mcCnt (mkTab t)) (d + 1))
      simp only [List.map_const'] at this ⊢
      simpa [arOf] using this
    · have : d = (mkTab t).D := by omega
      rw [if_neg hd, this, mkTab_ar_last]; simp

theorem sz_sumW : ∀ j d, d + j = (mkTab t).D → szOf (mkTab t) d = sumW (mkTab t) (fun e => 1 + memSz (mkTab t) e) d := by
  intro j
  induction j with
  | zero =>
    intro d hd
    have hdD : d = (mkTab t).D := by omega
    rw [mkTab_sz t d (by omega), sumW_rec t h _ d (by omega), hdD, mkTab_ar_last]; simp
  | succ j ih =>
    intro d hd
    rw [mkTab_sz t d (by omega), sumW_rec t h _ d (by omega), ih (d + 1) (by omega)]; omega

theorem sumW_one : sumW (mkTab t) (fun _ => 1) 0 = ((List.range ((mkTab t).D + 1)).map (fun d => nOf (mkTab t) d)).sum := by
  unfold sumW
  congr 1
  apply List.map_congr_left
  intro e _
  rw [if_pos (Nat.zero_le _), nOf_zero, Nat.div_one, Nat.mul_one]

theorem tc_levels_cover : (fun (d : Dump) (_ : Aux) => (d.levels.map (fun l => l.objs.length)).sum == d.objs.length)
    (toDump t) (mkAux (toDump t)) = true := by
  simp only [beq_iff_eq]
  have hlen : (toDump t).objs.length = szOf (mkTab t) 0 := by
    have := genObjs_ids t (envOf t) rfl ((mkTab t).D + 1) 0 0 (by rw [envOf_T]; omega) (Nat.zero_le _)
    have := congrArg List.length this
    simpa [toDump_objs, envOf_T] using this
  rw [hlen, sz_sumW t h (mkTab t).D 0 (by omega)]
  have hw : (fun e => 1 + memSz (mkTab t) e) = (fun e => (fun _ => 1) e + ((fun e => numaCnt (mkTab t) e) e + (fun e => mcCnt (mkTab t) e) e)) := by
    funext e; rw [mcCnt_le]
  rw [hw, sumW_add, sumW_add, sumW_one t h, toDump_levels, List.map_append, List.sum_append, List.map_map]
  have h1 : ((fun (l : Topo.Level) => l.objs.length) ∘ normalLevel t) = fun d => (mkTab t).n[d]?.getD 0 := by
    funext d; simp [normalLevel]
  rw [h1]
  have h2 : (List.range ((mkTab t).D + 1)).map (fun d => (mkTab t).n[d]?.getD 0) = (List.range ((mkTab t).D + 1)).map (fun d => nOf (mkTab t) d) := by
    apply List.map_congr_left
    intro d hd
    exact n_getD0 t d (by have := List.mem_range.1 hd; omega)
  rw [h2]
  have hn := specialIds_length t h true ((mkTab t).D + 1) 0 0 (by omega) (Nat.zero_le _)
  have hm := specialIds_length t h false ((mkTab t).D + 1) 0 0 (by omega) (Nat.zero_le _)
  simp only [if_true, Bool.false_eq_true, if_false] at hn hm
  have e1 : (envOf t).numaL.length = sumW (mkTab t) (fun e => numaCnt (mkTab t) e) 0 := hn
  have e2 : (envOf t).mcL.length = sumW (mkTab t) (fun e => mcCnt (mkTab t) e) 0 := hm
  simp only [specialLevels, List.map_cons, List.map_nil, List.sum_cons, List.sum_nil, List.length_nil]
  omega

end

end Hw.Syn
