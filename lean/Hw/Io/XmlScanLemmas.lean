/- Hw.XmlScanLemmas — memory safety and termination of the nolibxml scanner model (C06). -/
import Hw.Io.XmlScan
namespace Hw.XmlScan
set_option linter.unusedSimpArgs false
set_option linter.unusedVariables false

@[simp] theorem ok_bind {α β} (a : α) (f : α → M β) : (Except.ok a >>= f) = f a := rfl
@[simp] theorem pure_bind' {α β} (a : α) (f : α → M β) : ((pure a : M α) >>= f) = f a := rfl
@[simp] theorem err_bind {α β} (e : Err) (f : α → M β) : ((Except.error e : M α) >>= f) = Except.error e := rfl

theorem rd_ok {b : Buf} {i : Nat} (h : i < b.size) : rd b i = .ok (gt b i) := by
  simp [rd, h, gt]

theorem wr_ok {b : Buf} {i : Nat} (v : Nat) (h : i < b.size) : wr b i v = .ok (b.set i v h) := by
  simp [wr, h]

theorem gt_set (b : Buf) (i v j : Nat) (h : i < b.size) :
    gt (b.set i v h) j = if i = j then v else gt b j := by
  simp only [gt, Array.getElem?_set]
  by_cases e : i = j <;> simp [e]

theorem HasNul.ne_last {b : Buf} (hn : HasNul b) {i : Nat} (hi : i < b.size) (h0 : gt b i ≠ 0) :
    i + 1 < b.size := by
  by_cases e : i = b.size - 1
  · rw [e, hn.last] at h0; exact absurd rfl h0
  · omega

theorem HasNul.set {b : Buf} (hn : HasNul b) {i : Nat} (v : Nat) (h : i < b.size)
    (hv : i + 1 < b.size ∨ v = 0) : HasNul (b.set i v h) := by
  refine ⟨by simpa using hn.pos, ?_⟩
  rw [Array.size_set, gt_set]
  by_cases e : i = b.size - 1
  · simp only [e, if_true]
    rcases hv with hv | hv
    · omega
    · exact hv
  · simp only [e, if_false]; exact hn.last

theorem span_ok (p : Nat → Bool) (b : Buf) (hn : HasNul b) (hp : p 0 = false) :
    ∀ fuel i, i < b.size → b.size - i ≤ fuel →
    ∃ j, span p b fuel i = .ok j ∧ i ≤ j ∧ j < b.size ∧ p (gt b j) = false := by
  intro fuel
  induction fuel with
  | zero => intro i h1 h2; omega
  | succ f ih =>
    intro i h1 h2
    simp only [span, rd_ok h1, ok_bind]
    by_cases hc : p (gt b i) = true
    · simp only [hc, if_true]
      have hi : i + 1 < b.size := hn.ne_last h1 (by intro e; rw [e, hp] at hc; cases hc)
      obtain ⟨j, e, a1, a2, a3⟩ := ih (i+1) hi (by omega)
      exact ⟨j, e, by omega, a2, a3⟩
    · simp only [hc]
      exact ⟨i, rfl, Nat.le_refl _, h1, by simpa using hc⟩

theorem ignoreSpaces_ok {b : Buf} (hn : HasNul b) {i : Nat} (hi : i < b.size) :
    ∃ j, ignoreSpaces b i = .ok j ∧ i ≤ j ∧ j < b.size := by
  obtain ⟨j, e, a1, a2, _⟩ := span_ok isSpace b hn (by decide) b.size i hi (by omega)
  exact ⟨j, e, a1, a2⟩

/-- strchr for a non-NUL byte: found positions hold a non-NUL byte, hence lie before the final NUL -/
theorem strchr_ok {b : Buf} (hn : HasNul b) {i : Nat} (hi : i < b.size) (c : Nat) (hc : c ≠ 0) :
    ∃ r, strchr b i c = .ok r ∧ ∀ j, r = some j → i ≤ j ∧ j + 1 < b.size ∧ gt b j = c := by
  obtain ⟨j, e, a1, a2, _⟩ := span_ok (fun x => x != c && x != 0) b hn (by simp) b.size i hi (by omega)
  simp only [strchr, e, ok_bind, rd_ok a2]
  by_cases h : gt b j = c
  · refine ⟨some j, by simp [h, pure, Except.pure], ?_⟩
    intro j' hj'; cases hj'
    exact ⟨a1, hn.ne_last a2 (by rw [h]; exact hc), h⟩
  · refine ⟨none, by simp [h, pure, Except.pure], ?_⟩
    intro j' hj'; cases hj'

theorem matchLit_ok {b : Buf} (hn : HasNul b) :
    ∀ (l : List Nat) (i : Nat), i < b.size → (∀ c ∈ l, c ≠ 0) →
    ∃ r, matchLit b l i = .ok r ∧ (r = true → i + l.length < b.size) := by
  intro l
  induction l with
  | nil => intro i hi _; exact ⟨true, rfl, fun _ => by simpa using hi⟩
  | cons c cs ih =>
    intro i hi hl
    simp only [matchLit, rd_ok hi, ok_bind]
    by_cases h : gt b i = c
    · have hc : c ≠ 0 := hl c (by simp)
      have hi' : i + 1 < b.size := hn.ne_last hi (by rw [h]; exact hc)
      obtain ⟨r, e, hr⟩ := ih (i+1) hi' (fun c' hc' => hl c' (by simp [hc']))
      refine ⟨r, by simp [h, e], ?_⟩
      intro hr'; have := hr hr'; simp only [List.length_cons]; omega
    · refine ⟨false, by simp [h, pure, Except.pure], ?_⟩
      intro hr; cases hr

theorem lit_ne_zero (s : String) (h : (lit s).all (· != 0) = true) : ∀ c ∈ lit s, c ≠ 0 := by
  intro c hc
  have := List.all_eq_true.mp h c hc
  simpa using this

theorem strEqLit_ok {b : Buf} (hn : HasNul b) {i : Nat} (hi : i < b.size) (l : List Nat) (hl : ∀ c ∈ l, c ≠ 0) :
    ∃ r, strEqLit b i l = .ok r := by
  obtain ⟨r, e, hr⟩ := matchLit_ok hn l i hi hl
  simp only [strEqLit, e, ok_bind]
  cases r with
  | false => exact ⟨false, rfl⟩
  | true =>
    have := hr rfl
    simp only [if_true, rd_ok this, ok_bind]
    exact ⟨_, rfl⟩

theorem strEqBuf_ok {b : Buf} (hn : HasNul b) :
    ∀ fuel i j, i < b.size → j < b.size → b.size - i ≤ fuel → ∃ r, strEqBuf b fuel i j = .ok r := by
  intro fuel
  induction fuel with
  | zero => intro i j hi _ hf; omega
  | succ f ih =>
    intro i j hi hj hf
    simp only [strEqBuf, rd_ok hi, rd_ok hj, ok_bind]
    by_cases h : gt b i = gt b j
    · by_cases h0 : gt b i = 0
      · have h0' : gt b j = 0 := h ▸ h0
        exact ⟨true, by simp [h, h0', pure, Except.pure]⟩
      · have hi' := hn.ne_last hi h0
        have hj' := hn.ne_last hj (by rw [← h]; exact h0)
        obtain ⟨r, e⟩ := ih (i+1) (j+1) hi' hj' (by omega)
        have h0' : gt b j ≠ 0 := h ▸ h0
        exact ⟨r, by simp [h, h0', e]⟩
    · exact ⟨false, by simp [h, pure, Except.pure]⟩

theorem matchEntity_ok {b : Buf} (hn : HasNul b) {i : Nat} (hi : i < b.size) :
    ∀ (es : List (List Nat × Nat)), (∀ e ∈ es, ∀ c ∈ e.1, c ≠ 0) →
    ∃ r, matchEntity b i es = .ok r ∧ ∀ k ch, r = some (k, ch) → i + k < b.size := by
  intro es
  induction es with
  | nil => intro _; exact ⟨none, rfl, fun _ _ h => by cases h⟩
  | cons e rest ih =>
    intro hes
    obtain ⟨l, ch⟩ := e
    obtain ⟨r, er, hr⟩ := matchLit_ok hn l i hi (hes (l, ch) (by simp))
    simp only [matchEntity, er, ok_bind]
    cases r with
    | true =>
      refine ⟨some (l.length, ch), by simp [pure, Except.pure], ?_⟩
      intro k ch' h; cases h; exact hr rfl
    | false =>
      obtain ⟨r2, e2, h2⟩ := ih (fun e he => hes e (by simp [he]))
      exact ⟨r2, by simp [e2], h2⟩

theorem entities_nz : ∀ e ∈ entities, ∀ c ∈ e.1, c ≠ 0 := by decide


/-! ### frames -/

structure FrameOk (n : Nat) (f : Frame) : Prop where
  tb : f.tagbuf < n
  ab : ∀ a, f.attrbuf = some a → a < n
  tn : ∀ t, f.tagname = .at t → t < n
  ct : f.content = true → f.tagbuf + 1 < n

theorem attrHeader_ok {b : Buf} (hn : HasNul b) {a : Nat} (ha : a < b.size) :
    ∃ r, attrHeader b a = .ok r ∧ ∀ p e, r = some (p, e) → e + 2 < b.size := by
  obtain ⟨p, e1, _, hp⟩ := ignoreSpaces_ok hn ha
  obtain ⟨e, e2, _, he, _⟩ := span_ok isAttrChar b hn (by decide) b.size p hp (by omega)
  simp only [attrHeader, e1, e2, ok_bind, rd_ok he]
  by_cases h1 : gt b e = 61
  · have he1 : e + 1 < b.size := hn.ne_last he (by rw [h1]; decide)
    simp only [h1, rd_ok he1, ok_bind]
    by_cases h2 : gt b (e+1) = 34
    · have he2 : e + 1 + 1 < b.size := hn.ne_last he1 (by rw [h2]; decide)
      refine ⟨some (p, e), by simp [h2, pure, Except.pure], ?_⟩
      intro p' e' h; cases h; omega
    · refine ⟨none, by simp [h2, pure, Except.pure], ?_⟩
      intro p' e' h; cases h
  · refine ⟨none, by simp [h1, pure, Except.pure], ?_⟩
    intro p' e' h; cases h

theorem unesc_ok (v : Variant) :
    ∀ fuel (b : Buf) w r, HasNul b → w ≤ r → r < b.size →
      (v.fixE = false → gt b r = 0 → r + 1 < b.size) → b.size - r ≤ fuel →
    ∃ b' u, unesc v fuel b w r = .ok (b', u) ∧ HasNul b' ∧ b'.size = b.size ∧
      ∀ w' r', u = some (w', r') → w' ≤ r' ∧ r' + 1 < b.size := by
  intro fuel
  induction fuel with
  | zero => intro b w r _ _ hr _ hf; omega
  | succ fu ih =>
    intro b w r hn hwr hr hpre hf
    have hw : w < b.size := by omega
    simp only [unesc, rd_ok hr, ok_bind]
    by_cases c34 : gt b r = 34
    · have := hn.ne_last hr (by rw [c34]; decide)
      refine ⟨b, some (w, r), by simp [c34, pure, Except.pure], hn, rfl, ?_⟩
      intro w' r' h; cases h; exact ⟨hwr, this⟩
    · by_cases cfix : (v.fixE && gt b r == 0) = true
      · exact ⟨b, none, by simp [c34, cfix, pure, Except.pure], hn, rfl, fun _ _ h => by cases h⟩
      · by_cases c38 : gt b r = 38
        · have hr1 : r + 1 < b.size := hn.ne_last hr (by rw [c38]; decide)
          obtain ⟨m, em, hm⟩ := matchEntity_ok hn hr1 entities entities_nz
          cases m with
          | none =>
            exact ⟨b, none, by simp [c34, cfix, c38, em, pure, Except.pure], hn, rfl, fun _ _ h => by cases h⟩
          | some kc =>
            obtain ⟨k, ch⟩ := kc
            have hk := hm k ch rfl
            have hn1 : HasNul (b.set w ch hw) := hn.set ch hw (Or.inl (by omega))
            have hrk : r + k + 1 < (b.set w ch hw).size := by simp only [Array.size_set]; omega
            by_cases c0 : gt (b.set w ch hw) (r + k + 1) = 0
            · refine ⟨b.set w ch hw, none, ?_, hn1, by simp, fun _ _ h => by cases h⟩
              simp [c34, cfix, c38, em, wr_ok ch hw, rd_ok hrk, c0, pure, Except.pure]
            · obtain ⟨b', u, e', h1, h2, h3⟩ := ih (b.set w ch hw) (w+1) (r+k+1) hn1 (by omega) hrk
                (fun _ h => absurd h c0) (by simp only [Array.size_set]; omega)
              refine ⟨b', u, ?_, h1, by simpa using h2, ?_⟩
              · simp [c34, cfix, c38, em, wr_ok ch hw, rd_ok hrk, c0, e']
              · intro w' r' h; have := h3 w' r' h; simpa using this
        · -- plain byte (possibly the NUL of the pinned code's first iteration)
          have hr1 : r + 1 < b.size := by
            by_cases z : gt b r = 0
            · have hfe : v.fixE = false := by
                cases hv : v.fixE with
                | false => rfl
                | true => simp [hv, z] at cfix
              exact hpre hfe z
            · exact hn.ne_last hr z
          have hn1 : HasNul (b.set w (gt b r) hw) := hn.set _ hw (Or.inl (by omega))
          have hr1' : r + 1 < (b.set w (gt b r) hw).size := by simp only [Array.size_set]; exact hr1
          by_cases c0 : gt (b.set w (gt b r) hw) (r + 1) = 0
          · refine ⟨b.set w (gt b r) hw, none, ?_, hn1, by simp, fun _ _ h => by cases h⟩
            simp [c34, cfix, c38, wr_ok _ hw, rd_ok hr1', c0, pure, Except.pure]
          · obtain ⟨b', u, e', h1, h2, h3⟩ := ih (b.set w (gt b r) hw) (w+1) (r+1) hn1 (by omega) hr1'
              (fun _ h => absurd h c0) (by simp only [Array.size_set]; omega)
            refine ⟨b', u, ?_, h1, by simpa using h2, ?_⟩
            · simp [c34, cfix, c38, wr_ok _ hw, rd_ok hr1', c0, e']
            · intro w' r' h; have := h3 w' r' h; simpa using this


def LitOk (f : Frame) : Prop := ∀ l, f.tagname = .lit l → ∀ c ∈ l, c ≠ 0

theorem FrameOk.mono_attr {n : Nat} {f : Frame} (hf : FrameOk n f) {x : Nat} (hx : x < n) :
    FrameOk n { f with attrbuf := some x } :=
  ⟨hf.tb, (fun a h => by cases h; exact hx), hf.tn, hf.ct⟩

theorem nextAttr_ok (v : Variant) {b : Buf} {f : Frame} (hn : HasNul b) (hf : FrameOk b.size f)
    (hl : v.fixE = true ∨ f05e b f = false) :
    ∃ r b' f', nextAttr v b f = .ok (r, b', f') ∧ HasNul b' ∧ b'.size = b.size ∧ FrameOk b.size f' ∧
      f'.tagname = f.tagname := by
  unfold nextAttr
  cases hab : f.attrbuf with
  | none => exact ⟨_, b, f, rfl, hn, rfl, hf, rfl⟩
  | some a =>
    have ha := hf.ab a hab
    obtain ⟨h, eh, hh⟩ := attrHeader_ok hn ha
    simp only [eh, ok_bind]
    cases h with
    | none => exact ⟨_, b, f, rfl, hn, rfl, hf, rfl⟩
    | some pe =>
      obtain ⟨p, e⟩ := pe
      have he2 := hh p e rfl
      have he : e < b.size := by omega
      simp only [wr_ok 0 he, ok_bind]
      have hn1 : HasNul (b.set e 0 he) := hn.set 0 he (Or.inr rfl)
      have hsz : (b.set e 0 he).size = b.size := by simp
      have hpre : v.fixE = false → gt (b.set e 0 he) (e+2) = 0 → e + 2 + 1 < (b.set e 0 he).size := by
        intro hv _
        rcases hl with hl | hl
        · rw [hl] at hv; cases hv
        · simp only [f05e, attrValueStart, hab, eh] at hl
          rw [hsz]
          have : e + 2 ≠ b.size - 1 := by
            intro h; rw [h] at hl; simp at hl
          omega
      obtain ⟨b', u, eu, h1, h2, h3⟩ := unesc_ok v (b.set e 0 he).size (b.set e 0 he) (e+2) (e+2) hn1
        (Nat.le_refl _) (by rw [hsz]; exact he2) hpre (by omega)
      simp only [eu, ok_bind]
      cases u with
      | none => exact ⟨_, b', f, rfl, h1, by rw [h2, hsz], hf, rfl⟩
      | some wr' =>
        obtain ⟨w, r⟩ := wr'
        obtain ⟨hwr, hr1⟩ := h3 w r rfl
        rw [hsz] at hr1
        have hw : w < b'.size := by rw [h2, hsz]; omega
        simp only [wr_ok 0 hw, ok_bind]
        have hn2 : HasNul (b'.set w 0 hw) := h1.set 0 hw (Or.inr rfl)
        have hsz2 : (b'.set w 0 hw).size = b.size := by simp [h2]
        obtain ⟨nx, enx, _, hnx⟩ := ignoreSpaces_ok hn2 (i := r + 1) (by rw [hsz2]; exact hr1)
        simp only [enx, ok_bind]
        exact ⟨_, _, _, rfl, hn2, hsz2, hf.mono_attr (by rw [← hsz2]; exact hnx), rfl⟩

theorem childTail_ok {b : Buf} (hn : HasNul b) {q e : Nat} (hq : q < b.size) (he : e + 1 < b.size)
    (closed : Bool) (pid : Nat) :
    ∃ r b' c, childTail b q e closed pid = .ok (r, b', c) ∧ HasNul b' ∧ b'.size = b.size ∧
      ∀ cf, c = some cf → FrameOk b.size cf ∧ LitOk cf := by
  unfold childTail
  obtain ⟨m, em, _, hm, _⟩ := span_ok isTagChar b hn (by decide) b.size q hq (by omega)
  simp only [em, ok_bind, rd_ok hm]
  by_cases z : gt b m = 0
  · refine ⟨⟨1, q⟩, b, some { tagbuf := e + 1, attrbuf := none, tagname := .at q, closed := closed, parent := some pid },
      by simp [z, pure, Except.pure], hn, rfl, ?_⟩
    intro cf h; cases h
    exact ⟨⟨he, (fun a h => by cases h), (fun t h => by cases h; exact hq), (fun h => by cases h)⟩, (fun l h => by cases h)⟩
  · by_cases s32 : gt b m = 32
    · have hm1 : m + 1 < b.size := hn.ne_last hm z
      refine ⟨⟨1, q⟩, b.set m 0 hm, some { tagbuf := e + 1, attrbuf := some (m + 1), tagname := .at q, closed := closed, parent := some pid },
        by simp [z, s32, wr_ok 0 hm, pure, Except.pure], hn.set 0 hm (Or.inr rfl), by simp, ?_⟩
      intro cf h; cases h
      exact ⟨⟨he, (fun a h => by cases h; exact hm1), (fun t h => by cases h; exact hq), (fun h => by cases h)⟩, (fun l h => by cases h)⟩
    · exact ⟨⟨-1, 0⟩, b, none, by simp [z, s32, pure, Except.pure], hn, rfl, fun _ h => by cases h⟩

theorem findChild_ok {b : Buf} {f : Frame} (pid : Nat) (hn : HasNul b) (hf : FrameOk b.size f) :
    ∃ r b' c, findChild b f pid = .ok (r, b', c) ∧ HasNul b' ∧ b'.size = b.size ∧
      ∀ cf, c = some cf → FrameOk b.size cf ∧ LitOk cf := by
  unfold findChild
  by_cases hc : f.closed = true
  · simp only [hc, if_true]; exact ⟨⟨0, 0⟩, b, none, rfl, hn, rfl, fun _ h => by cases h⟩
  · simp only [hc]
    obtain ⟨p, ep, _, hp⟩ := ignoreSpaces_ok hn hf.tb
    simp only [ep, ok_bind, rd_ok hp]
    by_cases c60 : gt b p = 60
    · have hq : p + 1 < b.size := hn.ne_last hp (by rw [c60]; decide)
      simp only [c60, rd_ok hq, ok_bind]
      by_cases c47 : gt b (p+1) = 47
      · simp only [c47]; exact ⟨⟨0, 0⟩, b, none, rfl, hn, rfl, fun _ h => by cases h⟩
      · obtain ⟨eo, ee, he⟩ := strchr_ok hn hq 62 (by decide)
        cases eo with
        | none =>
          refine ⟨⟨-1, 0⟩, b, none, ?_, hn, rfl, fun _ h => by cases h⟩
          simp [c47, ee, pure, Except.pure]
        | some e =>
          obtain ⟨hqe, he1, _⟩ := he e rfl
          have hel : e < b.size := by omega
          have hn1 : HasNul (b.set e 0 hel) := hn.set 0 hel (Or.inr rfl)
          have hs1 : (b.set e 0 hel).size = b.size := by simp
          have he' : e - 1 < (b.set e 0 hel).size := by rw [hs1]; omega
          have c47' : (gt b (p+1) == 47) = false := by simp [c47]
          simp only [c47', ee, ok_bind, wr_ok 0 hel, rd_ok he']
          by_cases cl : gt (b.set e 0 hel) (e - 1) = 47
          · simp only [cl, wr_ok 0 he', ok_bind]
            have hn2 := hn1.set 0 he' (Or.inr rfl)
            obtain ⟨r, b', c, e1, h1, h2, h3⟩ := childTail_ok hn2 (q := p+1) (e := e) (by simp; exact hq) (by simp; exact he1) true pid
            exact ⟨r, b', c, by simpa using e1, h1, by simpa using h2, by simpa using h3⟩
          · have : (gt (b.set e 0 hel) (e - 1) == 47) = false := by simp [cl]
            simp only [this]
            obtain ⟨r, b', c, e1, h1, h2, h3⟩ := childTail_ok hn1 (q := p+1) (e := e) (by simp; exact hq) (by simp; exact he1) false pid
            exact ⟨r, b', c, by simpa using e1, h1, by simpa using h2, by simpa using h3⟩
    · refine ⟨⟨-1, 0⟩, b, none, ?_, hn, rfl, fun _ h => by cases h⟩
      simp [c60, pure, Except.pure]


theorem strEqName_ok {b : Buf} (hn : HasNul b) {i : Nat} (hi : i < b.size) (t : TagName)
    (ht : ∀ j, t = .at j → j < b.size) (hl : ∀ l, t = .lit l → ∀ c ∈ l, c ≠ 0) (hnn : t ≠ .null) :
    ∃ r, strEqName b i t = .ok r := by
  cases t with
  | lit l => exact strEqLit_ok hn hi l (hl l rfl)
  | «at» j => exact strEqBuf_ok hn b.size i j hi (ht j rfl) (by omega)
  | null => exact absurd rfl hnn

/-- tag names are either in the buffer or NUL-free literals -/
def NameOk (f : Frame) : Prop := (∀ l, f.tagname = .lit l → ∀ c ∈ l, c ≠ 0) ∧ f.tagname ≠ .null

theorem closeTag_ok {b : Buf} {f : Frame} (hn : HasNul b) (hf : FrameOk b.size f) (hname : NameOk f) :
    ∃ r b' f', closeTag b f = .ok (r, b', f') ∧ HasNul b' ∧ b'.size = b.size ∧ FrameOk b.size f' ∧
      f'.tagname = f.tagname ∧ f'.parent = f.parent := by
  unfold closeTag
  by_cases hc : f.closed = true
  · simp only [hc, if_true]; exact ⟨0, b, f, rfl, hn, rfl, hf, rfl, rfl⟩
  · have hcf : f.closed = false := by simpa using hc
    simp only [hc]
    obtain ⟨p, ep, _, hp⟩ := ignoreSpaces_ok hn hf.tb
    simp only [ep, ok_bind, rd_ok hp]
    by_cases c60 : gt b p = 60
    · have hq : p + 1 < b.size := hn.ne_last hp (by rw [c60]; decide)
      obtain ⟨eo, ee, he⟩ := strchr_ok hn hq 62 (by decide)
      cases eo with
      | none => exact ⟨-1, b, f, by simp [c60, ee, pure, Except.pure], hn, rfl, hf, rfl, rfl⟩
      | some e =>
        obtain ⟨hqe, he1, _⟩ := he e rfl
        have hel : e < b.size := by omega
        have hn1 : HasNul (b.set e 0 hel) := hn.set 0 hel (Or.inr rfl)
        have hs1 : (b.set e 0 hel).size = b.size := by simp
        have hq' : p + 1 < (b.set e 0 hel).size := by rw [hs1]; exact hq
        have hf1 : FrameOk b.size { f with tagbuf := e + 1, content := false } :=
          ⟨he1, hf.ab, hf.tn, (fun h => by cases h)⟩
        simp only [c60, ee, ok_bind, wr_ok 0 hel, rd_ok hq']
        by_cases c47 : gt (b.set e 0 hel) (p + 1) = 47
        · have hq2 : p + 1 + 1 < (b.set e 0 hel).size := hn1.ne_last hq' (by rw [c47]; decide)
          obtain ⟨r, er⟩ := strEqName_ok hn1 hq2 f.tagname (fun j h => by rw [hs1]; exact hf.tn j h) hname.1 hname.2
          exact ⟨if r then 0 else -1, b.set e 0 hel, { f with tagbuf := e + 1, content := false },
            by simp [c47, er, hcf, pure, Except.pure], hn1, hs1, hf1, rfl, rfl⟩
        · exact ⟨-1, b.set e 0 hel, { f with tagbuf := e + 1, content := false },
            by simp [c47, hcf, pure, Except.pure], hn1, hs1, hf1, rfl, rfl⟩
    · exact ⟨-1, b, f, by simp [c60, pure, Except.pure], hn, rfl, hf, rfl, rfl⟩

theorem getContent_ok {b : Buf} {f : Frame} (len : Nat) (hn : HasNul b) (hf : FrameOk b.size f) :
    ∃ r b' f', getContent b f len = .ok (r, b', f') ∧ HasNul b' ∧ b'.size = b.size ∧ FrameOk b.size f' ∧
      f'.tagname = f.tagname ∧ f'.parent = f.parent ∧
      (¬ r.ret < 0 → f'.closed = true ∨ f'.content = true) := by
  unfold getContent
  by_cases hc : f.closed = true
  · simp only [hc, if_true]; exact ⟨_, b, f, rfl, hn, rfl, hf, rfl, rfl, fun _ => Or.inl hc⟩
  · have hcf : f.closed = false := by simpa using hc
    simp only [hc]
    obtain ⟨eo, ee, he⟩ := strchr_ok hn hf.tb 60 (by decide)
    cases eo with
    | none => exact ⟨⟨-1, none⟩, b, f, by simp [ee, pure, Except.pure], hn, rfl, hf, rfl, rfl, fun h => absurd (by decide) h⟩
    | some e =>
      obtain ⟨hqe, he1, _⟩ := he e rfl
      have hel : e < b.size := by omega
      simp only [ee, ok_bind]
      by_cases hl : e - f.tagbuf = len
      · refine ⟨⟨1, some f.tagbuf⟩, b.set e 0 hel, { f with tagbuf := e, content := true }, by simp [hl, hcf, wr_ok 0 hel, pure, Except.pure],
          hn.set 0 hel (Or.inr rfl), by simp, ⟨hel, hf.ab, hf.tn, (fun _ => he1)⟩, rfl, rfl, fun _ => Or.inr rfl⟩
      · exact ⟨⟨-1, none⟩, b, f, by simp [hl, pure, Except.pure], hn, rfl, hf, rfl, rfl, fun h => absurd (by decide) h⟩

theorem closeContent_ok {b : Buf} {f : Frame} (hn : HasNul b) (hf : FrameOk b.size f)
    (hl : f.closed = true ∨ f.content = true) :
    ∃ b' f', closeContent b f = .ok (b', f') ∧ HasNul b' ∧ b'.size = b.size ∧ FrameOk b.size f' ∧
      f'.tagname = f.tagname ∧ f'.parent = f.parent := by
  unfold closeContent
  by_cases hc : f.closed = true
  · simp only [hc, if_true]; exact ⟨b, f, rfl, hn, rfl, hf, rfl, rfl⟩
  · have hcf : f.closed = false := by simpa using hc
    simp only [hc]
    have hct : f.content = true := by rcases hl with h | h; exact absurd h hc; exact h
    have h1 := hf.ct hct
    have hel : f.tagbuf < b.size := hf.tb
    exact ⟨b.set f.tagbuf 60 hel, { f with content := false }, by simp [hcf, wr_ok 60 hel, pure, Except.pure],
      hn.set 60 hel (Or.inl h1), by simp, ⟨hf.tb, hf.ab, hf.tn, (fun h => by cases h)⟩, rfl, rfl⟩


/-! ### look_init -/

theorem skipHeaders_ok {b : Buf} (hn : HasNul b) :
    ∀ fuel p, p < b.size → b.size - p ≤ fuel →
    ∃ r, skipHeaders b fuel p = .ok r ∧ ∀ q, r = some q → q < b.size := by
  intro fuel
  induction fuel with
  | zero => intro p hp hf; omega
  | succ fu ih =>
    intro p hp hf
    obtain ⟨x, ex, _⟩ := matchLit_ok hn (lit "<?xml ") p hp (by decide)
    obtain ⟨y0, ey0, _⟩ := matchLit_ok hn (lit "<!DOCTYPE ") p hp (by decide)
    simp only [skipHeaders, ex, ok_bind]
    have hfalse : ∃ r, (pure (some p) : M (Option Nat)) = .ok r ∧ ∀ q, r = some q → q < b.size :=
      ⟨some p, rfl, fun q h => by cases h; exact hp⟩
    obtain ⟨nl, enl, hnl⟩ := strchr_ok hn hp 10 (by decide)
    cases x with
    | true =>
      simp only [pure_bind', if_true, enl, ok_bind]
      cases nl with
      | none => exact ⟨none, rfl, fun q h => by cases h⟩
      | some j =>
        obtain ⟨h1, h2, _⟩ := hnl j rfl
        exact ih (j+1) h2 (by omega)
    | false =>
      simp only [ey0, ok_bind]
      cases y0 with
      | true =>
        simp only [if_true, enl, ok_bind]
        cases nl with
        | none => exact ⟨none, rfl, fun q h => by cases h⟩
        | some j =>
          obtain ⟨h1, h2, _⟩ := hnl j rfl
          exact ih (j+1) h2 (by omega)
      | false => simpa using hfalse

theorem lookInit_ok (v : Variant) {b : Buf} (hn : HasNul b) (hl : v.fixA = true ∨ f05a b = false) :
    ∃ r fo, lookInit v b = .ok (r, fo) ∧ ∀ f, fo = some f → FrameOk b.size f ∧ LitOk f ∧ f.tagname ≠ .null := by
  obtain ⟨po, epo, hpo⟩ := skipHeaders_ok hn b.size 0 hn.pos (by omega)
  unfold lookInit
  simp only [epo, ok_bind]
  cases po with
  | none => exact ⟨_, none, rfl, fun f h => by cases h⟩
  | some p =>
    have hp := hpo p rfl
    obtain ⟨z, ez, _, _, _⟩ := span_ok (fun x => x != 0) b hn (by decide) b.size p hp (by omega)
    simp only [ez, ok_bind]
    cases hs : sscanfVersion ((b.extract p z).toList) with
    | some mm =>
      obtain ⟨ma, mi⟩ := mm
      obtain ⟨eo, ee, he⟩ := strchr_ok hn hp 62 (by decide)
      simp only [ee, ok_bind]
      cases eo with
      | none =>
        cases hv : v.fixA with
        | true => exact ⟨_, none, rfl, fun f h => by cases h⟩
        | false =>
          rcases hl with hl | hl
          · rw [hl] at hv; cases hv
          · simp only [f05a, epo, ez, hs, ee] at hl
            simp at hl
      | some e =>
        obtain ⟨_, he1, _⟩ := he e rfl
        refine ⟨_, _, rfl, ?_⟩
        intro f h; cases h
        exact ⟨⟨he1, (fun a h => by cases h), (fun t h => by cases h), (fun h => by cases h)⟩,
          (fun l h => by cases h; decide), (fun h => by cases h)⟩
    | none =>
      obtain ⟨t, et, ht⟩ := matchLit_ok hn (lit "<topology>") p hp (by decide)
      simp only [et, ok_bind]
      cases t with
      | true =>
        have := ht rfl
        refine ⟨_, _, rfl, ?_⟩
        intro f h; cases h
        exact ⟨⟨by simpa [lit] using this, (fun a h => by cases h), (fun t h => by cases h), (fun h => by cases h)⟩,
          (fun l h => by cases h; decide), (fun h => by cases h)⟩
      | false =>
        obtain ⟨r, er, hr⟩ := matchLit_ok hn (lit "<root>") p hp (by decide)
        simp only [er, ok_bind]
        cases r with
        | true =>
          have := hr rfl
          refine ⟨_, _, rfl, ?_⟩
          intro f h; cases h
          exact ⟨⟨by simpa [lit] using this, (fun a h => by cases h), (fun t h => by cases h), (fun h => by cases h)⟩,
            (fun l h => by cases h; decide), (fun h => by cases h)⟩
        | false => exact ⟨_, none, rfl, fun f h => by cases h⟩


/-! ### the whole scanner state -/

structure Inv (s : St) : Prop where
  nul : HasNul s.buf
  fr : ∀ (i : Nat) (f : Frame), s.frames[i]? = some f → FrameOk s.buf.size f ∧ LitOk f

theorem Inv.update {s : St} (h : Inv s) {b' : Buf} (hn : HasNul b') (hs : b'.size = s.buf.size)
    (i : Nat) {f' : Frame} (hf : FrameOk s.buf.size f') (hl : LitOk f') :
    Inv { buf := b', frames := s.frames.setIfInBounds i f' } := by
  refine ⟨hn, ?_⟩
  intro j f hj
  simp only [Array.getElem?_setIfInBounds] at hj
  show FrameOk b'.size f ∧ LitOk f
  rw [hs]
  by_cases e : i = j
  · simp only [e, if_true] at hj
    by_cases l : j < s.frames.size
    · simp only [l, if_true] at hj; cases hj; exact ⟨hf, hl⟩
    · simp only [l] at hj; cases hj
  · simp only [e, if_false] at hj; exact h.fr j f hj

theorem Inv.setBuf {s : St} (h : Inv s) {b' : Buf} (hn : HasNul b') (hs : b'.size = s.buf.size) :
    Inv { s with buf := b' } :=
  ⟨hn, fun j f hj => by show FrameOk b'.size f ∧ LitOk f; rw [hs]; exact h.fr j f hj⟩

theorem Inv.push {s : St} (h : Inv s) {b' : Buf} (hn : HasNul b') (hs : b'.size = s.buf.size)
    {c : Frame} (hf : FrameOk s.buf.size c) (hl : LitOk c) :
    Inv { buf := b', frames := s.frames.push c } := by
  refine ⟨hn, ?_⟩
  intro j f hj
  simp only [Array.getElem?_push] at hj
  show FrameOk b'.size f ∧ LitOk f
  rw [hs]
  by_cases e : j = s.frames.size
  · simp only [e, if_true] at hj; cases hj; exact ⟨hf, hl⟩
  · simp only [e, if_false] at hj; exact h.fr j f hj

/-- one legal op: no memory error, no fuel exhaustion, invariant kept -/
theorem step_ok (v : Variant) {s : St} (h : Inv s) (op : Op) (hl : legal v s op = true) :
    ∃ o s', step v s op = .ok (o, s') ∧ Inv s' ∧ s'.buf.size = s.buf.size := by
  cases op with
  | attr i =>
    simp only [step]
    cases hfi : s.frames[i]? with
    | none => exact ⟨_, s, rfl, h, rfl⟩
    | some f =>
      obtain ⟨hf, hlit⟩ := h.fr i f hfi
      have hl' : v.fixE = true ∨ f05e s.buf f = false := by
        simp only [legal, hfi] at hl
        cases hv : v.fixE with
        | true => exact Or.inl rfl
        | false => simp [hv] at hl; exact Or.inr hl
      obtain ⟨r, b', f', e, h1, h2, h3, hname⟩ := nextAttr_ok v h.nul hf hl'
      refine ⟨_, _, by simp only [e, ok_bind]; rfl, h.update h1 h2 i h3 ?_, h2⟩
      intro l hl2; rw [hname] at hl2; exact hlit l hl2
  | child i =>
    simp only [step]
    cases hfi : s.frames[i]? with
    | none => exact ⟨_, s, rfl, h, rfl⟩
    | some f =>
      obtain ⟨hf, _⟩ := h.fr i f hfi
      obtain ⟨r, b', c, e, h1, h2, h3⟩ := findChild_ok i h.nul hf
      simp only [e, ok_bind]
      cases c with
      | none => exact ⟨_, _, rfl, h.setBuf h1 h2, h2⟩
      | some cf =>
        exact ⟨_, _, rfl, h.push h1 h2 (h3 cf rfl).1 (h3 cf rfl).2, h2⟩
  | closeTag i =>
    simp only [step]
    cases hfi : s.frames[i]? with
    | none => exact ⟨_, s, rfl, h, rfl⟩
    | some f =>
      obtain ⟨hf, hlit⟩ := h.fr i f hfi
      have hnn : f.tagname ≠ .null := by
        simp only [legal, hfi] at hl; simpa using hl
      obtain ⟨r, b', f', e, h1, h2, h3, h4, _⟩ := closeTag_ok h.nul hf ⟨hlit, hnn⟩
      exact ⟨_, _, by simp only [e, ok_bind]; rfl, h.update h1 h2 i h3 (fun l hl2 => hlit l (h4 ▸ hl2)), h2⟩
  | closeChild i =>
    simp only [step]
    cases hfi : s.frames[i]? with
    | none => exact ⟨_, s, rfl, h, rfl⟩
    | some f =>
      obtain ⟨hf, hlit⟩ := h.fr i f hfi
      cases hp : f.parent with
      | none => simp [legal, hfi, hp] at hl
      | some p =>
        cases hpf : s.frames[p]? with
        | none => exact ⟨_, s, by simp only [hp, hpf]; rfl, h, rfl⟩
        | some pf =>
          obtain ⟨hpf1, hpl⟩ := h.fr p pf hpf
          refine ⟨.unit, { s with frames := s.frames.setIfInBounds p { pf with tagbuf := f.tagbuf, content := false } }, by simp only [hp, hpf]; rfl, ?_, rfl⟩
          have := h.update (b' := s.buf) h.nul rfl p (f' := { pf with tagbuf := f.tagbuf, content := false })
            ⟨hf.tb, hpf1.ab, hpf1.tn, (fun h => by cases h)⟩ hpl
          exact this
  | content i len =>
    simp only [step]
    cases hfi : s.frames[i]? with
    | none => exact ⟨_, s, rfl, h, rfl⟩
    | some f =>
      obtain ⟨hf, hlit⟩ := h.fr i f hfi
      obtain ⟨r, b', f', e, h1, h2, h3, h4, _, _⟩ := getContent_ok len h.nul hf
      exact ⟨_, _, by simp only [e, ok_bind]; rfl, h.update h1 h2 i h3 (fun l hl2 => hlit l (h4 ▸ hl2)), h2⟩
  | closeContent i =>
    simp only [step]
    cases hfi : s.frames[i]? with
    | none => exact ⟨_, s, rfl, h, rfl⟩
    | some f =>
      obtain ⟨hf, hlit⟩ := h.fr i f hfi
      have hl' : f.closed = true ∨ f.content = true := by
        simp only [legal, hfi] at hl; simpa using hl
      obtain ⟨b', f', e, h1, h2, h3, h4, _⟩ := closeContent_ok h.nul hf hl'
      exact ⟨_, _, by simp only [e, ok_bind]; rfl, h.update h1 h2 i h3 (fun l hl2 => hlit l (h4 ▸ hl2)), h2⟩

/-- every legal history: no memory error, every callback terminates, cursors stay inside -/
theorem run_ok (v : Variant) : ∀ (ops : List Op) (s : St), Inv s → legalRun v s ops = true →
    ∃ s', run v s ops = .ok s' ∧ Inv s' ∧ s'.buf.size = s.buf.size := by
  intro ops
  induction ops with
  | nil => intro s h _; exact ⟨s, rfl, h, rfl⟩
  | cons op ops ih =>
    intro s h hl
    simp only [legalRun, Bool.and_eq_true] at hl
    obtain ⟨o, s', e, h', hs⟩ := step_ok v h op hl.1
    simp only [e] at hl
    obtain ⟨s'', e2, h2, hs2⟩ := ih s' h' hl.2
    exact ⟨s'', by simp only [run, e, ok_bind, e2], h2, by rw [hs2, hs]⟩


/-! ### distances array filling -/

theorem fillLoop_bounds (cap : Nat) : ∀ (t : Toks) (nr : Nat), nr < cap →
    (∀ w ∈ (fillLoop cap nr t).1, w < cap) ∧ (fillLoop cap nr t).2 ≤ cap ∧ nr ≤ (fillLoop cap nr t).2 := by
  intro t
  induction t with
  | nil => intro nr h; exact ⟨fun w hw => by simp [fillLoop] at hw, by simp [fillLoop]; omega, by simp [fillLoop]⟩
  | cons x rest ih =>
    intro nr h
    obtain ⟨u, sp⟩ := x
    simp only [fillLoop]
    cases sp with
    | false => exact ⟨fun w hw => by simp at hw; omega, by simp; omega, by simp⟩
    | true =>
      by_cases e : nr + 1 = cap
      · simp only [e, Bool.not_true, beq_self_eq_true, if_true]
        exact ⟨fun w hw => by simp at hw; omega, by simp, by simp; omega⟩
      · have e' : (nr + 1 == cap) = false := by simp [e]
        simp only [Bool.not_true, e', Bool.false_eq_true, if_false]
        obtain ⟨h1, h2, h3⟩ := ih (nr + 1) (by omega)
        refine ⟨?_, h2, by omega⟩
        intro w hw
        simp only [List.mem_cons] at hw
        rcases hw with hw | hw
        · omega
        · exact h1 w hw

theorem fillAll_bounds (cap : Nat) : ∀ (ts : List Toks) (nr : Nat) ws n, nr ≤ cap →
    fillAll cap nr ts = some (ws, n) → (∀ w ∈ ws, w < cap) ∧ n ≤ cap := by
  intro ts
  induction ts with
  | nil =>
    intro nr ws n h e
    simp [fillAll] at e
    obtain ⟨e1, e2⟩ := e
    subst e1 e2
    exact ⟨(fun w hw => by cases hw), h⟩
  | cons t rest ih =>
    intro nr ws n h e
    simp only [fillAll, fillChild] at e
    by_cases g : nr ≥ cap
    · simp [g] at e
    · simp only [g, if_false, Option.bind_eq_bind, Option.bind_some] at e
      obtain ⟨h1, h2, _⟩ := fillLoop_bounds cap t nr (by omega)
      cases hr : fillAll cap (fillLoop cap nr t).2 rest with
      | none => simp [hr] at e
      | some r =>
        obtain ⟨w2, n2⟩ := r
        simp [hr] at e
        obtain ⟨e1, e2⟩ := e
        subst e1 e2
        obtain ⟨h3, h4⟩ := ih _ w2 n2 h2 hr
        refine ⟨?_, h4⟩
        intro w hw
        simp only [List.mem_append] at hw
        rcases hw with hw | hw
        · exact h1 w hw
        · exact h3 w hw

/-! ### backend_init -/

theorem backendInit_ok (fixB : Bool) (src : Buf) (len : Int) (h : 1 ≤ len) :
    ∃ b, backendInit fixB src len = .ok (some b) ∧ HasNul b ∧ b.size = len.toNat := by
  have h1 : ¬ len < 0 := by omega
  have h2 : (len == 0) = false := by simp; omega
  have hsz : ((Array.range len.toNat).map (fun i => src.getD i 0)).size = len.toNat := by simp
  have hlt : len.toNat - 1 < ((Array.range len.toNat).map (fun i => src.getD i 0)).size := by rw [hsz]; omega
  refine ⟨_, by simp only [backendInit, h1, h2, if_false, wr_ok 0 hlt, ok_bind]; rfl, ?_, by simp⟩
  refine ⟨by simp; omega, ?_⟩
  rw [gt_set]; simp

theorem backendInit_zero_pinned (src : Buf) : backendInit false src 0 = .error .under := rfl


/-! ### F05e, exact: on the pinned source the overrun happens for EVERY member of the class -/

theorem rd_oob {b : Buf} {i : Nat} (h : ¬ i < b.size) : rd b i = .error (.oob i) := by
  simp [rd, h]

theorem nextAttr_pinned_f05e {b : Buf} {f : Frame} (hn : HasNul b) (hf : FrameOk b.size f)
    (hc : f05e b f = true) : nextAttr pinned b f = .error (.oob b.size) := by
  unfold f05e attrValueStart at hc
  cases hab : f.attrbuf with
  | none => simp [hab] at hc
  | some a =>
    have ha := hf.ab a hab
    obtain ⟨h, eh, hh⟩ := attrHeader_ok hn ha
    simp only [hab, eh] at hc
    cases h with
    | none => simp at hc
    | some pe =>
      obtain ⟨p, e⟩ := pe
      have hv : e + 2 = b.size - 1 := by simpa using hc
      have he2 := hh p e rfl
      have he : e < b.size := by omega
      have hn1 : HasNul (b.set e 0 he) := hn.set 0 he (Or.inr rfl)
      have hsz : (b.set e 0 he).size = b.size := by simp
      have hv' : e + 2 < (b.set e 0 he).size := by rw [hsz]; exact he2
      have hz : gt (b.set e 0 he) (e + 2) = 0 := by
        have := hn1.last; rw [hsz, ← hv] at this; exact this
      have hpos : (b.set e 0 he).size = (b.size - 1) + 1 := by rw [hsz]; omega
      have hoob : ¬ e + 2 + 1 < ((b.set e 0 he).set (e + 2) 0 hv').size := by simp; omega
      unfold nextAttr
      simp only [hab, eh, ok_bind, wr_ok 0 he]
      rw [hpos]
      simp only [unesc, rd_ok hv', ok_bind, hz, pinned, wr_ok 0 hv', rd_oob hoob]
      have : e + 2 + 1 = b.size := by omega
      simp [this]


/-! ### F05a, exact -/

theorem lookInit_pinned_f05a {b : Buf} (hc : f05a b = true) : lookInit pinned b = .error .null := by
  unfold f05a at hc
  cases h1 : skipHeaders b b.size 0 with
  | error e => simp [h1] at hc
  | ok po =>
    cases po with
    | none => simp [h1] at hc
    | some p =>
      simp only [h1] at hc
      cases h2 : span (fun x => x != 0) b b.size p with
      | error e => simp [h2] at hc
      | ok z =>
        simp only [h2, Bool.and_eq_true] at hc
        obtain ⟨hs, hch⟩ := hc
        cases h3 : sscanfVersion ((b.extract p z).toList) with
        | none => rw [h3] at hs; cases hs
        | some mm =>
          cases h4 : strchr b p 62 with
          | error e => rw [h4] at hch; cases hch
          | ok eo =>
            cases eo with
            | some e => rw [h4] at hch; cases hch
            | none =>
              unfold lookInit
              simp only [h1, ok_bind, h2, h3, h4, pinned]
              rfl


/-! ### userdata base64 decoding: every write stays inside malloc(length+1) -/

theorem decWrites_bounds (targsize : Nat) : ∀ k state ti, ∀ w ∈ (decWrites targsize k state ti).1, w < targsize := by
  intro k
  induction k with
  | zero => intro state ti w hw; simp [decWrites] at hw
  | succ k ih =>
    intro state ti w hw
    unfold decWrites at hw
    split at hw
    · by_cases g : ti ≥ targsize
      · simp [g] at hw
      · simp only [g, if_false, List.mem_cons] at hw
        rcases hw with hw | hw
        · omega
        · exact ih _ _ w hw
    · by_cases g : ti + 1 ≥ targsize
      · simp [g] at hw
      · simp only [g, if_false, List.mem_cons] at hw
        rcases hw with hw | hw | hw
        · omega
        · omega
        · exact ih _ _ w hw
    · by_cases g : ti + 1 ≥ targsize
      · simp [g] at hw
      · simp only [g, if_false, List.mem_cons] at hw
        rcases hw with hw | hw | hw
        · omega
        · omega
        · exact ih _ _ w hw
    · by_cases g : ti ≥ targsize
      · simp [g] at hw
      · simp only [g, if_false, List.mem_cons] at hw
        rcases hw with hw | hw
        · omega
        · exact ih _ _ w hw


/-! ### userdata importer (F05f, positive): get_content, then close_content, then close_tag -/

theorem userdataTail_ok {b : Buf} {f : Frame} (len : Nat) (hn : HasNul b) (hf : FrameOk b.size f) (hname : NameOk f) :
    ∃ r b' f', userdataTail b f len = .ok (r, b', f') ∧ HasNul b' ∧ b'.size = b.size ∧ FrameOk b.size f' := by
  unfold userdataTail
  obtain ⟨r, b1, f1, e1, hn1, hs1, hf1, ht1, _, hc1⟩ := getContent_ok len hn hf
  simp only [e1, ok_bind]
  by_cases hr : r.ret < 0
  · simp only [hr, if_true]; exact ⟨-1, b1, f1, rfl, hn1, hs1, hf1⟩
  · simp only [hr, if_false]
    rw [← hs1] at hf1
    obtain ⟨b2, f2, e2, hn2, hs2, hf2, ht2, _⟩ := closeContent_ok hn1 hf1 (hc1 hr)
    simp only [e2, ok_bind]
    rw [← hs2] at hf2
    have hname2 : NameOk f2 := by
      unfold NameOk at hname ⊢
      rw [ht2, ht1]; exact hname
    obtain ⟨r3, b3, f3, e3, hn3, hs3, hf3, _, _⟩ := closeTag_ok hn2 hf2 hname2
    exact ⟨r3, b3, f3, e3, hn3, by rw [hs3, hs2, hs1], by rw [hs2, hs1] at hf3; exact hf3⟩

end Hw.XmlScan
