/-
  Hw.Io.BindLemmas — lemmas about the bind.c model: set semantics of the argument checks, what the
  prologue lets through, what the dispatch chains log.
-/
import Hw.Io.Bind
namespace Hw.Bind
open Hw.Gen.BindConsts

/-! ### finite-or-cofinite argument sets: the boolean tests mean what their names say -/

theorem and_eq_left_iff (a c : Nat) : a &&& c = a ↔ ∀ i, a.testBit i = true → c.testBit i = true := by
  constructor
  · intro h i hi
    have : (a &&& c).testBit i = true := by rw [h]; exact hi
    rw [Nat.testBit_and] at this
    simp only [Bool.and_eq_true] at this
    exact this.2
  · intro h
    apply Nat.eq_of_testBit_eq
    intro i
    rw [Nat.testBit_and]
    cases hi : a.testBit i
    · simp
    · simp [h i hi]

theorem and_eq_zero_iff (a c : Nat) : a &&& c = 0 ↔ ∀ i, a.testBit i = true → c.testBit i = false := by
  constructor
  · intro h i hi
    have : (a &&& c).testBit i = false := by rw [h]; simp
    rw [Nat.testBit_and, hi] at this
    simpa using this
  · intro h
    apply Nat.eq_of_testBit_eq
    intro i
    rw [Nat.testBit_and]
    cases hi : a.testBit i
    · simp
    · simp [h i hi]

theorem testBit_big (n m : Nat) : n.testBit (n + m) = false :=
  Nat.testBit_lt_two_pow (Nat.lt_of_lt_of_le Nat.lt_two_pow_self (Nat.pow_le_pow_right (by decide) (Nat.le_add_right n m)))

theorem testBit_big' (n m : Nat) : n.testBit (m + n) = false := by rw [Nat.add_comm]; exact testBit_big n m

theorem bne_false' (b : Bool) : (b != false) = b := by cases b <;> rfl
theorem bne_true' (b : Bool) : (b != true) = !b := by cases b <;> rfl

namespace ASet

theorem isZero_iff (a : ASet) : a.isZero = true ↔ ∀ i, a.mem i = false := by
  cases a with
  | mk bits inf =>
  cases inf
  · simp only [isZero, mem, Bool.not_false, Bool.true_and, beq_iff_eq, bne_false']
    constructor
    · intro h i; subst h; simp
    · intro h; apply Nat.eq_of_testBit_eq; intro i; rw [h i]; simp
  · simp only [isZero, mem, Bool.not_true, Bool.false_and, Bool.false_eq_true, false_iff]
    intro h
    have := h (bits + 0)
    rw [testBit_big] at this
    simp at this

theorem inclIn_iff (a : ASet) (c : Nat) :
    a.inclIn c = true ↔ ∀ i, a.mem i = true → c.testBit i = true := by
  cases a with
  | mk bits inf =>
  cases inf
  · simp only [inclIn, mem, Bool.not_false, Bool.true_and, beq_iff_eq, bne_false']
    exact and_eq_left_iff bits c
  · simp only [inclIn, mem, Bool.not_true, Bool.false_and, Bool.false_eq_true, false_iff]
    intro h
    have := h (bits + c) (by rw [testBit_big]; rfl)
    rw [testBit_big'] at this
    cases this

theorem covers_iff (a : ASet) (t : Nat) :
    a.covers t = true ↔ ∀ i, t.testBit i = true → a.mem i = true := by
  cases a with
  | mk bits inf =>
  cases inf
  · simp only [covers, mem, Bool.false_eq_true, if_false, beq_iff_eq, bne_false']
    exact and_eq_left_iff t bits
  · simp only [covers, mem, if_true, beq_iff_eq]
    rw [and_eq_zero_iff]
    constructor
    · intro h i hi; rw [h i hi]; rfl
    · intro h i hi
      have := h i hi
      cases hb : bits.testBit i
      · rfl
      · rw [hb] at this; cases this

end ASet

/-! ### hwloc_fix_cpubind / hwloc_fix_membind -/

theorem fixSet_none_iff (c t : Nat) (a : ASet) :
    fixSet c t a = none ↔ (a.isZero = true ∨ a.inclIn c = false) := by
  unfold fixSet
  cases hz : a.isZero
  · cases hi : a.inclIn c
    · simp
    · cases hc : a.covers t <;> simp
  · simp

/-- what hwloc_fix_cpubind / hwloc_fix_membind return when they do not fail -/
theorem fixSet_some {c t : Nat} {a : ASet} {s : Nat} (h : fixSet c t a = some s) :
    a.isZero = false ∧ a.inclIn c = true ∧ s ≠ 0 ∧ s &&& c = s ∧
    (a.covers t = true → s = c) ∧ (a.covers t = false → s = a.bits) := by
  unfold fixSet at h
  cases hz : a.isZero
  case true => simp [hz] at h
  cases hi : a.inclIn c
  case false => simp [hz, hi] at h
  have hinf : a.inf = false := by
    cases hinf : a.inf
    · rfl
    · simp [ASet.inclIn, hinf] at hi
  have hbits : a.bits &&& c = a.bits := by simpa [ASet.inclIn, hinf] using hi
  have hnz : a.bits ≠ 0 := by
    intro h0; simp [ASet.isZero, hinf, h0] at hz
  have hc0 : c ≠ 0 := by
    intro h0; rw [h0, Nat.and_zero] at hbits; exact hnz hbits.symm
  refine ⟨rfl, rfl, ?_⟩
  cases hc : a.covers t
  · simp only [hz, hi, hc, Bool.false_eq_true, if_false, Bool.not_true, Option.some.injEq] at h
    subst h
    exact ⟨hnz, hbits, by simp, by simp⟩
  · simp only [hz, hi, hc, Bool.false_eq_true, if_false, Bool.not_true, if_true, Option.some.injEq] at h
    subst h
    exact ⟨hc0, Nat.and_self _, by simp, by simp⟩

/-- set-level reading: the result is the complete set when the request covers the topology set, else
the request itself -/
theorem fixSet_mem {c t : Nat} {a : ASet} {s : Nat} (h : fixSet c t a = some s) (i : Nat) :
    s.testBit i = if a.covers t then c.testBit i else a.mem i := by
  have ⟨_, hi, _, _, h1, h2⟩ := fixSet_some h
  have hinf : a.inf = false := by
    cases hinf : a.inf
    · rfl
    · simp [ASet.inclIn, hinf] at hi
  cases hc : a.covers t
  · rw [h2 hc]; simp [ASet.mem, hinf]
  · rw [h1 hc]; simp

theorem fixMembindCpuset_none_iff (t : Topo) (a : ASet) :
    fixMembindCpuset t a = none ↔ (a.isZero = true ∨ a.inclIn t.completeCpuset = false) := by
  unfold fixMembindCpuset
  cases hz : a.isZero
  · cases hi : a.inclIn t.completeCpuset
    · simp
    · cases hc : a.covers t.topologyCpuset <;> simp
  · simp

theorem fixMembindCpuset_covers {t : Topo} {a : ASet} {ns : Nat}
    (h : fixMembindCpuset t a = some ns) (hc : a.covers t.topologyCpuset = true) : ns = t.completeNodeset := by
  unfold fixMembindCpuset at h
  cases hz : a.isZero
  case true => simp [hz] at h
  cases hi : a.inclIn t.completeCpuset
  case false => simp [hz, hi] at h
  simp [hz, hi, hc] at h
  exact h.symm

/-- fixing the complete set gives the complete set -/
theorem fixSet_fin_complete {c t s : Nat} (h : fixSet c t (ASet.fin c) = some s) : s = c := by
  have ⟨_, _, _, _, h1, h2⟩ := fixSet_some h
  cases hc : (ASet.fin c).covers t
  · rw [h2 hc]; rfl
  · exact h1 hc

/-! ### results that the epilogue leaves alone -/

@[simp] theorem epilogue_fail (t : Topo) (e : Entry) (req : Req) (err : Errno) :
    epilogue t e req (failRet err) = failRet err := by
  unfold epilogue failRet
  simp

theorem epilogue_of_ne_zero (t : Topo) (e : Entry) (req : Req) (r : Ret) (h : r.rc ≠ 0) :
    epilogue t e req r = r := by
  unfold epilogue
  have : (r.rc == 0) = false := by simpa using h
  simp [this]

theorem epilogue_not_memget (t : Topo) (e : Entry) (req : Req) (r : Ret) (h : e.isMemGet = false) :
    epilogue t e req r = r := by
  unfold epilogue
  simp [h]

theorem epilogue_rc (t : Topo) (e : Entry) (req : Req) (r : Ret) : (epilogue t e req r).rc = r.rc := by
  unfold epilogue
  split <;> rfl

/-! ### what the dispatch chains log -/

/-- `l` is what a computation appended to the log, every entry with arguments `a` and a hook from `hs` -/
def Appended {σ} (s s' : St σ) (a : Args) (hs : List Hook) : Prop :=
  ∃ l, s'.log = s.log ++ l ∧ ∀ c ∈ l, c.args = a ∧ c.hook ∈ hs

theorem Appended.refl {σ} (s : St σ) (a : Args) (hs : List Hook) : Appended s s a hs :=
  ⟨[], by simp, by simp⟩

theorem Appended.trans {σ} {s s' s'' : St σ} {a : Args} {hs : List Hook}
    (h1 : Appended s s' a hs) (h2 : Appended s' s'' a hs) : Appended s s'' a hs := by
  obtain ⟨l1, e1, p1⟩ := h1
  obtain ⟨l2, e2, p2⟩ := h2
  refine ⟨l1 ++ l2, by rw [e2, e1, List.append_assoc], ?_⟩
  intro c hc
  rcases List.mem_append.mp hc with h | h
  · exact p1 c h
  · exact p2 c h

theorem Appended.mono {σ} {s s' : St σ} {a : Args} {hs hs' : List Hook}
    (h : Appended s s' a hs) (hsub : ∀ x ∈ hs, x ∈ hs') : Appended s s' a hs' := by
  obtain ⟨l, e, p⟩ := h
  exact ⟨l, e, fun c hc => ⟨(p c hc).1, hsub _ (p c hc).2⟩⟩

theorem invoke_log {σ} (env : Env σ) (h : Hook) (a : Args) (s : St σ) :
    (invoke env h a s).2.log = s.log ++ [⟨h, a⟩] := rfl

theorem invoke_appended {σ} (env : Env σ) (h : Hook) (a : Args) (s : St σ) (hs : List Hook) (hm : h ∈ hs) :
    Appended s (invoke env h a s).2 a hs :=
  ⟨[⟨h, a⟩], rfl, by intro c hc; simp at hc; subst hc; exact ⟨rfl, hm⟩⟩

theorem dispatch1_appended {σ} (env : Env σ) (h : Hook) (a : Args) (s : St σ) (hs : List Hook) (hm : h ∈ hs) :
    Appended s (dispatch1 env h a s).2 a hs := by
  unfold dispatch1
  split
  · exact invoke_appended env h a s hs hm
  · exact Appended.refl s a hs

theorem dispatch3_appended {σ} (env : Env σ) (pb tb : Nat) (hp ht : Hook) (a : Args) (s : St σ) (hs : List Hook)
    (hmp : hp ∈ hs) (hmt : ht ∈ hs) : Appended s (dispatch3 env pb tb hp ht a s).2 a hs := by
  unfold dispatch3
  split
  · exact dispatch1_appended env hp a s hs hmp
  · split
    · exact dispatch1_appended env ht a s hs hmt
    · split
      · simp only
        split
        · exact invoke_appended env hp a s hs hmp
        · exact (invoke_appended env hp a s hs hmp).trans (dispatch1_appended env ht a _ hs hmt)
      · exact dispatch1_appended env ht a s hs hmt

theorem allocPlain_appended {σ} (env : Env σ) (a : Args) (s : St σ) (hs : List Hook) (hm : Hook.alloc ∈ hs) :
    Appended s (allocPlain env a s).2 a hs := by
  unfold allocPlain
  split
  · exact invoke_appended env .alloc a s hs hm
  · exact Appended.refl s a hs

theorem allocFallback_appended {σ} (env : Env σ) (st : Bool) (err : Errno) (a : Args) (s : St σ) :
    Appended s (allocFallback env st err a s).2 a [.alloc] := by
  unfold allocFallback
  split
  · exact Appended.refl s a _
  · exact allocPlain_appended env a s _ (by simp)

/-- the hooks an entry point may consult -/
def Entry.hooks : Entry → List Hook
  | .setCpubind => [.setThisprocCpubind, .setThisthreadCpubind]
  | .getCpubind => [.getThisprocCpubind, .getThisthreadCpubind]
  | .setProcCpubind => [.setProcCpubind]
  | .getProcCpubind => [.getProcCpubind]
  | .setThreadCpubind => [.setThreadCpubind]
  | .getThreadCpubind => [.getThreadCpubind]
  | .getLastCpuLocation => [.getThisprocLastCpu, .getThisthreadLastCpu]
  | .getProcLastCpuLocation => [.getProcLastCpu]
  | .setMembind => [.setThisprocMembind, .setThisthreadMembind]
  | .getMembind => [.getThisprocMembind, .getThisthreadMembind]
  | .setProcMembind => [.setProcMembind]
  | .getProcMembind => [.getProcMembind]
  | .setAreaMembind => [.setAreaMembind]
  | .getAreaMembind => [.getAreaMembind]
  | .getAreaMemlocation => [.getAreaMemlocation]
  | .alloc => [.alloc]
  | .allocMembind => [.allocMembind, .setAreaMembind, .alloc]
  | .free => [.freeMembind]

theorem dispatch_appended {σ} (env : Env σ) (e : Entry) (a : Args) (s : St σ) :
    Appended s (dispatch env e a s).2 a e.hooks := by
  cases e <;> simp only [dispatch, Entry.hooks]
  case setCpubind => exact dispatch3_appended _ _ _ _ _ _ _ _ (by simp) (by simp)
  case getCpubind => exact dispatch3_appended _ _ _ _ _ _ _ _ (by simp) (by simp)
  case getLastCpuLocation => exact dispatch3_appended _ _ _ _ _ _ _ _ (by simp) (by simp)
  case setMembind => exact dispatch3_appended _ _ _ _ _ _ _ _ (by simp) (by simp)
  case getMembind => exact dispatch3_appended _ _ _ _ _ _ _ _ (by simp) (by simp)
  case setProcCpubind => exact dispatch1_appended _ _ _ _ _ (by simp)
  case getProcCpubind => exact dispatch1_appended _ _ _ _ _ (by simp)
  case setThreadCpubind => exact dispatch1_appended _ _ _ _ _ (by simp)
  case getThreadCpubind => exact dispatch1_appended _ _ _ _ _ (by simp)
  case getProcLastCpuLocation => exact dispatch1_appended _ _ _ _ _ (by simp)
  case setProcMembind => exact dispatch1_appended _ _ _ _ _ (by simp)
  case getProcMembind => exact dispatch1_appended _ _ _ _ _ (by simp)
  case setAreaMembind => exact dispatch1_appended _ _ _ _ _ (by simp)
  case getAreaMembind => exact dispatch1_appended _ _ _ _ _ (by simp)
  case getAreaMemlocation => exact dispatch1_appended _ _ _ _ _ (by simp)
  case alloc => exact allocPlain_appended _ _ _ _ (by simp)
  case free =>
    split
    · exact invoke_appended _ _ _ _ _ (by simp)
    · exact Appended.refl _ _ _
  case allocMembind =>
    split
    · exact invoke_appended _ _ _ _ _ (by simp)
    · split
      · split
        · exact allocPlain_appended _ _ _ _ (by simp)
        · split
          · exact (allocPlain_appended env a s _ (by simp)).trans (invoke_appended _ _ _ _ _ (by simp))
          · exact (allocPlain_appended env a s _ (by simp)).trans (invoke_appended _ _ _ _ _ (by simp))
      · exact (allocFallback_appended _ _ _ _ _).mono (by simp)

/-! ### an unchanged log means that no hook ran -/

theorem invoke_log_ne {σ} (env : Env σ) (h : Hook) (a : Args) (s : St σ) : (invoke env h a s).2.log ≠ s.log := by
  rw [invoke_log]
  intro h'
  have := congrArg List.length h'
  simp at this

theorem appended_length {σ} {s s' : St σ} {a : Args} {hs : List Hook} (h : Appended s s' a hs) :
    s.log.length ≤ s'.log.length := by
  obtain ⟨l, e, _⟩ := h
  rw [e]; simp

theorem dispatch1_log_eq_iff {σ} (env : Env σ) (h : Hook) (a : Args) (s : St σ) :
    (dispatch1 env h a s).2.log = s.log ↔ env.present h = false := by
  unfold dispatch1
  cases hp : env.present h
  · simp
  · simp only [if_true, Bool.true_eq_false, iff_false]
    exact invoke_log_ne env h a s

theorem dispatch1_absent {σ} (env : Env σ) (h : Hook) (a : Args) (s : St σ) (hp : env.present h = false) :
    dispatch1 env h a s = (failRet .enosys, s) := by
  unfold dispatch1; simp [hp]

/-- which hooks the PROCESS / THREAD / fall-back chain selects -/
def noHook3 {σ} (env : Env σ) (pb tb : Nat) (hp ht : Hook) (flags : Nat) : Prop :=
  if flags &&& pb ≠ 0 then env.present hp = false
  else if flags &&& tb ≠ 0 then env.present ht = false
  else env.present hp = false ∧ env.present ht = false

theorem dispatch3_log_eq_iff {σ} (env : Env σ) (pb tb : Nat) (hp ht : Hook) (a : Args) (s : St σ) :
    (dispatch3 env pb tb hp ht a s).2.log = s.log ↔ noHook3 env pb tb hp ht a.flags := by
  unfold dispatch3 noHook3
  split
  · exact dispatch1_log_eq_iff env hp a s
  · split
    · exact dispatch1_log_eq_iff env ht a s
    · cases hpp : env.present hp
      · simp only [Bool.false_eq_true, if_false, true_and]
        exact dispatch1_log_eq_iff env ht a s
      · simp only [if_true, Bool.true_eq_false, false_and, iff_false]
        split
        · exact invoke_log_ne env hp a s
        · intro h
          have h1 := appended_length (dispatch1_appended env ht a (invoke env hp a s).2 [ht] (by simp))
          rw [h, invoke_log] at h1
          simp at h1
          omega

theorem dispatch3_absent {σ} (env : Env σ) (pb tb : Nat) (hp ht : Hook) (a : Args) (s : St σ)
    (h : noHook3 env pb tb hp ht a.flags) : dispatch3 env pb tb hp ht a s = (failRet .enosys, s) := by
  unfold dispatch3
  unfold noHook3 at h
  split
  · rename_i h1; rw [if_pos h1] at h; exact dispatch1_absent env hp a s h
  · rename_i h1
    rw [if_neg h1] at h
    split
    · rename_i h2; rw [if_pos h2] at h; exact dispatch1_absent env ht a s h
    · rename_i h2
      rw [if_neg h2] at h
      simp only [h.1, Bool.false_eq_true, if_false]
      exact dispatch1_absent env ht a s h.2

end Hw.Bind
