/- Hw.Io.Conc — model for C17 (documented thread-safety).

   Part (a) READERS.  Shared state = the validity flags of the lazy caches of one topology
   (per distances structure `HWLOC_INTERNAL_DIST_FLAG_OBJS_VALID`, per memory attribute
   `HWLOC_IMATTR_FLAG_CACHE_VALID`), the process-wide function-local `static int checked`
   environment caches, and "everything else" (`content`, opaque).  Every consulting entry point
   has a footprint `events s r` (list of accesses to abstract locations) read off the C:

     hwloc/distances.c  hwloc__distances_get -> hwloc_internal_distances_refresh (unconditional call,
                        writes objs[]/iflags of every structure whose OBJS_VALID is clear, unlinks it when
                        fewer than 2 objects survive)
     hwloc/memattrs.c   hwloc_memattr_get_value / get_targets / get_best_target: convenience attributes
                        return before the test; otherwise `if (!(iflags & CACHE_VALID)) hwloc__imattr_refresh`
                        hwloc_memattr_get_initiators / get_best_initiator: only attributes with NEED_INITIATOR
                        reach the test
     hwloc/topology-xml.c  hwloc_topology_export_xml / xmlbuffer: components_init/fini (under the mutex),
                        hwloc_internal_distances_refresh, static env caches; the memattr export itself does
                        NOT refresh (it prints type/gp_index, never the cached object)
     cpukinds: ranking is eager (register / restrict / refresh rank immediately), queries are pure reads.

   Concurrency semantics: every call is split into `observe` (the thread reads the shared state and
   decides what it will do) and `commit` (it performs its writes).  Other threads may run between the two,
   which is exactly what makes the unrefreshed W/W race reachable.

   Part (b) INDEPENDENT TOPOLOGIES.  Process-wide state (users, registry initialised, lock holder);
   hwloc_components_init / hwloc_components_fini as programs of a small instruction IR (extracted from
   components.c by tools/gen_conc.py into Hw/Gen/ComponentsIR.lean), interpreted by a step function over
   any number of threads.
-/
namespace Hw.Conc

/-! ## (a) readers -/

/-- function-local static environment caches (process-wide, written on first use) -/
inductive StaticCache
  | xmlVerbose          -- hwloc__xml_verbose            topology-xml.c:21
  | nolibxmlImport      -- hwloc_nolibxml_import         topology-xml.c:35
  | nolibxmlExport      -- hwloc_nolibxml_export         topology-xml.c:54
  | libxmlInit          -- hwloc_libxml2_init_once       topology-xml-libxml.c:33
  | hideErrors          -- hwloc_hide_errors             topology.c:71
  | insertErrorReported -- report_insert_error `reported` topology.c:123
  | linuxCpumaskSizes   -- _filesize / _nr_maps_allocated topology-linux.c:766
  deriving DecidableEq, Repr

inductive Loc
  | dist (id : Nat)          -- one hwloc_internal_distances_s: iflags, objs[], (indexes/values when compacted)
  | distList                 -- first_dist / last_dist / prev / next links
  | attr (i : Nat)           -- one hwloc_internal_memattr_s: iflags, nr_targets, targets[] cache
  | kinds                    -- cpukinds array
  | static (c : StaticCache)
  | registry                 -- hwloc_components_users + component lists (only touched under the mutex)
  | topo                     -- everything else reachable from the topology
  deriving DecidableEq, Repr

inductive Acc | R | W
  deriving DecidableEq, Repr

structure Event where
  loc : Loc
  acc : Acc
  locked : Bool := false     -- performed while holding hwloc_components_mutex
  deriving DecidableEq, Repr

structure DistSlot where
  id : Nat
  valid : Bool               -- OBJS_VALID
  survives : Bool            -- at least 2 of its objects still exist (refresh keeps it), else refresh unlinks it
  deriving DecidableEq, Repr

structure AttrSlot where
  conv : Bool                -- HWLOC_IMATTR_FLAG_CONVENIENCE (capacity, locality)
  needInit : Bool            -- HWLOC_MEMATTR_FLAG_NEED_INITIATOR
  valid : Bool               -- CACHE_VALID
  deriving DecidableEq, Repr

structure TopoState where
  dists : List DistSlot := []
  attrs : List AttrSlot := []
  warm : List StaticCache := []     -- static caches already initialised in this process
  content : Nat := 0                -- everything the consulting calls return (opaque)
  deriving DecidableEq, Repr

inductive PureFam
  | traversal | typePrint | setGetter | bitmapQuery | cpukindQuery | memattrMeta
  | distancesRelease | localNumanodes | exportSynthetic | infoQuery
  deriving DecidableEq, Repr

inductive MemQ | value | targets | initiators | bestTarget | bestInitiator
  deriving DecidableEq, Repr

/-- the consulting entry points, grouped by footprint -/
inductive Reader
  | pure (f : PureFam)
  | distancesGet (argsOk : Bool)                     -- hwloc_distances_get / _by_depth / _by_type / _by_name
  | memattrQuery (q : MemQ) (id : Nat) (argsOk : Bool)
  | exportXml (argsOk : Bool)                        -- hwloc_topology_export_xml / _xmlbuffer
  | diffBuild                                        -- hwloc_topology_diff_build (refreshes distances and ALL memattrs of both operands)
  deriving DecidableEq, Repr

def rd (l : Loc) : Event := { loc := l, acc := .R }
def wr (l : Loc) : Event := { loc := l, acc := .W }

/-- accesses of `hwloc_internal_distances_refresh_one` + the unlink in `hwloc_internal_distances_refresh` -/
def distEvents (d : DistSlot) : List Event :=
  rd (.dist d.id) ::
    (if d.valid then [] else wr (.dist d.id) :: (if d.survives then [] else [wr .distList]))

def distsEvents (ds : List DistSlot) : List Event := rd .distList :: ds.flatMap distEvents

/-- does this query reach `hwloc__imattr_refresh` on that attribute -/
def reachesTest (q : MemQ) (a : AttrSlot) : Bool :=
  match q with
  | .value | .targets | .bestTarget => !a.conv
  | .initiators | .bestInitiator => a.needInit

def refreshes (q : MemQ) (a : AttrSlot) : Bool := reachesTest q a && !a.valid

def staticEvents (s : TopoState) (c : StaticCache) : List Event :=
  if c ∈ s.warm then [rd (.static c)] else [rd (.static c), wr (.static c)]

/-- static caches consulted by the XML export path -/
def exportStatics : List StaticCache := [.nolibxmlExport, .xmlVerbose, .libxmlInit]

def lockedRegistry : Event := { loc := .registry, acc := .W, locked := true }

/-- accesses of `hwloc_internal_memattrs_refresh`: every attribute without CACHE_VALID (convenience ones included) -/
def attrsRefreshEvents (as : List AttrSlot) : List Event :=
  (List.range as.length).flatMap fun i =>
    match as[i]? with
    | some a => rd (.attr i) :: (if a.valid then [] else [wr (.attr i)])
    | none => []

/-- the footprint of one consulting call started in state `s` -/
def events (s : TopoState) : Reader → List Event
  | .pure .cpukindQuery => [rd .kinds, rd .topo]
  | .pure _ => [rd .topo]
  | .distancesGet false => [rd .topo]
  | .distancesGet true => rd .topo :: distsEvents s.dists
  | .memattrQuery q id ok =>
      if !ok then [rd .topo] else
      match s.attrs[id]? with
      | none => [rd .topo]
      | some a => rd .topo :: rd (.attr id) :: (if refreshes q a then [wr (.attr id)] else [])
  | .exportXml false => [rd .topo]
  | .diffBuild => rd .topo :: (distsEvents s.dists ++ attrsRefreshEvents s.attrs)
  | .exportXml true =>
      rd .topo :: lockedRegistry :: (exportStatics.flatMap (staticEvents s) ++ distsEvents s.dists ++
        (List.range s.attrs.length).map (fun i => rd (.attr i)) ++ [rd .kinds, lockedRegistry])

/-- `hwloc_internal_distances_refresh` on the state -/
def refreshDists (ds : List DistSlot) : List DistSlot :=
  ds.filterMap (fun d => if d.valid then some d else if d.survives then some { d with valid := true } else none)

def validateAttr (a : AttrSlot) : AttrSlot := { a with valid := true }

/-- effect of one unsynchronised write on the shared state -/
def applyWrite (s : TopoState) : Loc → TopoState
  | .dist id => { s with dists := s.dists.filterMap (fun d =>
        if d.id = id then (if d.valid then some d else if d.survives then some { d with valid := true } else none)
        else some d) }
  | .attr i => { s with attrs := s.attrs.mapIdx (fun j a => if j = i then validateAttr a else a) }
  | .static c => if c ∈ s.warm then s else { s with warm := c :: s.warm }
  | _ => s

def unlockedWrites (evs : List Event) : List Loc :=
  (evs.filter (fun e => e.acc == .W && !e.locked)).map (·.loc)

def applyWrites (s : TopoState) (ws : List Loc) : TopoState := ws.foldl applyWrite s

/-- `hwloc_topology_refresh` (topology.c:4660): cpukinds rank, distances refresh, memattrs refresh -/
def refresh (s : TopoState) : TopoState :=
  { s with dists := refreshDists s.dists, attrs := s.attrs.map validateAttr }

/-- what modifying calls do to the caches (`hwloc_internal_distances_invalidate_cached_objs`,
    `hwloc_internal_memattrs_need_refresh`); `surv` says which structures still have 2 objects afterwards -/
def invalidate (surv : Nat → Bool) (s : TopoState) : TopoState :=
  { s with dists := s.dists.map (fun d => { d with valid := false, survives := surv d.id }),
           attrs := s.attrs.map (fun a => if a.conv then a else { a with valid := false }) }

/-! ### topology flags, `hwloc_topology_refresh` and the tail of `hwloc_topology_load` as step sequences

   The two sequences are extracted from topology.c by tools/gen_conc.py (Hw/Gen/ComponentsIR.lean) and must equal
   the model sequences below (`C17_gen_load_seq_matches`, `C17_gen_refresh_seq_matches`, by `decide`). -/

def flagRestrictToCpubinding : Nat := 16    -- HWLOC_TOPOLOGY_FLAG_RESTRICT_TO_CPUBINDING (1UL<<4)
def flagRestrictToMembinding : Nat := 32    -- HWLOC_TOPOLOGY_FLAG_RESTRICT_TO_MEMBINDING (1UL<<5)
def flagNoDistances : Nat := 128            -- HWLOC_TOPOLOGY_FLAG_NO_DISTANCES (1UL<<7)
def flagNoMemattrs : Nat := 256             -- HWLOC_TOPOLOGY_FLAG_NO_MEMATTRS (1UL<<8)
def flagNoCpukinds : Nat := 512             -- HWLOC_TOPOLOGY_FLAG_NO_CPUKINDS (1UL<<9)

def hasFlag (flags mask : Nat) : Bool := flags &&& mask != 0

inductive LoadStep
  | rankKinds          -- hwloc_internal_cpukinds_rank
  | invalidateDists    -- hwloc_internal_distances_invalidate_cached_objs
  | refreshDists       -- hwloc_internal_distances_refresh
  | needRefreshAttrs   -- hwloc_internal_memattrs_need_refresh
  | refreshAttrs       -- hwloc_internal_memattrs_refresh
  | setLoaded          -- state |= IS_LOADED
  | restrictCpubind    -- hwloc_get_cpubind + hwloc_topology_restrict
  | restrictMembind    -- hwloc_get_membind + hwloc_topology_restrict(BYNODESET)
  | refreshAll         -- hwloc_topology_refresh
  deriving DecidableEq, Repr

/-- a step with its guard `(mask, whenSet)`: it runs iff `mask = 0` or `(flags & mask != 0) = whenSet` -/
abbrev GStep := LoadStep × Nat × Bool
abbrev LoadSeq := List GStep

def guardOk (flags : Nat) (g : Nat × Bool) : Bool := g.1 == 0 || (hasFlag flags g.1 == g.2)

/-- hwloc_topology_refresh (topology.c): unconditional — the user may have added distances / attribute values even when
    NO_DISTANCES / NO_MEMATTRS ignored what the OS reported.  (Before that repair the three steps were guarded:
    `[(.rankKinds, flagNoCpukinds, false), (.refreshDists, flagNoDistances, false), (.refreshAttrs, flagNoMemattrs, false)]`.) -/
def Model.refreshSeq : LoadSeq := [(.rankKinds, 0, false), (.refreshDists, 0, false), (.refreshAttrs, 0, false)]

/-- the tail of hwloc_topology_load after hwloc_discover (topology.c), with the fix 6c24a9e: the restrict-to-binding
    blocks are followed by a second refresh -/
def Model.loadSeq : LoadSeq :=
  [(.rankKinds, flagNoCpukinds, false),
   (.invalidateDists, flagNoDistances, false), (.refreshDists, flagNoDistances, false),
   (.needRefreshAttrs, flagNoMemattrs, false), (.refreshAttrs, flagNoMemattrs, false),
   (.setLoaded, 0, false),
   (.restrictCpubind, flagRestrictToCpubinding, true), (.restrictMembind, flagRestrictToMembinding, true),
   (.refreshAll, flagRestrictToCpubinding ||| flagRestrictToMembinding, true)]

/-- the same before 6c24a9e (finding F51) -/
def Model.loadSeqUnfixed : LoadSeq := Model.loadSeq.dropLast

/-- every function of hwloc/{memattrs,distances,cpukinds,topology-xml,topology,diff,shmem,traversal,bind,bitmap,
    topology-synthetic,misc,pci-common}.c that calls a cache-(re)building function, in source order, with whether the call
    is guarded by the validity flag.  The consulting entry points among them are exactly the writers of `events`:
    the five memattr queries, hwloc__distances_get (the four public getters), the two XML exports, diff_build
    (and hwloc_shmem_topology_write, covered by C19); a new caller breaks `C17_gen_lazy_callers_match`. -/
def Model.lazyCallers : List (String × String × Bool) := [
  ("memattrs.c:hwloc_internal_memattrs_refresh", "hwloc__imattr_refresh", true),
  ("memattrs.c:hwloc_memattr_get_targets", "hwloc__imattr_refresh", true),
  ("memattrs.c:hwloc_memattr_get_initiators", "hwloc__imattr_refresh", true),
  ("memattrs.c:hwloc_memattr_get_value", "hwloc__imattr_refresh", true),
  ("memattrs.c:hwloc__internal_memattr_set_value", "hwloc__imattr_refresh", false),
  ("memattrs.c:hwloc_memattr_get_best_target", "hwloc__imattr_refresh", true),
  ("memattrs.c:hwloc_memattr_get_best_initiator", "hwloc__imattr_refresh", true),
  ("memattrs.c:hwloc__group_memory_tiers", "hwloc__imattr_refresh", true),
  ("memattrs.c:hwloc__group_memory_tiers", "hwloc__imattr_refresh", true),
  ("distances.c:hwloc_internal_distances_refresh", "hwloc_internal_distances_refresh_one", false),
  ("distances.c:hwloc__distances_get", "hwloc_internal_distances_refresh", false),
  ("cpukinds.c:hwloc_internal_cpukinds_restrict", "hwloc_internal_cpukinds_rank", false),
  ("cpukinds.c:hwloc_cpukinds_register", "hwloc_internal_cpukinds_rank", false),
  ("topology-xml.c:hwloc_topology_export_xml", "hwloc_internal_distances_refresh", false),
  ("topology-xml.c:hwloc_topology_export_xmlbuffer", "hwloc_internal_distances_refresh", false),
  ("topology.c:hwloc_topology_load", "hwloc_internal_cpukinds_rank", false),
  ("topology.c:hwloc_topology_load", "hwloc_internal_distances_refresh", false),
  ("topology.c:hwloc_topology_load", "hwloc_internal_memattrs_refresh", false),
  ("topology.c:hwloc_topology_load", "hwloc_topology_refresh", false),
  ("topology.c:hwloc_topology_refresh", "hwloc_internal_cpukinds_rank", false),
  ("topology.c:hwloc_topology_refresh", "hwloc_internal_distances_refresh", false),
  ("topology.c:hwloc_topology_refresh", "hwloc_internal_memattrs_refresh", false),
  ("diff.c:hwloc_topology_diff_build", "hwloc_internal_distances_refresh", false),
  ("diff.c:hwloc_topology_diff_build", "hwloc_internal_distances_refresh", false),
  ("diff.c:hwloc_topology_diff_build", "hwloc_internal_memattrs_refresh", false),
  ("diff.c:hwloc_topology_diff_build", "hwloc_internal_memattrs_refresh", false),
  ("shmem.c:hwloc_shmem_topology_write", "hwloc_internal_distances_refresh", false),
  ("shmem.c:hwloc_shmem_topology_write", "hwloc_internal_memattrs_refresh", false),
  ("shmem.c:hwloc_shmem_topology_write", "hwloc_internal_distances_refresh", false),
  ("shmem.c:hwloc_shmem_topology_write", "hwloc_internal_memattrs_refresh", false)]

def Model.flags : List Nat :=
  [flagRestrictToCpubinding, flagRestrictToMembinding, flagNoDistances, flagNoMemattrs, flagNoCpukinds]

def invalidateDistsOnly (surv : Nat → Bool) (s : TopoState) : TopoState :=
  { s with dists := s.dists.map (fun d => { d with valid := false, survives := surv d.id }) }

def needRefreshAttrsOnly (s : TopoState) : TopoState :=
  { s with attrs := s.attrs.map (fun a => if a.conv then a else { a with valid := false }) }

/-- what the model cannot know about one load: which distances structures keep 2 objects after discovery / after each
    binding restrict, and whether the binding restricts run at all (get_cpubind may fail, the set may cover everything) -/
structure LoadOracle where
  surv : Nat → Bool
  survCpu : Nat → Bool
  survMem : Nat → Bool
  ranCpu : Bool
  ranMem : Bool

def effect (o : LoadOracle) : LoadStep → TopoState → TopoState
  | .rankKinds, s | .setLoaded, s => s
  | .invalidateDists, s => invalidateDistsOnly o.surv s
  | .refreshDists, s => { s with dists := refreshDists s.dists }
  | .needRefreshAttrs, s => needRefreshAttrsOnly s
  | .refreshAttrs, s => { s with attrs := s.attrs.map validateAttr }
  | .restrictCpubind, s => if o.ranCpu then invalidate o.survCpu s else s     -- restrict invalidates unconditionally
  | .restrictMembind, s => if o.ranMem then invalidate o.survMem s else s
  | .refreshAll, s => refresh s

def runSeq (seq : LoadSeq) (flags : Nat) (o : LoadOracle) (s : TopoState) : TopoState :=
  seq.foldl (fun x g => if guardOk flags g.2 then effect o g.1 x else x) s

/-- the tail of `hwloc_topology_load` under flag word `flags` -/
def loadTail (flags : Nat) (o : LoadOracle) (s : TopoState) : TopoState := runSeq Model.loadSeq flags o s

/-- what load relies on for the caches its own tail skips under NO_DISTANCES / NO_MEMATTRS: nothing was discovered, so
    nothing is invalid when load starts -/
def FlaggedOffValid (flags : Nat) (s : TopoState) : Prop :=
  (hasFlag flags flagNoDistances = true → ∀ d ∈ s.dists, d.valid = true) ∧
  (hasFlag flags flagNoMemattrs = true → ∀ a ∈ s.attrs, a.valid = true)

/-- every lazy cache is valid (convenience attributes included: the per-attribute queries never test their flag, but
    hwloc_internal_memattrs_refresh — reached from hwloc_topology_diff_build and hwloc_shmem_topology_write — does) -/
def CachesValid (s : TopoState) : Prop :=
  (∀ d ∈ s.dists, d.valid = true) ∧ (∀ a ∈ s.attrs, a.valid = true)

def Warm (s : TopoState) : Prop := ∀ c : StaticCache, c ∈ s.warm

def Valid (s : TopoState) : Prop := CachesValid s ∧ Warm s

/-- executable versions (driver / examples) -/
def cachesValidB (s : TopoState) : Bool :=
  s.dists.all (·.valid) && s.attrs.all (·.valid)

def allStatics : List StaticCache :=
  [.xmlVerbose, .nolibxmlImport, .nolibxmlExport, .libxmlInit, .hideErrors, .insertErrorReported, .linuxCpumaskSizes]

def warmB (s : TopoState) : Bool := allStatics.all (· ∈ s.warm)

/-! ### threads -/

structure Pending where
  reader : Reader
  snap : TopoState            -- the shared state the call observed when it started
  deriving DecidableEq, Repr

structure ThreadSt where
  prog : List Reader := []
  pending : Option Pending := none
  deriving DecidableEq, Repr

structure TraceEntry where
  tid : Nat
  reader : Reader
  snap : TopoState
  events : List Event
  deriving DecidableEq, Repr

structure Sys where
  st : TopoState
  thr : List ThreadSt
  trace : List TraceEntry := []
  deriving Repr

/-- one scheduling decision: thread `t` either starts its next call (observe) or finishes the one in
    flight (commit: its unlocked writes hit the shared state). -/
def step (y : Sys) (t : Nat) : Sys :=
  match y.thr[t]? with
  | none => y
  | some th =>
    match th.pending with
    | some p =>
        let evs := events p.snap p.reader
        { st := applyWrites y.st (unlockedWrites evs),
          thr := y.thr.set t { th with pending := none },
          trace := y.trace ++ [{ tid := t, reader := p.reader, snap := p.snap, events := evs }] }
    | none =>
      match th.prog with
      | [] => y
      | r :: rest => { y with thr := y.thr.set t { prog := rest, pending := some { reader := r, snap := y.st } } }

def run (y : Sys) (sched : List Nat) : Sys := sched.foldl step y

def start (s : TopoState) (progs : List (List Reader)) : Sys :=
  { st := s, thr := progs.map (fun p => { prog := p }) }

def conflict (a b : Event) : Bool :=
  a.loc == b.loc && (a.acc == .W || b.acc == .W) && !(a.locked && b.locked)

/-- no two accesses of different threads conflict — whatever the order in which the individual accesses of
    the calls are interleaved (the reader threads share no synchronisation besides the components mutex) -/
def RaceFree (tr : List TraceEntry) : Prop :=
  ∀ a ∈ tr, ∀ b ∈ tr, a.tid ≠ b.tid → ∀ e₁ ∈ a.events, ∀ e₂ ∈ b.events, conflict e₁ e₂ = false

def raceFreeB (tr : List TraceEntry) : Bool :=
  tr.all fun a => tr.all fun b => a.tid == b.tid || a.events.all fun e₁ => b.events.all fun e₂ => !conflict e₁ e₂

/-! ## (b) component registry -/
namespace Reg

inductive Instr
  | lock | unlock | ret
  | test                     -- flag := (users ≠ 0)
  | inc | dec
  | brIfNot (tgt : Nat)      -- if ¬flag goto tgt
  | brIf (tgt : Nat)         -- if flag goto tgt
  | initReg | destroyReg
  deriving DecidableEq, Repr

abbrev Prog := List Instr

/-- hwloc_components_init (components.c:436):
    LOCK; if (0 != users++) { UNLOCK; return; } <register components>; UNLOCK; -/
def Model.initProg : Prog := [.lock, .test, .inc, .brIfNot 6, .unlock, .ret, .initReg, .unlock, .ret]
/-- hwloc_components_fini (components.c:901):
    LOCK; if (0 != --users) { UNLOCK; return; } <finalize, reset lists>; UNLOCK; -/
def Model.finiProg : Prog := [.lock, .dec, .test, .brIfNot 6, .unlock, .ret, .destroyReg, .unlock, .ret]

inductive Phase | idle | init | between | fini
  deriving DecidableEq, Repr, Hashable

structure Thr where
  phase : Phase := .idle
  pc : Nat := 0
  flag : Bool := false
  deriving DecidableEq, Repr, Hashable

structure Cfg where
  users : Nat := 0
  reg : Bool := false             -- registry initialised (hwloc_disc_components / xml callbacks registered)
  lock : Option Nat := none
  thr : List Thr := []
  bad : Bool := false             -- an access outside the lock, a failed assert, double init, destroy of nothing,
                                  -- unlock by a non-holder, return with the lock held
  deriving DecidableEq, Repr, Hashable

def setThr (c : Cfg) (t : Nat) (th : Thr) : Cfg := { c with thr := c.thr.set t th }

/-- execute one instruction of thread `t` (local state `th`); `next` is the phase entered by `ret` -/
def exec (c : Cfg) (t : Nat) (th : Thr) (next : Phase) : Instr → Cfg
  | .lock => if c.lock = none then { setThr c t { th with pc := th.pc + 1 } with lock := some t } else c
  | .unlock =>
      if c.lock = some t then { setThr c t { th with pc := th.pc + 1 } with lock := none }
      else { c with bad := true }
  | .ret =>
      if c.lock = some t then { c with bad := true }
      else setThr c t { phase := next, pc := 0, flag := false }
  | .test =>
      if c.lock = some t then setThr c t { th with pc := th.pc + 1, flag := decide (c.users ≠ 0) }
      else { c with bad := true }
  | .inc =>
      if c.lock = some t then { setThr c t { th with pc := th.pc + 1 } with users := c.users + 1 }
      else { c with bad := true }
  | .dec =>
      if c.lock = some t ∧ c.users ≠ 0 then { setThr c t { th with pc := th.pc + 1 } with users := c.users - 1 }
      else { c with bad := true }
  | .brIfNot tgt => setThr c t { th with pc := if th.flag then th.pc + 1 else tgt }
  | .brIf tgt => setThr c t { th with pc := if th.flag then tgt else th.pc + 1 }
  | .initReg =>
      if c.lock = some t ∧ c.reg = false then { setThr c t { th with pc := th.pc + 1 } with reg := true }
      else { c with bad := true }
  | .destroyReg =>
      if c.lock = some t ∧ c.reg = true then { setThr c t { th with pc := th.pc + 1 } with reg := false }
      else { c with bad := true }

/-- one scheduling decision.  An idle thread calls `hwloc_components_init` (topology_init), a thread between
    its init and fini calls `hwloc_components_fini` (topology_destroy); a thread blocked on the mutex stutters. -/
def step (ip fp : Prog) (c : Cfg) (t : Nat) : Cfg :=
  match c.thr[t]? with
  | none => c
  | some th =>
    match th.phase with
    | .idle => setThr c t { phase := .init, pc := 0, flag := false }
    | .between => setThr c t { phase := .fini, pc := 0, flag := false }
    | .init => match ip[th.pc]? with
        | none => c
        | some i => exec c t th .between i
    | .fini => match fp[th.pc]? with
        | none => c
        | some i => exec c t th .idle i

def run (ip fp : Prog) (c : Cfg) (sched : List Nat) : Cfg := sched.foldl (step ip fp) c

def start (n : Nat) : Cfg := { thr := List.replicate n {} }

/-- thread contributes to the reference count: between its `users++` and its `--users` -/
def holding (th : Thr) : Bool :=
  match th.phase with
  | .idle => false
  | .between => true
  | .init => decide (3 ≤ th.pc)
  | .fini => decide (th.pc ≤ 1)

/-- thread is between LOCK and UNLOCK of the model programs -/
def inCS (th : Thr) : Bool :=
  (th.phase = .init ∨ th.phase = .fini) && (th.pc = 1 || th.pc = 2 || th.pc = 3 || th.pc = 4 || th.pc = 6 || th.pc = 7)

/-- what holds at each program point inside the critical sections -/
def csInv (c : Cfg) (th : Thr) : Prop :=
  match th.phase, th.pc with
  | .init, 1 => (c.reg = true ↔ 0 < c.users)
  | .init, 2 => th.flag = decide (c.users ≠ 0) ∧ (c.reg = true ↔ 0 < c.users)
  | .init, 3 => 1 ≤ c.users ∧ th.flag = decide (c.users ≠ 1) ∧ (c.reg = true ↔ 1 < c.users)
  | .init, 4 => c.reg = true ∧ 1 ≤ c.users
  | .init, 6 => c.reg = false ∧ c.users = 1
  | .init, 7 => c.reg = true ∧ 1 ≤ c.users
  | .fini, 1 => (c.reg = true ↔ 0 < c.users)
  | .fini, 2 => c.reg = true
  | .fini, 3 => c.reg = true ∧ th.flag = decide (c.users ≠ 0)
  | .fini, 4 => c.reg = true ∧ c.users ≠ 0
  | .fini, 6 => c.reg = true ∧ c.users = 0
  | .fini, 7 => c.reg = false ∧ c.users = 0
  | _, _ => True

structure Inv (c : Cfg) : Prop where
  notBad : c.bad = false
  count : c.users = c.thr.countP holding
  excl : ∀ t th, c.thr[t]? = some th → inCS th = true → c.lock = some t
  free : c.lock = none → (c.reg = true ↔ 0 < c.users)
  held : ∀ t, c.lock = some t → ∃ th, c.thr[t]? = some th ∧ inCS th = true ∧ csInv c th

/-- executable invariant for the exhaustive search over a GENERATED program: `counted` is supplied by the
    search (ghost: the thread has executed its inc and not yet its dec) -/
def checkFree (c : Cfg) : Bool :=
  !c.bad && (c.lock.isSome || (c.reg == decide (0 < c.users))) &&
    c.thr.all (fun th => th.phase != .between || c.reg) &&
    (c.thr.countP (fun th => th.phase == .between) ≤ c.users)

end Reg
end Hw.Conc
