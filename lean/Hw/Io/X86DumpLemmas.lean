import Hw.Io.X86Dump
import Hw.Io.LinuxCgroupLemmas
namespace Hw.X86Dump
open Hw Hw.LinuxParse Hw.LinuxCgroup
end Hw.X86Dump
