/-
  Hw.Io.X86DumpLemmas — facts about the CPUID-dump reading layer model (Hw/Io/X86Dump.lean).
-/
import Hw.Io.X86Dump
import Hw.Io.LinuxCgroupLemmas
namespace Hw.X86Dump
open Hw Hw.LinuxParse Hw.LinuxCgroup

/-! ### the fgets lines -/

theorem fgets_chunk_ne_nil (n : Nat) (hn : 2 ≤ n) (s : List Byte) (hs : s ≠ []) : (fgets n s).1 ≠ [] := by
  intro h
  have h1 := fgets_progress n hn s hs
  have h2 : (fgets n s).1 ++ (fgets n s).2 = s := fgetsAux_append _ s
  rw [h, List.nil_append] at h2
  rw [h2] at h1
  omega

/-- every line handed to the loop body: non-empty, at most `n-1` bytes (the NUL fits in the buffer) -/
theorem linesAux_bounds (n : Nat) (hn : 2 ≤ n) : ∀ (fuel : Nat) (s : List Byte), ∀ ch ∈ linesAux n fuel s,
    ch ≠ [] ∧ ch.length ≤ n - 1
  | 0, _, ch, h => by simp [linesAux] at h
  | fuel+1, s, ch, h => by
    rw [linesAux] at h
    by_cases hs : s = []
    · simp [hs] at h
    · rw [if_neg hs, List.mem_cons] at h
      rcases h with h | h
      · rw [h]; exact ⟨fgets_chunk_ne_nil n hn s hs, fgets_length n s⟩
      · exact linesAux_bounds n hn fuel _ ch h

/-- nothing is lost or duplicated: the lines, concatenated, are the file -/
theorem linesAux_flatten (n : Nat) (hn : 2 ≤ n) : ∀ (fuel : Nat) (s : List Byte), s.length ≤ fuel →
    (linesAux n fuel s).flatten = s
  | 0, s, h => by
    have : s = [] := List.eq_nil_of_length_eq_zero (by omega)
    simp [linesAux, this]
  | fuel+1, s, h => by
    rw [linesAux]
    by_cases hs : s = []
    · simp [hs]
    · rw [if_neg hs, List.flatten_cons,
        linesAux_flatten n hn fuel _ (by have := fgets_progress n hn s hs; omega)]
      exact fgetsAux_append _ s

/-! ### the stores -/

theorem take_set_same {α : Type} (a : α) : ∀ (l : List α) (i : Nat), (l.set i a).take i = l.take i
  | [], _ => by simp
  | _ :: _, 0 => by simp
  | x :: xs, i+1 => by simp [take_set_same a xs i]

theorem take_set_succ {α : Type} (a : α) : ∀ (l : List α) (i : Nat), i < l.length →
    (l.set i a).take (i + 1) = l.take i ++ [a]
  | [], _, h => by simp at h
  | _ :: _, 0, _ => by simp
  | x :: xs, i+1, h => by
    simp only [List.length_cons] at h
    simp [take_set_succ a xs i (by omega)]

theorem ofList_nine (e : Entry) : ∀ vs : List Nat, vs.length = 9 → Entry.ofList vs = some (storeFields e vs)
  | [_, _, _, _, _, _, _, _, _], _ => rfl
  | [], h | [_], h | [_, _], h | [_, _, _], h | [_, _, _, _], h | [_, _, _, _, _], h | [_, _, _, _, _, _], h
  | [_, _, _, _, _, _, _], h | [_, _, _, _, _, _, _, _], h => by simp at h
  | _ :: _ :: _ :: _ :: _ :: _ :: _ :: _ :: _ :: _ :: _, h => by simp at h

theorem ofList_not_nine : ∀ vs : List Nat, vs.length ≠ 9 → Entry.ofList vs = none
  | [_, _, _, _, _, _, _, _, _], h => by simp at h
  | [], _ | [_], _ | [_, _], _ | [_, _, _], _ | [_, _, _, _], _ | [_, _, _, _, _], _ | [_, _, _, _, _, _], _
  | [_, _, _, _, _, _, _], _ | [_, _, _, _, _, _, _, _], _ => rfl
  | _ :: _ :: _ :: _ :: _ :: _ :: _ :: _ :: _ :: _ :: _, _ => rfl

/-- the loop invariant of the second pass: with room for one cell per remaining line no store is out of
bounds, the array keeps its size, `nr` grows by at most one per line, and the cells below `nr` are the
cells that were there plus the entries of the fully converted lines, in order -/
theorem fill_inv : ∀ (chs : List (List Byte)) (st : RState), st.nr + chs.length ≤ st.mem.length →
    ∃ st', chs.foldl fillStep (some st) = some st' ∧ st'.mem.length = st.mem.length ∧
      st.nr ≤ st'.nr ∧ st'.nr ≤ st.nr + chs.length ∧
      st'.mem.take st'.nr = st.mem.take st.nr ++ chs.filterMap parseLine
  | [], st, _ => ⟨st, rfl, rfl, Nat.le_refl _, by simp, by simp⟩
  | ch :: rest, st, h => by
    simp only [List.length_cons] at h
    rw [List.foldl_cons]
    by_cases hc : isComment ch = true
    · have hstep : fillStep (some st) ch = some st := by simp [fillStep, hc]
      have hp : parseLine ch = none := by simp [parseLine, hc]
      obtain ⟨st', h1, h2, h3, h4, h5⟩ := fill_inv rest st (by omega)
      refine ⟨st', by rw [hstep]; exact h1, h2, h3, by simp only [List.length_cons]; omega, ?_⟩
      rw [h5, List.filterMap_cons, hp]
    · have hlt : st.nr < st.mem.length := by omega
      have hget : st.mem[st.nr]? = some st.mem[st.nr] := List.getElem?_eq_getElem hlt
      let vs := scanLine (cstr ch)
      let st1 : RState := { mem := st.mem.set st.nr (storeFields st.mem[st.nr] vs),
                            nr := if vs.length = 9 then st.nr + 1 else st.nr }
      have hstep : fillStep (some st) ch = some st1 := by
        simp only [fillStep, hc, hget]; rfl
      have hlen1 : st1.mem.length = st.mem.length := by simp [st1]
      have hnr1 : st.nr ≤ st1.nr ∧ st1.nr ≤ st.nr + 1 := by
        simp only [st1]; split <;> omega
      have htake1 : st1.mem.take st1.nr = st.mem.take st.nr ++ (parseLine ch).toList := by
        have hp : parseLine ch = Entry.ofList vs := by simp [parseLine, hc, vs]
        rw [hp]
        by_cases h9 : vs.length = 9
        · rw [ofList_nine st.mem[st.nr] vs h9]
          simp only [st1, if_pos h9]
          exact take_set_succ _ _ _ hlt
        · rw [ofList_not_nine vs h9]
          simp only [st1, if_neg h9, Option.toList_none, List.append_nil]
          exact take_set_same _ _ _
      obtain ⟨st', h1, h2, h3, h4, h5⟩ := fill_inv rest st1 (by rw [hlen1]; omega)
      refine ⟨st', by rw [hstep]; exact h1, by rw [h2, hlen1], by omega,
        by simp only [List.length_cons]; omega, ?_⟩
      rw [h5, htake1, List.append_assoc]
      congr 1
      cases hpl : parseLine ch <;> simp [hpl]

/-- cpuiddump_read, both passes: no store outside the allocation whatever the file holds and whatever the
malloc'ed cells held; the result is `table content` -/
theorem readFill_safe (content : List Byte) (init : List Entry) (hinit : init.length = (lines content).length) :
    ∃ st, readFill content init = some st ∧ st.mem.length = init.length ∧ st.nr ≤ init.length ∧
      st.mem.take st.nr = table content := by
  obtain ⟨st', h1, h2, _, h4, h5⟩ := fill_inv (lines content) { mem := init, nr := 0 } (by simp [hinit])
  refine ⟨st', h1, h2, by simpa [hinit] using h4, ?_⟩
  simpa [table] using h5

/-- one cell less than the number of lines is not enough in general: the bound is tight -/
theorem table_length_le (content : List Byte) : (table content).length ≤ (lines content).length :=
  List.length_filterMap_le _ _

/-! ### cpuiddump_find_by_input -/

theorem findFrom_eq : ∀ (fuel i : Nat) (t : List Entry) (q : Regs), t.length ≤ i + fuel →
    findFrom t q fuel i = (((t.drop i).find? (fun e => e.matches q)).map Entry.out).getD zeroRegs
  | 0, i, t, q, h => by
    rw [findFrom, List.drop_eq_nil_of_le (by omega)]; rfl
  | fuel+1, i, t, q, h => by
    rw [findFrom]
    by_cases hi : i < t.length
    · rw [List.getElem?_eq_getElem hi, List.drop_eq_getElem_cons hi, List.find?_cons]
      by_cases hm : t[i].matches q = true
      · simp [hm]
      · simp only [hm]
        exact findFrom_eq fuel (i + 1) t q (by omega)
    · rw [List.getElem?_eq_none (by omega), List.drop_eq_nil_of_le (by omega)]; rfl

theorem findByInput_eq (t : List Entry) (q : Regs) :
    findByInput t q = ((t.find? (fun e => e.matches q)).map Entry.out).getD zeroRegs := by
  have := findFrom_eq t.length 0 t q (by omega)
  simpa [findByInput] using this

/-- the first matching entry in table order, or zeros exactly when nothing matches -/
theorem find_first (t : List Entry) (q : Regs) :
    (∃ pre e post, t = pre ++ e :: post ∧ (∀ x ∈ pre, x.matches q = false) ∧ e.matches q = true ∧
        findByInput t q = e.out) ∨
    ((∀ x ∈ t, x.matches q = false) ∧ findByInput t q = zeroRegs) := by
  rw [findByInput_eq]
  cases hf : t.find? (fun e => e.matches q) with
  | none =>
    right
    refine ⟨fun x hx => ?_, rfl⟩
    have := List.find?_eq_none.mp hf x hx
    simpa using this
  | some e =>
    left
    obtain ⟨hm, pre, post, ht, hpre⟩ := List.find?_eq_some_iff_append.mp hf
    refine ⟨pre, e, post, ht, fun x hx => ?_, by simpa using hm, rfl⟩
    have := hpre x hx
    simpa using this

theorem find_mem_or_zero (t : List Entry) (q : Regs) :
    (∃ e ∈ t, e.matches q = true ∧ findByInput t q = e.out) ∨
    ((∀ x ∈ t, x.matches q = false) ∧ findByInput t q = zeroRegs) := by
  rcases find_first t q with ⟨pre, e, post, ht, _, hm, hr⟩ | h
  · left; exact ⟨e, by rw [ht]; simp, hm, hr⟩
  · right; exact h

/-- order independence under the exact condition: when all entries matching `q` give the same answer
(`Unamb`), any reordering of the table (in particular any rotating start index) answers `q` alike -/
theorem find_perm (t t' : List Entry) (q : Regs) (hp : t.Perm t') (hu : Unamb t q) :
    findByInput t q = findByInput t' q := by
  rcases find_mem_or_zero t q with ⟨e, he, hm, hr⟩ | ⟨hnone, hr⟩
  · rcases find_mem_or_zero t' q with ⟨e', he', hm', hr'⟩ | ⟨hnone', _⟩
    · rw [hr, hr']; exact hu e he e' (hp.mem_iff.mpr he') hm hm'
    · have := hnone' e (hp.mem_iff.mp he); rw [hm] at this; cases this
  · rcases find_mem_or_zero t' q with ⟨e', he', hm', _⟩ | ⟨_, hr'⟩
    · have := hnone e' (hp.mem_iff.mpr he'); rw [hm'] at this; cases this
    · rw [hr, hr']

theorem find_rotation (t : List Entry) (k : Nat) (q : Regs) (hu : Unamb t q) :
    findByInput (t.drop k ++ t.take k) q = findByInput t q := by
  have hp : t.Perm (t.drop k ++ t.take k) := by
    have h1 : (t.take k ++ t.drop k).Perm (t.drop k ++ t.take k) := List.perm_append_comm
    rwa [List.take_append_drop] at h1
  exact (find_perm t _ q hp hu).symm

/-- and the condition is necessary: two matching entries with different answers are told apart by the order -/
theorem find_order_matters (e1 e2 : Entry) (q : Regs) (h1 : e1.matches q = true) (h2 : e2.matches q = true)
    (hne : e1.out ≠ e2.out) : findByInput [e1, e2] q ≠ findByInput [e2, e1] q := by
  simp [findByInput_eq, h1, h2, hne]

/-! ### the directory check -/

theorem maxL_ge : ∀ (l : List Nat), ∀ i ∈ l, i ≤ maxL l
  | [], _, h => by simp at h
  | x :: xs, i, h => by
    rw [List.mem_cons] at h
    rw [maxL]
    rcases h with h | h
    · rw [h]; exact Nat.le_max_left _ _
    · exact Nat.le_trans (maxL_ge xs i h) (Nat.le_max_right _ _)

theorem maxL_mem : ∀ (l : List Nat), l ≠ [] → maxL l ∈ l
  | [], h => by simp at h
  | [x], _ => by simp [maxL]
  | x :: y :: ys, _ => by
    rw [maxL]
    have ih := maxL_mem (y :: ys) (by simp)
    by_cases hle : x ≤ maxL (y :: ys)
    · rw [Nat.max_eq_right hle]; exact List.mem_cons_of_mem _ ih
    · rw [Nat.max_eq_left (by omega)]; exact List.mem_cons_self

/-- `last == weight - 1` says that every index up to the last one is present -/
theorem weight_full_iff (l : List Nat) : maxL l + 1 = weight l ↔ ∀ i, i ≤ maxL l → i ∈ l := by
  unfold weight
  constructor
  · intro h i hi
    have h2 : List.countP (fun i => l.contains i) (List.range (maxL l + 1)) = (List.range (maxL l + 1)).length := by
      rw [List.length_range]; exact h.symm
    have := List.countP_eq_length.mp h2 i (List.mem_range.mpr (by omega))
    simpa using this
  · intro h
    have h2 : List.countP (fun i => l.contains i) (List.range (maxL l + 1)) = (List.range (maxL l + 1)).length := by
      apply List.countP_eq_length.mpr
      intro i hi
      have := h i (by have := List.mem_range.mp hi; omega)
      simpa using this
    rw [h2, List.length_range]

/-- the pu rule: accepted iff the indexes found are exactly 0 … n-1 for some n ≥ 1 (then weight = n) -/
theorem contiguous_iff (l : List Nat) :
    (l ≠ [] ∧ maxL l + 1 = weight l) ↔ ∃ n, 0 < n ∧ (∀ i, i ∈ l ↔ i < n) := by
  constructor
  · rintro ⟨hne, hw⟩
    refine ⟨maxL l + 1, by omega, fun i => ⟨fun hi => ?_, fun hi => ?_⟩⟩
    · have := maxL_ge l i hi; omega
    · exact (weight_full_iff l).mp hw i (by omega)
  · rintro ⟨n, hn, hmem⟩
    have h0 : 0 ∈ l := (hmem 0).mpr hn
    have hne : l ≠ [] := fun h => by rw [h] at h0; simp at h0
    refine ⟨hne, (weight_full_iff l).mpr (fun i hi => ?_)⟩
    have := (hmem (maxL l)).mp (maxL_mem l hne)
    exact (hmem i).mpr (by omega)

theorem contiguous_weight (l : List Nat) (n : Nat) (hn : 0 < n) (hmem : ∀ i, i ∈ l ↔ i < n) : weight l = n := by
  have h0 : 0 ∈ l := (hmem 0).mpr hn
  have hne : l ≠ [] := fun h => by rw [h] at h0; simp at h0
  have hw := ((contiguous_iff l).mpr ⟨n, hn, hmem⟩).2
  have h1 := (hmem (maxL l)).mp (maxL_mem l hne)
  have h2 := maxL_ge l (n - 1) ((hmem (n - 1)).mpr (by omega))
  omega

/-! the summary file -/

theorem fgetsAux_prefix : ∀ (a : List Byte) (k : Nat) (r : List Byte), (∀ c ∈ a, c ≠ 10) → a.length ≤ k →
    (fgetsAux k (a ++ r)).1 = a ++ (fgetsAux (k - a.length) r).1
  | [], k, r, _, _ => by simp
  | c :: a, 0, r, _, h => by simp at h
  | c :: a, k+1, r, hnl, h => by
    have hc : c ≠ 10 := hnl c List.mem_cons_self
    simp only [List.length_cons] at h
    rw [List.cons_append, fgetsAux, if_neg hc]
    simp only [List.length_cons, Nat.add_sub_add_right]
    rw [fgetsAux_prefix a k r (fun x hx => hnl x (List.mem_cons_of_mem _ hx)) (by omega)]
    rfl

theorem archPat_eq : archPat = [65, 114, 99, 104, 105, 116, 101, 99, 116, 117, 114, 101, 58, 32, 120, 56, 54] := by decide

theorem archPat_length : archPat.length = 17 := by rw [archPat_eq]; rfl

theorem isPrefix_take {α : Type} {a b : List α} (h : a <+: b) (n : Nat) : a.take n <+: b.take n := by
  obtain ⟨t, rfl⟩ := h
  rw [List.take_append]
  exact List.prefix_append _ _

/-- the whole summary test is a test of the first 17 bytes of the file -/
theorem summaryOk_some (c : List Byte) : summaryOk (some c) =
    (if c = [] then false else (cstr (fgets sumLineLen c).1).take 17 == archPat) := rfl

theorem summaryOk_iff (c : List Byte) : summaryOk (some c) = true ↔ c.take 17 = archPat := by
  rw [summaryOk_some]
  constructor
  · intro h
    by_cases hc : c = []
    · simp [hc] at h
    · rw [if_neg hc] at h
      have h1 : (cstr (fgets sumLineLen c).1).take 17 = archPat := by simpa using h
      have hp1 : cstr (fgets sumLineLen c).1 <+: (fgets sumLineLen c).1 := List.takeWhile_prefix _
      have hp2 : (fgets sumLineLen c).1 <+: c := ⟨(fgets sumLineLen c).2, fgetsAux_append _ c⟩
      have hp := isPrefix_take (hp1.trans hp2) 17
      rw [h1] at hp
      have hlen : (c.take 17).length ≤ 17 := by simp [List.length_take]; omega
      exact (List.IsPrefix.eq_of_length_le hp (by rw [archPat_length]; exact hlen)).symm
  · intro h
    have hc : c ≠ [] := by
      intro hc; rw [hc] at h; rw [archPat_eq] at h; simp at h
    rw [if_neg hc]
    have hsplit : c = archPat ++ c.drop 17 := by
      conv => lhs; rw [← List.take_append_drop 17 c, h]
    have hnl : ∀ x ∈ archPat, x ≠ 10 := by rw [archPat_eq]; decide
    have hnz : ∀ x ∈ archPat, x ≠ 0 := by rw [archPat_eq]; decide
    have hf : (fgets sumLineLen c).1 = archPat ++ (fgetsAux (31 - 17) (c.drop 17)).1 := by
      have := fgetsAux_prefix archPat 31 (c.drop 17) hnl (by rw [archPat_length]; omega)
      rw [archPat_length] at this
      unfold fgets sumLineLen
      conv => lhs; rw [hsplit]
      exact this
    rw [hf, Hw.LinuxNum.cstr_append_nonzero archPat _ hnz, List.take_append]
    simp [archPat_length]
    rw [archPat_eq]; rfl

theorem checkDir_eq (dirOk : Bool) (summary : Option (List Byte)) (names : List (List Byte)) :
    checkDir dirOk summary names =
      if !dirOk then ⟨false, []⟩
      else if !summaryOk summary then ⟨false, []⟩
      else if names.filterMap puIndex = [] then ⟨false, names.filterMap puIndex⟩
      else if maxL (names.filterMap puIndex) + 1 ≠ weight (names.filterMap puIndex) then ⟨false, names.filterMap puIndex⟩
      else ⟨true, names.filterMap puIndex⟩ := rfl

theorem checkDir_ok_iff (dirOk : Bool) (summary : Option (List Byte)) (names : List (List Byte)) :
    (checkDir dirOk summary names).ok = true ↔
      dirOk = true ∧ summaryOk summary = true ∧
      ∃ n, 0 < n ∧ ∀ i, i ∈ names.filterMap puIndex ↔ i < n := by
  rw [← contiguous_iff, checkDir_eq]
  generalize names.filterMap puIndex = l
  cases dirOk
  · simp
  · cases hs : summaryOk summary
    · simp
    · by_cases h1 : l = []
      · simp [h1]
      · by_cases h2 : maxL l + 1 = weight l <;> simp [h1, h2]

theorem checkDir_idxs_ok (dirOk : Bool) (summary : Option (List Byte)) (names : List (List Byte))
    (h : (checkDir dirOk summary names).ok = true) : (checkDir dirOk summary names).idxs = names.filterMap puIndex := by
  rw [checkDir_eq] at h ⊢
  generalize names.filterMap puIndex = l at h ⊢
  cases dirOk
  · simp at h
  · cases hs : summaryOk summary
    · simp [hs] at h
    · by_cases h1 : l = []
      · simp [h1] at h ⊢
      · by_cases h2 : maxL l + 1 = weight l <;> simp [h1, h2]

/-- readdir order does not matter for the verdict -/
theorem checkDir_perm (dirOk : Bool) (summary : Option (List Byte)) (names names' : List (List Byte))
    (hp : names.Perm names') : (checkDir dirOk summary names).ok = (checkDir dirOk summary names').ok := by
  rw [Bool.eq_iff_iff, checkDir_ok_iff, checkDir_ok_iff]
  have hm : ∀ i, i ∈ names.filterMap puIndex ↔ i ∈ names'.filterMap puIndex :=
    fun i => (hp.filterMap puIndex).mem_iff
  constructor
  · rintro ⟨a, b, n, hn, h⟩; exact ⟨a, b, n, hn, fun i => (hm i).symm.trans (h i)⟩
  · rintro ⟨a, b, n, hn, h⟩; exact ⟨a, b, n, hn, fun i => (hm i).trans (h i)⟩

end Hw.X86Dump
