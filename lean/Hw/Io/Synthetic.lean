/-
  Hw.Io.Synthetic — model of hwloc/topology-synthetic.c (property C07).

  * `typeSscanf`      hwloc_type_sscanf (traversal.c) — the whole match chain, in source order
  * `parseAttrs`      hwloc_synthetic_parse_attrs + hwloc_synthetic_parse_memory_attr
  * `processIndexes`  hwloc_synthetic_process_indexes (explicit lists, `x*y:` loops, `type:` loops)
  * `parse`           hwloc_backend_synthetic_init.  `data->level[128]` is modelled as the list of the
                      initialised slots `level[0..count-1]` plus a LOG OF EVERY INDEX `i` USED IN A
                      `data->level[i]` EXPRESSION (returned with the result AND with every error);
                      every write to the malloc'ed `loops[]` array is guarded by a capacity test whose
                      failure is the error `loopsOverflow`.
  (`buildTopo` and `exportChunks` are in Hw.Io.SyntheticTopo.)
-/
import Hw.Base.Num
import Hw.Topo.Types
namespace Hw.Syn
open Hw Hw.Topo

abbrev Bytes := List Byte

def maxDepth : Nat := 128          -- HWLOC_SYNTHETIC_MAX_DEPTH
def u32 : Nat := 4294967296
def u64 : Nat := 18446744073709551616
def tNONE : Nat := 4294967295      -- HWLOC_OBJ_TYPE_NONE = (hwloc_obj_type_t) -1
def tL2 : Nat := 6
def tL3 : Nat := 7
/-- largest `calloc` the harness lets succeed (ASAN_OPTIONS max_allocation_size_mb=64) -/
def allocLimit : Nat := 64 * 1024 * 1024

def isDig (c : Byte) : Bool := 48 ≤ c && c ≤ 57
def isAlpha (c : Byte) : Bool := (97 ≤ c && c ≤ 122) || (65 ≤ c && c ≤ 90)
def lower (c : Byte) : Byte := if 65 ≤ c && c ≤ 90 then c + 32 else c
def isCacheT (t : Nat) : Bool := tL1 ≤ t && t ≤ tL3I

/-! ### libc string helpers -/

/-- `strchr(s, c)` as the suffix starting at the first occurrence -/
def strchr (c : Byte) : Bytes → Option Bytes
  | [] => none
  | x :: xs => if x = c then some (x :: xs) else strchr c xs

/-- `strcspn(s, " )")` -/
def cspnSpClose : Bytes → Nat
  | [] => 0
  | x :: xs => if x = 32 ∨ x = 41 then 0 else cspnSpClose xs + 1

/-- `strspn(s, "0123456789,")` -/
def spnDigComma : Bytes → Nat
  | [] => 0
  | x :: xs => if isDig x ∨ x = 44 then spnDigComma xs + 1 else 0

/-- `!strncmp(p, s, |p|)` -/
def hasPrefix (p s : Bytes) : Bool := p.isPrefixOf s
/-- `!strncasecmp(s, p, |p|)` for a lower-case `p` -/
def hasPrefixCI (p s : Bytes) : Bool := (s.take p.length).map lower == p

/-! ### strtoul / strtol with the sign handling of glibc -/

/-- digits after optional `0x`/`0` prefix, no white space, no sign: (exact value, rest) -/
def strtoCore (base : Nat) (s1 : Bytes) : Option (Nat × Bytes) :=
  let (b, s2) : Nat × Bytes :=
    match s1 with
    | 48 :: x :: d :: r =>
      if (x == 120 || x == 88) && isDigitIn 16 d && (base == 16 || base == 0) then (16, d :: r)
      else if base == 0 then (8, s1) else (base, s1)
    | 48 :: _ => if base == 0 then (8, s1) else (base, s1)
    | _ => if base == 0 then (10, s1) else (base, s1)
  let (v, n, rest) := takeDigits b s2 0 0
  if n = 0 then none else some (v, rest)

/-- `strtoul` / `strtoull` (64-bit): value and `*endptr`.  Unsigned inputs go through `Hw.strtoul`. -/
def strtoulS (base : Nat) (s : Bytes) : Nat × Bytes :=
  match Hw.strtoul base s with
  | .ok v rest => (v, rest)
  | .unsupported =>
    match s.dropWhile isSpace with
    | sg :: r =>
      match strtoCore base r with
      | none => (0, s)
      | some (v, rest) =>
        if v > ulongMax then (ulongMax, rest)
        else if sg = 45 then ((u64 - v) % u64, rest) else (v, rest)
    | [] => (0, s)

/-- `(unsigned) strtol(s, &end, base)` -/
def strtolU32 (base : Nat) (s : Bytes) : Nat × Bytes :=
  let s1 := s.dropWhile isSpace
  let (neg, s2) : Bool × Bytes :=
    match s1 with
    | 45 :: r => (true, r)
    | 43 :: r => (false, r)
    | _ => (false, s1)
  match strtoCore base s2 with
  | none => (0, s)
  | some (v, rest) =>
    if neg then ((if v ≥ 2^63 then 0 else (u64 - v) % u32), rest)
    else ((min v (2^63 - 1)) % u32, rest)

/-! ### hwloc_type_sscanf -/

/-- `hwloc__type_match(string, type, minmatch)`: the end pointer or `none` -/
def typeMatch : Bytes → Bytes → Nat → Nat → Option Bytes
  | [], _, mm, i => if i < mm then none else some []
  | c :: cs, t, mm, i =>
    let stop : Option Bytes := if isAlpha c || c == 45 then none else if i < mm then none else some (c :: cs)
    match t with
    | tc :: ts => if c = tc ∨ c + 32 = tc then typeMatch cs ts mm (i + 1) else stop
    | [] => stop

def tm (s : Bytes) (name : String) (mm : Nat) : Bool := (typeMatch s (str name) mm 0).isSome

structure TypeRes where
  type : Nat
  depth : Nat := 4294967295      -- depthattr, `(unsigned) -1` when absent
  ctype : Int := -1              -- cachetypeattr
deriving Repr, DecidableEq

/-- `(unsigned) strtol(s, &end, 10)` where `s` starts with a digit -/
def depthAttr (s : Bytes) : Nat × Bytes :=
  let (v, _, rest) := takeDigits 10 s 0 0
  ((min v (2^63 - 1)) % u32, rest)

def typeSscanf (s : Bytes) : Option TypeRes :=
  if hasPrefixCI (str "osdev[") s then some { type := tOSDEV }
  else if hasPrefixCI (str "os[") s then some { type := tOSDEV }
  else if tm s "osdev" 2 then some { type := tOSDEV }
  else if tm s "storage" 4 || tm s "block" 4 || tm s "memory" 3 || tm s "network" 3 || tm s "ofed" 4
       || tm s "openfabrics" 7 || tm s "dma" 3 || tm s "gpu" 3 || tm s "coproc" 5 || tm s "co-processor" 6 then
    some { type := tOSDEV }
  else if tm s "machine" 2 then some { type := tMACHINE }
  else if tm s "numanode" 2 || tm s "node" 2 then some { type := tNUMA }
  else if tm s "memcache" 5 || tm s "memory-side cache" 8 then some { type := tMEMCACHE }
  else if tm s "package" 2 || tm s "socket" 2 then some { type := tPACKAGE }
  else if tm s "die" 2 then some { type := tDIE }
  else if tm s "core" 2 then some { type := tCORE }
  else if tm s "pu" 2 then some { type := tPU }
  else if tm s "misc" 4 then some { type := tMISC }
  else if tm s "bridge" 4 then some { type := tBRIDGE }
  else if tm s "hostbridge" 6 then some { type := tBRIDGE }
  else if tm s "pcibridge" 5 then some { type := tBRIDGE }
  else if tm s "pcidev" 3 then some { type := tPCI }
  else
    match s with
    | l :: d :: _ =>
      if (l == 108 || l == 76) && isDig d then
        let (depth, e) := depthAttr (s.drop 1)
        let ec := e.head?.getD 0
        if ec == 105 || ec == 73 then
          if 1 ≤ depth ∧ depth ≤ 3 then
            if (typeMatch (e.drop 1) (str "cache") 0 0).isSome then some { type := tL1I + depth - 1, depth := depth, ctype := 2 }
            else none
          else none
        else if 1 ≤ depth ∧ depth ≤ 5 then
          let (ct, suffix) : Int × Bytes :=
            if ec == 100 || ec == 68 then (1, e.drop 1)
            else if ec == 117 || ec == 85 then (0, e.drop 1)
            else (0, e)
          if (typeMatch suffix (str "cache") 0 0).isSome then some { type := tL1 + depth - 1, depth := depth, ctype := ct }
          else none
        else none
      else groupCase s
    | _ => groupCase s
where
  groupCase (s : Bytes) : Option TypeRes :=
    match typeMatch s (str "group") 2 0 with
    | some e =>
      if isDig (e.head?.getD 0) then some { type := tGROUP, depth := (depthAttr e).1 }
      else some { type := tGROUP }
    | none => none

/-! ### level data -/

structure Attr where
  type : Nat := tNONE
  depth : Nat := 4294967295
  ctype : Int := -1
  mem : Nat := 0            -- memorysize
  msc : Nat := 0            -- memorysidecachesize
deriving Repr, DecidableEq, Inhabited

/-- `struct hwloc_synthetic_indexes_s`: the `indexes=` text (pointer into the description = the suffix
starting there, and its length) and the array computed from it -/
structure Idx where
  str : Option (Bytes × Nat) := none
  arr : Option (List Nat) := none
deriving Repr, DecidableEq, Inhabited

structure Level where
  arity : Nat := 0
  width : Nat := 1          -- totalwidth
  attr : Attr := {}
  idx : Idx := {}
  attached : List Attr := []
deriving Repr, DecidableEq, Inhabited

inductive Err
  | einval           -- return -1, errno = EINVAL
  | abort            -- a failed assert() (process_indexes: `assert(nb)`, `assert(step)`, `assert(nbs)`)
  | divzero          -- integer division by zero (SIGFPE) in process_indexes
  | loopsOverflow    -- write past the `loops` array of process_indexes (proved unreachable: `loops_write_safe`)
deriving Repr, DecidableEq

/-- the log of every index `i` used in a `data->level[i]` expression -/
abbrev Log := List Nat

/-! ### attributes -/

def memSuffixes : List (String × Nat × Nat) := [   -- (suffix, multiplier, length)
  ("tb", 1000000000000, 2), ("tib", 1099511627776, 3), ("gb", 1000000000, 2), ("gib", 1073741824, 3),
  ("mb", 1000000, 2), ("mib", 1048576, 3), ("kb", 1000, 2), ("kib", 1024, 3)]

/-- hwloc_synthetic_parse_memory_attr -/
def parseMemoryAttr (s : Bytes) : Nat × Bytes :=
  let (size, e) := strtoulS 0 s
  match memSuffixes.find? (fun x => hasPrefixCI (str x.1) e) with
  | some (_, mul, len) => ((size * mul) % u64, e.drop len)
  | none => (size, e)

structure AttrsAcc where
  mem : Nat := 0
  msc : Option Nat := none
  idx : Option (Bytes × Nat) := none

/-- the `while (')' != *attrs)` loop of hwloc_synthetic_parse_attrs -/
def attrsLoop (iscache : Bool) : Nat → Bytes → AttrsAcc → Except Err AttrsAcc
  | 0, _, _ => .error .einval
  | fuel + 1, s, acc =>
    match s with
    | 41 :: _ => .ok acc
    | _ =>
      let (s', acc') : Bytes × AttrsAcc :=
        if iscache && hasPrefix (str "size=") s then
          let (v, r) := parseMemoryAttr (s.drop 5); (r, { acc with mem := v })
        else if !iscache && hasPrefix (str "memory=") s then
          let (v, r) := parseMemoryAttr (s.drop 7); (r, { acc with mem := v })
        else if hasPrefix (str "memorysidecachesize=") s then
          let (v, r) := parseMemoryAttr (s.drop 20); (r, { acc with msc := some v })
        else if hasPrefix (str "indexes=") s then
          let r := s.drop 8
          let n := cspnSpClose r
          (r.drop n, { acc with idx := some (r, n) })
        else (s.drop (cspnSpClose s), acc)
      match s' with
      | 32 :: r => attrsLoop iscache fuel r acc'
      | 41 :: _ => .ok acc'
      | _ => .error .einval

/-- hwloc_synthetic_parse_attrs(attrs, &next, sattr, sind): (next_pos, sattr', sind') -/
def parseAttrs (s : Bytes) (a : Attr) (ix : Idx) : Except Err (Bytes × Attr × Idx) :=
  match strchr 41 s with
  | none => .error .einval
  | some close =>
    match attrsLoop (isCacheT a.type) (s.length + 1) s {} with
    | .error e => .error e
    | .ok acc =>
      let a' := { a with mem := acc.mem, msc := acc.msc.getD a.msc }
      let ix' := match acc.idx with
        | some p => { ix with str := some p }
        | none => ix
      .ok (close.drop 1, a', ix')

/-! ### hwloc_synthetic_process_indexes -/

structure ILoop where
  step : Nat
  nb : Nat
deriving Repr, DecidableEq

/-- hwloc_synthetic_indexes_have_duplicates: sort a copy (libc qsort) and compare neighbours -/
def haveDuplicates (a : List Nat) : Bool := !decide a.Nodup

/-- explicit list: `for(i=0; i<total; i++)` -/
def explicitLoop : Nat → Nat → Bytes → List Nat → Option (List Nat)
  | 0, _, _, acc => some acc.reverse
  | rem + 1, total, s, acc =>
    let (v, next) := strtoulS 10 s
    if next = s then none
    else if rem ≠ 0 then
      match next with
      | 44 :: r => explicitLoop rem total r ((v % u32) :: acc)
      | _ => none
    else some (((v % u32) :: acc).reverse)

/-- number of ':' in the first `len` bytes -/
def countColons (s : Bytes) (len : Nat) : Nat := ((s.take len).filter (· == 58)).length

inductive XY
  | ok (loops : List ILoop)
  | fail
  | err (e : Err)
deriving Repr, DecidableEq

/-- the `x*y:z*t` parser.  `cap` = number of slots of the malloc'ed `loops` array, `m` = `attr+length - tmp`
(bytes of the `indexes=` text not yet consumed), `nbs` = the running product of the counts -/
def xyLoop (cap total : Nat) : Nat → Bytes → Nat → Nat → List ILoop → XY
  | 0, _, _, _, _ => .fail
  | fuel + 1, s, m, nbs, acc =>
    let (step, t2) := strtolU32 0 s
    if t2 = s then .fail else
    match t2 with
    | 42 :: t2' =>
      if step = 0 then .fail else
      let (nb, t3) := strtolU32 0 t2'
      if t3 = t2' then .fail else
      let c3 := t3.head?
      if c3.isSome && c3 != some 58 && c3 != some 41 && c3 != some 32 then .fail
      else if nb = 0 then .fail
      else if nb > total / nbs then .fail                      -- more iterations than objects (nbs *= nb must not wrap)
      else if acc.length ≥ cap then .err .loopsOverflow        -- loops[cur_loop].step = ...
      else
        let acc := acc ++ [⟨step, nb⟩]
        if c3 = some 41 ∨ c3 = some 32 then .ok acc
        else
          -- tmp = tmp3+1;  if (tmp >= attr+length) fail   (trailing ':')
          let consumed := s.length - t3.length + 1
          if consumed ≥ m then .fail
          else xyLoop cap total fuel (t3.drop 1) (m - consumed) ((nbs * nb) % u64) acc
    | _ => .fail

def lvAt (L : List Level) (i : Nat) : Level := L[i]?.getD {}

/-- the scan `for(i=0; ; i++)` over `data->level[i]` looking for a type; returns (result, indexes read) -/
def scanLevels (levels : List Level) (t : TypeRes) : Nat → Nat → Log → Option Nat × Log
  | 0, _, log => (none, log)
  | fuel + 1, i, log =>
    let log := i :: log
    let l := lvAt levels i
    if l.arity = 0 then (none, log)
    else if l.attr.type = t.type ∧ ¬ (t.type = tGROUP ∧ t.depth ≠ 4294967295 ∧ t.depth ≠ l.attr.depth) then (some i, log)
    else scanLevels levels t fuel (i + 1) log

inductive TY
  | ok (depths : List Nat)
  | fail
  | err (e : Err)
deriving Repr, DecidableEq

/-- the `type1:type2:...` parser; `off` = `tmp - attr` -/
def tyLoop (levels : List Level) (cap len : Nat) : Nat → Bytes → Nat → List Nat → Log → TY × Log
  | 0, _, _, _, log => (.fail, log)
  | fuel + 1, s, off, acc, log =>
    match typeSscanf s with
    | none => (.fail, log)
    | some t =>
      if t.type = tMISC ∨ t.type = tBRIDGE ∨ t.type = tPCI ∨ t.type = tOSDEV then (.fail, log) else
      let (r, log) := scanLevels levels t (maxDepth + 1) 0 log
      if acc.length ≥ cap then (.err .loopsOverflow, log) else     -- loops[cur_loop].level_depth = ...
      match r with
      | none => (.fail, log)
      | some d =>
        let acc := acc ++ [d]
        match strchr 58 s with
        | none => (.ok acc, log)
        | some c =>
          -- if (tmp > attr+length) break;
          let o := off + (s.length - c.length)
          if o > len then (.ok acc, log) else tyLoop levels cap len fuel (c.drop 1) (o + 1) acc log

inductive TYC
  | ok (loops : List ILoop) (minstep nbs : Nat)
  | fail
  | err (e : Err)
deriving Repr, DecidableEq

/-- "compute actual loop step/nb": `rest` = the loops still to do, `k` = cur_loop -/
def tyCompute (levels : List Level) (total : Nat) (depths : List Nat) :
    List Nat → Nat → List ILoop → Nat → Nat → Log → TYC × Log
  | [], _, loops, minstep, nbs, log => (.ok loops minstep nbs, log)
  | my :: rest, k, loops, minstep, nbs, log =>
    if (List.range depths.length).any (fun i => depths[i]?.getD 0 == my && i != k) then (.fail, log) else
    let prev := depths.foldl (fun p d => if d < my ∧ d > p then d else p) 0
    let wmy := (lvAt levels my).width
    let wprev := (lvAt levels prev).width
    let log := prev :: my :: my :: my :: log
    if wmy > total then (.fail, log)                   -- a level below the indexed one
    else if wmy = 0 ∨ wprev = 0 then (.err .divzero, log)
    else
      let step := (total / wmy) % u32
      let nb := (wmy / wprev) % u32
      if nb = 0 ∨ step = 0 then (.err .abort, log)
      else tyCompute levels total depths rest (k + 1) (loops ++ [⟨step, nb⟩]) (min minstep step) ((nbs * nb) % u64) log

def genArray (total : Nat) (loops : List ILoop) : List Nat :=
  (List.range total).map (fun j =>
    (loops.foldl (fun (p : Nat × Nat) l => ((p.1 + ((j / l.step) % l.nb) * p.2) % u32, (p.2 * l.nb) % u32)) (0, 1)).1)

/-- the acceptance test of a generated array: every value below `total`, no second 0, no duplicate -/
def arrayOk (total : Nat) (a : List Nat) : Bool :=
  (List.range total).all (fun j => let v := a[j]?.getD 0; decide (v < total) && !(v == 0 && j != 0)) && !haveDuplicates a

/-- from the loops to the array: the missing innermost loop, generation, checks -/
def finishLoops (total : Nat) (loops : List ILoop) (minstep nbs : Nat) : Except Err (Option (List Nat)) :=
  if nbs = 0 then .error .abort else
  let loops? : Option (List ILoop) :=
    if nbs ≠ total then
      if minstep = total / nbs then some (loops ++ [⟨1, (total / nbs) % u32⟩]) else none
    else some loops
  match loops? with
  | none => .ok none
  | some loops =>
    let a := genArray total loops
    if arrayOk total a then .ok (some a) else .ok none

inductive PI
  | arr (a : Option (List Nat))     -- `indexes->array` afterwards (none = NULL)
  | err (e : Err)
deriving Repr, DecidableEq

def piOf (r : Except Err (Option (List Nat))) : PI :=
  match r with
  | .ok a => .arr a
  | .error e => .err e

/-- hwloc_synthetic_process_indexes(data, indexes, total): the array and the `level[]` indexes used -/
def processIndexes (levels : List Level) (ix : Idx) (total : Nat) : PI × Log :=
  match ix.str with
  | none => (.arr ix.arr, [])
  | some (s, len) =>
    -- total > UINT_MAX: indexes ignored;  or calloc fails
    if total > u32 - 1 ∨ total * 4 > allocLimit then (.arr none, [])
    else if spnDigComma s = len then
      match explicitLoop total total s [] with
      | some a => (.arr (if haveDuplicates a then none else some a), [])
      | none => (.arr none, [])
    else
      let nr := 1 + countColons s len
      if isDig (s.head?.getD 0) then
        match xyLoop (nr + 1) total (s.length + 1) s len 1 [] with
        | .fail => (.arr none, [])
        | .err e => (.err e, [])
        | .ok loops =>
          -- minstep / nbs accumulate over every parsed pair, the generation uses loops[0..nr_loops-1]
          let minstep := loops.foldl (fun m l => min m l.step) (total % u32)
          let nbs := loops.foldl (fun p l => (p * l.nb) % u64) 1
          (piOf (finishLoops total (loops.take nr) minstep nbs), [])
      else
        match tyLoop levels (nr + 1) len (s.length + 1) s 0 [] [] with
        | (.fail, log) => (.arr none, log)
        | (.err e, log) => (.err e, log)
        | (.ok depths0, log) =>
          let depths := depths0.take nr
          match tyCompute levels total depths depths 0 [] (total % u32) 1 log with
          | (.fail, log) => (.arr none, log)
          | (.err e, log) => (.err e, log)
          | (.ok loops minstep nbs, log) => (piOf (finishLoops total loops minstep nbs), log)

/-! ### hwloc_backend_synthetic_init -/

structure Loop where
  levels : List Level
  numaNr : Nat := 0
  numaIdx : Idx := {}
  total : Nat := 1          -- totalarity
  log : Log := []
deriving Repr

/-- results carry the access log, errors too -/
abbrev R (α : Type) := Except (Err × Log) α

def updLevel (l : List Level) (i : Nat) (f : Level → Level) : List Level :=
  match l[i]? with
  | some x => l.set i (f x)
  | none => l

def disallowedLevelType (t : Nat) : Bool :=
  t == tMACHINE || t == tMEMCACHE || t == tMISC || t == tBRIDGE || t == tPCI || t == tOSDEV

/-- `[attached]` item; `p` = the text after '[' -/
def attachedStep (p : Bytes) (st : Loop) : R (Loop × Bytes) :=
  let count := st.levels.length
  match typeSscanf p with
  | none => .error (.einval, st.log)
  | some t =>
    if t.type ≠ tNUMA then .error (.einval, st.log) else
    let w := (lvAt st.levels (count - 1)).width
    let log := (count - 1) :: (count - 1) :: st.log        -- level[count-1].totalwidth, .attached
    match strchr 93 p with
    | none => .error (.einval, log)
    | some close =>
      let a0 : Attr := { type := tNUMA, mem := 0, msc := 0 }
      let res : Except Err (Attr × Idx) :=
        match strchr 40 p with
        | some op =>
          if op.length > close.length then
            match parseAttrs (op.drop 1) a0 st.numaIdx with
            | .ok (_, a, ix) => .ok (a, ix)
            | .error e => .error e
          else .ok (a0, st.numaIdx)
        | none => .ok (a0, st.numaIdx)
      match res with
      | .error e => .error (e, log)
      | .ok (a, ix) =>
        let lv2 := updLevel st.levels (count - 1) (fun l => { l with attached := l.attached ++ [a] })
        let st2 : Loop := { st with numaIdx := ix, numaNr := (st.numaNr + w) % u64, levels := lv2, log := log }
        .ok (st2, close.drop 1)

/-- a normal level; `c` = the first byte of `pos` -/
def levelStep (c : Byte) (pos : Bytes) (st : Loop) : R (Loop × Bytes) :=
  let count := st.levels.length
  -- data->level[count] is written (several fields) and data->level[count-1].arity at the end
  let log := (count - 1) :: count :: st.log
  let tr : Except Err (TypeRes × Bytes) :=
    if !isDig c then
      let t? : Option TypeRes :=
        match typeSscanf pos with
        | some t => some t
        | none => if hasPrefix (str "Tile") pos || hasPrefix (str "Module") pos then some { type := tGROUP } else none
      match t? with
      | none => .error .einval
      | some t =>
        if disallowedLevelType t.type then .error .einval else
        match strchr 58 pos with
        | none => .error .einval
        | some r => .ok (t, r.drop 1)
    else .ok ({ type := tNONE }, pos)
  match tr with
  | .error e => .error (e, log)
  | .ok (t, pos) =>
    let attr : Attr :=
      if isCacheT t.type then { type := t.type, depth := t.depth, ctype := t.ctype }
      else if t.type = tGROUP then { type := t.type, depth := t.depth }
      else { type := t.type }
    let (item, next) := strtoulS 0 pos
    if next = pos then .error (.einval, log)
    else if item = 0 then .error (.einval, log)
    else if item > ulongMax / st.total then .error (.einval, log)      -- the total number of objects would wrap
    else
      let total := (st.total * item) % u64
      let res : Except Err (Bytes × Attr × Idx) :=
        match next with
        | 40 :: r => parseAttrs r attr {}
        | _ => .ok (next, attr, {})
      match res with
      | .error e => .error (e, log)
      | .ok (next, attr, ix) =>
        if count + 1 ≥ maxDepth then .error (.einval, log)
        else if item > u32 - 1 then .error (.einval, log)
        else
          let lv : Level := { arity := 0, width := total, attr := attr, idx := ix, attached := [] }
          let lv2 := updLevel st.levels (count - 1) (fun l => { l with arity := item }) ++ [lv]
          let st2 : Loop := { st with total := total, log := log, levels := lv2 }
          .ok (st2, next)

/-- one iteration of `for (pos = description, count = 1; *pos; pos = next_pos)`; `none` = left through `break` -/
def loopBody (pos : Bytes) (st : Loop) : R (Loop × Option Bytes) :=
  let count := st.levels.length
  -- data->level[count-1].arity = 0;
  let st : Loop := { st with levels := updLevel st.levels (count - 1) (fun l => { l with arity := 0 }),
                             log := (count - 1) :: st.log }
  let pos := pos.dropWhile (fun c => c == 32 || c == 10)
  match pos with
  | [] => .ok (st, none)
  | c :: r =>
    if c = 91 then
      match attachedStep r st with
      | .ok (st', next) => .ok (st', some next)
      | .error e => .error e
    else
      match levelStep c (c :: r) st with
      | .ok (st', next) => .ok (st', some next)
      | .error e => .error e

def mainLoop : Nat → Bytes → Loop → R Loop
  | 0, _, st => .ok st
  | fuel + 1, pos, st =>
    match pos with
    | [] => .ok st
    | _ =>
      match loopBody pos st with
      | .error e => .error e
      | .ok (st', none) => .ok st'
      | .ok (st', some next) => mainLoop fuel next st'

structure Parsed where
  levels : List Level
  numaNr : Nat
  numaIdx : Idx
  log : Log
deriving Repr

def typeCount (levels : List Level) (t : Nat) : Nat := ((levels.drop 1).filter (fun l => l.attr.type == t)).length

def setType (levels : List Level) (i : Nat) (t : Nat) (depth : Nat := 4294967295) (ctype : Int := -1) (keep : Bool := true) : List Level :=
  updLevel levels i (fun l => { l with attr := if keep then { l.attr with type := t } else { l.attr with type := t, depth := depth, ctype := ctype } })

/-- hwloc_synthetic_set_default_attrs; returns the attribute and the new `type_count[GROUP]` -/
def setDefaultAttrs (a : Attr) (gcount : Int) : Attr × Int :=
  if a.type = tGROUP then
    if a.depth = 4294967295 then ({ a with depth := (gcount % (u32 : Int)).toNat }, gcount - 1) else (a, gcount)
  else if isCacheT a.type then
    if a.mem = 0 then
      if a.depth = 1 then ({ a with mem := 32 * 1024 }, gcount)
      else ({ a with mem := ((256 * 1024) <<< (2 * a.depth)) % u64 }, gcount)
    else (a, gcount)
  else if a.type = tNUMA ∧ a.mem = 0 then ({ a with mem := 1024 * 1024 * 1024 }, gcount)
  else (a, gcount)

/-- one guarded assignment `if (c) data->level[i].attr.type = t; ...` together with its log entry -/
def condSet (c : Bool) (i t : Nat) (depth : Nat) (ctype : Int) (keep : Bool) (p : List Level × Log) : List Level × Log :=
  if c then (setType p.1 i t depth ctype keep, i :: p.2) else p

/-- the numbers of levels of each default kind (lines 744-765): (neednuma, needpack, needcore, needcaches, needgroups) -/
def needs (count numaNr : Nat) : Nat × Nat × Nat × Nat × Nat :=
  let c := count - 2
  let neednuma := if c ≥ 1 ∧ numaNr = 0 then 1 else 0
  let c := c - neednuma
  let needpack := if c ≥ 1 then 1 else 0
  let c := c - needpack
  let needcore := if c ≥ 1 then 1 else 0
  let c := c - needcore
  let needcaches := if c > 4 then 4 else c
  (neednuma, needpack, needcore, needcaches, c - needcaches)

/-- default type assignment for untyped levels (lines 742-818): new levels, indexes written,
whether a NUMA level was assigned, number of Group levels assigned -/
def assignDefaultTypes (levels : List Level) (count numaNr : Nat) : List Level × Log × Bool × Nat :=
  let (neednuma, needpack, needcore, needcaches, needgroups) := needs count numaNr
  let p0 : List Level × Log :=
    (List.range needgroups).foldl (fun p i => condSet true (1 + i) tGROUP 4294967295 (-1) true p) (levels, [])
  let l3 := 1 + needgroups + needpack + neednuma
  let l2 := l3 + (if needcaches ≥ 3 then 1 else 0)
  let l1 := l2 + 1
  let l1i := l1 + 1
  let cd := 1 + needgroups + needpack + neednuma + needcaches
  let p := condSet (needpack == 1) (1 + needgroups) tPACKAGE 4294967295 (-1) true p0
  let p := condSet (neednuma == 1) (1 + needgroups + needpack) tNUMA 4294967295 (-1) true p
  let p := condSet (decide (needcaches ≥ 3)) l3 tL3 3 0 false p
  let p := condSet (decide (needcaches ≥ 1)) l2 tL2 2 0 false p
  let p := condSet (decide (needcaches ≥ 2)) l1 tL1 1 1 false p
  let p := condSet (decide (needcaches ≥ 4)) l1i tL1I 1 2 false p
  let p := condSet (needcore == 1) cd tCORE 4294967295 (-1) true p
  (p.1, p.2, neednuma == 1, needgroups)

/-- "enforce a NUMA level": the list view of `memmove(&level[2], &level[1], (count-1)*sizeof)` and of the
assignments to level[1] / level[0]; the log holds the slots read (1..count-1) and written (2..count, 1, 0) -/
def insertNuma (levels : List Level) (count : Nat) : List Level × Log :=
  match levels with
  | l0 :: rest =>
    let nl : Level := { arity := l0.arity, width := l0.width,
                        attr := { (rest.head?.getD {}).attr with type := tNUMA, mem := 0, msc := 0 }, idx := {}, attached := [] }
    ({ l0 with arity := 1 } :: nl :: rest, [0, 0, 0, 1, 1, 1, 1, 1, 1, 1] ++ ((List.range (count + 1)).drop 1))
  | [] => (levels, [])

structure Fin2 where
  levels : List Level
  gcount : Int
  log : Log

/-- the loop `for (i=0; i<count; i++)` at the end of init -/
def defaultsLoop : List Nat → Fin2 → R Fin2
  | [], st => .ok st
  | i :: rest, st =>
    let l := lvAt st.levels i
    let (a, g) := setDefaultAttrs l.attr st.gcount
    let att := l.attached.map (fun x => (setDefaultAttrs x g).1)
    let levels := updLevel st.levels i (fun l => { l with attr := a, attached := att })
    let (r, rl) := processIndexes levels l.idx l.width
    let log := rl ++ (i :: st.log)
    match r with
    | .err e => .error (e, log)
    | .arr arr =>
      defaultsLoop rest { levels := updLevel levels i (fun l => { l with idx := { l.idx with arr := arr } }),
                          gcount := g, log := log }

/-- the terminating `arity = 0`, the last level becomes the PU level, the sanity checks (lines 725-802) -/
def sanity (st : Loop) : R (List Level × Log) :=
  let count := st.levels.length
  -- data->level[count-1].arity = 0;  then the test of level[count-1].attr.type (twice) and its assignment
  let levels0 := updLevel st.levels (count - 1) (fun l => { l with arity := 0 })
  let last := lvAt levels0 (count - 1)
  let log := (count - 1) :: (count - 1) :: (count - 1) :: (count - 1) :: st.log
  if last.attr.type ≠ tNONE ∧ last.attr.type ≠ tPU then .error (.einval, log) else
  let levels := setType levels0 (count - 1) tPU
  let log := (List.range count).drop 1 ++ log               -- type_count loop: level[count-1 .. 1]
  if typeCount levels tPU = 0 then .error (.einval, log)
  else if typeCount levels tPU > 1 then .error (.einval, log)
  else if typeCount levels tPACKAGE > 1 then .error (.einval, log)
  else if typeCount levels tDIE > 1 then .error (.einval, log)
  else if typeCount levels tNUMA > 1 then .error (.einval, log)
  else if typeCount levels tNUMA ≠ 0 ∧ st.numaNr ≠ 0 then .error (.einval, log)
  else if typeCount levels tCORE > 1 then .error (.einval, log)
  else
    let unset := (((levels.drop 1).take (count - 2)).filter (fun l => l.attr.type == tNONE)).length
    let log := ((List.range (count - 1)).drop 1) ++ log
    if unset ≠ 0 ∧ unset ≠ count - 2 then .error (.einval, log) else .ok (levels, log)

/-- default types and the implicit NUMA level (lines 804-899): levels, log, type_count[GROUP] -/
def typesAndNuma (st : Loop) (levels : List Level) (log : Log) : List Level × Log × Int :=
  let count := levels.length
  let unset := (((levels.drop 1).take (count - 2)).filter (fun l => l.attr.type == tNONE)).length
  let r : List Level × Log × Bool × Nat :=
    if unset ≠ 0 then assignDefaultTypes levels count st.numaNr
    else (levels, [], typeCount levels tNUMA ≠ 0, 0)
  let gcount : Int := (typeCount st.levels tGROUP + r.2.2.2 : Nat)
  let log := r.2.1 ++ log
  if !r.2.2.1 ∧ st.numaNr = 0 then
    let q := insertNuma r.1 count
    (q.1, q.2 ++ log, gcount)
  else (r.1, log, gcount)

/-- everything after the parsing loop -/
def finish (st : Loop) : R Parsed :=
  match sanity st with
  | .error e => .error e
  | .ok (levels, log) =>
    let (levels, log, gcount) := typesAndNuma st levels log
    match defaultsLoop (List.range levels.length) { levels := levels, gcount := gcount, log := log } with
    | .error e => .error e
    | .ok f =>
      let (r, rl) := processIndexes f.levels st.numaIdx st.numaNr
      let log := rl ++ f.log
      match r with
      | .err e => .error (e, log)
      | .arr arr => .ok { levels := f.levels, numaNr := st.numaNr, numaIdx := { st.numaIdx with arr := arr }, log := log }

/-- hwloc_backend_synthetic_init(data, description) -/
def parse (s : Bytes) : R Parsed :=
  let l0 : Level := { arity := 0, width := 1, attr := { type := tMACHINE, mem := 0, msc := 0 }, idx := {}, attached := [] }
  let log0 : Log := [0, 0, 0, 0, 0, 0, 0]
  let r0 : Except Err (Bytes × Level) :=
    if s.head? = some 40 then
      match parseAttrs (s.drop 1) l0.attr l0.idx with
      | .ok (next, a, ix) => .ok (next, { l0 with attr := a, idx := ix })
      | .error e => .error e
    else .ok (s, l0)
  match r0 with
  | .error e => .error (e, 0 :: 0 :: log0)
  | .ok (pos, l0) =>
    match mainLoop (pos.length + 1) pos { levels := [l0], log := log0 } with
    | .error e => .error e
    | .ok st => finish st

/-- the access log of a run, whatever its outcome -/
def logOf (r : R Parsed) : Log :=
  match r with
  | .ok p => p.log
  | .error (_, log) => log

end Hw.Syn
