/- Hw.Io.XmlDiffLemmas — lemmas about the diff XML exporter / importer models (Hw.Io.XmlDiff). -/
import Hw.Io.XmlDiff
import Hw.Io.XmlLemmas
namespace Hw.XmlDiff
open Hw Hw.Xml Hw.Diff

/-! ### the strcmp chain on the names the exporter writes -/
theorem attrKind_type : attrKind nmType = some .type := by decide
theorem attrKind_depth : attrKind nmDepth = some .depth := by decide
theorem attrKind_index : attrKind nmIndex = some .index := by decide
theorem attrKind_atype : attrKind nmAType = some .atype := by decide
theorem attrKind_aindex : attrKind nmAIndex = some .aindex := by decide
theorem attrKind_aname : attrKind nmAName = some .aname := by decide
theorem attrKind_old : attrKind nmOld = some .old := by decide
theorem attrKind_new : attrKind nmNew = some .new := by decide

/-! ### numbers -/

theorem atoi_decDigits (n : Nat) : Xml.atoi (decDigits n) = (n : Int) := by
  have h := atoi_printInt (n : Int)
  unfold printInt at h
  have hn : ¬ ((n : Int) < 0) := by omega
  rw [if_neg hn] at h
  simpa using h

theorem atoiC_printInt (i : Int) (h1 : -2147483648 ≤ i) (h2 : i < 2147483648) : atoiC (printInt i) = i := by
  unfold atoiC strtolDec toInt32 longMax
  simp only [atoi_printInt]
  split
  · omega
  · split
    · omega
    · omega

theorem atouC_decDigits (n : Nat) (h : n < 4294967296) : atouC (decDigits n) = n := by
  unfold atouC atoiC strtolDec toInt32 longMax
  simp only [atoi_decDigits]
  split
  · omega
  · split
    · omega
    · omega

theorem digitChar_pos_shape (d : Nat) (h1 : 1 ≤ d) (h2 : d < 10) : digitChar d = 48 + d := by
  unfold digitChar; rw [if_pos h2]

theorem basePrefix0_dec_head (c : Nat) (tl : Bytes) (hc : c ≠ 48) : basePrefix0 (c :: tl) = (10, c :: tl) := by
  unfold basePrefix0
  split
  · rename_i heq; injection heq with h1 h2; omega
  · rename_i heq; injection heq with h1 h2; omega
  · rfl

theorem magnitude0_dec_head (c : Nat) (tl : Bytes) (hc : c ≠ 48) :
    magnitude0 (c :: tl) = ((takeDigits 10 (c :: tl) 0 0).1, (takeDigits 10 (c :: tl) 0 0).2.1) := by
  unfold magnitude0
  rw [basePrefix0_dec_head c tl hc]

theorem splitSign_other (c : Nat) (tl : Bytes) (h2 : c ≠ 45) (h3 : c ≠ 43) : splitSign (c :: tl) = (false, c :: tl) := by
  unfold splitSign
  split
  · rename_i heq; injection heq with h1 h2; omega
  · rename_i heq; injection heq with h1 h2; omega
  · rfl

theorem strtoull0_unsigned_head (c : Nat) (tl : Bytes) (h1 : isSpace c = false) (h2 : c ≠ 45) (h3 : c ≠ 43) :
    strtoull0 (c :: tl) =
      (if (magnitude0 (c :: tl)).2 = 0 then 0
       else if (magnitude0 (c :: tl)).1 > ulongMax then ulongMax else (magnitude0 (c :: tl)).1) := by
  unfold strtoull0
  have hdw : (c :: tl).dropWhile isSpace = c :: tl := by rw [List.dropWhile_cons, h1]; rfl
  rw [hdw, splitSign_other c tl h2 h3]
  simp

/-- `strtoull(s, NULL, 0)` reads back what `%llu` printed -/
theorem strtoull0_decDigits (n : Nat) (hn : n < 18446744073709551616) : strtoull0 (decDigits n) = n := by
  by_cases h0 : n = 0
  · subst h0; decide
  · obtain ⟨d, tl, hd1, hd2, e⟩ := digs_head 10 (by omega) n (by omega)
    have hc : digitChar d = 48 + d := digitChar_pos_shape d hd1 hd2
    have e' : decDigits n = (48 + d) :: tl := by rw [decDigits_eq, e, hc]
    have htd : takeDigits 10 (decDigits n) 0 0 = (n, 0 + (digs 10 n).length, []) := by
      have := takeDigits_digs 10 (by omega) (by omega) n [] 0
      rw [List.append_nil] at this
      rw [decDigits_eq, this]; rfl
    have hlen := digs_length_pos 10 (by omega) n
    have hsp : isSpace (48 + d) = false := isSpace_hex (48 + d) (Or.inl ⟨by omega, by omega⟩)
    have hmag : magnitude0 (decDigits n) = (n, 0 + (digs 10 n).length) := by
      rw [e', magnitude0_dec_head _ _ (by omega), ← e', htd]
    rw [e', strtoull0_unsigned_head _ _ hsp (by omega) (by omega), ← e', hmag]
    have h1 : ¬ (0 + (digs 10 n).length = 0) := by omega
    have h2 : ¬ (n > ulongMax) := by unfold ulongMax; omega
    rw [if_neg h1, if_neg h2]

/-! ### one element: the importer reads back what the exporter wrote -/

theorem atoiC_zero : atoiC (printInt 0) = 0 := by decide
theorem atoiC_one : atoiC (printInt 1) = 1 := by decide
theorem atoiC_two : atoiC (printInt 2) = 2 := by decide

theorem importOne_exportEntry (e : E) (h : Exportable e) : ∃ a, exportEntry e = some a ∧ importOne a = some (some e) := by
  cases e with
  | tooComplex k => exact absurd h (by simp [Exportable])
  | unknown => exact absurd h (by simp [Exportable])
  | objAttr k a =>
    obtain ⟨kd, ki⟩ := k
    cases a with
    | unknown => exact absurd h (by simp [Exportable])
    | size o n =>
      obtain ⟨h1, h2, h3⟩ : KeyInRange (kd, ki) := h
      refine ⟨_, rfl, ?_⟩
      simp only [importOne, slotsLoop, slotStep, Slots.empty, attrKind_type, attrKind_depth, attrKind_index, attrKind_atype,
        attrKind_aindex, attrKind_old, attrKind_new, Option.map_some, buildEntry, atoiC_zero]
      simp only [ne_eq, not_true_eq_false, if_false, atoiC_printInt kd h1 h2, atouC_decDigits ki h3, buildAttr, if_true,
        strtoull0_decDigits o.toNat o.isLt, strtoull0_decDigits n.toNat n.isLt, BitVec.ofNat_toNat, BitVec.setWidth_eq]
      simp
    | name o n =>
      cases o with
      | none => exact absurd h (by simp [Exportable])
      | some o =>
        cases n with
        | none => exact absurd h (by simp [Exportable])
        | some n =>
          obtain ⟨h1, h2, h3⟩ : KeyInRange (kd, ki) := h
          refine ⟨_, rfl, ?_⟩
          simp only [importOne, slotsLoop, slotStep, Slots.empty, attrKind_type, attrKind_depth, attrKind_index, attrKind_atype,
            attrKind_old, attrKind_new, Option.map_some, buildEntry, atoiC_zero, atoiC_one]
          simp [atoiC_printInt kd h1 h2, atouC_decDigits ki h3, buildAttr]
    | info nm o n =>
      obtain ⟨h1, h2, h3⟩ : KeyInRange (kd, ki) := h
      refine ⟨_, rfl, ?_⟩
      simp only [importOne, slotsLoop, slotStep, Slots.empty, attrKind_type, attrKind_depth, attrKind_index, attrKind_atype,
        attrKind_aname, attrKind_old, attrKind_new, Option.map_some, buildEntry, atoiC_zero, atoiC_two]
      simp [atoiC_printInt kd h1 h2, atouC_decDigits ki h3, buildAttr]

/-! ### lists -/

theorem exportable_not_tc (e : E) (h : Exportable e) : e.isTC = false := by
  cases e with
  | tooComplex k => exact absurd h (by simp [Exportable])
  | unknown => rfl
  | objAttr k a => rfl

theorem any_tc_false (l : List E) (h : ∀ e ∈ l, Exportable e) : l.any Entry.isTC = false := by
  rw [List.any_eq_false]
  intro e he
  rw [exportable_not_tc e (h e he)]
  simp

/-- the loop of the importer over the elements the exporter's loop wrote: every entry is appended, in order -/
theorem importEls_exportEls : ∀ (l : List E), (∀ e ∈ l, Exportable e) →
    ∃ els, exportEls l = some els ∧ els.length = l.length ∧ ∀ acc, importEls acc els = (true, acc ++ l)
  | [], _ => ⟨[], rfl, rfl, fun acc => by simp [importEls]⟩
  | e :: r, h => by
    obtain ⟨a, ha, hi⟩ := importOne_exportEntry e (h e (by simp))
    obtain ⟨els, hels, hlen, himp⟩ := importEls_exportEls r (fun x hx => h x (by simp [hx]))
    refine ⟨(nmDiff, a) :: els, by simp [exportEls, ha, hels], by simp [hlen], ?_⟩
    intro acc
    simp only [importEls, ne_eq, not_true_eq_false, if_false, hi, himp]
    simp

theorem rootLoop_rootAttrs (ref : Option Bytes) : rootLoop none (rootAttrs ref) = some ref := by
  cases ref <;> simp [rootAttrs, rootLoop]

/-- export, then import through the nolibxml back end -/
theorem roundtrip_nolibxml (ref : Option Bytes) (l : List E) (h : ∀ e ∈ l, Exportable e) :
    ∃ d, exportDoc ref l = .ok d ∧ importDoc .nolibxml d = ⟨0, l, ref, []⟩ := by
  obtain ⟨els, hels, _, himp⟩ := importEls_exportEls l h
  refine ⟨{ root := rootAttrs ref, els := els }, by simp [exportDoc, any_tc_false l h, hels], ?_⟩
  simp [importDoc, parse, rootLoop_rootAttrs, himp]

/-! ### libxml2: what the exporter writes has no repeated attribute name -/

theorem exportEntry_wellFormed (e : E) (a : AttrL) (h : exportEntry e = some a) : attrsWellFormed a = true := by
  cases e with
  | tooComplex k => simp [exportEntry] at h
  | unknown => simp [exportEntry] at h
  | objAttr k x =>
    cases x with
    | unknown => simp [exportEntry, attrTypeNum, exportAttr] at h
    | size o n => simp [exportEntry, attrTypeNum, exportAttr] at h; subst h; unfold attrsWellFormed; simp only [List.map_cons, List.map_nil]; decide
    | info nm o n => simp [exportEntry, attrTypeNum, exportAttr] at h; subst h; unfold attrsWellFormed; simp only [List.map_cons, List.map_nil]; decide
    | name o n =>
      cases o with
      | none => simp [exportEntry, attrTypeNum, exportAttr] at h
      | some o =>
        cases n with
        | none => simp [exportEntry, attrTypeNum, exportAttr] at h
        | some n => simp [exportEntry, attrTypeNum, exportAttr] at h; subst h; unfold attrsWellFormed; simp only [List.map_cons, List.map_nil]; decide

theorem exportEls_wellFormed : ∀ (l : List E) (els : List (Bytes × AttrL)), exportEls l = some els →
    els.all (fun e => attrsWellFormed e.2) = true
  | [], els, h => by simp [exportEls] at h; subst h; rfl
  | e :: r, els, h => by
    simp only [exportEls] at h
    cases ha : exportEntry e with
    | none => simp [ha] at h
    | some a =>
      cases hr : exportEls r with
      | none => simp [ha, hr] at h
      | some l' =>
        simp [ha, hr] at h
        subst h
        simp [exportEntry_wellFormed e a ha, exportEls_wellFormed r l' hr]

theorem rootAttrs_wellFormed (ref : Option Bytes) : attrsWellFormed (rootAttrs ref) = true := by
  cases ref <;> simp [rootAttrs, attrsWellFormed]

/-- whatever the exporter wrote is delivered unchanged by both back ends' parsers -/
theorem parse_exportDoc (be : Backend) (ref : Option Bytes) (l : List E) (d : Doc) (h : exportDoc ref l = .ok d) :
    parse be d = some d := by
  cases be with
  | nolibxml => rfl
  | libxml =>
    unfold exportDoc at h
    split at h
    · cases h
    · cases hels : exportEls l with
      | none => simp [hels] at h
      | some els =>
        simp [hels] at h
        subst h
        simp [parse, rootAttrs_wellFormed, exportEls_wellFormed l els hels]

theorem roundtrip (be : Backend) (ref : Option Bytes) (l : List E) (h : ∀ e ∈ l, Exportable e) :
    ∃ d, exportDoc ref l = .ok d ∧ importDoc be d = ⟨0, l, ref, []⟩ := by
  obtain ⟨d, hd, hi⟩ := roundtrip_nolibxml ref l h
  refine ⟨d, hd, ?_⟩
  have hp := parse_exportDoc be ref l d hd
  have hp0 := parse_exportDoc .nolibxml ref l d hd
  unfold importDoc at hi ⊢
  rw [hp]
  rw [hp0] at hi
  exact hi

/-! ### arbitrary documents: no partial state, order -/

theorem importDoc_cases (be : Backend) (d : Doc) :
    ((importDoc be d).ret = 0 ∧ (importDoc be d).freed = [] ∧ (importDoc be d).diff = linked be d) ∨
    ((importDoc be d).ret = -1 ∧ (importDoc be d).diff = [] ∧ (importDoc be d).ref = none ∧ (importDoc be d).freed = linked be d) := by
  cases hp : parse be d with
  | none => right; simp [importDoc, linked, hp, Loaded.fail]
  | some d' =>
    cases hr : rootLoop none d'.root with
    | none => right; simp [importDoc, linked, hp, hr, Loaded.fail]
    | some ref =>
      cases h : importEls [] d'.els with
      | mk b l =>
        cases b with
        | true => left; simp [importDoc, linked, hp, hr, h]
        | false => right; simp [importDoc, linked, hp, hr, h, Loaded.fail]

/-- the element loop links the contributions of a prefix of the elements, in document order, behind what it started with;
    when it reports no error the prefix is the whole list -/
theorem importEls_order : ∀ (els : List (Bytes × AttrL)) (acc : List E),
    ∃ pre suf, els = pre ++ suf ∧ (importEls acc els).2 = acc ++ pre.filterMap elEntry ∧ ((importEls acc els).1 = true → suf = [])
  | [], acc => ⟨[], [], rfl, by simp [importEls], fun _ => rfl⟩
  | el :: r, acc => by
    unfold importEls
    by_cases htag : el.1 ≠ nmDiff
    · rw [if_pos htag]
      exact ⟨[], el :: r, rfl, by simp, by simp⟩
    · rw [if_neg htag]
      cases h1 : importOne el.2 with
      | none => exact ⟨[], el :: r, rfl, by simp, by simp⟩
      | some oe =>
        cases oe with
        | none =>
          obtain ⟨pre, suf, e1, e2, e3⟩ := importEls_order r acc
          refine ⟨el :: pre, suf, by simp [e1], ?_, e3⟩
          simp [e2, elEntry, h1]
        | some e =>
          obtain ⟨pre, suf, e1, e2, e3⟩ := importEls_order r (acc ++ [e])
          refine ⟨el :: pre, suf, by simp [e1], ?_, e3⟩
          simp [e2, elEntry, h1]

theorem importEls_ok (els : List (Bytes × AttrL)) (acc out : List E) (h : importEls acc els = (true, out)) :
    out = acc ++ els.filterMap elEntry := by
  obtain ⟨pre, suf, e1, e2, e3⟩ := importEls_order els acc
  rw [h] at e2 e3
  have := e3 rfl
  subst this
  simp at e1
  subst e1
  exact e2

theorem parse_some (be : Backend) (d d' : Doc) (h : parse be d = some d') : d' = d := by
  cases be with
  | nolibxml => simp [parse] at h; exact h.symm
  | libxml =>
    simp only [parse] at h
    split at h
    · simp at h; exact h.symm
    · cases h

/-- an accepted document yields exactly the contributions of its elements, in document order -/
theorem importDoc_ok_order (be : Backend) (d : Doc) (h : (importDoc be d).ret = 0) :
    (importDoc be d).diff = d.els.filterMap elEntry := by
  unfold importDoc at h ⊢
  cases hp : parse be d with
  | none => simp [hp, Loaded.fail] at h
  | some d' =>
    have := parse_some be d d' hp
    subst this
    simp only [hp] at h ⊢
    cases hr : rootLoop none d'.root with
    | none => simp [hr, Loaded.fail] at h
    | some ref =>
      simp only [hr] at h ⊢
      cases he : importEls [] d'.els with
      | mk b l =>
        cases b with
        | false => simp [he, Loaded.fail] at h
        | true =>
          simp only []
          have := importEls_ok d'.els [] l he
          simpa using this

/-- the exporter writes one `<diff>` element per entry, in list order: the i-th element carries the attributes of the i-th entry -/
theorem exportEls_positional : ∀ (l : List E) (els : List (Bytes × AttrL)), exportEls l = some els →
    l.map exportEntry = els.map (fun el => some el.2) ∧ ∀ el ∈ els, el.1 = nmDiff
  | [], els, h => by simp [exportEls] at h; subst h; simp
  | e :: r, els, h => by
    simp only [exportEls] at h
    cases ha : exportEntry e with
    | none => simp [ha] at h
    | some a =>
      cases hr : exportEls r with
      | none => simp [ha, hr] at h
      | some l' =>
        simp [ha, hr] at h
        subst h
        obtain ⟨h1, h2⟩ := exportEls_positional r l' hr
        refine ⟨by simp [ha, h1], ?_⟩
        intro el hel
        rcases List.mem_cons.mp hel with rfl | hel
        · rfl
        · exact h2 el hel

/-! ### through the bytes of the start tags (nolibxml) -/

theorem rescanAttrs_good (a : AttrL) (h : GoodAttrs a) : rescanAttrs a = a :=
  scanAttrs_renderAttrs a (a.length + 1) (by omega) h

theorem goodAttrs_nil : GoodAttrs [] := by intro x hx; cases hx
theorem goodAttrs_cons (n v : Bytes) (a : AttrL) (h1 : ∀ c ∈ n, isAttrNameChar c = true) (h2 : NulFree v)
    (h : GoodAttrs a) : GoodAttrs ((n, v) :: a) := by
  intro y hy
  rcases List.mem_cons.mp hy with rfl | hy
  · exact ⟨h1, h2⟩
  · exact h y hy

theorem decDigits_nulFree (n : Nat) : NulFree (decDigits n) := by
  intro c hc
  have := decDigits_chars n c hc
  unfold IsDecChar at this
  omega

theorem printInt_nulFree (i : Int) : NulFree (printInt i) := by
  unfold printInt
  split
  · intro c hc
    rcases List.mem_cons.mp hc with rfl | hc
    · omega
    · exact decDigits_nulFree _ c hc
  · exact decDigits_nulFree _

theorem name_type : ∀ c ∈ nmType, isAttrNameChar c = true := by decide
theorem name_depth : ∀ c ∈ nmDepth, isAttrNameChar c = true := by decide
theorem name_index : ∀ c ∈ nmIndex, isAttrNameChar c = true := by decide
theorem name_atype : ∀ c ∈ nmAType, isAttrNameChar c = true := by decide
theorem name_aindex : ∀ c ∈ nmAIndex, isAttrNameChar c = true := by decide
theorem name_aname : ∀ c ∈ nmAName, isAttrNameChar c = true := by decide
theorem name_old : ∀ c ∈ nmOld, isAttrNameChar c = true := by decide
theorem name_new : ∀ c ∈ nmNew, isAttrNameChar c = true := by decide
theorem name_refname : ∀ c ∈ nmRefname, isAttrNameChar c = true := by decide

theorem exportEntry_good (e : E) (a : AttrL) (hn : EntryNulFree e) (h : exportEntry e = some a) : GoodAttrs a := by
  cases e with
  | tooComplex k => simp [exportEntry] at h
  | unknown => simp [exportEntry] at h
  | objAttr k x =>
    have hd : ∀ t : Int, ∀ tail, GoodAttrs tail → GoodAttrs ((nmType, printInt 0) :: (nmDepth, printInt k.1) ::
        (nmIndex, decDigits k.2) :: (nmAType, printInt t) :: tail) := fun t tail ht =>
      goodAttrs_cons _ _ _ name_type (printInt_nulFree _) (goodAttrs_cons _ _ _ name_depth (printInt_nulFree _)
        (goodAttrs_cons _ _ _ name_index (decDigits_nulFree _) (goodAttrs_cons _ _ _ name_atype (printInt_nulFree _) ht)))
    cases x with
    | unknown => simp [exportEntry, attrTypeNum, exportAttr] at h
    | size o n =>
      simp [exportEntry, attrTypeNum, exportAttr] at h; subst h
      exact hd 0 _ (goodAttrs_cons _ _ _ name_aindex (decDigits_nulFree _) (goodAttrs_cons _ _ _ name_old (decDigits_nulFree _)
        (goodAttrs_cons _ _ _ name_new (decDigits_nulFree _) goodAttrs_nil)))
    | info nm o n =>
      simp [exportEntry, attrTypeNum, exportAttr] at h; subst h
      obtain ⟨h1, h2, h3⟩ : NulFree nm ∧ NulFree o ∧ NulFree n := hn
      exact hd 2 _ (goodAttrs_cons _ _ _ name_aname h1 (goodAttrs_cons _ _ _ name_old h2 (goodAttrs_cons _ _ _ name_new h3 goodAttrs_nil)))
    | name o n =>
      cases o with
      | none => simp [exportEntry, attrTypeNum, exportAttr] at h
      | some o =>
        cases n with
        | none => simp [exportEntry, attrTypeNum, exportAttr] at h
        | some n =>
          simp [exportEntry, attrTypeNum, exportAttr] at h; subst h
          obtain ⟨h2, h3⟩ : NulFree o ∧ NulFree n := hn
          exact hd 1 _ (goodAttrs_cons _ _ _ name_old h2 (goodAttrs_cons _ _ _ name_new h3 goodAttrs_nil))

theorem exportEls_rescan : ∀ (l : List E) (els : List (Bytes × AttrL)), (∀ e ∈ l, EntryNulFree e) → exportEls l = some els →
    els.map (fun e => (e.1, rescanAttrs e.2)) = els
  | [], els, _, h => by simp [exportEls] at h; subst h; rfl
  | e :: r, els, hn, h => by
    simp only [exportEls] at h
    cases ha : exportEntry e with
    | none => simp [ha] at h
    | some a =>
      cases hr : exportEls r with
      | none => simp [ha, hr] at h
      | some l' =>
        simp [ha, hr] at h
        subst h
        simp only [List.map_cons]
        rw [rescanAttrs_good a (exportEntry_good e a (hn e (by simp)) ha),
          exportEls_rescan r l' (fun x hx => hn x (by simp [hx])) hr]

/-- the nolibxml importer's attribute scanner reads every start tag the nolibxml exporter wrote back to the same tokens -/
theorem rescan_exportDoc (ref : Option Bytes) (l : List E) (d : Doc) (hr : ∀ r, ref = some r → NulFree r)
    (hn : ∀ e ∈ l, EntryNulFree e) (h : exportDoc ref l = .ok d) : rescan d = d := by
  unfold exportDoc at h
  split at h
  · cases h
  · cases hels : exportEls l with
    | none => simp [hels] at h
    | some els =>
      simp [hels] at h
      subst h
      unfold rescan
      simp only [exportEls_rescan l els hn hels]
      congr 1
      cases ref with
      | none => simp [rootAttrs, rescanAttrs, renderAttrs, scanAttrs, nextAttr, rd, List.takeWhile]
      | some r =>
        exact rescanAttrs_good _ (goodAttrs_cons _ _ _ name_refname (hr r rfl) goodAttrs_nil)

end Hw.XmlDiff
