/-
  Hw.Io.SyntheticWFFull — `WF (toDump t)` for every abstract topology under the five decidable side conditions: the two clauses
  that `Hw.Io.SyntheticWFAll` left to the executable check `restOK` (`nodeset-decomposition`, `siblings-ordered`) are proved in
  `SyntheticWF16` / `SyntheticWF15`, so `restOK (toDump t)` holds and `wf_of_rest` concludes.
-/
import Hw.Io.SyntheticWFAll
import Hw.Io.SyntheticWF15
import Hw.Io.SyntheticWF16
namespace Hw.Syn
open Hw Hw.Topo

/-- no topology-level clause is left -/
theorem rest_top : ∀ c ∈ topClauses, c.1 ∉ provedTopClauses → False := by
  intro c hc hn
  unfold topClauses at hc
  simp only [List.mem_cons, List.not_mem_nil, or_false] at hc
  rcases hc with rfl | rfl | rfl | rfl | rfl | rfl | rfl | rfl | rfl | rfl | rfl | rfl | rfl | rfl | rfl | rfl | rfl | rfl
  all_goals (simp [provedTopClauses] at hn)

/-- the object-level clauses outside `provedObjClauses` hold under `numaOK` and `sibOK` -/
theorem rest_obj (t : Topo) (h : OK t) (hn : numaOK t = true) (hs : sibOK t = true) : ∀ c ∈ objClauses, c.1 ∉ provedObjClauses →
    ∀ o ∈ (toDump t).objs, c.2 (toDump t) (mkAux (toDump t)) o = true := by
  intro c hc hnot
  unfold objClauses at hc
  simp only [List.mem_cons, List.not_mem_nil, or_false] at hc
  rcases hc with rfl | rfl | rfl | rfl | rfl | rfl | rfl | rfl | rfl | rfl | rfl | rfl | rfl | rfl | rfl | rfl | rfl | rfl | rfl | rfl |
    rfl | rfl | rfl | rfl | rfl | rfl | rfl | rfl | rfl | rfl
  all_goals first
    | exact cl_nodeset_decomposition t h hn
    | exact cl_siblings_ordered t h hs
    | (exfalso; simp [provedObjClauses] at hnot)

theorem restOK_toDump (t : Topo) (h : OK t) (hn : numaOK t = true) (hs : sibOK t = true) : restOK (toDump t) = true := by
  unfold restOK
  simp only [Bool.and_eq_true, List.all_eq_true, List.mem_filter, Bool.not_eq_true', and_imp]
  constructor
  · intro c hc hnot
    exact (rest_top c hc (by simpa using hnot)).elim
  · intro c hc hnot o ho
    exact rest_obj t h hn hs c hc (by simpa using hnot) o ho

/-- **build_wf**: every abstract topology that meets the five side conditions has a well-formed dump -/
theorem build_wf (t : Topo) (h : topoOK t = true) (hp : puOK t = true) (hm : memOK t = true) (hn : numaOK t = true)
    (hs : sibOK t = true) : WF (toDump t) :=
  wf_of_rest t (topoOK_OK t h) hp hm hn (restOK_toDump t (topoOK_OK t h) hn hs)

end Hw.Syn
