/-
  Hw.Io.SyntheticAux — what the aggregates of `Hw.Topo.mkAux` (the fold that accumulates, per parent, the OR / disjointness of
  the children's sets, the memory sums and the child counts) are, for ANY dump: the value at index `i` is the fold of a
  per-cell step over the objects whose parent link is `i`.
-/
import Hw.Topo.WF
namespace Hw.Topo
set_option linter.unusedSimpArgs false

def auxStep (a : Aux) (o : Obj) : Aux :=
    if o.parent < 0 then a else
    let p := o.parent.toNat
    let a := { a with totSum := if isNormal o.type || isMemory o.type then a.totSum.set p (getN a.totSum p + o.totalMem) else a.totSum }
    if isNormal o.type then
      let (c, dj) := orInto (a.cpuOr, a.cpuDisj) p (o.cpuset.getD 0)
      { a with cpuOr := c, cpuDisj := dj, nNormal := a.nNormal.set p (getN a.nNormal p + 1) }
    else if isMemory o.type then
      let (c, dj) := orInto (a.memOr, a.memDisj) p (o.nodeset.getD 0)
      { a with memOr := c, memDisj := dj, nMemory := a.nMemory.set p (getN a.nMemory p + 1) }
    else if isIO o.type then { a with nIO := a.nIO.set p (getN a.nIO p + 1) }
    else { a with nMisc := a.nMisc.set p (getN a.nMisc p + 1) }

def aux0 (n : Nat) : Aux :=
  let z := List.replicate n 0
  let t := List.replicate n true
  ⟨z, t, z, t, z, z, z, z, z, z, z, t⟩

def auxFold (d : Dump) : Aux := d.objs.foldl auxStep (aux0 d.objs.length)

theorem mkAux_fold (d : Dump) :
    (mkAux d).cpuOr = (auxFold d).cpuOr ∧ (mkAux d).cpuDisj = (auxFold d).cpuDisj ∧ (mkAux d).memOr = (auxFold d).memOr ∧
    (mkAux d).memDisj = (auxFold d).memDisj ∧ (mkAux d).totSum = (auxFold d).totSum ∧ (mkAux d).nNormal = (auxFold d).nNormal ∧
    (mkAux d).nMemory = (auxFold d).nMemory ∧ (mkAux d).nIO = (auxFold d).nIO ∧ (mkAux d).nMisc = (auxFold d).nMisc :=
  ⟨rfl, rfl, rfl, rfl, rfl, rfl, rfl, rfl, rfl⟩

structure Cell where
  cpuOr : Nat
  cpuDisj : Bool
  memOr : Nat
  memDisj : Bool
  totSum : Nat
  nNormal : Nat
  nMemory : Nat
  nIO : Nat
  nMisc : Nat
deriving Repr, DecidableEq

def cellOf (a : Aux) (i : Nat) : Cell :=
  ⟨getN a.cpuOr i, getB a.cpuDisj i, getN a.memOr i, getB a.memDisj i, getN a.totSum i, getN a.nNormal i, getN a.nMemory i,
   getN a.nIO i, getN a.nMisc i⟩

def cellStep (c : Cell) (o : Obj) : Cell :=
  let ts := if isNormal o.type || isMemory o.type then c.totSum + o.totalMem else c.totSum
  if isNormal o.type then
    { c with totSum := ts, cpuOr := c.cpuOr ||| o.cpuset.getD 0, cpuDisj := c.cpuDisj && disjoint c.cpuOr (o.cpuset.getD 0),
             nNormal := c.nNormal + 1 }
  else if isMemory o.type then
    { c with totSum := ts, memOr := c.memOr ||| o.nodeset.getD 0, memDisj := c.memDisj && disjoint c.memOr (o.nodeset.getD 0),
             nMemory := c.nMemory + 1 }
  else if isIO o.type then { c with totSum := ts, nIO := c.nIO + 1 }
  else { c with totSum := ts, nMisc := c.nMisc + 1 }

def parentIs (i : Nat) (o : Obj) : Bool := decide (0 ≤ o.parent) && o.parent.toNat == i

structure Sized (n : Nat) (a : Aux) : Prop where
  h1 : a.cpuOr.length = n
  h2 : a.cpuDisj.length = n
  h3 : a.memOr.length = n
  h4 : a.memDisj.length = n
  h5 : a.totSum.length = n
  h6 : a.nNormal.length = n
  h7 : a.nMemory.length = n
  h8 : a.nIO.length = n
  h9 : a.nMisc.length = n

theorem getN_set (l : List Nat) (p i v : Nat) : getN (l.set p v) i = if p = i ∧ p < l.length then v else getN l i := by
  unfold getN
  rw [List.getElem?_set]
  by_cases h1 : p = i
  · subst h1
    by_cases h2 : p < l.length
    · simp [h2]
    · simp [h2]
  · simp [h1]

theorem getB_set (l : List Bool) (p i : Nat) (v : Bool) : getB (l.set p v) i = if p = i ∧ p < l.length then v else getB l i := by
  unfold getB
  rw [List.getElem?_set]
  by_cases h1 : p = i
  · subst h1
    by_cases h2 : p < l.length
    · simp [h2]
    · simp [h2]
  · simp [h1]

theorem auxStep_sized (n : Nat) (a : Aux) (o : Obj) (h : Sized n a) : Sized n (auxStep a o) := by
  obtain ⟨h1, h2, h3, h4, h5, h6, h7, h8, h9⟩ := h
  unfold auxStep orInto
  split
  · exact ⟨h1, h2, h3, h4, h5, h6, h7, h8, h9⟩
  · simp only
    split
    · constructor <;> (try split) <;> simp [*]
    · split
      · constructor <;> (try split) <;> simp [*]
      · split
        · constructor <;> (try split) <;> simp [*]
        · constructor <;> (try split) <;> simp [*]

theorem cell_step (n : Nat) (a : Aux) (o : Obj) (i : Nat) (hs : Sized n a) (hi : i < n) :
    cellOf (auxStep a o) i = if parentIs i o then cellStep (cellOf a i) o else cellOf a i := by
  obtain ⟨h1, h2, h3, h4, h5, h6, h7, h8, h9⟩ := hs
  unfold parentIs
  by_cases hneg : o.parent < 0
  · have : decide (0 ≤ o.parent) = false := by simp; omega
    unfold auxStep
    rw [if_pos hneg, this]; rfl
  · have hge : decide (0 ≤ o.parent) = true := by simp; omega
    rw [hge, Bool.true_and]
    by_cases hp : o.parent.toNat = i
    · have hb : (o.parent.toNat == i) = true := by simp [hp]
      rw [hb, if_pos rfl]
      unfold auxStep orInto cellStep cellOf
      rw [if_neg hneg]
      simp only [hp]
      by_cases hN : isNormal o.type = true
      · simp [hN, getN_set, getB_set, h1, h2, h3, h4, h5, h6, h7, h8, h9, hi]
        by_cases hd : disjoint (getN a.cpuOr i) (o.cpuset.getD 0) = true
        · simp [hd]
        · simp [hd, getB_set, h2, hi]
      · by_cases hM : isMemory o.type = true
        · simp [hN, hM, getN_set, getB_set, h1, h2, h3, h4, h5, h6, h7, h8, h9, hi]
          by_cases hd : disjoint (getN a.memOr i) (o.nodeset.getD 0) = true
          · simp [hd]
          · simp [hd, getB_set, h4, hi]
        · by_cases hI : isIO o.type = true
          · simp [hN, hM, hI, getN_set, getB_set, h1, h2, h3, h4, h5, h6, h7, h8, h9, hi]
          · simp [hN, hM, hI, getN_set, getB_set, h1, h2, h3, h4, h5, h6, h7, h8, h9, hi]
    · have hb : (o.parent.toNat == i) = false := by simp [hp]
      rw [hb, if_neg (by simp)]
      unfold auxStep orInto cellOf
      rw [if_neg hneg]
      by_cases hN : isNormal o.type = true
      · simp [hN, getN_set, getB_set, hp]
        split <;> simp [getB_set, hp]
      · by_cases hM : isMemory o.type = true
        · simp [hN, hM, getN_set, getB_set, hp]
          split <;> simp [getB_set, hp]
        · by_cases hI : isIO o.type = true
          · simp [hN, hM, hI, getN_set, getB_set, hp]
          · simp [hN, hM, hI, getN_set, getB_set, hp]

theorem cell_fold (n : Nat) (i : Nat) (hi : i < n) : ∀ (l : List Obj) (a : Aux), Sized n a →
    cellOf (l.foldl auxStep a) i = (l.filter (parentIs i)).foldl cellStep (cellOf a i) := by
  intro l
  induction l with
  | nil => intro a _; rfl
  | cons o l ih =>
    intro a hs
    rw [List.foldl_cons, ih _ (auxStep_sized n a o hs), cell_step n a o i hs hi, List.filter_cons]
    split <;> rfl

def cell0 : Cell := ⟨0, true, 0, true, 0, 0, 0, 0, 0⟩

theorem aux0_sized (n : Nat) : Sized n (aux0 n) := by
  constructor <;> simp [aux0]

theorem cellOf_aux0 (n i : Nat) (hi : i < n) : cellOf (aux0 n) i = cell0 := by
  simp [cellOf, aux0, getN, getB, cell0, hi]

/-- **the aggregates of `mkAux`, for any dump**: the cell of object `i` is the fold of `cellStep` over its children in the order
of the object list -/
theorem auxFold_cell (d : Dump) (i : Nat) (hi : i < d.objs.length) :
    cellOf (auxFold d) i = (d.objs.filter (parentIs i)).foldl cellStep cell0 := by
  unfold auxFold
  rw [cell_fold d.objs.length i hi d.objs _ (aux0_sized _), cellOf_aux0 _ _ hi]

end Hw.Topo
