/-
  Hw.Io.SyntheticWF — well-formedness (clauses of `Hw.Topo.WF`) of `toDump t` for EVERY abstract synthetic topology `t`
  that satisfies the decidable side condition `topoOK` (evaluated by the driver on every built topology):
  unbounded depth, arities, memory children and index sequences.

  * `nOf_*`            the objects-per-depth table of `mkTab`
  * `IsObj`, `objs_isObj`, `normalObj_mem`, `memSlot_mem`   the objects of the dump are exactly the `normalObj`s / `memSlot`s
  * `lookup_*`         `obj?` of an arithmetic DFS id is the object it was computed for
  * `cl_*`             one lemma per WF clause
-/
import Hw.Io.SyntheticDumpLemmas
namespace Hw.Syn
open Hw Hw.Topo

/-- the environment `toDump` builds its objects in -/
def envOf (t : Topo) : DEnv :=
  let T := mkTab t
  { t := t, T := T, numaL := specialIds T true (T.D + 1) 0 0, mcL := specialIds T false (T.D + 1) 0 0,
    groupNo := (List.range (T.D + 1)).map (fun d => ((T.types.take d).filter (· == tGROUP)).length) }

theorem toDump_objs (t : Topo) : (toDump t).objs = genObjs (envOf t) ((mkTab t).D + 1) 0 0 := rfl
theorem envOf_T (t : Topo) : (envOf t).T = mkTab t := rfl
theorem envOf_t (t : Topo) : (envOf t).t = t := rfl
theorem mkTab_D (t : Topo) : (mkTab t).D = t.levels.length := rfl

/-! ### the objects-per-depth table -/

def nStep (ar : List Nat) (acc : List Nat) (d : Nat) : List Nat := acc ++ [(acc.getLast?.getD 1) * (ar[d]?.getD 0)]

theorem nfold_spec (ar : List Nat) : ∀ m,
    ((List.range m).foldl (nStep ar) [1]).length = m + 1 ∧ ((List.range m).foldl (nStep ar) [1])[0]? = some 1 ∧
    ∀ i, i < m → ((List.range m).foldl (nStep ar) [1])[i + 1]? =
      some ((((List.range m).foldl (nStep ar) [1])[i]?.getD 1) * (ar[i]?.getD 0)) := by
  intro m
  induction m with
  | zero => exact ⟨rfl, rfl, fun i hi => by omega⟩
  | succ m ih =>
    obtain ⟨hl, h0, hs⟩ := ih
    rw [List.range_succ, List.foldl_append]
    simp only [List.foldl_cons, List.foldl_nil]
    generalize (List.range m).foldl (nStep ar) [1] = r at hl h0 hs
    have hlast : r.getLast? = r[m]? := by rw [List.getLast?_eq_getElem?, hl]; rfl
    unfold nStep
    refine ⟨by simp [hl], ?_, ?_⟩
    · rw [List.getElem?_append_left (by omega)]; exact h0
    · intro i hi
      by_cases him : i < m
      · rw [List.getElem?_append_left (by omega), List.getElem?_append_left (by omega)]; exact hs i him
      · have : i = m := by omega
        subst this
        rw [List.getElem?_append_right (by omega), List.getElem?_append_left (by omega), hlast]
        simp [hl]

def nOf (T : DTab) (d : Nat) : Nat := T.n[d]?.getD 1

theorem mkTab_n (t : Topo) : (mkTab t).n = (List.range t.levels.length).foldl (nStep (mkTab t).ar) [1] := rfl

theorem nOf_zero (t : Topo) : nOf (mkTab t) 0 = 1 := by
  unfold nOf; rw [mkTab_n, (nfold_spec _ _).2.1]; rfl

theorem nOf_succ (t : Topo) (d : Nat) (hd : d < (mkTab t).D) : nOf (mkTab t) (d + 1) = nOf (mkTab t) d * arOf (mkTab t) d := by
  have hd' : d < t.levels.length := hd
  unfold nOf arOf; rw [mkTab_n, (nfold_spec _ _).2.2 d hd']; rfl

theorem n_getD0 (t : Topo) (d : Nat) (hd : d ≤ (mkTab t).D) : (mkTab t).n[d]?.getD 0 = nOf (mkTab t) d := by
  unfold nOf
  have hl : (mkTab t).n.length = t.levels.length + 1 := by rw [mkTab_n]; exact (nfold_spec _ _).1
  have : d < (mkTab t).n.length := by rw [hl]; exact Nat.lt_succ_of_le hd
  rw [List.getElem?_eq_getElem this]; rfl

def lvl (t : Topo) (j : Nat) : NLevel := t.levels[j]?.getD { type := 0, arity := 0 }

theorem arOf_lt (t : Topo) (d : Nat) (hd : d < t.levels.length) : arOf (mkTab t) d = (lvl t d).arity := by
  unfold arOf lvl
  show (t.levels.map (·.arity) ++ [0])[d]?.getD 0 = _
  rw [List.getElem?_append_left (by simpa using hd)]
  simp [List.getElem?_eq_getElem hd]

theorem memOf_tab (t : Topo) (d : Nat) : (mkTab t).mem[d]?.getD [] = if d = 0 then t.rootMem else (t.levels[d - 1]?.map (·.mem)).getD [] := by
  show (t.rootMem :: t.levels.map (·.mem))[d]?.getD [] = _
  cases d with
  | zero => rfl
  | succ d => simp

/-! ### the side condition -/

/-- what the theorems below assume about `t` (decidable; the driver evaluates it on every topology `buildTopo` returns):
positive arities, normal non-Machine level types, the PU level is the last one and the only one of type PU, it carries no
memory and its os_indexes are `puIdx`; cache levels carry the depth and kind of their type -/
def topoOK (t : Topo) : Bool :=
  !t.levels.isEmpty && decide (t.levels.length < 4294967295) &&
  t.levels.all (fun l => decide (1 ≤ l.arity) && isNormal l.type && l.type != tMACHINE &&
    (if isDCache l.type then (l.ctype == 0 || l.ctype == 1) && l.cdepth == l.type - tL1 + 1
     else if isICache l.type then l.ctype == 2 && l.cdepth == l.type - tL1I + 1 else true)) &&
  (List.range t.levels.length).all (fun j => ((lvl t j).type == tPU) == (j + 1 == t.levels.length)) &&
  (lvl t (t.levels.length - 1)).mem.isEmpty &&
  (lvl t (t.levels.length - 1)).osIdx == t.puIdx.map (fun (v : Nat) => (v : Int))

structure OK (t : Topo) : Prop where
  ne : 0 < t.levels.length
  short : t.levels.length < 4294967295
  ar : ∀ j, j < t.levels.length → 1 ≤ (lvl t j).arity
  norm : ∀ j, j < t.levels.length → isNormal (lvl t j).type = true ∧ (lvl t j).type ≠ tMACHINE
  cache : ∀ j, j < t.levels.length →
    (isDCache (lvl t j).type = true → ((lvl t j).ctype = 0 ∨ (lvl t j).ctype = 1) ∧ (lvl t j).cdepth = (lvl t j).type - tL1 + 1) ∧
    (isICache (lvl t j).type = true → (lvl t j).ctype = 2 ∧ (lvl t j).cdepth = (lvl t j).type - tL1I + 1)
  pu : ∀ j, j < t.levels.length → ((lvl t j).type = tPU ↔ j + 1 = t.levels.length)
  puMem : (lvl t (t.levels.length - 1)).mem = []
  puOs : (lvl t (t.levels.length - 1)).osIdx = t.puIdx.map (fun (v : Nat) => (v : Int))

theorem lvl_mem (t : Topo) (j : Nat) (hj : j < t.levels.length) : lvl t j ∈ t.levels := by
  unfold lvl; rw [List.getElem?_eq_getElem hj]; exact List.getElem_mem hj

theorem topoOK_OK (t : Topo) (h : topoOK t = true) : OK t := by
  unfold topoOK at h
  simp only [Bool.and_eq_true, List.all_eq_true, decide_eq_true_eq, bne_iff_ne, ne_eq, List.mem_range, beq_iff_eq,
    Bool.not_eq_true', List.isEmpty_eq_false_iff, List.isEmpty_iff] at h
  obtain ⟨⟨⟨⟨⟨hne, hshort⟩, hall⟩, hpu⟩, hmem⟩, hos⟩ := h
  have hne' : 0 < t.levels.length := List.length_pos_iff.2 hne
  refine ⟨hne', hshort, ?_, ?_, ?_, ?_, hmem, hos⟩
  · intro j hj; exact (hall _ (lvl_mem t j hj)).1.1.1
  · intro j hj; exact ⟨(hall _ (lvl_mem t j hj)).1.1.2, (hall _ (lvl_mem t j hj)).1.2⟩
  · intro j hj
    have := (hall _ (lvl_mem t j hj)).2
    constructor
    · intro hd
      rw [if_pos hd] at this
      simp only [Bool.and_eq_true, Bool.or_eq_true, beq_iff_eq] at this
      exact this
    · intro hi
      have hnd : ¬ isDCache (lvl t j).type = true := by
        unfold isDCache isICache tL1 tL5 tL1I tL3I at *
        simp only [Bool.and_eq_true, decide_eq_true_eq] at *
        omega
      rw [if_neg hnd, if_pos hi] at this
      simp only [Bool.and_eq_true, beq_iff_eq] at this
      exact this
  · intro j hj
    have := hpu j hj
    constructor
    · intro h1; rw [h1] at this; simpa using this
    · intro h1
      have h2 : (j + 1 == t.levels.length) = true := by simpa using h1
      rw [h2] at this
      simpa using this

theorem nOf_pos (t : Topo) (h : OK t) : ∀ d, d ≤ (mkTab t).D → 0 < nOf (mkTab t) d := by
  intro d
  induction d with
  | zero => intro _; rw [nOf_zero]; exact Nat.one_pos
  | succ d ih =>
    intro hd
    rw [nOf_succ t d hd, arOf_lt t d hd]
    exact Nat.mul_pos (ih (Nat.le_of_lt hd)) (h.ar d hd)

/-! ### the objects of the dump -/

def memLen (T : DTab) (d : Nat) : Nat := (T.mem[d]?.getD []).length

inductive IsObj (E : DEnv) (o : Obj) : Prop
  | normal (d k : Nat) (hd : d ≤ E.T.D) (hk : k < nOf E.T d) (h : o = normalObj E d k)
  | mem (d k s : Nat) (hd : d ≤ E.T.D) (hk : k < nOf E.T d) (hs : s < memLen E.T d) (h : o ∈ memSlot E d k s)

theorem child_lt (t : Topo) (d k r : Nat) (hd : d < (mkTab t).D) (hk : k < nOf (mkTab t) d) (hr : r < arOf (mkTab t) d) :
    k * arOf (mkTab t) d + r < nOf (mkTab t) (d + 1) := by
  rw [nOf_succ t d hd]
  have := Nat.mul_le_mul_right (arOf (mkTab t) d) (Nat.succ_le_of_lt hk)
  rw [Nat.succ_mul] at this
  omega

theorem genObjs_isObj (t : Topo) (E : DEnv) (hE : E.T = mkTab t) : ∀ (f d k : Nat), d + f = E.T.D + 1 → d ≤ E.T.D →
    k < nOf E.T d → ∀ o ∈ genObjs E f d k, IsObj E o := by
  intro f
  induction f with
  | zero => intro d k h1 h2; omega
  | succ f ih =>
    intro d k h1 h2 hk o ho
    unfold genObjs at ho
    have hmem : ∀ o ∈ memObjs E d k, IsObj E o := by
      intro o ho
      unfold memObjs at ho
      obtain ⟨s, hs, hos⟩ := List.mem_flatMap.1 ho
      exact .mem d k s h2 hk (List.mem_range.1 hs) hos
    rcases List.mem_cons.1 ho with rfl | ho
    · exact .normal d k h2 hk rfl
    · rcases List.mem_append.1 ho with ho | ho
      · split at ho
        · rename_i hd
          obtain ⟨r, hr, hor⟩ := List.mem_flatMap.1 ho
          have hr' : r < arOf E.T d := List.mem_range.1 hr
          refine ih (d + 1) _ (by omega) (by omega) ?_ o hor
          rw [hE] at hr' hk hd ⊢
          exact child_lt t d k r hd hk hr'
        · cases ho
      · exact hmem o ho

theorem objs_isObj (t : Topo) : ∀ o ∈ (toDump t).objs, IsObj (envOf t) o := by
  intro o ho
  rw [toDump_objs] at ho
  refine genObjs_isObj t (envOf t) rfl _ 0 0 (by rw [envOf_T]; omega) (Nat.zero_le _) ?_ o ho
  rw [envOf_T, nOf_zero]; exact Nat.one_pos

/-- the subtree of a child is part of the subtree of its parent -/
theorem genObjs_child_sub (E : DEnv) (f d k r : Nat) (hd : d < E.T.D) (hr : r < arOf E.T d) :
    ∀ o ∈ genObjs E f (d + 1) (k * arOf E.T d + r), o ∈ genObjs E (f + 1) d k := by
  intro o ho
  show o ∈ normalObj E d k :: ((if d < E.T.D then (List.range (E.T.ar[d]?.getD 0)).flatMap (fun r => genObjs E f (d + 1) (k * (E.T.ar[d]?.getD 0) + r)) else []) ++ memObjs E d k)
  rw [if_pos hd]
  refine List.mem_cons_of_mem _ (List.mem_append_left _ (List.mem_flatMap.2 ⟨r, List.mem_range.2 hr, ho⟩))

theorem genObjs_sub_objs (t : Topo) : ∀ d, d ≤ (mkTab t).D → ∀ k, k < nOf (mkTab t) d →
    ∀ o ∈ genObjs (envOf t) ((mkTab t).D + 1 - d) d k, o ∈ (toDump t).objs := by
  intro d
  induction d with
  | zero =>
    intro _ k hk o ho
    rw [nOf_zero] at hk
    have : k = 0 := by omega
    subst this
    rw [toDump_objs]; exact ho
  | succ d ih =>
    intro hd k hk o ho
    have hd' : d < (mkTab t).D := hd
    have hdl : d < t.levels.length := hd
    rw [nOf_succ t d hd'] at hk
    have ha : 0 < arOf (mkTab t) d := by
      rcases Nat.eq_zero_or_pos (arOf (mkTab t) d) with h0 | h0
      · rw [h0] at hk; omega
      · exact h0
    have hk1 : k / arOf (mkTab t) d < nOf (mkTab t) d := by
      rw [Nat.div_lt_iff_lt_mul ha]; exact hk
    have hr : k % arOf (mkTab t) d < arOf (mkTab t) d := Nat.mod_lt _ ha
    have hkk : k / arOf (mkTab t) d * arOf (mkTab t) d + k % arOf (mkTab t) d = k := by
      rw [Nat.mul_comm]; exact Nat.div_add_mod k _
    apply ih (Nat.le_of_lt hd) (k / arOf (mkTab t) d) hk1
    have hf : (mkTab t).D + 1 - d = ((mkTab t).D + 1 - (d + 1)) + 1 := by omega
    rw [hf]
    have := genObjs_child_sub (envOf t) ((mkTab t).D + 1 - (d + 1)) d (k / arOf (mkTab t) d) (k % arOf (mkTab t) d) hd' hr o
    rw [envOf_T, hkk] at this
    exact this ho

theorem normalObj_mem (t : Topo) (d k : Nat) (hd : d ≤ (mkTab t).D) (hk : k < nOf (mkTab t) d) :
    normalObj (envOf t) d k ∈ (toDump t).objs := by
  apply genObjs_sub_objs t d hd k hk
  have hf : (mkTab t).D + 1 - d = ((mkTab t).D - d) + 1 := by omega
  rw [hf]
  unfold genObjs
  exact List.mem_cons_self

theorem memSlot_mem (t : Topo) (d k s : Nat) (hd : d ≤ (mkTab t).D) (hk : k < nOf (mkTab t) d) (hs : s < memLen (mkTab t) d) :
    ∀ o ∈ memSlot (envOf t) d k s, o ∈ (toDump t).objs := by
  intro o ho
  apply genObjs_sub_objs t d hd k hk
  have hf : (mkTab t).D + 1 - d = ((mkTab t).D - d) + 1 := by omega
  rw [hf]
  unfold genObjs
  refine List.mem_cons_of_mem _ (List.mem_append_right _ ?_)
  unfold memObjs
  exact List.mem_flatMap.2 ⟨s, List.mem_range.2 hs, ho⟩

/-! ### lookup by id -/

theorem lookup_of_mem (t : Topo) (o : Obj) (ho : o ∈ (toDump t).objs) : (toDump t).obj? (o.id : Int) = some o := by
  obtain ⟨i, hi, rfl⟩ := List.getElem_of_mem ho
  have h := toDump_ids t
  have hid : ((toDump t).objs[i]).id = i := by
    have := congrArg (fun l => l[i]?) h
    simp only [List.getElem?_map, List.getElem?_eq_getElem hi, Option.map_some] at this
    have hi' : i < (toDump t).nobjs := hi
    rw [List.getElem?_range hi'] at this
    simpa using this
  unfold Dump.obj?
  rw [if_neg (by omega), hid]
  simp [List.getElem?_eq_getElem hi]

theorem lookup_normal (t : Topo) (d k : Nat) (hd : d ≤ (mkTab t).D) (hk : k < nOf (mkTab t) d) :
    (toDump t).obj? (nid (mkTab t) d k : Int) = some (normalObj (envOf t) d k) :=
  lookup_of_mem t _ (normalObj_mem t d k hd hk)

/-! ### the three kinds of objects, field by field -/

def slotM (E : DEnv) (d s : Nat) : MemChild := (E.T.mem[d]?.getD [])[s]?.getD ⟨0, 0⟩

def numaObj (E : DEnv) (d k s : Nat) : Obj :=
  let T := E.T
  let ms := T.mem[d]?.getD []
  let cs := cpusetOf E d k
  let m := ms[s]?.getD ⟨0, 0⟩
  let pos := postPos T (numaCnt T) d k s
  let os := E.t.numaIdx[pos]?.getD 0
  let ns := 1 <<< os
  let mid := memId T d k s
  let nidd := numaId T d k s
  let hasmc := m.msc ≠ 0
  let sibNext : Int := if s + 1 < ms.length then (memId T d k (s + 1) : Int) else -1
  let sibPrev : Int := if s > 0 then (memId T d k (s - 1) : Int) else -1
  { blankObj with
    id := nidd, type := tNUMA, depth := -3, lidx := pos, osidx := os, gp := nidd,
    parent := if hasmc then (mid : Int) else (nid T d k : Int), rank := if hasmc then 0 else s,
    nextSib := if hasmc then -1 else sibNext, prevSib := if hasmc then -1 else sibPrev,
    nextCousin := neighbour E.numaL pos true, prevCousin := neighbour E.numaL pos false,
    cpuset := some cs, ccpuset := some cs, nodeset := some ns, cnodeset := some ns, totalMem := m.mem,
    attrs := [(m.mem : Int), 1, 0, 0, 0, 0] }

def mcObj (E : DEnv) (d k s : Nat) : Obj :=
  let T := E.T
  let ms := T.mem[d]?.getD []
  let cs := cpusetOf E d k
  let m := ms[s]?.getD ⟨0, 0⟩
  let pos := postPos T (numaCnt T) d k s
  let os := E.t.numaIdx[pos]?.getD 0
  let ns := 1 <<< os
  let mid := memId T d k s
  let nidd := numaId T d k s
  let sibNext : Int := if s + 1 < ms.length then (memId T d k (s + 1) : Int) else -1
  let sibPrev : Int := if s > 0 then (memId T d k (s - 1) : Int) else -1
  let mpos := postPos T (mcCnt T) d k (mcSlot T d s)
  { blankObj with
    id := mid, type := tMEMCACHE, depth := -8, lidx := mpos, osidx := -1, gp := mid,
    parent := (nid T d k : Int), rank := s, marity := 1, nextSib := sibNext, prevSib := sibPrev,
    nextCousin := neighbour E.mcL mpos true, prevCousin := neighbour E.mcL mpos false,
    memFirst := (nidd : Int),
    cpuset := some cs, ccpuset := some cs, nodeset := some ns, cnodeset := some ns, totalMem := m.mem,
    attrs := [(m.msc : Int), 1, 64, 0, 0, 0] }

theorem memSlot_eq (E : DEnv) (d k s : Nat) :
    memSlot E d k s = if (slotM E d s).msc ≠ 0 then [mcObj E d k s, numaObj E d k s] else [numaObj E d k s] := by
  unfold memSlot slotM
  simp only
  split
  · rename_i h
    have h' : ¬ ((E.T.mem[d]?.getD [])[s]?.getD ⟨0, 0⟩).msc = 0 := h
    simp only [mcObj, numaObj, ne_eq, h', not_false_eq_true, if_true]
  · rename_i h
    have h' : ((E.T.mem[d]?.getD [])[s]?.getD ⟨0, 0⟩).msc = 0 := Classical.not_not.1 h
    simp only [numaObj, ne_eq, h', not_true_eq_false, if_false]

/-- the three kinds -/
inductive Kind (t : Topo) (o : Obj) : Prop
  | normal (d k : Nat) (hd : d ≤ (mkTab t).D) (hk : k < nOf (mkTab t) d) (h : o = normalObj (envOf t) d k)
  | numa (d k s : Nat) (hd : d ≤ (mkTab t).D) (hk : k < nOf (mkTab t) d) (hs : s < memLen (mkTab t) d) (h : o = numaObj (envOf t) d k s)
  | mc (d k s : Nat) (hd : d ≤ (mkTab t).D) (hk : k < nOf (mkTab t) d) (hs : s < memLen (mkTab t) d)
      (hm : (slotM (envOf t) d s).msc ≠ 0) (h : o = mcObj (envOf t) d k s)

theorem objs_kind (t : Topo) : ∀ o ∈ (toDump t).objs, Kind t o := by
  intro o ho
  cases objs_isObj t o ho with
  | normal d k hd hk h => exact .normal d k hd hk h
  | mem d k s hd hk hs h =>
    rw [memSlot_eq] at h
    split at h
    · rename_i hm
      simp only [List.mem_cons, List.not_mem_nil, or_false] at h
      rcases h with h | h
      · exact .mc d k s hd hk hs hm h
      · exact .numa d k s hd hk hs h
    · simp only [List.mem_cons, List.not_mem_nil, or_false] at h
      exact .numa d k s hd hk hs h

theorem numaObj_mem (t : Topo) (d k s : Nat) (hd : d ≤ (mkTab t).D) (hk : k < nOf (mkTab t) d) (hs : s < memLen (mkTab t) d) :
    numaObj (envOf t) d k s ∈ (toDump t).objs := by
  apply memSlot_mem t d k s hd hk hs
  rw [memSlot_eq]; split <;> simp

theorem mcObj_mem (t : Topo) (d k s : Nat) (hd : d ≤ (mkTab t).D) (hk : k < nOf (mkTab t) d) (hs : s < memLen (mkTab t) d)
    (hm : (slotM (envOf t) d s).msc ≠ 0) : mcObj (envOf t) d k s ∈ (toDump t).objs := by
  apply memSlot_mem t d k s hd hk hs
  rw [memSlot_eq, if_pos hm]; simp

theorem lookup_mc (t : Topo) (d k s : Nat) (hd : d ≤ (mkTab t).D) (hk : k < nOf (mkTab t) d) (hs : s < memLen (mkTab t) d)
    (hm : (slotM (envOf t) d s).msc ≠ 0) : (toDump t).obj? (memId (mkTab t) d k s : Int) = some (mcObj (envOf t) d k s) :=
  lookup_of_mem t _ (mcObj_mem t d k s hd hk hs hm)

theorem lookup_numa (t : Topo) (d k s : Nat) (hd : d ≤ (mkTab t).D) (hk : k < nOf (mkTab t) d) (hs : s < memLen (mkTab t) d) :
    (toDump t).obj? (numaId (mkTab t) d k s : Int) = some (numaObj (envOf t) d k s) :=
  lookup_of_mem t _ (numaObj_mem t d k s hd hk hs)

/-- type of the normal object of depth `d` -/
def ntype (t : Topo) (d : Nat) : Nat := if d = 0 then tMACHINE else (lvl t (d - 1)).type

theorem normalObj_type (t : Topo) (d k : Nat) : (normalObj (envOf t) d k).type = ntype t d := by
  unfold ntype
  by_cases h : d = 0
  · subst h; rfl
  · simp only [normalObj, h, if_false]; rfl

theorem ntype_normal (t : Topo) (h : OK t) (d : Nat) (hd : d ≤ (mkTab t).D) : isNormal (ntype t d) = true := by
  unfold ntype
  split
  · rfl
  · exact (h.norm (d - 1) (by rw [mkTab_D] at hd; omega)).1

theorem ntype_pu (t : Topo) (h : OK t) (d : Nat) (hd : d ≤ (mkTab t).D) : ntype t d = tPU ↔ d = (mkTab t).D := by
  unfold ntype
  rw [mkTab_D] at *
  split
  · rename_i h0; subst h0
    constructor
    · intro hh; exact absurd hh (by decide)
    · intro hh; have := h.ne; omega
  · have := h.pu (d - 1) (by omega)
    rw [this]; omega

theorem ntype_machine (t : Topo) (h : OK t) (d : Nat) (hd : d ≤ (mkTab t).D) : ntype t d = tMACHINE ↔ d = 0 := by
  unfold ntype
  split
  · rename_i h0; simp [h0]
  · rename_i h0
    have := (h.norm (d - 1) (by rw [mkTab_D] at hd; omega)).2
    simp [this, h0]

/-! ### WF clauses, one lemma each (the statement is the clause body of `Hw.Topo.objClauses`, applied) -/

theorem normal_facts : ∀ x, x < 14 → x ≠ tNUMA ∧ x ≠ tMEMCACHE ∧ isMemory x = false ∧ isIO x = false ∧ isMisc x = false ∧
    isSpecial x = false ∧ x < tMAX ∧ (defaultFilters[x]?).getD 0 ≠ 1 ∧ specialDepth x = none := by decide

theorem isNormal_lt (x : Nat) (h : isNormal x = true) : x < 14 := by
  unfold isNormal tGROUP at h; simp only [decide_eq_true_eq] at h; omega

theorem subset_self (a : Nat) : subset a a = true := by
  unfold subset; simp

theorem normalObj_arity (E : DEnv) (d k : Nat) : (normalObj E d k).arity = arOf E.T d := rfl
theorem normalObj_marity (E : DEnv) (d k : Nat) : (normalObj E d k).marity = memLen E.T d := rfl
theorem normalObj_id (E : DEnv) (d k : Nat) : (normalObj E d k).id = nid E.T d k := rfl
theorem normalObj_depth (E : DEnv) (d k : Nat) : (normalObj E d k).depth = (d : Int) := rfl

theorem memLen_last (t : Topo) (h : OK t) : memLen (mkTab t) (mkTab t).D = 0 := by
  unfold memLen
  rw [memOf_tab, mkTab_D, if_neg (by have := h.ne; omega)]
  have := h.puMem
  unfold lvl at this
  have hlt : t.levels.length - 1 < t.levels.length := by have := h.ne; omega
  rw [List.getElem?_eq_getElem hlt] at this ⊢
  simp only [Option.getD_some] at this
  simp [this]

set_option linter.unusedSectionVars false
set_option linter.unusedSimpArgs false
section
variable (t : Topo) (h : OK t)
include h

theorem cl_type_in_range (o : Obj) (ho : o ∈ (toDump t).objs) :
    (fun (_ : Dump) (_ : Aux) (o : Obj) => decide (o.type < tMAX)) (toDump t) (mkAux (toDump t)) o = true := by
  simp only [decide_eq_true_eq]
  cases objs_kind t o ho with
  | normal d k hd hk e =>
    rw [e, normalObj_type]
    exact (normal_facts _ (isNormal_lt _ (ntype_normal t h d hd))).2.2.2.2.2.2.1
  | numa d k s hd hk hs e => rw [e]; show tNUMA < tMAX; decide
  | mc d k s hd hk hs hm e => rw [e]; show tMEMCACHE < tMAX; decide

theorem cl_not_filtered (o : Obj) (ho : o ∈ (toDump t).objs) :
    (fun (d : Dump) (_ : Aux) (o : Obj) => (d.filters[o.type]?).getD 0 != 1) (toDump t) (mkAux (toDump t)) o = true := by
  simp only [bne_iff_ne, ne_eq]
  show ¬ (defaultFilters[o.type]?).getD 0 = 1
  cases objs_kind t o ho with
  | normal d k hd hk e =>
    rw [e, normalObj_type]
    exact (normal_facts _ (isNormal_lt _ (ntype_normal t h d hd))).2.2.2.2.2.2.2.1
  | numa d k s hd hk hs e => rw [e]; show ¬ (defaultFilters[tNUMA]?).getD 0 = 1; decide
  | mc d k s hd hk hs hm e => rw [e]; show ¬ (defaultFilters[tMEMCACHE]?).getD 0 = 1; decide

theorem cl_no_children_forbidden (o : Obj) (ho : o ∈ (toDump t).objs) :
    (fun (_ : Dump) (_ : Aux) (o : Obj) =>
      (if o.type == tPU then o.arity == 0 && o.marity == 0 else true) &&
      (if o.type == tNUMA then o.arity == 0 && o.marity == 0 else true) &&
      (if isMemory o.type then o.arity == 0 && o.ioarity == 0 else true) &&
      (if isIO o.type then o.arity == 0 && o.marity == 0 else true) &&
      (if isMisc o.type then o.arity == 0 && o.marity == 0 && o.ioarity == 0 else true)) (toDump t) (mkAux (toDump t)) o = true := by
  cases objs_kind t o ho with
  | normal d k hd hk e =>
    have hf := normal_facts _ (isNormal_lt _ (ntype_normal t h d hd))
    have hty := normalObj_type t d k
    simp only [e, hty, hf.2.2.1, hf.2.2.2.1, hf.2.2.2.2.1, beq_iff_eq, hf.1, if_false, Bool.and_true, Bool.false_eq_true]
    split
    · rename_i hpu
      have hD := (ntype_pu t h d hd).1 hpu
      rw [normalObj_arity, normalObj_marity, envOf_T, hD, mkTab_ar_last, memLen_last t h]; rfl
    · rfl
  | numa d k s hd hk hs e => rw [e]; rfl
  | mc d k s hd hk hs hm e => rw [e]; rfl

theorem cl_depth_by_type (o : Obj) (ho : o ∈ (toDump t).objs) :
    (fun (d : Dump) (_ : Aux) (o : Obj) => match specialDepth o.type with
      | some sd => o.depth == sd
      | none => decide (0 ≤ o.depth) && decide (o.depth.toNat < d.depth)) (toDump t) (mkAux (toDump t)) o = true := by
  cases objs_kind t o ho with
  | normal d k hd hk e =>
    have hf := normal_facts _ (isNormal_lt _ (ntype_normal t h d hd))
    have hty := normalObj_type t d k
    simp only [e, hty, hf.2.2.2.2.2.2.2.2, normalObj_depth]
    have : (toDump t).depth = (mkTab t).D + 1 := rfl
    rw [this]
    simp only [Bool.and_eq_true, decide_eq_true_eq]
    omega
  | numa d k s hd hk hs e => rw [e]; rfl
  | mc d k s hd hk hs hm e => rw [e]; rfl

theorem cl_sets_presence (o : Obj) (ho : o ∈ (toDump t).objs) :
    (fun (_ : Dump) (_ : Aux) (o : Obj) =>
      if isSpecial o.type then o.cpuset.isNone && o.ccpuset.isNone && o.nodeset.isNone && o.cnodeset.isNone
      else o.cpuset.isSome && o.ccpuset.isSome && o.nodeset.isSome && o.cnodeset.isSome) (toDump t) (mkAux (toDump t)) o = true := by
  cases objs_kind t o ho with
  | normal d k hd hk e =>
    have hf := normal_facts _ (isNormal_lt _ (ntype_normal t h d hd))
    have hty := normalObj_type t d k
    simp only [e, hty, hf.2.2.2.2.2.1]
    rfl
  | numa d k s hd hk hs e => rw [e]; rfl
  | mc d k s hd hk hs hm e => rw [e]; rfl

theorem cl_set_in_complete (o : Obj) (ho : o ∈ (toDump t).objs) :
    (fun (_ : Dump) (_ : Aux) (o : Obj) => subset (o.cpuset.getD 0) (o.ccpuset.getD 0) && subset (o.nodeset.getD 0) (o.cnodeset.getD 0))
      (toDump t) (mkAux (toDump t)) o = true := by
  cases objs_kind t o ho with
  | normal d k hd hk e => rw [e]; simp only [normalObj, Option.getD_some, subset_self, Bool.and_self]
  | numa d k s hd hk hs e => rw [e]; simp only [numaObj, Option.getD_some, subset_self, Bool.and_self]
  | mc d k s hd hk hs hm e => rw [e]; simp only [mcObj, Option.getD_some, subset_self, Bool.and_self]

end

theorem normalObj_attrs (t : Topo) (d k : Nat) (hd : d ≠ 0) : (normalObj (envOf t) d k).attrs =
    if isCacheT (lvl t (d - 1)).type then [((lvl t (d - 1)).size : Int), ((lvl t (d - 1)).cdepth : Int), 64, 0, (lvl t (d - 1)).ctype, 0]
    else if (lvl t (d - 1)).type = tGROUP then
      [(((envOf t).groupNo[d]?.getD 0 : Nat) : Int), (if (lvl t (d - 1)).memGroup then 1001 else 10),
       (if (lvl t (d - 1)).memGroup then 0 else ((lvl t (d - 1)).gsub : Int)), 0, 0, 0]
    else [0, 0, 0, 0, 0, 0] := by
  simp only [normalObj, hd, if_false]; rfl

theorem normalObj_osidx (t : Topo) (d k : Nat) (hd : d ≠ 0) :
    (normalObj (envOf t) d k).osidx = (lvl t (d - 1)).osIdx[k]?.getD 0 := by
  simp only [normalObj, hd, if_false]; rfl

theorem normalObj_cpuset (E : DEnv) (d k : Nat) : (normalObj E d k).cpuset = some (cpusetOf E d k) := rfl
theorem normalObj_ccpuset (E : DEnv) (d k : Nat) : (normalObj E d k).ccpuset = some (cpusetOf E d k) := rfl
theorem normalObj_nodeset (E : DEnv) (d k : Nat) : (normalObj E d k).nodeset = some (nodesetOf E d k) := rfl

theorem cpusetOf_last (t : Topo) (h : OK t) (k : Nat) :
    cpusetOf (envOf t) (mkTab t).D k = single (t.puIdx[k]?.getD 0) := by
  unfold cpusetOf
  have hp := nOf_pos t h (mkTab t).D (Nat.le_refl _)
  have : (mkTab t).n[(mkTab t).D]?.getD 1 / (mkTab t).n[(mkTab t).D]?.getD 1 = 1 := Nat.div_self hp
  simp only [envOf_T, this]
  simp [orBits, single, envOf_t]

section
variable (t : Topo) (h : OK t)
include h

theorem cl_pu_cpuset (o : Obj) (ho : o ∈ (toDump t).objs) :
    (fun (_ : Dump) (_ : Aux) (o : Obj) => if o.type == tPU then
      decide (0 ≤ o.osidx) && o.cpuset == some (single o.osidx.toNat) && o.ccpuset == some (single o.osidx.toNat) else true)
      (toDump t) (mkAux (toDump t)) o = true := by
  cases objs_kind t o ho with
  | normal d k hd hk e =>
    simp only [e, normalObj_type, beq_iff_eq]
    split
    · rename_i hpu
      have hD := (ntype_pu t h d hd).1 hpu
      have hd0 : d ≠ 0 := by rw [hD, mkTab_D]; have := h.ne; omega
      have hos : (normalObj (envOf t) d k).osidx = ((t.puIdx[k]?.getD 0 : Nat) : Int) := by
        rw [normalObj_osidx t d k hd0, hD, mkTab_D, h.puOs]
        simp only [List.getElem?_map]
        cases t.puIdx[k]? <;> rfl
      rw [hos, normalObj_cpuset, normalObj_ccpuset, hD, cpusetOf_last t h]
      simp
    · rfl
  | numa d k s hd hk hs e => rw [e]; rfl
  | mc d k s hd hk hs hm e => rw [e]; rfl

theorem cl_numa_nodeset (o : Obj) (ho : o ∈ (toDump t).objs) :
    (fun (_ : Dump) (_ : Aux) (o : Obj) => if o.type == tNUMA then
      decide (0 ≤ o.osidx) && o.nodeset == some (single o.osidx.toNat) && o.cnodeset == some (single o.osidx.toNat) else true)
      (toDump t) (mkAux (toDump t)) o = true := by
  cases objs_kind t o ho with
  | normal d k hd hk e =>
    have hf := normal_facts _ (isNormal_lt _ (ntype_normal t h d hd))
    simp only [e, normalObj_type, beq_iff_eq, hf.1, if_false]
  | numa d k s hd hk hs e =>
    rw [e]
    simp [numaObj, single, tNUMA]
  | mc d k s hd hk hs hm e => rw [e]; rfl

omit h in
theorem cache_is (x : Nat) : (isDCache x = true → isCacheT x = true) ∧ (isICache x = true → isCacheT x = true) := by
  unfold isDCache isICache isCacheT tL1 tL5 tL1I tL3I
  simp only [Bool.and_eq_true, decide_eq_true_eq]
  omega

theorem cl_cache_attrs (o : Obj) (ho : o ∈ (toDump t).objs) :
    (fun (_ : Dump) (_ : Aux) (o : Obj) =>
      let depth := (o.attrs[1]?).getD 0
      let ctype := (o.attrs[4]?).getD 0
      if isDCache o.type then (ctype == 0 || ctype == 1) && depth == ((o.type - tL1 + 1 : Nat) : Int)
      else if isICache o.type then ctype == 2 && depth == ((o.type - tL1I + 1 : Nat) : Int)
      else true) (toDump t) (mkAux (toDump t)) o = true := by
  cases objs_kind t o ho with
  | normal d k hd hk e =>
    by_cases hd0 : d = 0
    · subst hd0; rw [e]; rfl
    · have hj : d - 1 < t.levels.length := by rw [mkTab_D] at hd; omega
      have hc := h.cache (d - 1) hj
      have hty : ntype t d = (lvl t (d - 1)).type := by unfold ntype; rw [if_neg hd0]
      simp only [e, normalObj_type, normalObj_attrs t d k hd0, hty]
      by_cases h1 : isDCache (lvl t (d - 1)).type = true
      · have := hc.1 h1
        simp only [h1, if_true, (cache_is _).1 h1, List.getElem?_cons_succ, List.getElem?_cons_zero, Option.getD_some, this.2]
        rcases this.1 with h2 | h2 <;> simp [h2]
      · by_cases h2 : isICache (lvl t (d - 1)).type = true
        · have := hc.2 h2
          simp only [h1, h2, if_true, (cache_is _).2 h2, List.getElem?_cons_succ, List.getElem?_cons_zero, Option.getD_some, this.2, this.1]
          simp
        · simp only [h1, h2, if_false]
          simp
  | numa d k s hd hk hs e => rw [e]; rfl
  | mc d k s hd hk hs hm e => rw [e]; rfl

omit h in
theorem groupNo_le (t : Topo) (d : Nat) : (envOf t).groupNo[d]?.getD 0 ≤ (mkTab t).D := by
  show ((List.range ((mkTab t).D + 1)).map (fun d => (((mkTab t).types.take d).filter (· == tGROUP)).length))[d]?.getD 0 ≤ _
  by_cases hd : d < (mkTab t).D + 1
  · simp only [List.getElem?_map, List.getElem?_range hd, Option.map_some, Option.getD_some]
    refine Nat.le_trans (List.length_filter_le _ _) ?_
    rw [List.length_take]; omega
  · rw [List.getElem?_eq_none (by simpa using hd)]; simp

theorem cl_group_depth (o : Obj) (ho : o ∈ (toDump t).objs) :
    (fun (_ : Dump) (_ : Aux) (o : Obj) => if o.type == tGROUP then (o.attrs[0]?).getD 0 != 4294967295 else true)
      (toDump t) (mkAux (toDump t)) o = true := by
  cases objs_kind t o ho with
  | normal d k hd hk e =>
    by_cases hd0 : d = 0
    · subst hd0; rw [e]; rfl
    · have hty : ntype t d = (lvl t (d - 1)).type := by unfold ntype; rw [if_neg hd0]
      simp only [e, normalObj_type, normalObj_attrs t d k hd0, hty, beq_iff_eq]
      split
      · rename_i hg
        have hnc : isCacheT tGROUP = false := rfl
        simp only [hnc, Bool.false_eq_true, if_false, hg, if_true, List.getElem?_cons_zero, Option.getD_some, bne_iff_ne, ne_eq]
        have h1 := groupNo_le t d
        have h2 := h.short
        rw [mkTab_D] at h1
        omega
      · rfl
  | numa d k s hd hk hs e => rw [e]; rfl
  | mc d k s hd hk hs hm e => rw [e]; rfl

end

/-! ### parents -/

theorem ar_getD1 (t : Topo) (d : Nat) (hd : d < (mkTab t).D) : (mkTab t).ar[d]?.getD 1 = arOf (mkTab t) d := by
  unfold arOf
  have hl : d < (mkTab t).ar.length := by
    show d < (t.levels.map NLevel.arity ++ [0]).length
    rw [mkTab_D] at hd; simp; omega
  rw [List.getElem?_eq_getElem hl]; rfl

theorem nid_succ (T : DTab) (d k : Nat) :
    nid T (d + 1) k = nid T d (k / (T.ar[d]?.getD 1)) + 1 + (k % (T.ar[d]?.getD 1)) * (T.sz[d + 1]?.getD 0) := rfl

theorem div_lt_parent (t : Topo) (d k : Nat) (hd : d < (mkTab t).D) (hk : k < nOf (mkTab t) (d + 1)) :
    0 < arOf (mkTab t) d ∧ k / arOf (mkTab t) d < nOf (mkTab t) d := by
  rw [nOf_succ t d hd] at hk
  have ha : 0 < arOf (mkTab t) d := by
    rcases Nat.eq_zero_or_pos (arOf (mkTab t) d) with h0 | h0
    · rw [h0] at hk; omega
    · exact h0
  exact ⟨ha, by rw [Nat.div_lt_iff_lt_mul ha]; exact hk⟩

theorem normalObj_parent (t : Topo) (d k : Nat) (hd : d < (mkTab t).D) :
    (normalObj (envOf t) (d + 1) k).parent = (nid (mkTab t) d (k / arOf (mkTab t) d) : Int) ∧
    (normalObj (envOf t) (d + 1) k).rank = k % arOf (mkTab t) d := by
  have h1 := ar_getD1 t d hd
  constructor
  · show (if d + 1 = 0 then (-1 : Int) else (nid (mkTab t) (d + 1 - 1) (k / (if d + 1 = 0 then 1 else (mkTab t).ar[d + 1 - 1]?.getD 1)) : Int)) = _
    simp only [Nat.add_one_ne_zero, if_false, Nat.add_sub_cancel, h1]
  · show (if d + 1 = 0 then 0 else k % (if d + 1 = 0 then 1 else (mkTab t).ar[d + 1 - 1]?.getD 1)) = _
    simp only [Nat.add_one_ne_zero, if_false, Nat.add_sub_cancel, h1]

theorem lookup_parent_normal (t : Topo) (d k : Nat) (hd : d < (mkTab t).D) (hk : k < nOf (mkTab t) (d + 1)) :
    (toDump t).obj? (normalObj (envOf t) (d + 1) k).parent = some (normalObj (envOf t) d (k / arOf (mkTab t) d)) := by
  rw [(normalObj_parent t d k hd).1]
  exact lookup_normal t d _ (Nat.le_of_lt hd) (div_lt_parent t d k hd hk).2

theorem lookup_parent_root (t : Topo) (k : Nat) : (toDump t).obj? (normalObj (envOf t) 0 k).parent = none := rfl

theorem slotM_eq (t : Topo) (d s : Nat) : ((mkTab t).mem[d]?.getD [])[s]?.getD ⟨0, 0⟩ = slotM (envOf t) d s := rfl

theorem numaObj_parent (t : Topo) (d k s : Nat) :
    (numaObj (envOf t) d k s).parent = if (slotM (envOf t) d s).msc ≠ 0 then (memId (mkTab t) d k s : Int) else (nid (mkTab t) d k : Int) := rfl

theorem lookup_parent_numa (t : Topo) (d k s : Nat) (hd : d ≤ (mkTab t).D) (hk : k < nOf (mkTab t) d) (hs : s < memLen (mkTab t) d) :
    (toDump t).obj? (numaObj (envOf t) d k s).parent =
      some (if (slotM (envOf t) d s).msc ≠ 0 then mcObj (envOf t) d k s else normalObj (envOf t) d k) := by
  rw [numaObj_parent]
  split
  · rename_i hm; exact lookup_mc t d k s hd hk hs hm
  · exact lookup_normal t d k hd hk

theorem lookup_parent_mc (t : Topo) (d k s : Nat) (hd : d ≤ (mkTab t).D) (hk : k < nOf (mkTab t) d) :
    (toDump t).obj? (mcObj (envOf t) d k s).parent = some (normalObj (envOf t) d k) :=
  lookup_normal t d k hd hk

theorem idOk_of_lookup (d : Dump) (i : Nat) (x : Obj) (h : d.obj? (i : Int) = some x) : idOk d (i : Int) = true := by
  unfold Dump.obj? at h
  rw [if_neg (by omega)] at h
  have : i < d.objs.length := by
    rcases Nat.lt_or_ge i d.objs.length with h1 | h1
    · exact h1
    · simp only [Int.toNat_natCast] at h
      rw [List.getElem?_eq_none h1] at h; cases h
  unfold idOk
  simp only [Int.toNat_natCast, this, decide_true, Bool.and_true, Bool.or_eq_true, decide_eq_true_eq]
  right; omega

theorem memId_gt (T : DTab) (d k s : Nat) : nid T d k < memId T d k s := by unfold memId; omega
theorem numaId_ge (T : DTab) (d k s : Nat) : memId T d k s ≤ numaId T d k s := by unfold numaId; omega

section
variable (t : Topo) (h : OK t)
include h

theorem cl_root_or_parent (o : Obj) (ho : o ∈ (toDump t).objs) :
    (fun (d : Dump) (_ : Aux) (o : Obj) =>
      if o.id == 0 then o.parent == -1 else decide (0 ≤ o.parent) && idOk d o.parent && o.parent != (o.id : Int))
      (toDump t) (mkAux (toDump t)) o = true := by
  cases objs_kind t o ho with
  | normal d k hd hk e =>
    cases d with
    | zero => rw [e]; rfl
    | succ d =>
      have hd' : d < (mkTab t).D := hd
      have hl := lookup_parent_normal t d k hd' hk
      have hp := (normalObj_parent t d k hd').1
      have hid : (normalObj (envOf t) (d + 1) k).id = nid (mkTab t) (d + 1) k := rfl
      rw [hp] at hl
      have hok := idOk_of_lookup _ _ _ hl
      have hlt : nid (mkTab t) d (k / arOf (mkTab t) d) < nid (mkTab t) (d + 1) k := by
        rw [nid_succ, ar_getD1 t d hd']; omega
      simp only [e, hp, hid, hok, beq_iff_eq, bne_iff_ne, ne_eq, Bool.and_eq_true, decide_eq_true_eq, Bool.and_true]
      rw [if_neg (by omega)]
      simp only [bne_iff_ne, ne_eq, Bool.and_eq_true, decide_eq_true_eq]
      omega
  | numa d k s hd hk hs e =>
    have hl := lookup_parent_numa t d k s hd hk hs
    have hid : (numaObj (envOf t) d k s).id = numaId (mkTab t) d k s := rfl
    have h1 := memId_gt (mkTab t) d k s
    have h2 := numaId_ge (mkTab t) d k s
    rw [numaObj_parent] at hl
    simp only [e, hid, numaObj_parent, beq_iff_eq]
    rw [if_neg (by omega)]
    by_cases hm : (slotM (envOf t) d s).msc ≠ 0
    · rw [if_pos hm] at hl ⊢
      have hok := idOk_of_lookup _ _ _ hl
      have h3 : numaId (mkTab t) d k s = memId (mkTab t) d k s + 1 := by
        unfold numaId; rw [slotM_eq, if_pos hm]
      simp only [hok, bne_iff_ne, ne_eq, Bool.and_eq_true, decide_eq_true_eq, Bool.and_true, and_true]
      omega
    · rw [if_neg hm] at hl ⊢
      have hok := idOk_of_lookup _ _ _ hl
      simp only [hok, bne_iff_ne, ne_eq, Bool.and_eq_true, decide_eq_true_eq, Bool.and_true, and_true]
      omega
  | mc d k s hd hk hs hm e =>
    have hl := lookup_parent_mc t d k s hd hk
    have hid : (mcObj (envOf t) d k s).id = memId (mkTab t) d k s := rfl
    have hp : (mcObj (envOf t) d k s).parent = (nid (mkTab t) d k : Int) := rfl
    have h1 := memId_gt (mkTab t) d k s
    rw [hp] at hl
    have hok := idOk_of_lookup _ _ _ hl
    simp only [e, hid, hp, hok, beq_iff_eq, bne_iff_ne, ne_eq, Bool.and_eq_true, decide_eq_true_eq, Bool.and_true]
    rw [if_neg (by omega)]
    simp only [bne_iff_ne, ne_eq, Bool.and_eq_true, decide_eq_true_eq]
    omega

theorem cl_parent_kind (o : Obj) (ho : o ∈ (toDump t).objs) :
    (fun (d : Dump) (_ : Aux) (o : Obj) => match d.obj? o.parent with
      | none => o.id == 0
      | some p =>
        if isNormal o.type then isNormal p.type
        else if isMemory o.type then (isNormal p.type || p.type == tMEMCACHE)
        else if isIO o.type then (isNormal p.type || isIO p.type)
        else true) (toDump t) (mkAux (toDump t)) o = true := by
  cases objs_kind t o ho with
  | normal d k hd hk e =>
    cases d with
    | zero => rw [e]; rfl
    | succ d =>
      have hd' : d < (mkTab t).D := hd
      simp only [e, lookup_parent_normal t d k hd' hk, normalObj_type, ntype_normal t h (d + 1) hd,
        ntype_normal t h d (Nat.le_of_lt hd'), if_true]
  | numa d k s hd hk hs e =>
    simp only [e, lookup_parent_numa t d k s hd hk hs]
    by_cases hm : (slotM (envOf t) d s).msc ≠ 0
    · rw [if_pos hm]; rfl
    · rw [if_neg hm]
      show (isNormal (normalObj (envOf t) d k).type || (normalObj (envOf t) d k).type == tMEMCACHE) = true
      rw [normalObj_type, ntype_normal t h d hd]; rfl
  | mc d k s hd hk hs hm e =>
    simp only [e, lookup_parent_mc t d k s hd hk]
    show (isNormal (normalObj (envOf t) d k).type || (normalObj (envOf t) d k).type == tMEMCACHE) = true
    rw [normalObj_type, ntype_normal t h d hd]; rfl

theorem cl_depth_increases (o : Obj) (ho : o ∈ (toDump t).objs) :
    (fun (d : Dump) (_ : Aux) (o : Obj) => match d.obj? o.parent with
      | none => true
      | some p => if isNormal o.type then decide (p.depth < o.depth) else true) (toDump t) (mkAux (toDump t)) o = true := by
  cases objs_kind t o ho with
  | normal d k hd hk e =>
    cases d with
    | zero => rw [e]; rfl
    | succ d =>
      have hd' : d < (mkTab t).D := hd
      simp only [e, lookup_parent_normal t d k hd' hk, normalObj_type, ntype_normal t h (d + 1) hd, if_true, normalObj_depth,
        decide_eq_true_eq]
      omega
  | numa d k s hd hk hs e =>
    simp only [e, lookup_parent_numa t d k s hd hk hs]; rfl
  | mc d k s hd hk hs hm e =>
    simp only [e, lookup_parent_mc t d k s hd hk]; rfl

theorem cl_memory_child_cpuset (o : Obj) (ho : o ∈ (toDump t).objs) :
    (fun (d : Dump) (_ : Aux) (o : Obj) => match d.obj? o.parent with
      | none => true
      | some p => if isMemory o.type then o.cpuset == p.cpuset else true) (toDump t) (mkAux (toDump t)) o = true := by
  cases objs_kind t o ho with
  | normal d k hd hk e =>
    cases d with
    | zero => rw [e]; rfl
    | succ d =>
      have hd' : d < (mkTab t).D := hd
      have hf := normal_facts _ (isNormal_lt _ (ntype_normal t h (d + 1) hd))
      simp only [e, lookup_parent_normal t d k hd' hk, normalObj_type, hf.2.2.1, Bool.false_eq_true, if_false]
  | numa d k s hd hk hs e =>
    simp only [e, lookup_parent_numa t d k s hd hk hs]
    by_cases hm : (slotM (envOf t) d s).msc ≠ 0
    · rw [if_pos hm]; simp [numaObj, mcObj, isMemory, tNUMA]
    · rw [if_neg hm]; simp [numaObj, normalObj, isMemory, tNUMA]
  | mc d k s hd hk hs hm e =>
    simp only [e, lookup_parent_mc t d k s hd hk]
    simp [mcObj, normalObj, isMemory, tNUMA, tMEMCACHE]

theorem cl_normal_child_slot (o : Obj) (ho : o ∈ (toDump t).objs) :
    (fun (d : Dump) (_ : Aux) (o : Obj) => match d.obj? o.parent with
      | none => true
      | some p => if isNormal o.type then (p.children[o.rank]?) == some (o.id : Int) else true) (toDump t) (mkAux (toDump t)) o = true := by
  cases objs_kind t o ho with
  | normal d k hd hk e =>
    cases d with
    | zero => rw [e]; rfl
    | succ d =>
      have hd' : d < (mkTab t).D := hd
      have ⟨ha, _⟩ := div_lt_parent t d k hd' hk
      have hr : k % arOf (mkTab t) d < arOf (mkTab t) d := Nat.mod_lt _ ha
      have hkk : k / arOf (mkTab t) d * arOf (mkTab t) d + k % arOf (mkTab t) d = k := by
        rw [Nat.mul_comm]; exact Nat.div_add_mod k _
      have hch : (normalObj (envOf t) d (k / arOf (mkTab t) d)).children =
          (List.range (arOf (mkTab t) d)).map (fun r => (nid (mkTab t) (d + 1) (k / arOf (mkTab t) d * arOf (mkTab t) d + r) : Int)) := rfl
      simp only [e, lookup_parent_normal t d k hd' hk, normalObj_type, ntype_normal t h (d + 1) hd, if_true,
        (normalObj_parent t d k hd').2, hch, List.getElem?_map, List.getElem?_range hr, Option.map_some, hkk, normalObj_id, envOf_T]
      simp
  | numa d k s hd hk hs e =>
    simp only [e, lookup_parent_numa t d k s hd hk hs]; rfl
  | mc d k s hd hk hs hm e =>
    simp only [e, lookup_parent_mc t d k s hd hk]; rfl

end

/-! ### levels -/

def normalLevel (t : Topo) (d : Nat) : Topo.Level :=
  ⟨(d : Int), (((mkTab t).types[d]?.getD 0 : Nat) : Int), (List.range ((mkTab t).n[d]?.getD 0)).map (fun k => (nid (mkTab t) d k : Int))⟩

def specialLevels (t : Topo) : List Topo.Level :=
  [⟨-3, 14, (envOf t).numaL⟩, ⟨-4, 16, []⟩, ⟨-5, 17, []⟩, ⟨-6, 18, []⟩, ⟨-7, 19, []⟩, ⟨-8, 15, (envOf t).mcL⟩]

theorem toDump_levels (t : Topo) :
    (toDump t).levels = (List.range ((mkTab t).D + 1)).map (normalLevel t) ++ specialLevels t := rfl

theorem toDump_depth (t : Topo) : (toDump t).depth = (mkTab t).D + 1 := rfl

theorem find?_map_range {α : Type} (f : Nat → α) (p : α → Bool) (e : Nat) (hp : p (f e) = true) (hn : ∀ i, i < e → p (f i) = false) :
    ∀ m, e < m → ((List.range m).map f).find? p = some (f e) := by
  intro m
  induction m with
  | zero => intro h; omega
  | succ m ih =>
    intro h
    rw [List.range_succ, List.map_append, List.find?_append]
    by_cases hem : e < m
    · rw [ih hem]; rfl
    · have : e = m := by omega
      subst this
      have : ((List.range e).map f).find? p = none := by
        rw [List.find?_eq_none]
        intro x hx
        obtain ⟨i, hi, rfl⟩ := List.mem_map.1 hx
        rw [hn i (List.mem_range.1 hi)]; simp
      rw [this]
      simp [hp]

theorem levelOf_normal (t : Topo) (e : Nat) (he : e ≤ (mkTab t).D) : levelOf (toDump t) (e : Int) = some (normalLevel t e) := by
  unfold levelOf
  rw [toDump_levels, List.find?_append]
  rw [find?_map_range (normalLevel t) _ e (by simp [normalLevel]) (by intro i hi; simp [normalLevel]; omega) _ (Nat.lt_succ_of_le he)]
  rfl

theorem levelOf_special (t : Topo) (sd : Int) (hsd : sd < 0) :
    levelOf (toDump t) sd = (specialLevels t).find? (fun l => l.depth == sd) := by
  unfold levelOf
  rw [toDump_levels, List.find?_append]
  have : ((List.range ((mkTab t).D + 1)).map (normalLevel t)).find? (fun l => l.depth == sd) = none := by
    rw [List.find?_eq_none]
    intro x hx
    obtain ⟨i, _, rfl⟩ := List.mem_map.1 hx
    simp [normalLevel]; omega
  rw [this]; rfl

theorem types_get (t : Topo) (d : Nat) (hd : d ≤ (mkTab t).D) : (mkTab t).types[d]?.getD 0 = ntype t d := by
  show (tMACHINE :: t.levels.map NLevel.type)[d]?.getD 0 = _
  unfold ntype
  cases d with
  | zero => rfl
  | succ d =>
    rw [mkTab_D] at hd
    have hlt : d < t.levels.length := hd
    simp [lvl, List.getElem?_eq_getElem hlt]

section
variable (t : Topo) (h : OK t)
include h

theorem tc_nobjs : (fun (d : Dump) (_ : Aux) => d.objs.length == d.nobjs && decide (0 < d.nobjs)) (toDump t) (mkAux (toDump t)) = true := by
  have := toDump_root t
  simp only [this.2.2.1, this.2.1, beq_self_eq_true, decide_true, Bool.and_self]

theorem tc_root_is_machine : (fun (d : Dump) (_ : Aux) => d.root == 0 && (match d.objs[0]? with
      | some r => r.type == tMACHINE && r.depth == 0 && r.parent == -1
      | none => false)) (toDump t) (mkAux (toDump t)) = true := by
  obtain ⟨h1, _, _, r, hr, h2, h3, h4, _⟩ := toDump_root t
  simp only [h1, hr, h2, h3, h4, beq_self_eq_true, Bool.and_self]

theorem tc_machine_only_at_root : (fun (d : Dump) (_ : Aux) => d.objs.all (fun o => o.type != tMACHINE || o.id == 0))
    (toDump t) (mkAux (toDump t)) = true := by
  simp only [List.all_eq_true, Bool.or_eq_true, bne_iff_ne, ne_eq, beq_iff_eq]
  intro o ho
  cases objs_kind t o ho with
  | normal d k hd hk e =>
    rw [e, normalObj_type]
    by_cases hm : ntype t d = tMACHINE
    · right
      have := (ntype_machine t h d hd).1 hm
      subst this; rfl
    · left; exact hm
  | numa d k s hd hk hs e => left; rw [e]; show ¬ tNUMA = tMACHINE; decide
  | mc d k s hd hk hs hm e => left; rw [e]; show ¬ tMEMCACHE = tMACHINE; decide

theorem tc_level0 : (fun (d : Dump) (_ : Aux) => match levelOf d 0 with
      | some l => l.objs == [0] && l.type == (tMACHINE : Int)
      | none => false) (toDump t) (mkAux (toDump t)) = true := by
  have := levelOf_normal t 0 (Nat.zero_le _)
  simp only [Int.natCast_zero] at this
  simp only [this, normalLevel]
  rw [n_getD0 t 0 (Nat.zero_le _), nOf_zero, types_get t 0 (Nat.zero_le _)]
  rfl

theorem tc_pu_level_deepest : (fun (d : Dump) (_ : Aux) => decide (0 < d.depth) && (match levelOf d ((d.depth : Int) - 1) with
      | some l => l.type == (tPU : Int) && !l.objs.isEmpty
      | none => false) &&
      d.objs.all (fun o => o.type != tPU || o.depth == (d.depth : Int) - 1)) (toDump t) (mkAux (toDump t)) = true := by
  have hD : ((toDump t).depth : Int) - 1 = ((mkTab t).D : Int) := by rw [toDump_depth]; omega
  have hl := levelOf_normal t (mkTab t).D (Nat.le_refl _)
  have hty : ntype t (mkTab t).D = tPU := (ntype_pu t h _ (Nat.le_refl _)).2 rfl
  have hn := nOf_pos t h (mkTab t).D (Nat.le_refl _)
  have hpos : 0 < (toDump t).depth := by rw [toDump_depth]; omega
  simp only [hD, hl, normalLevel, n_getD0 t _ (Nat.le_refl _), types_get t _ (Nat.le_refl _), hty, hpos, decide_true,
    Bool.and_eq_true, decide_eq_true_eq, beq_self_eq_true, true_and, List.all_eq_true, Bool.or_eq_true, bne_iff_ne, ne_eq,
    beq_iff_eq, Bool.not_eq_true', List.isEmpty_eq_false_iff]
  refine ⟨?_, ?_⟩
  · intro h0
    have := congrArg List.length h0
    simp at this; omega
  · intro o ho
    cases objs_kind t o ho with
    | normal d k hd hk e =>
      rw [e, normalObj_type, normalObj_depth]
      by_cases hp : ntype t d = tPU
      · right; rw [(ntype_pu t h d hd).1 hp]
      · left; exact hp
    | numa d k s hd hk hs e => left; rw [e]; show ¬ tNUMA = tPU; decide
    | mc d k s hd hk hs hm e => left; rw [e]; show ¬ tMEMCACHE = tPU; decide

theorem tc_levels_listed : (fun (d : Dump) (_ : Aux) =>
      (List.range d.depth).all (fun k => (levelOf d (k : Int)).isSome) &&
      [(-3 : Int), -4, -5, -6, -7, -8].all (fun k => (levelOf d k).isSome) &&
      d.levels.length == d.depth + 6) (toDump t) (mkAux (toDump t)) = true := by
  simp only [Bool.and_eq_true, List.all_eq_true, List.mem_range, beq_iff_eq]
  refine ⟨⟨?_, ?_⟩, (toDump_levels_listed t).1⟩
  · intro k hk
    rw [toDump_depth] at hk
    rw [levelOf_normal t k (by omega)]; rfl
  · intro k hk
    simp only [List.mem_cons, List.not_mem_nil, or_false] at hk
    rcases hk with rfl | rfl | rfl | rfl | rfl | rfl <;> rw [levelOf_special t _ (by decide)] <;> rfl

theorem tc_normal_level_types : (fun (d : Dump) (_ : Aux) => d.levels.all (fun l =>
      if 0 ≤ l.depth then decide (0 ≤ l.type) && isNormal l.type.toNat &&
        (l.type != (tPU : Int) || l.depth == (d.depth : Int) - 1) &&
        (l.type != (tMACHINE : Int) || l.depth == 0)
      else (specialDepth l.type.toNat) == some l.depth && decide (0 ≤ l.type))) (toDump t) (mkAux (toDump t)) = true := by
  simp only [toDump_levels, List.all_append, Bool.and_eq_true]
  constructor
  · simp only [List.all_eq_true, List.mem_map, List.mem_range, forall_exists_index, and_imp, forall_apply_eq_imp_iff₂]
    intro d hd
    have hd' : d ≤ (mkTab t).D := by omega
    simp only [normalLevel, types_get t d hd', toDump_depth]
    rw [if_pos (by omega)]
    simp only [Int.toNat_natCast, ntype_normal t h d hd', Bool.and_eq_true, decide_eq_true_eq, Bool.or_eq_true, bne_iff_ne, ne_eq,
      beq_iff_eq, and_true]
    refine ⟨⟨by omega, ?_⟩, ?_⟩
    · by_cases hp : ntype t d = tPU
      · right; rw [(ntype_pu t h d hd').1 hp]; omega
      · left; intro hh; exact hp (by exact_mod_cast hh)
    · by_cases hp : ntype t d = tMACHINE
      · right; rw [(ntype_machine t h d hd').1 hp]; rfl
      · left; intro hh; exact hp (by exact_mod_cast hh)
  · rfl

theorem tc_allowed_sets : (fun (d : Dump) (_ : Aux) => match d.objs[0]? with
      | some r =>
        d.allowedCpuset.isSome && d.allowedNodeset.isSome &&
        subset (d.allowedCpuset.getD 0) (r.cpuset.getD 0) && subset (d.allowedNodeset.getD 0) (r.nodeset.getD 0) &&
        (flagIncludeDisallowed d || (d.allowedCpuset == r.cpuset && d.allowedNodeset == r.nodeset))
      | none => false) (toDump t) (mkAux (toDump t)) = true := by
  have h0 : (toDump t).objs[0]? = some (normalObj (envOf t) 0 0) := by
    have := lookup_normal t 0 0 (Nat.zero_le _) (by rw [nOf_zero]; exact Nat.one_pos)
    exact this
  have h1 : (toDump t).allowedCpuset = some (cpusetOf (envOf t) 0 0) := rfl
  have h2 : (toDump t).allowedNodeset = some (nodesetOf (envOf t) 0 0) := rfl
  simp only [h0, h1, h2, normalObj_cpuset, normalObj_nodeset, Option.isSome_some, Option.getD_some, subset_self, beq_self_eq_true,
    Bool.and_self, Bool.or_true]

theorem obj_gp_id (o : Obj) (ho : o ∈ (toDump t).objs) : o.gp = o.id := by
  cases objs_kind t o ho with
  | normal d k hd hk e => rw [e]; rfl
  | numa d k s hd hk hs e => rw [e]; rfl
  | mc d k s hd hk hs hm e => rw [e]; rfl

theorem tc_gp_unique : (fun (d : Dump) (_ : Aux) => decide ((d.objs.map (·.gp)).Nodup)) (toDump t) (mkAux (toDump t)) = true := by
  simp only [decide_eq_true_eq]
  have : (toDump t).objs.map (·.gp) = (toDump t).objs.map (·.id) :=
    List.map_congr_left (fun o ho => obj_gp_id t h o ho)
  rw [this, toDump_ids]
  exact List.nodup_range

theorem tc_normal_levels_nonempty : (fun (d : Dump) (_ : Aux) => d.levels.all (fun l => decide (l.depth < 0) || !l.objs.isEmpty))
    (toDump t) (mkAux (toDump t)) = true := by
  simp only [toDump_levels, List.all_append, Bool.and_eq_true]
  constructor
  · simp only [List.all_eq_true, List.mem_map, List.mem_range, forall_exists_index, and_imp, forall_apply_eq_imp_iff₂]
    intro d hd
    have hd' : d ≤ (mkTab t).D := by omega
    have hn := nOf_pos t h d hd'
    simp only [normalLevel, n_getD0 t d hd', Bool.or_eq_true, decide_eq_true_eq, Bool.not_eq_true', List.isEmpty_eq_false_iff]
    right
    intro h0
    have := congrArg List.length h0
    simp at this; omega
  · rfl

theorem sz_ge (d : Nat) : ∀ j, d + j = (mkTab t).D → j + 1 ≤ szOf (mkTab t) d := by
  intro j
  induction j generalizing d with
  | zero => intro hd; rw [mkTab_sz t d (by omega)]; omega
  | succ j ih =>
    intro hd
    have h1 := ih (d + 1) (by omega)
    have hdl : d < t.levels.length := by rw [mkTab_D] at hd; omega
    have ha := h.ar d hdl
    rw [← arOf_lt t d hdl] at ha
    rw [mkTab_sz t d (by omega)]
    have := Nat.mul_le_mul ha h1
    omega

theorem tc_depth_le_objects : (fun (d : Dump) (_ : Aux) => decide (d.depth ≤ d.objs.length)) (toDump t) (mkAux (toDump t)) = true := by
  show decide ((toDump t).depth ≤ (toDump t).objs.length) = true
  rw [decide_eq_true_eq, toDump_depth]
  have h2 : (toDump t).objs.length = szOf (mkTab t) 0 := by
    have := genObjs_ids t (envOf t) rfl ((mkTab t).D + 1) 0 0 (by rw [envOf_T]; omega) (Nat.zero_le _)
    have := congrArg List.length this
    simpa [toDump_objs, envOf_T] using this
  rw [h2]
  exact sz_ge t h 0 (mkTab t).D (by omega)

end

end Hw.Syn
