/-
  Hw.Io.LinuxParseLemmas — safety facts about the Linux file parsers for ARBITRARY inputs:
  hwloc__read_fd stays inside its allocation for every pattern of read() return values; the cpulist
  parser's result is defined exactly when no signed overflow occurs, and is then a finite well-formed
  bitmap; what the empty file yields.  (The specification theorems for well-formed kernel files are in
  LinuxParseList.lean / LinuxParseMask.lean.)
-/
import Hw.Io.LinuxParseList
import Hw.Io.LinuxParseMask
namespace Hw.LinuxParse
open Hw

/-! ### hwloc__read_fd -/

/-- every read() stores inside the current allocation, the final NUL store `buffer[totalread]` too, and
the allocation is `*sizep + 1` -/
def RFRes.Safe : RFRes → Prop
  | .err => True
  | .hang => False
  | .ok filesize total alloc ws => alloc = filesize + 1 ∧ total < alloc ∧ ∀ w ∈ ws, w.1 + w.2.1 ≤ w.2.2

theorem rfLoop_safe : ∀ (fuel : Nat) (rets : List Int) (filesize total : Nat) (ws : List (Nat × Nat × Nat)),
    rets.length < fuel → 0 < filesize → total = filesize + 1 → (∀ w ∈ ws, w.1 + w.2.1 ≤ w.2.2) →
    (rfLoop fuel rets filesize total ws).Safe := by
  intro fuel
  induction fuel with
  | zero => intro rets _ _ _ h; omega
  | succ fuel ih =>
    intro rets filesize total ws hlen hpos htot hws
    unfold rfLoop
    cases rets with
    | nil =>
      simp only [nextRead]
      have hne : ¬ (0 = filesize) := by omega
      simp only [hne, if_false]
      refine ⟨rfl, by omega, ?_⟩
      intro w hw
      rcases List.mem_cons.mp hw with h | h
      · subst h; simp only; omega
      · exact hws w h
    | cons r rs =>
      simp only [nextRead]
      by_cases hr : r < 0
      · simp only [hr, if_true]; trivial
      · simp only [hr, if_false]
        have hmin : min r.toNat filesize ≤ filesize := Nat.min_le_right _ _
        have hws' : ∀ w ∈ (filesize + 1, min r.toNat filesize, 2 * filesize + 1) :: ws, w.1 + w.2.1 ≤ w.2.2 := by
          intro w hw
          rcases List.mem_cons.mp hw with h | h
          · subst h; simp only; omega
          · exact hws w h
        by_cases he : min r.toNat filesize = filesize
        · simp only [he, if_true]
          apply ih
          · simp only [List.length_cons] at hlen; omega
          · omega
          · omega
          · rw [he] at hws'; exact hws'
        · simp only [he, if_false]
          exact ⟨rfl, by omega, hws'⟩

/-- **readfd_bounds**: for every initial size > 0 and every sequence of read() results -/
theorem readFd_safe (size0 : Nat) (h0 : 0 < size0) (rets : List Int) : (readFd size0 rets).Safe := by
  unfold readFd
  cases rets with
  | nil =>
    simp only [nextRead]
    have : (0 : Nat) < size0 + 1 := by omega
    simp only [this, if_true]
    refine ⟨rfl, by omega, ?_⟩
    intro w hw
    rcases List.mem_cons.mp hw with h | h
    · subst h; simp only; omega
    · cases h
  | cons r rs =>
    simp only [nextRead]
    by_cases hr : r < 0
    · simp only [hr, if_true]; trivial
    · simp only [hr, if_false]
      have hmin : min r.toNat (size0 + 1) ≤ size0 + 1 := Nat.min_le_right _ _
      have hws : ∀ w ∈ [(0, min r.toNat (size0 + 1), size0 + 1)], w.1 + w.2.1 ≤ w.2.2 := by
        intro w hw
        rcases List.mem_cons.mp hw with h | h
        · subst h; simp only; omega
        · cases h
      by_cases hlt : min r.toNat (size0 + 1) < size0 + 1
      · simp only [hlt, if_true]
        exact ⟨rfl, hlt, hws⟩
      · simp only [hlt, if_false]
        apply rfLoop_safe
        · omega
        · exact h0
        · omega
        · exact hws

/-- with `*sizep = 0` the real loop never ends (callers always pass the page size) -/
theorem readFd_zero_hangs : readFd 0 [1] = .hang := by decide

/-! ### cpulist on arbitrary bytes -/

/-- the state has reached (or will reach at the final `prevlast+1`) signed overflow -/
def CLState.Bad (st : CLState) : Prop := st.ub = true ∨ st.prevlast = intMax

theorem clStep_bad (st : CLState) (seg : Int × Int) :
    (clStep st seg).Bad ↔ st.Bad ∨ seg.1 = intMin ∨ seg.2 = intMax := by
  unfold clStep CLState.Bad
  by_cases hub : st.ub = true
  · simp [hub]
  · by_cases hc : st.prevlast = intMax ∨ seg.1 = intMin
    · simp only [hub, hc, if_true]
      rcases hc with h | h <;> simp [h]
    · simp only [hub, if_false, hc]
      have h1 : ¬ st.prevlast = intMax := fun h => hc (Or.inl h)
      have h2 : ¬ seg.1 = intMin := fun h => hc (Or.inr h)
      simp [h1, h2]

theorem fold_bad (segs : List (Int × Int)) : ∀ st : CLState,
    (segs.foldl clStep st).Bad ↔ st.Bad ∨ ∃ seg ∈ segs, seg.1 = intMin ∨ seg.2 = intMax := by
  induction segs with
  | nil => intro st; simp
  | cons s rest ih =>
    intro st
    rw [List.foldl_cons, ih, clStep_bad]
    constructor
    · rintro ((h | h) | ⟨seg, hm, h⟩)
      · exact Or.inl h
      · exact Or.inr ⟨s, List.mem_cons_self, h⟩
      · exact Or.inr ⟨seg, List.mem_cons_of_mem _ hm, h⟩
    · rintro (h | ⟨seg, hm, h⟩)
      · exact Or.inl (Or.inl h)
      · rcases List.mem_cons.mp hm with e | e
        · subst e; exact Or.inl (Or.inr h)
        · exact Or.inr ⟨seg, e, h⟩

theorem clInit_not_bad (dst : Bitmap) : ¬ (clInit dst).Bad := by
  unfold CLState.Bad clInit intMax; simp

/-- **cpulist is undefined exactly on signed overflow**: some piece starts at INT_MIN or ends at INT_MAX
(after the reduction of the `unsigned long` to `int`) -/
theorem cpulist_none_iff (dst : Bitmap) (bytes : List Byte) :
    cpulist dst bytes = none ↔ ∃ seg ∈ clSegs bytes, seg.1 = intMin ∨ seg.2 = intMax := by
  have hb := fold_bad (clSegs bytes) (clInit dst)
  have hi := clInit_not_bad dst
  unfold cpulist
  simp only
  by_cases h : (clFinal dst bytes).ub = true ∨ (clFinal dst bytes).prevlast = intMax
  · simp only [h, if_true, true_iff]
    have : (List.foldl clStep (clInit dst) (clSegs bytes)).Bad := h
    rcases hb.mp this with h' | h'
    · exact absurd h' hi
    · exact h'
  · simp only [h, if_false, reduceCtorEq, false_iff]
    intro hex
    exact h (hb.mpr (Or.inr hex))

theorem clrRangeC_inv (s : Bitmap) (b e : Int) (h : s.Inv) : (clrRangeC s b e).Inv := by
  unfold clrRangeC; exact Bitmap.clrRange_inv _ _ _ h

theorem clStep_inv (st : CLState) (seg : Int × Int) (h : st.set.Inv) : (clStep st seg).set.Inv := by
  unfold clStep
  split
  · exact h
  · split
    · exact h
    · simp only
      split
      · exact clrRangeC_inv _ _ _ h
      · exact h

theorem fold_inv (segs : List (Int × Int)) : ∀ st : CLState, st.set.Inv → (segs.foldl clStep st).set.Inv := by
  induction segs with
  | nil => intro st h; exact h
  | cons s rest ih => intro st h; rw [List.foldl_cons]; exact ih _ (clStep_inv st s h)

/-- **whenever defined, the result is a well-formed finite bitmap** (arbitrary bytes) -/
theorem cpulist_some (dst : Bitmap) (bytes : List Byte) (b : Bitmap) (h : cpulist dst bytes = some b) :
    b.Inv ∧ b.inf = false := by
  unfold cpulist at h
  simp only at h
  split at h
  · cases h
  · injection h with h
    subst h
    constructor
    · apply clrRangeC_inv
      apply fold_inv
      show (Bitmap.fill dst).Inv
      unfold Bitmap.fill Bitmap.Inv; simp
    · unfold clrRangeC
      simp only [if_true]
      exact clrRange_none_inf _ _

/-- the destination's previous content never matters -/
theorem cpulist_dst (dst dst' : Bitmap) (bytes : List Byte) : cpulist dst bytes = cpulist dst' bytes := rfl

/-- **the empty file (and the file holding just a newline) yields {0}**, not the empty set -/
theorem cpulist_empty (dst : Bitmap) (bytes : List Byte) (h : bytes = [] ∨ bytes = [10]) :
    ∃ b, cpulist dst bytes = some b ∧ ∀ n, b.mem n = decide (n = 0) := by
  refine ⟨(Bitmap.fill Bitmap.alloc).clrRange 1 none, ?_, ?_⟩
  · rw [cpulist_dst dst Bitmap.alloc]
    rcases h with h | h <;> subst h <;> decide
  · intro n
    rw [Bitmap.mem_clrRange_none, mem_fill]
    by_cases hn : n = 0
    · subst hn; decide
    · have : 1 ≤ n := by omega
      simp [hn, this]

/-- negative fact (finding C18-F1): a file holding `0-2147483647` makes the parser overflow `prevlast+1` -/
theorem cpulist_overflow_example (dst : Bitmap) : cpulist dst (str "0-2147483647") = none := by
  rw [cpulist_dst dst Bitmap.alloc]; decide

end Hw.LinuxParse
