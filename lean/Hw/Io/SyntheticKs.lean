/-
  Hw.Io.SyntheticKs — arithmetic facts on `ksOf` (the objects of depth `e` on the path through (d, k)).
-/
import Hw.Io.SyntheticWF8
namespace Hw.Syn
open Hw Hw.Topo
set_option linter.unusedSectionVars false
set_option linter.unusedSimpArgs false
set_option linter.unusedVariables false

section
variable (t : Topo) (h : OK t)
include h

/-- ancestors (and self) of a child are those of its parent -/
theorem ksOf_le (d k' e : Nat) (hd : d < (mkTab t).D) (hk' : k' < nOf (mkTab t) (d + 1)) (he : e ≤ d) :
    ksOf (mkTab t) (d + 1) k' e = ksOf (mkTab t) d (k' / arOf (mkTab t) d) e := by
  have hm := ksOf_child t h d k' hd hk' e (by omega)
  have hl : ksOf (mkTab t) (d + 1) k' e = [k' / (nOf (mkTab t) (d + 1) / nOf (mkTab t) e)] := by
    unfold ksOf; rw [if_neg (by omega), if_neg (by omega)]
  rw [hl] at hm ⊢
  have hmem := hm _ (List.mem_singleton.2 rfl)
  unfold ksOf at hmem ⊢
  by_cases h3 : e = d
  · subst h3
    rw [if_neg (by omega), if_pos rfl] at hmem ⊢
    rw [List.mem_singleton.1 hmem]
  · rw [if_neg (by omega), if_neg h3] at hmem ⊢
    rw [List.mem_singleton.1 hmem]

/-- every descendant of (d, k) is a descendant-or-self of exactly one child -/
theorem ksOf_split (d k e x : Nat) (hd : d < (mkTab t).D) (hk : k < nOf (mkTab t) d) (he : d + 1 ≤ e) (he' : e ≤ (mkTab t).D)
    (hx : x ∈ ksOf (mkTab t) d k e) :
    ∃ r, r < arOf (mkTab t) d ∧ x ∈ ksOf (mkTab t) (d + 1) (k * arOf (mkTab t) d + r) e := by
  have hq := q_succ t h e d he' (by omega)
  have hpe := nOf_pos t h e he'
  have hpd1 := nOf_pos t h (d + 1) (by omega)
  have hq1 := q_total t h e (d + 1) he' he
  have hq'pos : 0 < nOf (mkTab t) e / nOf (mkTab t) (d + 1) := by
    rcases Nat.eq_zero_or_pos (nOf (mkTab t) e / nOf (mkTab t) (d + 1)) with h0 | h0
    · rw [h0, Nat.mul_zero] at hq1; omega
    · exact h0
  unfold ksOf at hx
  rw [if_pos (by omega)] at hx
  obtain ⟨i, hi, rfl⟩ := List.mem_map.1 hx
  have hi' := List.mem_range.1 hi
  rw [hq] at hi'
  refine ⟨i / (nOf (mkTab t) e / nOf (mkTab t) (d + 1)), (Nat.div_lt_iff_lt_mul hq'pos).2 hi', ?_⟩
  show i + k * (nOf (mkTab t) e / nOf (mkTab t) d) ∈ _
  rw [hq]
  have hdm := Nat.div_add_mod i (nOf (mkTab t) e / nOf (mkTab t) (d + 1))
  unfold ksOf
  by_cases h1 : e = d + 1
  · subst h1
    rw [if_neg (by omega), if_pos rfl]
    rw [Nat.div_self hpd1, Nat.div_one, Nat.mul_one]
    exact List.mem_singleton.2 (by omega)
  · rw [if_pos (by omega)]
    refine List.mem_map.2 ⟨i % (nOf (mkTab t) e / nOf (mkTab t) (d + 1)), List.mem_range.2 (Nat.mod_lt _ hq'pos), ?_⟩
    show i % (nOf (mkTab t) e / nOf (mkTab t) (d + 1)) +
        (k * arOf (mkTab t) d + i / (nOf (mkTab t) e / nOf (mkTab t) (d + 1))) * (nOf (mkTab t) e / nOf (mkTab t) (d + 1)) =
        i + k * (arOf (mkTab t) d * (nOf (mkTab t) e / nOf (mkTab t) (d + 1)))
    rw [Nat.add_mul, Nat.mul_assoc,
      Nat.mul_comm (i / (nOf (mkTab t) e / nOf (mkTab t) (d + 1))) (nOf (mkTab t) e / nOf (mkTab t) (d + 1))]
    omega

/-- different objects of one depth have disjoint descendant sets -/
theorem ksOf_disjoint (d k1 k2 e x : Nat) (hd : d ≤ e) (he : e ≤ (mkTab t).D) (hne : k1 ≠ k2)
    (h1 : x ∈ ksOf (mkTab t) d k1 e) (h2 : x ∈ ksOf (mkTab t) d k2 e) : False := by
  unfold ksOf at h1 h2
  by_cases h3 : e = d
  · subst h3
    rw [if_neg (by omega), if_pos rfl] at h1 h2
    have a1 := List.mem_singleton.1 h1
    have a2 := List.mem_singleton.1 h2
    omega
  · rw [if_pos (by omega)] at h1 h2
    obtain ⟨i1, hi1, e1⟩ := List.mem_map.1 h1
    obtain ⟨i2, hi2, e2⟩ := List.mem_map.1 h2
    have hi1' := List.mem_range.1 hi1
    have hi2' := List.mem_range.1 hi2
    have e1' : i1 + k1 * (nOf (mkTab t) e / nOf (mkTab t) d) = x := e1
    have e2' : i2 + k2 * (nOf (mkTab t) e / nOf (mkTab t) d) = x := e2
    rcases Nat.lt_or_gt_of_ne hne with hlt | hlt
    · have := Nat.mul_le_mul_right (nOf (mkTab t) e / nOf (mkTab t) d) (Nat.succ_le_of_lt hlt)
      rw [Nat.succ_mul] at this
      omega
    · have := Nat.mul_le_mul_right (nOf (mkTab t) e / nOf (mkTab t) d) (Nat.succ_le_of_lt hlt)
      rw [Nat.succ_mul] at this
      omega

/-- the members are valid objects of depth e -/
theorem ksOf_lt (d k e x : Nat) (hd : d ≤ (mkTab t).D) (hk : k < nOf (mkTab t) d) (he : e ≤ (mkTab t).D)
    (hx : x ∈ ksOf (mkTab t) d k e) : x < nOf (mkTab t) e := by
  unfold ksOf at hx
  by_cases h1 : e > d
  · rw [if_pos h1] at hx
    obtain ⟨i, hi, ex⟩ := List.mem_map.1 hx
    have hi' := List.mem_range.1 hi
    have ex' : i + k * (nOf (mkTab t) e / nOf (mkTab t) d) = x := ex
    have hq := q_total t h e d he (by omega)
    have := Nat.mul_le_mul_right (nOf (mkTab t) e / nOf (mkTab t) d) (Nat.succ_le_of_lt hk)
    rw [Nat.succ_mul] at this
    omega
  · rw [if_neg h1] at hx
    by_cases h2 : e = d
    · subst h2
      rw [if_pos rfl] at hx
      rw [List.mem_singleton.1 hx]; exact hk
    · rw [if_neg h2] at hx
      rw [List.mem_singleton.1 hx]
      have hq := q_total t h d e hd (by omega)
      have hq'pos : 0 < nOf (mkTab t) d / nOf (mkTab t) e := by
        rcases Nat.eq_zero_or_pos (nOf (mkTab t) d / nOf (mkTab t) e) with h0 | h0
        · rw [h0, Nat.mul_zero] at hq; omega
        · exact h0
      rw [Nat.div_lt_iff_lt_mul hq'pos, ← hq]
      exact hk

end
end Hw.Syn
