/-
  Hw.Io.XmlLemmas — proofs about the escaper / un-escaper of the nolibxml back end, the signed and base-10 number
  conversions, and `TopoEquiv`.
-/
import Hw.Io.Xml
import Hw.Base.NumLemmas
namespace Hw.Xml
open Hw

/-! ### the escaper equals its character-wise description -/

theorem esc1_of_notEsc {c : Nat} (h : notEsc c = true) : esc1 c = [c] := by
  unfold notEsc at h
  unfold esc1
  cases hc : isEsc c <;> simp_all

theorem escapeSpec_runs : ∀ s : List Nat, escapeSpec s = s.takeWhile notEsc ++ escapeSpec (s.dropWhile notEsc)
  | [] => by simp [escapeSpec]
  | c :: cs => by
    cases h : notEsc c
    · simp [List.takeWhile, List.dropWhile, h]
    · simp [List.takeWhile, List.dropWhile, h, escapeSpec, esc1_of_notEsc h, escapeSpec_runs cs]

theorem dropWhile_head {p : Nat → Bool} : ∀ (l : List Nat) (c : Nat) (r : List Nat), l.dropWhile p = c :: r → p c = false
  | [], _, _, h => by simp at h
  | a :: l, c, r, h => by
    cases ha : p a
    · simp [List.dropWhile, ha] at h
      rw [← h.1]; exact ha
    · simp [List.dropWhile, ha] at h
      exact dropWhile_head l c r h

theorem length_dropWhile_le' (p : Nat → Bool) : ∀ l : List Nat, (l.dropWhile p).length ≤ l.length
  | [] => by simp
  | a :: l => by
    have := length_dropWhile_le' p l
    cases h : p a <;> simp [List.dropWhile, h] <;> omega

theorem length_take_drop_while (p : Nat → Bool) (s : List Nat) : (s.takeWhile p).length + (s.dropWhile p).length = s.length := by
  rw [← List.length_append, List.takeWhile_append_dropWhile]

theorem escapeLoop_nil (fuel : Nat) : escapeLoop fuel [] = [] := by cases fuel <;> rfl

theorem escapeLoop_spec : ∀ (fuel : Nat) (s : List Nat), s.length ≤ fuel →
    (∀ c cs, s = c :: cs → isEsc c = true) → escapeLoop fuel s = escapeSpec s
  | fuel, [], _, _ => by rw [escapeLoop_nil]; rfl
  | 0, _ :: _, h, _ => by simp at h
  | fuel + 1, c :: cs, h, hc => by
    have hcc : isEsc c = true := hc c cs rfl
    have hlen : (cs.dropWhile notEsc).length ≤ fuel := by
      have := length_dropWhile_le' notEsc cs
      simp at h; omega
    have ih := escapeLoop_spec fuel (cs.dropWhile notEsc) hlen (by
      intro c' cs' e
      have := dropWhile_head cs c' cs' e
      unfold notEsc at this
      cases h' : isEsc c' <;> simp_all)
    show entity c ++ cs.takeWhile notEsc ++ escapeLoop fuel (cs.dropWhile notEsc) = escapeSpec (c :: cs)
    rw [ih]
    show _ = esc1 c ++ escapeSpec cs
    rw [escapeSpec_runs cs]
    unfold esc1
    rw [if_pos hcc, List.append_assoc]

theorem escapeSpec_of_all_notEsc : ∀ s : List Nat, s.dropWhile notEsc = [] → escapeSpec s = s
  | [], _ => rfl
  | c :: cs, h => by
    cases hc : notEsc c
    · simp [List.dropWhile, hc] at h
    · simp [List.dropWhile, hc] at h
      simp [escapeSpec, esc1_of_notEsc hc, escapeSpec_of_all_notEsc cs h]

/-- `escape` (the strcspn-run implementation) is the character-wise replacement -/
theorem escape_eq_spec (s : List Nat) : escape s = escapeSpec s := by
  unfold escape escapeC
  have hsplit : s.takeWhile notEsc ++ s.dropWhile notEsc = s := List.takeWhile_append_dropWhile
  by_cases h : (s.takeWhile notEsc).length = s.length
  · simp only [h, if_true, Option.getD_none]
    have : (s.dropWhile notEsc).length = 0 := by
      have := length_take_drop_while notEsc s
      omega
    have hnil : s.dropWhile notEsc = [] := List.eq_nil_of_length_eq_zero this
    exact (escapeSpec_of_all_notEsc s hnil).symm
  · simp only [h, if_false, Option.getD_some]
    rw [escapeLoop_spec s.length (s.dropWhile notEsc) (length_dropWhile_le' _ _) (by
      intro c' cs' e
      have := dropWhile_head s c' cs' e
      unfold notEsc at this
      cases h' : isEsc c' <;> simp_all)]
    exact (escapeSpec_runs s).symm

/-- `escapeC` returns NULL exactly when nothing has to be escaped -/
theorem escapeC_none_iff (s : List Nat) : escapeC s = none ↔ s.dropWhile notEsc = [] := by
  unfold escapeC
  have hsplit : s.takeWhile notEsc ++ s.dropWhile notEsc = s := List.takeWhile_append_dropWhile
  have hl := length_take_drop_while notEsc s
  by_cases h : (s.takeWhile notEsc).length = s.length
  · simp only [h, if_true, true_iff]
    exact List.eq_nil_of_length_eq_zero (by omega)
  · simp only [h, if_false]
    constructor
    · intro e; cases e
    · intro e; rw [e] at hl; simp at hl; omega

/-! ### characters of the escaped text -/

theorem isEsc_cases {c : Nat} (h : isEsc c = true) : c = 10 ∨ c = 13 ∨ c = 9 ∨ c = 34 ∨ c = 60 ∨ c = 62 ∨ c = 38 := by
  simp [isEsc] at h
  omega

/-- characters that may follow the `&` of an emitted entity -/
def entityTailChar (c : Nat) : Bool :=
  c == 35 || c == 49 || c == 48 || c == 59 || c == 51 || c == 57 || c == 113 || c == 117 || c == 111 || c == 116 || c == 108 ||
  c == 103 || c == 97 || c == 109 || c == 112

theorem entity_shape {c : Nat} (h : isEsc c = true) :
    ∃ t, entity c = 38 :: t ∧ t ≠ [] ∧ ∀ x ∈ t, entityTailChar x = true := by
  rcases isEsc_cases h with e | e | e | e | e | e | e <;> subst e <;> exact ⟨_, rfl, by simp, by decide⟩

theorem esc1_chars (c x : Nat) (hx : x ∈ esc1 c) : isEsc x = false ∨ x = 38 := by
  unfold esc1 at hx
  by_cases h : isEsc c = true
  · rw [if_pos h] at hx
    obtain ⟨t, e, _, ht⟩ := entity_shape h
    rw [e] at hx
    rcases List.mem_cons.mp hx with e' | e'
    · exact Or.inr e'
    · left
      have := ht x e'
      revert this
      unfold entityTailChar isEsc
      simp only [Bool.or_eq_true, beq_iff_eq]
      intro hh
      cases hq : (x == 10 || x == 13 || x == 9 || x == 34 || x == 60 || x == 62 || x == 38) with
      | false => rfl
      | true => simp only [Bool.or_eq_true, beq_iff_eq] at hq; omega
  · rw [if_neg h] at hx
    simp at hx
    subst hx
    left
    cases h' : isEsc x <;> simp_all

/-- the escaped text contains no raw `"`, `<`, `>` (nor newline, carriage return, tab): every byte is either not special or a `&` -/
theorem escapeSpec_chars : ∀ (s : List Nat) (x : Nat), x ∈ escapeSpec s → isEsc x = false ∨ x = 38
  | [], x, h => by simp [escapeSpec] at h
  | c :: cs, x, h => by
    simp only [escapeSpec, List.mem_append] at h
    rcases h with h | h
    · exact esc1_chars c x h
    · exact escapeSpec_chars cs x h

theorem escape_no_raw_markup (s : List Nat) (x : Nat) (hx : x ∈ escape s) :
    x ≠ 34 ∧ x ≠ 60 ∧ x ≠ 62 ∧ x ≠ 10 ∧ x ≠ 13 ∧ x ≠ 9 := by
  rw [escape_eq_spec] at hx
  rcases escapeSpec_chars s x hx with h | h
  · unfold isEsc at h
    simp only [Bool.or_eq_false_iff, beq_eq_false_iff_ne, ne_eq] at h
    omega
  · omega

/-! ### un-escaping the escaped text -/

theorem drop_add' (v : List Nat) (p k : Nat) : v.drop (p + k) = (v.drop p).drop k := by
  rw [List.drop_drop]

theorem rd_of_drop {v : List Nat} {p : Nat} {a : Nat} {t : List Nat} (h : v.drop p = a :: t) : rd v p = a := by
  unfold rd; rw [h]; rfl

theorem decodeEntity_entity {c : Nat} (hc : isEsc c = true) (v : List Nat) (i : Nat) (tail : List Nat)
    (h : v.drop i = (entity c).tail ++ tail) : decodeEntity v i = some (c, (entity c).length - 1) := by
  rcases isEsc_cases hc with e | e | e | e | e | e | e <;> subst e <;>
    simp [entity] at h <;> simp [decodeEntity, matchAt, h, entity, List.isPrefixOf]

theorem entity_length_pos {c : Nat} (hc : isEsc c = true) : 1 ≤ (entity c).length := by
  obtain ⟨t, e, _, _⟩ := entity_shape hc
  rw [e]; simp

theorem escapeSpec_head_ne_zero (s rest : List Nat) (hs : ∀ c ∈ s, c ≠ 0) : (escapeSpec s ++ 34 :: rest).headD 0 ≠ 0 := by
  cases s with
  | nil => simp [escapeSpec]
  | cons c cs =>
    have hc0 : c ≠ 0 := hs c (by simp)
    simp only [escapeSpec]
    by_cases h : isEsc c = true
    · obtain ⟨t, e, _, _⟩ := entity_shape h
      unfold esc1; rw [if_pos h, e]; simp
    · unfold esc1; rw [if_neg h]; simpa using hc0

theorem length_le_escapeSpec : ∀ s : List Nat, s.length ≤ (escapeSpec s).length
  | [] => by simp [escapeSpec]
  | c :: cs => by
    have ih := length_le_escapeSpec cs
    have h1 : 1 ≤ (esc1 c).length := by
      unfold esc1
      by_cases h : isEsc c = true
      · rw [if_pos h]; exact entity_length_pos h
      · rw [if_neg h]; simp
    simp only [escapeSpec, List.length_append, List.length_cons]
    omega

/-- the cursor loop of the un-escaper, started on the escaped form of `s` followed by the closing quote, returns `s`
    and stops on that quote -/
theorem unescLoop_escapeSpec : ∀ (s : List Nat), (∀ c ∈ s, c ≠ 0) →
    ∀ (v : List Nat) (rest : List Nat) (fuel len esc : Nat) (out : List Nat),
      v.drop (len + esc) = escapeSpec s ++ 34 :: rest → s.length < fuel →
      unescLoop v fuel len esc out = some (out ++ s, len + esc + (escapeSpec s).length)
  | [], _, v, rest, fuel, len, esc, out, hd, hf => by
    cases fuel with
    | zero => simp at hf
    | succ fuel =>
      simp only [escapeSpec, List.nil_append] at hd
      have := rd_of_drop hd
      simp [unescLoop, this, escapeSpec]
  | c :: cs, hs, v, rest, fuel, len, esc, out, hd, hf => by
    cases fuel with
    | zero => simp at hf
    | succ fuel =>
      have hc0 : c ≠ 0 := hs c (by simp)
      have hcs : ∀ x ∈ cs, x ≠ 0 := fun x hx => hs x (by simp [hx])
      have hf' : cs.length < fuel := by simp at hf; omega
      simp only [escapeSpec, List.append_assoc] at hd
      by_cases h : isEsc c = true
      · -- an entity
        obtain ⟨t, e, _, _⟩ := entity_shape h
        have he1 : esc1 c = entity c := by unfold esc1; rw [if_pos h]
        rw [he1] at hd
        have hd0 : v.drop (len + esc) = 38 :: (t ++ (escapeSpec cs ++ 34 :: rest)) := by rw [hd, e]; rfl
        have hrd : rd v (len + esc) = 38 := rd_of_drop hd0
        have ht : (entity c).tail = t := by rw [e]; rfl
        have hd1 : v.drop (1 + len + esc) = (entity c).tail ++ (escapeSpec cs ++ 34 :: rest) := by
          have : 1 + len + esc = (len + esc) + 1 := by omega
          rw [this, drop_add', hd0, ht]; rfl
        have hdec := decodeEntity_entity h v (1 + len + esc) _ hd1
        have hk : (entity c).length - 1 = t.length := by rw [e]; simp
        have hd2 : v.drop (len + 1 + (esc + t.length)) = escapeSpec cs ++ 34 :: rest := by
          have : len + 1 + (esc + t.length) = (len + esc) + (1 + t.length) := by omega
          rw [this, drop_add', hd0]
          simp [Nat.add_comm 1 t.length]
        have hnz : rd v (len + 1 + (esc + t.length)) ≠ 0 := by
          unfold rd; rw [hd2]; exact escapeSpec_head_ne_zero cs rest hcs
        have ih := unescLoop_escapeSpec cs hcs v rest fuel (len + 1) (esc + t.length) (out ++ [c]) hd2 hf'
        unfold unescLoop
        simp only [hrd, hdec, hk]
        simp only [show ((38 : Nat) = 34) = False from by decide, if_false, if_true, hnz, ih]
        simp only [escapeSpec, he1, e, List.append_assoc, List.singleton_append, List.length_append, List.length_cons]
        congr 2
        omega
      · -- a plain character
        have he1 : esc1 c = [c] := by unfold esc1; rw [if_neg h]
        rw [he1] at hd
        have hd0 : v.drop (len + esc) = c :: (escapeSpec cs ++ 34 :: rest) := hd
        have hrd : rd v (len + esc) = c := rd_of_drop hd0
        have hne : c ≠ 34 ∧ c ≠ 38 := by
          unfold isEsc at h
          simp only [Bool.or_eq_true, beq_iff_eq] at h
          omega
        have hd2 : v.drop (len + 1 + (esc + 0)) = escapeSpec cs ++ 34 :: rest := by
          have : len + 1 + (esc + 0) = (len + esc) + 1 := by omega
          rw [this, drop_add', hd0]; rfl
        have hnz : rd v (len + 1 + (esc + 0)) ≠ 0 := by
          unfold rd; rw [hd2]; exact escapeSpec_head_ne_zero cs rest hcs
        have ih := unescLoop_escapeSpec cs hcs v rest fuel (len + 1) (esc + 0) (out ++ [c]) hd2 hf'
        unfold unescLoop
        simp only [hrd]
        rw [if_neg hne.1, if_neg hne.2]
        simp only [hnz, if_false, ih]
        simp only [escapeSpec, he1, List.append_assoc, List.singleton_append, List.length_append, List.length_cons, List.length_nil]
        congr 2
        omega

/-- P0: un-escaping what the escaper wrote between the quotes gives the original bytes back, and the scan stops exactly on
    the closing quote (whatever follows it) -/
theorem unescape_escape (s rest : List Nat) (hs : ∀ c ∈ s, c ≠ 0) :
    unescape (escape s ++ 34 :: rest) = some (s, (escape s).length) := by
  rw [escape_eq_spec]
  unfold unescape
  have := unescLoop_escapeSpec s hs (escapeSpec s ++ 34 :: rest) rest ((escapeSpec s ++ 34 :: rest).length + 1) 0 0 []
    (by simp) (by have := length_le_escapeSpec s; simp; omega)
  simpa using this

/-! ### base-10 and signed number conversions -/

theorem isSpace_dec (c : Nat) (h : IsDecChar c) : isSpace c = false := by
  unfold IsDecChar at h
  unfold isSpace
  have h1 : (c == 32) = false := by simp; omega
  have h2 : (decide (9 ≤ c) && decide (c ≤ 13)) = false := by simp; omega
  simp [h1, h2]

theorem strtoul10_plain (c : Nat) (cs : List Nat) (hc : IsDecChar c) :
    strtoul 10 (c :: cs) =
      (if (takeDigits 10 (c :: cs) 0 0).2.1 = 0 then .ok 0 (c :: cs)
       else .ok (min (takeDigits 10 (c :: cs) 0 0).1 ulongMax) (takeDigits 10 (c :: cs) 0 0).2.2) := by
  unfold strtoul
  have hs : (c :: cs).dropWhile isSpace = c :: cs := by
    rw [List.dropWhile_cons, isSpace_hex c (Or.inl hc)]; rfl
  simp only [hs]
  split
  · rename_i heq; cases heq; unfold IsDecChar at hc; omega
  · rename_i heq; cases heq; unfold IsDecChar at hc; omega
  · split <;> simp

/-- base 10 (`strtoul(value, NULL, 10)` / `strtoull`): a printed `%u` / `%lu` / `%llu` number reads back, whatever non-digit follows -/
theorem strtoul10_decDigits (n : Nat) (rest : List Nat) (hn : n < 2 ^ 64) (h : NoDigitHead rest) :
    strtoul 10 (decDigits n ++ rest) = .ok n rest := by
  obtain ⟨d, tl, hd, e⟩ : ∃ d tl, d < 10 ∧ decDigits n = digitChar d :: tl := by
    by_cases h0 : n = 0
    · subst h0; exact ⟨0, [], by omega, by decide⟩
    · obtain ⟨d, tl, _, hd2, e⟩ := digs_head 10 (by omega) n (by omega)
      exact ⟨d, tl, hd2, by rw [decDigits_eq, e]⟩
  have hc : IsDecChar (digitChar d) := digitChar_dec d hd
  have htd : takeDigits 10 (decDigits n ++ rest) 0 0 = (n, 0 + (digs 10 n).length, rest) := by
    rw [decDigits_eq, takeDigits_digs 10 (by omega) (by omega), takeDigits_stop 10 rest h]
  have hlen := digs_length_pos 10 (by omega) n
  have e' : decDigits n ++ rest = digitChar d :: (tl ++ rest) := by rw [e]; rfl
  have hmin : min n ulongMax = n := by unfold ulongMax; omega
  have hne : 0 + (digs 10 n).length ≠ 0 := by omega
  rw [e', strtoul10_plain _ _ hc, ← e', htd]
  show (if 0 + (digs 10 n).length = 0 then _ else StrtoRes.ok (min n ulongMax) rest) = _
  rw [if_neg hne, hmin]

/-! ### `%d` / `atoi` -/

theorem takeDigits_decDigits (n : Nat) : (takeDigits 10 (decDigits n) 0 0).1 = n := by
  have := takeDigits_digs 10 (by omega) (by omega) n [] 0
  rw [List.append_nil] at this
  rw [decDigits_eq, this]
  rfl

theorem decDigits_head_dec (n : Nat) : ∃ c tl, decDigits n = c :: tl ∧ IsDecChar c := by
  cases hdd : decDigits n with
  | nil => exact absurd hdd (decDigits_ne_nil n)
  | cons c tl => exact ⟨c, tl, rfl, decDigits_chars n c (by rw [hdd]; simp)⟩

/-- `atoi` reads back what `%d` printed (cache associativity −1, forced efficiencies, support values) -/
theorem atoi_printInt (i : Int) : atoi (printInt i) = i := by
  unfold printInt
  by_cases hneg : i < 0
  · rw [if_pos hneg]
    unfold atoi
    have : (45 :: decDigits i.natAbs).dropWhile isSpace = 45 :: decDigits i.natAbs := by
      rw [List.dropWhile_cons]; rfl
    simp only [this, takeDigits_decDigits]
    omega
  · rw [if_neg hneg]
    obtain ⟨c, tl, e, hc⟩ := decDigits_head_dec i.toNat
    have hsp : isSpace c = false := isSpace_hex c (Or.inl hc)
    have hv := takeDigits_decDigits i.toNat
    unfold atoi
    rw [e] at hv ⊢
    have : (c :: tl).dropWhile isSpace = c :: tl := by rw [List.dropWhile_cons, hsp]; rfl
    simp only [this]
    unfold IsDecChar at hc
    split
    · rename_i heq; cases heq; omega
    · rename_i heq; cases heq; omega
    · rw [hv]; omega

/-! ### attribute lists: the importer's next_attr loop reads what new_prop wrote -/

set_option linter.unusedSimpArgs false

theorem takeWhile_append_all (p : Nat → Bool) : ∀ (pre b : List Nat), (∀ c ∈ pre, p c = true) →
    (pre ++ b).takeWhile p = pre ++ b.takeWhile p
  | [], b, _ => rfl
  | c :: pre, b, h => by
    have hc : p c = true := h c (by simp)
    simp [List.takeWhile, hc, takeWhile_append_all p pre b (fun x hx => h x (by simp [hx]))]

theorem takeWhile_head_false (p : Nat → Bool) (c : Nat) (r : List Nat) (h : p c = false) : (c :: r).takeWhile p = [] := by
  simp [List.takeWhile, h]

theorem takeWhile_all_then (p : Nat → Bool) (l : List Nat) (c : Nat) (r : List Nat) (hl : ∀ x ∈ l, p x = true) (hc : p c = false) :
    (l ++ c :: r).takeWhile p = l := by
  rw [takeWhile_append_all p l _ hl, takeWhile_head_false p c r hc, List.append_nil]

theorem drop_takeWhile_length (p : Nat → Bool) : ∀ l : List Nat, l.drop (l.takeWhile p).length = l.dropWhile p
  | [] => rfl
  | c :: l => by cases h : p c <;> simp [List.takeWhile, List.dropWhile, h, drop_takeWhile_length p l]

theorem mem_takeWhile_p (p : Nat → Bool) : ∀ (l : List Nat) (c : Nat), c ∈ l.takeWhile p → p c = true
  | [], _, h => by simp at h
  | a :: l, c, h => by
    cases ha : p a
    · simp [List.takeWhile, ha] at h
    · simp [List.takeWhile, ha] at h
      rcases h with e | e
      · rw [e]; exact ha
      · exact mem_takeWhile_p p l c e

theorem drop_append_len : ∀ (pre b : List Nat) (k : Nat), (pre ++ b).drop (pre.length + k) = b.drop k
  | [], b, k => by simp
  | c :: pre, b, k => by
    have : (c :: pre).length + k = (pre.length + k) + 1 := by simp; omega
    rw [this]
    exact drop_append_len pre b k

/-- leading blanks only shift the offsets -/
theorem nextAttr_blank (pre b : List Nat) (hpre : ∀ c ∈ pre, isBlank c = true) :
    nextAttr (pre ++ b) = (nextAttr b).map (fun r => (r.1, r.2.1, pre.length + r.2.2)) := by
  unfold nextAttr
  have e1 : ((pre ++ b).takeWhile isBlank).length = pre.length + (b.takeWhile isBlank).length := by
    rw [takeWhile_append_all isBlank pre b hpre]; simp
  have e2 : (pre ++ b).drop (pre.length + (b.takeWhile isBlank).length) = b.drop (b.takeWhile isBlank).length := by
    rw [List.drop_append]; simp
  simp only [e1, e2]
  split
  · rfl
  · cases hu : unescape (List.drop ((List.takeWhile isAttrNameChar (List.drop (List.takeWhile isBlank b).length b)).length + 2)
        (List.drop (List.takeWhile isBlank b).length b)) with
    | none => rfl
    | some r =>
      obtain ⟨val, q⟩ := r
      simp only [Option.map_some]
      have e3 : ∀ k, (pre ++ b).drop (pre.length + k) = b.drop k := by
        intro k; rw [List.drop_append]; simp
      have e4 : pre.length + (List.takeWhile isBlank b).length +
          (List.takeWhile isAttrNameChar (List.drop (List.takeWhile isBlank b).length b)).length + 2 + q + 1 =
          pre.length + ((List.takeWhile isBlank b).length +
          (List.takeWhile isAttrNameChar (List.drop (List.takeWhile isBlank b).length b)).length + 2 + q + 1) := by omega
      rw [e4, e3]
      congr 3
      omega

theorem attrNameChar_not_blank (c : Nat) (h : isAttrNameChar c = true) : isBlank c = false := by
  simp [isAttrNameChar] at h
  simp [isBlank]
  omega

/-- one attribute written by `new_prop` (without its leading blank) is read back by `next_attr`, which then stands on the next
    attribute (blanks skipped) -/
theorem nextAttr_core (name val rest : List Nat) (hn : ∀ c ∈ name, isAttrNameChar c = true) (hv : ∀ c ∈ val, c ≠ 0) :
    nextAttr (name ++ 61 :: 34 :: (escape val ++ 34 :: rest)) =
      some (name, val, name.length + 2 + (escape val).length + 1 + (rest.takeWhile isBlank).length) := by
  unfold nextAttr
  have hlead : (name ++ 61 :: 34 :: (escape val ++ 34 :: rest)).takeWhile isBlank = [] := by
    cases name with
    | nil => exact takeWhile_head_false _ _ _ (by decide)
    | cons c cs => exact takeWhile_head_false _ _ _ (attrNameChar_not_blank c (hn c (by simp)))
  have hname : (name ++ 61 :: 34 :: (escape val ++ 34 :: rest)).takeWhile isAttrNameChar = name :=
    takeWhile_all_then _ name 61 _ hn (by decide)
  simp only [hlead, List.length_nil, List.drop_zero, hname, Nat.zero_add]
  have hd0 : (name ++ 61 :: 34 :: (escape val ++ 34 :: rest)).drop name.length = 61 :: 34 :: (escape val ++ 34 :: rest) := by
    simp
  have hd1 : (name ++ 61 :: 34 :: (escape val ++ 34 :: rest)).drop (name.length + 1) = 34 :: (escape val ++ 34 :: rest) := by
    rw [drop_add', hd0]; rfl
  have hd2 : (name ++ 61 :: 34 :: (escape val ++ 34 :: rest)).drop (name.length + 2) = escape val ++ 34 :: rest := by
    rw [drop_add', hd0]; rfl
  rw [rd_of_drop hd0, rd_of_drop hd1, hd2, unescape_escape val rest hv]
  simp only [ne_eq, not_true_eq_false, or_self, if_false]
  have hd3 : (name ++ 61 :: 34 :: (escape val ++ 34 :: rest)).drop (name.length + 2 + (escape val).length + 1) = rest := by
    rw [drop_add', drop_add', hd2]
    simp
  rw [hd3, List.take_left']
  rfl

theorem scanAttrs_blank (fuel : Nat) (pre b : List Nat) (hpre : ∀ c ∈ pre, isBlank c = true) :
    scanAttrs fuel (pre ++ b) = scanAttrs fuel b := by
  cases fuel with
  | zero => rfl
  | succ fuel =>
    simp only [scanAttrs, nextAttr_blank pre b hpre]
    cases nextAttr b with
    | none => rfl
    | some r =>
      obtain ⟨n, v, off⟩ := r
      simp only [Option.map_some]
      rw [drop_append_len]

theorem scanAttrs_dropWhile (fuel : Nat) (b : List Nat) : scanAttrs fuel (b.dropWhile isBlank) = scanAttrs fuel b := by
  have h := @List.takeWhile_append_dropWhile _ isBlank b
  conv => rhs; rw [← h]
  rw [scanAttrs_blank fuel _ _ (by
    intro c hc
    exact mem_takeWhile_p isBlank b c hc)]

/-- P1 `scan_render` at the attribute level: the importer's `next_attr` loop reads back exactly the (name, value) list the
    exporter's `new_prop` calls wrote, for names over `[a-z_]` and NUL-free values -/
theorem scanAttrs_renderAttrs : ∀ (l : List (List Nat × List Nat)) (fuel : Nat), l.length < fuel →
    (∀ a ∈ l, (∀ c ∈ a.1, isAttrNameChar c = true) ∧ (∀ c ∈ a.2, c ≠ 0)) → scanAttrs fuel (renderAttrs l) = l
  | [], fuel, hf, _ => by
    cases fuel with
    | zero => simp at hf
    | succ fuel => simp [renderAttrs, scanAttrs, nextAttr, rd, List.takeWhile]
  | a :: l, fuel, hf, h => by
    cases fuel with
    | zero => simp at hf
    | succ fuel =>
      obtain ⟨name, val⟩ := a
      have ha := h (name, val) (by simp)
      have hl : ∀ x ∈ l, (∀ c ∈ x.1, isAttrNameChar c = true) ∧ (∀ c ∈ x.2, c ≠ 0) := fun x hx => h x (by simp [hx])
      have ih := scanAttrs_renderAttrs l fuel (by simp at hf; omega) hl
      have hb : renderAttrs ((name, val) :: l) = [32] ++ (name ++ 61 :: 34 :: (escape val ++ 34 :: renderAttrs l)) := by
        simp [renderAttrs, renderAttr]
      rw [hb]
      simp only [scanAttrs]
      rw [nextAttr_blank [32] _ (by intro c hc; simp at hc; subst hc; decide), nextAttr_core name val (renderAttrs l) ha.1 ha.2]
      simp only [Option.map_some, List.length_singleton]
      have hdrop : ([32] ++ (name ++ 61 :: 34 :: (escape val ++ 34 :: renderAttrs l))).drop
          (1 + (name.length + 2 + (escape val).length + 1 + ((renderAttrs l).takeWhile isBlank).length)) =
          (renderAttrs l).dropWhile isBlank := by
        rw [← drop_takeWhile_length isBlank (renderAttrs l)]
        have : 1 + (name.length + 2 + (escape val).length + 1 + ((renderAttrs l).takeWhile isBlank).length) =
            (1 + name.length + 2 + (escape val).length + 1) + ((renderAttrs l).takeWhile isBlank).length := by omega
        rw [this, drop_add']
        congr 1
        have e : [32] ++ (name ++ 61 :: 34 :: (escape val ++ 34 :: renderAttrs l)) =
            (32 :: name ++ 61 :: 34 :: escape val ++ [34]) ++ renderAttrs l := by simp
        rw [e]
        exact List.drop_left' (by simp; omega)
      rw [hdrop, scanAttrs_dropWhile, ih]
end Hw.Xml
