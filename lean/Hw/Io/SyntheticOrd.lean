/-
  Hw.Io.SyntheticOrd — the order that `orderTopo` (the model of the core's ordering of children by the first bit of their
  cpuset) establishes on the PU index sequence, as a recursive predicate over the arity list.
-/
import Hw.Io.SyntheticWF15
namespace Hw.Syn
open Hw Hw.Topo

/-- product of an arity list (the fold used by `mkNode`) -/
def prodL (as : List Nat) : Nat := as.foldl (· * ·) 1

theorem foldl_mul_init : ∀ (l : List Nat) (x : Nat), l.foldl (· * ·) x = x * l.foldl (· * ·) 1 := by
  intro l
  induction l with
  | nil => intro x; simp
  | cons a l ih => intro x; rw [List.foldl_cons, List.foldl_cons, ih (x * a), ih (1 * a), Nat.one_mul, Nat.mul_assoc]

theorem prodL_nil : prodL [] = 1 := rfl
theorem prodL_cons (a : Nat) (rest : List Nat) : prodL (a :: rest) = a * prodL rest := by
  unfold prodL; rw [List.foldl_cons, foldl_mul_init, Nat.one_mul]

theorem prodL_pos : ∀ (as : List Nat), (∀ a ∈ as, 1 ≤ a) → 1 ≤ prodL as := by
  intro as
  induction as with
  | nil => intro _; exact Nat.le_refl _
  | cons a rest ih =>
    intro h
    rw [prodL_cons]
    exact Nat.mul_pos (h a List.mem_cons_self) (ih (fun x hx => h x (List.mem_cons_of_mem _ hx)))

/-- block `r` of width `w` of a list (0 beyond its end) -/
def blockOf (l : List Nat) (w r : Nat) : List Nat := (List.range w).map (fun j => l[r * w + j]?.getD 0)

/-- `l` lists the leaves of a regular tree with arities `as` (root arity first) in such a way that at every object the
children are in the order of their smallest leaf -/
def Ord : List Nat → List Nat → Prop
  | [], _ => True
  | a :: rest, l =>
    (∀ r, r < a → Ord rest (blockOf l (prodL rest) r)) ∧
    (∀ r, r + 1 < a → minL (blockOf l (prodL rest) r) < minL (blockOf l (prodL rest) (r + 1)))

end Hw.Syn
