/-
  Hw.Io.CalcStdin — lemmas on hwloc-calc's stdin mode (model: Hw/Io/Calc.lean `lineFold` / `lineOut` / `stdinLoop`):
  the loop output is the concatenation of per-line outputs, a line's output is a function of the line and of the option
  state only, and it is what the same options followed by the line's locations print when given on the command line.
-/
import Hw.Io.CalcLemmas
namespace Hw.Calc
open Hw Hw.Topo

/-- a list of location arguments processed in sequence (one stdin line, or the tail of a command line) -/
def locSeq (c : Ctx) : St → List Bytes → Except Res St
  | s, [] => .ok s
  | s, a :: r => match stepLoc c s a with
    | .error e => .error e
    | .ok s' => locSeq c s' r

theorem foldl_stepLoc_error (c : Ctx) (e : Res) (l : List Bytes) :
    l.foldl (fun (st : Except Res St) t => match st with
      | .error e => .error e
      | .ok st => stepLoc c st t) (.error e) = .error e := by
  induction l with
  | nil => rfl
  | cons a r ih => simpa [List.foldl] using ih

theorem foldl_stepLoc_eq (c : Ctx) : ∀ (l : List Bytes) (s : St),
    l.foldl (fun (st : Except Res St) t => match st with
      | .error e => .error e
      | .ok st => stepLoc c st t) (.ok s) = locSeq c s l := by
  intro l
  induction l with
  | nil => intro s; rfl
  | cons a r ih =>
    intro s
    simp only [List.foldl, locSeq]
    cases h : stepLoc c s a with
    | error e => exact foldl_stepLoc_error c e r
    | ok s1 => exact ih s1

theorem lineFold_eq (c : Ctx) (s : St) (line : Bytes) :
    lineFold c s line = locSeq c { s with cpuset := Bitmap.alloc, nodeset := Bitmap.alloc } (tokensOf line) :=
  foldl_stepLoc_eq c _ _

theorem locSeq_error (c : Ctx) : ∀ (l : List Bytes) (s : St) (e : Res), locSeq c s l = .error e → e = .skip "location" := by
  intro l
  induction l with
  | nil => intro s e h; cases h
  | cons a r ih =>
    intro s e h
    simp only [locSeq] at h
    cases hs : stepLoc c s a with
    | error e' => rw [hs] at h; cases h; exact stepLoc_error hs
    | ok s1 => rw [hs] at h; exact ih s1 e h

/-- a line never ends the run with a predicted stdout: the only way to `exit 0 (some _)` is to go through every line -/
theorem lineOut_stop_ne (c : Ctx) (s : St) (cfg : OutCfg) (line : Bytes) (r : Res) (out : Bytes)
    (h : lineOut c s cfg line = .stop r) : r ≠ .exit 0 (some out) := by
  unfold lineOut at h
  split at h
  · rename_i e he
    rw [lineFold_eq] at he
    cases h
    rw [locSeq_error c _ _ _ he]
    intro hh; cases hh
  · split at h
    · cases h; intro hh; cases hh
    · split at h
      · cases h; split <;> (intro hh; cases hh)
      · split at h
        · cases h; intro hh; cases hh
        · cases h

/-- `outs` are the per-line outputs of `lines`, each computed by `lineOut` from its own line alone -/
inductive LinesOut (c : Ctx) (s : St) (cfg : OutCfg) : List Bytes → List Bytes → Prop
  | nil : LinesOut c s cfg [] []
  | cons {l o : Bytes} {ls os : List Bytes} : lineOut c s cfg l = .out o → LinesOut c s cfg ls os → LinesOut c s cfg (l :: ls) (o :: os)

theorem LinesOut.length_eq {c : Ctx} {s : St} {cfg : OutCfg} {ls os : List Bytes} (h : LinesOut c s cfg ls os) :
    os.length = ls.length := by
  induction h with
  | nil => rfl
  | cons _ _ ih => simp [ih]

theorem LinesOut.get {c : Ctx} {s : St} {cfg : OutCfg} {ls os : List Bytes} (h : LinesOut c s cfg ls os) :
    ∀ (k : Nat) (h1 : k < ls.length) (h2 : k < os.length), lineOut c s cfg ls[k] = .out os[k] := by
  induction h with
  | nil => intro k h1; simp at h1
  | cons hl _ ih =>
    intro k h1 h2
    cases k with
    | zero => simpa using hl
    | succ k => simpa using ih k (by simpa using h1) (by simpa using h2)

theorem LinesOut.append {c : Ctx} {s : St} {cfg : OutCfg} {l1 o1 l2 o2 : List Bytes} (h1 : LinesOut c s cfg l1 o1)
    (h2 : LinesOut c s cfg l2 o2) : LinesOut c s cfg (l1 ++ l2) (o1 ++ o2) := by
  induction h1 with
  | nil => simpa using h2
  | cons hl _ ih => exact LinesOut.cons hl ih

theorem LinesOut.split {c : Ctx} {s : St} {cfg : OutCfg} : ∀ (l1 l2 os : List Bytes), LinesOut c s cfg (l1 ++ l2) os →
    ∃ o1 o2, os = o1 ++ o2 ∧ LinesOut c s cfg l1 o1 ∧ LinesOut c s cfg l2 o2 := by
  intro l1
  induction l1 with
  | nil => intro l2 os h; exact ⟨[], os, rfl, LinesOut.nil, h⟩
  | cons a r ih =>
    intro l2 os h
    cases h with
    | cons hl hr =>
      obtain ⟨o1, o2, rfl, h1, h2⟩ := ih l2 _ hr
      exact ⟨_ :: o1, o2, rfl, LinesOut.cons hl h1, h2⟩

/-- the stdin loop prints, after what was already printed, the per-line outputs in order — and nothing else -/
theorem stdinLoop_ok_iff (c : Ctx) (s : St) (cfg : OutCfg) : ∀ (lines : List Bytes) (acc out : Bytes),
    stdinLoop c s cfg lines acc = .exit 0 (some out) ↔
      ∃ outs : List Bytes, LinesOut c s cfg lines outs ∧ out = acc ++ outs.flatten := by
  intro lines
  induction lines with
  | nil =>
    intro acc out
    simp only [stdinLoop]
    constructor
    · intro h; cases h; exact ⟨[], LinesOut.nil, by simp⟩
    · rintro ⟨outs, hf, rfl⟩; cases hf; simp
  | cons l r ih =>
    intro acc out
    simp only [stdinLoop]
    cases hl : lineOut c s cfg l with
    | stop res =>
      simp only
      constructor
      · intro h; exact absurd h (lineOut_stop_ne c s cfg l res out hl)
      · rintro ⟨outs, hf, _⟩
        cases hf with
        | cons h1 _ => rw [hl] at h1; cases h1
    | out o =>
      simp only
      rw [ih]
      constructor
      · rintro ⟨outs, hf, rfl⟩
        exact ⟨o :: outs, LinesOut.cons hl hf, by simp [List.append_assoc]⟩
      · rintro ⟨outs, hf, rfl⟩
        cases hf with
        | cons h1 h2 =>
          rw [hl] at h1; cases h1
          exact ⟨_, h2, by simp [List.append_assoc]⟩

/-! ### a stdin line against the same locations on the command line -/

theorem argLoop_append_ok (c : Ctx) (s : St) (a : List Bytes) (b : List Bytes) :
    ∀ s', argLoop c s a = .ok s' → argLoop c s (a ++ b) = argLoop c s' b := by
  fun_induction argLoop c s a with
  | case1 s => intro s' h; cases h; rfl
  | _ =>
    intro s' h
    first
    | (cases h; done)
    | (rw [List.cons_append]; conv => lhs; unfold argLoop
       simp_all; done)
    | (rw [List.cons_append, List.cons_append]; conv => lhs; unfold argLoop
       simp_all; done)

/-- arguments that do not start with '-' are locations -/
theorem argLoop_locs (c : Ctx) : ∀ (toks : List Bytes) (s : St), (∀ t ∈ toks, t.head? ≠ some 45) →
    argLoop c s toks = locSeq c s toks := by
  intro toks
  induction toks with
  | nil => intro s _; simp [argLoop, locSeq]
  | cons a r ih =>
    intro s h
    have ha : (a.head? == some 45) = false := by simpa using h a List.mem_cons_self
    unfold argLoop locSeq
    rw [ha]
    simp only [Bool.false_eq_true, if_false]
    cases stepLoc c s a with
    | error e => rfl
    | ok s1 => exact ih s1 (fun t ht => h t (List.mem_cons_of_mem _ ht))

/-- as long as no location was accepted the two accumulators are the freshly allocated (empty) bitmaps -/
def Fresh (s : St) : Prop := s.nlocs = 0 → s.cpuset = Bitmap.alloc ∧ s.nodeset = Bitmap.alloc

theorem stepFlag_sets (s : St) (a : Bytes) :
    (stepFlag s a).cpuset = s.cpuset ∧ (stepFlag s a).nodeset = s.nodeset ∧ (stepFlag s a).nlocs = s.nlocs := by
  unfold stepFlag
  refine ⟨?_, ?_, ?_⟩
  · simp only [apply_ite St.cpuset, ite_self]
  · simp only [apply_ite St.nodeset, ite_self]
  · simp only [apply_ite St.nlocs, ite_self]

theorem stepArgOpt_sets {s s' : St} {a v : Bytes} (h : stepArgOpt s a v = some s') :
    s'.cpuset = s.cpuset ∧ s'.nodeset = s.nodeset ∧ s'.nlocs = s.nlocs := by
  unfold stepArgOpt at h
  repeat' (split at h)
  all_goals first | (cases h; done) | (cases h; exact ⟨rfl, rfl, rfl⟩)

theorem stepLoc_fresh {c : Ctx} {s s' : St} {a : Bytes} (h : stepLoc c s a = .ok s') (hf : Fresh s) : Fresh s' := by
  unfold stepLoc at h
  cases hl : locSets c s.logicalI s.nodesetI s.cif (splitMode a).2 <;> simp only [hl] at h <;> cases h
  · intro hn; simp at hn
  · exact hf

theorem Fresh.of_eq {s s' : St} (hf : Fresh s) (h : s'.cpuset = s.cpuset ∧ s'.nodeset = s.nodeset ∧ s'.nlocs = s.nlocs) : Fresh s' := by
  intro hn
  rw [h.1, h.2.1]
  exact hf (h.2.2 ▸ hn)

theorem argLoop_fresh (c : Ctx) (s : St) (a : List Bytes) :
    ∀ s', Fresh s → argLoop c s a = .ok s' → Fresh s' := by
  fun_induction argLoop c s a with
  | case1 s => intro s' hf h; cases h; exact hf
  | case3 s a rest _ _ _ k _ ih => intro s' hf h; exact ih s' (hf.of_eq ⟨rfl, rfl, rfl⟩) h
  | case5 s a rest _ _ _ _ ih => intro s' hf h; exact ih s' (hf.of_eq (stepFlag_sets s a)) h
  | case8 s a _ _ _ _ _ v rest' s1 hs ih => intro s' hf h; exact ih s' (hf.of_eq (stepArgOpt_sets hs)) h
  | case11 s a rest _ s1 hs ih => intro s' hf h; exact ih s' (stepLoc_fresh hs hf) h
  | _ => intro s' hf h; cases h

theorem fresh_init : Fresh {} := fun _ => ⟨rfl, rfl⟩

/-- what a location leaves untouched: every option field -/
theorem stepLoc_frame {c : Ctx} {s s1 : St} {a : Bytes} (h : stepLoc c s a = .ok s1) :
    s1 = { s with cpuset := s1.cpuset, nodeset := s1.nodeset, nlocs := s1.nlocs, outKnown := s1.outKnown } := by
  unfold stepLoc at h
  cases hl : locSets c s.logicalI s.nodesetI s.cif (splitMode a).2 <;> simp only [hl] at h <;> cases h <;> rfl

theorem stepLoc_nodesetO {c : Ctx} {s s1 : St} {a : Bytes} (b : Bool) (h : stepLoc c s a = .ok s1) :
    stepLoc c { s with nodesetO := b } a = .ok { s1 with nodesetO := b } := by
  unfold stepLoc at h ⊢
  cases hl : locSets c s.logicalI s.nodesetI s.cif (splitMode a).2 <;> simp only [hl] at h ⊢ <;> cases h <;> rfl

theorem locSeq_frame (c : Ctx) : ∀ (l : List Bytes) (s s1 : St), locSeq c s l = .ok s1 →
    s1 = { s with cpuset := s1.cpuset, nodeset := s1.nodeset, nlocs := s1.nlocs, outKnown := s1.outKnown } := by
  intro l
  induction l with
  | nil => intro s s1 h; cases h; rfl
  | cons a r ih =>
    intro s s1 h
    simp only [locSeq] at h
    cases hs : stepLoc c s a with
    | error e => rw [hs] at h; cases h
    | ok s2 =>
      rw [hs] at h
      have h1 := ih s2 s1 h
      have h2 := stepLoc_frame hs
      rw [h1, h2]

theorem locSeq_nodesetO (c : Ctx) (b : Bool) : ∀ (l : List Bytes) (s s1 : St), locSeq c s l = .ok s1 →
    locSeq c { s with nodesetO := b } l = .ok { s1 with nodesetO := b } := by
  intro l
  induction l with
  | nil => intro s s1 h; cases h; rfl
  | cons a r ih =>
    intro s s1 h
    simp only [locSeq] at h ⊢
    cases hs : stepLoc c s a with
    | error e => rw [hs] at h; cases h
    | ok s2 =>
      rw [hs] at h
      rw [stepLoc_nodesetO b hs]
      exact ih s2 s1 h


/-- `--no`/`--nof` is dropped when an output conversion is requested without nodeset input (hwloc-calc.c, after the option loop) -/
def convO (s : St) : Bool :=
  if (s.largest || s.numberOf.isSome || s.intersect.isSome || s.hier.isSome) && s.nodesetO && !s.nodesetI then false else s.nodesetO
def convState (s : St) : St := { s with nodesetO := convO s }

def banner (s : St) : Bytes := if s.verbose ≥ 0 then str "Waiting for locations to process on stdin...\n" else []

/-- main() after a successful option loop -/
def afterLoop (c : Ctx) (s : St) (stdin : Bytes) : Res :=
  let s' := convState s
  match outCfg c.d s' with
  | .unmodelled => .skip "output-level"
  | .out => .exit 1 (if s'.outKnown then some [] else none)
  | .ok cfg =>
    let r : Res :=
      if s'.nlocs != 0 then
        if s'.noSmt.isSome && s'.cpuset.inf then .skip "no-smt-infinite" else
        .exit (output c s' cfg s'.cpuset s'.nodeset).1
          (if (output c s' cfg s'.cpuset s'.nodeset).1 == 0 then (output c s' cfg s'.cpuset s'.nodeset).2 else none)
      else stdinLoop c s' cfg (linesOf stdin) (banner s')
    if s'.outKnown && (s'.nlocs != 0 || decide (s'.verbose ≤ 0)) then r else match r with
      | .exit rc _ => .exit rc none
      | x => x

theorem go_eq (c : Ctx) (argv : List Bytes) (stdin : Bytes) (s : St) (h : argLoop c {} argv = .ok s) :
    calcMain.go stdin c argv = afterLoop c s stdin := by
  unfold calcMain.go afterLoop
  rw [h]
  simp only
  by_cases hc : ((s.largest || s.numberOf.isSome || s.intersect.isSome || s.hier.isSome) && s.nodesetO && !s.nodesetI) = true
  · have e : convState s = { s with nodesetO := false } := by unfold convState convO; rw [if_pos hc]
    rw [e, if_pos hc]
    rfl
  · have e : convState s = s := by unfold convState convO; rw [if_neg hc]
    rw [e, if_neg hc]
    rfl


theorem calcMain_go {d : Dump} {argv : List Bytes} {stdin : Bytes} {rc : Nat} {o : Option Bytes}
    (h : calcMain d argv stdin = .exit rc o) : calcMain.go stdin (mkCtx d) argv = .exit rc o := by
  unfold calcMain at h
  cases argv with
  | nil => exact h
  | cons a r =>
    simp only at h
    split at h
    · cases h
    · exact h

theorem strip_some {r : Res} {out : Bytes} {b : Bool}
    (h : (if b = true then r else match r with | .exit rc _ => .exit rc none | x => x) = .exit 0 (some out)) :
    r = .exit 0 (some out) := by
  cases b with
  | true => simpa using h
  | false =>
    simp only [Bool.false_eq_true, if_false] at h
    cases r with
    | exit rc o => simp at h
    | skip w => simp at h

theorem convO_frame (s : St) (a b : Bitmap) (n : Nat) (k : Bool) :
    convO { s with cpuset := a, nodeset := b, nlocs := n, outKnown := k } = convO s := rfl

theorem outCfg_frame (d : Dump) (s : St) (a b : Bitmap) (n : Nat) (k x : Bool) :
    outCfg d { s with cpuset := a, nodeset := b, nlocs := n, outKnown := k, nodesetO := x } = outCfg d s := rfl


/-- the command-line run `opts ++ toks` (no token starts with '-') against the stdin line holding `toks` -/
theorem lineOut_of_cmdline (d : Dump) (opts : List Bytes) (s : St) (cfg : OutCfg) (line o : Bytes)
    (hloop : argLoop (mkCtx d) {} opts = .ok s) (hn : s.nlocs = 0) (hq : s.verbose < 0)
    (hcfg : outCfg d (convState s) = .ok cfg)
    (hdash : ∀ t ∈ tokensOf line, t.head? ≠ some 45)
    (h2 : calcMain d (opts ++ tokensOf line) [] = .exit 0 (some o)) (ho : o ≠ []) :
    lineOut (mkCtx d) (convState s) cfg line = .out o := by
  have g2 := calcMain_go h2
  have hfresh := argLoop_fresh (mkCtx d) {} opts s fresh_init hloop hn
  have harg : argLoop (mkCtx d) {} (opts ++ tokensOf line) = locSeq (mkCtx d) s (tokensOf line) := by
    rw [argLoop_append_ok (mkCtx d) {} opts (tokensOf line) s hloop, argLoop_locs (mkCtx d) _ s hdash]
  cases hseq : locSeq (mkCtx d) s (tokensOf line) with
  | error e =>
    rw [hseq] at harg
    unfold calcMain.go at g2
    rw [harg] at g2
    simp only at g2
    rw [locSeq_error _ _ _ _ hseq] at g2
    cases g2
  | ok s1 =>
    rw [hseq] at harg
    rw [go_eq (mkCtx d) _ [] s1 harg] at g2
    have hf := locSeq_frame (mkCtx d) _ s s1 hseq
    have hco : convO s1 = convO s := by
      calc convO s1 = convO { s with cpuset := s1.cpuset, nodeset := s1.nodeset, nlocs := s1.nlocs, outKnown := s1.outKnown } :=
            congrArg convO hf
        _ = convO s := rfl
    have hcs : convState s1 = { s1 with nodesetO := convO s } := by unfold convState; rw [hco]
    have hcfg1 : outCfg (mkCtx d).d (convState s1) = .ok cfg := by
      rw [← hcfg, hcs]
      calc outCfg (mkCtx d).d { s1 with nodesetO := convO s }
            = outCfg d { ({ s with cpuset := s1.cpuset, nodeset := s1.nodeset, nlocs := s1.nlocs, outKnown := s1.outKnown } : St) with nodesetO := convO s } := by
              rw [← hf]; rfl
        _ = outCfg d (convState s) := rfl
    have hverb : s1.verbose = s.verbose := by rw [hf]
    -- the stdin side
    have hline : lineFold (mkCtx d) (convState s) line = .ok (convState s1) := by
      rw [lineFold_eq]
      have e : ({ convState s with cpuset := Bitmap.alloc, nodeset := Bitmap.alloc } : St) = convState s := by
        obtain ⟨e1, e2⟩ := hfresh
        calc ({ convState s with cpuset := Bitmap.alloc, nodeset := Bitmap.alloc } : St)
              = { convState s with cpuset := s.cpuset, nodeset := s.nodeset } := by rw [e1, e2]
          _ = convState s := rfl
      rw [e, hcs]
      exact locSeq_nodesetO (mkCtx d) (convO s) _ s s1 hseq
    unfold lineOut
    rw [hline]
    simp only
    -- the command-line side
    simp only [afterLoop, hcfg1] at g2
    have g3 := strip_some g2
    by_cases hz : (convState s1).nlocs = 0
    · -- every location was ignored: the run read its (empty) stdin and printed nothing
      have hb : banner (convState s1) = [] := by
        unfold banner
        have : ¬ ((convState s1).verbose ≥ 0) := by show ¬ (s1.verbose ≥ 0); omega
        rw [if_neg this]
      simp only [hz, bne_self_eq_false, Bool.false_eq_true, if_false, hb] at g3
      have : linesOf [] = [] := by decide
      rw [this] at g3
      simp only [stdinLoop] at g3
      cases g3
      exact absurd rfl ho
    · have hz' : ((convState s1).nlocs != 0) = true := by simpa using hz
      rw [if_pos hz'] at g3
      split at g3
      · cases g3
      · rename_i hsmt
        rw [if_neg hsmt]
        cases hout : output (mkCtx d) (convState s1) cfg (convState s1).cpuset (convState s1).nodeset with
        | mk rc oo =>
          rw [hout] at g3
          simp only at g3
          cases oo with
          | none =>
            simp only [Res.exit.injEq] at g3
            obtain ⟨r0, g4⟩ := g3
            subst r0
            simp at g4
          | some o' =>
            simp only [Res.exit.injEq] at g3
            obtain ⟨r0, g4⟩ := g3
            subst r0
            simp only [BEq.rfl, if_true, Option.some.injEq] at g4
            subst g4
            simp


/-- hwloc-calc in stdin mode (`-q`: no banner) prints one block per input line, and the block of line `k` is exactly what the same
    options followed by the locations of line `k` print when given on the command line (whenever that run succeeds and prints
    something: a command line whose locations are all ignored falls back to reading its own stdin) -/
theorem stdin_eq_cmdline (d : Dump) (opts : List Bytes) (s : St) (stdin out : Bytes)
    (hloop : argLoop (mkCtx d) {} opts = .ok s) (hn : s.nlocs = 0) (hq : s.verbose < 0)
    (h1 : calcMain d opts stdin = .exit 0 (some out)) :
    ∃ outs : List Bytes, outs.length = (linesOf stdin).length ∧ out = outs.flatten ∧
      ∀ (k : Nat) (hk : k < (linesOf stdin).length) (hk' : k < outs.length) (o : Bytes),
        (∀ t ∈ tokensOf (linesOf stdin)[k], t.head? ≠ some 45) →
        calcMain d (opts ++ tokensOf (linesOf stdin)[k]) [] = .exit 0 (some o) → o ≠ [] → outs[k] = o := by
  have g1 := calcMain_go h1
  rw [go_eq (mkCtx d) opts stdin s hloop] at g1
  cases hcfg : outCfg (mkCtx d).d (convState s) with
  | unmodelled => simp only [afterLoop, hcfg] at g1; cases g1
  | out => simp only [afterLoop, hcfg] at g1; cases g1
  | ok cfg =>
    simp only [afterLoop, hcfg] at g1
    have g3 := strip_some g1
    have hz : (convState s).nlocs = 0 := hn
    have hb : banner (convState s) = [] := by
      unfold banner
      have : ¬ ((convState s).verbose ≥ 0) := by show ¬ (s.verbose ≥ 0); omega
      rw [if_neg this]
    simp only [hz, bne_self_eq_false, Bool.false_eq_true, if_false, hb] at g3
    obtain ⟨outs, hlo, hout⟩ := (stdinLoop_ok_iff (mkCtx d) (convState s) cfg (linesOf stdin) [] out).mp g3
    refine ⟨outs, hlo.length_eq, by simpa using hout, ?_⟩
    intro k hk hk' o hdash h2 ho
    have hL := hlo.get k hk hk'
    have hC := lineOut_of_cmdline d opts s cfg (linesOf stdin)[k] o hloop hn hq hcfg hdash h2 ho
    rw [hL] at hC
    cases hC
    rfl

/-- the output of a line is independent of the lines around it: the loop output splits at every line -/
theorem stdinLoop_split (c : Ctx) (s : St) (cfg : OutCfg) (l1 : List Bytes) (l : Bytes) (l2 : List Bytes) (acc out : Bytes)
    (h : stdinLoop c s cfg (l1 ++ l :: l2) acc = .exit 0 (some out)) :
    ∃ o1 o o2, out = acc ++ o1 ++ o ++ o2 ∧ stdinLoop c s cfg l1 [] = .exit 0 (some o1) ∧
      stdinLoop c s cfg [l] [] = .exit 0 (some o) ∧ stdinLoop c s cfg l2 [] = .exit 0 (some o2) := by
  obtain ⟨outs, hlo, hout⟩ := (stdinLoop_ok_iff c s cfg _ acc out).mp h
  obtain ⟨o1s, rest, rfl, h1, h2⟩ := LinesOut.split l1 (l :: l2) outs hlo
  cases h2 with
  | cons hl h3 =>
    rename_i o o2s
    refine ⟨o1s.flatten, o, o2s.flatten, ?_, ?_, ?_, ?_⟩
    · rw [hout]; simp [List.append_assoc]
    · exact (stdinLoop_ok_iff c s cfg l1 [] _).mpr ⟨o1s, h1, by simp⟩
    · exact (stdinLoop_ok_iff c s cfg [l] [] _).mpr ⟨[o], LinesOut.cons hl LinesOut.nil, by simp⟩
    · exact (stdinLoop_ok_iff c s cfg l2 [] _).mpr ⟨o2s, h3, by simp⟩

end Hw.Calc
