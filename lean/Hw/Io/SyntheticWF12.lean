/-
  Hw.Io.SyntheticWF12 — `numa-osindex-unique` for `toDump t`: different NUMA nodes have different os_indexes, for every `t`
  with `topoOK t` whose NUMA index sequence has one distinct entry per NUMA node (`numaOK`).
-/
import Hw.Io.SyntheticWF11
namespace Hw.Syn
open Hw Hw.Topo

set_option linter.unusedSectionVars false
set_option linter.unusedSimpArgs false
set_option linter.unnecessarySimpa false

/-- the fourth side condition: one distinct os_index per NUMA node -/
def numaOK (t : Topo) : Bool :=
  decide t.numaIdx.Nodup && t.numaIdx.length == (specialIds (mkTab t) true ((mkTab t).D + 1) 0 0).length

section
variable (t : Topo) (h : OK t)
include h

theorem numa_pos (d k s : Nat) (hd : d ≤ (mkTab t).D) (hk : k < nOf (mkTab t) d) (hs : s < memLen (mkTab t) d) :
    (envOf t).numaL[postPos (mkTab t) (numaCnt (mkTab t)) d k s]? = some (numaId (mkTab t) d k s : Int) ∧
    postPos (mkTab t) (numaCnt (mkTab t)) d k s < (envOf t).numaL.length := by
  have hat : (envOf t).numaL[postPos (mkTab t) (numaCnt (mkTab t)) d k s]? = some (numaId (mkTab t) d k s : Int) := by
    have := level_at_postPos t h true d k s hd hk hs
    rw [own_numa_get _ d k s hs] at this
    exact this
  refine ⟨hat, ?_⟩
  rcases Nat.lt_or_ge (postPos (mkTab t) (numaCnt (mkTab t)) d k s) (envOf t).numaL.length with h1 | h1
  · exact h1
  · rw [List.getElem?_eq_none h1] at hat; cases hat

theorem tc_numa_osindex_unique (hn : numaOK t = true) :
    (fun (d : Dump) (_ : Aux) => decide (((d.objs.filter (fun o => o.type == tNUMA)).map (·.osidx)).Nodup)) (toDump t) (mkAux (toDump t)) = true := by
  simp only [decide_eq_true_eq]
  unfold numaOK at hn
  simp only [Bool.and_eq_true, decide_eq_true_eq, beq_iff_eq] at hn
  obtain ⟨hnd, hlen⟩ := hn
  have hnd' : ((toDump t).objs.filter (fun o => o.type == tNUMA)).Nodup := by
    have := (objs_pairwise t).filter (fun o => o.type == tNUMA)
    exact this.imp (fun {a b} hab heq => by rw [heq] at hab; exact Nat.lt_irrefl _ hab)
  unfold List.Nodup
  rw [List.pairwise_map]
  refine List.Pairwise.imp_of_mem ?_ hnd'
  intro a b ha hb hne heq
  rw [List.mem_filter, beq_iff_eq] at ha hb
  have key : ∀ x, x ∈ (toDump t).objs → x.type = tNUMA → ∃ d k s, d ≤ (mkTab t).D ∧ k < nOf (mkTab t) d ∧ s < memLen (mkTab t) d ∧
      x = numaObj (envOf t) d k s := by
    intro x hx hty
    cases objs_kind t x hx with
    | normal d k hd hk e =>
      rw [e, normalObj_type] at hty
      exact absurd hty (normal_facts _ (isNormal_lt _ (ntype_normal t h d hd))).1
    | numa d k s hd hk hs e => exact ⟨d, k, s, hd, hk, hs, e⟩
    | mc d k s hd hk hs hm e =>
      rw [e] at hty
      have : (mcObj (envOf t) d k s).type = tMEMCACHE := rfl
      rw [this] at hty; exact absurd hty (by decide)
  obtain ⟨d, k, s, hd, hk, hs, ea⟩ := key a ha.1 ha.2
  obtain ⟨d', k', s', hd', hk', hs', eb⟩ := key b hb.1 hb.2
  have oa : a.osidx = ((t.numaIdx[postPos (mkTab t) (numaCnt (mkTab t)) d k s]?.getD 0 : Nat) : Int) := by rw [ea]; rfl
  have ob : b.osidx = ((t.numaIdx[postPos (mkTab t) (numaCnt (mkTab t)) d' k' s']?.getD 0 : Nat) : Int) := by rw [eb]; rfl
  obtain ⟨p1, l1⟩ := numa_pos t h d k s hd hk hs
  obtain ⟨p2, l2⟩ := numa_pos t h d' k' s' hd' hk' hs'
  have hL : (envOf t).numaL.length = t.numaIdx.length := hlen.symm
  rw [hL] at l1 l2
  rw [oa, ob, List.getElem?_eq_getElem l1, List.getElem?_eq_getElem l2] at heq
  simp only [Option.getD_some] at heq
  have hpos : postPos (mkTab t) (numaCnt (mkTab t)) d k s = postPos (mkTab t) (numaCnt (mkTab t)) d' k' s' :=
    (List.getElem_inj hnd).1 (by omega)
  rw [hpos, p2] at p1
  have hid : numaId (mkTab t) d' k' s' = numaId (mkTab t) d k s := by
    have := Option.some.inj p1; omega
  -- equal ids: the same object
  have h1 := lookup_numa t d k s hd hk hs
  have h2 := lookup_numa t d' k' s' hd' hk' hs'
  rw [hid, h1] at h2
  exact hne (by rw [ea, eb]; exact Option.some.inj h2)

end

end Hw.Syn
