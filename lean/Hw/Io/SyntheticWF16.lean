/-
  Hw.Io.SyntheticWF16 — `nodeset-decomposition` for `toDump t`: for every normal object the memory children's nodesets are
  pairwise disjoint, the nodes attached at or below it (the bottom-up fold `below` of `Hw.Topo.mkAux`) are accumulated from
  pairwise disjoint parts, the nodes inherited from its ancestors' memory children (the top-down fold `inh`) are disjoint from
  them, and its nodeset is exactly the union of the two — for every `t` with `topoOK t` and `numaOK t`.

  Route: the generic recurrences `Hw.Topo.inh_rec` / `Hw.Topo.below_rec` (any dump whose ids are positions and whose parents come
  first) are instantiated on `toDump t` (`Iv_zero`, `Iv_succ`, `Bv_rec`); the bits of both folds are then characterised by the
  NUMA nodes (depth e, object x, slot s) on the path through the object (`Iv_bits`: e above, `Bv_bits`: e at or below, by induction
  on the depth), which is what the closed form `nodesetOf` lists; disjointness is injectivity of the os_index in (e, x, s)
  (`numaIdx_inj`, from `numaOK`).
-/
import Hw.Io.SyntheticWF15
import Hw.Io.SyntheticKs
import Hw.Io.SyntheticInj
import Hw.Io.SyntheticMemOr
import Hw.Topo.AuxInh
import Hw.Topo.AuxBelow
namespace Hw.Syn
open Hw Hw.Topo

set_option linter.unusedSectionVars false
set_option linter.unusedSimpArgs false
set_option linter.unusedVariables false

/-- nodes at or below (d, k): the value of the bottom-up fold at its index -/
def Bv (t : Topo) (d k : Nat) : Nat := getN (belowFold (toDump t)).1 (nid (mkTab t) d k)
/-- nodes inherited by (d, k): the value of the top-down fold at its index -/
def Iv (t : Topo) (d k : Nat) : Nat := getN (inhFold (toDump t)) (nid (mkTab t) d k)
/-- nodes of the memory children of (d, k) -/
def Ov (t : Topo) (d k : Nat) : Nat := (singles t d k).foldl (· ||| ·) 0

/-- the NUMA node in slot `s` of object `x` of depth `e` has os_index `b` -/
def nodeAt (t : Topo) (e x s b : Nat) : Prop :=
  s < memLen (mkTab t) e ∧ nu t (postPos (mkTab t) (numaCnt (mkTab t)) e x s) = b

theorem Ov_bits (t : Topo) (d k b : Nat) : (Ov t d k).testBit b = true ↔ ∃ s, nodeAt t d k s b := by
  unfold Ov singles nodeAt nu
  rw [testBit_foldl_or]
  simp only [Nat.zero_testBit, Bool.false_or, List.any_map, List.any_eq_true, List.mem_range, Function.comp, testBit_single,
    decide_eq_true_eq]

theorem toDump_hid (t : Topo) : ∀ i (hi : i < (toDump t).objs.length), ((toDump t).objs[i]).id = i := by
  intro i hi
  have h1 := toDump_ids t
  have hn : (toDump t).nobjs = (toDump t).objs.length := rfl
  have : ((toDump t).objs.map (·.id))[i]? = (List.range (toDump t).nobjs)[i]? := by rw [h1]
  rw [List.getElem?_map, List.getElem?_eq_getElem hi, hn, List.getElem?_range hi] at this
  simpa using this

theorem child_div (k a r : Nat) (hr : r < a) : (k * a + r) / a = k := by
  rw [Nat.mul_comm, Nat.mul_add_div (by omega), Nat.div_eq_of_lt hr]; omega

theorem pairwise_range_of_lt (n : Nat) (R : Nat → Nat → Prop) (hR : ∀ i j, i < j → j < n → R i j) : (List.range n).Pairwise R :=
  List.Pairwise.imp_of_mem (fun {a b} _ hb hab => hR a b hab (List.mem_range.1 hb)) List.pairwise_lt_range

theorem disjoint_comm (a b : Nat) : disjoint a b = disjoint b a := by unfold disjoint; rw [Nat.and_comm]

section
variable (t : Topo) (h : OK t)
include h

theorem toDump_hpar : ∀ o ∈ (toDump t).objs, isNormal o.type = true → 0 ≤ o.parent → o.parent.toNat < o.id := by
  intro o ho hn hp
  cases objs_kind t o ho with
  | normal d k hd hk e =>
    cases d with
    | zero =>
      have hm : (normalObj (envOf t) 0 k).parent = -1 := rfl
      rw [e, hm] at hp; omega
    | succ d =>
      have hd' : d < (mkTab t).D := hd
      rw [e, (normalObj_parent t d k hd').1, normalObj_id, envOf_T, nid_succ, ar_getD1 t d hd']
      simp only [Int.toNat_natCast]
      omega
  | numa d k s hd hk hs e => rw [e] at hn; cases hn
  | mc d k s hd hk hs hm e => rw [e] at hn; cases hn

theorem normalObj_isNormal (d k : Nat) (hd : d ≤ (mkTab t).D) : isNormal (normalObj (envOf t) d k).type = true := by
  rw [normalObj_type]; exact ntype_normal t h d hd

theorem Iv_zero : Iv t 0 0 = 0 := by
  have hk : 0 < nOf (mkTab t) 0 := by rw [nOf_zero]; exact Nat.one_pos
  have := inh_rec (toDump t) (toDump_hid t) (toDump_hpar t h) (normalObj (envOf t) 0 0) (normalObj_mem t 0 0 (Nat.zero_le _) hk)
    (normalObj_isNormal t h 0 0 (Nat.zero_le _))
  have hm : (normalObj (envOf t) 0 0).parent = -1 := rfl
  have hp : ¬ (0 ≤ (normalObj (envOf t) 0 0).parent) := by rw [hm]; omega
  rw [if_neg hp] at this
  exact this

theorem Iv_succ (d k : Nat) (hd : d < (mkTab t).D) (hk : k < nOf (mkTab t) (d + 1)) :
    Iv t (d + 1) k = Iv t d (k / arOf (mkTab t) d) ||| Ov t d (k / arOf (mkTab t) d) := by
  have := inh_rec (toDump t) (toDump_hid t) (toDump_hpar t h) (normalObj (envOf t) (d + 1) k) (normalObj_mem t (d + 1) k hd hk)
    (normalObj_isNormal t h (d + 1) k hd)
  rw [(normalObj_parent t d k hd).1, if_pos (Int.natCast_nonneg _), Int.toNat_natCast,
    (memOr_normal t h d _ (Nat.le_of_lt hd) (div_lt_parent t d k hd hk).2).1] at this
  exact this

/-- the list of values OR-ed into the `below` cell of (d, k): the children's values, last child first, then the memory children -/
def belowVals (t : Topo) (d k : Nat) : List Nat :=
  (List.range (arOf (mkTab t) d)).reverse.map (fun r => Bv t (d + 1) (k * arOf (mkTab t) d + r)) ++ [Ov t d k]

theorem Bv_rec (d k : Nat) (hd : d ≤ (mkTab t).D) (hk : k < nOf (mkTab t) d) :
    Bv t d k = (belowVals t d k).foldl (· ||| ·) 0 ∧
    getB (belowFold (toDump t)).2 (nid (mkTab t) d k) = seqDisj 0 (belowVals t d k) := by
  have := below_rec (toDump t) (toDump_hid t) (toDump_hpar t h) (normalObj (envOf t) d k) (normalObj_mem t d k hd hk)
    (normalObj_isNormal t h d k hd)
  simp only [normalObj_id, envOf_T, normalKids_toDump t h d k hd hk, (memOr_normal t h d k hd hk).1, ← List.map_reverse,
    List.map_map] at this
  exact this

theorem Bv_step (d k b : Nat) (hd : d ≤ (mkTab t).D) (hk : k < nOf (mkTab t) d) :
    (Bv t d k).testBit b = true ↔
      (∃ r, r < arOf (mkTab t) d ∧ (Bv t (d + 1) (k * arOf (mkTab t) d + r)).testBit b = true) ∨ (Ov t d k).testBit b = true := by
  rw [(Bv_rec t h d k hd hk).1, testBit_foldl_or]
  unfold belowVals
  simp only [Nat.zero_testBit, Bool.false_or, List.any_append, List.any_map, List.any_reverse, List.any_cons, List.any_nil,
    Bool.or_false, Bool.or_eq_true, List.any_eq_true, List.mem_range, Function.comp]

/-- bits of the bottom-up fold: the NUMA nodes attached to (d, k) or to one of its descendants -/
theorem Bv_bits : ∀ j d, d + j = (mkTab t).D → ∀ k, k < nOf (mkTab t) d → ∀ b,
    ((Bv t d k).testBit b = true ↔ ∃ e x s, d ≤ e ∧ e ≤ (mkTab t).D ∧ x ∈ ksOf (mkTab t) d k e ∧ nodeAt t e x s b) := by
  intro j
  induction j with
  | zero =>
    intro d hd k hk b
    have hd' : d ≤ (mkTab t).D := by omega
    rw [Bv_step t h d k b hd' hk, Ov_bits]
    have ha : arOf (mkTab t) d = 0 := by
      have : d = (mkTab t).D := by omega
      rw [this]; exact mkTab_ar_last t
    constructor
    · intro hb
      rcases hb with ⟨r, hr, _⟩ | ⟨s, hs⟩
      · omega
      · refine ⟨d, k, s, Nat.le_refl _, hd', ?_, hs⟩
        unfold ksOf; rw [if_neg (by omega), if_pos rfl]; exact List.mem_singleton.2 rfl
    · intro ⟨e, x, s, h1, h2, h3, h4⟩
      have he : e = d := by omega
      subst he
      unfold ksOf at h3; rw [if_neg (by omega), if_pos rfl] at h3
      rw [List.mem_singleton.1 h3] at h4
      exact .inr ⟨s, h4⟩
  | succ j ih =>
    intro d hd k hk b
    have hd' : d < (mkTab t).D := by omega
    rw [Bv_step t h d k b (Nat.le_of_lt hd') hk, Ov_bits]
    constructor
    · intro hb
      rcases hb with ⟨r, hr, hb⟩ | ⟨s, hs⟩
      · have hkc := child_lt t d k r hd' hk hr
        obtain ⟨e, x, s, h1, h2, h3, h4⟩ := (ih (d + 1) (by omega) _ hkc b).1 hb
        refine ⟨e, x, s, by omega, h2, ?_, h4⟩
        have := ksOf_child t h d _ hd' hkc e h2 x h3
        rw [child_div k _ r hr] at this
        exact this
      · refine ⟨d, k, s, Nat.le_refl _, Nat.le_of_lt hd', ?_, hs⟩
        unfold ksOf; rw [if_neg (by omega), if_pos rfl]; exact List.mem_singleton.2 rfl
    · intro ⟨e, x, s, h1, h2, h3, h4⟩
      by_cases he : e = d
      · subst he
        unfold ksOf at h3; rw [if_neg (by omega), if_pos rfl] at h3
        rw [List.mem_singleton.1 h3] at h4
        exact .inr ⟨s, h4⟩
      · obtain ⟨r, hr, hx⟩ := ksOf_split t h d k e x hd' hk (by omega) h2 h3
        have hkc := child_lt t d k r hd' hk hr
        exact .inl ⟨r, hr, (ih (d + 1) (by omega) _ hkc b).2 ⟨e, x, s, by omega, h2, hx, h4⟩⟩

/-- bits of the top-down fold: the NUMA nodes attached to the proper ancestors of (d, k) -/
theorem Iv_bits : ∀ d, d ≤ (mkTab t).D → ∀ k, k < nOf (mkTab t) d → ∀ b,
    ((Iv t d k).testBit b = true ↔ ∃ e x s, e < d ∧ x ∈ ksOf (mkTab t) d k e ∧ nodeAt t e x s b) := by
  intro d
  induction d with
  | zero =>
    intro _ k hk b
    rw [nOf_zero] at hk
    have : k = 0 := by omega
    subst this
    rw [Iv_zero t h, Nat.zero_testBit]
    constructor
    · intro hb; cases hb
    · intro ⟨e, _, _, he, _⟩; omega
  | succ d ih =>
    intro hd k hk b
    have hd' : d < (mkTab t).D := hd
    have hp := (div_lt_parent t d k hd' hk).2
    rw [Iv_succ t h d k hd' hk, Nat.testBit_or, Bool.or_eq_true, ih (Nat.le_of_lt hd') _ hp b, Ov_bits]
    constructor
    · intro hb
      rcases hb with ⟨e, x, s, h1, h2, h3⟩ | ⟨s, hs⟩
      · refine ⟨e, x, s, by omega, ?_, h3⟩
        rw [ksOf_le t h d k e hd' hk (by omega)]; exact h2
      · refine ⟨d, k / arOf (mkTab t) d, s, by omega, ?_, hs⟩
        rw [ksOf_le t h d k d hd' hk (Nat.le_refl _)]
        unfold ksOf; rw [if_neg (by omega), if_pos rfl]; exact List.mem_singleton.2 rfl
    · intro ⟨e, x, s, h1, h2, h3⟩
      rw [ksOf_le t h d k e hd' hk (by omega)] at h2
      by_cases he : e = d
      · subst he
        unfold ksOf at h2; rw [if_neg (by omega), if_pos rfl] at h2
        rw [List.mem_singleton.1 h2] at h3
        exact .inr ⟨s, h3⟩
      · exact .inl ⟨e, x, s, by omega, h2, h3⟩

/-- bits of the closed form `nodesetOf`: every NUMA node on the path through (d, k) -/
theorem nodesetOf_bits (d k b : Nat) :
    (nodesetOf (envOf t) d k).testBit b = true ↔ ∃ e x s, e ≤ (mkTab t).D ∧ x ∈ ksOf (mkTab t) d k e ∧ nodeAt t e x s b := by
  unfold nodesetOf
  rw [testBit_orBits, numaPositions_eq]
  simp only [List.contains_eq_mem, List.mem_map, List.mem_flatMap, List.mem_range, decide_eq_true_eq, envOf_T, envOf_t]
  constructor
  · intro ⟨p, ⟨e, he, x, hx, s, hs, hp⟩, hb⟩
    exact ⟨e, x, s, by omega, hx, hs, by rw [← hb, ← hp]; rfl⟩
  · intro ⟨e, x, s, he, hx, hs, hb⟩
    exact ⟨_, ⟨e, by omega, x, hx, s, hs, rfl⟩, hb⟩

/-- two NUMA nodes on paths through valid objects with the same os_index are the same node -/
theorem node_unique (hn : numaOK t = true) (d k d' k' e x s e' x' s' b : Nat) (hd : d ≤ (mkTab t).D) (hk : k < nOf (mkTab t) d)
    (hd' : d' ≤ (mkTab t).D) (hk' : k' < nOf (mkTab t) d')
    (he : e ≤ (mkTab t).D) (hx : x ∈ ksOf (mkTab t) d k e) (h1 : nodeAt t e x s b)
    (he' : e' ≤ (mkTab t).D) (hx' : x' ∈ ksOf (mkTab t) d' k' e') (h2 : nodeAt t e' x' s' b) : e = e' ∧ x = x' ∧ s = s' :=
  numaIdx_inj t h hn e x s e' x' s' he (ksOf_lt t h d k e x hd hk he hx) h1.1 he' (ksOf_lt t h d' k' e' x' hd' hk' he' hx') h2.1
    (by have := h1.2; have := h2.2; unfold nu at *; omega)

theorem self_ks (d k x : Nat) (hx : x ∈ ksOf (mkTab t) d k d) : x = k := by
  unfold ksOf at hx; rw [if_neg (by omega), if_pos rfl] at hx; exact List.mem_singleton.1 hx

/-- **nodeset-decomposition** -/
theorem cl_nodeset_decomposition (hn : numaOK t = true) (o : Obj) (ho : o ∈ (toDump t).objs) :
    (fun (_ : Dump) (a : Aux) (o : Obj) =>
      if isNormal o.type then
        getB a.memDisj o.id && getB a.belowDisj o.id && disjoint (getN a.inh o.id) (getN a.below o.id) &&
        o.nodeset == some (getN a.inh o.id ||| getN a.below o.id)
      else true) (toDump t) (mkAux (toDump t)) o = true := by
  cases objs_kind t o ho with
  | numa d k s hd hk hs e => rw [e]; rfl
  | mc d k s hd hk hs hm e => rw [e]; rfl
  | normal d k hd hk e =>
    obtain ⟨_, _, _, e4, _⟩ := mkAux_fold (toDump t)
    simp only [e, normalObj_isNormal t h d k hd, if_true, e4, mkAux_inh, (mkAux_below (toDump t)).1, (mkAux_below (toDump t)).2,
      normalObj_id, envOf_T, normalObj_nodeset, Bool.and_eq_true, beq_iff_eq]
    show ((getB (auxFold (toDump t)).memDisj (nid (mkTab t) d k) = true ∧ getB (belowFold (toDump t)).2 (nid (mkTab t) d k) = true) ∧
      disjoint (Iv t d k) (Bv t d k) = true) ∧ some (nodesetOf (envOf t) d k) = some (Iv t d k ||| Bv t d k)
    have hj : d + ((mkTab t).D - d) = (mkTab t).D := by omega
    have hB := Bv_bits t h _ d hj k hk
    have hI := Iv_bits t h d hd k hk
    have hself : ∀ e, e ≤ (mkTab t).D → ∀ x, x ∈ ksOf (mkTab t) d k e → x < nOf (mkTab t) e := fun e he x hx => ksOf_lt t h d k e x hd hk he hx
    refine ⟨⟨⟨?_, ?_⟩, ?_⟩, ?_⟩
    · -- the memory children's nodesets are pairwise disjoint
      rw [(memOr_normal t h d k hd hk).2]
      apply seqDisj_of_pairwise
      rw [List.pairwise_cons]
      refine ⟨fun y _ => disjoint_zero y, ?_⟩
      unfold singles
      rw [List.pairwise_map]
      apply pairwise_range_of_lt
      intro i j hij hj'
      rw [disjoint_iff]
      intro c ⟨h1, h2⟩
      rw [testBit_single] at h1 h2
      simp only [decide_eq_true_eq] at h1 h2
      have := numaIdx_inj t h hn d k i d k j hd hk (by omega) hd hk hj' (by rw [h1, h2])
      omega
    · -- the parts of `below` are pairwise disjoint
      rw [(Bv_rec t h d k hd hk).2]
      apply seqDisj_of_pairwise
      rw [List.pairwise_cons]
      refine ⟨fun y _ => disjoint_zero y, ?_⟩
      unfold belowVals
      rw [List.pairwise_append]
      refine ⟨?_, List.pairwise_singleton _ _, ?_⟩
      · rw [List.pairwise_map, List.pairwise_reverse]
        apply pairwise_range_of_lt
        intro i j hij hj'
        have hd' := ar_pos_lt t d hd (by omega)
        have hci := child_lt t d k i hd' hk (by omega)
        have hcj := child_lt t d k j hd' hk hj'
        rw [disjoint_iff]
        intro c ⟨h1, h2⟩
        obtain ⟨e1, x1, s1, a1, a2, a3, a4⟩ := (Bv_bits t h _ (d + 1) (by omega : d + 1 + ((mkTab t).D - (d + 1)) = (mkTab t).D) _ hcj c).1 h1
        obtain ⟨e2, x2, s2, b1, b2, b3, b4⟩ := (Bv_bits t h _ (d + 1) (by omega : d + 1 + ((mkTab t).D - (d + 1)) = (mkTab t).D) _ hci c).1 h2
        obtain ⟨q1, q2, q3⟩ := node_unique t h hn (d + 1) _ (d + 1) _ e1 x1 s1 e2 x2 s2 c hd' hcj hd' hci a2 a3 a4 b2 b3 b4
        subst q1; subst q2
        exact ksOf_disjoint t h (d + 1) _ _ e1 x1 a1 a2 (by omega) a3 b3
      · intro y hy z hz
        rw [List.mem_singleton] at hz
        subst hz
        obtain ⟨r, hr, rfl⟩ := List.mem_map.1 hy
        have hr' : r < arOf (mkTab t) d := by simpa using hr
        have hd' := ar_pos_lt t d hd (by omega)
        have hcr := child_lt t d k r hd' hk hr'
        rw [disjoint_iff]
        intro c ⟨h1, h2⟩
        obtain ⟨e1, x1, s1, a1, a2, a3, a4⟩ := (Bv_bits t h _ (d + 1) (by omega : d + 1 + ((mkTab t).D - (d + 1)) = (mkTab t).D) _ hcr c).1 h1
        obtain ⟨s2, b4⟩ := (Ov_bits t d k c).1 h2
        have hkk : k ∈ ksOf (mkTab t) d k d := by unfold ksOf; rw [if_neg (by omega), if_pos rfl]; exact List.mem_singleton.2 rfl
        obtain ⟨q1, _, _⟩ := node_unique t h hn (d + 1) _ d k e1 x1 s1 d k s2 c hd' hcr hd hk a2 a3 a4 hd hkk b4
        omega
    · -- inherited and local nodes are disjoint
      rw [disjoint_iff]
      intro c ⟨h1, h2⟩
      obtain ⟨e1, x1, s1, a1, a3, a4⟩ := (hI c).1 h1
      obtain ⟨e2, x2, s2, b1, b2, b3, b4⟩ := (hB c).1 h2
      obtain ⟨q1, _, _⟩ := node_unique t h hn d k d k e1 x1 s1 e2 x2 s2 c hd hk hd hk (by omega) a3 a4 b2 b3 b4
      omega
    · -- the nodeset is their union
      congr 1
      apply Nat.eq_of_testBit_eq
      intro c
      rw [Bool.eq_iff_iff, Nat.testBit_or, Bool.or_eq_true, nodesetOf_bits t h d k c, hI c, hB c]
      constructor
      · intro ⟨e, x, s, h1, h2, h3⟩
        by_cases he : e < d
        · exact .inl ⟨e, x, s, he, h2, h3⟩
        · exact .inr ⟨e, x, s, by omega, h1, h2, h3⟩
      · intro hb
        rcases hb with ⟨e, x, s, h1, h2, h3⟩ | ⟨e, x, s, h1, h2, h3, h4⟩
        · exact ⟨e, x, s, by omega, h2, h3⟩
        · exact ⟨e, x, s, h2, h3, h4⟩

end

end Hw.Syn
