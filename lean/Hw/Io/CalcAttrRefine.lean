/-
  Hw.Io.CalcAttrRefine — `calcMainX` (Hw/Io/CalcAttr.lean) is a conservative extension of `calcMain` (Hw/Io/Calc.lean):
  whenever the old option loop accepts an argument list (none of the four memory options occurs: they made it answer `skip`),
  the new loop ends in the same option state with an untouched memory-option state, and the run of `calcMainX` without
  `--cpukind`, without pseudo levels is the run of `calcMain`.
-/
import Hw.Io.CalcAttrLemmas
namespace Hw.Calc
open Hw Hw.Topo

theorem not_skipOpt {a : Bytes} (h : ¬ isOpt skipOpts a = true) :
    (a == str "--default-nodes") = false ∧ (a == str "--local-memory") = false ∧
    (a == str "--local-memory-flags") = false ∧ (a == str "--best-memattr") = false := by
  refine ⟨?_, ?_, ?_, ?_⟩ <;>
  · cases hb : (a == _) with
    | false => rfl
    | true =>
      exfalso; apply h
      have := eq_of_beq hb
      subst this
      decide

/-- the new option loop follows the old one wherever the old one goes through -/
theorem argLoopX_of_argLoop (c : Ctx) : ∀ (n : Nat) (argv : List Bytes) (s s' : St) (xs : XSt), argv.length ≤ n →
    argLoop c s argv = .ok s' → argLoopX c s xs argv = .ok (s', xs) := by
  intro n
  induction n with
  | zero =>
    intro argv s s' xs hl h
    cases argv with
    | nil => unfold argLoop at h; injection h with h; subst h; unfold argLoopX; rfl
    | cons a r => simp at hl
  | succ n ih =>
    intro argv s s' xs hl h
    cases argv with
    | nil => unfold argLoop at h; injection h with h; subst h; unfold argLoopX; rfl
    | cons a rest =>
      have hlr : rest.length ≤ n := by simp at hl; omega
      unfold argLoop at h
      unfold argLoopX
      by_cases hd : (a.head? == some 45) = true
      · rw [if_pos hd] at h ⊢
        by_cases h1 : isOpt skipOpts a = true
        · rw [if_pos h1] at h; cases h
        · rw [if_neg h1] at h
          obtain ⟨n1, n2, n3, n4⟩ := not_skipOpt h1
          unfold optKind
          simp only [n1, n2, n3, n4, Bool.false_eq_true, if_false]
          rw [if_neg h1]
          by_cases h2 : startsWith a (str "--no-smt=") = true
          · rw [if_pos h2] at h ⊢
            cases hat : atoiDigits (a.drop 9) with
            | none => rw [hat] at h; cases h
            | some k => rw [hat] at h; simp only at h ⊢; exact ih rest _ s' xs hlr h
          · rw [if_neg h2] at h ⊢
            by_cases h3 : isOpt flagOpts a = true
            · rw [if_pos h3] at h ⊢
              exact ih rest _ s' xs hlr h
            · rw [if_neg h3] at h ⊢
              by_cases h4 : isOpt argOpts a = true
              · rw [if_pos h4] at h ⊢
                cases rest with
                | nil => cases h
                | cons v rest' =>
                  simp only at h ⊢
                  cases hst : stepArgOpt s a v with
                  | none => rw [hst] at h; cases h
                  | some s1 =>
                    rw [hst] at h
                    simp only [Option.map] at h ⊢
                    have hlr' : rest'.length ≤ n := by simp at hlr; omega
                    exact ih rest' s1 s' xs hlr' h
              · rw [if_neg h4] at h; cases h
      · rw [if_neg hd] at h ⊢
        cases hst : stepLoc c s a with
        | error e => rw [hst] at h; cases h
        | ok s1 =>
          rw [hst] at h
          simp only at h ⊢
          exact ih rest s1 s' xs hlr h

theorem outputX_plain (c : Ctx) (x : Extra) (s : St) (cfg : OutCfg) (cpuset nodeset : Bitmap) :
    outputX c x none s {} cfg {} cpuset nodeset = output c s cfg cpuset nodeset := by
  rw [outputX_eq_output c x none s {} cfg cpuset nodeset rfl]
  rfl

theorem lineOutX_plain (c : Ctx) (x : Extra) (s : St) (cfg : OutCfg) (line : Bytes) :
    lineOutX c x none s {} cfg {} line = lineOut c s cfg line := by
  unfold lineOutX lineOut
  cases lineFold c s line with
  | error e => rfl
  | ok s1 => simp only [outputX_plain, cpusetAfterKind]; rfl

theorem stdinLoopX_plain (c : Ctx) (x : Extra) (s : St) (cfg : OutCfg) : ∀ (lines : List Bytes) (acc : Bytes),
    stdinLoopX c x none s {} cfg {} lines acc = stdinLoop c s cfg lines acc := by
  intro lines
  induction lines with
  | nil => intro acc; rfl
  | cons l r ih =>
    intro acc
    simp only [stdinLoopX, stdinLoop, lineOutX_plain]
    cases lineOut c s cfg l with
    | stop r => rfl
    | out o => exact ih _

theorem topoLoop_plain (argv : List Bytes) (h0 : ∀ a, argv.head? = some a → isOpt topoOpts a = false) :
    topoLoop {} argv = .ok ({}, argv) := by
  cases argv with
  | nil => rfl
  | cons a rest =>
    have h := h0 a rfl
    have hk : (a == str "--cpukind") = false := by
      cases hb : (a == str "--cpukind") with
      | false => rfl
      | true =>
        have := eq_of_beq hb
        subst this
        revert h; decide
    unfold topoLoop
    simp only [hk, h, Bool.false_eq_true, if_false]

theorem adjustNodesetO_fields (s : St) (conv : Bool) :
    (adjustNodesetO s conv).numberOf = s.numberOf ∧ (adjustNodesetO s conv).intersect = s.intersect := by
  unfold adjustNodesetO
  split <;> exact ⟨rfl, rfl⟩

theorem dropPseudo_id (s : St) (hn : pseudoOf s.numberOf = none) (hi : pseudoOf s.intersect = none) : dropPseudo s = s := by
  unfold dropPseudo
  rw [hn, hi]
  rfl

/-- conservative extension: on a command line without `--cpukind`, on which the old option loop goes through (so none of the four
    memory options occurs) and whose -N / -I arguments are not the cpukind / memorytier pseudo levels, `calcMainX` IS `calcMain`,
    whatever the harness reports about CPU kinds and memory attributes -/
theorem calcMainX_eq_calcMain (d : Dump) (x : Extra) (argv : List Bytes) (stdin : Bytes) (s : St)
    (h0 : ∀ a, argv.head? = some a → isOpt topoOpts a = false)
    (hs : argLoop (mkCtx d) {} argv = .ok s)
    (hn : pseudoOf s.numberOf = none) (hi : pseudoOf s.intersect = none) :
    calcMainX d x argv stdin = calcMain d argv stdin := by
  have hgo : calcMain d argv stdin = calcMain.go stdin (mkCtx d) argv := by
    unfold calcMain
    cases argv with
    | nil => rfl
    | cons a r => simp only [h0 a rfl, Bool.false_eq_true, if_false]
  rw [hgo]
  unfold calcMainX calcMain.go
  simp only [topoLoop_plain argv h0, argLoopX_of_argLoop (mkCtx d) argv.length argv {} s {} (Nat.le_refl _) hs, hs, kindSet]
  unfold calcTailX
  have hconv : (s.largest || s.numberOf.isSome || s.intersect.isSome || s.hier.isSome || ({} : XSt).localMem) =
      (s.largest || s.numberOf.isSome || s.intersect.isSome || s.hier.isSome) := by
    show (_ || false) = _
    rw [Bool.or_false]
  rw [hconv]
  generalize hc : (s.largest || s.numberOf.isSome || s.intersect.isSome || s.hier.isSome) = conv
  have hf := adjustNodesetO_fields s conv
  have hd : dropPseudo (adjustNodesetO s conv) = adjustNodesetO s conv :=
    dropPseudo_id _ (by rw [hf.1]; exact hn) (by rw [hf.2]; exact hi)
  have hsa : (if (conv && s.nodesetO && !s.nodesetI) = true then { s with nodesetO := false } else s) = adjustNodesetO s conv := rfl
  simp only [hd, hsa, hf.1, hf.2, hn, hi]
  generalize adjustNodesetO s conv = sa
  cases outCfg (mkCtx d).d sa with
  | unmodelled => rfl
  | out => rfl
  | ok cfg =>
    have hb : bestCfg x ({} : XSt) = some (some none) := rfl
    simp only [hb, cpusetAfterKind]
    have hx : ({ numP := none, intP := none, best := none } : XCfg) = {} := rfl
    simp only [hx, outputX_plain, stdinLoopX_plain]
    rfl

end Hw.Calc
