/-
  Hw.Io.Base64 — literal model of hwloc/base64.c (`hwloc_encode_to_base64`, `hwloc_decode_from_base64`).

  Bytes are `Nat` (`Hw.Nat`), the caller's target is a `List Nat` of length `targsize` (its initial
  content is arbitrary: the harness pre-fills it with 0xAA and compares the whole buffer afterwards).
  Every store goes through `wr`, which also logs the index, so that "never writes at or beyond
  targsize" is a statement about the log and not an artefact of `List.set` ignoring bad indexes.
  Shifts and masks of the C code are written arithmetically (`x >> k = x / 2^k`, `x & (2^k-1) = x % 2^k`,
  `x << k = x * 2^k`); `|=` stays a bitwise or.
-/
import Hw.Base.Num
namespace Hw.B64

/-- `static const char Base64[]` -/
def alphabet : List Nat := str "ABCDEFGHIJKLMNOPQRSTUVWXYZabcdefghijklmnopqrstuvwxyz0123456789+/"
def pad64 : Nat := 61

/-- `Base64[i]` -/
def b64char (i : Nat) : Nat :=
  if i < 26 then 65 + i else if i < 52 then 97 + (i - 26) else if i < 62 then 48 + (i - 52) else if i = 62 then 43 else 47

/-- `strchr(Base64, ch) - Base64` for a non-NUL `ch` -/
def b64index (c : Nat) : Option Nat :=
  if 65 ≤ c ∧ c ≤ 90 then some (c - 65)
  else if 97 ≤ c ∧ c ≤ 122 then some (c - 97 + 26)
  else if 48 ≤ c ∧ c ≤ 57 then some (c - 48 + 52)
  else if c = 43 then some 62
  else if c = 47 then some 63
  else none

/-- a target buffer with the log of written indexes -/
structure Tgt where
  cells : List Nat
  writes : List Nat := []
deriving Repr, DecidableEq

def Tgt.size (t : Tgt) : Nat := t.cells.length
def Tgt.wr (t : Tgt) (i : Nat) (c : Nat) : Tgt := { cells := t.cells.set i c, writes := i :: t.writes }
def Tgt.rd (t : Tgt) (i : Nat) : Nat := t.cells.getD i 0

/-! ### encoder -/

/-- the two loops of the encoder: full 3-byte groups, then the padded tail.  `(ok, datalength, target)`;
    `ok = false` is the `return -1` of a `datalength + 4 > targsize` check -/
def encGo : List Nat → Nat → Tgt → Bool × Nat × Tgt
  | a :: b :: c :: rest, dl, t =>
    if dl + 4 > t.size then (false, dl, t)
    else encGo rest (dl + 4)
      ((((t.wr dl (b64char (a / 4))).wr (dl + 1) (b64char ((a % 4) * 16 + b / 16))).wr (dl + 2)
        (b64char ((b % 16) * 4 + c / 64))).wr (dl + 3) (b64char (c % 64)))
  | [a, b], dl, t =>
    if dl + 4 > t.size then (false, dl, t)
    else (true, dl + 4,
      ((((t.wr dl (b64char (a / 4))).wr (dl + 1) (b64char ((a % 4) * 16 + b / 16))).wr (dl + 2)
        (b64char ((b % 16) * 4 + 0 / 64))).wr (dl + 3) pad64))
  | [a], dl, t =>
    if dl + 4 > t.size then (false, dl, t)
    else (true, dl + 4,
      ((((t.wr dl (b64char (a / 4))).wr (dl + 1) (b64char ((a % 4) * 16 + 0 / 16))).wr (dl + 2) pad64).wr (dl + 3) pad64))
  | [], dl, t => (true, dl, t)

/-- `hwloc_encode_to_base64(src, srclength, target, targsize)`: return value (−1 on error) and the target afterwards -/
def encode (src : List Nat) (t : Tgt) : Int × Tgt :=
  match encGo src 0 t with
  | (false, _, t') => (-1, t')
  | (true, dl, t') => if dl ≥ t.size then (-1, t') else ((dl : Int), t'.wr dl 0)

/-- the text the encoder produces (without the NUL) when the target is large enough -/
def encText : List Nat → List Nat
  | a :: b :: c :: rest =>
    b64char (a / 4) :: b64char ((a % 4) * 16 + b / 16) :: b64char ((b % 16) * 4 + c / 64) :: b64char (c % 64) :: encText rest
  | [a, b] => [b64char (a / 4), b64char ((a % 4) * 16 + b / 16), b64char ((b % 16) * 4), pad64]
  | [a] => [b64char (a / 4), b64char ((a % 4) * 16), pad64, pad64]
  | [] => []

/-- `BASE64_ENCODED_LENGTH(n)` of topology-xml.c -/
def encodedLength (n : Nat) : Nat := 4 * ((n + 2) / 3)

/-! ### decoder -/

/-- `isspace()` in the C locale -/
def isspaceC (c : Nat) : Bool := c == 32 || (9 ≤ c && c ≤ 13)

inductive DecOut
  | err (t : Option Tgt)                                   -- return -1 inside the main loop
  | eos (state tarindex : Nat) (t : Option Tgt)            -- the terminating NUL was read
  | pad (rest : List Nat) (state tarindex : Nat) (t : Option Tgt)   -- a '=' was read; `rest` follows it
deriving Repr, DecidableEq

/-- the main `while ((ch = *src++) != '\0')` loop; `t = none` models `target == NULL` -/
def decGo : List Nat → Nat → Nat → Option Tgt → DecOut
  | [], st, ti, t => .eos st ti t
  | ch :: r, st, ti, t =>
    if isspaceC ch then decGo r st ti t
    else if ch = pad64 then .pad r st ti t
    else match b64index ch with
      | none => .err t
      | some p =>
        if st = 0 then
          match t with
          | none => decGo r 1 ti none
          | some tg => if ti ≥ tg.size then .err t else decGo r 1 ti (some (tg.wr ti (p * 4)))
        else if st = 1 then
          match t with
          | none => decGo r 2 (ti + 1) none
          | some tg =>
            if ti + 1 ≥ tg.size then .err t
            else decGo r 2 (ti + 1) (some ((tg.wr ti (tg.rd ti ||| p / 16)).wr (ti + 1) ((p % 16) * 16)))
        else if st = 2 then
          match t with
          | none => decGo r 3 (ti + 1) none
          | some tg =>
            if ti + 1 ≥ tg.size then .err t
            else decGo r 3 (ti + 1) (some ((tg.wr ti (tg.rd ti ||| p / 4)).wr (ti + 1) ((p % 4) * 64)))
        else
          match t with
          | none => decGo r 0 (ti + 1) none
          | some tg => if ti ≥ tg.size then .err t else decGo r 0 (ti + 1) (some (tg.wr ti (tg.rd ti ||| p)))

/-- "case 3" of the pad handling: only whitespace may follow, and the slop bits must be zero -/
def tail3 (r : List Nat) (ti : Nat) (t : Option Tgt) : Int :=
  if r.all isspaceC then
    match t with
    | some tg => if tg.rd ti ≠ 0 then -1 else (ti : Int)
    | none => (ti : Int)
  else -1

/-- what follows the first '=' -/
def decTail (r : List Nat) (st ti : Nat) (t : Option Tgt) : Int :=
  if st = 0 ∨ st = 1 then -1
  else if st = 2 then
    match r.dropWhile isspaceC with
    | c :: r2 => if c = pad64 then tail3 r2 ti t else -1
    | [] => -1
  else tail3 r ti t

/-- `hwloc_decode_from_base64(src, target, targsize)` on a NUL-free `src` (the NUL terminator is the end of the list) -/
def decode (src : List Nat) (t : Option Tgt) : Int × Option Tgt :=
  match decGo src 0 0 t with
  | .err t' => (-1, t')
  | .eos st ti t' => (if st ≠ 0 then -1 else (ti : Int), t')
  | .pad r st ti t' => (decTail r st ti t', t')

end Hw.B64
