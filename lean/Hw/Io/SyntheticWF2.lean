/-
  Hw.Io.SyntheticWF2 — more WF clauses of `toDump t` for every `t` with `topoOK t`: children arrays and sibling links of
  normal objects, the memory-children lists (heads and links), NUMA level non-empty.
-/
import Hw.Io.SyntheticWF
namespace Hw.Syn
open Hw Hw.Topo

set_option linter.unusedSectionVars false
set_option linter.unusedSimpArgs false

theorem normalObj_sibs (t : Topo) (d k : Nat) (hd : d < (mkTab t).D) :
    (normalObj (envOf t) (d + 1) k).prevSib = (if k % arOf (mkTab t) d > 0 then (nid (mkTab t) (d + 1) (k - 1) : Int) else -1) ∧
    (normalObj (envOf t) (d + 1) k).nextSib = (if k % arOf (mkTab t) d + 1 < arOf (mkTab t) d then (nid (mkTab t) (d + 1) (k + 1) : Int) else -1) := by
  have h1 := ar_getD1 t d hd
  constructor
  · show (if d + 1 ≠ 0 ∧ k % (if d + 1 = 0 then 1 else (mkTab t).ar[d + 1 - 1]?.getD 1) > 0 then (nid (mkTab t) (d + 1) (k - 1) : Int) else -1) = _
    simp only [Nat.add_one_ne_zero, if_false, Nat.add_sub_cancel, h1, ne_eq, not_false_eq_true, true_and]
  · show (if d + 1 ≠ 0 ∧ k % (if d + 1 = 0 then 1 else (mkTab t).ar[d + 1 - 1]?.getD 1) + 1 < (if d + 1 = 0 then 1 else (mkTab t).ar[d + 1 - 1]?.getD 1) then (nid (mkTab t) (d + 1) (k + 1) : Int) else -1) = _
    simp only [Nat.add_one_ne_zero, if_false, Nat.add_sub_cancel, h1, ne_eq, not_false_eq_true, true_and]

theorem normalObj_children (E : DEnv) (d k : Nat) :
    (normalObj E d k).children = (List.range (arOf E.T d)).map (fun r => (nid E.T (d + 1) (k * arOf E.T d + r) : Int)) := rfl
theorem normalObj_firstChild (E : DEnv) (d k : Nat) :
    (normalObj E d k).firstChild = if arOf E.T d > 0 then (nid E.T (d + 1) (k * arOf E.T d) : Int) else -1 := rfl
theorem normalObj_lastChild (E : DEnv) (d k : Nat) :
    (normalObj E d k).lastChild = if arOf E.T d > 0 then (nid E.T (d + 1) (k * arOf E.T d + arOf E.T d - 1) : Int) else -1 := rfl

theorem ar_pos_lt (t : Topo) (d : Nat) (hd : d ≤ (mkTab t).D) (ha : 0 < arOf (mkTab t) d) : d < (mkTab t).D := by
  rcases Nat.lt_or_ge d (mkTab t).D with h1 | h1
  · exact h1
  · have : d = (mkTab t).D := by omega
    rw [this, mkTab_ar_last] at ha; omega

section
variable (t : Topo) (h : OK t)
include h

theorem cl_children_array (o : Obj) (ho : o ∈ (toDump t).objs) :
    (fun (d : Dump) (_ : Aux) (o : Obj) => o.children.length == o.arity &&
      o.firstChild == (o.children.head?).getD (-1) && o.lastChild == (o.children.getLast?).getD (-1) &&
      (List.range o.arity).all (fun i => match d.obj? ((o.children[i]?).getD (-2)) with
        | none => false
        | some c => c.parent == (o.id : Int) && c.rank == i && isNormal c.type &&
                    c.prevSib == (if i = 0 then -1 else (o.children[i-1]?).getD (-2)) &&
                    c.nextSib == (o.children[i+1]?).getD (-1))) (toDump t) (mkAux (toDump t)) o = true := by
  cases objs_kind t o ho with
  | normal d k hd hk e =>
    generalize ha : arOf (mkTab t) d = a
    simp only [e, normalObj_children, normalObj_firstChild, normalObj_lastChild, normalObj_arity, normalObj_id, envOf_T, ha,
      List.length_map, List.length_range, beq_self_eq_true, Bool.true_and, Bool.and_eq_true, List.all_eq_true, List.mem_range]
    refine ⟨⟨?_, ?_⟩, ?_⟩
    · rcases Nat.eq_zero_or_pos a with h0 | h0
      · subst h0; rfl
      · rw [if_pos h0]
        obtain ⟨b, rfl⟩ : ∃ b, a = b + 1 := ⟨a - 1, by omega⟩
        simp [List.range_succ_eq_map]
    · rcases Nat.eq_zero_or_pos a with h0 | h0
      · subst h0; rfl
      · rw [if_pos h0]
        obtain ⟨b, rfl⟩ : ∃ b, a = b + 1 := ⟨a - 1, by omega⟩
        rw [List.range_succ, List.map_append]
        simp
    · intro i hi
      have hapos : 0 < arOf (mkTab t) d := by omega
      have hd' := ar_pos_lt t d hd hapos
      have hi' : i < arOf (mkTab t) d := by omega
      have hkc := child_lt t d k i hd' hk hi'
      rw [ha] at hkc
      have e1 : (k * a + i) / a = k := by
        rw [Nat.mul_comm, Nat.mul_add_div (by omega), Nat.div_eq_of_lt hi]; omega
      have e2 : (k * a + i) % a = i := by
        rw [Nat.mul_comm, Nat.mul_add_mod, Nat.mod_eq_of_lt hi]
      have hl := lookup_normal t (d + 1) (k * a + i) hd' hkc
      have hp := normalObj_parent t d (k * a + i) hd'
      have hs := normalObj_sibs t d (k * a + i) hd'
      rw [ha, e1] at hp
      rw [ha] at hs
      rw [e2] at hp hs
      simp only [List.getElem?_map, List.getElem?_range hi, Option.map_some, Option.getD_some, hl, hp.1, hp.2, hs.1, hs.2,
        normalObj_type, ntype_normal t h (d + 1) hd', beq_self_eq_true, Bool.true_and, Bool.and_true, Bool.and_eq_true, beq_iff_eq]
      constructor
      · rcases Nat.eq_zero_or_pos i with h0 | h0
        · subst h0; simp
        · have hi1 : i - 1 < a := by omega
          rw [if_pos h0, if_neg (by omega), List.getElem?_range hi1]
          have : k * a + i - 1 = k * a + (i - 1) := by omega
          rw [this]; rfl
      · by_cases hn : i + 1 < a
        · rw [if_pos hn, List.getElem?_range hn]; rfl
        · rw [if_neg hn, List.getElem?_eq_none (by simpa using hn)]; rfl
  | numa d k s hd hk hs e => rw [e]; rfl
  | mc d k s hd hk hs hm e => rw [e]; rfl

end

/-! ### memory children -/

theorem numaObj_mc (E : DEnv) (d k s : Nat) (hm : (slotM E d s).msc ≠ 0) :
    (numaObj E d k s).id = memId E.T d k s + 1 ∧ (numaObj E d k s).parent = (memId E.T d k s : Int) ∧ (numaObj E d k s).rank = 0 ∧
    (numaObj E d k s).nextSib = -1 ∧ (numaObj E d k s).prevSib = -1 := by
  have hm' : ¬ ((E.T.mem[d]?.getD [])[s]?.getD ⟨0, 0⟩).msc = 0 := hm
  refine ⟨?_, ?_, ?_, ?_, ?_⟩ <;> simp only [numaObj, numaId, ne_eq, hm', not_false_eq_true, if_true]

theorem numaObj_nomc (E : DEnv) (d k s : Nat) (hm : ¬ (slotM E d s).msc ≠ 0) :
    (numaObj E d k s).id = memId E.T d k s ∧ (numaObj E d k s).parent = (nid E.T d k : Int) ∧ (numaObj E d k s).rank = s ∧
    (numaObj E d k s).nextSib = (if s + 1 < memLen E.T d then (memId E.T d k (s + 1) : Int) else -1) ∧
    (numaObj E d k s).prevSib = (if s > 0 then (memId E.T d k (s - 1) : Int) else -1) := by
  have hm' : ((E.T.mem[d]?.getD [])[s]?.getD ⟨0, 0⟩).msc = 0 := Classical.not_not.1 hm
  refine ⟨?_, ?_, ?_, ?_, ?_⟩ <;> (simp only [numaObj, numaId, memLen, ne_eq, hm', not_true_eq_false, if_false, Nat.add_zero] <;> rfl)

/-- the first object of memory slot `s`: the memory-side cache if there is one, else the NUMA node -/
def firstObj (E : DEnv) (d k s : Nat) : Obj := if (slotM E d s).msc ≠ 0 then mcObj E d k s else numaObj E d k s

theorem firstObj_fields (E : DEnv) (d k s : Nat) :
    (firstObj E d k s).id = memId E.T d k s ∧ (firstObj E d k s).parent = (nid E.T d k : Int) ∧ (firstObj E d k s).rank = s ∧
    (firstObj E d k s).nextSib = (if s + 1 < memLen E.T d then (memId E.T d k (s + 1) : Int) else -1) ∧
    (firstObj E d k s).prevSib = (if s > 0 then (memId E.T d k (s - 1) : Int) else -1) ∧
    isMemory (firstObj E d k s).type = true := by
  unfold firstObj
  split
  · exact ⟨rfl, rfl, rfl, rfl, rfl, rfl⟩
  · rename_i hm
    have := numaObj_nomc E d k s hm
    exact ⟨this.1, this.2.1, this.2.2.1, this.2.2.2.1, this.2.2.2.2, rfl⟩

theorem lookup_first (t : Topo) (d k s : Nat) (hd : d ≤ (mkTab t).D) (hk : k < nOf (mkTab t) d) (hs : s < memLen (mkTab t) d) :
    (toDump t).obj? (memId (mkTab t) d k s : Int) = some (firstObj (envOf t) d k s) := by
  unfold firstObj
  split
  · rename_i hm; exact lookup_mc t d k s hd hk hs hm
  · rename_i hm
    have := lookup_numa t d k s hd hk hs
    have hid : numaId (mkTab t) d k s = memId (mkTab t) d k s := by
      have := (numaObj_nomc (envOf t) d k s hm).1
      exact this
    rw [hid] at this; exact this

theorem memId_succ (T : DTab) (d k s : Nat) (hs : s < memLen T d) :
    memId T d k (s + 1) = memId T d k s + msz ((T.mem[d]?.getD [])[s]?.getD ⟨0, 0⟩) := by
  unfold memId memLen at *
  generalize T.mem[d]?.getD [] = ms at *
  have htake : ((ms.take (s + 1)).map msz).sum = ((ms.take s).map msz).sum + msz (ms[s]?.getD ⟨0, 0⟩) := by
    rw [List.getElem?_eq_getElem hs, Option.getD_some, List.map_take, List.map_take, List.take_add_one]
    have : (List.map msz ms)[s]? = some (msz ms[s]) := by simp [hs]
    rw [this]
    simp [List.sum_append]
  rw [htake]; omega

theorem msz_pos (m : MemChild) : 1 ≤ msz m := by unfold msz; split <;> omega

theorem memId_mono (T : DTab) (d k : Nat) : ∀ j s, s + j < memLen T d → memId T d k s + j ≤ memId T d k (s + j) := by
  intro j
  induction j with
  | zero => intro s _; exact Nat.le_refl _
  | succ j ih =>
    intro s hs
    have h1 := ih s (by omega)
    have h2 := memId_succ T d k (s + j) (by omega)
    have h3 := msz_pos ((T.mem[d]?.getD [])[s + j]?.getD ⟨0, 0⟩)
    show memId T d k s + (j + 1) ≤ memId T d k (s + j + 1)
    rw [h2]; omega

theorem normalObj_memFirst (E : DEnv) (d k : Nat) :
    (normalObj E d k).memFirst = if memLen E.T d > 0 then (memId E.T d k 0 : Int) else -1 := rfl

theorem obj?_neg1 (d : Dump) : d.obj? (-1) = none := rfl

section
variable (t : Topo) (h : OK t)
include h

theorem cl_special_list_heads (o : Obj) (ho : o ∈ (toDump t).objs) :
    (fun (d : Dump) (_ : Aux) (o : Obj) =>
      let chk (first : Int) (ar : Nat) (kind : Nat → Bool) : Bool :=
        if ar == 0 then first == -1 else match d.obj? first with
          | none => false
          | some c => c.parent == (o.id : Int) && c.rank == 0 && kind c.type && c.prevSib == -1
      chk o.memFirst o.marity isMemory && chk o.ioFirst o.ioarity isIO && chk o.miscFirst o.miscarity isMisc)
      (toDump t) (mkAux (toDump t)) o = true := by
  cases objs_kind t o ho with
  | normal d k hd hk e =>
    have hio : (normalObj (envOf t) d k).ioarity = 0 ∧ (normalObj (envOf t) d k).ioFirst = -1 ∧
        (normalObj (envOf t) d k).miscarity = 0 ∧ (normalObj (envOf t) d k).miscFirst = -1 := ⟨rfl, rfl, rfl, rfl⟩
    simp only [e, hio.1, hio.2.1, hio.2.2.1, hio.2.2.2, normalObj_marity, normalObj_memFirst, normalObj_id,
      beq_self_eq_true, if_true, Bool.and_true]
    rcases Nat.eq_zero_or_pos (memLen (envOf t).T d) with h0 | h0
    · rw [h0]; rfl
    · have hne : (memLen (envOf t).T d == 0) = false := by simp; omega
      have hl : (toDump t).obj? (memId (envOf t).T d k 0 : Int) = some (firstObj (envOf t) d k 0) := lookup_first t d k 0 hd hk h0
      rw [hne, if_pos h0, hl]
      have hf := firstObj_fields (envOf t) d k 0
      simp only [Bool.false_eq_true, if_false, hf.1, hf.2.1, hf.2.2.1, hf.2.2.2.2.1, hf.2.2.2.2.2, beq_self_eq_true,
        Bool.and_self]
      rfl
  | numa d k s hd hk hs e => rw [e]; rfl
  | mc d k s hd hk hs hm e =>
    have hf : (mcObj (envOf t) d k s).marity = 1 ∧ (mcObj (envOf t) d k s).memFirst = (numaId (mkTab t) d k s : Int) ∧
        (mcObj (envOf t) d k s).ioarity = 0 ∧ (mcObj (envOf t) d k s).ioFirst = -1 ∧
        (mcObj (envOf t) d k s).miscarity = 0 ∧ (mcObj (envOf t) d k s).miscFirst = -1 ∧
        (mcObj (envOf t) d k s).id = memId (mkTab t) d k s := ⟨rfl, rfl, rfl, rfl, rfl, rfl, rfl⟩
    have hn := numaObj_mc (envOf t) d k s hm
    simp only [e, hf.1, hf.2.1, hf.2.2.1, hf.2.2.2.1, hf.2.2.2.2.1, hf.2.2.2.2.2.1, hf.2.2.2.2.2.2, lookup_numa t d k s hd hk hs,
      hn.2.1, hn.2.2.1, hn.2.2.2.2, envOf_T, beq_self_eq_true, if_true, Bool.and_true]
    rfl

end

theorem firstObj_type (E : DEnv) (d k s : Nat) :
    isNormal (firstObj E d k s).type = false ∧ isMemory (firstObj E d k s).type = true := by
  unfold firstObj; split <;> exact ⟨rfl, rfl⟩

theorem sameKind_mem (a b : Nat) (ha : isMemory a = true) (hb : isMemory b = true) : sameKind a b = true := by
  unfold sameKind; simp [ha, hb]

/-- every memory object is the first object of its slot, or the NUMA node behind a memory-side cache -/
theorem mem_kind (t : Topo) (o : Obj) (ho : o ∈ (toDump t).objs) :
    (∃ d k, d ≤ (mkTab t).D ∧ k < nOf (mkTab t) d ∧ o = normalObj (envOf t) d k) ∨
    (∃ d k s, d ≤ (mkTab t).D ∧ k < nOf (mkTab t) d ∧ s < memLen (mkTab t) d ∧ o = firstObj (envOf t) d k s) ∨
    (∃ d k s, d ≤ (mkTab t).D ∧ k < nOf (mkTab t) d ∧ s < memLen (mkTab t) d ∧ (slotM (envOf t) d s).msc ≠ 0 ∧ o = numaObj (envOf t) d k s) := by
  cases objs_kind t o ho with
  | normal d k hd hk e => exact .inl ⟨d, k, hd, hk, e⟩
  | numa d k s hd hk hs e =>
    by_cases hm : (slotM (envOf t) d s).msc ≠ 0
    · exact .inr (.inr ⟨d, k, s, hd, hk, hs, hm, e⟩)
    · exact .inr (.inl ⟨d, k, s, hd, hk, hs, by unfold firstObj; rw [if_neg hm]; exact e⟩)
  | mc d k s hd hk hs hm e => exact .inr (.inl ⟨d, k, s, hd, hk, hs, by unfold firstObj; rw [if_pos hm]; exact e⟩)

section
variable (t : Topo) (h : OK t)
include h

theorem cl_special_list_links (o : Obj) (ho : o ∈ (toDump t).objs) :
    (fun (d : Dump) (_ : Aux) (o : Obj) => match d.obj? o.parent with
      | none => true
      | some p =>
        if isNormal o.type then true else
        let ar := if isMemory o.type then p.marity else if isIO o.type then p.ioarity else p.miscarity
        let first := if isMemory o.type then p.memFirst else if isIO o.type then p.ioFirst else p.miscFirst
        decide (o.rank < ar) && ((o.rank == 0) == (first == (o.id : Int))) && ((o.rank == 0) == (o.prevSib == -1)) &&
        (match d.obj? o.nextSib with
          | none => o.nextSib == -1 && o.rank + 1 == ar
          | some nx => nx.parent == o.parent && sameKind nx.type o.type && nx.rank == o.rank + 1 && nx.prevSib == (o.id : Int)) &&
        (match d.obj? o.prevSib with
          | none => o.prevSib == -1
          | some pv => pv.parent == o.parent && sameKind pv.type o.type && pv.rank + 1 == o.rank && pv.nextSib == (o.id : Int)))
      (toDump t) (mkAux (toDump t)) o = true := by
  rcases mem_kind t o ho with ⟨d, k, hd, hk, e⟩ | ⟨d, k, s, hd, hk, hs, e⟩ | ⟨d, k, s, hd, hk, hs, hm, e⟩
  · cases d with
    | zero => rw [e]; rfl
    | succ d =>
      have hd' : d < (mkTab t).D := hd
      simp only [e, lookup_parent_normal t d k hd' hk, normalObj_type, ntype_normal t h (d + 1) hd, if_true]
  · -- the first object of slot s of (d, k)
    have hf := firstObj_fields (envOf t) d k s
    have hty := firstObj_type (envOf t) d k s
    have hs' : s < memLen (envOf t).T d := hs
    have hlp : (toDump t).obj? ((nid (envOf t).T d k : Nat) : Int) = some (normalObj (envOf t) d k) := lookup_normal t d k hd hk
    have hpos : memLen (envOf t).T d > 0 := by omega
    simp only [e, hf.2.1, hlp, hty.1, hty.2, Bool.false_eq_true, if_false, if_true, normalObj_marity, normalObj_memFirst, if_pos hpos,
      hf.1, hf.2.2.1, hf.2.2.2.1, hf.2.2.2.2.1, hs', decide_true, Bool.true_and, Bool.and_eq_true]
    refine ⟨⟨⟨?_, ?_⟩, ?_⟩, ?_⟩
    · rcases Nat.eq_zero_or_pos s with h0 | h0
      · subst h0; simp
      · have := memId_mono (envOf t).T d k s 0 (by omega)
        have h1 : (s == 0) = false := by simp; omega
        have h2 : (((memId (envOf t).T d k 0 : Nat) : Int) == ((memId (envOf t).T d k s : Nat) : Int)) = false := by
          simp only [Nat.zero_add] at this
          simp only [beq_eq_false_iff_ne, ne_eq]; omega
        rw [h1, h2]; rfl
    · rcases Nat.eq_zero_or_pos s with h0 | h0
      · subst h0; simp
      · have h1 : (s == 0) = false := by simp; omega
        rw [h1, if_pos h0]
        have h2 : (((memId (envOf t).T d k (s - 1) : Nat) : Int) == -1) = false := by
          simp only [beq_eq_false_iff_ne, ne_eq]; omega
        rw [h2]; rfl
    · by_cases hn : s + 1 < memLen (envOf t).T d
      · have hl : (toDump t).obj? ((memId (envOf t).T d k (s + 1) : Nat) : Int) = some (firstObj (envOf t) d k (s + 1)) :=
          lookup_first t d k (s + 1) hd hk hn
        have hf' := firstObj_fields (envOf t) d k (s + 1)
        have hty' := firstObj_type (envOf t) d k (s + 1)
        rw [if_pos hn, hl]
        simp only [hf'.2.1, hf'.2.2.1, hf'.2.2.2.2.1, sameKind_mem _ _ hty'.2 hty.2, Nat.add_sub_cancel, beq_self_eq_true,
          Bool.and_self, Nat.succ_pos, gt_iff_lt, if_true, Nat.zero_lt_succ]
      · rw [if_neg hn, obj?_neg1]
        simp only [beq_self_eq_true, Bool.true_and, beq_iff_eq]; omega
    · rcases Nat.eq_zero_or_pos s with h0 | h0
      · subst h0; simp only [Nat.lt_irrefl, gt_iff_lt, if_false, obj?_neg1, beq_self_eq_true]
      · have hs1 : s - 1 < memLen (envOf t).T d := by omega
        have hl : (toDump t).obj? ((memId (envOf t).T d k (s - 1) : Nat) : Int) = some (firstObj (envOf t) d k (s - 1)) :=
          lookup_first t d k (s - 1) hd hk hs1
        have hf' := firstObj_fields (envOf t) d k (s - 1)
        have hty' := firstObj_type (envOf t) d k (s - 1)
        have e1 : s - 1 + 1 = s := by omega
        rw [if_pos h0, hl]
        simp only [hf'.2.1, hf'.2.2.1, hf'.2.2.2.1, sameKind_mem _ _ hty'.2 hty.2, e1, hs', if_true, beq_self_eq_true, Bool.and_self]
  · -- the NUMA node behind a memory-side cache
    have hn := numaObj_mc (envOf t) d k s hm
    have hlp : (toDump t).obj? ((memId (envOf t).T d k s : Nat) : Int) = some (mcObj (envOf t) d k s) := lookup_mc t d k s hd hk hs hm
    have hty : (numaObj (envOf t) d k s).type = tNUMA := rfl
    have hmc : (mcObj (envOf t) d k s).marity = 1 ∧ (mcObj (envOf t) d k s).memFirst = ((numaId (envOf t).T d k s : Nat) : Int) := ⟨rfl, rfl⟩
    have hid : numaId (envOf t).T d k s = memId (envOf t).T d k s + 1 := hn.1
    simp only [e, hn.2.1, hlp, hty, hn.2.2.1, hn.2.2.2.1, hn.2.2.2.2, hmc.1, hmc.2, hn.1, hid, obj?_neg1]
    have h1 : isNormal tNUMA = false := rfl
    have h2 : isMemory tNUMA = true := rfl
    simp [h1, h2]

end

end Hw.Syn
