/-
  Hw.Io.SyntheticWF7 — `type-depth-inverse` (the type → depth table is the inverse of the level table) and `numa-allowed`,
  `numa-exists` for `toDump t`, for every `t` with `topoOK t`.
-/
import Hw.Io.SyntheticWF6
namespace Hw.Syn
open Hw Hw.Topo

set_option linter.unusedSectionVars false
set_option linter.unusedSimpArgs false

theorem toDump_typeDepths (t : Topo) : (toDump t).typeDepths = (List.range tMAX).map (fun ty =>
    match specialDepth ty with
    | some sd => sd
    | none =>
      match (List.range ((mkTab t).D + 1)).filter (fun d => (mkTab t).types[d]?.getD 99 == ty) with
      | [] => -1
      | [d] => (d : Int)
      | _ => -2) := rfl

theorem special_filter_empty (t : Topo) (ty : Nat) :
    (specialLevels t).filter (fun l => decide (0 ≤ l.depth) && l.type == (ty : Int)) = [] := by
  simp [specialLevels]

section
variable (t : Topo) (h : OK t)
include h

theorem types_get99 (d : Nat) (hd : d ≤ (mkTab t).D) : (mkTab t).types[d]?.getD 99 = (mkTab t).types[d]?.getD 0 := by
  have hl : d < (mkTab t).types.length := by
    show d < (tMACHINE :: t.levels.map NLevel.type).length
    rw [mkTab_D] at hd; simp; omega
  rw [List.getElem?_eq_getElem hl]; rfl

theorem normal_filter (ty : Nat) :
    ((List.range ((mkTab t).D + 1)).map (normalLevel t)).filter (fun l => decide (0 ≤ l.depth) && l.type == (ty : Int)) =
    ((List.range ((mkTab t).D + 1)).filter (fun d => (mkTab t).types[d]?.getD 99 == ty)).map (normalLevel t) := by
  rw [List.filter_map]
  congr 1
  apply List.filter_congr
  intro d hd
  have hd' : d ≤ (mkTab t).D := by have := List.mem_range.1 hd; omega
  show (decide ((0 : Int) ≤ (d : Int)) && (((mkTab t).types[d]?.getD 0 : Nat) : Int) == (ty : Int)) = ((mkTab t).types[d]?.getD 99 == ty)
  rw [types_get99 t h d hd']
  have : decide ((0 : Int) ≤ (d : Int)) = true := by simp
  rw [this, Bool.true_and]
  by_cases hh : (mkTab t).types[d]?.getD 0 = ty
  · simp [hh]
  · have h1 : ((mkTab t).types[d]?.getD 0 == ty) = false := by simp [hh]
    rw [h1]
    simp only [beq_eq_false_iff_ne, ne_eq]
    intro h2; exact hh (by exact_mod_cast h2)

theorem tc_type_depth_inverse : (fun (d : Dump) (_ : Aux) => d.typeDepths.length == tMAX &&
      (List.range tMAX).all (fun t =>
        let td := (d.typeDepths[t]?).getD 0
        match specialDepth t with
        | some sd => td == sd
        | none =>
          let ls := d.levels.filter (fun l => decide (0 ≤ l.depth) && l.type == (t : Int))
          match ls with
          | [] => td == -1
          | [l] => td == l.depth
          | _ => td == -2)) (toDump t) (mkAux (toDump t)) = true := by
  simp only [Bool.and_eq_true, beq_iff_eq, List.all_eq_true, List.mem_range]
  refine ⟨(toDump_levels_listed t).2, ?_⟩
  intro ty hty
  rw [toDump_typeDepths, toDump_levels, List.filter_append, special_filter_empty, List.append_nil, normal_filter t h]
  simp only [List.getElem?_map, List.getElem?_range hty, Option.map_some, Option.getD_some]
  cases hsd : specialDepth ty with
  | some sd => simp
  | none =>
    simp only
    generalize (List.range ((mkTab t).D + 1)).filter (fun d => (mkTab t).types[d]?.getD 99 == ty) = F
    match F with
    | [] => simp
    | [d] => simp [normalLevel]
    | a :: b :: r => simp

end

/-- the third side condition: the topology has a NUMA node -/
def memOK (t : Topo) : Bool := (List.range (t.levels.length + 1)).any (fun e => decide (0 < memLen (mkTab t) e))

theorem own_numa_length (T : DTab) (d k : Nat) : (specialIds.own T true d k).length = memLen T d := by
  unfold specialIds.own memLen
  generalize T.mem[d]?.getD [] = ms
  have : ∀ n, ((List.range n).filterMap (fun s =>
      if true = true then some (numaId T d k s : Int) else if (ms[s]?.getD ⟨0, 0⟩).msc ≠ 0 then some (memId T d k s : Int) else none)).length = n := by
    intro n
    induction n with
    | zero => rfl
    | succ n ih => rw [List.range_succ, List.filterMap_append, List.length_append, ih]; simp
  exact this ms.length

section
variable (t : Topo) (h : OK t)
include h

theorem specialIds_nonempty : ∀ f d k e, d + f = (mkTab t).D + 1 → d ≤ e → e ≤ (mkTab t).D → 0 < memLen (mkTab t) e →
    specialIds (mkTab t) true f d k ≠ [] := by
  intro f
  induction f with
  | zero => intro d k e h1 h2 h3; omega
  | succ f ih =>
    intro d k e h1 h2 h3 h4
    unfold specialIds
    by_cases hde : d = e
    · subst hde
      intro hnil
      have := congrArg List.length hnil
      rw [List.length_append, own_numa_length] at this
      simp at this; omega
    · have hd : d < (mkTab t).D := by omega
      have ha : 1 ≤ arOf (mkTab t) d := by rw [arOf_lt t d hd]; exact h.ar d hd
      rw [if_pos hd]
      intro hnil
      rw [List.append_eq_nil_iff] at hnil
      have h0 := hnil.1
      rw [List.flatMap_eq_nil_iff] at h0
      have := h0 0 (List.mem_range.2 ha)
      exact ih (d + 1) _ e (by omega) (by omega) h3 h4 this

theorem tc_numa_exists (hm : memOK t = true) : (fun (d : Dump) (_ : Aux) => match levelOf d (-3) with
      | some l => !l.objs.isEmpty
      | none => false) (toDump t) (mkAux (toDump t)) = true := by
  have hl : levelOf (toDump t) (-3) = some ⟨-3, 14, (envOf t).numaL⟩ := by rw [levelOf_special t (-3) (by decide)]; rfl
  simp only [hl]
  unfold memOK at hm
  rw [List.any_eq_true] at hm
  obtain ⟨e, he, hpos⟩ := hm
  have he' : e ≤ (mkTab t).D := by have := List.mem_range.1 he; rw [mkTab_D]; omega
  have := specialIds_nonempty t h ((mkTab t).D + 1) 0 0 e (by omega) (Nat.zero_le _) he' (by simpa using hpos)
  simp only [Bool.not_eq_true', List.isEmpty_eq_false_iff]
  exact this

theorem numa_pos_in_root (d k s : Nat) (hd : d ≤ (mkTab t).D) (hk : k < nOf (mkTab t) d) (hs : s < memLen (mkTab t) d) :
    postPos (mkTab t) (numaCnt (mkTab t)) d k s ∈ numaPositions (envOf t) 0 0 := by
  unfold numaPositions
  simp only [envOf_T]
  rw [List.mem_flatMap]
  refine ⟨d, List.mem_range.2 (by omega), ?_⟩
  have hn0 : (mkTab t).n[0]?.getD 1 = 1 := nOf_zero t
  have hnd : (mkTab t).n[d]?.getD 1 = nOf (mkTab t) d := rfl
  rw [hn0, hnd, Nat.div_one, List.mem_flatMap]
  refine ⟨k, ?_, List.mem_map.2 ⟨s, List.mem_range.2 hs, rfl⟩⟩
  by_cases hd0 : d = 0
  · subst hd0
    rw [nOf_zero] at hk
    have : k = 0 := by omega
    subst this; simp
  · rw [if_pos (by omega)]
    simp only [Nat.zero_mul, Nat.add_zero, List.map_id', List.mem_range]
    exact hk

theorem cl_numa_allowed (o : Obj) (ho : o ∈ (toDump t).objs) :
    (fun (d : Dump) (_ : Aux) (o : Obj) => if o.type == tNUMA && !flagIncludeDisallowed d then
      subset (o.nodeset.getD 0) (d.allowedNodeset.getD 0) else true) (toDump t) (mkAux (toDump t)) o = true := by
  have hal : (toDump t).allowedNodeset = some (nodesetOf (envOf t) 0 0) := rfl
  simp only [hal, Option.getD_some]
  split
  · rename_i hc
    cases objs_kind t o ho with
    | normal d k hd hk e =>
      rw [e, normalObj_type] at hc
      have := (normal_facts _ (isNormal_lt _ (ntype_normal t h d hd))).1
      simp [this] at hc
    | numa d k s hd hk hs e =>
      have hns : (numaObj (envOf t) d k s).nodeset = some (1 <<< (t.numaIdx[postPos (mkTab t) (numaCnt (mkTab t)) d k s]?.getD 0)) := rfl
      rw [e, hns, Option.getD_some, subset_iff]
      intro b hb
      rw [testBit_single] at hb
      simp only [decide_eq_true_eq] at hb
      unfold nodesetOf
      rw [testBit_orBits]
      simp only [List.contains_eq_mem, List.mem_map, decide_eq_true_eq]
      exact ⟨_, numa_pos_in_root t h d k s hd hk hs, by rw [← hb]; rfl⟩
    | mc d k s hd hk hs hm e =>
      rw [e] at hc
      have : ((mcObj (envOf t) d k s).type == tNUMA) = false := rfl
      rw [this] at hc; simp at hc
  · rfl

end

end Hw.Syn
