/-
  Hw.Io.X86Dump — the CPUID-dump reading layer of hwloc/topology-x86.c (HWLOC_CPUID_PATH):

    cpuiddump_read                    count the fgets lines (char line[128]), malloc(nr * sizeof(entry)), rewind,
                                      per fgets line: skip `#` lines, sscanf("%x %x %x %x %x => %x %x %x %x") straight
                                      into entries[nr], `nr++` only when all 9 conversions succeeded
    cpuiddump_find_by_input           first entry (from index 0) whose masked inputs equal the query, else zeros
    cpuiddump_free                    `if (nr) free(entries)`
    hwloc_x86_check_cpuiddump_input   summary file `hwloc-cpuid-info` (fgets into char line[32], strncmp 17),
                                      `pu<strtoul base 10>` directory entries, contiguous-from-0 rule

  NOTE (the code that exists): there is NO rotating `cur` start index in the current cpuiddump_find_by_input:
  the scan always starts at entry 0 and the function is pure in (table, query).  What an implementation
  that started anywhere else would need is stated as `Unamb` (see X86DumpLemmas.find_perm).

  Files are byte lists.  The stores into `entries[]` go through a CHECKED memory (`fillStep` answers `none`
  for a store at or above the allocated count = undefined behaviour); the safety theorem says `none` never
  happens.  glibc 2.36 `sscanf("%x")` is modelled by `scanX` (trusted base, differential-tested on every run).
-/
import Hw.Io.LinuxCgroup
namespace Hw.X86Dump
open Hw Hw.LinuxParse Hw.LinuxCgroup

/-! ### libc: sscanf("%x") into an `unsigned *`, literal matching -/

def skipWs (s : List Byte) : List Byte := s.dropWhile isSpace

/-- optional sign: (negative?, rest) -/
def splitSign (s : List Byte) : Bool × List Byte :=
  match s with
  | 45 :: r => (true, r)
  | 43 :: r => (false, r)
  | _ => (false, s)

/-- value stored through the `unsigned *`: strtoul of the collected characters (saturating at ULONG_MAX,
negation modulo 2^64), truncated to 32 bits -/
def storeVal (neg : Bool) (v : Nat) : Nat := signedVal neg v % 2^32

/-- glibc `%x`: white space, optional sign, then either `0x`/`0X` (both consumed, the `0` is already a
digit: the conversion cannot fail any more) + hexadecimal digits, or at least one hexadecimal digit.
`none` = matching failure (or end of input). -/
def scanX (s : List Byte) : Option (Nat × List Byte) :=
  let sg := splitSign (skipWs s)
  match sg.2 with
  | 48 :: x :: r =>
    if x = 120 ∨ x = 88 then
      some (storeVal sg.1 (takeDigits 16 r 0 0).1, (takeDigits 16 r 0 0).2.2)
    else
      some (storeVal sg.1 (takeDigits 16 sg.2 0 0).1, (takeDigits 16 sg.2 0 0).2.2)
  | _ =>
    if (takeDigits 16 sg.2 0 0).2.1 = 0 then none
    else some (storeVal sg.1 (takeDigits 16 sg.2 0 0).1, (takeDigits 16 sg.2 0 0).2.2)

/-- `k` consecutive `%x` (separated by ` ` directives, which `%x` subsumes): the values converted, in
order, and the rest of the input when all `k` succeeded -/
def scanXs : Nat → List Byte → List Nat × Option (List Byte)
  | 0, s => ([], some s)
  | k+1, s =>
    match scanX s with
    | none => ([], none)
    | some (v, r) => (v :: (scanXs k r).1, (scanXs k r).2)

/-- `sscanf(line, "%x %x %x %x %x => %x %x %x %x", …)`: the values stored, in argument order.
The return value is their number. -/
def scanLine (line : List Byte) : List Nat :=
  match scanXs 5 line with
  | (vs, none) => vs
  | (vs, some r) =>
    match skipWs r with
    | 61 :: 62 :: r2 => vs ++ (scanXs 4 r2).1
    | _ => vs

/-! ### the table -/

structure Entry where
  inmask : Nat
  ineax : Nat
  inebx : Nat
  inecx : Nat
  inedx : Nat
  outeax : Nat
  outebx : Nat
  outecx : Nat
  outedx : Nat
deriving DecidableEq, Repr, Inhabited

def Entry.setField (e : Entry) (j v : Nat) : Entry :=
  match j with
  | 0 => { e with inmask := v }
  | 1 => { e with ineax := v }
  | 2 => { e with inebx := v }
  | 3 => { e with inecx := v }
  | 4 => { e with inedx := v }
  | 5 => { e with outeax := v }
  | 6 => { e with outebx := v }
  | 7 => { e with outecx := v }
  | 8 => { e with outedx := v }
  | _ => e

/-- sscanf stores value `j` through argument `j` (`&cur->inmask`, `&cur->ineax`, …) -/
def storeFrom (e : Entry) : Nat → List Nat → Entry
  | _, [] => e
  | j, v :: vs => storeFrom (e.setField j v) (j + 1) vs

def storeFields (e : Entry) (vs : List Nat) : Entry := storeFrom e 0 vs

def Entry.ofList : List Nat → Option Entry
  | [a, b, c, d, e, f, g, h, i] => some ⟨a, b, c, d, e, f, g, h, i⟩
  | _ => none

/-! ### cpuiddump_read -/

def lineLen : Nat := 128

/-- the successive non-NULL `fgets(line, sizeof(line), file)` results (fuel: one per byte suffices) -/
def linesAux (n : Nat) : Nat → List Byte → List (List Byte)
  | 0, _ => []
  | fuel+1, s => if s = [] then [] else (fgets n s).1 :: linesAux n fuel (fgets n s).2

def lines (content : List Byte) : List (List Byte) := linesAux lineLen content.length content

structure RState where
  mem : List Entry        -- the malloc'ed array; its length is the allocated count
  nr : Nat                -- `nr` = index of `cur`
deriving Repr

/-- `*line == '#'` -/
def isComment (ch : List Byte) : Bool := ch.head? == some 35

/-- one iteration of the second loop on the fgets result `ch`.  `none` = a store into `entries[nr]` with
`nr` at or above the allocated count. -/
def fillStep (st : Option RState) (ch : List Byte) : Option RState :=
  match st with
  | none => none
  | some st =>
    if isComment ch then some st
    else
      match st.mem[st.nr]? with
      | none => none
      | some e =>
        let vs := scanLine (cstr ch)
        some { mem := st.mem.set st.nr (storeFields e vs), nr := if vs.length = 9 then st.nr + 1 else st.nr }

/-- both passes over one file content; `init` = the malloc'ed array (arbitrary content, one cell per
fgets line of the first pass) -/
def readFill (content : List Byte) (init : List Entry) : Option RState :=
  (lines content).foldl fillStep (some { mem := init, nr := 0 })

/-- what a line contributes to the table -/
def parseLine (ch : List Byte) : Option Entry :=
  if isComment ch then none else Entry.ofList (scanLine (cstr ch))

/-- the table cpuiddump_read returns for a file content (closed form) -/
def table (content : List Byte) : List Entry := (lines content).filterMap parseLine

/-- cpuiddump_read: `none` = NULL (the file cannot be opened); the model of malloc never fails -/
def cpuiddumpRead (file : Option (List Byte)) : Option (List Entry) := file.map table

/-- cpuiddump_free releases `entries` only `if (cpuiddump->nr)`: the array (always allocated, for
`lines.length` cells — glibc's malloc(0) is a real block too) is leaked iff the final table is empty -/
def freeLeaks (t : List Entry) : Bool := t.isEmpty

/-! ### cpuiddump_find_by_input -/

abbrev Regs := Nat × Nat × Nat × Nat

def bit (m k : Nat) : Bool := (m / 2^k) % 2 == 1

def Entry.matches (e : Entry) (q : Regs) : Bool :=
  (!bit e.inmask 0 || q.1 == e.ineax) && (!bit e.inmask 1 || q.2.1 == e.inebx) &&
  (!bit e.inmask 2 || q.2.2.1 == e.inecx) && (!bit e.inmask 3 || q.2.2.2 == e.inedx)

def Entry.out (e : Entry) : Regs := (e.outeax, e.outebx, e.outecx, e.outedx)

def zeroRegs : Regs := (0, 0, 0, 0)

/-- the `for (i = 0; i < nr; i++)` loop, literally: `i` is the index examined; every `entries[i]` read
has `i < nr` -/
def findFrom (t : List Entry) (q : Regs) : Nat → Nat → Regs
  | 0, _ => zeroRegs
  | fuel+1, i =>
    match t[i]? with
    | none => zeroRegs
    | some e => if e.matches q then e.out else findFrom t q fuel (i + 1)

def findByInput (t : List Entry) (q : Regs) : Regs := findFrom t q t.length 0

/-- a query sequence (the registers are in/out: each query is independent of the previous answers' storage) -/
def findAll (t : List Entry) (qs : List Regs) : List Regs := qs.map (findByInput t)

/-- no ambiguity for `q`: all entries matching `q` answer the same -/
def Unamb (t : List Entry) (q : Regs) : Prop :=
  ∀ e1 ∈ t, ∀ e2 ∈ t, e1.matches q = true → e2.matches q = true → e1.out = e2.out

/-! ### hwloc_x86_check_cpuiddump_input -/

def archPat : List Byte := str "Architecture: x86"
def sumLineLen : Nat := 32

/-- the summary file test: fopen, `fgets(line, 32)`, `strncmp(line, "Architecture: x86", 17)` -/
def summaryOk (file : Option (List Byte)) : Bool :=
  match file with
  | none => false
  | some c =>
    if c = [] then false           -- fgets returns NULL
    else (cstr (fgets sumLineLen c).1).take 17 == archPat

/-- the bit a directory entry sets: `pu` + `strtoul(name+2, &end, 10)` with `!*end`, through the
`unsigned` parameter of hwloc_bitmap_set.  `none` = ignored. -/
def puIndex (name : List Byte) : Option Nat :=
  match cstr name with
  | 112 :: 117 :: r =>
    if (strtoulS 10 r).2 = [] then some ((strtoulS 10 r).1 % 2^32) else none
  | _ => none

def maxL : List Nat → Nat
  | [] => 0
  | x :: xs => max x (maxL xs)

/-- the members of the set, ascending -/
def setOf (idxs : List Nat) : List Nat := (List.range (maxL idxs + 1)).filter (fun i => idxs.contains i)

/-- hwloc_bitmap_weight -/
def weight (idxs : List Nat) : Nat := (List.range (maxL idxs + 1)).countP (fun i => idxs.contains i)

structure CheckRes where
  ok : Bool               -- return value 0
  idxs : List Nat         -- the indexes given to hwloc_bitmap_set, in readdir order
deriving Repr, DecidableEq

/-- `dirOk`: opendir succeeded; `summary`: content of `<dir>/hwloc-cpuid-info` if it can be opened;
`names`: the d_name of every directory entry in readdir order -/
def checkDir (dirOk : Bool) (summary : Option (List Byte)) (names : List (List Byte)) : CheckRes :=
  if !dirOk then ⟨false, []⟩
  else if !summaryOk summary then ⟨false, []⟩
  else
    let idxs := names.filterMap puIndex
    if idxs = [] then ⟨false, idxs⟩                                   -- hwloc_bitmap_iszero
    else if maxL idxs + 1 ≠ weight idxs then ⟨false, idxs⟩            -- last != weight - 1
    else ⟨true, idxs⟩

/-- `data->nbprocs = hwloc_bitmap_weight(set)` after a successful check -/
def nbprocs (r : CheckRes) : Nat := weight r.idxs

end Hw.X86Dump
