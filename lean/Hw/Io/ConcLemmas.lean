/- Hw.Io.ConcLemmas — lemmas about the reader part of the C17 model (Hw.Io.Conc). -/
import Hw.Io.Conc
namespace Hw.Conc

/-! ### refresh validates -/

theorem refreshDists_valid (ds : List DistSlot) : ∀ d ∈ refreshDists ds, d.valid = true := by
  intro d hd
  simp only [refreshDists, List.mem_filterMap] at hd
  obtain ⟨x, _, hx⟩ := hd
  by_cases hv : x.valid = true
  · simp only [hv, if_true, Option.some.injEq] at hx; subst hx; exact hv
  · by_cases hs : x.survives = true
    · simp [hv, hs] at hx
      subst hx; rfl
    · simp [hv, hs] at hx

theorem refresh_cachesValid (s : TopoState) : CachesValid (refresh s) := by
  refine ⟨refreshDists_valid s.dists, ?_⟩
  intro a ha
  simp only [refresh, List.mem_map] at ha
  obtain ⟨x, _, hx⟩ := ha
  subst hx; exact Or.inl rfl

theorem refresh_strong (s : TopoState) :
    (∀ d ∈ (refresh s).dists, d.valid = true) ∧ (∀ a ∈ (refresh s).attrs, a.valid = true) := by
  refine ⟨refreshDists_valid s.dists, ?_⟩
  intro a ha
  simp only [refresh, List.mem_map] at ha
  obtain ⟨x, _, hx⟩ := ha
  subst hx; rfl

theorem refresh_warm (s : TopoState) : (refresh s).warm = s.warm := rfl
theorem refresh_content (s : TopoState) : (refresh s).content = s.content := rfl
theorem invalidate_warm (f : Nat → Bool) (s : TopoState) : (invalidate f s).warm = s.warm := rfl

theorem refreshDists_id (ds : List DistSlot) (h : ∀ d ∈ ds, d.valid = true) : refreshDists ds = ds := by
  induction ds with
  | nil => rfl
  | cons d ds ih =>
    have hd : d.valid = true := h d (List.mem_cons_self ..)
    have ih' := ih (fun x hx => h x (List.mem_cons_of_mem _ hx))
    simp only [refreshDists] at ih' ⊢
    simp only [List.filterMap_cons, hd, if_true, ih']

/-- a second refresh changes nothing on the distances side -/
theorem refresh_idem_dists (s : TopoState) : (refresh (refresh s)).dists = (refresh s).dists :=
  refreshDists_id _ (refreshDists_valid s.dists)

theorem loadTail_cachesValid (surv surv2 : Nat → Bool) (s : TopoState) :
    CachesValid (loadTail surv surv2 false s) := by
  simp only [loadTail]
  exact refresh_cachesValid _

/-- the negative fact: when HWLOC_TOPOLOGY_FLAG_RESTRICT_TO_CPUBINDING/_MEMBINDING restricts at the end of
    load, every distances structure is left invalid. -/
theorem loadTail_binding_invalid (surv surv2 : Nat → Bool) (s : TopoState) :
    ∀ d ∈ (loadTail surv surv2 true s).dists, d.valid = false := by
  intro d hd
  simp only [loadTail, if_true, invalidate, List.mem_map] at hd
  obtain ⟨x, _, hx⟩ := hd
  subst hx; rfl

/-! ### valid state: no unlocked write -/

theorem distEvents_valid (d : DistSlot) (h : d.valid = true) : distEvents d = [rd (.dist d.id)] := by
  simp [distEvents, h]

theorem distsEvents_valid (ds : List DistSlot) (h : ∀ d ∈ ds, d.valid = true) :
    ∀ e ∈ distsEvents ds, e.acc = .R := by
  intro e he
  simp only [distsEvents, List.mem_cons, List.mem_flatMap] at he
  rcases he with rfl | ⟨d, hd, hed⟩
  · rfl
  · rw [distEvents_valid d (h d hd)] at hed
    simp only [List.mem_singleton] at hed
    subst hed; rfl

theorem refreshes_false (q : MemQ) (a : AttrSlot)
    (h : a.valid = true ∨ (a.conv = true ∧ a.needInit = false)) : refreshes q a = false := by
  rcases h with h | ⟨h, hn⟩
  · simp [refreshes, h]
  · cases q <;> simp [refreshes, reachesTest, h, hn]

theorem staticEvents_warm (s : TopoState) (hw : Warm s) (c : StaticCache) : staticEvents s c = [rd (.static c)] := by
  simp [staticEvents, hw c]

/-- an access that cannot take part in a race between consulting calls: a plain read of topology data, or an
    access to the component registry made under the components mutex -/
def benign (e : Event) : Bool := (e.acc == .R && e.loc != .registry) || (e.locked && e.loc == .registry)

theorem benign_rd (l : Loc) (h : l ≠ .registry) : benign (rd l) = true := by
  simp [benign, rd, h]

theorem benign_lockedRegistry : benign lockedRegistry = true := by decide

theorem distsEvents_benign (ds : List DistSlot) (h : ∀ d ∈ ds, d.valid = true) :
    ∀ e ∈ distsEvents ds, benign e = true := by
  intro e he
  simp only [distsEvents, List.mem_cons, List.mem_flatMap] at he
  rcases he with rfl | ⟨d, hd, hed⟩
  · decide
  · rw [distEvents_valid d (h d hd)] at hed
    simp only [List.mem_singleton] at hed
    subst hed; exact benign_rd _ (by simp)

/-- P0 valid_readers_write_free: in a valid state every access of every consulting call is a read of topology
    data, or an access to the registry under the components mutex. -/
theorem events_valid (s : TopoState) (hv : Valid s) (r : Reader) :
    ∀ e ∈ events s r, benign e = true := by
  obtain ⟨⟨hd, ha⟩, hw⟩ := hv
  intro e he
  cases r with
  | pure f =>
    cases f <;> simp only [events, List.mem_cons, List.not_mem_nil, or_false] at he <;>
      (first | (subst he; decide) | (rcases he with rfl | rfl <;> decide))
  | distancesGet ok =>
    cases ok
    · simp only [events, List.mem_singleton] at he; subst he; decide
    · simp only [events, List.mem_cons] at he
      rcases he with rfl | he
      · decide
      · exact distsEvents_benign s.dists hd e he
  | memattrQuery q id ok =>
    cases ok
    · simp only [events, Bool.not_false, if_true, List.mem_singleton] at he; subst he; decide
    · simp only [events, Bool.not_true, Bool.false_eq_true, if_false] at he
      cases hg : s.attrs[id]? with
      | none => simp only [hg, List.mem_singleton] at he; subst he; decide
      | some a =>
        have hmem : a ∈ s.attrs := List.mem_of_getElem? hg
        simp only [hg, refreshes_false q a (ha a hmem), Bool.false_eq_true, if_false, List.mem_cons,
          List.not_mem_nil, or_false] at he
        rcases he with rfl | rfl
        · decide
        · exact benign_rd _ (by simp)
  | exportXml ok =>
    cases ok
    · simp only [events, List.mem_singleton] at he; subst he; decide
    · simp only [events, List.mem_cons, List.mem_append, List.mem_flatMap, List.mem_map, List.mem_range,
        List.not_mem_nil, or_false] at he
      rcases he with rfl | rfl | ((⟨c, _, hc⟩ | he) | ⟨i, _, rfl⟩) | rfl | rfl
      · decide
      · decide
      · rw [staticEvents_warm s hw c] at hc
        simp only [List.mem_singleton] at hc; subst hc; exact benign_rd _ (by simp)
      · exact distsEvents_benign s.dists hd e he
      · exact benign_rd _ (by simp)
      · decide
      · decide

theorem benign_not_unlocked_write (e : Event) (h : benign e = true) : (e.acc == .W && !e.locked) = false := by
  cases e with | mk l a k => cases a <;> cases k <;> simp_all [benign]

theorem unlockedWrites_valid (s : TopoState) (hv : Valid s) (r : Reader) : unlockedWrites (events s r) = [] := by
  simp only [unlockedWrites, List.map_eq_nil_iff, List.filter_eq_nil_iff]
  intro e he
  simp [benign_not_unlocked_write e (events_valid s hv r e he)]

theorem conflict_of_benign (a b : Event) (ha : benign a = true) (hb : benign b = true) : conflict a b = false := by
  cases a with | mk la aa ka => cases b with | mk lb ab kb =>
  cases aa <;> cases ab <;> cases ka <;> cases kb <;> simp_all [benign, conflict] <;>
    (intro h; simp_all)

/-! ### every schedule from a valid state -/

structure SysInv (s0 : TopoState) (y : Sys) : Prop where
  st : y.st = s0
  pend : ∀ th ∈ y.thr, ∀ p, th.pending = some p → p.snap = s0
  tr : ∀ e ∈ y.trace, e.snap = s0 ∧ e.events = events s0 e.reader

theorem mem_set_cases {α} (l : List α) (i : Nat) (x y : α) (h : y ∈ l.set i x) : y = x ∨ y ∈ l := by
  rcases List.mem_or_eq_of_mem_set h with h | h
  · exact Or.inr h
  · exact Or.inl h

theorem step_sysInv (s0 : TopoState) (hv : Valid s0) (y : Sys) (t : Nat) (h : SysInv s0 y) :
    SysInv s0 (step y t) := by
  cases hg : y.thr[t]? with
  | none => simp only [step, hg]; exact h
  | some th =>
    have hth : th ∈ y.thr := List.mem_of_getElem? hg
    cases hp : th.pending with
    | some p =>
      have hsnap : p.snap = s0 := h.pend th hth p hp
      simp only [step, hg, hp]
      refine ⟨?_, ?_, ?_⟩
      · simp only [hsnap, unlockedWrites_valid s0 hv, applyWrites, List.foldl_nil]; exact h.st
      · intro th' hth' p' hp'
        rcases mem_set_cases _ _ _ _ hth' with rfl | hm
        · simp at hp'
        · exact h.pend th' hm p' hp'
      · intro e he
        simp only [List.mem_append, List.mem_singleton] at he
        rcases he with he | rfl
        · exact h.tr e he
        · exact ⟨hsnap, by simp only [hsnap]⟩
    | none =>
      cases hpr : th.prog with
      | nil => simp only [step, hg, hp, hpr]; exact h
      | cons r rest =>
        simp only [step, hg, hp, hpr]
        refine ⟨h.st, ?_, h.tr⟩
        intro th' hth' p' hp'
        rcases mem_set_cases _ _ _ _ hth' with rfl | hm
        · simp only [Option.some.injEq] at hp'; subst hp'; exact h.st
        · exact h.pend th' hm p' hp'

theorem start_sysInv (s0 : TopoState) (progs : List (List Reader)) : SysInv s0 (start s0 progs) := by
  refine ⟨rfl, ?_, ?_⟩
  · intro th hth p hp
    simp only [start, List.mem_map] at hth
    obtain ⟨_, _, rfl⟩ := hth
    simp at hp
  · intro e he; simp [start] at he

theorem run_sysInv (s0 : TopoState) (hv : Valid s0) (sched : List Nat) (y : Sys) (h : SysInv s0 y) :
    SysInv s0 (run y sched) := by
  induction sched generalizing y with
  | nil => exact h
  | cons t ts ih => exact ih (step y t) (step_sysInv s0 hv y t h)

theorem raceFree_of_sysInv (s0 : TopoState) (hv : Valid s0) (y : Sys) (h : SysInv s0 y) : RaceFree y.trace := by
  intro a ha b hb _ e₁ he₁ e₂ he₂
  rw [(h.tr a ha).2] at he₁
  rw [(h.tr b hb).2] at he₂
  exact conflict_of_benign _ _ (events_valid s0 hv _ _ he₁) (events_valid s0 hv _ _ he₂)

/-! ### without the refresh there is a race -/

theorem distEvents_invalid_has_write (d : DistSlot) (h : d.valid = false) : wr (.dist d.id) ∈ distEvents d := by
  simp [distEvents, h]

theorem events_get_invalid (s : TopoState) (d : DistSlot) (hd : d ∈ s.dists) (h : d.valid = false) :
    wr (.dist d.id) ∈ events s (.distancesGet true) := by
  simp only [events, distsEvents, List.mem_cons, List.mem_flatMap]
  exact Or.inr (Or.inr ⟨d, hd, distEvents_invalid_has_write d h⟩)

/-- the 4-step schedule: both threads observe, then both commit -/
theorem run_two_getters (s : TopoState) :
    (run (start s [[.distancesGet true], [.distancesGet true]]) [0, 1, 0, 1]).trace =
      [{ tid := 0, reader := .distancesGet true, snap := s, events := events s (.distancesGet true) },
       { tid := 1, reader := .distancesGet true, snap := s, events := events s (.distancesGet true) }] := by
  simp [run, start, step]

end Hw.Conc
